/-
Value theorems about the REGENERATED field-level programs of curve/models.go (serial backend): the Niels, completed and
projective formulas, each stated as what it contributes to the extended-coordinate group law of `Proofs/EdwardsExt`.
-/
import Voi.Props.FL.Curve
import Voi.Gen.FL_CurveF64_AddEdwardsProjectiveNiels
import Voi.Gen.FL_CurveF64_SubEdwardsProjectiveNiels
import Voi.Gen.FL_CurveF64_AddEdwardsAffineNiels
import Voi.Gen.FL_CurveF64_SubEdwardsAffineNiels
import Voi.Gen.FL_CurveF64_AddCompletedAffineNiels
import Voi.Gen.FL_CurveF64_SubCompletedAffineNiels
import Voi.Gen.FL_CurveF64_CompletedDouble
import Voi.Gen.FL_CurveF64_setCompleted
import Voi.Gen.FL_CurveF64_ProjSetCompleted
import Voi.Gen.FL_CurveF64_setProjective
import Voi.Gen.FL_CurveF64_setAffineNiels
import Voi.Gen.FL_CurveF64_PNielsSetEdwards
import Voi.Gen.FL_CurveF64_ANielsSetEdwards
import Voi.Gen.FL_CurveF64_PNielsConditionalNegate
import Voi.Gen.FL_CurveF64_ANielsConditionalNegate
import Voi.Gen.FL_CurveF64_EdwardsConditionalSelect
namespace Voi.Props.FL
open Voi.Spec Voi.Proofs Voi.Props.C07 Voi.Gen.CurveF64

local notation "toZ" => Voi.Props.C07.toZ

def zl (l : List Nat) (i : Nat) : F25519 := toZ (l.getD i 0)

/-- a completed point ((X:Z),(Y:T)) as the extended point `setCompleted` turns it into -/
def cmpToExt (c : List Nat) : ExtK F25519 := ⟨zl c 0 * zl c 3, zl c 1 * zl c 2, zl c 2 * zl c 3, zl c 0 * zl c 1⟩

macro "fl_simp" : tactic => `(tactic| simp only [extOfList, cmpToExt, zl, List.getD_cons_zero, List.getD_cons_succ, List.getD_nil,
  toZ_mul, toZ_add, toZ_sub, toZ_sq, toZ_sq2, toZ_neg, toZ_one, toZ_zero, const_d2, toZ_d2, toZ_inv', ExtK.add, ExtK.dbl, ExtK.neg,
  ExtK.zero, ExtK.ofAffine, extToK])

theorem setCompleted_eq (c0 c1 c2 c3 : Nat) : extOfList (setCompleted_sh c0 c1 c2 c3) = cmpToExt [c0, c1, c2, c3] := by
  simp only [setCompleted_sh]; fl_simp

theorem ProjSetCompleted_eq (c0 c1 c2 c3 : Nat) :
    let o := ProjSetCompleted_sh c0 c1 c2 c3; let e := cmpToExt [c0, c1, c2, c3]
    zl o 0 = e.X ∧ zl o 1 = e.Y ∧ zl o 2 = e.Z := by
  simp only [ProjSetCompleted_sh]; fl_simp; exact ⟨trivial, trivial, trivial⟩

/-- projective → extended: (X:Y:Z) ↦ (XZ : YZ : Z² : XY) -/
theorem setProjective_eq (X Y Z : Nat) :
    extOfList (setProjective_sh X Y Z) = ⟨toZ X * toZ Z, toZ Y * toZ Z, toZ Z * toZ Z, toZ X * toZ Y⟩ := by
  simp only [setProjective_sh]; fl_simp

/-- **AddEdwardsProjectiveNiels ∘ (projectiveNielsPoint).SetEdwards**, completed, is add-2008-hwcd-3 -/
theorem AddEdwardsProjectiveNiels_eq (P Q : Ext) :
    (let n := PNielsSetEdwards_sh Q.X Q.Y Q.Z Q.T
     cmpToExt (AddEdwardsProjectiveNiels_sh P.X P.Y P.Z P.T (n.getD 0 0) (n.getD 1 0) (n.getD 2 0) (n.getD 3 0))) =
      ExtK.add (d25519 + d25519) (extToK P) (extToK Q) := by
  simp only [PNielsSetEdwards_sh, AddEdwardsProjectiveNiels_sh]; fl_simp
  apply ExtK.ext' <;> ring

theorem SubEdwardsProjectiveNiels_eq (P Q : Ext) :
    (let n := PNielsSetEdwards_sh Q.X Q.Y Q.Z Q.T
     cmpToExt (SubEdwardsProjectiveNiels_sh P.X P.Y P.Z P.T (n.getD 0 0) (n.getD 1 0) (n.getD 2 0) (n.getD 3 0))) =
      ExtK.add (d25519 + d25519) (extToK P) (ExtK.neg (extToK Q)) := by
  simp only [PNielsSetEdwards_sh, SubEdwardsProjectiveNiels_sh]; fl_simp
  apply ExtK.ext' <;> ring

/-- negating a projective Niels point: swap Y±X, negate 2dT — the Niels form of −Q -/
theorem PNielsConditionalNegate_eq (n0 n1 n2 n3 c : Nat) :
    PNielsConditionalNegate_sh n0 n1 n2 n3 c = if c = 0 then [n0, n1, n2, n3] else [n1, n0, n2, Fp.neg n3] := by
  simp only [PNielsConditionalNegate_sh, FIR.sel]; split <;> rfl

theorem ANielsConditionalNegate_eq (n0 n1 n2 c : Nat) :
    ANielsConditionalNegate_sh n0 n1 n2 c = if c = 0 then [n0, n1, n2] else [n1, n0, Fp.neg n2] := by
  simp only [ANielsConditionalNegate_sh, FIR.sel]; split <;> rfl

theorem EdwardsConditionalSelect_eq (a0 a1 a2 a3 b0 b1 b2 b3 c : Nat) :
    EdwardsConditionalSelect_sh a0 a1 a2 a3 b0 b1 b2 b3 c = if c = 0 then [a0, a1, a2, a3] else [b0, b1, b2, b3] := by
  simp only [EdwardsConditionalSelect_sh, FIR.sel]; split <;> rfl

theorem add_comm' (a b : Nat) : Fp.add a b = Fp.add b a := by unfold Fp.add; rw [Nat.add_comm]

/-- the affine Niels form (y+x, y−x, 2dxy) of an affine point -/
def aniels (x y : Nat) : List Nat := [Fp.add y x, Fp.sub y x, Fp.mul (Fp.mul x y) Fp.d2]

/-- **AddEdwardsAffineNiels**, completed, adds the affine point -/
theorem AddEdwardsAffineNiels_eq (P : Ext) (x y : Nat) :
    cmpToExt (AddEdwardsAffineNiels_sh P.X P.Y P.Z P.T ((aniels x y).getD 0 0) ((aniels x y).getD 1 0) ((aniels x y).getD 2 0)) =
      ExtK.add (d25519 + d25519) (extToK P) (ExtK.ofAffine (toZ x) (toZ y)) := by
  simp only [aniels, AddEdwardsAffineNiels_sh]; fl_simp
  apply ExtK.ext' <;> ring

theorem SubEdwardsAffineNiels_eq (P : Ext) (x y : Nat) :
    cmpToExt (SubEdwardsAffineNiels_sh P.X P.Y P.Z P.T ((aniels x y).getD 0 0) ((aniels x y).getD 1 0) ((aniels x y).getD 2 0)) =
      ExtK.add (d25519 + d25519) (extToK P) (ExtK.neg (ExtK.ofAffine (toZ x) (toZ y))) := by
  simp only [aniels, SubEdwardsAffineNiels_sh]; fl_simp
  apply ExtK.ext' <;> ring

/-- the completed-operand variants first convert with `setCompleted` -/
theorem AddCompletedAffineNiels_eq (c0 c1 c2 c3 n0 n1 n2 : Nat) :
    AddCompletedAffineNiels_sh c0 c1 c2 c3 n0 n1 n2 =
      (let e := setCompleted_sh c0 c1 c2 c3
       AddEdwardsAffineNiels_sh (e.getD 0 0) (e.getD 1 0) (e.getD 2 0) (e.getD 3 0) n0 n1 n2) := rfl

theorem SubCompletedAffineNiels_eq (c0 c1 c2 c3 n0 n1 n2 : Nat) :
    SubCompletedAffineNiels_sh c0 c1 c2 c3 n0 n1 n2 =
      (let e := setCompleted_sh c0 c1 c2 c3
       SubEdwardsAffineNiels_sh (e.getD 0 0) (e.getD 1 0) (e.getD 2 0) (e.getD 3 0) n0 n1 n2) := rfl

/-- **(affineNielsPoint).SetEdwards** yields the affine Niels form of (X/Z, Y/Z) -/
theorem ANielsSetEdwards_eq (Q : Ext) :
    ANielsSetEdwards_sh Q.X Q.Y Q.Z Q.T = aniels (Fp.mul Q.X (Fp.inv Q.Z)) (Fp.mul Q.Y (Fp.inv Q.Z)) := by
  simp only [ANielsSetEdwards_sh, aniels, const_d2]
  all_goals first
    | with_reducible rfl
    | (rw [add_comm' (Fp.mul Q.X (Fp.inv Q.Z))])

/-- **setAffineNiels**: identity + affine point, in extended coordinates -/
theorem setAffineNiels_eq (x y : Nat) :
    extOfList (setAffineNiels_sh ((aniels x y).getD 0 0) ((aniels x y).getD 1 0) ((aniels x y).getD 2 0)) =
      ExtK.add (d25519 + d25519) ExtK.zero (ExtK.ofAffine (toZ x) (toZ y)) := by
  simp only [aniels, setAffineNiels_sh]; fl_simp
  apply ExtK.ext' <;> ring

/-- **(completedPoint).Double**, completed, is dbl-2008-hwcd up to the projective factor −1 (T is not read) -/
theorem CompletedDouble_eq (P : Ext) :
    cmpToExt (CompletedDouble_sh P.X P.Y P.Z) =
      (let D := ExtK.dbl (extToK P); ⟨(-1) * D.X, (-1) * D.Y, (-1) * D.Z, (-1) * D.T⟩) := by
  simp only [CompletedDouble_sh]; fl_simp
  apply ExtK.ext' <;> ring

end Voi.Props.FL
