/-
Value theorems about the REGENERATED field-level programs of internal/field/field.go (addition chains) and of the
Montgomery ladder step of curve/montgomery.go.
-/
import Voi.Proofs.SpecBridge
import Voi.Model.Montgomery
import Voi.Gen.FL_FieldF64_Invert
import Voi.Gen.FL_FieldF64_pow22501
import Voi.Gen.FL_FieldF64_pow_p58
import Voi.Gen.FL_FieldF64_ConditionalNegate
import Voi.Gen.FL_CurveF64_MontgomeryStep
namespace Voi.Props.FL
open Voi.Spec Voi.Proofs Voi.Props.C07 Voi.Gen.FieldF64 Voi.Gen.CurveF64

local notation "toZ" => Voi.Props.C07.toZ

theorem toZ_pow2k (a : Nat) (k : Nat) : toZ (FIR.pow2k a k) = toZ a ^ (2 ^ k) := by
  induction k generalizing a with
  | zero => simp [FIR.pow2k, toZ_mod]
  | succ k ih => rw [FIR.pow2k, ih, toZ_sq, pow_succ 2 k, pow_mul', ← pow_two]

theorem toZ_m121666 (a : Nat) : toZ (FIR.m121666 a) = toZ a * 121666 := by
  unfold FIR.m121666; rw [toZ_mul]; congr 1

theorem toZ_121666 : toZ 121666 = 121666 := by unfold Voi.Props.C07.toZ; exact Nat.cast_ofNat

theorem pow2k_lt (a k : Nat) : FIR.pow2k a k < p := by
  induction k generalizing a with
  | zero => exact Nat.mod_lt _ p_pos
  | succ k ih => exact ih _

/-- **pow22501** (as regenerated): x^(2^250 − 1) and x^11 -/
theorem pow22501_eq (x : Nat) :
    toZ ((pow22501_sh x).getD 0 0) = toZ x ^ (2 ^ 250 - 1) ∧ toZ ((pow22501_sh x).getD 1 0) = toZ x ^ 11 := by
  simp only [pow22501_sh, List.getD_cons_zero, List.getD_cons_succ, toZ_mul, toZ_sq, toZ_pow2k]
  constructor
  · rw [show (2 ^ 250 - 1 : ℕ) = 1809251394333065553493296640760748560207343510400633813116524750123642650623 by decide]; ring
  · ring

/-- **Invert** (as regenerated) is x^(p−2) … -/
theorem Invert_pow (x : Nat) : toZ ((Invert_sh x).getD 0 0) = toZ x ^ (p - 2) := by
  simp only [Invert_sh, List.getD_cons_zero, List.getD_cons_succ, toZ_mul, toZ_sq, toZ_pow2k]
  rw [show (p - 2 : ℕ) = 57896044618658097711785492504343953926634992332820282019728792003956564819947 by decide]; ring

theorem powAux_lt : ∀ (fuel base e acc : Nat), acc < p → Fp.powAux base fuel e acc < p := by
  intro fuel
  induction fuel with
  | zero => intro _ _ _ h; simpa [Fp.powAux] using h
  | succ n ih =>
    intro base e acc h
    unfold Fp.powAux
    split
    · exact h
    · apply ih
      split
      · exact Nat.mod_lt _ p_pos
      · exact h

theorem inv_lt (x : Nat) : Fp.inv x < p := powAux_lt _ _ _ _ (by decide)

/-- … hence the field inverse, with 0 ↦ 0, and equal to the specification's `Fp.inv` -/
theorem Invert_eq (x : Nat) : Invert_sh x = [Fp.inv x] := by
  have hp := Invert_pow x
  simp only [Invert_sh, List.getD_cons_zero] at hp ⊢
  refine congrArg (fun a => [a]) (toZ_inj (mul_lt _ _) (inv_lt x) ?_)
  rw [hp, toZ_inv]

theorem Invert_inv (x : Nat) : toZ ((Invert_sh x).getD 0 0) = (toZ x)⁻¹ := by
  simp only [Invert_eq, List.getD_cons_zero]; exact toZ_inv' x

/-- **pow_p58** (as regenerated) is x^((p−5)/8) -/
theorem pow_p58_eq (x : Nat) : toZ ((pow_p58_sh x).getD 0 0) = toZ x ^ ((p - 5) / 8) := by
  simp only [pow_p58_sh, List.getD_cons_zero, List.getD_cons_succ, toZ_mul, toZ_sq, toZ_pow2k]
  rw [show ((p - 5) / 8 : ℕ) = 7237005577332262213973186563042994240829374041602535252466099000494570602493 by decide]; ring

theorem list4_ext {α : Type} {a b c d a' b' c' d' : α} (h1 : a = a') (h2 : b = b') (h3 : c = c') (h4 : d = d') :
    [a, b, c, d] = [a', b', c', d'] := by subst h1 h2 h3 h4; rfl

/-- **ConditionalNegate** -/
theorem ConditionalNegate_eq (x c : Nat) : ConditionalNegate_sh x c = [if c = 0 then x else Fp.neg x] := by
  simp only [ConditionalNegate_sh, FIR.sel]

/-- **montgomeryDifferentialAddAndDouble** (as regenerated) is the ladder step of the code-shaped model, which
`Props/C07` proves equal to one step of RFC 7748's ladder -/
theorem MontgomeryStep_eq (PU PW QU QW a : Nat) :
    MontgomeryStep_sh PU PW QU QW a =
      (let r := Voi.Model.Montgomery.diffAddAndDouble ⟨PU, PW⟩ ⟨QU, QW⟩ a; [r.1.U, r.1.W, r.2.U, r.2.W]) := by
  simp only [MontgomeryStep_sh, Voi.Model.Montgomery.diffAddAndDouble]
  apply list4_ext <;>
    first
    | with_reducible rfl
    | (apply toZ_inj (by first | exact mul_lt _ _ | exact sq_lt _ | exact add_lt _ _ | exact sub_lt _ _)
          (by first | exact mul_lt _ _ | exact sq_lt _ | exact add_lt _ _ | exact sub_lt _ _)
       simp only [toZ_mul, toZ_add, toZ_sub, toZ_sq, toZ_m121666, Voi.Model.Montgomery.mul121666, toZ_121666]
       try ring)

end Voi.Props.FL
