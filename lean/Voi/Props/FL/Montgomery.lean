/-
Value theorems about the REGENERATED Montgomery-form conversions of curve/montgomery.go: `(*MontgomeryPoint).SetEdwards`
and `fromProjective` are the corresponding functions of the code-shaped model `Model.Montgomery` (which `Props/C07` relates
to RFC 7748), as 32-byte strings.
-/
import Voi.Props.FL.Encoding
import Voi.Model.Montgomery
import Voi.Gen.FL_CurveF64_MontgomerySetEdwards
import Voi.Gen.FL_CurveF64_MontgomeryFromProjective
import Voi.Gen.FL_CurveF64_SetMontgomery
namespace Voi.Props.FL
open Voi Voi.Spec Voi.FIR Voi.Gen.CurveF64 Voi.Model.Montgomery
open Voi.Props.C07 hiding toZ

theorem leNat_feToBytes (a : Nat) : leNat (feToBytes a) = a % p := by
  unfold feToBytes
  rw [Voi.Props.Bytes.leNat_natLE]
  have h256 : (256 : Nat) ^ 32 = 2 ^ 256 := by decide
  have hp : p < 2 ^ 256 := by decide
  have := Nat.mod_lt a p_pos
  exact Nat.mod_eq_of_lt (by omega)

/-- **(*MontgomeryPoint).SetEdwards** (as regenerated): u = (Z + Y) / (Z − Y), encoded -/
theorem MontgomerySetEdwards_eq (E : Ext) :
    MontgomerySetEdwards_sh E.X E.Y E.Z E.T = [leNat (setEdwards E)] := by
  unfold MontgomerySetEdwards_sh setEdwards
  simp only [FIR.toBytes, leNat_feToBytes]

/-- **fromProjective** (as regenerated): U / W, encoded -/
theorem MontgomeryFromProjective_eq (U W : Nat) :
    MontgomeryFromProjective_sh U W = [leNat (fromProjective ⟨U, W⟩)] := by
  unfold MontgomeryFromProjective_sh fromProjective
  simp only [FIR.toBytes, leNat_feToBytes]

end Voi.Props.FL

namespace Voi.Props.FL
open Voi Voi.Spec Voi.FIR Voi.Gen.CurveF64

/-- **(*EdwardsPoint).SetMontgomery** (as regenerated): reject u = −1, otherwise decompress the encoding of
y = (u − 1)/(u + 1) with the requested sign bit — i.e. the regenerated `SetCompressedY` (= `Pt.decode`, `Encoding.SetCompressedY_eq`)
applied to that 32-byte string -/
theorem SetMontgomery_decomp (n s : Nat) :
    SetMontgomery_tsh n s =
      if FIR.cond (feq (fromBytes n) 57896044618658097711785492504343953926634992332820282019728792003956564819948) false then none
      else SetCompressedY_tsh (xorTop (toBytes (Fp.mul (Fp.sub (fromBytes n) 1) (Fp.inv (Fp.add (fromBytes n) 1)))) s) := by
  unfold SetMontgomery_tsh SetCompressedY_tsh
  simp only []

end Voi.Props.FL
