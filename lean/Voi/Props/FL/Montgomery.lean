/-
Value theorems about the REGENERATED Montgomery-form conversions of curve/montgomery.go: `(*MontgomeryPoint).SetEdwards`
and `fromProjective` are the corresponding functions of the code-shaped model `Model.Montgomery` (which `Props/C07` relates
to RFC 7748), as 32-byte strings.
-/
import Voi.Props.FL.Encoding
import Voi.Model.Montgomery
import Voi.Gen.FL_CurveF64_MontgomerySetEdwards
import Voi.Gen.FL_CurveF64_MontgomeryFromProjective
namespace Voi.Props.FL
open Voi Voi.Spec Voi.FIR Voi.Gen.CurveF64 Voi.Model.Montgomery
open Voi.Props.C07 hiding toZ

theorem leNat_feToBytes (a : Nat) : leNat (feToBytes a) = a % p := by
  unfold feToBytes
  rw [Voi.Props.Bytes.leNat_natLE]
  have h256 : (256 : Nat) ^ 32 = 2 ^ 256 := by decide
  have hp : p < 2 ^ 256 := by decide
  have := Nat.mod_lt a p_pos
  exact Nat.mod_eq_of_lt (by omega)

/-- **(*MontgomeryPoint).SetEdwards** (as regenerated): u = (Z + Y) / (Z − Y), encoded -/
theorem MontgomerySetEdwards_eq (E : Ext) :
    MontgomerySetEdwards_sh E.X E.Y E.Z E.T = [leNat (setEdwards E)] := by
  unfold MontgomerySetEdwards_sh setEdwards
  simp only [FIR.toBytes, leNat_feToBytes]

/-- **fromProjective** (as regenerated): U / W, encoded -/
theorem MontgomeryFromProjective_eq (U W : Nat) :
    MontgomeryFromProjective_sh U W = [leNat (fromProjective ⟨U, W⟩)] := by
  unfold MontgomeryFromProjective_sh fromProjective
  simp only [FIR.toBytes, leNat_feToBytes]

end Voi.Props.FL
