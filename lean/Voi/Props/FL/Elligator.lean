/-
The REGENERATED `montgomeryFlavor` (internal/elligator/elligator2.go: Elligator 2 onto the Montgomery curve) is the
code-shaped model `Model.H2C.montgomeryFlavor`, which `Props/C14/Elligator` proves equal to RFC 9380's map for every
representative.  So for this function the chain source → RFC 9380 consists of theorems.
-/
import Voi.Props.FL.Ristretto
import Voi.Model.H2C
import Voi.Gen.FL_ElligatorF64_montgomeryFlavor
import Voi.Gen.FL_ElligatorF64_EdwardsFlavor
namespace Voi.Props.FL
open Voi Voi.Spec Voi.FIR Voi.Model.H2C
open Voi.Props.C07 hiding toZ

theorem sq2_eq (a : Nat) : FIR.sq2 a = feSquare2 a := by
  unfold FIR.sq2 feSquare2; rw [two_mul']

theorem sel_eq_assign (c : Bool) (a b : Nat) : FIR.sel (if c then 1 else 0) a b = feConditionalAssign a b (b2i c) := by
  cases c <;> rfl

theorem feInvSqrt_eq (a : Nat) : feInvSqrt a = ((Fp.sqrtRatioM1 1 a).2, b2i (Fp.sqrtRatioM1 1 a).1) := by
  unfold feInvSqrt
  generalize Fp.sqrtRatioM1 1 a = sr
  obtain ⟨ok, r⟩ := sr
  rfl

theorem ite_flip (b : Bool) (x y : Nat) : (if b = false then x else y) = if b = true then y else x := by cases b <;> rfl

/-- **montgomeryFlavor** (as regenerated) = the model's -/
theorem montgomeryFlavor_eq (r : Nat) :
    Voi.Gen.ElligatorF64.montgomeryFlavor_sh r = [(montgomeryFlavor r).1, (montgomeryFlavor r).2] := by
  unfold Voi.Gen.ElligatorF64.montgomeryFlavor_sh montgomeryFlavor
  have cA2 : (236839902244 : Nat) = constMONTGOMERY_A_SQUARED := by decide +kernel
  have cA : (486662 : Nat) = constMONTGOMERY_A := rfl
  have cU : (18533721865243085798171333894366869895742859300972501694240749857708905250445 : Nat) = constMONTGOMERY_U_FACTOR := rfl
  have cV : (38214883241950591754978413199355411911188925816896391856984770930832735035198 : Nat) = constMONTGOMERY_V_FACTOR := rfl
  have cNA : (57896044618658097711785492504343953926634992332820282019728792003956564333287 : Nat) = constMONTGOMERY_NEG_A := by
    decide +kernel
  simp only [sq2_eq, feInvSqrt_eq, sqrtV, sqrtOk, fieldOne, feIsNegative, fisNeg]
  rw [cA2, cU, cV, cNA]
  simp only [cA]
  generalize Fp.sqrtRatioM1 1 _ = sr
  obtain ⟨ok, s⟩ := sr
  generalize Fp.mul (Fp.sub (Fp.mul constMONTGOMERY_A_SQUARED (feSquare2 r)) (Fp.sq (Fp.add (feSquare2 r) 1))) constMONTGOMERY_A = t3
  generalize Fp.sq (Fp.add (feSquare2 r) 1) = t2
  generalize Fp.mul (Fp.sq r) constMONTGOMERY_U_FACTOR = u0
  generalize Fp.mul r constMONTGOMERY_V_FACTOR = v0
  generalize constMONTGOMERY_NEG_A = na
  clear cNA cA2 cA cU cV
  simp only [sel_eq_assign]
  have x00 : (0 ^^^ 0 : Nat) = 0 := rfl
  have x01 : (0 ^^^ 1 : Nat) = 1 := rfl
  have x10 : (1 ^^^ 0 : Nat) = 1 := rfl
  have x11 : (1 ^^^ 1 : Nat) = 0 := rfl
  cases ok
  · simp only [b2i, feConditionalAssign, feConditionalNegate, FIR.sel, Bool.false_eq_true, if_false, Nat.zero_ne_one]
    generalize Fp.isNeg (Fp.mul (Fp.mul v0 t3) s) = ng
    cases ng
    · simp only [Bool.false_eq_true, if_false, FIR.bxor, x00, if_true, Nat.zero_ne_one]
    · simp only [if_true, FIR.bxor, x01, Nat.one_ne_zero, if_false]
  · simp only [b2i, feConditionalAssign, feConditionalNegate, FIR.sel, if_true, Nat.one_ne_zero, if_false]
    generalize Fp.isNeg (Fp.mul (Fp.mul 1 t3) s) = ng
    cases ng
    · simp only [Bool.false_eq_true, if_false, FIR.bxor, x10, if_true, Nat.one_ne_zero]
    · simp only [if_true, FIR.bxor, x11, Nat.zero_ne_one, if_false]

end Voi.Props.FL

/-! ### `EdwardsFlavor`: Elligator 2 onto edwards25519, including the decompression inside `SetEdwardsFromXY` and its `panic` -/
namespace Voi.Props.FL
open Voi Voi.Spec Voi.FIR Voi.Model.H2C Voi.Gen.CurveF64

/-- decompression with the `panic` of `SetEdwardsFromXY` as the leaf `some []` (same shape as the regenerated code) -/
def decompressOrPanic (n : Nat) : Option (List Nat) :=
  let y := fromBytes n
  let yy := Fp.sq y
  let u := Fp.sub yy 1
  let v := Fp.add (Fp.mul yy 37095705934669439343138083508754565189542113879843219016388785533085940283555) 1
  let x := sqrtV u v
  let ok := sqrtOk u v
  if FIR.cond ok true then some []
  else
    let s := topBit n
    let x' := FIR.sel s x (Fp.neg x)
    some [x', y, 1, Fp.mul x' y]

/-- the part of `EdwardsFlavor` after `montgomeryFlavor`: birational map, exceptional cases, then `SetEdwardsFromXY`
(encode y, put the sign of x into bit 255, decompress) -/
def edwardsTail (u v : Nat) : Option (List Nat) :=
  let x := Fp.mul (Fp.mul (Fp.inv v) u) 6853475219497561581579357271197624642482790079785650197046958215289687604742
  let uPlusOne := Fp.add u 1
  let y := Fp.mul (Fp.sub u 1) (Fp.inv uPlusOne)
  let undef := FIR.bor (fisZero uPlusOne) (fisZero v)
  let x' := FIR.sel undef x 0
  let y' := FIR.sel undef y 1
  decompressOrPanic (xorTop (toBytes y') (fisNeg x'))

/-- the regenerated `EdwardsFlavor` is `montgomeryFlavor` followed by that tail (by `rfl`) -/
theorem EdwardsFlavor_decomp (r : Nat) :
    Voi.Gen.ElligatorF64.EdwardsFlavor_tsh r =
      edwardsTail ((Voi.Gen.ElligatorF64.montgomeryFlavor_sh r).getD 0 0) ((Voi.Gen.ElligatorF64.montgomeryFlavor_sh r).getD 1 0) := by
  unfold Voi.Gen.ElligatorF64.EdwardsFlavor_tsh edwardsTail decompressOrPanic Voi.Gen.ElligatorF64.montgomeryFlavor_sh
  simp only [List.getD_cons_zero, List.getD_cons_succ]

end Voi.Props.FL
