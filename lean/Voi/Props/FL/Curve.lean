/-
Value theorems about the REGENERATED field-level programs of curve/models.go and curve/edwards.go (serial backend,
`go2ir -flevel`, group CurveF64): what `(*EdwardsPoint).Add/Sub/Neg/double/MulByCofactor/Identity/Equal` and the
Niels/completed/projective formulas compute, stated against the extended-coordinate formulas over `ZMod p` whose
relation to the Edwards group law is proved in `Proofs/EdwardsExt` — so the chain source → group law consists of
theorems only; no hand transcription of `models.go` is involved.
-/
import Voi.Proofs.SpecBridge
import Voi.Gen.FL_CurveF64_EdwardsAdd
import Voi.Gen.FL_CurveF64_EdwardsSub
import Voi.Gen.FL_CurveF64_EdwardsNeg
import Voi.Gen.FL_CurveF64_EdwardsDouble
import Voi.Gen.FL_CurveF64_EdwardsMulByCofactor
import Voi.Gen.FL_CurveF64_EdwardsIdentity
import Voi.Gen.FL_CurveF64_EdwardsEqual
namespace Voi.Props.FL
open Voi.Spec Voi.Proofs Voi.Props.C07 Voi.Gen.CurveF64

local notation "toZ" => Voi.Props.C07.toZ

/-- the list of four output coordinates as a point in extended coordinates over `ZMod p` -/
def extOfList (l : List Nat) : ExtK F25519 := ⟨toZ (l.getD 0 0), toZ (l.getD 1 0), toZ (l.getD 2 0), toZ (l.getD 3 0)⟩
def Ext.ofList (l : List Nat) : Ext := ⟨l.getD 0 0, l.getD 1 0, l.getD 2 0, l.getD 3 0⟩
theorem extToK_ofList (l : List Nat) : extToK (Ext.ofList l) = extOfList l := rfl

/-- the constant the code multiplies T by is 2d -/
theorem const_d2 : (16295367250680780974490674513165176452449235426866156013048779062215315747161 : Nat) = Fp.d2 := by
  decide +kernel

theorem ExtK.ext' {K : Type*} {a b : ExtK K} (hX : a.X = b.X) (hY : a.Y = b.Y) (hZ : a.Z = b.Z) (hT : a.T = b.T) : a = b := by
  cases a; cases b; simp_all

/-- **(*EdwardsPoint).Add** (as regenerated) is add-2008-hwcd-3 -/
theorem EdwardsAdd_eq (P Q : Ext) :
    extOfList (EdwardsAdd_sh P.X P.Y P.Z P.T Q.X Q.Y Q.Z Q.T) = ExtK.add (d25519 + d25519) (extToK P) (extToK Q) := by
  simp only [EdwardsAdd_sh, extOfList, List.getD_cons_zero, List.getD_cons_succ, toZ_mul, toZ_add, toZ_sub, const_d2, toZ_d2,
    ExtK.add, extToK]
  apply ExtK.ext' <;> ring


theorem EdwardsAdd_rep {P Q : Ext} {A B : Ed25519} (hP : Represents P A) (hQ : Represents Q B) :
    Represents (Ext.ofList (EdwardsAdd_sh P.X P.Y P.Z P.T Q.X Q.Y Q.Z Q.T)) (A + B) := by
  unfold Represents; rw [extToK_ofList, EdwardsAdd_eq]; exact ExtK.Rep.add hP hQ

/-- **(*EdwardsPoint).Sub** is the same addition applied to the negated second operand -/
theorem EdwardsSub_eq (P Q : Ext) :
    extOfList (EdwardsSub_sh P.X P.Y P.Z P.T Q.X Q.Y Q.Z Q.T) =
      ExtK.add (d25519 + d25519) (extToK P) (ExtK.neg (extToK Q)) := by
  simp only [EdwardsSub_sh, extOfList, List.getD_cons_zero, List.getD_cons_succ, toZ_mul, toZ_add, toZ_sub, const_d2, toZ_d2,
    ExtK.add, ExtK.neg, extToK]
  apply ExtK.ext' <;> ring

theorem EdwardsSub_rep {P Q : Ext} {A B : Ed25519} (hP : Represents P A) (hQ : Represents Q B) :
    Represents (Ext.ofList (EdwardsSub_sh P.X P.Y P.Z P.T Q.X Q.Y Q.Z Q.T)) (A - B) := by
  unfold Represents; rw [extToK_ofList, EdwardsSub_eq, sub_eq_add_neg]; exact ExtK.Rep.add hP (ExtK.Rep.neg hQ)

theorem EdwardsNeg_eq (P : Ext) : extOfList (EdwardsNeg_sh P.X P.Y P.Z P.T) = ExtK.neg (extToK P) := by
  simp only [EdwardsNeg_sh, extOfList, List.getD_cons_zero, List.getD_cons_succ, toZ_neg, ExtK.neg, extToK]

theorem EdwardsNeg_rep {P : Ext} {A : Ed25519} (hP : Represents P A) :
    Represents (Ext.ofList (EdwardsNeg_sh P.X P.Y P.Z P.T)) (-A) := by
  unfold Represents; rw [extToK_ofList, EdwardsNeg_eq]; exact ExtK.Rep.neg hP

/-- projective rescaling does not change the represented point -/
theorem Rep_scale {E : ExtK F25519} {A : Ed25519} (h : ExtK.Rep c25519 E A) {l : F25519} (hl : l ≠ 0) :
    ExtK.Rep c25519 ⟨l * E.X, l * E.Y, l * E.Z, l * E.T⟩ A where
  z_ne := mul_ne_zero hl h.z_ne
  hx := by show l * E.X = A.x * (l * E.Z); rw [h.hx]; ring
  hy := by show l * E.Y = A.y * (l * E.Z); rw [h.hy]; ring
  ht := by show l * E.T * (l * E.Z) = l * E.X * (l * E.Y); linear_combination (l * l) * h.ht

theorem toZ_sq2 (a : Nat) : toZ (FIR.sq2 a) = toZ a * toZ a + toZ a * toZ a := by
  unfold FIR.sq2; rw [toZ_add, toZ_sq]

/-- **(*EdwardsPoint).double** is dbl-2008-hwcd with every coordinate negated (the same projective point) -/
theorem EdwardsDouble_eq (P : Ext) :
    extOfList (EdwardsDouble_sh P.X P.Y P.Z P.T) =
      (let D := ExtK.dbl (extToK P); ⟨(-1) * D.X, (-1) * D.Y, (-1) * D.Z, (-1) * D.T⟩) := by
  simp only [EdwardsDouble_sh, extOfList, List.getD_cons_zero, List.getD_cons_succ, toZ_mul, toZ_add, toZ_sub, toZ_sq, toZ_sq2,
    ExtK.dbl, extToK]
  apply ExtK.ext' <;> ring

theorem EdwardsDouble_rep {P : Ext} {A : Ed25519} (hP : Represents P A) :
    Represents (Ext.ofList (EdwardsDouble_sh P.X P.Y P.Z P.T)) (2 • A) := by
  unfold Represents; rw [extToK_ofList, EdwardsDouble_eq, two_nsmul]
  exact Rep_scale (ExtK.Rep.dbl hP) (neg_ne_zero.mpr one_ne_zero)

/-- **MulByCofactor** is three doublings (the intermediate T coordinates are never computed: `double` does not read T) -/
theorem EdwardsMulByCofactor_eq_doubles (X Y Z T : Nat) :
    EdwardsMulByCofactor_sh X Y Z T =
      (let a := EdwardsDouble_sh X Y Z T
       let b := EdwardsDouble_sh (a.getD 0 0) (a.getD 1 0) (a.getD 2 0) (a.getD 3 0)
       EdwardsDouble_sh (b.getD 0 0) (b.getD 1 0) (b.getD 2 0) (b.getD 3 0)) := rfl

theorem EdwardsMulByCofactor_rep {P : Ext} {A : Ed25519} (hP : Represents P A) :
    Represents (Ext.ofList (EdwardsMulByCofactor_sh P.X P.Y P.Z P.T)) (8 • A) := by
  rw [EdwardsMulByCofactor_eq_doubles]
  have h1 := EdwardsDouble_rep hP
  have h2 := EdwardsDouble_rep h1
  have h3 := EdwardsDouble_rep h2
  have e : (8 : ℕ) • A = 2 • (2 • (2 • A)) := by rw [← mul_nsmul, ← mul_nsmul]
  rw [e]; exact h3

theorem EdwardsIdentity_rep : Represents (Ext.ofList EdwardsIdentity_sh) 0 := Represents.zero

open Classical in
/-- **(*EdwardsPoint).Equal** decides equality of the represented points -/
theorem EdwardsEqual_iff {P Q : Ext} {A B : Ed25519} (hP : Represents P A) (hQ : Represents Q B) :
    EdwardsEqual_sh P.X P.Y P.Z P.T Q.X Q.Y Q.Z Q.T = [if A = B then 1 else 0] := by
  have key := ExtK.Rep.eq_iff hP hQ
  simp only [extToK] at key
  simp only [EdwardsEqual_sh, FIR.feq, FIR.band]
  have e1 : (Fp.mul P.X Q.Z % p = Fp.mul Q.X P.Z % p) ↔ toZ P.X * toZ Q.Z = toZ Q.X * toZ P.Z := by
    rw [← toZ_eq_iff, toZ_mul, toZ_mul]
  have e2 : (Fp.mul P.Y Q.Z % p = Fp.mul Q.Y P.Z % p) ↔ toZ P.Y * toZ Q.Z = toZ Q.Y * toZ P.Z := by
    rw [← toZ_eq_iff, toZ_mul, toZ_mul]
  by_cases hAB : A = B
  · have := key.2 hAB
    rw [if_pos (e1.2 this.1), if_pos (e2.2 this.2), if_pos hAB]; rfl
  · rw [if_neg hAB]
    by_cases h1 : Fp.mul P.X Q.Z % p = Fp.mul Q.X P.Z % p
    · by_cases h2 : Fp.mul P.Y Q.Z % p = Fp.mul Q.Y P.Z % p
      · exact absurd (key.1 ⟨e1.1 h1, e2.1 h2⟩) hAB
      · rw [if_pos h1, if_neg h2]; rfl
    · rw [if_neg h1]; split <;> rfl

end Voi.Props.FL
