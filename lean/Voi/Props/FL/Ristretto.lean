/-
The REGENERATED `(*RistrettoPoint).SetCompressed` (curve/ristretto.go) is RFC 9496 §4.3.1 DECODE as transcribed in
`Spec.Ristretto.decode`: same accept/reject decision for every 32-byte string and the same internal representative on
acceptance.  (`Props/C11` characterises that specification: canonical non-negative s, square, t ≥ 0, y ≠ 0, round trip.)
-/
import Voi.Props.FL.Encoding
import Voi.Spec.Ristretto
import Voi.Gen.FL_CurveF64_RistrettoDecode
import Voi.Gen.FL_CurveF64_RistrettoEqual
import Voi.Gen.FL_CurveF64_RistrettoEncode
import Voi.Gen.FL_CurveF64_RistrettoElligator
namespace Voi.Props.FL
open Voi Voi.Spec Voi.Proofs Voi.FIR Voi.Gen.CurveF64
open Voi.Props.C07 hiding toZ

local notation "toZ" => Voi.Props.C07.toZ

theorem ristretto_D : Ristretto.D = Fp.d := by decide +kernel

/-- the canonical-encoding test by re-encoding: a 256-bit string equals the encoding of its decoding iff it is below p -/
theorem canon_iff {n : Nat} : n = (n % 2 ^ 255 % p) % p ↔ n < p := by
  constructor
  · intro h; rw [h]; exact Nat.mod_lt _ p_pos
  · intro h
    have : n < 2 ^ 255 := Nat.lt_trans h p_lt
    rw [Nat.mod_eq_of_lt this, Nat.mod_eq_of_lt h, Nat.mod_eq_of_lt h]

theorem mul_neg_left (a b : Nat) : Fp.mul (Fp.neg a) b = Fp.neg (Fp.mul a b) := by
  apply Voi.Props.C07.toZ_inj (mul_lt _ _) (show Fp.neg _ < p by unfold Fp.neg; exact Nat.mod_lt _ p_pos)
  rw [toZ_mul, toZ_neg, toZ_neg, toZ_mul]; ring

theorem mul_assoc' (a b c : Nat) : Fp.mul a (Fp.mul b c) = Fp.mul (Fp.mul a b) c := by
  apply Voi.Props.C07.toZ_inj (mul_lt _ _) (mul_lt _ _)
  rw [toZ_mul, toZ_mul, toZ_mul, toZ_mul]; ring

theorem two_mul' (s : Nat) : Fp.mul 2 s = Fp.add s s := by
  unfold Fp.mul Fp.add; rw [Nat.two_mul]

theorem abs_eq_sel {a : Nat} (ha : a < p) : sel (fisNeg a) a (Fp.neg a) = Fp.abs a := by
  unfold sel fisNeg Fp.abs
  by_cases h : Fp.isNeg a = true
  · simp [h]
  · simp [h, Nat.mod_eq_of_lt ha]

theorem ite_cond_true {α : Type} (v : Nat) (x y : α) : (if FIR.cond v true = true then x else y) = if v = 0 then x else y := by
  unfold FIR.cond; by_cases h : v = 0 <;> simp [h]
theorem ite_cond_false {α : Type} (v : Nat) (x y : α) : (if FIR.cond v false = true then x else y) = if v = 0 then y else x := by
  unfold FIR.cond; by_cases h : v = 0 <;> simp [h]

/-- **RistrettoPoint.SetCompressed** (as regenerated) = RFC 9496 DECODE -/
theorem RistrettoDecode_eq (b : Bytes) (hb : b.size = 32) :
    RistrettoDecode_tsh (leNat b) = (Ristretto.decode b).map fun E => [E.X, E.Y, E.Z, E.T] := by
  unfold RistrettoDecode_tsh Ristretto.decode
  generalize leNat b = n
  simp only [hb, ne_eq, not_true_eq_false, if_false, const_d, ← ristretto_D, Ristretto.sqrtRatioM1, Ristretto.isNegative,
    Ristretto.ctAbs, ite_cond_true, ite_cond_false]
  by_cases hn : n < p
  · -- canonical: the decoded value is n itself
    have h1 : fromBytes n = n := by
      unfold fromBytes; rw [Nat.mod_eq_of_lt (Nat.lt_trans hn p_lt), Nat.mod_eq_of_lt hn]
    have h2 : bytesEq n (toBytes n) = 1 := by unfold bytesEq toBytes; rw [Nat.mod_eq_of_lt hn]; simp
    have hge : ¬ n ≥ p := Nat.not_le.2 hn
    simp only [h1, h2, hge, if_false, Nat.one_ne_zero]
    by_cases hneg : Fp.isNeg n = true
    · simp [fisNeg, hneg]
    · have hneg' : Fp.isNeg n = false := by simpa using hneg
      have hf : fisNeg n = 0 := by simp [fisNeg, hneg']
      simp only [hf, hneg', Bool.false_eq_true, if_false, if_true]
      -- the arithmetic: same values, written with different associations
      rw [mul_neg_left]
      simp only [sqrtV, sqrtOk, ← two_mul', ← mul_assoc' (Fp.sqrtRatioM1 1 _).2]
      generalize hsr : Fp.sqrtRatioM1 1
        (Fp.mul (Fp.sub (Fp.neg (Fp.mul Ristretto.D (Fp.sq (Fp.sub 1 (Fp.sq n))))) (Fp.sq (Fp.add 1 (Fp.sq n)))) (Fp.sq (Fp.add 1 (Fp.sq n)))) = sr
      obtain ⟨ok, r⟩ := sr
      simp only []
      generalize hdx : Fp.mul r (Fp.add 1 (Fp.sq n)) = dx
      generalize hx0 : Fp.mul (Fp.mul 2 n) dx = x0
      have hx0lt : x0 < p := hx0 ▸ mul_lt _ _
      rw [abs_eq_sel hx0lt]
      generalize Fp.abs x0 = x
      generalize hy : Fp.mul (Fp.sub 1 (Fp.sq n)) (Fp.mul r (Fp.mul r (Fp.mul (Fp.add 1 (Fp.sq n))
        (Fp.sub (Fp.neg (Fp.mul Ristretto.D (Fp.sq (Fp.sub 1 (Fp.sq n))))) (Fp.sq (Fp.add 1 (Fp.sq n))))))) = y
      have hylt : y < p := hy ▸ mul_lt _ _
      cases ok <;> cases hnt : Fp.isNeg (Fp.mul x y) <;> by_cases hy0 : y = 0 <;>
        simp [fisNeg, fisZero, hnt, hy0, Nat.mod_eq_of_lt hylt]
  · -- not canonical: the re-encoding differs
    have hne : bytesEq n (toBytes (fromBytes n)) = 0 := by
      unfold bytesEq toBytes fromBytes
      rw [if_neg (fun h => hn (canon_iff.1 h))]
    have hge : n ≥ p := Nat.le_of_not_lt hn
    simp [hne, hge]

theorem feq_reduced {a b : Nat} (ha : a < p) (hb : b < p) : feq a b = if a == b then 1 else 0 := by
  unfold feq; rw [Nat.mod_eq_of_lt ha, Nat.mod_eq_of_lt hb]; by_cases h : a = b <;> simp [h]

/-- **RistrettoPoint.Equal** (as regenerated) = RFC 9496 §4.3.3 EQUALS -/
theorem RistrettoEqual_eq (P Q : Ext) :
    RistrettoEqual_sh P.X P.Y P.Z P.T Q.X Q.Y Q.Z Q.T = [if Ristretto.equal P Q then 1 else 0] := by
  unfold RistrettoEqual_sh Ristretto.equal
  simp only [feq_reduced (mul_lt _ _) (mul_lt _ _), FIR.bor]
  have hc : (Fp.mul P.X Q.X == Fp.mul P.Y Q.Y) = (Fp.mul P.Y Q.Y == Fp.mul P.X Q.X) := by
    by_cases h : Fp.mul P.X Q.X = Fp.mul P.Y Q.Y
    · simp [h]
    · have h' : ¬ Fp.mul P.Y Q.Y = Fp.mul P.X Q.X := fun e => h e.symm
      simp [h, h']
  rw [hc]
  cases (Fp.mul P.X Q.Y == Fp.mul P.Y Q.X) <;> cases (Fp.mul P.Y Q.Y == Fp.mul P.X Q.X) <;> rfl

theorem const_invsqrt_a_minus_d :
    (54469307008909316920995813868745141605393597292927456921205312896311721017578 : Nat) = Ristretto.INVSQRT_A_MINUS_D := rfl
theorem const_sqrt_m1 :
    (19681161376707505956807079304988542015446066515923890162744021073123829784752 : Nat) = Ristretto.SQRT_M1 := rfl

theorem sel_bool (c : Bool) (a b : Nat) : sel (if c then 1 else 0) a b = if c then b else a := by
  unfold sel; cases c <;> simp

theorem abs_lt' (a : Nat) : Fp.abs a < p := by
  unfold Fp.abs; split
  · unfold Fp.neg; exact Nat.mod_lt _ p_pos
  · exact Nat.mod_lt _ p_pos

/-- taking the absolute value and encoding: the code's `ConditionalNegate(IsNegative) ; ToBytes` is the RFC's
`CT_ABS` followed by the little-endian encoding -/
theorem enc_tail (s : Nat) :
    toBytes (if (if Fp.isNeg s = true then 1 else 0) = 0 then s else Fp.neg s) = leNat (natLE (Fp.abs s) 32) := by
  rw [Voi.Props.Bytes.leNat_natLE]
  have habs := abs_lt' s
  have h256 : (256 : Nat) ^ 32 = 2 ^ 256 := by decide
  have hp : p < 2 ^ 256 := by decide
  rw [Nat.mod_eq_of_lt (a := Fp.abs s) (by omega)]
  unfold toBytes Fp.abs
  cases hns : Fp.isNeg s
  · simp
  · simp only [if_true, Nat.one_ne_zero, if_false]
    unfold Fp.neg; rw [Nat.mod_mod]

theorem enc_tail' (s : Nat) :
    toBytes (if Fp.isNeg s = true then Fp.neg s else s) = leNat (natLE (Fp.abs s) 32) := by
  rw [← enc_tail]; cases Fp.isNeg s <;> simp

/-- **CompressedRistretto.SetRistrettoPoint** (as regenerated) = RFC 9496 §4.3.2 ENCODE -/
theorem RistrettoEncode_eq (P : Ext) :
    RistrettoEncode_sh P.X P.Y P.Z P.T = [leNat (Ristretto.encode P)] := by
  unfold RistrettoEncode_sh Ristretto.encode
  simp only [const_invsqrt_a_minus_d, const_sqrt_m1, Ristretto.sqrtRatioM1, Ristretto.isNegative, Ristretto.ctAbs, sqrtV, sqrtOk,
    fisNeg, sel_bool, mul_assoc']
  generalize Fp.sqrtRatioM1 1 (Fp.mul (Fp.mul (Fp.add P.Z P.Y) (Fp.sub P.Z P.Y)) (Fp.sq (Fp.mul P.X P.Y))) = sr
  obtain ⟨ok, r⟩ := sr
  simp only [sel]
  congr 1
  first | exact enc_tail _ | exact enc_tail' _

theorem sel_bxor (c : Bool) (a b : Nat) : FIR.sel (FIR.bxor (if c then 1 else 0) 1) a b = if c then a else b := by
  cases c <;> rfl

theorem neg_neg' {a : Nat} (ha : a < p) : Fp.neg (Fp.neg a) = a := by
  apply Voi.Props.C07.toZ_inj (by unfold Fp.neg; exact Nat.mod_lt _ p_pos) ha
  rw [toZ_neg, toZ_neg]; ring

theorem neg_abs {a : Nat} (ha : a < p) : Fp.neg (Fp.abs a) = if Fp.isNeg a then a else Fp.neg a := by
  unfold Fp.abs
  cases h : Fp.isNeg a
  · simp only [Bool.false_eq_true, if_false]; unfold Fp.neg; rw [Nat.mod_mod]
  · simp only [if_true]; exact neg_neg' ha

theorem const_neg_one : (57896044618658097711785492504343953926634992332820282019728792003956564819948 : Nat) = Fp.neg 1 := by
  decide +kernel

/-- **elligatorRistrettoFlavor** (as regenerated) = RFC 9496 §4.3.4 MAP -/
theorem RistrettoElligator_eq (t : Nat) :
    RistrettoElligator_sh t = [(Ristretto.map t).X, (Ristretto.map t).Y, (Ristretto.map t).Z, (Ristretto.map t).T] := by
  unfold RistrettoElligator_sh Ristretto.map
  simp only [Ristretto.sqrtRatioM1, Ristretto.ctAbs, sqrtV, sqrtOk, Ristretto.D, Ristretto.SQRT_M1, Ristretto.ONE_MINUS_D_SQ,
    Ristretto.D_MINUS_ONE_SQ, Ristretto.SQRT_AD_MINUS_ONE, ← const_neg_one]
  generalize hr : Fp.mul 19681161376707505956807079304988542015446066515923890162744021073123829784752 (Fp.sq t) = r
  rw [mul_comm' 37095705934669439343138083508754565189542113879843219016388785533085940283555 r]
  generalize Fp.sqrtRatioM1 (Fp.mul (Fp.add r 1) 1159843021668779879193775521855586647937357759715417654439879720876111806838)
    (Fp.mul (Fp.sub 57896044618658097711785492504343953926634992332820282019728792003956564819948
        (Fp.mul r 37095705934669439343138083508754565189542113879843219016388785533085940283555))
      (Fp.add r 37095705934669439343138083508754565189542113879843219016388785533085940283555)) = sr
  obtain ⟨ok, s⟩ := sr
  simp only [fisNeg, sel_bxor, neg_abs (mul_lt s t)]
  cases ok
  · simp only [Bool.false_eq_true, if_false]
    rw [two_mul' (if Fp.isNeg (Fp.mul s t) = true then Fp.mul s t else Fp.neg (Fp.mul s t))]
  · simp only [if_true]
    rw [two_mul' s]

end Voi.Props.FL
