/-
The contract table of the field level is what the L0 obligations prove — spelled out for the central leaf: from the kernel-
checked obligation `L0.FieldU64_feMulGeneric` (about the REGENERATED limb program of `feMulGeneric`) and `IR.check_sound`,
for all limbs within the multiplication precondition of `Bounds.C64` the regenerated program returns limbs within the
postcondition whose radix-2^51 value is the product of the operands' values modulo p — the hypothesis `Impl.mul_ok` of
`FIR.brun_sound`, for the 64-bit backend.
-/
import Mathlib.Tactic.IntervalCases
import Mathlib.Tactic.Ring
import Mathlib.Tactic.Convert
import Voi.Props.L0.FieldU64_feMulGeneric
import Voi.Props.L0.FieldU64_fePow2kGeneric1
import Voi.Props.L0.FieldU64_Sub
import Voi.Props.L0.FieldU64_Neg
import Voi.Props.L0.FieldU64_Mul121666
import Voi.Props.L0.FieldU64_Square2
import Voi.Gen.IR_FieldU64_Add
import Voi.Props.FL.Bounds
namespace Voi.Props.FL.Link
open Voi.IR Voi.Props.L0 Voi.Props.FL.Bounds

/-- radix-2^51 value of five limbs -/
def v51 (x0 x1 x2 x3 x4 : Nat) : Int := x0 + 2^51 * x1 + 2^102 * x2 + 2^153 * x3 + 2^204 * (x4 : Int)

theorem fe64_0 : Spec.fe64 0 = [((2:Int)^0, [Atom.var 0]), ((2:Int)^51, [Atom.var 1]), ((2:Int)^102, [Atom.var 2]),
    ((2:Int)^153, [Atom.var 3]), ((2:Int)^204, [Atom.var 4])] := rfl
theorem fe64_5 : Spec.fe64 5 = [((2:Int)^0, [Atom.var 5]), ((2:Int)^51, [Atom.var 6]), ((2:Int)^102, [Atom.var 7]),
    ((2:Int)^153, [Atom.var 8]), ((2:Int)^204, [Atom.var 9])] := rfl

theorem feMul_meets_contract (a0 a1 a2 a3 a4 b0 b1 b2 b3 b4 : Nat)
    (ha : ∀ x ∈ [a0, a1, a2, a3, a4, b0, b1, b2, b3, b4], x ≤ 2^54 - 1) :
    let e := run Voi.Gen.FieldU64.feMulGeneric_prog [a0, a1, a2, a3, a4, b0, b1, b2, b3, b4]
    (∀ j, j < 5 → get e (Voi.Gen.FieldU64.feMulGeneric_outs.getD j 0) ≤ 2^52 - 1) ∧
    (v51 (get e (Voi.Gen.FieldU64.feMulGeneric_outs.getD 0 0)) (get e (Voi.Gen.FieldU64.feMulGeneric_outs.getD 1 0))
        (get e (Voi.Gen.FieldU64.feMulGeneric_outs.getD 2 0)) (get e (Voi.Gen.FieldU64.feMulGeneric_outs.getD 3 0))
        (get e (Voi.Gen.FieldU64.feMulGeneric_outs.getD 4 0)) - v51 a0 a1 a2 a3 a4 * v51 b0 b1 b2 b3 b4) % (2^255 - 19) = 0 := by
  intro e
  have hpre : PreSat [a0, a1, a2, a3, a4, b0, b1, b2, b3, b4] Spec.FieldU64_feMulGeneric.pre := by
    refine ⟨rfl, ?_⟩
    intro i hi
    have hi' : i < 10 := hi
    have hx : get [a0, a1, a2, a3, a4, b0, b1, b2, b3, b4] i ≤ 2^54 - 1 := by
      apply ha
      unfold IR.get
      interval_cases i <;> simp
    have hav : aget Spec.FieldU64_feMulGeneric.pre i = bits 54 := by
      interval_cases i <;> rfl
    rw [hav]
    exact ⟨Nat.zero_le _, hx, Nat.mod_one _⟩
  obtain ⟨⟨_, hb⟩, _, hc⟩ := check_sound _ _ _ FieldU64_feMulGeneric _ hpre
  constructor
  · intro j hj
    have := (hb j (by simpa [Voi.Gen.FieldU64.feMulGeneric_outs] using hj)).2
    have hp : (aget Spec.FieldU64_feMulGeneric.post j).hi = 2^52 - 1 := by
      interval_cases j <;> rfl
    rw [hp] at this
    exact this
  · have h := hc _ rfl
    simp only [Voi.Gen.FieldU64.feMulGeneric_outs, lincomb, weights, radix51, List.map, Poly.val_mul, fe64_0, fe64_5] at h
    simp only [Poly.val, Mono.val, Atom.val, List.foldr, IR.get, List.getD_cons_zero, List.getD_cons_succ] at h
    simp only [Voi.Gen.FieldU64.feMulGeneric_outs, List.getD_cons_zero, List.getD_cons_succ]
    unfold v51
    have e1 : P25519 = 2^255 - 19 := rfl
    rw [e1] at h
    convert h using 2
    simp only [IR.get, e]
    ring


theorem feSquare_meets_contract (a0 a1 a2 a3 a4 : Nat)
    (ha : ∀ x ∈ [a0, a1, a2, a3, a4], x ≤ 2^54 - 1) :
    let e := run Voi.Gen.FieldU64.fePow2kGeneric1_prog [a0, a1, a2, a3, a4]
    (∀ j, j < 5 → get e (Voi.Gen.FieldU64.fePow2kGeneric1_outs.getD j 0) ≤ 2^52 - 1) ∧
    (v51 (get e (Voi.Gen.FieldU64.fePow2kGeneric1_outs.getD 0 0)) (get e (Voi.Gen.FieldU64.fePow2kGeneric1_outs.getD 1 0))
        (get e (Voi.Gen.FieldU64.fePow2kGeneric1_outs.getD 2 0)) (get e (Voi.Gen.FieldU64.fePow2kGeneric1_outs.getD 3 0))
        (get e (Voi.Gen.FieldU64.fePow2kGeneric1_outs.getD 4 0)) - v51 a0 a1 a2 a3 a4 * v51 a0 a1 a2 a3 a4) % (2^255 - 19) = 0 := by
  intro e
  have hpre : PreSat [a0, a1, a2, a3, a4] Spec.FieldU64_fePow2kGeneric1.pre := by
    refine ⟨rfl, ?_⟩
    intro i hi
    have hi' : i < 5 := hi
    have hx : IR.get [a0, a1, a2, a3, a4] i ≤ 2^54 - 1 := by
      apply ha
      unfold IR.get
      interval_cases i <;> simp
    have hav : aget Spec.FieldU64_fePow2kGeneric1.pre i = bits 54 := by
      interval_cases i <;> rfl
    rw [hav]
    exact ⟨Nat.zero_le _, hx, Nat.mod_one _⟩
  obtain ⟨⟨_, hb⟩, _, hc⟩ := check_sound _ _ _ FieldU64_fePow2kGeneric1 _ hpre
  constructor
  · intro j hj
    have := (hb j (by simpa [Voi.Gen.FieldU64.fePow2kGeneric1_outs] using hj)).2
    have hp : (aget Spec.FieldU64_fePow2kGeneric1.post j).hi = 2^52 - 1 := by
      interval_cases j <;> rfl
    rw [hp] at this
    exact this
  · have h := hc _ rfl
    simp only [Voi.Gen.FieldU64.fePow2kGeneric1_outs, lincomb, weights, radix51, List.map, Poly.val_mul, Poly.val_scale, fe64_0] at h
    simp only [Poly.val, Mono.val, Atom.val, List.foldr, IR.get, List.getD_cons_zero, List.getD_cons_succ] at h
    simp only [Voi.Gen.FieldU64.fePow2kGeneric1_outs, List.getD_cons_zero, List.getD_cons_succ]
    unfold v51
    have e1 : P25519 = 2^255 - 19 := rfl
    rw [e1] at h
    convert h using 2
    simp only [IR.get, e]
    ring

theorem feMul121666_meets_contract (a0 a1 a2 a3 a4 : Nat)
    (ha : ∀ x ∈ [a0, a1, a2, a3, a4], x ≤ 2^54 - 1) :
    let e := run Voi.Gen.FieldU64.Mul121666_prog [a0, a1, a2, a3, a4]
    (∀ j, j < 5 → get e (Voi.Gen.FieldU64.Mul121666_outs.getD j 0) ≤ 2^52 - 1) ∧
    (v51 (get e (Voi.Gen.FieldU64.Mul121666_outs.getD 0 0)) (get e (Voi.Gen.FieldU64.Mul121666_outs.getD 1 0))
        (get e (Voi.Gen.FieldU64.Mul121666_outs.getD 2 0)) (get e (Voi.Gen.FieldU64.Mul121666_outs.getD 3 0))
        (get e (Voi.Gen.FieldU64.Mul121666_outs.getD 4 0)) - 121666 * v51 a0 a1 a2 a3 a4) % (2^255 - 19) = 0 := by
  intro e
  have hpre : PreSat [a0, a1, a2, a3, a4] Spec.FieldU64_Mul121666.pre := by
    refine ⟨rfl, ?_⟩
    intro i hi
    have hi' : i < 5 := hi
    have hx : IR.get [a0, a1, a2, a3, a4] i ≤ 2^54 - 1 := by
      apply ha
      unfold IR.get
      interval_cases i <;> simp
    have hav : aget Spec.FieldU64_Mul121666.pre i = bits 54 := by
      interval_cases i <;> rfl
    rw [hav]
    exact ⟨Nat.zero_le _, hx, Nat.mod_one _⟩
  obtain ⟨⟨_, hb⟩, _, hc⟩ := check_sound _ _ _ FieldU64_Mul121666 _ hpre
  constructor
  · intro j hj
    have := (hb j (by simpa [Voi.Gen.FieldU64.Mul121666_outs] using hj)).2
    have hp : (aget Spec.FieldU64_Mul121666.post j).hi = 2^52 - 1 := by
      interval_cases j <;> rfl
    rw [hp] at this
    exact this
  · have h := hc _ rfl
    simp only [Voi.Gen.FieldU64.Mul121666_outs, lincomb, weights, radix51, List.map, Poly.val_mul, Poly.val_scale, fe64_0] at h
    simp only [Poly.val, Mono.val, Atom.val, List.foldr, IR.get, List.getD_cons_zero, List.getD_cons_succ] at h
    simp only [Voi.Gen.FieldU64.Mul121666_outs, List.getD_cons_zero, List.getD_cons_succ]
    unfold v51
    have e1 : P25519 = 2^255 - 19 := rfl
    rw [e1] at h
    convert h using 2
    simp only [IR.get, e]
    ring

theorem feSquare2_meets_contract (a0 a1 a2 a3 a4 : Nat)
    (ha : ∀ x ∈ [a0, a1, a2, a3, a4], x ≤ 2^54 - 1) :
    let e := run Voi.Gen.FieldU64.Square2_prog [a0, a1, a2, a3, a4]
    (∀ j, j < 5 → get e (Voi.Gen.FieldU64.Square2_outs.getD j 0) ≤ 2^53 - 1) ∧
    (v51 (get e (Voi.Gen.FieldU64.Square2_outs.getD 0 0)) (get e (Voi.Gen.FieldU64.Square2_outs.getD 1 0))
        (get e (Voi.Gen.FieldU64.Square2_outs.getD 2 0)) (get e (Voi.Gen.FieldU64.Square2_outs.getD 3 0))
        (get e (Voi.Gen.FieldU64.Square2_outs.getD 4 0)) - 2 * (v51 a0 a1 a2 a3 a4 * v51 a0 a1 a2 a3 a4)) % (2^255 - 19) = 0 := by
  intro e
  have hpre : PreSat [a0, a1, a2, a3, a4] Spec.FieldU64_Square2.pre := by
    refine ⟨rfl, ?_⟩
    intro i hi
    have hi' : i < 5 := hi
    have hx : IR.get [a0, a1, a2, a3, a4] i ≤ 2^54 - 1 := by
      apply ha
      unfold IR.get
      interval_cases i <;> simp
    have hav : aget Spec.FieldU64_Square2.pre i = bits 54 := by
      interval_cases i <;> rfl
    rw [hav]
    exact ⟨Nat.zero_le _, hx, Nat.mod_one _⟩
  obtain ⟨⟨_, hb⟩, _, hc⟩ := check_sound _ _ _ FieldU64_Square2 _ hpre
  constructor
  · intro j hj
    have := (hb j (by simpa [Voi.Gen.FieldU64.Square2_outs] using hj)).2
    have hp : (aget Spec.FieldU64_Square2.post j).hi = 2^53 - 1 := by
      interval_cases j <;> rfl
    rw [hp] at this
    exact this
  · have h := hc _ rfl
    simp only [Voi.Gen.FieldU64.Square2_outs, lincomb, weights, radix51, List.map, Poly.val_mul, Poly.val_scale, fe64_0] at h
    simp only [Poly.val, Mono.val, Atom.val, List.foldr, IR.get, List.getD_cons_zero, List.getD_cons_succ] at h
    simp only [Voi.Gen.FieldU64.Square2_outs, List.getD_cons_zero, List.getD_cons_succ]
    unfold v51
    have e1 : P25519 = 2^255 - 19 := rfl
    rw [e1] at h
    convert h using 2
    simp only [IR.get, e]
    ring

theorem feNeg_meets_contract (a0 a1 a2 a3 a4 : Nat)
    (h0 : a0 ≤ 36028797018963664) (h1 : a1 ≤ 36028797018963952) (h2 : a2 ≤ 36028797018963952)
    (h3 : a3 ≤ 36028797018963952) (h4 : a4 ≤ 36028797018963952) :
    let e := run Voi.Gen.FieldU64.Neg_prog [a0, a1, a2, a3, a4]
    (∀ j, j < 5 → get e (Voi.Gen.FieldU64.Neg_outs.getD j 0) ≤ 2^52 - 1) ∧
    (v51 (get e (Voi.Gen.FieldU64.Neg_outs.getD 0 0)) (get e (Voi.Gen.FieldU64.Neg_outs.getD 1 0))
        (get e (Voi.Gen.FieldU64.Neg_outs.getD 2 0)) (get e (Voi.Gen.FieldU64.Neg_outs.getD 3 0))
        (get e (Voi.Gen.FieldU64.Neg_outs.getD 4 0)) - (-1) * v51 a0 a1 a2 a3 a4) % (2^255 - 19) = 0 := by
  intro e
  have hpre : PreSat [a0, a1, a2, a3, a4] Spec.FieldU64_Neg.pre := by
    refine ⟨rfl, ?_⟩
    intro i hi
    have hi' : i < 5 := hi
    interval_cases i
    · exact ⟨Nat.zero_le _, h0, Nat.mod_one _⟩
    · exact ⟨Nat.zero_le _, h1, Nat.mod_one _⟩
    · exact ⟨Nat.zero_le _, h2, Nat.mod_one _⟩
    · exact ⟨Nat.zero_le _, h3, Nat.mod_one _⟩
    · exact ⟨Nat.zero_le _, h4, Nat.mod_one _⟩
  obtain ⟨⟨_, hb⟩, _, hc⟩ := check_sound _ _ _ FieldU64_Neg _ hpre
  constructor
  · intro j hj
    have := (hb j (by simpa [Voi.Gen.FieldU64.Neg_outs] using hj)).2
    have hp : (aget Spec.FieldU64_Neg.post j).hi = 2^52 - 1 := by
      interval_cases j <;> rfl
    rw [hp] at this
    exact this
  · have h := hc _ rfl
    simp only [Voi.Gen.FieldU64.Neg_outs, lincomb, weights, radix51, List.map, Poly.val_scale, fe64_0] at h
    simp only [Poly.val, Mono.val, Atom.val, List.foldr, IR.get, List.getD_cons_zero, List.getD_cons_succ] at h
    simp only [Voi.Gen.FieldU64.Neg_outs, List.getD_cons_zero, List.getD_cons_succ]
    unfold v51
    have e1 : P25519 = 2^255 - 19 := rfl
    rw [e1] at h
    convert h using 2
    simp only [IR.get, e]
    ring

theorem feSub_meets_contract (a0 a1 a2 a3 a4 b0 b1 b2 b3 b4 : Nat)
    (ha : ∀ x ∈ [a0, a1, a2, a3, a4], x ≤ 2^63 - 1)
    (h0 : b0 ≤ 36028797018963664) (h1 : b1 ≤ 36028797018963952) (h2 : b2 ≤ 36028797018963952)
    (h3 : b3 ≤ 36028797018963952) (h4 : b4 ≤ 36028797018963952) :
    let e := run Voi.Gen.FieldU64.Sub_prog [a0, a1, a2, a3, a4, b0, b1, b2, b3, b4]
    (∀ j, j < 5 → get e (Voi.Gen.FieldU64.Sub_outs.getD j 0) ≤ 2^52 - 1) ∧
    (v51 (get e (Voi.Gen.FieldU64.Sub_outs.getD 0 0)) (get e (Voi.Gen.FieldU64.Sub_outs.getD 1 0))
        (get e (Voi.Gen.FieldU64.Sub_outs.getD 2 0)) (get e (Voi.Gen.FieldU64.Sub_outs.getD 3 0))
        (get e (Voi.Gen.FieldU64.Sub_outs.getD 4 0)) - (v51 a0 a1 a2 a3 a4 + (-1) * v51 b0 b1 b2 b3 b4)) % (2^255 - 19) = 0 := by
  intro e
  have hpre : PreSat [a0, a1, a2, a3, a4, b0, b1, b2, b3, b4] Spec.FieldU64_Sub.pre := by
    refine ⟨rfl, ?_⟩
    intro i hi
    have hi' : i < 10 := hi
    interval_cases i
    · exact ⟨Nat.zero_le _, ha a0 (by simp), Nat.mod_one _⟩
    · exact ⟨Nat.zero_le _, ha a1 (by simp), Nat.mod_one _⟩
    · exact ⟨Nat.zero_le _, ha a2 (by simp), Nat.mod_one _⟩
    · exact ⟨Nat.zero_le _, ha a3 (by simp), Nat.mod_one _⟩
    · exact ⟨Nat.zero_le _, ha a4 (by simp), Nat.mod_one _⟩
    · exact ⟨Nat.zero_le _, h0, Nat.mod_one _⟩
    · exact ⟨Nat.zero_le _, h1, Nat.mod_one _⟩
    · exact ⟨Nat.zero_le _, h2, Nat.mod_one _⟩
    · exact ⟨Nat.zero_le _, h3, Nat.mod_one _⟩
    · exact ⟨Nat.zero_le _, h4, Nat.mod_one _⟩
  obtain ⟨⟨_, hb⟩, _, hc⟩ := check_sound _ _ _ FieldU64_Sub _ hpre
  constructor
  · intro j hj
    have := (hb j (by simpa [Voi.Gen.FieldU64.Sub_outs] using hj)).2
    have hp : (aget Spec.FieldU64_Sub.post j).hi = 2^52 - 1 := by
      interval_cases j <;> rfl
    rw [hp] at this
    exact this
  · have h := hc _ rfl
    simp only [Voi.Gen.FieldU64.Sub_outs, lincomb, weights, radix51, List.map, Poly.val_add, Poly.val_scale, fe64_0, fe64_5] at h
    simp only [Poly.val, Mono.val, Atom.val, List.foldr, IR.get, List.getD_cons_zero, List.getD_cons_succ] at h
    simp only [Voi.Gen.FieldU64.Sub_outs, List.getD_cons_zero, List.getD_cons_succ]
    unfold v51
    have e1 : P25519 = 2^255 - 19 := rfl
    rw [e1] at h
    convert h using 2
    simp only [IR.get, e]
    ring

/-- `Add` (as regenerated) adds limb by limb in 64-bit words: with the sum of the operands' bounds below 2^64 (what the bound
replay requires) nothing wraps, the result's limbs are the sums and its value the sum of the values -/
theorem feAdd_limbwise (a0 a1 a2 a3 a4 b0 b1 b2 b3 b4 : Nat) :
    Voi.Gen.FieldU64.Add_outs.map (IR.get (run Voi.Gen.FieldU64.Add_prog [a0, a1, a2, a3, a4, b0, b1, b2, b3, b4])) =
      [(a0 + b0) % 2^64, (a1 + b1) % 2^64, (a2 + b2) % 2^64, (a3 + b3) % 2^64, (a4 + b4) % 2^64] := rfl

/-- the bounds used above are the entries of the contract table -/
theorem contract_bounds : C64.mulPre = List.replicate 5 (2^54 - 1) ∧ C64.mulPost = List.replicate 5 (2^52 - 1) ∧
    C64.sqPre = List.replicate 5 (2^54 - 1) ∧ C64.sqPost = List.replicate 5 (2^52 - 1) ∧ C64.sq2Post = List.replicate 5 (2^53 - 1) ∧
    C64.subPreA = List.replicate 5 (2^63 - 1) ∧ C64.negPost = List.replicate 5 (2^52 - 1) ∧
    C64.subPreB = [36028797018963664, 36028797018963952, 36028797018963952, 36028797018963952, 36028797018963952] ∧
    C64.negPre = C64.subPreB := by
  decide +kernel

end Voi.Props.FL.Link
