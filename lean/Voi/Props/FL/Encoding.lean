/-
Value theorems about the REGENERATED decompression and compression of Edwards points (curve/edwards.go:
`(*EdwardsPoint).SetCompressedY`, `(*CompressedEdwardsY).SetEdwardsPoint`) and the identity / small-order tests:
the regenerated functions ARE the specification's `Pt.decode` / `Pt.encode` (RFC 8032 §5.1.2–5.1.3 as the library documents
them), for every 32-byte string resp. every representative.  `SqrtRatioI` enters as the summary instruction whose exactness is
`Sqrt.SqrtRatioI_summary`; `Invert` as `Field.Invert_eq`.
-/
import Voi.Props.FL.Curve
import Voi.Props.BytesLemmas
import Voi.Gen.FL_CurveF64_SetCompressedY
import Voi.Gen.FL_CurveF64_CompressY
import Voi.Gen.FL_CurveF64_EdwardsIsIdentity
import Voi.Gen.FL_CurveF64_EdwardsIsSmallOrder
namespace Voi.Props.FL
open Voi Voi.Spec Voi.Proofs Voi.FIR Voi.Gen.CurveF64
open Voi.Props.C07 hiding toZ

local notation "toZ" => Voi.Props.C07.toZ

theorem const_d : (37095705934669439343138083508754565189542113879843219016388785533085940283555 : Nat) = Fp.d := by
  decide +kernel

theorem mul_comm' (a b : Nat) : Fp.mul a b = Fp.mul b a := by unfold Fp.mul; rw [Nat.mul_comm]

/-- **(*EdwardsPoint).SetCompressedY** (as regenerated) is the specification's decoder: same accept/reject decision, and on
acceptance the point (x, y) in extended coordinates (x, y, 1, x·y) -/
theorem SetCompressedY_eq (b : Bytes) (hb : b.size = 32) :
    SetCompressedY_tsh (leNat b) =
      (Pt.decode b).map fun P => [P.x, P.y, 1, Fp.mul P.x P.y] := by
  unfold SetCompressedY_tsh Pt.decode
  generalize hsg : leNat b / 2 ^ 255 % 2 = sg
  have hsg2 : sg = 0 ∨ sg = 1 := by omega
  generalize hy : leNat b % 2 ^ 255 % p = y
  simp only [hb, ne_eq, not_true_eq_false, if_false, const_d, FIR.fromBytes, FIR.sqrtV, FIR.sqrtOk, FIR.cond, FIR.topBit,
    FIR.sel, mul_comm' _ Fp.d]
  simp only [hsg, hy]
  cases hs : Fp.sqrtRatioM1 (Fp.sub (Fp.sq y) 1) (Fp.add (Fp.mul Fp.d (Fp.sq y)) 1) with
  | mk ok x =>
    cases ok with
    | false => simp
    | true =>
      rcases hsg2 with rfl | rfl <;> simp

theorem xorTop_eq {y : Nat} (hy : y < 2 ^ 255) (c : Nat) (hc : c ≤ 1) : xorTop y c = y + c * 2 ^ 255 := by
  unfold xorTop
  have hc' : c = 0 ∨ c = 1 := by omega
  rcases hc' with rfl | rfl
  · simp
  · rw [Nat.shiftLeft_eq, Nat.one_mul, Nat.xor_comm]
    have h := Nat.two_pow_add_eq_or_of_lt hy 1
    rw [Nat.mul_one] at h
    have hdis : 2 ^ 255 &&& y = 0 := by
      apply Nat.eq_of_testBit_eq
      intro i
      simp only [Nat.testBit_and, Nat.zero_testBit, Nat.testBit_two_pow]
      by_cases hi : 255 = i
      · subst hi; simp [Nat.testBit_lt_two_pow hy]
      · simp [hi]
    rw [Nat.add_comm, h]
    apply Nat.eq_of_testBit_eq
    intro i
    have hd := congrArg (fun n => n.testBit i) hdis
    simp only [Nat.testBit_and, Nat.zero_testBit] at hd
    simp only [Nat.testBit_xor, Nat.testBit_or]
    cases h1 : (2 ^ 255).testBit i <;> cases h2 : y.testBit i <;> simp_all

theorem p_lt : p < 2 ^ 255 := by decide

/-- **(*CompressedEdwardsY).SetEdwardsPoint** (as regenerated) is the specification's encoder applied to the affine point
(X/Z, Y/Z) -/
theorem CompressY_eq (E : Ext) :
    CompressY_sh E.X E.Y E.Z E.T = [leNat (Pt.encode E.toPt)] := by
  unfold CompressY_sh Pt.encode Ext.toPt
  simp only [FIR.toBytes, FIR.fisNeg]
  congr 1
  rw [Voi.Props.Bytes.leNat_natLE]
  have hy : Fp.mul E.Y (Fp.inv E.Z) % p < 2 ^ 255 := Nat.lt_trans (Nat.mod_lt _ p_pos) p_lt
  by_cases hn : Fp.isNeg (Fp.mul E.X (Fp.inv E.Z)) = true
  · simp only [hn, if_true]
    generalize Fp.mul E.Y (Fp.inv E.Z) % p = y at hy ⊢
    rw [xorTop_eq hy 1 (Nat.le_refl _), Nat.one_mul, Nat.mod_eq_of_lt]
    have : (256 : Nat) ^ 32 = 2 ^ 256 := by decide
    omega
  · simp only [hn, Bool.false_eq_true, if_false]
    generalize Fp.mul E.Y (Fp.inv E.Z) % p = y at hy ⊢
    rw [xorTop_eq hy 0 (by omega), Nat.zero_mul, Nat.add_zero, Nat.mod_eq_of_lt]
    have : (256 : Nat) ^ 32 = 2 ^ 256 := by decide
    omega

open Classical in
/-- **(*EdwardsPoint).IsIdentity** (as regenerated: `Equal` against (0 : 1 : 1 : 0)) decides whether the represented point
is the neutral element -/
theorem EdwardsIsIdentity_iff {P : Ext} {A : Ed25519} (hP : Represents P A) :
    EdwardsIsIdentity_sh P.X P.Y P.Z P.T = [if A = 0 then 1 else 0] := by
  first
  | -- the code compares with the identity point through `Equal`
    (have h := EdwardsEqual_iff hP Represents.zero
     simp only [Ext.zero] at h
     rw [← h]
     rfl)
  | -- the code tests X = 0 and Y = Z directly
    (have key := ExtK.Rep.isZero_iff hP
     simp only [extToK] at key
     simp only [EdwardsIsIdentity_sh, FIR.fisZero, FIR.feq, FIR.band]
     have e1 : (P.X % p = 0) ↔ toZ P.X = 0 := toZ_eq_zero_iff.symm
     have e2 : (P.Y % p = P.Z % p) ↔ toZ P.Y = toZ P.Z := toZ_eq_iff.symm
     by_cases hA : A = 0
     · have := key.2 hA
       rw [if_pos (e1.2 this.1), if_pos (e2.2 this.2), if_pos hA]; rfl
     · rw [if_neg hA]
       by_cases h1 : P.X % p = 0
       · by_cases h2 : P.Y % p = P.Z % p
         · exact absurd (key.1 ⟨e1.1 h1, e2.1 h2⟩) hA
         · rw [if_pos h1, if_neg h2]; rfl
       · rw [if_neg h1]; split <;> rfl)

/-- **IsSmallOrder** is `IsIdentity ∘ MulByCofactor` (by `rfl` on the regenerated programs) … -/
theorem EdwardsIsSmallOrder_comp (X Y Z T : Nat) :
    EdwardsIsSmallOrder_sh X Y Z T =
      EdwardsIsIdentity_sh (Ext.ofList (EdwardsMulByCofactor_sh X Y Z T)).X (Ext.ofList (EdwardsMulByCofactor_sh X Y Z T)).Y
        (Ext.ofList (EdwardsMulByCofactor_sh X Y Z T)).Z (Ext.ofList (EdwardsMulByCofactor_sh X Y Z T)).T := rfl

open Classical in
/-- … hence decides membership in the 8-torsion subgroup -/
theorem EdwardsIsSmallOrder_iff {P : Ext} {A : Ed25519} (hP : Represents P A) :
    EdwardsIsSmallOrder_sh P.X P.Y P.Z P.T = [if (8 : ℕ) • A = 0 then 1 else 0] := by
  have h := EdwardsIsIdentity_iff (EdwardsMulByCofactor_rep hP)
  rw [EdwardsIsSmallOrder_comp]
  exact h

end Voi.Props.FL
