/-
C16 / C01: a FUEL BOUND for the lattice reduction `Voi.Model.Lattice.fsv` (the integer-level model of
`internal/lattice.FindShortVector`).

`Voi.Props.LatticeInv` proves termination with SOME fuel (`fsv_terminates`: `N_u` strictly decreases) and leaves
`Finished k` ("the exit test fired within the model's 4096 iterations") as a hypothesis that the driver checks at
run time.  This file removes it:

  * `bitLen_le_iff`          `BitLen x ≤ m ↔ −2^m ≤ x < 2^m` (two's-complement length)
  * `update_p_decreases`     at every loop head that does not exit, the step STRICTLY decreases the bit length of the
                             inner product `p = ⟨u,v⟩`:  `BitLen p' < BitLen p`.
                             (If `len p ≥ len N_v` the multiplier `2^s` is chosen such that `2^s·N_v` and `|p|` have the same
                             bit length, so the difference loses a bit.  If `len p < len N_v` then `s = 0`, and the
                             new `|p| = N_v − |p|` is `< 2^(len N_v − 2)` because a basis with `N_v ≤ N_u`, `N_v ≥ 2^254` has
                             `p² ≥ N_v² − L² > N_v² − ¾·4^(len N_v − 1)` (Lagrange's identity and `4L² < 3·2^508`).)
  * `loop_finishes`          hence from any state satisfying the invariant the loop exits within `BitLen p + 1`
                             iterations;
  * `finished_of_lt`         `∀ k < 2^512, Finished k`  (initially `p = L·k < 2^765`; the fuel is 4096);
                             `fsv_iters_le : (fsvRun k).1.iters ≤ 765`;
  * `fsv_statement_proved`   the statement `LatticeInv.fsv_statement` that was left as `_partial` there.

No `sorry`, no `axiom`, no `native_decide`.  Mathlib is used (`nlinarith`); this module must not be imported by
Voi/Drv/* or Main.lean.
-/
import Mathlib.Tactic.Linarith
import Mathlib.Tactic.Positivity
import Mathlib.Tactic.Ring
import Mathlib.Tactic.NormNum
import Mathlib.Tactic.Push
import Voi.Props.LatticeInv

namespace Voi.Props.LatticeFuel
open Voi.Model.Lattice Voi.Props.LatticeInv

set_option exponentiation.threshold 5000

/-! ## `BitLen` as a range -/

theorem natBitLen_le_iff (n m : ℕ) : natBitLen n ≤ m ↔ n < 2 ^ m := by
  constructor
  · exact natBitLen_le
  · intro h
    unfold natBitLen
    split
    · exact Nat.zero_le _
    · rename_i h0
      by_contra hc
      have h1 : m ≤ Nat.log2 n := by omega
      have h2 : 2 ^ m ≤ 2 ^ Nat.log2 n := Nat.pow_le_pow_right (by decide) h1
      have h3 := Nat.log2_self_le h0
      omega

/-- two's-complement length: `BitLen x ≤ m` iff `x` fits `m` bits plus a sign bit -/
theorem bitLen_le_iff (x : ℤ) (m : ℕ) : bitLen x ≤ m ↔ -(2 : ℤ) ^ m ≤ x ∧ x < (2 : ℤ) ^ m := by
  have hpos : (0 : ℤ) < (2 : ℤ) ^ m := by positivity
  cases x with
  | ofNat n =>
    rw [show bitLen (Int.ofNat n) = natBitLen n from rfl, natBitLen_le_iff]
    constructor
    · intro h
      refine ⟨by have : (0 : ℤ) ≤ Int.ofNat n := Int.natCast_nonneg n; omega, ?_⟩
      have : ((n : ℕ) : ℤ) < ((2 ^ m : ℕ) : ℤ) := Int.ofNat_lt.mpr h
      simpa using this
    · rintro ⟨-, h⟩
      have : ((n : ℕ) : ℤ) < ((2 ^ m : ℕ) : ℤ) := by simpa using h
      exact Int.ofNat_lt.mp this
  | negSucc n =>
    rw [show bitLen (Int.negSucc n) = natBitLen n from rfl, natBitLen_le_iff, Int.negSucc_eq]
    constructor
    · intro h
      have : ((n : ℕ) : ℤ) < ((2 ^ m : ℕ) : ℤ) := Int.ofNat_lt.mpr h
      have h' : (n : ℤ) < (2 : ℤ) ^ m := by simpa using this
      constructor <;> omega
    · rintro ⟨h, -⟩
      have h' : (n : ℤ) < (2 : ℤ) ^ m := by omega
      have : ((n : ℕ) : ℤ) < ((2 ^ m : ℕ) : ℤ) := by simpa using h'
      exact Int.ofNat_lt.mp this

theorem bitLen_range (x : ℤ) : -(2 : ℤ) ^ bitLen x ≤ x ∧ x < (2 : ℤ) ^ bitLen x :=
  (bitLen_le_iff x _).1 (Nat.le_refl _)

/-- `x` does NOT fit one bit less -/
theorem bitLen_tight {x : ℤ} (h : 1 ≤ bitLen x) :
    x < -(2 : ℤ) ^ (bitLen x - 1) ∨ (2 : ℤ) ^ (bitLen x - 1) ≤ x := by
  by_contra hc
  rw [not_or, not_lt, not_le] at hc
  have := (bitLen_le_iff x (bitLen x - 1)).2 ⟨hc.1, hc.2⟩
  omega

theorem two_pow_pred {b : ℕ} (h : 1 ≤ b) : (2 : ℤ) ^ b = 2 * (2 : ℤ) ^ (b - 1) := by
  have : b = (b - 1) + 1 := by omega
  conv_lhs => rw [this, pow_succ]
  ring

/-! ## The step strictly decreases `BitLen p` -/

theorem B254_eq : B254 = (2 : ℤ) ^ 254 := by unfold B254; norm_num

/-- `L² < ¾·2^508` -/
theorem L_sq_lt : 4 * (L * L) < 3 * ((2 : ℤ) ^ 254 * (2 : ℤ) ^ 254) := by
  have := L_small; rw [B254_eq] at this; exact this

/-- `q ≤ nv − X/2` with `X ≤ nv` contradicts `q² > nv² − ¾X²`  (`X = 2Y`) -/
theorem core_ineq {nv q Y : ℤ} (hY : 0 < Y) (hnvL : 2 * Y ≤ nv) (hq : 0 ≤ q)
    (hK : 4 * (q * q) > 4 * (nv * nv) - 3 * ((2 * Y) * (2 * Y))) (h : q ≤ nv - Y) : False := by
  have h3 : q * q ≤ (nv - Y) * (nv - Y) := mul_le_mul h h hq (by omega)
  have h4 : (2 * Y) * (2 * Y) ≤ nv * (2 * Y) := mul_le_mul_of_nonneg_right hnvL (by omega)
  nlinarith

/-- the arithmetic core.  `a = BitLen N_v`, `b = BitLen p`, `s = b − a` (truncated). -/
theorem p_step {nu nv p : ℤ} (hle : nv ≤ nu) (hlag : nu * nv - p * p = L * L) (hbig : B254 ≤ nv) :
    (0 ≤ p → bitLen (p - nv * (2 : ℤ) ^ (bitLen p - bitLen nv)) < bitLen p) ∧
    (p < 0 → bitLen (p + nv * (2 : ℤ) ^ (bitLen p - bitLen nv)) < bitLen p) := by
  rw [B254_eq] at hbig
  have hnv0 : (0 : ℤ) < nv := lt_of_lt_of_le (by positivity) hbig
  -- a = BitLen nv ≥ 255, A = 2^(a-1) ≤ nv < 2A
  obtain ⟨-, hnvU⟩ := bitLen_range nv
  have ha : 255 ≤ bitLen nv := by
    by_contra hc
    have h1 : bitLen nv ≤ 254 := by omega
    have := ((bitLen_le_iff nv 254).1 h1).2
    omega
  have hnvL : (2 : ℤ) ^ (bitLen nv - 1) ≤ nv := by
    rcases bitLen_tight (x := nv) (by omega) with h | h
    · have : (0 : ℤ) < (2 : ℤ) ^ (bitLen nv - 1) := by positivity
      omega
    · exact h
  rw [two_pow_pred (by omega : 1 ≤ bitLen nv)] at hnvU
  -- X = 2^(a-1) ≥ 2^254
  have hX : (2 : ℤ) ^ 254 ≤ (2 : ℤ) ^ (bitLen nv - 1) := pow_le_pow_right₀ (by norm_num) (by omega)
  generalize hXdef : (2 : ℤ) ^ (bitLen nv - 1) = X at hnvL hnvU hX
  have hX0 : (0 : ℤ) < X := lt_of_lt_of_le (by positivity) hX
  -- (K): p² > nv² − ¾ X²
  have hK : 4 * (p * p) > 4 * (nv * nv) - 3 * (X * X) := by
    have h1 : nv * nv ≤ nu * nv := mul_le_mul_of_nonneg_right hle hnv0.le
    have h2 : (2 : ℤ) ^ 254 * (2 : ℤ) ^ 254 ≤ X * X := mul_le_mul hX hX (by positivity) hX0.le
    have h3 := L_sq_lt
    nlinarith
  -- consequently 2|p| > nv
  have hnr : nv < 2 * p ∨ nv < -(2 * p) := by
    have := not_reduced hle hlag (by rw [B254_eq]; exact hbig)
    exact this
  -- b = BitLen p ≥ a − 1
  have hb : bitLen nv - 1 ≤ bitLen p := by
    by_contra hc
    have h1 : bitLen p ≤ bitLen nv - 2 := by omega
    obtain ⟨h2, h3⟩ := (bitLen_le_iff p _).1 h1
    have h4 : X = 2 * (2 : ℤ) ^ (bitLen nv - 2) := by
      rw [← hXdef]
      have : bitLen nv - 1 = (bitLen nv - 2) + 1 := by omega
      rw [this, pow_succ]; ring
    rcases hnr with h | h <;> omega
  have hb1 : 1 ≤ bitLen p := by omega
  obtain ⟨hpL, hpU⟩ := bitLen_range p
  have htight := bitLen_tight hb1
  rw [two_pow_pred hb1] at hpL hpU
  have hgoal : ∀ p' : ℤ, -(2 : ℤ) ^ (bitLen p - 1) ≤ p' → p' < (2 : ℤ) ^ (bitLen p - 1) → bitLen p' < bitLen p := by
    intro p' h1 h2
    have := (bitLen_le_iff p' (bitLen p - 1)).2 ⟨h1, h2⟩
    omega
  by_cases hab : bitLen nv ≤ bitLen p
  · -- s = b − a ≥ 0, 2^s · X = 2^(b-1)
    have hm : (2 : ℤ) ^ (bitLen p - 1) = X * (2 : ℤ) ^ (bitLen p - bitLen nv) := by
      rw [← hXdef, ← pow_add]; congr 1; omega
    generalize (2 : ℤ) ^ (bitLen p - bitLen nv) = m at hm ⊢
    generalize (2 : ℤ) ^ (bitLen p - 1) = Y at *
    have hm0 : 0 < m := by
      by_contra hc
      have : m ≤ 0 := by omega
      have : X * m ≤ 0 := mul_nonpos_of_nonneg_of_nonpos hX0.le this
      rcases htight with h | h <;> omega
    have hY0 : 0 < Y := by rw [hm]; exact mul_pos hX0 hm0
    have h1 : Y ≤ nv * m := by rw [hm]; exact mul_le_mul_of_nonneg_right hnvL hm0.le
    have h2 : nv * m < 2 * Y := by
      have := mul_lt_mul_of_pos_right hnvU hm0
      rw [hm]; linarith
    generalize nv * m = W at h1 h2 ⊢
    constructor
    · intro hp
      have h3 : Y ≤ p := by rcases htight with h | h <;> omega
      apply hgoal <;> omega
    · intro hp
      have h3 : p < -Y := by rcases htight with h | h <;> omega
      apply hgoal <;> omega
  · -- s = 0 and b = a − 1: X = 2^b
    have hba : bitLen p = bitLen nv - 1 := by omega
    have hs : bitLen p - bitLen nv = 0 := by omega
    rw [hs, pow_zero, mul_one]
    have hXb : X = 2 * (2 : ℤ) ^ (bitLen p - 1) := by
      rw [← hXdef, ← hba]; exact two_pow_pred hb1
    generalize (2 : ℤ) ^ (bitLen p - 1) = Y at *
    have hY0 : 0 < Y := by omega
    subst hXb
    constructor
    · intro hp
      apply hgoal
      · -- p − nv ≥ −Y: otherwise p < nv − Y = nv − X/2, contradicting (K)
        by_contra hc
        exact core_ineq hY0 hnvL hp hK (by omega)
      · omega
    · intro hp
      apply hgoal
      · omega
      · -- p + nv < Y: otherwise −p ≤ nv − Y
        by_contra hc
        have hK' : 4 * (-p * -p) > 4 * (nv * nv) - 3 * ((2 * Y) * (2 * Y)) := by
          have : -p * -p = p * p := by ring
          rw [this]; exact hK
        exact core_ineq hY0 hnvL (by omega) hK' (by omega)

/-- at a loop head that does not exit, the step strictly decreases the bit length of `p` -/
theorem update_p_decreases {k : ℤ} {st : State} (h : Inv k st) (hle : st.nv ≤ st.nu)
    (hne : ¬ exitNow st = true) : bitLen (update st).p < bitLen st.p := by
  have hbig : B254 ≤ st.nv := big_of_not_exit (nv_nonneg h) (fun hc => hne (decide_eq_true hc))
  obtain ⟨hpos, hneg⟩ := p_step hle (lagrange h) hbig
  have hcast : ∀ n : ℕ, ((2 ^ n : ℕ) : ℤ) = (2 : ℤ) ^ n := fun n => by push_cast; rfl
  unfold update
  simp only [shl, shiftAmt, hcast]
  split
  · rename_i hp; exact hpos hp
  · rename_i hp; exact hneg (by omega)

/-! ## The fuel bound -/

/-- from any state satisfying the invariant, `BitLen p + 1` iterations reach the exit test -/
theorem loop_finishes {k : ℤ} : ∀ (n : ℕ) (st : State), Inv k st → bitLen st.p < n → (fsvLoop n st).2 = true
  | 0, _, _, hn => absurd hn (Nat.not_lt_zero _)
  | n + 1, st, h, hn => by
    have hi := inv_head h
    unfold fsvLoop
    simp only
    split
    · rfl
    · rename_i he
      have hdec := update_p_decreases hi (swap_le st) he
      have hp : (narrow (swap st)).p = st.p := by
        show (swap st).p = st.p
        unfold swap; split <;> rfl
      rw [hp] at hdec
      exact loop_finishes n _ (inv_update hi) (by omega)

/-- the iteration counter is bounded by the number of loop heads -/
theorem iters_le : ∀ (n : ℕ) (st : State) (B : ℕ), bitLen st.p ≤ B → ∀ {k : ℤ}, Inv k st →
    (fsvLoop n st).1.iters ≤ st.iters + B
  | 0, st, B, _, _, _ => by simp [fsvLoop]
  | n + 1, st, B, hB, k, h => by
    have hi := inv_head h
    have hit : (narrow (swap st)).iters = st.iters := by
      show (swap st).iters = st.iters
      unfold swap; split <;> rfl
    have hp : (narrow (swap st)).p = st.p := by
      show (swap st).p = st.p
      unfold swap; split <;> rfl
    unfold fsvLoop
    simp only
    split
    · rw [hit]; omega
    · rename_i he
      have hdec := update_p_decreases hi (swap_le st) he
      rw [hp] at hdec
      have hit' : (update (narrow (swap st))).iters = st.iters + 1 := by
        rw [← hit]; unfold update; split <;> rfl
      have := iters_le n (update (narrow (swap st))) (B - 1) (by omega) (inv_update hi)
      rw [hit'] at this
      omega

theorem init_p_bitLen {k : ℕ} (hk : k < 2 ^ 512) : bitLen (init k).p ≤ 765 := by
  rw [bitLen_le_iff]
  show -(2 : ℤ) ^ 765 ≤ L * (k : ℤ) ∧ L * (k : ℤ) < (2 : ℤ) ^ 765
  have hk' : (k : ℤ) < (2 : ℤ) ^ 512 := by exact_mod_cast hk
  have hk0 : (0 : ℤ) ≤ k := Int.natCast_nonneg k
  have hL : L < (2 : ℤ) ^ 253 := by decide
  have hL0 : (0 : ℤ) < L := by decide
  have h1 : L * (k : ℤ) < L * (2 : ℤ) ^ 512 := mul_lt_mul_of_pos_left hk' hL0
  have h2 : L * (2 : ℤ) ^ 512 < (2 : ℤ) ^ 253 * (2 : ℤ) ^ 512 := mul_lt_mul_of_pos_right hL (by positivity)
  have h3 : (2 : ℤ) ^ 253 * (2 : ℤ) ^ 512 = (2 : ℤ) ^ 765 := by rw [← pow_add]
  have h4 : (0 : ℤ) ≤ L * (k : ℤ) := mul_nonneg hL0.le hk0
  have h5 : (0 : ℤ) < (2 : ℤ) ^ 765 := by positivity
  constructor <;> omega

/-- **The model's fuel suffices**: for every scalar `k < 2^512` (in particular every 32-byte string and every
    reduced challenge) the reduction exits within the 4096 iterations of `fsvRun`. -/
theorem finished_of_lt {k : ℕ} (hk : k < 2 ^ 512) : Finished k :=
  loop_finishes fuel (init k) (inv_init k) (lt_of_le_of_lt (init_p_bitLen hk) (by decide))

theorem finished_of_lt_L {k : ℕ} (hk : (k : ℤ) < L) : Finished k := by
  apply finished_of_lt
  have hL : L < ((2 ^ 512 : ℕ) : ℤ) := by decide
  exact_mod_cast lt_trans hk hL

/-- at most 765 reduction steps (observed maximum: 164) -/
theorem fsv_iters_le {k : ℕ} (hk : k < 2 ^ 512) : (fsvRun k).1.iters ≤ 765 := by
  have := iters_le fuel (init k) 765 (init_p_bitLen hk) (inv_init k)
  have h0 : (init k).iters = 0 := rfl
  rw [h0, Nat.zero_add] at this
  exact this

/-- `LatticeInv.fsv_statement`, left there as `fsv_partial`, is now a theorem -/
theorem fsv_statement_proved : fsv_statement :=
  fun k hk => ⟨finished_of_lt (lt_trans hk (by decide)), fsv_partial k hk (finished_of_lt (lt_trans hk (by decide)))⟩

/-- `d1 ≢ 0 (mod L)` without the fuel hypothesis -/
theorem fsv_d1_not_dvd' {k : ℕ} (hk : k < 2 ^ 512) : ¬ L ∣ (fsv k).2 := fsv_d1_not_dvd (finished_of_lt hk)

theorem fsv_short' {k : ℕ} (hk : k < 2 ^ 512) :
    (-B127 < (fsv k).1 ∧ (fsv k).1 < B127) ∧ (-B127 < (fsv k).2 ∧ (fsv k).2 < B127) := fsv_short (finished_of_lt hk)

/-! ## Non-vacuity -/

-- the premises of `update_p_decreases` hold at the first loop head of the 161-step example, and the conclusion is
-- a genuine decrease there
example : bitLen (update (narrow (swap (init kEx)))).p < bitLen (narrow (swap (init kEx))).p :=
  update_p_decreases (inv_head (inv_init kEx)) (swap_le _) (by decide +kernel)
example : bitLen (narrow (swap (init kEx))).p = 504 ∧ bitLen (update (narrow (swap (init kEx)))).p = 502 := by
  decide +kernel
example : Finished kEx := finished_of_lt (by decide)
example : bitLen (-1) = 0 ∧ (-(2 : ℤ) ^ 0 ≤ -1 ∧ (-1 : ℤ) < 2 ^ 0) := ⟨by decide, by norm_num⟩

end Voi.Props.LatticeFuel

section Axioms
open Voi.Props.LatticeFuel
#print axioms bitLen_le_iff
#print axioms p_step
#print axioms update_p_decreases
#print axioms loop_finishes
#print axioms finished_of_lt
#print axioms fsv_iters_le
#print axioms fsv_statement_proved
end Axioms
