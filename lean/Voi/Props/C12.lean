/-
Property C12 — sr25519: complete, S-unique, canonical encodings, batch = single (the part that is mathematics).

A. On the CONCRETE Spec functions of `Voi.Spec.Sr25519` (the ones stream Q1 compares with the Go code on every run):
  * `sig_decode_iff`    `Signature.UnmarshalBinary` accepts ⟺ 64 bytes ∧ marker bit (bit 7 of byte 63) set ∧ s (marker
                        cleared) < L;  `sig_decode_ignores_R`: R is NOT validated there;  `sig_roundtrip`;
  * `sk_decode_iff`     ⟺ 64 bytes ∧ scalar half < L;  `sk_roundtrip`;
  * `pk_decode_iff`     ⟺ 32 bytes ∧ `Ristretto.decode` succeeds;  `pk_roundtrip`;
  * `kp_decode_iff`     ⟺ 96 bytes ∧ both halves accepted ∧ `encode (sk•B) = pk`;  `kp_roundtrip`, `kp_consistent`;
        (`*_roundtrip`: `marshal (unmarshal b) = b` on every accepted string, so every accepted value has ONE encoding;
        `*_decode_eq_some`: the accepted value);
  * `divideByCofactorLoop_value`   the byte loop of `scalarDivideByCofactor` (carry of 3 bits from the more significant
                        byte) computes value/8 for EVERY input string; `scalarDivideByCofactor_loop` (Spec function = loop,
                        all 32-byte inputs); `scalarDivideByCofactor_clamped`: on every clamped input EXACTLY value/8 (no
                        remainder), in `[2^251, 2^252)`, `< L`; `clampEd25519_clamped`, `expandEd25519_key`;
  * `batch_eq_single`   for every verifier state reachable by `Add`/`Reset` (`BInv`, `binv_new/add/reset`) and every
                        entropy: `Verify` returns the per-entry single-verification bits and their conjunction (`expected`),
                        false for the empty batch (`batch_empty`, `expected_allValid_iff`); per-entry bit = `Verify` on the
                        same inputs (`entry_serial_eq_single`); ONE hypothesis `hfast` (soundness of the random linear
                        combination for this call — probabilistic, idealised as in C09); `batch_verify_error`.
B. Over an abstract prime-order group and an abstract transcript (`SrIface`, `SrLaws`: commutative group, `L` prime,
   `L•P = 0` for ALL P, `B ≠ 0`, `decode (encode P) = some P`, `isIdentity`):
  * `sr_complete`       for EVERY secret scalar, EVERY witness `r` (whatever the transcript RNG/entropy gave), transcript
                        and key string: `verify pk (a•B) t (signWith a r pk t) = true`; `sr_sign_error_iff`, `sr_sign_s_lt`;
  * `sr_S_unique`       fixed R, key, transcript: at most one `s < L` verifies; `sr_sig_bytes_unique`: two accepted
                        signature STRINGS with the same R half that both verify are equal (any change in the s half,
                        marker bit included, is rejected); `sr_reject_bad_R`; `orderExact`.
C. Tie of B to the concrete Spec: `srG_verify_concrete` (`SrG.verify concreteSr` IS `Spec.Sr25519.verify`),
   `srG_sign_concrete` (`Spec.Sr25519.sign` IS `signWith` at the witness drawn from the transcript RNG: signer and
   verifier derive the same challenge), and `sr_complete_concrete_partial`: completeness of the concrete Spec follows from
   `RistrettoSignFacts` (decode∘encode and the verification equation on ristretto representatives — C11/C03 on the
   quotient; NOT proved here; `def sr_complete_concrete_statement`).
Not a theorem (hash-dependent): rejection after changing context, message or R.
Non-vacuity: `Toy.toySr` (ℤ/13) satisfies `SrLaws`; decoders evaluated in the kernel on the schnorrkel vector.
(Proof engineering note: equalities between interface-level wrappers and the concrete curve code are proved by rewriting
with equation lemmas, never by `rfl`/`unfold` — the kernel would unfold the curve arithmetic.)

No `sorry`, no `axiom`, no `native_decide`.  Mathlib is used; must not be imported by Voi/Drv/* or Main.lean.
-/
import Voi.Props.C02
import Voi.Props.BytesMore
import Voi.Spec.Sr25519

namespace Voi.Props.C12
open Voi Voi.Spec Voi.Spec.Sr25519 Voi.Props.Bytes Voi.Props.C01

/-! ## The four decoders (on the CONCRETE Spec functions, which stream Q1 compares with the Go code) -/

section Decoders

/-- the top byte of a 32-byte field is its value divided by `2^248` -/
theorem top_byte (x : Bytes) (hx : x.size = 32) : (x.get! 31).toNat = leNat x / 2 ^ 248 := by
  rw [get!_toNat x 31 (by omega)]
  have := leNat_lt x
  rw [hx] at this
  norm_num at this ⊢
  omega

/-- the marker byte of a 64-byte signature string is the top byte of its `s` half -/
theorem marker_byte (b : Bytes) (hb : b.size = 64) : (b.get! 63).toNat = leNat (bslice b 32 32) / 2 ^ 248 := by
  rw [← top_byte _ (bslice_size_of_le (by omega)), get!_bslice b 32 32 31 (by omega) (by omega)]

/-- **`Signature.UnmarshalBinary` accepts exactly**: 64 bytes ∧ the marker bit (bit 7 of byte 63) set ∧ the scalar with the
    marker cleared `< L`.  The first 32 bytes (R) are NOT examined. -/
theorem sig_decode_iff (b : Bytes) :
    (decodeSignature b).isSome = true ↔
      b.size = 64 ∧ 128 ≤ (b.get! 63).toNat ∧ leNat (bslice b 32 32) % 2 ^ 255 < L := by
  unfold decodeSignature
  by_cases h1 : b.size = 64
  case neg => simp [h1]
  by_cases h2 : (b.get! 63).toNat < 128
  · simp [h1, h2] <;> omega
  by_cases h3 : leNat (bslice b 32 32) % 2 ^ 255 < L
  · simp [h1, h2, h3] <;> omega
  · simp [h1, h2, h3] <;> omega

/-- the accepted value -/
theorem sig_decode_eq_some {b : Bytes} {sig : Signature} (h : decodeSignature b = some sig) :
    b.size = 64 ∧ 128 ≤ (b.get! 63).toNat ∧ sig.s < L ∧ sig.r = bslice b 0 32 ∧
      sig.s = leNat (bslice b 32 32) % 2 ^ 255 ∧ leNat (bslice b 32 32) = sig.s + 2 ^ 255 := by
  unfold decodeSignature at h
  by_cases h1 : b.size = 64
  case neg => simp [h1] at h
  by_cases h2 : (b.get! 63).toNat < 128
  · simp [h1, h2] at h
  by_cases h3 : leNat (bslice b 32 32) % 2 ^ 255 < L
  case neg => simp [h1, h2, h3] at h <;> omega
  simp [h1, h2, h3] at h
  obtain ⟨-, rfl⟩ := h
  have hm := marker_byte b h1
  have hlt := leNat_lt (bslice b 32 32)
  rw [bslice_size_of_le (by omega)] at hlt
  refine ⟨h1, by omega, h3, rfl, rfl, ?_⟩
  show leNat (bslice b 32 32) = leNat (bslice b 32 32) % 2 ^ 255 + 2 ^ 255
  norm_num at hlt
  omega

/-- **`MarshalBinary ∘ UnmarshalBinary = id`** on accepted signature strings: every accepted signature has exactly one
    encoding -/
theorem sig_roundtrip {b : Bytes} {sig : Signature} (h : decodeSignature b = some sig) : sig.marshal = b := by
  obtain ⟨h1, -, h3, h4, -, h6⟩ := sig_decode_eq_some h
  unfold Signature.marshal
  rw [Nat.mod_eq_of_lt h3, ← h6, h4]
  have := natLE_leNat (bslice b 32 32)
  rw [bslice_size_of_le (by omega)] at this
  rw [this]
  exact split_at b 32 32 h1

/-- R is not validated by the decoder: acceptance depends only on the length and the second half -/
theorem sig_decode_ignores_R (b b' : Bytes) (hs : b.size = b'.size) (h : bslice b 32 32 = bslice b' 32 32) :
    (decodeSignature b).isSome = (decodeSignature b').isSome := by
  rw [Bool.eq_iff_iff, sig_decode_iff, sig_decode_iff]
  by_cases h1 : b.size = 64
  · have h1' : b'.size = 64 := hs ▸ h1
    rw [marker_byte b h1, marker_byte b' h1', h, hs]
  · have h1' : ¬ b'.size = 64 := hs ▸ h1
    simp [h1, h1']

/-- **`SecretKey.UnmarshalBinary` accepts exactly**: 64 bytes ∧ the scalar half canonical (`< L`) -/
theorem sk_decode_iff (b : Bytes) :
    (decodeSecretKey b).isSome = true ↔ b.size = 64 ∧ leNat (bslice b 0 32) < L := by
  unfold decodeSecretKey
  by_cases h1 : b.size = 64
  case neg => simp [h1]
  by_cases h2 : leNat (bslice b 0 32) < L
  · simp [h1, h2] <;> omega
  · simp [h1, h2] <;> omega

theorem sk_decode_eq_some {b : Bytes} {sk : SecretKey} (h : decodeSecretKey b = some sk) :
    b.size = 64 ∧ sk.key < L ∧ sk.key = leNat (bslice b 0 32) ∧ sk.nonce = bslice b 32 32 := by
  unfold decodeSecretKey at h
  by_cases h1 : b.size = 64
  case neg => simp [h1] at h
  by_cases h2 : leNat (bslice b 0 32) < L
  case neg => simp [h1, h2] at h <;> omega
  simp [h1, h2] at h
  obtain ⟨-, rfl⟩ := h
  exact ⟨h1, h2, rfl, rfl⟩

theorem sk_roundtrip {b : Bytes} {sk : SecretKey} (h : decodeSecretKey b = some sk) : sk.marshal = b := by
  obtain ⟨h1, h2, h3, h4⟩ := sk_decode_eq_some h
  unfold SecretKey.marshal
  rw [Nat.mod_eq_of_lt h2, h3, h4]
  have := natLE_leNat (bslice b 0 32)
  rw [bslice_size_of_le (by omega)] at this
  rw [this]
  exact split_at b 32 32 h1

/-- **`PublicKey.UnmarshalBinary` accepts exactly**: 32 bytes ∧ a valid (canonical) ristretto255 encoding -/
theorem pk_decode_iff (b : Bytes) :
    (decodePublicKey b).isSome = true ↔ b.size = 32 ∧ (Ristretto.decode b).isSome = true := by
  unfold decodePublicKey
  by_cases h1 : b.size = 32
  case neg => simp [h1]
  rcases h2 : Ristretto.decode b with _ | A <;> simp [h1]

theorem pk_decode_eq_some {b : Bytes} {pk : PublicKey} (h : decodePublicKey b = some pk) :
    b.size = 32 ∧ pk.compressed = b ∧ Ristretto.decode b = some pk.point := by
  unfold decodePublicKey at h
  by_cases h1 : b.size = 32
  case neg => simp [h1] at h
  rcases h2 : Ristretto.decode b with _ | A
  · simp [h1, h2] at h
  · simp [h1, h2] at h
    subst h
    exact ⟨h1, rfl, rfl⟩

theorem pk_roundtrip {b : Bytes} {pk : PublicKey} (h : decodePublicKey b = some pk) : pk.marshal = b :=
  (pk_decode_eq_some h).2.1

/-- **`KeyPair.UnmarshalBinary` accepts exactly**: 96 bytes = an accepted secret key ‖ an accepted public key, and the
    public key is the encoding of `sk·B` -/
theorem kp_decode_iff (b : Bytes) :
    (decodeKeyPair b).isSome = true ↔
      b.size = 96 ∧ leNat (bslice b 0 32) < L ∧ (Ristretto.decode (bslice b 64 32)).isSome = true ∧
        Ristretto.encode (Ristretto.smul (leNat (bslice b 0 32)) Ristretto.B) = bslice b 64 32 := by
  unfold decodeKeyPair
  by_cases h1 : b.size = 96
  case neg => simp [h1]
  have e1 : (bslice b 0 64).size = 64 := bslice_size_of_le (by omega)
  have e2 : (bslice b 64 32).size = 32 := bslice_size_of_le (by omega)
  have e3 : bslice (bslice b 0 64) 0 32 = bslice b 0 32 := bslice_bslice b 0 64 0 32 (by omega)
  rcases hsk : decodeSecretKey (bslice b 0 64) with _ | sk
  · have := (sk_decode_iff (bslice b 0 64)).not.1 (by rw [hsk]; simp)
    rw [e3] at this
    simp [h1]
    intro hlt; exact absurd ⟨e1, hlt⟩ this
  obtain ⟨-, s2, s3, -⟩ := sk_decode_eq_some hsk
  rw [e3] at s3
  rcases hpk : decodePublicKey (bslice b 64 32) with _ | pk
  · have := (pk_decode_iff (bslice b 64 32)).not.1 (by rw [hpk]; simp)
    simp [h1]
    intro _ hd; exact absurd ⟨e2, hd⟩ this
  obtain ⟨-, p2, p3⟩ := pk_decode_eq_some hpk
  simp only [h1, ne_eq, not_true_eq_false, if_false, SecretKey.publicKey, p2, C01.beq_iff, s3]
  split <;> simp_all

theorem kp_decode_eq_some {b : Bytes} {kp : KeyPair} (h : decodeKeyPair b = some kp) :
    b.size = 96 ∧ decodeSecretKey (bslice b 0 64) = some kp.sk ∧ decodePublicKey (bslice b 64 32) = some kp.pk ∧
      Ristretto.encode (Ristretto.smul kp.sk.key Ristretto.B) = kp.pk.compressed := by
  unfold decodeKeyPair at h
  by_cases h1 : b.size = 96
  case neg => simp [h1] at h
  rcases hsk : decodeSecretKey (bslice b 0 64) with _ | sk
  · simp [h1, hsk] at h
  rcases hpk : decodePublicKey (bslice b 64 32) with _ | pk
  · simp [h1, hsk, hpk] at h
  simp only [h1, ne_eq, not_true_eq_false, if_false, hsk, hpk] at h
  split at h
  · rename_i hb
    cases h
    exact ⟨h1, rfl, rfl, (C01.beq_iff _ _).1 hb⟩
  · cases h

theorem kp_roundtrip {b : Bytes} {kp : KeyPair} (h : decodeKeyPair b = some kp) : kp.marshal = b := by
  obtain ⟨h1, h2, h3, -⟩ := kp_decode_eq_some h
  unfold KeyPair.marshal
  rw [sk_roundtrip h2, pk_roundtrip h3]
  exact split_at b 64 32 h1

/-- an accepted key pair is consistent: its public key is the encoding of `sk·B` -/
theorem kp_consistent {b : Bytes} {kp : KeyPair} (h : decodeKeyPair b = some kp) :
    kp.pk.compressed = kp.sk.publicKey.compressed :=
  (kp_decode_eq_some h).2.2.2.symm

end Decoders

/-! ## `scalarDivideByCofactor` -/

section Cofactor

theorem shr3 (v : UInt8) : (v >>> 3).toNat = v.toNat / 8 := by
  rw [UInt8.toNat_shiftRight]; simp [Nat.shiftRight_eq_div_pow]

theorem and7shl5 (v : UInt8) : ((v &&& 7) <<< 5).toNat = 32 * (v.toNat % 8) := by
  rw [UInt8.toNat_shiftLeft, UInt8.toNat_and]
  have h7 : (7 : UInt8).toNat = 2 ^ 3 - 1 := rfl
  have h5 : (5 : UInt8).toNat % 8 = 5 := rfl
  rw [h7, Nat.and_two_pow_sub_one_eq_mod, h5, Nat.shiftLeft_eq]
  have := v.toNat_lt
  omega

/-- one iteration of the Go loop: `v := b[i]; r := v & 7; v >>= 3; out[i] = v + low; low = r << 5` -/
def stepD (acc : List UInt8 × UInt8) (v : UInt8) : List UInt8 × UInt8 :=
  (((v >>> 3) + acc.2) :: acc.1, (v &&& 7) <<< 5)

/-- loop invariant, from the most significant byte down: the bytes written so far are the value of the bytes read so far
    divided by 8, the carry `low` holds the three dropped bits in its top three positions, and no byte addition wraps -/
theorem loop_inv (l : List UInt8) :
    leList l = 8 * leList (l.foldr (fun v acc => stepD acc v) ([], 0)).1
        + (l.foldr (fun v acc => stepD acc v) ([], 0)).2.toNat / 32 ∧
      (l.foldr (fun v acc => stepD acc v) ([], 0)).2.toNat % 32 = 0 ∧
      (l.foldr (fun v acc => stepD acc v) ([], 0)).1.length = l.length := by
  induction l with
  | nil => simp [leList]
  | cons x l ih =>
    obtain ⟨i1, i2, i3⟩ := ih
    rw [List.foldr_cons]
    generalize l.foldr (fun v acc => stepD acc v) ([], 0) = r at *
    have hx := x.toNat_lt
    have hr := r.2.toNat_lt
    have hadd : ((x >>> 3) + r.2).toNat = x.toNat / 8 + r.2.toNat := by
      rw [UInt8.toNat_add, shr3]; exact Nat.mod_eq_of_lt (by omega)
    refine ⟨?_, ?_, ?_⟩
    · simp only [stepD, leList, hadd, and7shl5]
      omega
    · simp only [stepD, and7shl5]; omega
    · simp only [stepD, List.length_cons, i3]

theorem toL_ofL (l : List UInt8) : (ofL l).data.toList = l := by simp [ofL]

/-- **the byte loop of `scalarDivideByCofactor` computes value/8** — for EVERY input string (any length, clamped or not),
    and the output has the length of the input -/
theorem divideByCofactorLoop_value (b : Bytes) :
    leNat (divideByCofactorLoop b) = leNat b / 8 ∧ (divideByCofactorLoop b).size = b.size := by
  have key : divideByCofactorLoop b = ofL ((toL b).foldr (fun v acc => stepD acc v) ([], 0)).1 := by
    unfold divideByCofactorLoop
    simp only [List.foldl_reverse]
    rfl
  obtain ⟨i1, i2, i3⟩ := loop_inv (toL b)
  rw [key]
  constructor
  · rw [leNat_eq, toL_ofL, leNat_eq]
    have : b.data.toList = toL b := rfl
    rw [this]
    have hr := ((toL b).foldr (fun v acc => stepD acc v) ([], 0)).2.toNat_lt
    omega
  · show (ofL _).data.size = b.data.size
    rw [← Array.length_toList, toL_ofL, i3]
    simp [toL]

/-- the Spec function is value/8 on every 32-byte string … -/
theorem scalarDivideByCofactor_eq (b : Bytes) (hb : b.size = 32) : scalarDivideByCofactor b = leNat b / 8 := by
  unfold scalarDivideByCofactor
  have := leNat_lt b
  rw [hb] at this
  norm_num at this
  omega

/-- … and equals the byte loop of the Go code (the `#guard` of the Spec, for all inputs) -/
theorem scalarDivideByCofactor_loop (b : Bytes) (hb : b.size = 32) :
    natLE (scalarDivideByCofactor b) 32 = divideByCofactorLoop b := by
  obtain ⟨h1, h2⟩ := divideByCofactorLoop_value b
  rw [scalarDivideByCofactor_eq b hb, ← h1]
  have := natLE_leNat (divideByCofactorLoop b)
  rw [h2, hb] at this
  exact this

/-- **for every clamped input** (low three bits clear, bit 254 set, bit 255 clear — what `ExpandEd25519` produces and
    `NewSecretKeyFromEd25519Bytes` requires) the result is EXACTLY value/8: no remainder is lost, and it is a canonical
    non-zero scalar in `[2^251, 2^252)`. -/
theorem scalarDivideByCofactor_clamped (b : Bytes) (hb : b.size = 32) (h0 : (b.get! 0).toNat % 8 = 0)
    (h31 : (b.get! 31).toNat / 64 = 1) :
    8 * scalarDivideByCofactor b = leNat b ∧ 2 ^ 251 ≤ scalarDivideByCofactor b ∧
      scalarDivideByCofactor b < 2 ^ 252 ∧ scalarDivideByCofactor b < L := by
  rw [scalarDivideByCofactor_eq b hb]
  rw [get!_toNat b 0 (by omega)] at h0
  rw [top_byte b hb] at h31
  have hL : 2 ^ 252 < L := by decide
  norm_num at h0 h31 hL ⊢
  omega

/-- `clampEd25519` produces a clamped 32-byte string -/
theorem clampEd25519_clamped (d : Bytes) :
    (clampEd25519 d).size = 32 ∧ ((clampEd25519 d).get! 0).toNat % 8 = 0 ∧ ((clampEd25519 d).get! 31).toNat / 64 = 1 := by
  have hs : (clampEd25519 d).size = 32 := natLE_size _ _
  refine ⟨hs, ?_, ?_⟩
  · rw [get!_toNat _ 0 (by omega)]
    unfold clampEd25519
    rw [leNat_natLE]
    norm_num
  · rw [top_byte _ hs]
    unfold clampEd25519
    rw [leNat_natLE]
    norm_num
    omega

/-- `ExpandEd25519`: the secret scalar is exactly (clamped value)/8 -/
theorem expandEd25519_key (msk : Bytes) :
    8 * (expandEd25519 msk).key = leNat (clampEd25519 (bslice (sha512 msk) 0 32)) ∧ (expandEd25519 msk).key < L := by
  obtain ⟨h1, h2, h3⟩ := clampEd25519_clamped (bslice (sha512 msk) 0 32)
  obtain ⟨a, -, -, d⟩ := scalarDivideByCofactor_clamped _ h1 h2 h3
  exact ⟨a, d⟩

end Cofactor

/-! ## Sign / Verify over an abstract prime-order group and an abstract transcript -/

/-- What `Sign` / `Verify` use of ristretto255 and of the Merlin transcript. -/
structure SrIface where
  /-- group elements (`curve.RistrettoPoint` up to ristretto equality) -/
  G : Type
  zero : G
  add : G → G → G
  neg : G → G
  smul : ℕ → G → G
  B : G
  /-- `RistrettoPoint.SetCompressed` -/
  decode : Bytes → Option G
  /-- `CompressedRistretto.SetRistrettoPoint` -/
  encode : G → Bytes
  /-- `RistrettoPoint.IsIdentity` -/
  isIdentity : G → Bool
  L : ℕ
  /-- `SigningTranscript` -/
  T : Type
  /-- what the transcript layer can do besides returning a value -/
  E : Type
  /-- `deriveVerifyChallengeScalar`: from the transcript, the compressed public key and the compressed R -/
  challenge : T → Bytes → Bytes → Except E ℕ

namespace SrG
variable (I : SrIface)

/-- `TripleScalarMulBasepointVartime(k, −A, s, R).IsIdentity()` by value: `[k](−A) + [s]B − R = 0` -/
def verifyEquation (k : ℕ) (A : I.G) (s : ℕ) (R : I.G) : Bool :=
  I.isIdentity (I.add (I.add (I.add I.zero (I.smul k (I.neg A))) (I.smul s I.B)) (I.neg R))

/-- `(*PublicKey).Verify` on initialised values: R is decompressed lazily, here -/
def verify (pkBytes : Bytes) (A : I.G) (t : I.T) (rBytes : Bytes) (s : ℕ) : Except I.E Bool :=
  match I.decode rBytes with
  | none => .ok false
  | some R =>
    match I.challenge t pkBytes rBytes with
    | .error e => .error e
    | .ok k => .ok (verifyEquation I k A s R)

/-- `(*KeyPair).Sign` for a secret scalar `a` and ANY witness scalar `r`: `R = [r]B`, `k` = challenge,
    `s = k·a + r (mod L)` -/
def signWith (a r : ℕ) (pkBytes : Bytes) (t : I.T) : Except I.E (Bytes × ℕ) :=
  match I.challenge t pkBytes (I.encode (I.smul r I.B)) with
  | .error e => .error e
  | .ok k => .ok (I.encode (I.smul r I.B), ((k * a) % I.L + r) % I.L)

end SrG

/-! ### the concrete instance and its relation to `Voi.Spec.Sr25519` -/

def concreteSr : SrIface where
  G := Ext
  zero := Ext.zero
  add := Ristretto.add
  neg := Ristretto.neg
  smul := Ristretto.smul
  B := Ristretto.B
  decode := Ristretto.decode
  encode := Ristretto.encode
  isIdentity := Ristretto.isIdentity
  L := Voi.Spec.L
  T := Merlin.Transcript
  E := Merlin.MErr
  challenge := fun t pk r => do
    let t ← signingPrefix t pk
    let t ← commitBytes t "sign:R" r
    let (_, k) ← challengeScalar t "sign:c"
    return k

section Concrete

theorem cS_zero : concreteSr.zero = Ext.zero := rfl
theorem cS_add : concreteSr.add = Ext.add := rfl
theorem cS_neg : concreteSr.neg = Ext.neg := rfl
theorem cS_smul : concreteSr.smul = Ext.smul := rfl
theorem cS_B : concreteSr.B = Ristretto.B := rfl
theorem cS_decode : concreteSr.decode = Ristretto.decode := rfl
theorem cS_encode : concreteSr.encode = Ristretto.encode := rfl
theorem cS_isIdentity : concreteSr.isIdentity = Ristretto.isIdentity := rfl
theorem cS_L : concreteSr.L = Voi.Spec.L := rfl
theorem cS_challenge (t : Merlin.Transcript) (pk r : Bytes) :
    concreteSr.challenge t pk r = (do
      let t ← signingPrefix t pk
      let t ← commitBytes t "sign:R" r
      let (_, k) ← challengeScalar t "sign:c"
      return k) := rfl

/-- the challenge depends on the key and the signature only through their byte strings -/
theorem challenge_concrete (pk : PublicKey) (t : Merlin.Transcript) (sig : Signature) :
    concreteSr.challenge t pk.compressed sig.r = deriveVerifyChallengeScalar pk t sig := by
  rw [cS_challenge]; unfold deriveVerifyChallengeScalar; rfl

theorem foldl2 {α β : Type} (f : α → β → α) (z : α) (a b : β) : List.foldl f z [a, b] = f (f z a) b := rfl

theorem msm2 (k s : ℕ) (P Q : Ext) :
    Ristretto.msm [k, s] [P, Q] = Ext.add (Ext.add Ext.zero (Ext.smul k P)) (Ext.smul s Q) := by
  unfold Ristretto.msm
  have : List.zip [k, s] [P, Q] = [(k, P), (s, Q)] := rfl
  rw [this, foldl2]

/-- the Spec's verification equation with `msm` and `sub` spelled out -/
theorem verifyEquation_eq (k : ℕ) (A : Ext) (s : ℕ) (R : Ext) :
    verifyEquation k A s R =
      Ristretto.isIdentity
        (Ext.add (Ext.add (Ext.add Ext.zero (Ext.smul k (Ext.neg A))) (Ext.smul s Ristretto.B)) (Ext.neg R)) := by
  unfold verifyEquation Ristretto.sub
  rw [msm2]
  unfold Ristretto.neg
  rfl

theorem verifyEquation_concrete_aux1 (k : ℕ) (A : Ext) (s : ℕ) (R : Ext) :
    SrG.verifyEquation concreteSr k A s R = concreteSr.isIdentity (concreteSr.add (concreteSr.add (concreteSr.add
      concreteSr.zero (concreteSr.smul k (concreteSr.neg A))) (concreteSr.smul s concreteSr.B)) (concreteSr.neg R)) :=
  SrG.verifyEquation.eq_1 concreteSr k A s R

theorem verifyEquation_concrete_aux2 (k : ℕ) (A : Ext) (s : ℕ) (R : Ext) :
    concreteSr.isIdentity (concreteSr.add (concreteSr.add (concreteSr.add
      concreteSr.zero (concreteSr.smul k (concreteSr.neg A))) (concreteSr.smul s concreteSr.B)) (concreteSr.neg R)) =
      Ristretto.isIdentity
        (Ext.add (Ext.add (Ext.add Ext.zero (Ext.smul k (Ext.neg A))) (Ext.smul s Ristretto.B)) (Ext.neg R)) := by
  rw [cS_isIdentity, cS_add, cS_neg, cS_smul, cS_zero, cS_B]

/-- (the proof is arranged so that the kernel never has to unfold the curve arithmetic) -/
theorem verifyEquation_concrete (k : ℕ) (A : Ext) (s : ℕ) (R : Ext) :
    SrG.verifyEquation concreteSr k A s R = verifyEquation k A s R :=
  (verifyEquation_concrete_aux1 k A s R).trans
    ((verifyEquation_concrete_aux2 k A s R).trans (verifyEquation_eq k A s R).symm)

/-- `SrG.verify concreteSr` IS `Voi.Spec.Sr25519.verify` -/
theorem srG_verify_concrete (pk : PublicKey) (t : Merlin.Transcript) (sig : Signature) :
    SrG.verify concreteSr pk.compressed pk.point t sig.r sig.s = Voi.Spec.Sr25519.verify pk t sig := by
  refine (SrG.verify.eq_1 concreteSr _ _ _ _ _).trans ?_
  rw [Voi.Spec.Sr25519.verify.eq_1, challenge_concrete]
  have hd : concreteSr.decode sig.r = Ristretto.decode sig.r := congrFun cS_decode sig.r
  rcases h1 : Ristretto.decode sig.r with _ | R
  · rw [h1] at hd; rw [hd]; rfl
  · rw [h1] at hd; rw [hd]
    simp only [verifyEquation_concrete]
    rcases deriveVerifyChallengeScalar pk t sig with e | k
    · rfl
    · rfl

/-- `Voi.Spec.Sr25519.sign` is `SrG.signWith concreteSr` applied to the secret scalar and the witness scalar drawn from the
    transcript RNG (keyed with the secret nonce and the caller's entropy) — in particular signer and verifier derive the
    SAME challenge from `(transcript, pk, R)` -/
theorem srG_sign_concrete (kp : KeyPair) (t : Merlin.Transcript) (entropy : Bytes) :
    Voi.Spec.Sr25519.sign kp t entropy =
      match signingPrefix t kp.pk.compressed with
      | .error e => .error e
      | .ok t' =>
        match witnessScalar t' "signing" [kp.sk.nonce] entropy with
        | .error e => .error e
        | .ok r =>
          match SrG.signWith concreteSr kp.sk.key r kp.pk.compressed t with
          | .error e => .error e
          | .ok (R, s) => .ok { r := R, s := s } := by
  rw [Voi.Spec.Sr25519.sign]
  simp only [SrG.signWith, cS_challenge, cS_encode, cS_smul, cS_B, cS_L, Sc.add, Sc.mul, Ristretto.smul, bind,
    Except.bind]
  rcases signingPrefix t kp.pk.compressed with e | t'
  · rfl
  · simp only
    rcases witnessScalar t' "signing" [kp.sk.nonce] entropy with e | r
    · rfl
    · simp only
      rcases commitBytes t' "sign:R" (Ristretto.encode (Ext.smul r Ristretto.B)) with e | t''
      · rfl
      · simp only
        rcases challengeScalar t'' "sign:c" with e | ⟨t3, k⟩
        · rfl
        · rfl

end Concrete

/-! ### laws, completeness, S-uniqueness -/

/-- The laws of a prime-order group with a canonical encoding (ristretto255: C11 and the group law of C03 on the
    quotient by the 4-torsion). -/
structure SrLaws (I : SrIface) [AddCommGroup I.G] : Prop where
  zero_eq : I.zero = 0
  add_eq : ∀ P Q : I.G, I.add P Q = P + Q
  neg_eq : ∀ P : I.G, I.neg P = -P
  smul_eq : ∀ (n : ℕ) (P : I.G), I.smul n P = n • P
  L_prime : Nat.Prime I.L
  /-- prime-order group: EVERY element is killed by `L` -/
  L_all : ∀ P : I.G, I.L • P = 0
  B_ne : I.B ≠ 0
  isIdentity_iff : ∀ P : I.G, I.isIdentity P = true ↔ P = 0
  decode_encode : ∀ P : I.G, I.decode (I.encode P) = some P

section Abstract
variable (I : SrIface) [AddCommGroup I.G]

theorem SrLaws.encode_injective {I : SrIface} [AddCommGroup I.G] (h : SrLaws I) : Function.Injective I.encode := by
  intro P Q hPQ
  have := h.decode_encode P
  rw [hPQ, h.decode_encode Q] at this
  exact (Option.some.inj this).symm

/-- the verification equation, in group notation -/
theorem verifyEquation_iff (h : SrLaws I) (k : ℕ) (A : I.G) (s : ℕ) (R : I.G) :
    SrG.verifyEquation I k A s R = true ↔ s • I.B = R + k • A := by
  unfold SrG.verifyEquation
  rw [h.isIdentity_iff, h.add_eq, h.add_eq, h.add_eq, h.neg_eq, h.neg_eq, h.smul_eq, h.smul_eq, h.zero_eq]
  constructor
  · intro e
    have : s • I.B = (0 + k • -A + s • I.B + -R) + (R + k • A) := by rw [smul_neg]; abel
    rw [this, e, zero_add]
  · intro e
    rw [e, smul_neg]; abel

/-- **C12 completeness (`sr_complete`).**  For EVERY secret scalar `a`, EVERY witness `r` (whatever the transcript RNG and
    the entropy produced), every transcript and key string: the signature that `signWith` returns verifies under
    `A = a•B`. -/
theorem sr_complete (h : SrLaws I) (a r : ℕ) (pkBytes : Bytes) (t : I.T) {R : Bytes} {s : ℕ}
    (hs : SrG.signWith I a r pkBytes t = .ok (R, s)) :
    SrG.verify I pkBytes (a • I.B) t R s = .ok true := by
  unfold SrG.signWith at hs
  rcases hk : I.challenge t pkBytes (I.encode (I.smul r I.B)) with e | k
  · rw [hk] at hs; cases hs
  rw [hk] at hs
  simp only [Except.ok.injEq, Prod.mk.injEq] at hs
  obtain ⟨rfl, rfl⟩ := hs
  unfold SrG.verify
  rw [h.decode_encode, hk]
  simp only
  congr 1
  rw [verifyEquation_iff I h, h.smul_eq, nsmul_mod_of_smul_eq_zero (h.L_all _), add_smul,
    nsmul_mod_of_smul_eq_zero (h.L_all _), mul_smul]
  abel

/-- signing fails only if the transcript layer fails; it never produces a signature that does not verify -/
theorem sr_sign_error_iff (a r : ℕ) (pkBytes : Bytes) (t : I.T) (e : I.E) :
    SrG.signWith I a r pkBytes t = .error e ↔ I.challenge t pkBytes (I.encode (I.smul r I.B)) = .error e := by
  unfold SrG.signWith
  rcases I.challenge t pkBytes (I.encode (I.smul r I.B)) with e' | k <;> simp

/-- the signature scalar is canonical -/
theorem sr_sign_s_lt (h : SrLaws I) (a r : ℕ) (pkBytes : Bytes) (t : I.T) {R : Bytes} {s : ℕ}
    (hs : SrG.signWith I a r pkBytes t = .ok (R, s)) : s < I.L := by
  unfold SrG.signWith at hs
  rcases hk : I.challenge t pkBytes (I.encode (I.smul r I.B)) with e | k
  · rw [hk] at hs; cases hs
  rw [hk] at hs
  simp only [Except.ok.injEq, Prod.mk.injEq] at hs
  obtain ⟨-, rfl⟩ := hs
  exact Nat.mod_lt _ h.L_prime.pos

/-- in a group of prime exponent `L`, a non-zero element has order exactly `L` -/
theorem orderExact (h : SrLaws I) (n : ℤ) (hn : n • I.B = 0) : (I.L : ℤ) ∣ n := by
  by_contra hnd
  exact h.B_ne (smul_eq_zero_of_coprime (isCoprime_of_prime_not_dvd h.L_prime hnd) (h.L_all _) hn)

/-- **C12 S-uniqueness (`sr_S_unique`).**  For a fixed R string, key and transcript (hence a fixed challenge) at most one
    `s < L` verifies. -/
theorem sr_S_unique (h : SrLaws I) (pkBytes : Bytes) (A : I.G) (t : I.T) (rBytes : Bytes) {s s' : ℕ}
    (hs : s < I.L) (hs' : s' < I.L)
    (hv : SrG.verify I pkBytes A t rBytes s = .ok true) (hv' : SrG.verify I pkBytes A t rBytes s' = .ok true) :
    s = s' := by
  unfold SrG.verify at hv hv'
  rcases hR : I.decode rBytes with _ | R
  · rw [hR] at hv; cases hv
  rw [hR] at hv hv'
  rcases hk : I.challenge t pkBytes rBytes with e | k
  · rw [hk] at hv; cases hv
  rw [hk] at hv hv'
  simp only [Except.ok.injEq] at hv hv'
  rw [verifyEquation_iff I h] at hv hv'
  have key : ((s : ℤ) - s') • I.B = 0 := by
    rw [sub_smul, natCast_zsmul, natCast_zsmul, hv, hv', sub_self]
  obtain ⟨q, hq⟩ := orderExact I h _ key
  have hLpos : (0 : ℤ) < I.L := by exact_mod_cast h.L_prime.pos
  have hs1 : (s : ℤ) < I.L := by exact_mod_cast hs
  have hs2 : (s' : ℤ) < I.L := by exact_mod_cast hs'
  have hq0 : q = 0 := by
    by_contra hne
    rcases lt_or_gt_of_ne hne with hneg | hpos
    · have : (I.L : ℤ) * q ≤ -(I.L : ℤ) := by nlinarith
      omega
    · have : (I.L : ℤ) ≤ (I.L : ℤ) * q := by nlinarith
      omega
  rw [hq0, mul_zero] at hq
  omega

/-- … as byte strings: two accepted signature strings with the same R half that both verify are EQUAL — so changing any
    bit of the `s` half (including the marker bit) of a valid signature makes it invalid or undecodable -/
theorem sr_sig_bytes_unique (h : SrLaws I) (hL : I.L = Voi.Spec.L) (pkBytes : Bytes) (A : I.G) (t : I.T)
    {b b' : Bytes} {sig sig' : Signature} (hd : decodeSignature b = some sig) (hd' : decodeSignature b' = some sig')
    (hr : sig.r = sig'.r)
    (hv : SrG.verify I pkBytes A t sig.r sig.s = .ok true) (hv' : SrG.verify I pkBytes A t sig'.r sig'.s = .ok true) :
    b = b' := by
  obtain ⟨-, -, l1, -⟩ := sig_decode_eq_some hd
  obtain ⟨-, -, l2, -⟩ := sig_decode_eq_some hd'
  rw [← hr] at hv'
  have := sr_S_unique I h pkBytes A t sig.r (hL ▸ l1) (hL ▸ l2) hv hv'
  rw [← sig_roundtrip hd, ← sig_roundtrip hd']
  unfold Signature.marshal
  rw [hr, this]

/-- a signature whose R string is not a valid ristretto255 encoding is rejected (R is validated at verification time,
    not by the decoder) -/
theorem sr_reject_bad_R (pkBytes : Bytes) (A : I.G) (t : I.T) (rBytes : Bytes) (s : ℕ)
    (hR : I.decode rBytes = none) : SrG.verify I pkBytes A t rBytes s = .ok false := by
  unfold SrG.verify; rw [hR]

end Abstract

/-! ### what remains for the concrete Spec -/

/-- The group-theoretic facts about the ristretto255 Spec (representatives in extended coordinates, `Ristretto.equal` as
    equality) that completeness of the concrete `sign`/`verify` needs: the encoding of `[r]B` decodes, and the
    verification equation holds for the decoded representative.  They are consequences of C11 (`decode ∘ encode ≈ id` on
    the image) and of the group law on the quotient (C03) — not proved here. -/
def RistrettoSignFacts : Prop :=
  ∀ a r k : ℕ, ∃ R : Ext, Ristretto.decode (Ristretto.encode (Ristretto.smul r Ristretto.B)) = some R ∧
    verifyEquation k (Ristretto.smul a Ristretto.B) (Sc.add (Sc.mul k a) r) R = true

/-- completeness of the concrete Spec: every signature produced for a key pair whose public key is `sk·B` verifies -/
def sr_complete_concrete_statement : Prop :=
  ∀ (kp : KeyPair) (t : Merlin.Transcript) (entropy : Bytes) (sig : Signature),
    kp.pk = kp.sk.publicKey → Voi.Spec.Sr25519.sign kp t entropy = .ok sig →
    Voi.Spec.Sr25519.verify kp.pk t sig = .ok true

theorem verify_eq_of {pk : PublicKey} {t : Merlin.Transcript} {sig : Signature} {R : Ext} {k : ℕ}
    (h1 : Ristretto.decode sig.r = some R) (h2 : deriveVerifyChallengeScalar pk t sig = .ok k) :
    Voi.Spec.Sr25519.verify pk t sig = .ok (verifyEquation k pk.point sig.s R) := by
  rw [Voi.Spec.Sr25519.verify.eq_1, h1]
  simp only [h2, bind, Except.bind]
  rfl

/-- **what is proved for the concrete Spec**: the transcript part (signer and verifier compute the same challenge; a
    signing error is a transcript error).  Missing: exactly `RistrettoSignFacts`. -/
theorem sr_complete_concrete_partial (hG : RistrettoSignFacts) : sr_complete_concrete_statement := by
  intro kp t entropy sig hpk hs
  rw [srG_sign_concrete] at hs
  rcases h1 : signingPrefix t kp.pk.compressed with e | t'
  · rw [h1] at hs; cases hs
  rw [h1] at hs
  simp only at hs
  rcases h2 : witnessScalar t' "signing" [kp.sk.nonce] entropy with e | r
  · rw [h2] at hs; cases hs
  rw [h2] at hs
  simp only [SrG.signWith] at hs
  rcases h3 : concreteSr.challenge t kp.pk.compressed (concreteSr.encode (concreteSr.smul r concreteSr.B)) with e | k
  · rw [h3] at hs; cases hs
  rw [h3] at hs
  simp only [Except.ok.injEq] at hs
  subst hs
  obtain ⟨R, hR, hE⟩ := hG kp.sk.key r k
  have hc := h3
  rw [cS_encode, cS_smul, cS_B] at hc
  have hc' : deriveVerifyChallengeScalar kp.pk t
      { r := Ristretto.encode (Ext.smul r Ristretto.B), s := (k * kp.sk.key % concreteSr.L + r) % concreteSr.L }
        = .ok k := by
    rw [← challenge_concrete]; exact hc
  rw [cS_encode, cS_smul, cS_B]
  rw [verify_eq_of (R := R) (k := k) hR hc']
  refine congrArg Except.ok ?_
  have hpt : kp.pk.point = Ristretto.smul kp.sk.key Ristretto.B := by rw [hpk]; rfl
  rw [hpt, cS_L]
  exact hE

/-! ## Batch verification = single verification (at the level of the Spec's batch model) -/

section Batch

/-- the invariant of the verifier state that `Add` and `Reset` maintain: `anyInvalid` is set iff some stored entry
    cannot be valid -/
def BInv (v : BatchVerifier) : Prop := v.anyInvalid = v.entries.any (fun e => !e.canBeValid)

theorem binv_new : BInv {} := rfl

theorem binv_reset (v : BatchVerifier) : BInv v.reset := rfl

theorem binv_add {v v' : BatchVerifier} {pk : Option PublicKey} {t : Merlin.Transcript} {sig : Option Signature}
    (hi : BInv v) (h : v.add pk t sig = .ok v') : BInv v' := by
  rw [BatchVerifier.add.eq_1] at h
  rcases hd : Entry.doInit pk t sig with e | e
  · simp only [hd, bind, Except.bind] at h; cases h
  · simp only [hd, bind, Except.bind, pure, Except.pure, Except.ok.injEq] at h
    subst h
    unfold BInv at hi ⊢
    simp only [List.any_append, List.any_cons, List.any_nil, Bool.or_false, hi]

/-- the default entry (stored for an uninitialised key/signature or an undecodable R) is invalid -/
theorem serial_default : Entry.serial {} = false := by
  rw [Entry.serial.eq_1]; rfl

/-- **per-entry bits = single verification**: the verdict the batch verifier's serial path gives for a stored entry is
    what `Verify` returns for the same key, transcript and signature -/
theorem entry_serial_eq_single {pk : Option PublicKey} {t : Merlin.Transcript} {sig : Option Signature} {e : Entry}
    (h : Entry.doInit pk t sig = .ok e) : verifyRecv pk t sig = .ok e.serial := by
  rw [Entry.doInit.eq_def] at h
  rw [verifyRecv.eq_def]
  rcases pk with _ | pk
  · simp only [Except.ok.injEq] at h; subst h; rw [serial_default]
  rcases sig with _ | sig
  · simp only [Except.ok.injEq] at h; subst h; rw [serial_default]
  simp only at h ⊢
  rw [Voi.Spec.Sr25519.verify.eq_1]
  rcases hR : Ristretto.decode sig.r with _ | R
  · rw [hR] at h
    simp only [Except.ok.injEq] at h; subst h; rw [serial_default]
  rw [hR] at h
  simp only [bind, Except.bind] at h ⊢
  rcases hk : deriveVerifyChallengeScalar pk t sig with e' | k
  · rw [hk] at h; cases h
  rw [hk] at h
  simp only at h ⊢
  rcases hw : transcriptWitnessBytes t 16 "" [] (bzero 32) with e' | wb
  · rw [hw] at h; cases h
  rw [hw] at h
  simp only [pure, Except.pure, Except.ok.injEq] at h ⊢
  subst h
  rw [Entry.serial.eq_1]
  simp only [Bool.true_and]

/-- the empty batch: `Verify` returns `(false, nil)`, `VerifyBatchOnly` returns `false` — whatever the entropy -/
theorem batch_empty (v : BatchVerifier) (rand : Bytes) (he : v.entries = []) :
    v.verify rand = .ok (false, []) ∧ v.verifyBatchOnly rand = .ok false := by
  rw [BatchVerifier.verify.eq_1, BatchVerifier.verifyBatchOnly.eq_1, he]
  exact ⟨rfl, rfl⟩

/-- `allValid` of the expected result is the conjunction of the per-entry bits, and false for the empty batch -/
theorem expected_allValid_iff (v : BatchVerifier) :
    v.expected.1 = true ↔ v.entries ≠ [] ∧ ∀ e ∈ v.entries, e.serial = true := by
  rw [BatchVerifier.expected.eq_1]
  simp only [Bool.and_eq_true, Bool.not_eq_true', List.isEmpty_eq_false_iff, List.all_eq_true, List.mem_map, id,
    forall_exists_index, and_imp, forall_apply_eq_imp_iff₂]

theorem expected_bits (v : BatchVerifier) : v.expected.2 = v.entries.map Entry.serial := rfl

/-- a batch containing an entry that cannot be valid is never reported valid -/
theorem all_serial_false_of_anyInvalid {v : BatchVerifier} (hi : BInv v) (ha : v.anyInvalid = true) :
    (v.entries.map Entry.serial).all id = false := by
  unfold BInv at hi
  rw [ha] at hi
  obtain ⟨e, he, hc⟩ := List.any_eq_true.1 hi.symm
  rw [Bool.eq_false_iff]
  intro hall
  have := List.all_eq_true.1 hall e.serial (List.mem_map.2 ⟨e, he, rfl⟩)
  rw [Entry.serial.eq_1] at this
  simp only [Bool.not_eq_true'] at hc
  rw [hc] at this
  simp at this

/-- **C12 batch = single (`batch_eq_single`).**  For every verifier state reached by `Add`/`Reset` (`BInv`) and every
    entropy, whenever `Verify` returns it returns exactly the single-verification results: the per-entry bits are the
    serial verdicts and `allValid` is their conjunction (false for the empty batch).  The ONE hypothesis is the soundness
    of the delinearised equation for this call, `hfast`: if the random linear combination vanishes then every entry is
    valid (it fails with probability ≤ 2^-128 over the `z_i`; a statement about the random coefficients, idealised as
    in C09).  The converse direction needs no hypothesis: when the fast path says `false` the code falls back to the
    serial path. -/
theorem batch_eq_single {v : BatchVerifier} {rand : Bytes} {r : Bool × List Bool} (hi : BInv v)
    (hfast : v.verifyBatchOnly rand = .ok true → ∀ e ∈ v.entries, e.serial = true)
    (h : v.verify rand = .ok r) : r = v.expected := by
  rw [BatchVerifier.verify.eq_1] at h
  rw [BatchVerifier.expected.eq_1]
  by_cases hE : v.entries.isEmpty = true
  · rw [if_pos hE] at h
    simp only [Except.ok.injEq] at h
    subst h
    have : v.entries = [] := List.isEmpty_iff.1 hE
    simp [this]
  rw [if_neg hE] at h
  rw [Bool.not_eq_true] at hE
  by_cases hA : v.anyInvalid = true
  · simp only [hA, if_true, bind, Except.bind, pure, Except.pure, Bool.false_eq_true, if_false, Bool.not_true,
      Bool.false_and, Except.ok.injEq] at h
    subst h
    rw [hE, all_serial_false_of_anyInvalid hi hA]
    rfl
  · rw [Bool.not_eq_true] at hA
    simp only [hA, Bool.false_eq_true, if_false, bind, Except.bind] at h
    rcases hb : v.verifyBatchOnly rand with e | b
    · rw [hb] at h; cases h
    rw [hb] at h
    cases b
    · simp only [Bool.false_eq_true, if_false, pure, Except.pure, Bool.not_false, Bool.true_and,
        Except.ok.injEq] at h
      subst h
      rw [hE]; rfl
    · simp only [if_true, pure, Except.pure, Except.ok.injEq] at h
      subst h
      have hall := hfast hb
      have hcan : ∀ e ∈ v.entries, e.canBeValid = true := by
        intro e he
        have := hall e he
        rw [Entry.serial.eq_1, Bool.and_eq_true] at this
        exact this.1
      have h1 : v.entries.map (·.canBeValid) = v.entries.map Entry.serial :=
        List.map_congr_left (fun e he => by rw [hcan e he, hall e he])
      have h2 : (v.entries.map Entry.serial).all id = true := by
        rw [List.all_eq_true]
        intro b hb'
        obtain ⟨e, he, rfl⟩ := List.mem_map.1 hb'
        exact hall e he
      rw [hE, h1, h2]; rfl

/-- `Verify` fails (a documented panic: short entropy reader, or a transcript-layer error) only on the fast path of a
    non-empty batch without invalid entries -/
theorem batch_verify_error {v : BatchVerifier} {rand : Bytes} {e : SrErr} (h : v.verify rand = .error e) :
    v.entries ≠ [] ∧ v.anyInvalid = false ∧ v.verifyBatchOnly rand = .error e := by
  rw [BatchVerifier.verify.eq_1] at h
  by_cases hE : v.entries.isEmpty = true
  · rw [if_pos hE] at h; cases h
  rw [if_neg hE] at h
  have hne : v.entries ≠ [] := fun h0 => hE (List.isEmpty_iff.2 h0)
  by_cases hA : v.anyInvalid = true
  · simp only [hA, if_true, bind, Except.bind, pure, Except.pure, Bool.false_eq_true, if_false] at h
    cases h
  · rw [Bool.not_eq_true] at hA
    simp only [hA, Bool.false_eq_true, if_false, bind, Except.bind] at h
    rcases hb : v.verifyBatchOnly rand with e' | b
    · rw [hb] at h
      simp only [Except.error.injEq] at h
      subst h
      exact ⟨hne, hA, rfl⟩
    · rw [hb] at h
      cases b <;> simp only [Bool.false_eq_true, if_false, if_true, pure, Except.pure] at h <;> cases h

end Batch

/-! ## Non-vacuity: a toy instance satisfying every law (`G = ℤ/13`, `B = 1`, `L = 13`; an element is encoded as 32 equal
bytes, only that form decodes — a canonical encoding; transcripts are byte strings and the challenge is the value of
`t ‖ pk ‖ R` mod 13) -/
namespace Toy

abbrev G := ZMod 13

def enc (P : G) : Bytes := ⟨Array.replicate 32 (UInt8.ofNat P.val)⟩

def dec (b : Bytes) : Option G :=
  if b.size = 32 then
    (if Voi.beq (enc (((b.get! 0).toNat : ℕ) : G)) b then some (((b.get! 0).toNat : ℕ) : G) else none)
  else none

abbrev toySr : SrIface where
  G := G
  zero := 0
  add := fun P Q => P + Q
  neg := fun P => -P
  smul := fun n P => n • P
  B := 1
  decode := dec
  encode := enc
  isIdentity := fun P => decide (P = 0)
  L := 13
  T := Bytes
  E := Unit
  challenge := fun t pk r => .ok (leNat (t ++ pk ++ r) % 13)

theorem dec_enc : ∀ P : G, dec (enc P) = some P := by decide +kernel

theorem toySr_laws : SrLaws toySr where
  zero_eq := rfl
  add_eq := fun _ _ => rfl
  neg_eq := fun _ => rfl
  smul_eq := fun _ _ => rfl
  L_prime := by show Nat.Prime 13; norm_num
  L_all := by
    intro P
    show (13 : ℕ) • (P : ZMod 13) = 0
    rw [nsmul_eq_mul]
    have : ((13 : ℕ) : ZMod 13) = 0 := by decide +kernel
    rw [this, zero_mul]
  B_ne := by show (1 : ZMod 13) ≠ 0; decide +kernel
  isIdentity_iff := fun _ => decide_eq_true_iff
  decode_encode := dec_enc

/-- completeness on the toy instance: every scalar, witness, transcript -/
example (a r : ℕ) (pk t : Bytes) :
    ∃ R s, SrG.signWith toySr a r pk t = .ok (R, s) ∧ SrG.verify toySr pk (a • toySr.B) t R s = .ok true := by
  refine ⟨_, _, rfl, ?_⟩
  exact sr_complete toySr toySr_laws a r pk t rfl

/-- a concrete toy signature (a = 3, r = 5), kernel-evaluated; `s + 1` is rejected, in accordance with `sr_S_unique` -/
example : SrG.verify toySr (enc 3) (3 : G) (bytesOfList [116]) (enc 5)
    (((leNat (bytesOfList [116] ++ enc 3 ++ enc 5) % 13) * 3 % 13 + 5) % 13) = .ok true := by decide +kernel
example : SrG.verify toySr (enc 3) (3 : G) (bytesOfList [116]) (enc 5)
    ((((leNat (bytesOfList [116] ++ enc 3 ++ enc 5) % 13) * 3 % 13 + 5) + 1) % 13) = .ok false := by decide +kernel
/-- an R string that is not a canonical encoding is rejected at verification time -/
example : SrG.verify toySr (enc 3) (3 : G) (bytesOfList [116]) (natLE 5 32) 0 = .ok false := by decide +kernel

end Toy

/-! ## The decoders on the upstream schnorrkel vector (kernel-evaluated) -/

def vecSig : Bytes := ofHex! "4e172314444b8f820bb54c22e95076f220ed25373e5c178234aa6c211d292712" ++
  ofHex! "44b947e3ff3418ff6b45fd1df1140c8cbff69fc58ee6dc96df70936a2bb74b82"
/-- the same signature without the schnorrkel marker bit -/
def vecSigUnmarked : Bytes := ofHex! "4e172314444b8f820bb54c22e95076f220ed25373e5c178234aa6c211d292712" ++
  ofHex! "44b947e3ff3418ff6b45fd1df1140c8cbff69fc58ee6dc96df70936a2bb74b02"

example : (decodeSignature vecSig).isSome = true := by decide +kernel
example : (decodeSignature vecSigUnmarked).isSome = false := by decide +kernel
/-- the hypothesis of `sig_roundtrip` is satisfiable, and its conclusion holds on the vector -/
example : ∃ sig, decodeSignature vecSig = some sig ∧ sig.marshal = vecSig := by
  rcases h : decodeSignature vecSig with _ | sig
  · exact absurd h (by decide +kernel)
  · exact ⟨sig, rfl, sig_roundtrip h⟩
/-- `scalarDivideByCofactor` on the schnorrkel `from_ed25519_bytes` documentation vector: clamped, so exactly value/8 -/
example : 8 * scalarDivideByCofactor (ofHex! "28b0ae221c6bb06856b287f60d7ea0d98552ea5a16db16956849aa371db3eb51")
    = leNat (ofHex! "28b0ae221c6bb06856b287f60d7ea0d98552ea5a16db16956849aa371db3eb51") :=
  (scalarDivideByCofactor_clamped _ (by decide +kernel) (by decide +kernel) (by decide +kernel)).1

end Voi.Props.C12

section Axioms
open Voi.Props.C12
#print axioms Voi.Props.Bytes.get!_toNat
#print axioms Voi.Props.Bytes.leNat_append
#print axioms Voi.Props.Bytes.natLE_leNat
#print axioms Voi.Props.Bytes.natLE_add
#print axioms marker_byte
#print axioms sig_decode_iff
#print axioms sig_decode_eq_some
#print axioms sig_roundtrip
#print axioms sig_decode_ignores_R
#print axioms sk_decode_iff
#print axioms sk_decode_eq_some
#print axioms sk_roundtrip
#print axioms pk_decode_iff
#print axioms pk_decode_eq_some
#print axioms pk_roundtrip
#print axioms kp_decode_iff
#print axioms kp_decode_eq_some
#print axioms kp_roundtrip
#print axioms kp_consistent
#print axioms loop_inv
#print axioms divideByCofactorLoop_value
#print axioms scalarDivideByCofactor_eq
#print axioms scalarDivideByCofactor_loop
#print axioms scalarDivideByCofactor_clamped
#print axioms clampEd25519_clamped
#print axioms expandEd25519_key
#print axioms challenge_concrete
#print axioms verifyEquation_concrete
#print axioms srG_verify_concrete
#print axioms srG_sign_concrete
#print axioms verifyEquation_iff
#print axioms sr_complete
#print axioms sr_sign_error_iff
#print axioms sr_sign_s_lt
#print axioms orderExact
#print axioms sr_S_unique
#print axioms sr_sig_bytes_unique
#print axioms sr_reject_bad_R
#print axioms verify_eq_of
#print axioms sr_complete_concrete_partial
#print axioms binv_add
#print axioms entry_serial_eq_single
#print axioms batch_empty
#print axioms expected_allValid_iff
#print axioms all_serial_false_of_anyInvalid
#print axioms batch_eq_single
#print axioms batch_verify_error
#print axioms Toy.toySr_laws
end Axioms

