import Voi.Model.Strobe
import Voi.Spec.Merlin
/-!
# State-machine invariants of the STROBE model (`Voi.Model.Strobe`)  — property C13

Proved for EVERY operation history and data of ANY length (inductions over the data list and the op list):

1. `Inv`: `st.size = 200`, `r + 1 < 200`, `pos < r`, `posBegin ≤ pos + 1` is preserved by `runF`, `duplexByte`,
   `duplexLoop`, `duplex`, `beginOp`, `operate`, established by `new`, hence holds after any history (`run_inv`,
   `history_from_new`).  Consequence `posBegin_lt_256`: Go's `byte(s.posBegin)` never truncates.
2. Index safety: the model turns every out-of-range access of `st` into `Err.oob`; under `Inv` no function ever
   returns `Err.oob` (`*_ok` lemmas, `operate_no_oob`, `run_no_oob`), i.e. every index used is `< 200`
   (`access_in_range`).  `oob_is_live` shows the check is not vacuous.
   The only other failures are exactly the two explicit Go panics (`operate_uninit`, `operate_mismatch`, `operate_ok`).
3. Chunking: `operate f (d1 ++ d2)` = `operate f d1` then `operate(more) f d2`, outputs concatenated
   (`duplexLoop_append`, `operate_append`, `AD_append`, `MetaAD_append`, `KEYm_append`, `PRFm_add`, `operate_chunks`).
   These hold unconditionally (no invariant needed).
4. Clone independence in a heap-of-objects view of the API (`clone_independent`, `origin_independent`,
   `clone_same_step`).

Core Lean tactics only.  This file is not linked into the driver.
-/
namespace Voi.Props.StrobeInv
open Voi Voi.Spec Voi.Model.Strobe

/-! ## The permutation preserves the state size -/

theorem keccakRounds_size (n i : Nat) :
    ∀ (a0 a1 a2 a3 a4 a5 a6 a7 a8 a9 a10 a11 a12 a13 a14 a15 a16 a17 a18 a19 a20 a21 a22 a23 a24 : UInt64),
    (keccakRounds n i a0 a1 a2 a3 a4 a5 a6 a7 a8 a9 a10 a11 a12 a13 a14 a15 a16 a17 a18 a19 a20 a21 a22 a23 a24).size = 25 := by
  induction n generalizing i with
  | zero => intros; rfl
  | succ n ih => intros; unfold keccakRounds; exact ih _ _ _ _ _ _ _ _ _ _ _ _ _ _ _ _ _ _ _ _ _ _ _ _ _ _

theorem keccakF1600_size (s : Array UInt64) : (keccakF1600 s).size = 25 := by
  unfold keccakF1600; exact keccakRounds_size _ _ _ _ _ _ _ _ _ _ _ _ _ _ _ _ _ _ _ _ _ _ _ _ _ _ _

theorem foldl_push8_size (l : List UInt64) (acc : ByteArray) :
    (List.foldl (fun b a => List.foldl (fun b a_1 => b.push (a >>> (8 * UInt64.ofNat a_1)).toUInt8) b (List.range' 0 8)) acc l).size
      = acc.size + 8 * l.length := by
  induction l generalizing acc with
  | nil => simp
  | cons x xs ih =>
    simp only [List.foldl_cons, List.length_cons]
    rw [ih]
    simp [List.range', ByteArray.size_push]
    omega

theorem bytesOfLanes_size (a : Array UInt64) : (bytesOfLanes a).size = 8 * a.size := by
  unfold bytesOfLanes
  simp
  rw [← Array.foldl_toList, foldl_push8_size]
  have : (ByteArray.emptyWithCapacity 200).size = 0 := rfl
  simp [this]

theorem keccakF1600Bytes_size (st : Bytes) : (keccakF1600Bytes st).size = 200 := by
  unfold keccakF1600Bytes; rw [bytesOfLanes_size, keccakF1600_size]

theorem data_size (b : ByteArray) : b.data.size = b.size := by cases b; rfl

theorem permute_size (st : Array UInt8) : (permute st).size = 200 := by
  unfold permute
  rw [data_size]
  exact keccakF1600Bytes_size _

/-! ## (1) The invariant -/

/-- the relation the Go code maintains between calls -/
structure Inv (s : Strobe) : Prop where
  size : s.st.size = 200
  rate : s.r + 1 < 200
  pos : s.pos < s.r
  posBegin : s.posBegin ≤ s.pos + 1

/-- fields that only `New` and `operate` write -/
def Same (s s' : Strobe) : Prop :=
  s'.r = s.r ∧ s'.initialized = s.initialized ∧ s'.curFlags = s.curFlags

theorem Same.refl (s : Strobe) : Same s s := ⟨rfl, rfl, rfl⟩
theorem Same.trans {a b c : Strobe} (h1 : Same a b) (h2 : Same b c) : Same a c :=
  ⟨h2.1.trans h1.1, h2.2.1.trans h1.2.1, h2.2.2.trans h1.2.2⟩

/-- `byte(s.posBegin)` is a lossless conversion -/
theorem posBegin_lt_256 {s : Strobe} (h : Inv s) : s.posBegin < 256 := by
  have := h.rate; have := h.pos; have := h.posBegin; omega

/-- (2) every index used by `runF` / `duplex` is inside the 200-byte state.  `runF` is entered with `pos ≤ r`
    (`pos = r` from the loop, `pos < r` from `forceF`); the loop body reads and writes `st[pos]` with `pos < r`. -/
theorem access_in_range {s : Strobe} (hsz : s.st.size = 200) (hr : s.r + 1 < 200) (hp : s.pos ≤ s.r) :
    s.pos < s.st.size ∧ s.pos + 1 < s.st.size ∧ s.r + 1 < s.st.size := by
  omega

theorem xorAt_ok (st : Array UInt8) (i : Nat) (b : UInt8) (h : i < st.size) :
    ∃ st', xorAt st i b = .ok st' ∧ st'.size = st.size := by
  unfold xorAt
  simp [h]

/-- `xorAt` fails exactly on an out-of-range index -/
theorem xorAt_oob (st : Array UInt8) (i : Nat) (b : UInt8) (h : ¬ i < st.size) : xorAt st i b = .error .oob := by
  unfold xorAt
  simp [h]

theorem runF_ok (s : Strobe) (hsz : s.st.size = 200) (hr : s.r + 1 < 200) (hp : s.pos ≤ s.r) :
    ∃ s', runF s = .ok s' ∧ s'.st.size = 200 ∧ s'.pos = 0 ∧ s'.posBegin = 0 ∧ Same s s' := by
  unfold runF
  by_cases hi : s.initialized = true
  · obtain ⟨st1, e1, z1⟩ := xorAt_ok s.st s.pos (UInt8.ofNat s.posBegin) (by omega)
    obtain ⟨st2, e2, z2⟩ := xorAt_ok st1 (s.pos + 1) 0x04 (by omega)
    obtain ⟨st3, e3, z3⟩ := xorAt_ok st2 (s.r + 1) 0x80 (by omega)
    rw [if_pos hi]
    simp only [e1, e2, e3]
    exact ⟨_, rfl, permute_size _, rfl, rfl, rfl, rfl, rfl⟩
  · rw [if_neg hi]
    exact ⟨_, rfl, permute_size _, rfl, rfl, rfl, rfl, rfl⟩

/-- `runF` keeps `r`, `initialized`, `curFlags` (unconditionally) -/
theorem runF_same {s s' : Strobe} (h : runF s = .ok s') : Same s s' ∧ s'.pos = 0 ∧ s'.posBegin = 0 := by
  unfold runF at h
  split at h
  · split at h
    · cases h
    · split at h
      · cases h
      · split at h
        · cases h
        · cases h; exact ⟨⟨rfl, rfl, rfl⟩, rfl, rfl⟩
  · cases h; exact ⟨⟨rfl, rfl, rfl⟩, rfl, rfl⟩

theorem duplexByte_ok (s : Strobe) (c : Bool) (d : UInt8) (h : Inv s) :
    ∃ s' o, duplexByte s c d = .ok (s', o) ∧ Inv s' ∧ Same s s' ∧ (s'.pos = s.pos + 1 ∨ s'.pos = 0) := by
  have hsz := h.size; have hr := h.rate; have hp := h.pos; have hb := h.posBegin
  have hlt : s.pos < s.st.size := by omega
  unfold duplexByte
  simp only [hlt, dite_true]
  by_cases he : s.pos + 1 = s.r
  · rw [if_pos he]
    obtain ⟨s2, e2, z2, p2, b2, sm⟩ :=
      runF_ok { s with st := s.st.set s.pos (s.st[s.pos] ^^^ (if c = true then d ^^^ s.st[s.pos] else d)), pos := s.pos + 1 }
        (by simp [hsz]) hr (by simp; omega)
    rw [e2]
    refine ⟨_, _, rfl, ⟨z2, ?_, ?_, ?_⟩, sm, Or.inr p2⟩
    · rw [sm.1]; exact hr
    · rw [sm.1, p2]; show 0 < s.r; omega
    · rw [p2, b2]; omega
  · rw [if_neg he]
    refine ⟨_, _, rfl, ⟨?_, hr, ?_, ?_⟩, ⟨rfl, rfl, rfl⟩, Or.inl rfl⟩
    · simp [hsz]
    · show s.pos + 1 < s.r; omega
    · show s.posBegin ≤ s.pos + 1 + 1; omega

theorem duplexByte_same {s s' : Strobe} {c : Bool} {d o : UInt8} (h : duplexByte s c d = .ok (s', o)) : Same s s' := by
  unfold duplexByte at h
  split at h
  · simp only at h
    split at h
    · split at h
      · cases h
      · rename_i s2 e2
        cases h
        exact (runF_same e2).1
    · cases h; exact ⟨rfl, rfl, rfl⟩
  · cases h

theorem duplexLoop_ok (data : List UInt8) : ∀ (s : Strobe) (c : Bool), Inv s →
    ∃ s' out, duplexLoop s c data = .ok (s', out) ∧ Inv s' ∧ Same s s' ∧ out.length = data.length := by
  induction data with
  | nil => intro s c h; exact ⟨s, [], rfl, h, Same.refl s, rfl⟩
  | cons d ds ih =>
    intro s c h
    obtain ⟨s1, o, e1, i1, sm1, _⟩ := duplexByte_ok s c d h
    obtain ⟨s2, os, e2, i2, sm2, l2⟩ := ih s1 c i1
    refine ⟨s2, o :: os, ?_, i2, sm1.trans sm2, by simp [l2]⟩
    simp only [duplexLoop, e1, e2]

theorem duplexLoop_same (data : List UInt8) : ∀ {s s' : Strobe} {c : Bool} {out : List UInt8},
    duplexLoop s c data = .ok (s', out) → Same s s' ∧ out.length = data.length := by
  induction data with
  | nil => intro s s' c out h; simp only [duplexLoop] at h; cases h; exact ⟨Same.refl _, rfl⟩
  | cons d ds ih =>
    intro s s' c out h
    simp only [duplexLoop] at h
    split at h
    · cases h
    · rename_i s1 o e1
      split at h
      · cases h
      · rename_i s2 os e2
        cases h
        have := ih e2
        exact ⟨(duplexByte_same e1).trans this.1, by simp [this.2]⟩

theorem duplex_ok (s : Strobe) (data : List UInt8) (c forceF : Bool) (h : Inv s) :
    ∃ s' out, duplex s data c forceF = .ok (s', out) ∧ Inv s' ∧ Same s s' ∧ out.length = data.length ∧
      (forceF = true → s'.pos = 0) := by
  obtain ⟨s1, out, e1, i1, sm1, l1⟩ := duplexLoop_ok data s c h
  unfold duplex
  simp only [e1]
  by_cases hf : (forceF && s1.pos != 0) = true
  · simp only [hf, if_true]
    obtain ⟨s2, e2, z2, p2, b2, sm2⟩ := runF_ok s1 i1.size i1.rate (Nat.le_of_lt i1.pos)
    rw [e2]
    refine ⟨s2, out, rfl, ⟨z2, ?_, ?_, ?_⟩, sm1.trans sm2, l1, fun _ => p2⟩
    · rw [sm2.1]; exact i1.rate
    · rw [sm2.1, p2]; have := i1.pos; omega
    · rw [p2, b2]; omega
  · simp only [hf, if_false, Bool.false_eq_true]
    refine ⟨s1, out, rfl, i1, sm1, l1, ?_⟩
    intro hft
    subst hft
    simpa using hf

theorem duplex_same {s s' : Strobe} {data out : List UInt8} {c forceF : Bool}
    (h : duplex s data c forceF = .ok (s', out)) : Same s s' ∧ out.length = data.length := by
  unfold duplex at h
  split at h
  · cases h
  · rename_i s1 o1 e1
    have h1 := duplexLoop_same data e1
    split at h
    · split at h
      · cases h
      · rename_i s2 e2
        cases h
        exact ⟨h1.1.trans (runF_same e2).1, h1.2⟩
    · cases h; exact h1

theorem beginOp_ok (s : Strobe) (f : Flags) (h : Inv s) :
    ∃ s', beginOp s f = .ok s' ∧ Inv s' ∧ Same s s' ∧ ((f &&& flagC != 0) = true → s'.pos = 0) := by
  have i1 : Inv { s with posBegin := s.pos + 1 } := ⟨h.size, h.rate, h.pos, Nat.le_refl _⟩
  obtain ⟨s2, out, e2, i2, sm2, _, p2⟩ :=
    duplex_ok { s with posBegin := s.pos + 1 } [UInt8.ofNat s.posBegin, f] false (f &&& flagC != 0) i1
  unfold beginOp
  simp only [e2]
  exact ⟨s2, rfl, i2, sm2, p2⟩

theorem beginOp_same {s s' : Strobe} {f : Flags} (h : beginOp s f = .ok s') : Same s s' := by
  unfold beginOp at h
  simp only at h
  split at h
  · cases h
  · rename_i s2 o e2
    cases h
    exact (duplex_same e2).1

/-- the first explicit Go panic: exactly on an uninitialised state -/
theorem operate_uninit (s : Strobe) (f : Flags) (data : List UInt8) (more : Bool) (h : s.initialized = false) :
    operate s f data more = .error .uninit := by
  unfold operate; simp [h]

/-- the second explicit Go panic: exactly on `more` with flags different from the current operation -/
theorem operate_mismatch (s : Strobe) (f : Flags) (data : List UInt8) (hi : s.initialized = true)
    (hf : f ≠ s.curFlags) : operate s f data true = .error .flagMismatch := by
  unfold operate; simp [hi, hf]

/-- in every other case `operate` succeeds, keeps the invariant, returns as many bytes as it was given,
    and leaves `curFlags = f` -/
theorem operate_ok (s : Strobe) (f : Flags) (data : List UInt8) (more : Bool) (h : Inv s)
    (hi : s.initialized = true) (hm : more = true → f = s.curFlags) :
    ∃ s' out, operate s f data more = .ok (s', out) ∧ Inv s' ∧ out.length = data.length ∧
      s'.r = s.r ∧ s'.initialized = true ∧ s'.curFlags = f := by
  unfold operate
  simp only [hi, Bool.not_true, Bool.false_eq_true, if_false]
  cases more with
  | true =>
    have hf : f = s.curFlags := hm rfl
    simp only [if_true, hf, bne_self_eq_false, Bool.false_eq_true, if_false]
    obtain ⟨s2, out, e2, i2, sm2, l2, _⟩ := duplex_ok s data (s.curFlags &&& flagC != 0) false h
    exact ⟨s2, out, e2, i2, l2, sm2.1, sm2.2.1.trans hi, sm2.2.2⟩
  | false =>
    simp only [Bool.false_eq_true, if_false]
    obtain ⟨s1, e1, i1, sm1, _⟩ := beginOp_ok s f h
    simp only [e1]
    have i1' : Inv { s1 with curFlags := f } := ⟨i1.size, i1.rate, i1.pos, i1.posBegin⟩
    obtain ⟨s2, out, e2, i2, sm2, l2, _⟩ := duplex_ok { s1 with curFlags := f } data (f &&& flagC != 0) false i1'
    exact ⟨s2, out, e2, i2, l2, sm2.1.trans sm1.1, sm2.2.1.trans (sm1.2.1.trans hi), sm2.2.2⟩

/-- (2) index safety of `operate`: under the invariant no access is ever out of range -/
theorem operate_no_oob (s : Strobe) (f : Flags) (data : List UInt8) (more : Bool) (h : Inv s) :
    operate s f data more ≠ .error .oob := by
  by_cases hi : s.initialized = true
  · by_cases hm : more = true → f = s.curFlags
    · obtain ⟨s', out, e, _⟩ := operate_ok s f data more h hi hm
      rw [e]; intro hc; cases hc
    · have hmt : more = true := by
        cases more with
        | true => rfl
        | false => exact absurd (fun h => by cases h) hm
      subst hmt
      rw [operate_mismatch s f data hi (fun hc => hm (fun _ => hc))]
      intro hc; cases hc
  · rw [operate_uninit s f data more (by simpa using hi)]
    intro hc; cases hc

/-- whenever `operate` succeeds the invariant is preserved (no side conditions) -/
theorem operate_inv {s s' : Strobe} {f : Flags} {data out : List UInt8} {more : Bool} (h : Inv s)
    (e : operate s f data more = .ok (s', out)) :
    Inv s' ∧ out.length = data.length ∧ s'.r = s.r ∧ s'.initialized = true ∧ s'.curFlags = f := by
  by_cases hi : s.initialized = true
  · by_cases hm : more = true → f = s.curFlags
    · obtain ⟨s2, out2, e2, r⟩ := operate_ok s f data more h hi hm
      rw [e2] at e; cases e; exact r
    · have hmt : more = true := by
        cases more with
        | true => rfl
        | false => exact absurd (fun h => by cases h) hm
      subst hmt
      rw [operate_mismatch s f data hi (fun hc => hm (fun _ => hc))] at e
      cases e
  · rw [operate_uninit s f data more (by simpa using hi)] at e
    cases e

/-! ### `New` establishes the invariant -/

theorem new_ok (proto : List UInt8) :
    ∃ s, new proto = .ok s ∧ Inv s ∧ s.r = R ∧ s.initialized = true ∧ s.curFlags = (flagA ||| flagM) := by
  have i0 : Inv { zeroValue with r := constN - constSec / 4 } :=
    ⟨by simp [zeroValue, constN], by simp [constN, constSec], by simp [zeroValue, constN, constSec],
     by simp [zeroValue]⟩
  obtain ⟨s1, out, e1, i1, sm1, _, p1⟩ :=
    duplex_ok { zeroValue with r := constN - constSec / 4 } (domain (constN - constSec / 4)) false true i0
  have hr1 : s1.r = 168 := by rw [sm1.1]; simp [constN, constSec]
  have hp1 : s1.pos = 0 := p1 rfl
  have i2 : Inv { s1 with r := s1.r - 2, initialized := true } :=
    ⟨i1.size, by show s1.r - 2 + 1 < 200; omega, by show s1.pos < s1.r - 2; omega, i1.posBegin⟩
  obtain ⟨s3, out3, e3, i3, _, r3, in3, f3⟩ :=
    operate_ok { s1 with r := s1.r - 2, initialized := true } (flagA ||| flagM) proto false i2 rfl
      (fun hc => by cases hc)
  refine ⟨s3, ?_, i3, ?_, in3, f3⟩
  · unfold new
    simp only [e1, e3]
    rfl
  · rw [r3]; show s1.r - 2 = R; rw [hr1]; rfl

/-! ### Every history -/

/-- the operations of the package API (`more` made explicit for all of them) -/
inductive Op where
  | ad (isMeta more : Bool) (data : List UInt8)
  | key (more : Bool) (data : List UInt8)
  | prf (more : Bool) (n : Nat)

def Op.flags : Op → Flags
  | .ad false _ _ => flagA
  | .ad true _ _ => flagA ||| flagM
  | .key _ _ => flagA ||| flagC
  | .prf _ _ => flagI ||| flagA ||| flagC

def step (s : Strobe) : Op → Except Err (Strobe × List UInt8)
  | .ad false more data => operate s flagA data more
  | .ad true more data => operate s (flagA ||| flagM) data more
  | .key more data => operate s (flagA ||| flagC) data more
  | .prf more n => operate s (flagI ||| flagA ||| flagC) (List.replicate n 0) more

/-- run a history the way a caller that recovers from panics sees it (a panicking call leaves the state untouched —
    both Go panics are raised before the first write); collects the replies -/
def run (s : Strobe) : List Op → Strobe × List (Except Err (List UInt8))
  | [] => (s, [])
  | op :: ops =>
    match step s op with
    | .ok (s', out) => let (s'', rs) := run s' ops; (s'', .ok out :: rs)
    | .error e => let (s'', rs) := run s ops; (s'', .error e :: rs)

theorem step_inv {s s' : Strobe} {op : Op} {out : List UInt8} (h : Inv s) (e : step s op = .ok (s', out)) :
    Inv s' ∧ s'.r = s.r := by
  cases op with
  | ad isMeta more data => cases isMeta <;> exact ⟨(operate_inv h e).1, (operate_inv h e).2.2.1⟩
  | key more data => exact ⟨(operate_inv h e).1, (operate_inv h e).2.2.1⟩
  | prf more n => exact ⟨(operate_inv h e).1, (operate_inv h e).2.2.1⟩

theorem step_no_oob (s : Strobe) (op : Op) (h : Inv s) : step s op ≠ .error .oob := by
  cases op with
  | ad isMeta more data => cases isMeta <;> exact operate_no_oob _ _ _ _ h
  | key more data => exact operate_no_oob _ _ _ _ h
  | prf more n => exact operate_no_oob _ _ _ _ h

/-- (1) the invariant after any history, of any length, with data of any length -/
theorem run_inv (ops : List Op) : ∀ (s : Strobe), Inv s → Inv (run s ops).1 ∧ (run s ops).1.r = s.r := by
  induction ops with
  | nil => intro s h; exact ⟨h, rfl⟩
  | cons op ops ih =>
    intro s h
    simp only [run]
    split
    · rename_i s' out e
      have := step_inv h e
      have ih' := ih s' this.1
      exact ⟨ih'.1, ih'.2.trans this.2⟩
    · exact ih s h

/-- (2) no operation of any history ever indexes outside the state -/
theorem run_no_oob (ops : List Op) : ∀ (s : Strobe), Inv s → ∀ r ∈ (run s ops).2, r ≠ .error .oob := by
  induction ops with
  | nil => intro s _ r hr; simp [run] at hr
  | cons op ops ih =>
    intro s h r hr
    simp only [run] at hr
    split at hr
    · rename_i s' out e
      simp only [List.mem_cons] at hr
      rcases hr with hr | hr
      · rw [hr]; intro hc; cases hc
      · exact ih s' (step_inv h e).1 r hr
    · rename_i err e
      simp only [List.mem_cons] at hr
      rcases hr with hr | hr
      · rw [hr]; intro hc; cases hc
        exact step_no_oob s op h e
      · exact ih s h r hr

/-- from `New(proto)`, for every protocol string and every history -/
theorem history_from_new (proto : List UInt8) (ops : List Op) :
    ∃ s0, new proto = .ok s0 ∧ Inv (run s0 ops).1 ∧ (run s0 ops).1.r = R ∧
      ∀ r ∈ (run s0 ops).2, r ≠ .error .oob := by
  obtain ⟨s0, e0, i0, r0, _, _⟩ := new_ok proto
  exact ⟨s0, e0, (run_inv ops s0 i0).1, (run_inv ops s0 i0).2.trans r0, run_no_oob ops s0 i0⟩

/-! ## (3) Chunking — unconditional equalities in `Except` -/

theorem duplexLoop_append (d1 d2 : List UInt8) : ∀ (s : Strobe) (c : Bool),
    duplexLoop s c (d1 ++ d2) =
      match duplexLoop s c d1 with
      | .error e => .error e
      | .ok (s1, o1) =>
        match duplexLoop s1 c d2 with
        | .error e => .error e
        | .ok (s2, o2) => .ok (s2, o1 ++ o2) := by
  induction d1 with
  | nil =>
    intro s c
    simp only [List.nil_append, duplexLoop]
    cases duplexLoop s c d2 with
    | error e => rfl
    | ok p => rfl
  | cons d ds ih =>
    intro s c
    simp only [List.cons_append, duplexLoop]
    cases duplexByte s c d with
    | error e => rfl
    | ok p =>
      obtain ⟨s1, o⟩ := p
      simp only
      rw [ih s1 c]
      cases duplexLoop s1 c ds with
      | error e => rfl
      | ok q =>
        obtain ⟨s2, os⟩ := q
        simp only
        cases duplexLoop s2 c d2 with
        | error e => rfl
        | ok r => rfl

theorem duplex_noforce (s : Strobe) (data : List UInt8) (c : Bool) : duplex s data c false = duplexLoop s c data := by
  unfold duplex
  cases duplexLoop s c data with
  | error e => rfl
  | ok p => rfl

/-- `operate` with `more = true` on a state whose current flags are `f`: no header, just the duplex loop -/
theorem operate_more (s : Strobe) (f : Flags) (data : List UInt8) (hi : s.initialized = true) (hf : s.curFlags = f) :
    operate s f data true = duplexLoop s (f &&& flagC != 0) data := by
  unfold operate
  simp [hi, hf, duplex_noforce]

/-- `operate` with `more = false`: header, then the duplex loop -/
theorem operate_begin (s : Strobe) (f : Flags) (data : List UInt8) (hi : s.initialized = true) :
    operate s f data false =
      match beginOp s f with
      | .error e => .error e
      | .ok s1 => duplexLoop { s1 with curFlags := f } (f &&& flagC != 0) data := by
  unfold operate
  simp only [hi, Bool.not_true, Bool.false_eq_true, if_false]
  cases beginOp s f with
  | error e => rfl
  | ok s1 => simp only [duplex_noforce]

/-- the chunking law: one call on `d1 ++ d2` = a call on `d1` followed by a `more` call on `d2`;
    the (possibly overwritten) buffers concatenate.  No hypothesis on the state. -/
theorem operate_append (s : Strobe) (f : Flags) (d1 d2 : List UInt8) (more : Bool) :
    operate s f (d1 ++ d2) more =
      match operate s f d1 more with
      | .error e => .error e
      | .ok (s1, o1) =>
        match operate s1 f d2 true with
        | .error e => .error e
        | .ok (s2, o2) => .ok (s2, o1 ++ o2) := by
  -- the state on which the data loop starts
  have key : ∀ (s0 : Strobe), s0.initialized = true → s0.curFlags = f →
      duplexLoop s0 (f &&& flagC != 0) (d1 ++ d2) =
        match duplexLoop s0 (f &&& flagC != 0) d1 with
        | .error e => .error e
        | .ok (s1, o1) =>
          match operate s1 f d2 true with
          | .error e => .error e
          | .ok (s2, o2) => .ok (s2, o1 ++ o2) := by
    intro s0 hi hf
    rw [duplexLoop_append]
    cases e1 : duplexLoop s0 (f &&& flagC != 0) d1 with
    | error e => rfl
    | ok p =>
      obtain ⟨s1, o1⟩ := p
      have sm := (duplexLoop_same d1 e1).1
      simp only
      rw [operate_more s1 f d2 (sm.2.1.trans hi) (sm.2.2.trans hf)]
  by_cases hi : s.initialized = true
  · cases more with
    | true =>
      by_cases hf : f = s.curFlags
      · rw [operate_more s f (d1 ++ d2) hi hf.symm, operate_more s f d1 hi hf.symm]
        exact key s hi hf.symm
      · rw [operate_mismatch s f (d1 ++ d2) hi hf, operate_mismatch s f d1 hi hf]
    | false =>
      rw [operate_begin s f (d1 ++ d2) hi, operate_begin s f d1 hi]
      cases e1 : beginOp s f with
      | error e => rfl
      | ok s1 =>
        have sm := beginOp_same e1
        exact key { s1 with curFlags := f } (sm.2.1.trans hi) rfl
  · have hi' : s.initialized = false := by simpa using hi
    rw [operate_uninit s f (d1 ++ d2) more hi', operate_uninit s f d1 more hi']

theorem AD_append (s : Strobe) (d1 d2 : List UInt8) (more : Bool) :
    AD s (d1 ++ d2) more = (match AD s d1 more with | .error e => .error e | .ok s1 => AD s1 d2 true) := by
  unfold AD
  rw [operate_append]
  cases operate s flagA d1 more with
  | error e => rfl
  | ok p =>
    obtain ⟨s1, o1⟩ := p
    simp only [Except.map]
    cases operate s1 flagA d2 true with
    | error e => rfl
    | ok q => rfl

theorem MetaAD_append (s : Strobe) (d1 d2 : List UInt8) (more : Bool) :
    MetaAD s (d1 ++ d2) more = (match MetaAD s d1 more with | .error e => .error e | .ok s1 => MetaAD s1 d2 true) := by
  unfold MetaAD
  rw [operate_append]
  cases operate s (flagA ||| flagM) d1 more with
  | error e => rfl
  | ok p =>
    obtain ⟨s1, o1⟩ := p
    simp only [Except.map]
    cases operate s1 (flagA ||| flagM) d2 true with
    | error e => rfl
    | ok q => rfl

theorem KEYm_append (s : Strobe) (d1 d2 : List UInt8) (more : Bool) :
    KEYm s (d1 ++ d2) more = (match KEYm s d1 more with | .error e => .error e | .ok s1 => KEYm s1 d2 true) := by
  unfold KEYm
  rw [operate_append]
  cases operate s (flagA ||| flagC) d1 more with
  | error e => rfl
  | ok p =>
    obtain ⟨s1, o1⟩ := p
    simp only [Except.map]
    cases operate s1 (flagA ||| flagC) d2 true with
    | error e => rfl
    | ok q => rfl

/-- PRF output of `n1 + n2` bytes = `n1` bytes followed by a `more` call for `n2` bytes -/
theorem PRFm_add (s : Strobe) (n1 n2 : Nat) (more : Bool) :
    PRFm s (n1 + n2) more =
      match PRFm s n1 more with
      | .error e => .error e
      | .ok (s1, o1) =>
        match PRFm s1 n2 true with
        | .error e => .error e
        | .ok (s2, o2) => .ok (s2, o1 ++ o2) := by
  unfold PRFm
  rw [← List.replicate_append_replicate, operate_append]

/-- n-ary chunking: feeding the chunks one by one with `more` equals one call on their concatenation -/
def operateChunks (s : Strobe) (f : Flags) (acc : List UInt8) : List (List UInt8) → Except Err (Strobe × List UInt8)
  | [] => .ok (s, acc)
  | c :: cs =>
    match operate s f c true with
    | .error e => .error e
    | .ok (s1, o1) => operateChunks s1 f (acc ++ o1) cs

theorem operateChunks_acc (f : Flags) (cs : List (List UInt8)) : ∀ (s : Strobe) (acc : List UInt8),
    operateChunks s f acc cs =
      match operateChunks s f [] cs with
      | .error e => .error e
      | .ok (s', o) => .ok (s', acc ++ o) := by
  induction cs with
  | nil => intro s acc; simp [operateChunks]
  | cons c cs ih =>
    intro s acc
    simp only [operateChunks]
    cases operate s f c true with
    | error e => rfl
    | ok p =>
      obtain ⟨s1, o1⟩ := p
      simp only
      rw [ih s1 (acc ++ o1), ih s1 ([] ++ o1)]
      cases operateChunks s1 f [] cs with
      | error e => rfl
      | ok q => simp

theorem operate_chunks (f : Flags) (cs : List (List UInt8)) : ∀ (s : Strobe) (d0 : List UInt8) (more : Bool),
    operate s f (d0 ++ cs.flatten) more =
      match operate s f d0 more with
      | .error e => .error e
      | .ok (s1, o1) => operateChunks s1 f o1 cs := by
  induction cs with
  | nil =>
    intro s d0 more
    simp only [List.flatten_nil, List.append_nil, operateChunks]
    cases operate s f d0 more with
    | error e => rfl
    | ok p => rfl
  | cons c cs ih =>
    intro s d0 more
    simp only [List.flatten_cons]
    rw [operate_append]
    cases operate s f d0 more with
    | error e => rfl
    | ok p =>
      obtain ⟨s1, o1⟩ := p
      simp only [operateChunks]
      rw [ih s1 c true]
      cases operate s1 f c true with
      | error e => rfl
      | ok q =>
        obtain ⟨s2, o2⟩ := q
        simp only
        rw [operateChunks_acc f cs s2 (o1 ++ o2), operateChunks_acc f cs s2 o2]
        cases operateChunks s2 f [] cs with
        | error e => rfl
        | ok r => simp

/-! ## (4) Clone independence: a heap of STROBE objects addressed by ids, as the API user (and the driver) sees it -/

abbrev Heap := Nat → Option Strobe

def Heap.set (h : Heap) (i : Nat) (s : Strobe) : Heap := fun k => if k = i then some s else h k

/-- `h[j] = h[i].Clone()` -/
def Heap.clone (h : Heap) (i j : Nat) : Heap :=
  match h i with
  | some s => h.set j s.clone
  | none => h

/-- apply an operation to object `i` (a panicking call leaves everything unchanged) -/
def Heap.apply (h : Heap) (i : Nat) (op : Op) : Heap :=
  match h i with
  | none => h
  | some s =>
    match step s op with
    | .ok (s', _) => h.set i s'
    | .error _ => h

def Heap.applyAll (h : Heap) (i : Nat) (ops : List Op) : Heap := ops.foldl (fun h op => h.apply i op) h

theorem Heap.apply_other (h : Heap) (i k : Nat) (op : Op) (hk : k ≠ i) : (h.apply i op) k = h k := by
  unfold Heap.apply
  cases h i with
  | none => rfl
  | some s =>
    simp only
    cases step s op with
    | error e => rfl
    | ok p => simp [Heap.set, hk]

theorem Heap.applyAll_other (ops : List Op) : ∀ (h : Heap) (i k : Nat), k ≠ i → (h.applyAll i ops) k = h k := by
  induction ops with
  | nil => intro h i k _; rfl
  | cons op ops ih =>
    intro h i k hk
    simp only [Heap.applyAll, List.foldl_cons]
    have := ih (h.apply i op) i k hk
    simp only [Heap.applyAll] at this
    rw [this, Heap.apply_other h i k op hk]

/-- operations on the clone never change the original -/
theorem clone_independent (h : Heap) (i j : Nat) (ops : List Op) (hij : i ≠ j) :
    ((h.clone i j).applyAll j ops) i = h i := by
  rw [Heap.applyAll_other ops _ j i hij]
  unfold Heap.clone
  cases hh : h i with
  | none => exact hh
  | some s => simp [Heap.set, hij, hh]

/-- operations on the original never change the clone -/
theorem origin_independent (h : Heap) (i j : Nat) (ops : List Op) (hij : i ≠ j) (s : Strobe) (hs : h i = some s) :
    ((h.clone i j).applyAll i ops) j = some s := by
  rw [Heap.applyAll_other ops _ i j (fun e => hij e.symm)]
  unfold Heap.clone
  simp [hs, Heap.set, Strobe.clone]

/-- a clone answers every operation exactly as the original would (determinism: the value is the whole state) -/
theorem clone_same_step (s : Strobe) (op : Op) : step s.clone op = step s op := rfl

/-! ## Merlin level: every transcript operation succeeds on a valid transcript and keeps it valid -/

open Voi.Spec.Merlin

/-- a STROBE state as `New` and every later operation leave it -/
structure Valid (s : Strobe) : Prop where
  inv : Inv s
  init : s.initialized = true

theorem MetaAD_ok (s : Strobe) (data : List UInt8) (h : Valid s) :
    ∃ s', MetaAD s data false = .ok s' ∧ Valid s' ∧ s'.curFlags = (flagA ||| flagM) := by
  obtain ⟨s', out, e, i, _, _, hi, hf⟩ := operate_ok s (flagA ||| flagM) data false h.inv h.init (fun hc => by cases hc)
  exact ⟨s', by simp [MetaAD, e, Except.map], ⟨i, hi⟩, hf⟩

theorem MetaAD_more_ok (s : Strobe) (data : List UInt8) (h : Valid s) (hf : s.curFlags = (flagA ||| flagM)) :
    ∃ s', MetaAD s data true = .ok s' ∧ Valid s' := by
  obtain ⟨s', out, e, i, _, _, hi, _⟩ := operate_ok s (flagA ||| flagM) data true h.inv h.init (fun _ => hf.symm)
  exact ⟨s', by simp [MetaAD, e, Except.map], ⟨i, hi⟩⟩

theorem frame_ok (s : Strobe) (label : List UInt8) (n : Nat) (h : Valid s) :
    ∃ s', frame s label n = .ok s' ∧ Valid s' := by
  obtain ⟨s1, e1, v1, f1⟩ := MetaAD_ok s label h
  obtain ⟨s2, e2, v2⟩ := MetaAD_more_ok s1 (le32 n) v1 f1
  exact ⟨s2, by simp [frame, e1, e2], v2⟩

theorem appendMessage_ok (t : Transcript) (label msg : List UInt8) (h : Valid t.s)
    (hl : label.length ≤ maxUint32) (hm : msg.length ≤ maxUint32) :
    ∃ t', appendMessage t label msg = .ok t' ∧ Valid t'.s := by
  obtain ⟨s1, e1, v1⟩ := frame_ok t.s label msg.length h
  obtain ⟨s2, out, e2, i2, _, _, hi2, _⟩ := operate_ok s1 flagA msg false v1.inv v1.init (fun hc => by cases hc)
  refine ⟨{ s := s2 }, ?_, ⟨i2, hi2⟩⟩
  unfold appendMessage
  simp [Nat.not_lt.mpr hl, Nat.not_lt.mpr hm, e1, AD, e2, Except.map, liftS]

theorem newTranscript_ok (appLabel : List UInt8) (hl : appLabel.length ≤ maxUint32) :
    ∃ t, newTranscript appLabel = .ok t ∧ Valid t.s := by
  obtain ⟨s, e, i, _, hi, _⟩ := new_ok merlinProtocolLabel
  have h7 : domainSeparatorLabel.length = 7 := by rfl
  obtain ⟨t, et, vt⟩ := appendMessage_ok { s := s } domainSeparatorLabel appLabel ⟨i, hi⟩
    (by rw [h7]; unfold maxUint32; omega) hl
  refine ⟨t, ?_, vt⟩
  unfold newTranscript
  rw [e]
  exact et

theorem extractBytes_ok (t : Transcript) (label : List UInt8) (n : Nat) (h : Valid t.s)
    (hl : label.length ≤ maxUint32) (hn : n ≤ maxUint32) :
    ∃ t' out, extractBytes t label n = .ok (t', out) ∧ Valid t'.s ∧ out.length = n := by
  obtain ⟨s1, e1, v1⟩ := frame_ok t.s label n h
  obtain ⟨s2, out, e2, i2, l2, _, hi2, _⟩ :=
    operate_ok s1 (flagI ||| flagA ||| flagC) (List.replicate n 0) false v1.inv v1.init (fun hc => by cases hc)
  refine ⟨{ s := s2 }, out, ?_, ⟨i2, hi2⟩, by simpa using l2⟩
  unfold extractBytes
  simp [Nat.not_lt.mpr hl, Nat.not_lt.mpr hn, e1, PRF, PRFm, e2, Except.map, liftS]

theorem rekey_ok (s : Strobe) (label witness : List UInt8) (h : Valid s)
    (hl : label.length ≤ maxUint32) (hw : witness.length ≤ maxUint32) :
    ∃ s', rekeyWithWitnessBytes { s := some s } label witness = .ok { s := some s' } ∧ Valid s' := by
  obtain ⟨s1, e1, v1⟩ := frame_ok s label witness.length h
  obtain ⟨s2, out, e2, i2, _, _, hi2, _⟩ :=
    operate_ok s1 (flagA ||| flagC) witness false v1.inv v1.init (fun hc => by cases hc)
  refine ⟨s2, ?_, ⟨i2, hi2⟩⟩
  unfold rekeyWithWitnessBytes
  simp [Nat.not_lt.mpr hl, Nat.not_lt.mpr hw, e1, KEY, KEYm, e2, Except.map, liftS]

theorem finalize_ok (s : Strobe) (entropy : List UInt8) (h : Valid s) (he : 32 ≤ entropy.length) :
    ∃ s', finalize { s := some s } entropy = .ok ({ s := none }, { s := s' }) ∧ Valid s' := by
  obtain ⟨s1, e1, v1, _⟩ := MetaAD_ok s rngLabel h
  obtain ⟨s2, out, e2, i2, _, _, hi2, _⟩ :=
    operate_ok s1 (flagA ||| flagC) (entropy.take 32) false v1.inv v1.init (fun hc => by cases hc)
  refine ⟨s2, ?_, ⟨i2, hi2⟩⟩
  unfold finalize
  simp [Nat.not_lt.mpr he, e1, KEY, KEYm, e2, Except.map, liftS]

theorem read_ok (rng : TranscriptRng) (n : Nat) (h : Valid rng.s) (hn : n ≤ maxUint32) :
    ∃ rng' out, rng.read n = .ok (rng', out) ∧ Valid rng'.s ∧ out.length = n := by
  obtain ⟨s1, e1, v1, _⟩ := MetaAD_ok rng.s (le32 n) h
  obtain ⟨s2, out, e2, i2, l2, _, hi2, _⟩ :=
    operate_ok s1 (flagI ||| flagA ||| flagC) (List.replicate n 0) false v1.inv v1.init (fun hc => by cases hc)
  refine ⟨{ s := s2 }, out, ?_, ⟨i2, hi2⟩, by simpa using l2⟩
  unfold TranscriptRng.read
  simp [Nat.not_lt.mpr hn, e1, PRF, PRFm, e2, Except.map, liftS]

/-! ## Concrete witnesses: the hypotheses of the theorems are satisfiable by non-trivial states -/

/-- a state in the middle of a block, with an operation begun at offset 17 -/
def exState : Strobe :=
  { st := (Array.range 200).map UInt8.ofNat, pos := 23, posBegin := 17, initialized := true,
    curFlags := flagA ||| flagM, r := R }

/-- one byte before the block boundary: the next byte triggers `runF` -/
def exEdge : Strobe := { exState with pos := R - 1, posBegin := R }

theorem exState_inv : Inv exState := ⟨by simp [exState], by decide, by decide, by decide⟩
theorem exEdge_inv : Inv exEdge := ⟨by simp [exEdge, exState], by decide, by decide, by decide⟩
example : Valid exState := ⟨exState_inv, rfl⟩
-- hypotheses of `runF_ok` at the two call sites (pos = r after a full block; pos < r on forceF)
example : ({ exState with pos := R } : Strobe).st.size = 200 ∧ ({ exState with pos := R } : Strobe).r + 1 < 200
    ∧ ({ exState with pos := R } : Strobe).pos ≤ ({ exState with pos := R } : Strobe).r :=
  ⟨by simp [exState], by decide, by decide⟩
-- `operate_ok` with `more`: the current flags are meta-AD
example : (true = true → (flagA ||| flagM) = exState.curFlags) := fun _ => rfl
-- `operate_mismatch`: AD continuation of a meta-AD
example : flagA ≠ exState.curFlags := by decide
-- `operate_uninit`
example : zeroValue.initialized = false := rfl
-- the invariant is not vacuous the other way either: a state violating it really yields `oob` …
theorem oob_is_live : runF { exState with pos := 199 } = .error .oob := by
  simp [runF, exState, xorAt]
-- … and `posBegin_lt_256` is tight: posBegin = 166 on `exEdge`
example : exEdge.posBegin = 166 := rfl
-- heap example for (4)
example : (fun k => if k = 0 then some exState else none : Heap) 0 = some exState := rfl


/-! ### The theorems instantiated at the concrete states -/

-- (1)/(2) a `more` continuation of the meta-AD on `exState`, three bytes
example : ∃ s' out, operate exState (flagA ||| flagM) [1, 2, 3] true = .ok (s', out) ∧ Inv s' ∧ out.length = 3 ∧
    s'.r = exState.r ∧ s'.initialized = true ∧ s'.curFlags = (flagA ||| flagM) :=
  operate_ok exState _ _ true exState_inv rfl (fun _ => rfl)
-- a PRF begun one byte before the boundary: the header straddles the block, 400 output bytes cross two more
example : ∃ s' out, operate exEdge (flagI ||| flagA ||| flagC) (List.replicate 400 0) false = .ok (s', out) ∧ Inv s' ∧
    out.length = (List.replicate 400 (0 : UInt8)).length ∧ s'.r = exEdge.r ∧ s'.initialized = true ∧
    s'.curFlags = (flagI ||| flagA ||| flagC) :=
  operate_ok exEdge _ _ false exEdge_inv rfl (fun hc => by cases hc)
example : operate exEdge flagA [9] true = .error .flagMismatch := operate_mismatch exEdge flagA [9] rfl (by decide)
example : operate zeroValue flagA [9] false = .error .uninit := operate_uninit zeroValue flagA [9] false rfl
example : ∀ r ∈ (run exEdge [.ad false false [1, 2], .prf true 7, .key false [3], .ad true true []]).2, r ≠ .error .oob :=
  run_no_oob _ exEdge exEdge_inv
example : ∃ s0, new [0x41] = .ok s0 ∧ Inv (run s0 [.prf false 500]).1 ∧ (run s0 [.prf false 500]).1.r = R ∧
    ∀ r ∈ (run s0 [.prf false 500]).2, r ≠ .error .oob := history_from_new [0x41] [.prf false 500]
-- (3) chunking across the boundary at `exEdge`
example : AD exEdge ([1, 2] ++ [3, 4, 5]) false =
    (match AD exEdge [1, 2] false with | .error e => .error e | .ok s1 => AD s1 [3, 4, 5] true) := AD_append _ _ _ _
example : PRFm exEdge (165 + 2) false =
    (match PRFm exEdge 165 false with
     | .error e => .error e
     | .ok (s1, o1) => match PRFm s1 2 true with | .error e => .error e | .ok (s2, o2) => .ok (s2, o1 ++ o2)) :=
  PRFm_add _ _ _ _
-- (4) heap with one object; clone 0 → 1, work on the clone, the original is untouched
def exHeap : Heap := fun k => if k = 0 then some exState else none
example : ((exHeap.clone 0 1).applyAll 1 [.key false [1, 2, 3], .prf false 40]) 0 = some exState := by
  rw [clone_independent exHeap 0 1 _ (by decide)]; rfl
example : ((exHeap.clone 0 1).applyAll 0 [.key false [1, 2, 3], .prf false 40]) 1 = some exState :=
  origin_independent exHeap 0 1 _ (by decide) exState rfl
-- Merlin level
example : ∃ t, newTranscript [0x74, 0x65, 0x73, 0x74] = .ok t ∧ Valid t.s := newTranscript_ok _ (by decide)

/-! ## Axiom audit (expected: a subset of `propext`, `Classical.choice`, `Quot.sound`) -/
#print axioms permute_size
#print axioms posBegin_lt_256
#print axioms access_in_range
#print axioms runF_ok
#print axioms duplexByte_ok
#print axioms duplexLoop_ok
#print axioms duplex_ok
#print axioms beginOp_ok
#print axioms operate_uninit
#print axioms operate_mismatch
#print axioms operate_ok
#print axioms operate_no_oob
#print axioms operate_inv
#print axioms new_ok
#print axioms run_inv
#print axioms run_no_oob
#print axioms history_from_new
#print axioms duplexLoop_append
#print axioms operate_append
#print axioms AD_append
#print axioms MetaAD_append
#print axioms KEYm_append
#print axioms PRFm_add
#print axioms operate_chunks
#print axioms clone_independent
#print axioms origin_independent
#print axioms clone_same_step
#print axioms newTranscript_ok
#print axioms appendMessage_ok
#print axioms extractBytes_ok
#print axioms rekey_ok
#print axioms finalize_ok
#print axioms read_ok
#print axioms oob_is_live
#print axioms exState_inv
end Voi.Props.StrobeInv
