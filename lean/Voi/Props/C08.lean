/-
C08 — constant time at the source level.

What is a theorem here and what is not (see DESIGN.md §7 C08):
* Every limb-level function of the three serial backends is regenerated (go2ir) as a program of the straight-line IR of
  `Voi.IR.Basic`.  That IR has no branch, no loop and no data-dependent addressing: the sequence of executed instructions
  and the positions they read are the program text.  `ir_leak_const` / `run_steps_const` state this for every program.
* For the entry points above the limb level (scalar multiplication, signing, X25519, sr25519, ECVRF, …) go2ir executes the
  real SSA of the Go code with ALL secret inputs symbolic.  The execution only succeeds if no branch condition, memory
  index, slice bound, shift count or allocation size ever depends on a symbolic value — for all secret values at once,
  per public shape.  The outcome table is regenerated on every run (`Voi.Gen.CT.results`) and checked here by the kernel:
  every constant-time entry point translated, and every negative control (a *Vartime routine fed a secret) was rejected.
  The default amd64 build (tags `amd64asm` in the table) is covered too: its Go glue (vector point arithmetic, table
  construction, dispatch on the CPU feature flag) is executed symbolically, the assembly routines it calls are summarised
  as primitives that make everything they can write secret; their own control flow/addressing is pinned by the skeleton.
  The symbolic executor itself is trusted (it is cross-validated by stream T0, which runs the programs it emits against the
  real functions); assembly files are outside its reach and are covered by a committed control-flow/addressing skeleton.
-/
import Voi.IR.Basic
import Voi.Gen.CT
namespace Voi.Props.C08
open Voi.IR

/-- the observable (source-level) leakage of running an IR program: which instructions execute and which value positions
they read.  Both are determined by the program alone. -/
def leak (P : List Op) (_e : Env) : List Op := P

theorem ir_leak_const (P : List Op) (e₁ e₂ : Env) : leak P e₁ = leak P e₂ := rfl

/-- the number of executed instructions does not depend on the input values -/
theorem run_steps_const (P : List Op) (e₁ e₂ : Env) :
    (run P e₁).length - e₁.length = (run P e₂).length - e₂.length := by
  simp [run_length]

/-- every entry of the regenerated table has the expected outcome: constant-time entry points translate with all
secrets symbolic; variable-time negative controls are rejected -/
theorem ct_table_ok : (Voi.Gen.CT.results.all fun r => r.2.1 == r.2.2.1) = true := by decide +kernel

/-- the table is not vacuous: it covers at least 100 (entry point × backend) pairs, at least 3 of them negative controls -/
theorem ct_table_size : 100 ≤ Voi.Gen.CT.results.length ∧ 3 ≤ (Voi.Gen.CT.results.filter fun r => !r.2.2.1).length := by decide +kernel

/-- a non-trivial instance: the whole variable-base scalar multiplication is among the translated entry points -/
example : (Voi.Gen.CT.results.any fun r => r.1 == "Edwards_Mul@purego" && r.2.1 && decide (100000 < r.2.2.2)) = true := by decide +kernel

/-- … and so is the same operation as the default amd64 build executes it (AVX2 vector backend: Go glue executed
symbolically, assembly routines summarised as constant-time primitives, see `go2ir.asmSummary`) -/
example : (Voi.Gen.CT.results.any fun r => r.1 == "EdwardsPoint_Mul@amd64asm" && r.2.1 && decide (100000 < r.2.2.2)) = true := by decide +kernel

end Voi.Props.C08
