/-
C14 — hash-to-curve: the code-shaped model `Voi.Model.H2C` (a statement-by-statement transcription of
primitives/h2c/{expand_message.go, h2c.go} and internal/elligator/elligator2.go, tied to the Go code on
every run by stream H3) IS RFC 9380 (`Voi.Spec.H2C`, tied to the Go code by streams H1/H2) — for ALL inputs.

Theorems (all FULL; no `sorry`, no axiom beyond propext / Classical.choice / Quot.sound; no open
hypothesis about the inputs):

`Voi/Props/C14/Expand.lean` (core Lean)
 * `xmd_model_eq_spec`   ExpandMessageXMD = expand_message_xmd (§5.3.1 + §5.3.3) ∀ hash record, DST (any
                         length), message, output buffer (any length, any old contents)
 * `xmd_abort_iff`       error ⇔ b < 32 ∨ len = 0 ∨ len > 65535 ∨ ⌈len/b⌉ > 255          (no hypothesis)
 * `xmd_length`          success ⇒ len(out) unchanged                                       (no hypothesis)
 * `xmd_oversize_dst`    |DST| > 255 ⇒ same as the call with DST := H("H2C-OVERSIZE-DST-" ‖ DST)
 * `xof_model_eq_spec`, `xof_abort_iff`, `xof_length`, `xof_oversize_dst`, `xof_state_irrelevant`
 * `xmd_out_irrelevant`, `xof_out_irrelevant`
`Voi/Props/C14/HashWF.lean` (core Lean)
 * `hashWF_sha512`, `hashWF_sha384`, `hashWF_sha256`, `xofWF_shake128`, `xofWF_shake256`: the hypotheses
   `HashWF` / `XofWF` of the theorems above hold for the executable SHA-2 / SHAKE of the Spec
`Voi/Props/C14/U2F.lean` (core Lean)
 * `uniformToField_eq`   48 bytes ↦ OS2IP mod p;  `uniformToField_none_iff`
`Voi/Props/C14/Elligator.lean`
 * `montgomery_model_eq_spec`  montgomeryFlavor = map_to_curve_elligator2 (§6.7.1, Z = 2) ∀ r
 * `elligator_model_eq_spec`   EdwardsFlavor r = the point of §6.8.2, never panics, ∀ r
 * `elligator_on_curve`, `mapToCurve_onCurve`, `montgomery_on_curve`
 * `one_add_two_sq_ne_zero`    the exceptional case 1 + 2r² = 0 is empty (−1/2 is a non-square: `two_nonsquare`);
   `sX1_ne_zero` (the Spec's `x1 == 0` branch is dead); `eXY_eq` (v = 0 or u = −1 ↦ (0, 1))
this file
 * `encodeToCurve_eq`, `hashToCurve_eq`   tails of the suites = Spec (`suite_structure`)
 * `suite_NU_eq`, `suite_RO_eq`, `suite_ristretto_eq` and their XMD / XOF instances
 * `cofactor_cleared_NU`, `cofactor_cleared_RO`  the returned point is 8 • Q in the group `Ed25519`
 * `suite_point_torsion_free`  with `hExp : ∀ P, (8·L) • P = 0` every returned point is in the prime-order subgroup
 * `suite_SHA512_RO`, `suite_SHA512_NU`, `suite_SHA512_total`: the two named suites, NO hypothesis left
 * `elligator_zero` (r = 0 ↦ (0, 1)); RFC 9380 vectors as `example`s in `C14/Vectors.lean`, `C14/VectorsXof.lean`, `C14/VectorsMap.lean`.

Mathlib is used here; this module must not be imported by Voi/Drv/* or Main.lean.
-/
import Voi.Props.C14.Expand
import Voi.Props.C14.HashWF
import Voi.Props.C14.U2F
import Voi.Props.C14.Elligator
import Voi.Props.C14.Vectors
import Voi.Props.C14.VectorsXof
import Voi.Props.C14.VectorsMap
namespace Voi.Props.C14
open Voi Voi.Spec Voi.Spec.H2C Voi.Model.H2C
open Voi.Proofs (Ed25519 toEd PtIs)

/-! ## the tails of the suites (`suite_structure`) -/

theorem clearCofactor_eq (P : Pt) : clearCofactor P = Pt.mul8 P := rfl

theorem bind_eq_of {α β : Type} {o : Option α} {a : α} (h : o = some a) (f : α → Option β) :
    o.bind f = f a := by rw [h]; rfl

/-- the code path of `encodeToCurve` when nothing panics -/
theorem encodeToCurve_of {ub : Bytes} {fe : Nat} {Q : Pt} (h1 : uniformToField25519 ub = some fe)
    (h2 : edwardsFlavor fe = some Q) : Model.H2C.encodeToCurve ub = some (Pt.mul8 Q) := by
  unfold Model.H2C.encodeToCurve
  rw [bind_eq_of h1, bind_eq_of h2]

/-- the code path of `hashToCurve` when nothing panics -/
theorem hashToCurve_of {ub : Bytes} {fe0 fe1 : Nat} {Q0 Q1 : Pt}
    (h0 : uniformToField25519 (ub.extract 0 Model.H2C.ell) = some fe0)
    (h1 : uniformToField25519 (ub.extract Model.H2C.ell ub.size) = some fe1)
    (g0 : edwardsFlavor fe0 = some Q0) (g1 : edwardsFlavor fe1 = some Q1) :
    Model.H2C.hashToCurve ub = some (Pt.mul8 (Pt.add Q0 Q1)) := by
  unfold Model.H2C.hashToCurve
  rw [bind_eq_of h0, bind_eq_of h1, bind_eq_of g0, bind_eq_of g1]

theorem fieldElems_one (ub : Bytes) (h : ub.size = 48) : fieldElems ub 1 = [os2ipModP ub] := by
  unfold fieldElems
  have e : bslice ub (fieldL * 0) fieldL = ub := by
    unfold bslice fieldL; exact extract_full ub _ (by omega)
  rw [List.range_one, List.map_cons, List.map_nil, e]

theorem fieldElems_two (ub : Bytes) :
    fieldElems ub 2 = [os2ipModP (ub.extract 0 48), os2ipModP (ub.extract 48 96)] := by
  unfold fieldElems
  have hr : List.range 2 = [0, 1] := rfl
  rw [hr, List.map_cons, List.map_cons, List.map_nil]
  rfl

/-- `encodeToCurve` (h2c.go) on 48 uniform bytes: hash_to_field (count = 1), the map, clear_cofactor;
never panics. -/
theorem encodeToCurve_eq (ub : Bytes) (h : ub.size = 48) :
    Model.H2C.encodeToCurve ub = some (encodeFromUniform ub) := by
  rw [encodeToCurve_of (uniformToField_eq ub h) (elligator_model_eq_spec _)]
  unfold encodeFromUniform
  rw [fieldElems_one ub h]
  rfl

/-- `hashToCurve` (h2c.go) on 96 uniform bytes: hash_to_field (count = 2), two maps, the sum,
clear_cofactor; never panics. -/
theorem hashToCurve_eq (ub : Bytes) (h : ub.size = 96) :
    Model.H2C.hashToCurve ub = some (hashFromUniform ub) := by
  have hl : Model.H2C.ell = 48 := rfl
  rw [hashToCurve_of
    (uniformToField_eq _ (by rw [ByteArray.size_extract, hl]; omega))
    (uniformToField_eq _ (by rw [ByteArray.size_extract, hl]; omega))
    (elligator_model_eq_spec _) (elligator_model_eq_spec _)]
  unfold hashFromUniform
  rw [fieldElems_two ub, hl, h]
  rfl

/-! ## the suites -/

/-- the Spec's `Option` as the model's result type: abort ↦ error -/
def specRes {α : Type} : Option α → Res α
  | some a => .ok a
  | none => .err

/-- "the Go expander `expand` implements the RFC expander `sexp`": same result for the requested
length `len(out)`, and the buffer keeps its length -/
structure Implements (expand : Expand) (sexp : Expander) : Prop where
  eq : ∀ out dst msg, expand out dst msg = sexp msg dst out.size
  size : ∀ out dst msg o, expand out dst msg = some o → o.size = out.size

theorem implements_xmd (hf : HashFn) (hwf : HashWF hf) : Implements (expandXMD hf) (xmd hf) :=
  ⟨fun out dst msg => xmd_model_eq_spec hf hwf out dst msg, fun out dst msg _ h => xmd_length out hf dst msg h⟩

theorem implements_xof (x : Xof) (hwf : XofWF x.fn) : Implements (expandXOF x) (xof x.fn) :=
  ⟨fun out dst msg => xof_model_eq_spec x hwf out dst msg, fun out dst msg _ h => xof_length out x dst msg h⟩

/-- **`_NU_` suites** (`Edwards25519_XMD_ELL2_NU`, `Edwards25519_XOF_ELL2_NU`) = encode_to_curve of
RFC 9380 §3: error exactly when the expander aborts, otherwise the RFC's point; no panic. -/
theorem suite_NU_eq {expand : Expand} {sexp : Expander} (hi : Implements expand sexp) (dst msg : Bytes) :
    edwards25519_ELL2_NU expand dst msg = specRes (H2C.encodeToCurve sexp msg dst) := by
  unfold edwards25519_ELL2_NU H2C.encodeToCurve
  have hs : (bzero encodeToCurveSize).size = fieldL := bzero_size _
  rw [← hs, ← hi.eq]
  cases he : expand (bzero encodeToCurveSize) dst msg with
  | none => rfl
  | some ub =>
    have := hi.size _ _ _ _ he
    rw [hs] at this
    simp only [Option.map_some, specRes]
    rw [encodeToCurve_eq ub this]; rfl

/-- **`_RO_` suites** (`Edwards25519_XMD_ELL2_RO`, `Edwards25519_XOF_ELL2_RO`) = hash_to_curve of
RFC 9380 §3. -/
theorem suite_RO_eq {expand : Expand} {sexp : Expander} (hi : Implements expand sexp) (dst msg : Bytes) :
    edwards25519_ELL2_RO expand dst msg = specRes (H2C.hashToCurve sexp msg dst) := by
  unfold edwards25519_ELL2_RO H2C.hashToCurve
  have hs : (bzero hashToCurveSize).size = 2 * fieldL := bzero_size _
  rw [← hs, ← hi.eq]
  cases he : expand (bzero hashToCurveSize) dst msg with
  | none => rfl
  | some ub =>
    have := hi.size _ _ _ _ he
    rw [hs] at this
    simp only [Option.map_some, specRes]
    rw [hashToCurve_eq ub this]; rfl

/-- **ristretto255 suites** = hash_to_ristretto255 (RFC 9380 Appendix B): expansion to 64 bytes
followed by the one-way map (whose code is the object of C11 / stream T1). -/
theorem suite_ristretto_eq {expand : Expand} {sexp : Expander} (hi : Implements expand sexp) (dst msg : Bytes) :
    ristretto255_R255MAP_RO expand dst msg = specRes (hashToRistretto255 sexp msg dst) := by
  unfold ristretto255_R255MAP_RO hashToRistretto255
  have hs : (bzero ristrettoUniformSize).size = 64 := bzero_size _
  rw [← hs, ← hi.eq]
  cases he : expand (bzero ristrettoUniformSize) dst msg <;> rfl

/-- `Edwards25519_XMD_SHA512_ELL2_RO` = suite edwards25519_XMD:SHA-512_ELL2_RO_, for every well-formed
SHA-512 (`HashWF hSha512`: 64-byte digests — a property of the hash implementation, not of the inputs) -/
theorem suite_XMD_SHA512_RO_eq (hwf : HashWF hSha512) (dst msg : Bytes) :
    Model.H2C.edwards25519_XMD_SHA512_ELL2_RO dst msg = specRes (H2C.edwards25519_XMD_SHA512_ELL2_RO msg dst) :=
  suite_RO_eq (implements_xmd _ hwf) dst msg

theorem suite_XMD_SHA512_NU_eq (hwf : HashWF hSha512) (dst msg : Bytes) :
    Model.H2C.edwards25519_XMD_SHA512_ELL2_NU dst msg = specRes (H2C.edwards25519_XMD_SHA512_ELL2_NU msg dst) :=
  suite_NU_eq (implements_xmd _ hwf) dst msg

/-- the generic XMD suites, every well-formed hash record -/
theorem suite_XMD_RO_eq (hf : HashFn) (hwf : HashWF hf) (dst msg : Bytes) :
    edwards25519_ELL2_RO (expandXMD hf) dst msg = specRes (H2C.hashToCurve (xmd hf) msg dst) :=
  suite_RO_eq (implements_xmd hf hwf) dst msg
theorem suite_XMD_NU_eq (hf : HashFn) (hwf : HashWF hf) (dst msg : Bytes) :
    edwards25519_ELL2_NU (expandXMD hf) dst msg = specRes (H2C.encodeToCurve (xmd hf) msg dst) :=
  suite_NU_eq (implements_xmd hf hwf) dst msg
/-- the generic XOF suites, every XOF, every state of the instance handed in -/
theorem suite_XOF_RO_eq (x : Xof) (hwf : XofWF x.fn) (dst msg : Bytes) :
    edwards25519_ELL2_RO (expandXOF x) dst msg = specRes (H2C.hashToCurve (xof x.fn) msg dst) :=
  suite_RO_eq (implements_xof x hwf) dst msg
theorem suite_XOF_NU_eq (x : Xof) (hwf : XofWF x.fn) (dst msg : Bytes) :
    edwards25519_ELL2_NU (expandXOF x) dst msg = specRes (H2C.encodeToCurve (xof x.fn) msg dst) :=
  suite_NU_eq (implements_xof x hwf) dst msg

/-- the suites fail exactly when the expander does; with SHA-512 (b = 64 ≥ 32, 96 ≤ 255·64) never -/
theorem suite_XMD_err_iff (hf : HashFn) (dst msg : Bytes) (n : Nat) (hn : 0 < n ∧ n ≤ 65535) :
    expandXMD hf (bzero n) dst msg = none ↔ hf.b < 32 ∨ (n + hf.b - 1) / hf.b > 255 := by
  unfold expandXMD
  rw [xmd_abort_iff, bzero_size]
  constructor
  · rintro (h | h | h | h)
    · exact Or.inl h
    · omega
    · omega
    · exact Or.inr h
  · rintro (h | h)
    · exact Or.inl h
    · exact Or.inr (Or.inr (Or.inr h))

/-! ## cofactor clearing: the returned point is 8 • Q, hence in the prime-order subgroup -/

/-- `encodeToCurve` returns `8 • Q` (group `Ed25519` of `Voi.Proofs`), `Q` the Elligator image -/
theorem cofactor_cleared_NU (ub : Bytes) (h : ub.size = 48) :
    ∃ (Q : Pt) (hQ : Q.onCurve = true),
      Model.H2C.encodeToCurve ub = some (Pt.mul8 Q) ∧ PtIs (Pt.mul8 Q) (8 • toEd Q hQ) := by
  refine ⟨mapToCurve (os2ipModP ub), mapToCurve_onCurve _, ?_, (PtIs.of_toEd _ _).mul8⟩
  exact encodeToCurve_of (uniformToField_eq ub h) (elligator_model_eq_spec _)

/-- `hashToCurve` returns `8 • (Q0 + Q1)` -/
theorem cofactor_cleared_RO (ub : Bytes) (h : ub.size = 96) :
    ∃ (Q0 Q1 : Pt) (h0 : Q0.onCurve = true) (h1 : Q1.onCurve = true),
      Model.H2C.hashToCurve ub = some (Pt.mul8 (Pt.add Q0 Q1)) ∧
      PtIs (Pt.mul8 (Pt.add Q0 Q1)) (8 • (toEd Q0 h0 + toEd Q1 h1)) := by
  have hl : Model.H2C.ell = 48 := rfl
  refine ⟨mapToCurve (os2ipModP (ub.extract 0 Model.H2C.ell)), mapToCurve (os2ipModP (ub.extract Model.H2C.ell ub.size)),
    mapToCurve_onCurve _, mapToCurve_onCurve _, ?_,
    ((PtIs.of_toEd _ _).add (PtIs.of_toEd _ _)).mul8⟩
  exact hashToCurve_of
    (uniformToField_eq _ (by rw [ByteArray.size_extract, hl]; omega))
    (uniformToField_eq _ (by rw [ByteArray.size_extract, hl]; omega))
    (elligator_model_eq_spec _) (elligator_model_eq_spec _)

/-- a point `8 • A` is killed by `L` as soon as the group has exponent `8·L` -/
theorem torsionFree_of_mul8 (hExp : ∀ P : Ed25519, (8 * L) • P = 0) {R : Pt} {A : Ed25519}
    (h : PtIs R (8 • A)) : R.onCurve = true ∧ R.isTorsionFree = true := by
  obtain ⟨hR, hEq⟩ := h
  refine ⟨hR, ?_⟩
  rw [Voi.Proofs.isTorsionFree_iff hR, hEq, smul_smul, Nat.mul_comm]
  exact hExp A

/-- **Prime-order subgroup.**  Assuming `hExp` (the curve group has exponent 8·L — true for
edwards25519, a hypothesis by design as in C01), every point returned by `encodeToCurve` /
`hashToCurve` is on the curve and torsion-free. -/
theorem tails_torsion_free (hExp : ∀ P : Ed25519, (8 * L) • P = 0) :
    (∀ ub : Bytes, ub.size = 48 → ∃ P, Model.H2C.encodeToCurve ub = some P ∧ P.onCurve = true ∧ P.isTorsionFree = true) ∧
    (∀ ub : Bytes, ub.size = 96 → ∃ P, Model.H2C.hashToCurve ub = some P ∧ P.onCurve = true ∧ P.isTorsionFree = true) := by
  constructor
  · intro ub h
    obtain ⟨Q, hQ, he, hp⟩ := cofactor_cleared_NU ub h
    exact ⟨_, he, torsionFree_of_mul8 hExp hp⟩
  · intro ub h
    obtain ⟨Q0, Q1, h0, h1, he, hp⟩ := cofactor_cleared_RO ub h
    exact ⟨_, he, torsionFree_of_mul8 hExp hp⟩

/-- every point returned by an Edwards suite function (any expander that returns buffers of the
requested length) lies on the curve and in the prime-order subgroup -/
theorem suite_point_torsion_free (hExp : ∀ P : Ed25519, (8 * L) • P = 0) (expand : Expand)
    (hsize : ∀ out dst msg o, expand out dst msg = some o → o.size = out.size) (dst msg : Bytes) (P : Pt)
    (h : edwards25519_ELL2_NU expand dst msg = .ok P ∨ edwards25519_ELL2_RO expand dst msg = .ok P) :
    P.onCurve = true ∧ P.isTorsionFree = true := by
  rcases h with h | h
  · unfold edwards25519_ELL2_NU at h
    cases he : expand (bzero encodeToCurveSize) dst msg with
    | none => rw [he] at h; cases h
    | some ub =>
      rw [he] at h
      have hs : ub.size = 48 := by rw [hsize _ _ _ _ he]; exact bzero_size _
      obtain ⟨P', hP', hc⟩ := (tails_torsion_free hExp).1 ub hs
      simp only [hP', resOfOption] at h
      cases h; exact hc
  · unfold edwards25519_ELL2_RO at h
    cases he : expand (bzero hashToCurveSize) dst msg with
    | none => rw [he] at h; cases h
    | some ub =>
      rw [he] at h
      have hs : ub.size = 96 := by rw [hsize _ _ _ _ he]; exact bzero_size _
      obtain ⟨P', hP', hc⟩ := (tails_torsion_free hExp).2 ub hs
      simp only [hP', resOfOption] at h
      cases h; exact hc

/-- the Edwards suite functions never reach a `panic` -/
theorem suite_no_panic (expand : Expand)
    (hsize : ∀ out dst msg o, expand out dst msg = some o → o.size = out.size) (dst msg : Bytes) :
    edwards25519_ELL2_NU expand dst msg ≠ .panic ∧ edwards25519_ELL2_RO expand dst msg ≠ .panic := by
  constructor
  · unfold edwards25519_ELL2_NU
    cases he : expand (bzero encodeToCurveSize) dst msg with
    | none => simp
    | some ub =>
      have hs : ub.size = 48 := by rw [hsize _ _ _ _ he]; exact bzero_size _
      simp [encodeToCurve_eq ub hs, resOfOption]
  · unfold edwards25519_ELL2_RO
    cases he : expand (bzero hashToCurveSize) dst msg with
    | none => simp
    | some ub =>
      have hs : ub.size = 96 := by rw [hsize _ _ _ _ he]; exact bzero_size _
      simp [hashToCurve_eq ub hs, resOfOption]

/-! ## the named suites of the library, no hypothesis left -/

/-- `Edwards25519_XMD_SHA512_ELL2_RO` = suite edwards25519_XMD:SHA-512_ELL2_RO_ of RFC 9380, ∀ DST, msg -/
theorem suite_SHA512_RO (dst msg : Bytes) :
    Model.H2C.edwards25519_XMD_SHA512_ELL2_RO dst msg = specRes (H2C.edwards25519_XMD_SHA512_ELL2_RO msg dst) :=
  suite_XMD_SHA512_RO_eq hashWF_sha512 dst msg

/-- `Edwards25519_XMD_SHA512_ELL2_NU` = suite edwards25519_XMD:SHA-512_ELL2_NU_ of RFC 9380, ∀ DST, msg -/
theorem suite_SHA512_NU (dst msg : Bytes) :
    Model.H2C.edwards25519_XMD_SHA512_ELL2_NU dst msg = specRes (H2C.edwards25519_XMD_SHA512_ELL2_NU msg dst) :=
  suite_XMD_SHA512_NU_eq hashWF_sha512 dst msg

/-- with SHA-512 the expander never aborts for the 48 / 96 / 64 bytes the suites ask for, whatever the
DST (any length) and message: the suites are total -/
theorem expand_SHA512_total (n : Nat) (hn : 0 < n ∧ n ≤ 255 * 64) (dst msg : Bytes) :
    ∃ ub, expandXMD hSha512 (bzero n) dst msg = some ub ∧ ub.size = n := by
  cases he : expandXMD hSha512 (bzero n) dst msg with
  | none =>
    exfalso
    rw [suite_XMD_err_iff hSha512 dst msg n ⟨hn.1, by omega⟩] at he
    have hb : hSha512.b = 64 := rfl
    rw [hb] at he
    omega
  | some ub =>
    refine ⟨ub, rfl, ?_⟩
    have := xmd_length _ _ _ _ he
    rw [bzero_size] at this; exact this

/-- the two named suites always return a point (no error, no panic), on the curve, equal to `8 • Q`;
with `hExp` it is in the prime-order subgroup -/
theorem suite_SHA512_total (dst msg : Bytes) :
    (∃ P, Model.H2C.edwards25519_XMD_SHA512_ELL2_RO dst msg = .ok P ∧ P.onCurve = true ∧
      ((∀ A : Ed25519, (8 * L) • A = 0) → P.isTorsionFree = true)) ∧
    (∃ P, Model.H2C.edwards25519_XMD_SHA512_ELL2_NU dst msg = .ok P ∧ P.onCurve = true ∧
      ((∀ A : Ed25519, (8 * L) • A = 0) → P.isTorsionFree = true)) := by
  constructor
  · obtain ⟨ub, he, hs⟩ := expand_SHA512_total 96 (by omega) dst msg
    obtain ⟨Q0, Q1, h0, h1, hq, hp⟩ := cofactor_cleared_RO ub hs
    refine ⟨_, ?_, hp.1, fun hExp => (torsionFree_of_mul8 hExp hp).2⟩
    unfold Model.H2C.edwards25519_XMD_SHA512_ELL2_RO edwards25519_ELL2_RO
    have e : hashToCurveSize = 96 := rfl
    rw [e, he]
    simp only [hq, resOfOption]
  · obtain ⟨ub, he, hs⟩ := expand_SHA512_total 48 (by omega) dst msg
    obtain ⟨Q, hQ, hq, hp⟩ := cofactor_cleared_NU ub hs
    refine ⟨_, ?_, hp.1, fun hExp => (torsionFree_of_mul8 hExp hp).2⟩
    unfold Model.H2C.edwards25519_XMD_SHA512_ELL2_NU edwards25519_ELL2_NU
    have e : encodeToCurveSize = 48 := rfl
    rw [e, he]
    simp only [hq, resOfOption]

/-! ## exceptional inputs -/

/-- r = 0 ↦ the identity (0, 1): Montgomery (0, 0), the exceptional case `v = 0` of the rational map -/
theorem elligator_zero : edwardsFlavor 0 = some Pt.zero ∧ mapToCurve 0 = Pt.zero := by
  have h : mapToCurve 0 = Pt.zero := by decide +kernel
  exact ⟨by rw [elligator_model_eq_spec, h], h⟩

/-- `r` and `−r` have the same image.  (The code multiplies `v` by `r` itself in the non-square
branch; the sign rule `ConditionalNegate(isSquare ^ IsNegative)` then removes the dependence on the
sign of `r` — a consequence of model = Spec, since the Spec only uses `r²`.) -/
theorem elligator_neg (r : Nat) : edwardsFlavor (Fp.neg r) = edwardsFlavor r := by
  have hsq : Fp.sq (Fp.neg r) = Fp.sq r :=
    Voi.Props.C07.toZ_inj (Voi.Props.C07.sq_lt _) (Voi.Props.C07.sq_lt _)
      (by rw [Voi.Props.C07.toZ_sq, Voi.Props.C07.toZ_sq, Voi.Props.C07.toZ_neg]; ring)
  rw [elligator_model_eq_spec, elligator_model_eq_spec]
  unfold mapToCurve mapToCurveElligator2
  rw [hsq]

end Voi.Props.C14

/-! ## axiom audit -/
#print axioms Voi.Props.C14.xmd_model_eq_spec
#print axioms Voi.Props.C14.xmd_abort_iff
#print axioms Voi.Props.C14.xmd_length
#print axioms Voi.Props.C14.xmd_oversize_dst
#print axioms Voi.Props.C14.xof_model_eq_spec
#print axioms Voi.Props.C14.xof_abort_iff
#print axioms Voi.Props.C14.xof_length
#print axioms Voi.Props.C14.xof_oversize_dst
#print axioms Voi.Props.C14.xof_state_irrelevant
#print axioms Voi.Props.C14.hashWF_sha512
#print axioms Voi.Props.C14.hashWF_sha384
#print axioms Voi.Props.C14.hashWF_sha256
#print axioms Voi.Props.C14.xofWF_shake128
#print axioms Voi.Props.C14.xofWF_shake256
#print axioms Voi.Props.C14.uniformToField_eq
#print axioms Voi.Props.C14.two_nonsquare
#print axioms Voi.Props.C14.one_add_two_sq_ne_zero
#print axioms Voi.Props.C14.montgomery_model_eq_spec
#print axioms Voi.Props.C14.montgomery_on_curve
#print axioms Voi.Props.C14.mapToCurve_onCurve
#print axioms Voi.Props.C14.elligator_model_eq_spec
#print axioms Voi.Props.C14.elligator_on_curve
#print axioms Voi.Props.C14.elligator_zero
#print axioms Voi.Props.C14.elligator_neg
#print axioms Voi.Props.C14.encodeToCurve_eq
#print axioms Voi.Props.C14.hashToCurve_eq
#print axioms Voi.Props.C14.suite_NU_eq
#print axioms Voi.Props.C14.suite_RO_eq
#print axioms Voi.Props.C14.suite_ristretto_eq
#print axioms Voi.Props.C14.suite_SHA512_RO
#print axioms Voi.Props.C14.suite_SHA512_NU
#print axioms Voi.Props.C14.suite_SHA512_total
#print axioms Voi.Props.C14.cofactor_cleared_NU
#print axioms Voi.Props.C14.cofactor_cleared_RO
#print axioms Voi.Props.C14.tails_torsion_free
#print axioms Voi.Props.C14.suite_point_torsion_free
#print axioms Voi.Props.C14.suite_no_panic
