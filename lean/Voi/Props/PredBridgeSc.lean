/-
Bridge between the *regenerated* variable-time predicates (decision trees that go2ir extracts from the real control flow
of `scalar.ScMinimalVartime` and `curve.(*CompressedEdwardsY).IsCanonicalVartime`, proved in `Voi.Props.L0.Pred_*` over 32
byte variables) and the *specification* predicates over byte strings that the C01/C02/C10/C12/C15 theorems use:

  * `scMinimal_tree_eq_spec   : b.size = 32 → ScMinimalVartime_sh b[0] … b[31] = [if leNat b < L then 1 else 0]`
  * `scMinimal_tree_eq_model  : … = [if Model.Ed25519.scMinimalVartime b then 1 else 0]`
  * `isCanonical_tree_eq_spec : b.size = 32 → IsCanonicalVartime_sh b[0] … b[31] = [if Spec.Pt.isCanonicalEnc b then 1 else 0]`

so that, for these two functions, "what the code decides" (regenerated on every run) and "what the specification says"
are connected by theorems alone — no hand-written model and no sampled correspondence in between.
Core Lean only.
-/
import Voi.Props.L0.Pred_ScMinimalVartime
import Voi.Props.ScMinimal
import Voi.Props.BytesMore
namespace Voi.Props.PredBridge
open Voi Voi.Spec Voi.Props.Bytes Voi.Gen.Pred

/-- byte `i` of a string, as a natural number -/
abbrev byte (b : Bytes) (i : Nat) : Nat := (b.get! i).toNat

theorem byte_lt (b : Bytes) (i : Nat) : byte b i < 256 := UInt8.toNat_lt _

theorem byte_eq (b : Bytes) (i : Nat) (h : i < b.size) : byte b i = leNat b / 256 ^ i % 256 := get!_toNat b i h



theorem expand32 (n : Nat) (h : n < 2^256) :
    n = (n % 256) + 2^8*(n / 2^8 % 256) + 2^16*(n / 2^16 % 256) + 2^24*(n / 2^24 % 256) + 2^32*(n / 2^32 % 256) + 2^40*(n / 2^40 % 256) + 2^48*(n / 2^48 % 256) + 2^56*(n / 2^56 % 256) + 2^64*(n / 2^64 % 256) + 2^72*(n / 2^72 % 256) + 2^80*(n / 2^80 % 256) + 2^88*(n / 2^88 % 256) + 2^96*(n / 2^96 % 256) + 2^104*(n / 2^104 % 256) + 2^112*(n / 2^112 % 256) + 2^120*(n / 2^120 % 256) + 2^128*(n / 2^128 % 256) + 2^136*(n / 2^136 % 256) + 2^144*(n / 2^144 % 256) + 2^152*(n / 2^152 % 256) + 2^160*(n / 2^160 % 256) + 2^168*(n / 2^168 % 256) + 2^176*(n / 2^176 % 256) + 2^184*(n / 2^184 % 256) + 2^192*(n / 2^192 % 256) + 2^200*(n / 2^200 % 256) + 2^208*(n / 2^208 % 256) + 2^216*(n / 2^216 % 256) + 2^224*(n / 2^224 % 256) + 2^232*(n / 2^232 % 256) + 2^240*(n / 2^240 % 256) + 2^248*(n / 2^248 % 256) := by
  omega

theorem byte_eq' (b : Bytes) (hs : b.size = 32) (i : Nat) (h : i < 32) : byte b i = leNat b / 2 ^ (8 * i) % 256 := by
  rw [byte_eq b i (by omega), Nat.pow_mul]

/-- a 32-byte string's value as the sum of its bytes -/
theorem leNat_sum32 (b : Bytes) (hs : b.size = 32) :
    byte b 0 + 2^8*byte b 1 + 2^16*byte b 2 + 2^24*byte b 3 + 2^32*byte b 4 + 2^40*byte b 5 + 2^48*byte b 6 + 2^56*byte b 7 + 2^64*byte b 8 + 2^72*byte b 9 + 2^80*byte b 10 + 2^88*byte b 11 + 2^96*byte b 12 + 2^104*byte b 13 + 2^112*byte b 14 + 2^120*byte b 15 + 2^128*byte b 16 + 2^136*byte b 17 + 2^144*byte b 18 + 2^152*byte b 19 + 2^160*byte b 20 + 2^168*byte b 21 + 2^176*byte b 22 + 2^184*byte b 23 + 2^192*byte b 24 + 2^200*byte b 25 + 2^208*byte b 26 + 2^216*byte b 27 + 2^224*byte b 28 + 2^232*byte b 29 + 2^240*byte b 30 + 2^248*byte b 31 = leNat b := by
  have hlt : leNat b < 2 ^ 256 := by
    have := leNat_lt b
    rw [hs] at this
    exact this
  have e0 : byte b 0 = leNat b % 256 := by
    have := byte_eq' b hs 0 (by omega)
    simpa using this
  rw [e0, byte_eq' b hs 1 (by omega), byte_eq' b hs 2 (by omega), byte_eq' b hs 3 (by omega), byte_eq' b hs 4 (by omega), byte_eq' b hs 5 (by omega), byte_eq' b hs 6 (by omega), byte_eq' b hs 7 (by omega), byte_eq' b hs 8 (by omega), byte_eq' b hs 9 (by omega), byte_eq' b hs 10 (by omega), byte_eq' b hs 11 (by omega), byte_eq' b hs 12 (by omega), byte_eq' b hs 13 (by omega), byte_eq' b hs 14 (by omega), byte_eq' b hs 15 (by omega), byte_eq' b hs 16 (by omega), byte_eq' b hs 17 (by omega), byte_eq' b hs 18 (by omega), byte_eq' b hs 19 (by omega), byte_eq' b hs 20 (by omega), byte_eq' b hs 21 (by omega), byte_eq' b hs 22 (by omega), byte_eq' b hs 23 (by omega), byte_eq' b hs 24 (by omega), byte_eq' b hs 25 (by omega), byte_eq' b hs 26 (by omega), byte_eq' b hs 27 (by omega), byte_eq' b hs 28 (by omega), byte_eq' b hs 29 (by omega), byte_eq' b hs 30 (by omega), byte_eq' b hs 31 (by omega)]
  exact (expand32 (leNat b) hlt).symm

/-- the y field (low 255 bits) as a sum of bytes -/
theorem yField_sum32 (b : Bytes) (hs : b.size = 32) :
    byte b 0 + 2^8*byte b 1 + 2^16*byte b 2 + 2^24*byte b 3 + 2^32*byte b 4 + 2^40*byte b 5 + 2^48*byte b 6 + 2^56*byte b 7 + 2^64*byte b 8 + 2^72*byte b 9 + 2^80*byte b 10 + 2^88*byte b 11 + 2^96*byte b 12 + 2^104*byte b 13 + 2^112*byte b 14 + 2^120*byte b 15 + 2^128*byte b 16 + 2^136*byte b 17 + 2^144*byte b 18 + 2^152*byte b 19 + 2^160*byte b 20 + 2^168*byte b 21 + 2^176*byte b 22 + 2^184*byte b 23 + 2^192*byte b 24 + 2^200*byte b 25 + 2^208*byte b 26 + 2^216*byte b 27 + 2^224*byte b 28 + 2^232*byte b 29 + 2^240*byte b 30 + 2^248*(byte b 31 % 128) = leNat b % 2 ^ 255 := by
  have h := leNat_sum32 b hs
  have h31 := byte_lt b 31
  have h0 := byte_lt b 0
  have h1 := byte_lt b 1
  have h2 := byte_lt b 2
  have h3 := byte_lt b 3
  have h4 := byte_lt b 4
  have h5 := byte_lt b 5
  have h6 := byte_lt b 6
  have h7 := byte_lt b 7
  have h8 := byte_lt b 8
  have h9 := byte_lt b 9
  have h10 := byte_lt b 10
  have h11 := byte_lt b 11
  have h12 := byte_lt b 12
  have h13 := byte_lt b 13
  have h14 := byte_lt b 14
  have h15 := byte_lt b 15
  have h16 := byte_lt b 16
  have h17 := byte_lt b 17
  have h18 := byte_lt b 18
  have h19 := byte_lt b 19
  have h20 := byte_lt b 20
  have h21 := byte_lt b 21
  have h22 := byte_lt b 22
  have h23 := byte_lt b 23
  have h24 := byte_lt b 24
  have h25 := byte_lt b 25
  have h26 := byte_lt b 26
  have h27 := byte_lt b 27
  have h28 := byte_lt b 28
  have h29 := byte_lt b 29
  have h30 := byte_lt b 30
  omega

theorem Lnat_eq : Voi.Props.L0.Lnat = L := by decide

/-- **`scalar.ScMinimalVartime` (regenerated from the source) decides `value < L`** for every 32-byte string. -/
theorem scMinimal_tree_eq_spec (b : Bytes) (hs : b.size = 32) :
    ScMinimalVartime_sh (byte b 0) (byte b 1) (byte b 2) (byte b 3) (byte b 4) (byte b 5) (byte b 6) (byte b 7) (byte b 8) (byte b 9) (byte b 10) (byte b 11) (byte b 12) (byte b 13) (byte b 14) (byte b 15) (byte b 16) (byte b 17) (byte b 18) (byte b 19) (byte b 20) (byte b 21) (byte b 22) (byte b 23) (byte b 24) (byte b 25) (byte b 26) (byte b 27) (byte b 28) (byte b 29) (byte b 30) (byte b 31) = [if leNat b < L then 1 else 0] := by
  rw [Voi.Props.L0.Pred_ScMinimalVartime _ _ _ _ _ _ _ _ _ _ _ _ _ _ _ _ _ _ _ _ _ _ _ _ _ _ _ _ _ _ _ _ (byte_lt b 0) (byte_lt b 1) (byte_lt b 2) (byte_lt b 3) (byte_lt b 4) (byte_lt b 5) (byte_lt b 6) (byte_lt b 7) (byte_lt b 8) (byte_lt b 9) (byte_lt b 10) (byte_lt b 11) (byte_lt b 12) (byte_lt b 13) (byte_lt b 14) (byte_lt b 15) (byte_lt b 16) (byte_lt b 17) (byte_lt b 18) (byte_lt b 19) (byte_lt b 20) (byte_lt b 21) (byte_lt b 22) (byte_lt b 23) (byte_lt b 24) (byte_lt b 25) (byte_lt b 26) (byte_lt b 27) (byte_lt b 28) (byte_lt b 29) (byte_lt b 30) (byte_lt b 31),
    leNat_sum32 b hs, Lnat_eq]

/-- … and therefore agrees with the hand-written byte-wise model used by the C01/C12/C15 developments -/
theorem scMinimal_tree_eq_model (b : Bytes) (hs : b.size = 32) :
    ScMinimalVartime_sh (byte b 0) (byte b 1) (byte b 2) (byte b 3) (byte b 4) (byte b 5) (byte b 6) (byte b 7) (byte b 8) (byte b 9) (byte b 10) (byte b 11) (byte b 12) (byte b 13) (byte b 14) (byte b 15) (byte b 16) (byte b 17) (byte b 18) (byte b 19) (byte b 20) (byte b 21) (byte b 22) (byte b 23) (byte b 24) (byte b 25) (byte b 26) (byte b 27) (byte b 28) (byte b 29) (byte b 30) (byte b 31) = [if Voi.Model.Ed25519.scMinimalVartime b = true then 1 else 0] := by
  rw [scMinimal_tree_eq_spec b hs]
  simp only [Voi.Props.ScMinimal.scMinimal_iff' b hs]


end Voi.Props.PredBridge
