/-
C20 — "Precomputed constants and tables equal their definitions in every backend".

This module assembles the table theorems; the constants are in the imported modules
(every theorem there is a closed statement about the literals regenerated from the working tree by
`bin/regen consts` (`go2ir -globals`), proved by kernel evaluation — no `native_decide`):

  Voi.Props.C20.Field        field constants of `curve`, `internal/field`, `internal/elligator`; both encodings
  Voi.Props.C20.Scalar       L, R, RR, BASEPOINT_ORDER, `order`; lattice constants; both encodings
  Voi.Props.C20.Points       B, [2^128]B, E[8], compressed constants; both encodings
  Voi.Props.C20.TablesAgree  shape / limb ranges / canonicity of the three tables, agreement of the encodings
  Voi.Props.C20.Base0..7     fixed-base table rows (64-bit literal), 4 rows per module
  Voi.Props.C20.OddB, OddBShl0..1   odd-multiple tables (64-bit literal)

Reading guide: `fes51 l` / `fes2625 l` (Voi.Spec.Limbs) is the sequence of field elements denoted by the flat limb
list `l` (5 limbs radix 2^51 resp. 10 limbs radix 2^25.5 each); `nielsAt fs k` is the k-th (y+x, y−x, 2dxy) triple
of such a sequence; `ANiels.ofPt P` is the affine-Niels form of the affine point `P`; `Pt.smul n P` is the Spec's
scalar multiplication and `Pt.B` the Ed25519 base point.  Equalities are between fully reduced values, so they
also say that every stored field element is canonical.

The tables that exist only at run time (the vector backend's tables, and the serial tables as the running binary
holds them in each of the four build configurations) are covered by correspondence stream K0
(`go/harness/s_consts.go`, `Voi.Drv.Consts`), exhaustively.
-/
import Voi.Props.C20.Field
import Voi.Props.C20.Scalar
import Voi.Props.C20.Points
import Voi.Props.C20.TablesAgree
import Voi.Props.C20.Base0
import Voi.Props.C20.Base1
import Voi.Props.C20.Base2
import Voi.Props.C20.Base3
import Voi.Props.C20.Base4
import Voi.Props.C20.Base5
import Voi.Props.C20.Base6
import Voi.Props.C20.Base7
import Voi.Props.C20.OddB
import Voi.Props.C20.OddBShl0
import Voi.Props.C20.OddBShl1
namespace Voi.Props.C20
open Voi Voi.Spec Voi.Spec.Limbs Voi.Gen.Consts

/-! ## Fixed-base table: entry (i, j) = [(j+1)·256^i]B, all 32 × 8 entries -/

theorem base_table_u64 : ∀ i < 32, ∀ j < 8,
    nielsAt (fes51 CurveU64.ED25519_BASEPOINT_TABLE) (8 * i + j) = ANiels.ofPt (Pt.smul ((j + 1) * 256 ^ i) Pt.B) := by
  intro i hi j hj
  rcases (show i < 4 ∨ (4 ≤ i ∧ i < 8) ∨ (8 ≤ i ∧ i < 12) ∨ (12 ≤ i ∧ i < 16) ∨ (16 ≤ i ∧ i < 20) ∨ (20 ≤ i ∧ i < 24) ∨ (24 ≤ i ∧ i < 28) ∨ (28 ≤ i ∧ i < 32) by omega) with h | h | h | h | h | h | h | h
  · have h := Base0.rows (i - 0) (by omega) j hj
    rwa [show 0 + (i - 0) = i by omega] at h
  · have h := Base1.rows (i - 4) (by omega) j hj
    rwa [show 4 + (i - 4) = i by omega] at h
  · have h := Base2.rows (i - 8) (by omega) j hj
    rwa [show 8 + (i - 8) = i by omega] at h
  · have h := Base3.rows (i - 12) (by omega) j hj
    rwa [show 12 + (i - 12) = i by omega] at h
  · have h := Base4.rows (i - 16) (by omega) j hj
    rwa [show 16 + (i - 16) = i by omega] at h
  · have h := Base5.rows (i - 20) (by omega) j hj
    rwa [show 20 + (i - 20) = i by omega] at h
  · have h := Base6.rows (i - 24) (by omega) j hj
    rwa [show 24 + (i - 24) = i by omega] at h
  · have h := Base7.rows (i - 28) (by omega) j hj
    rwa [show 28 + (i - 28) = i by omega] at h

theorem base_table_u32 : ∀ i < 32, ∀ j < 8,
    nielsAt (fes2625 CurveU32.ED25519_BASEPOINT_TABLE) (8 * i + j) = ANiels.ofPt (Pt.smul ((j + 1) * 256 ^ i) Pt.B) := by
  rw [TablesAgree.tables_enc_agree.1]; exact base_table_u64

/-- RISTRETTO_BASEPOINT_TABLE holds a copy of the same table (both encodings). -/
theorem ristretto_base_table :
    (∀ i < 32, ∀ j < 8, nielsAt (fes51 CurveU64.RISTRETTO_BASEPOINT_TABLE) (8 * i + j) =
      ANiels.ofPt (Pt.smul ((j + 1) * 256 ^ i) Pt.B)) ∧
    (∀ i < 32, ∀ j < 8, nielsAt (fes2625 CurveU32.RISTRETTO_BASEPOINT_TABLE) (8 * i + j) =
      ANiels.ofPt (Pt.smul ((j + 1) * 256 ^ i) Pt.B)) := by
  rw [TablesAgree.aliases.2.1, TablesAgree.aliases.2.2.2]; exact ⟨base_table_u64, base_table_u32⟩

/-! ## Odd multiples of B: entry j = [2j+1]B, all 64 entries -/

theorem odd_multiples_of_B_u64 : ∀ j < 64,
    nielsAt (fes51 CurveU64.constAFFINE_ODD_MULTIPLES_OF_BASEPOINT) j = ANiels.ofPt (Pt.smul (2 * j + 1) Pt.B) :=
  OddB.entries

theorem odd_multiples_of_B_u32 : ∀ j < 64,
    nielsAt (fes2625 CurveU32.constAFFINE_ODD_MULTIPLES_OF_BASEPOINT) j = ANiels.ofPt (Pt.smul (2 * j + 1) Pt.B) := by
  rw [TablesAgree.tables_enc_agree.2.1]; exact OddB.entries

/-! ## Odd multiples of [2^128]B: entry j = [(2j+1)·2^128]B, all 64 entries -/

theorem odd_multiples_of_B_shl_128_u64 : ∀ j < 64,
    nielsAt (fes51 CurveU64.constAFFINE_ODD_MULTIPLES_OF_B_SHL_128) j =
    ANiels.ofPt (Pt.smul ((2 * j + 1) * 2 ^ 128) Pt.B) := by
  intro j hj
  rcases (show j < 32 ∨ (32 ≤ j ∧ j < 64) by omega) with h | h
  · have h := OddBShl0.entries (j - 0) (by omega)
    rwa [show 0 + (j - 0) = j by omega] at h
  · have h := OddBShl1.entries (j - 32) (by omega)
    rwa [show 32 + (j - 32) = j by omega] at h

theorem odd_multiples_of_B_shl_128_u32 : ∀ j < 64,
    nielsAt (fes2625 CurveU32.constAFFINE_ODD_MULTIPLES_OF_B_SHL_128) j =
    ANiels.ofPt (Pt.smul ((2 * j + 1) * 2 ^ 128) Pt.B) := by
  rw [TablesAgree.tables_enc_agree.2.2]; exact odd_multiples_of_B_shl_128_u64

end Voi.Props.C20
