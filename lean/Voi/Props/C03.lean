/-
C03 (generic part) — every scalar-multiplication routine returns Σ sᵢ•Pᵢ.

Theorems about the code-shaped models of `Voi.Model.ScalarMul` (tied to package `curve` by the differential stream G2,
which answers `Mul / MulBasepoint / DoubleScalarMulBasepointVartime / MultiscalarMul / MultiscalarMulVartime /
Expanded*` from these very models instantiated with the executable Spec points).  Here the carrier is an ARBITRARY
commutative group: `grp G : GroupOps G` for any `[AddCommGroup G]` (`add := (+)`, `dbl x := x + x`, …).  All
quantification is unbounded (all points, all scalars < 2^255, lists of any length incl. 0, every threshold); the proofs
are loop invariants over the position index  (accumulator entering position i:  result = 2^(r·i)•acc + Σ_j (Σ_{k<i}
d_{j,k} 2^(r·k))•P_j)  plus `module`/`abel` algebra and induction over the term lists; the digit facts come from C17
(`r16_value`, `r16_abs_le_8`, `naf_value`, `naf5_digits`, `naf8_digits`, `r2w_value`, `r2w_bounds`,
`r2w_bucket_index`).  Nothing is established by evaluation.

Vocabulary:  `msum ss ps = Σ sᵢ•Pᵢ` over `zip ss ps`;  `lsum l f = Σ_{x∈l} f x`;  `dig a i`, `sumD r f k` from C17;
`IsNafTable n tbl P` (tbl[j] = (2j+1)•P, j < n);  `NafDigits n a` (entries 0 or odd with |d| < 2n);
`IsBasepointTable tbls B` (tbls[k][j] = ((j+1)·256^k)•B).

  lookup_correct            tbl[j] = (j+1)•P (j<8), -8 ≤ x ≤ 8                 Lookup(x) = x•P      (masked scan + cond. negate)
  nafLookup_correct,        tbl[j] = (2j+1)•P (j<n), x odd, |x| < 2n           tbl[|x|/2] = |x|•P;  t ± … = t + x•P
    nafAdd_correct                                                             (n = 8: |x| < 16;  n = 64: |x| < 128)
  mkTable_getD, mkNafTable_getD, isBasepointTable_mk                           the table constructors build such tables
  mulRadix16_digits         64 digits in [-8,8]                                edwardsMulGeneric = (Σ dᵢ16^i)•P
  mulRadix16_correct        ∀ n < 2^255                                        mulRadix16 P (toRadix16 n) = n•P
  basepointMul_digits / basepointMul_correct / mulBasepoint_mk_correct         fixed base: odd pass, ×16, even pass = n•B
  strausCT_digits / strausCT_correct                                           MultiscalarMul = Σ sᵢ•Pᵢ
  strausNaf_digits / strausNaf_correct                                         vartime Straus (NAF-5) = Σ sᵢ•Pᵢ
  strausNafExpanded_digits                                                     expanded Straus (precomputed tables)
  doubleBase_digits / doubleBase_correct / expandedDoubleBase_correct          a•A + b•B, leading-zero skip included
  bucketSumLoop_eq, bucketSum_eq                                               running sums = Σ_j (j+1)•bucket_j
  bucketStep_bw, column_eq                                                     signed digits into buckets; column = Σ dᵢ•Pᵢ
  pippenger_digits / pippenger_correct (w ∈ {6,7,8}) / pippengerVartime_correct
  dispatch_correct          ∀ threshold                                        MultiscalarMulVartime = Σ sᵢ•Pᵢ
  expandedDispatch_correct  ∀ threshold, |static scalars| = |static points|    ExpandedMultiscalarMulVartime = Σ + Σ

All statements are proved in full (no `_partial`, no `_statement` placeholders).

Not covered here (other parts of C03): that the projective formulas of curve/models.go represent +, −, 2· (formula
level), the AVX2 backend's own formulas, and the instantiation of `G` with the curve group (needs the group law).
-/
import Voi.Props.C03.Basic
import Voi.Props.C03.Buckets

namespace Voi.Props.C03
open Voi.Model.Recoding Voi.Model.ScalarMul Voi.Props.C17

set_option exponentiation.threshold 1024

variable {G : Type} [AddCommGroup G]

/-! ## edwardsMulGeneric -/

/-- loop invariant of `edwardsMulGeneric`: entering iteration `i-1 … 0` with accumulator `acc`, the loop returns
    `16^i•acc + (Σ_{k<i} d_k 16^k)•P` -/
theorem mulRadix16Loop_eq (tbl : Array G) (P : G) (digits : Array Int)
    (hl : ∀ i, (grp G).lookup tbl (digits.getD i 0) = dig digits i • P) :
    ∀ i acc, (grp G).mulRadix16Loop tbl digits i acc
      = ((2 : ℤ) ^ (4 * i)) • acc + sumD 4 (dig digits) i • P
  | 0, acc => by simp [GroupOps.mulRadix16Loop, sumD]
  | i + 1, acc => by
    simp only [GroupOps.mulRadix16Loop, grp_add]
    rw [mulRadix16Loop_eq tbl P digits hl i, mulByPow2_eq, hl i]
    show _ = _ + (sumD 4 (dig digits) i + dig digits i * 2 ^ (4 * i)) • P
    have : (2 : ℤ) ^ (4 * (i + 1)) = 2 ^ (4 * i) * 2 ^ 4 := by rw [← pow_add, Nat.mul_succ]
    rw [this]
    module

/-- **C03/mulRadix16 (digits).** For any 64 digits in [-8, 8], `edwardsMulGeneric` returns `(Σ_{i<64} dᵢ·16^i)•P`. -/
theorem mulRadix16_digits (P : G) (digits : Array Int) (hb : ∀ i, -8 ≤ dig digits i ∧ dig digits i ≤ 8) :
    (grp G).mulRadix16 P digits = sumD 4 (dig digits) 64 • P := by
  have hl : ∀ i, (grp G).lookup ((grp G).mkTable P) (digits.getD i 0) = dig digits i • P :=
    fun i => lookup_mkTable P _ (hb i)
  unfold GroupOps.mulRadix16
  simp only [grp_add, grp_zero]
  rw [mulRadix16Loop_eq _ P digits hl 63, hl 63]
  show _ = (sumD 4 (dig digits) 63 + dig digits 63 * 2 ^ (4 * 63)) • P
  module

/-- **C03/mulRadix16.** `∀ n < 2^255, ∀ P`: radix-16 recoding followed by `edwardsMulGeneric` gives `n•P`. -/
theorem mulRadix16_correct (P : G) (n : Nat) (hn : n < 2 ^ 255) :
    (grp G).mulRadix16 P (toRadix16 n) = n • P := by
  rw [mulRadix16_digits P _ (fun i => by have := r16_abs_le_8 n hn i; omega),
    (r16_value n (by omega)).2.1, natCast_zsmul]

/-- `EdwardsPoint.Mul` -/
theorem mul_correct (P : G) (n : Nat) (hn : n < 2 ^ 255) : (grp G).mul P n = n • P :=
  mulRadix16_correct P n hn


/-! ## Constant-time Straus -/

theorem pow_mul_succ (r i : Nat) : (2 : ℤ) ^ (r * (i + 1)) = 2 ^ (r * i) * 2 ^ r := by
  rw [← pow_add, Nat.mul_succ]

/-- loop invariant of `edwardsMultiscalarMulStrausGeneric` over an arbitrary index type `α` of terms with table
    `tb x`, digit array `dg x` and point `pt x` -/
theorem strausCTLoop_eq {α : Type} (l : List α) (tb : α → Array G) (dg : α → Array Int) (pt : α → G)
    (hl : ∀ x ∈ l, ∀ i, (grp G).lookup (tb x) ((dg x).getD i 0) = dig (dg x) i • pt x) :
    ∀ i acc, (grp G).strausCTLoop (l.map (fun x => (tb x, dg x))) i acc
      = ((2 : ℤ) ^ (4 * i)) • acc + lsum l (fun x => sumD 4 (dig (dg x)) i • pt x)
  | 0, acc => by simp [GroupOps.strausCTLoop, wsum_zero]
  | i + 1, acc => by
    simp only [GroupOps.strausCTLoop, List.foldl_map]
    rw [foldl_eq_add l _ (fun x => dig (dg x) i • pt x) (fun x hx q => by simp only [grp_add]; rw [hl x hx i]),
      strausCTLoop_eq l tb dg pt hl i, mulByPow2_eq, wsum_succ, pow_mul_succ]
    module

/-- **C03/Straus, constant time (digits).** For digit arrays with all digits in [-8, 8] the result is
    `Σ_j (Σ_{i<64} d_{j,i}·16^i)•P_j` — any number of terms, also none. -/
theorem strausCT_digits (digits : List (Array Int)) (points : List G)
    (hb : ∀ d ∈ digits, ∀ i, -8 ≤ dig d i ∧ dig d i ≤ 8) :
    (grp G).strausCT digits points = lsum (points.zip digits) (fun pd => sumD 4 (dig pd.2) 64 • pd.1) := by
  unfold GroupOps.strausCT
  rw [List.zip_map_left]
  have := strausCTLoop_eq (points.zip digits) (fun pd => (grp G).mkTable pd.1) (fun pd => pd.2) (fun pd => pd.1)
    (fun pd hpd i => lookup_mkTable pd.1 _ (hb pd.2 (List.of_mem_zip hpd).2 i)) 64 0
  have hm : (points.zip digits).map (Prod.map (grp G).mkTable id)
      = (points.zip digits).map (fun pd => ((grp G).mkTable pd.1, pd.2)) := rfl
  rw [hm, grp_zero, this]
  simp

/-- `Σ` over `zip (map f ss) ps` in terms of `msum` -/
theorem lsum_zip_scalars (ss : List Nat) (ps : List G) (f : Nat → Array Int) (v : Array Int → ℤ)
    (h : ∀ s ∈ ss, v (f s) = (s : ℤ)) :
    lsum (ps.zip (ss.map f)) (fun pd => v pd.2 • pd.1) = msum ss ps := by
  unfold msum
  induction ss generalizing ps with
  | nil => simp
  | cons s ss ih =>
    cases ps with
    | nil => simp
    | cons P ps =>
      simp only [List.map_cons, List.zip_cons_cons, lsum_cons]
      rw [ih ps (fun t ht => h t (by simp [ht])), h s (by simp), natCast_zsmul]

/-- **C03/Straus, constant time.** `MultiscalarMul` returns `Σ sᵢ•Pᵢ` for lists of any length and all scalars
    below 2^255. -/
theorem strausCT_correct (ss : List Nat) (ps : List G) (hs : ∀ s ∈ ss, s < 2 ^ 255) :
    (grp G).multiscalarMul ss ps = msum ss ps := by
  unfold GroupOps.multiscalarMul
  rw [strausCT_digits]
  · exact lsum_zip_scalars ss ps toRadix16 (fun a => sumD 4 (dig a) 64)
      (fun s h => (r16_value s (by have := hs s h; omega)).2.1)
  · intro d hd i
    obtain ⟨s, hsm, rfl⟩ := List.mem_map.1 hd
    have := r16_abs_le_8 s (hs s hsm) i
    omega


/-! ## Pippenger -/

/-- column combination: `sum = 2^w•sum + column(i)` from the top column down -/
theorem pippengerLoop_eq (w bc : Nat) (dps : List (Array Int × G)) (hbc : 1 ≤ bc)
    (hd : ∀ dp ∈ dps, ∀ i, (dig dp.1 i).natAbs ≤ bc) :
    ∀ i sum, (grp G).pippengerLoop w bc dps i sum
      = ((2 : ℤ) ^ (w * i)) • sum + lsum dps (fun dp => sumD w (dig dp.1) i • dp.2)
  | 0, sum => by simp [GroupOps.pippengerLoop, wsum_zero]
  | i + 1, sum => by
    simp only [GroupOps.pippengerLoop, grp_add]
    rw [pippengerLoop_eq w bc dps hbc hd i, mulByPow2_eq, column_eq bc i dps hbc (fun dp h => hd dp h i),
      wsum_succ, pow_mul_succ]
    module

/-- **C03/Pippenger (digits).** For every window `w ≥ 1` that has a size hint `dc ≥ 1` (w ∈ {6,7,8}: 43, 37, 33 — the
    extra digit of w = 8 included) and digit arrays bounded by the bucket count `2^w/2` in magnitude:
    the result is `Σ_j (Σ_{i<dc} d_{j,i}·2^(w·i))•P_j` — any number of terms, also none. -/
theorem pippenger_digits (w dc : Nat) (digits : List (Array Int)) (points : List G)
    (hdc : toRadix2wSizeHint w = some dc) (hdc1 : 1 ≤ dc) (hw : 1 ≤ w)
    (hd : ∀ d ∈ digits, ∀ i, (dig d i).natAbs ≤ 2 ^ w / 2) :
    (grp G).pippenger w digits points
      = some (lsum (digits.zip points) (fun dp => sumD w (dig dp.1) dc • dp.2)) := by
  unfold GroupOps.pippenger
  rw [hdc]
  simp only
  have hbc : 1 ≤ 2 ^ w / 2 := by
    have : 2 ^ 1 ≤ 2 ^ w := Nat.pow_le_pow_right (by decide) hw
    omega
  have hd' : ∀ dp ∈ digits.zip points, ∀ i, (dig dp.1 i).natAbs ≤ 2 ^ w / 2 :=
    fun dp h i => hd dp.1 (List.of_mem_zip h).1 i
  rw [pippengerLoop_eq w _ _ hbc hd', column_eq _ (dc - 1) _ hbc (fun dp h => hd' dp h (dc - 1))]
  obtain ⟨k, rfl⟩ : ∃ k, dc = k + 1 := ⟨dc - 1, by omega⟩
  simp only [Nat.add_sub_cancel]
  rw [wsum_succ]
  congr 1
  abel

/-! ### from scalars -/

theorem allSome_map {α β : Type} (l : List α) (f : α → Option β) (g : α → β) (h : ∀ x ∈ l, f x = some (g x)) :
    GroupOps.allSome (l.map f) = some (l.map g) := by
  induction l with
  | nil => rfl
  | cons x l ih =>
    simp only [List.map_cons]
    rw [h x (by simp)]
    simp only [GroupOps.allSome]
    rw [ih (fun y hy => h y (by simp [hy]))]
    rfl

/-- `Σ` over `zip (map f ss) ps` (digits first) in terms of `msum` -/
theorem lsum_zip_scalars' (ss : List Nat) (ps : List G) (f : Nat → Array Int) (v : Array Int → ℤ)
    (h : ∀ s ∈ ss, v (f s) = (s : ℤ)) :
    lsum ((ss.map f).zip ps) (fun dp => v dp.1 • dp.2) = msum ss ps := by
  unfold msum
  induction ss generalizing ps with
  | nil => simp
  | cons s ss ih =>
    cases ps with
    | nil => simp
    | cons P ps =>
      simp only [List.map_cons, List.zip_cons_cons, lsum_cons]
      rw [ih ps (fun t ht => h t (by simp [ht])), h s (by simp), natCast_zsmul]

/-- the value of the first `ToRadix2wSizeHint(w)` digits is the scalar -/
theorem r2w_sum_hint (w n : Nat) (hw : w = 6 ∨ w = 7 ∨ w = 8) (hn : n < 2 ^ 255) :
    toRadix2wSizeHint w = some (terminalIdx w + 1) ∧
    sumD w (dig (radix2w w n)) (terminalIdx w + 1) = (n : ℤ) := by
  have he := toRadix2w_eq w n hw
  obtain ⟨_, _, h3, h4, _, _⟩ := r2w_bounds w n _ hw hn he
  refine ⟨h3, ?_⟩
  have hv := (r2w_value w n _ hw (by omega) he).2.1
  have hle : terminalIdx w + 1 ≤ 43 := by rcases hw with rfl | rfl | rfl <;> decide
  obtain ⟨m, hm⟩ : ∃ m, 43 = terminalIdx w + 1 + m := ⟨43 - (terminalIdx w + 1), by omega⟩
  rw [hm, sumD_extend w _ _ m (fun i h1 _ => h4 i h1)] at hv
  exact hv

/-- **C03/Pippenger.** For each window `w ∈ {6,7,8}`: radix-2^w recoding followed by the bucket method returns
    `Σ sᵢ•Pᵢ` for lists of any length and all scalars below 2^255. -/
theorem pippenger_correct (w : Nat) (hw : w = 6 ∨ w = 7 ∨ w = 8) (ss : List Nat) (ps : List G)
    (hs : ∀ s ∈ ss, s < 2 ^ 255) :
    (GroupOps.allSome (ss.map (toRadix2w w))).bind (fun ds => (grp G).pippenger w ds ps) = some (msum ss ps) := by
  rw [allSome_map ss _ (radix2w w) (fun s _ => toRadix2w_eq w s hw)]
  simp only [Option.bind_some]
  have hhint : toRadix2wSizeHint w = some (terminalIdx w + 1) := by
    rcases hw with rfl | rfl | rfl <;> rfl
  rw [pippenger_digits w (terminalIdx w + 1) _ ps hhint (by omega) (by omega)]
  · rw [lsum_zip_scalars' ss ps (radix2w w) (fun a => sumD w (dig a) (terminalIdx w + 1))
      (fun s h => (r2w_sum_hint w s hw (hs s h)).2)]
  · intro d hd i
    obtain ⟨s, hsm, rfl⟩ := List.mem_map.1 hd
    have := r2w_bucket_index w s _ hw (hs s hsm) (toRadix2w_eq w s hw) i
    have h2 : 2 ^ (w - 1) = 2 ^ w / 2 := by rcases hw with rfl | rfl | rfl <;> rfl
    omega

/-- the window chosen by size is always one of 6, 7, 8 -/
theorem pippengerWindow_valid (size : Nat) :
    GroupOps.pippengerWindow size = 6 ∨ GroupOps.pippengerWindow size = 7 ∨ GroupOps.pippengerWindow size = 8 := by
  unfold GroupOps.pippengerWindow
  by_cases h1 : size < 500
  · simp [h1]
  · by_cases h2 : size < 800
    · simp [h1, h2]
    · simp [h1, h2]

/-- `edwardsMultiscalarMulPippengerVartime`: whatever window the size selects -/
theorem pippengerVartime_correct (ss : List Nat) (ps : List G) (hs : ∀ s ∈ ss, s < 2 ^ 255) :
    (grp G).pippengerVartime ss ps = some (msum ss ps) :=
  pippenger_correct _ (pippengerWindow_valid ss.length) ss ps hs


/-! ## Variable-time Straus (NAF-5), plain and expanded -/

/-- `tbl` holds the odd multiples `P, 3P, …, (2n-1)P` -/
def IsNafTable (n : Nat) (tbl : Array G) (P : G) : Prop := ∀ j, j < n → tbl.getD j 0 = (2 * (j : ℤ) + 1) • P

theorem isNafTable_mk (n : Nat) (P : G) : IsNafTable n ((grp G).mkNafTable n P) P := mkNafTable_getD n P

/-- a digit array whose entries are `0` or odd of magnitude below `2n` (NAF-5: n = 8, NAF-8: n = 64) -/
def NafDigits (n : Nat) (a : Array Int) : Prop := ∀ i, dig a i = 0 ∨ (dig a i % 2 = 1 ∧ (dig a i).natAbs < 2 * n)

/-- the inner `for j` loop at position `i` adds the column `Σ_j d_{j,i}•P_j` -/
theorem nafColumn_eq {α : Type} (l : List α) (tb : α → Array G) (dg : α → Array Int) (pt : α → G)
    (hl : ∀ x ∈ l, IsNafTable 8 (tb x) (pt x) ∧ NafDigits 8 (dg x)) (i : Nat) (t : G) :
    (grp G).nafColumn (l.map (fun x => (tb x, dg x))) i t = t + lsum l (fun x => dig (dg x) i • pt x) := by
  unfold GroupOps.nafColumn
  rw [List.foldl_map]
  exact foldl_eq_add l _ _ (fun x hx q => nafAdd_correct 8 (tb x) (pt x) (hl x hx).1 q ((dg x).getD i 0) ((hl x hx).2 i)) t

/-- loop invariant of `edwardsMultiscalarMulStrausVartimeGeneric` -/
theorem strausNafLoop_eq {α : Type} (l : List α) (tb : α → Array G) (dg : α → Array Int) (pt : α → G)
    (hl : ∀ x ∈ l, IsNafTable 8 (tb x) (pt x) ∧ NafDigits 8 (dg x)) :
    ∀ i r, (grp G).strausNafLoop (l.map (fun x => (tb x, dg x))) i r
      = ((2 : ℤ) ^ i) • r + lsum l (fun x => sumD 1 (dig (dg x)) i • pt x)
  | 0, r => by simp [GroupOps.strausNafLoop, wsum_zero]
  | i + 1, r => by
    simp only [GroupOps.strausNafLoop, grp_dbl]
    rw [strausNafLoop_eq l tb dg pt hl i, nafColumn_eq l tb dg pt hl, wsum_succ, Nat.one_mul, pow_succ]
    module

/-- **C03/Straus, variable time (digits).** For NAF-5 digit arrays (entries 0 or odd, |d| < 16):
    `Σ_j (Σ_{i<256} d_{j,i}·2^i)•P_j`. -/
theorem strausNaf_digits (nafs : List (Array Int)) (points : List G) (hd : ∀ a ∈ nafs, NafDigits 8 a) :
    (grp G).strausNaf nafs points = lsum (points.zip nafs) (fun pd => sumD 1 (dig pd.2) 256 • pd.1) := by
  unfold GroupOps.strausNaf
  rw [List.zip_map_left]
  have hm : (points.zip nafs).map (Prod.map ((grp G).mkNafTable 8) id)
      = (points.zip nafs).map (fun pd => ((grp G).mkNafTable 8 pd.1, pd.2)) := rfl
  rw [hm, strausNafLoop_eq (points.zip nafs) (fun pd => (grp G).mkNafTable 8 pd.1) (fun pd => pd.2) (fun pd => pd.1)
    (fun pd hpd => ⟨isNafTable_mk 8 pd.1, hd pd.2 (List.of_mem_zip hpd).2⟩)]
  simp

/-- loop invariant of `expandedEdwardsMultiscalarMulStrausVartimeGeneric` (static terms, then dynamic terms) -/
theorem strausNafExpandedLoop_eq {α β : Type} (l : List α) (tb : α → Array G) (dg : α → Array Int) (pt : α → G)
    (l' : List β) (tb' : β → Array G) (dg' : β → Array Int) (pt' : β → G)
    (hl : ∀ x ∈ l, IsNafTable 8 (tb x) (pt x) ∧ NafDigits 8 (dg x))
    (hl' : ∀ x ∈ l', IsNafTable 8 (tb' x) (pt' x) ∧ NafDigits 8 (dg' x)) :
    ∀ i r, (grp G).strausNafExpandedLoop (l.map (fun x => (tb x, dg x))) (l'.map (fun x => (tb' x, dg' x))) i r
      = ((2 : ℤ) ^ i) • r + (lsum l (fun x => sumD 1 (dig (dg x)) i • pt x)
          + lsum l' (fun x => sumD 1 (dig (dg' x)) i • pt' x))
  | 0, r => by simp [GroupOps.strausNafExpandedLoop, wsum_zero]
  | i + 1, r => by
    simp only [GroupOps.strausNafExpandedLoop, grp_dbl]
    rw [strausNafExpandedLoop_eq l tb dg pt l' tb' dg' pt' hl hl' i, nafColumn_eq l' tb' dg' pt' hl',
      nafColumn_eq l tb dg pt hl, wsum_succ, wsum_succ, Nat.one_mul, pow_succ]
    module

/-- **C03/expanded Straus (digits).** Static terms come with precomputed tables of odd multiples. -/
theorem strausNafExpanded_digits (sn : List (Array Int)) (sps : List (G × Array G)) (dn : List (Array Int))
    (dps : List G) (ht : ∀ sp ∈ sps, IsNafTable 8 sp.2 sp.1)
    (hsn : ∀ a ∈ sn, NafDigits 8 a) (hdn : ∀ a ∈ dn, NafDigits 8 a) :
    (grp G).strausNafExpanded sn (sps.map (·.2)) dn dps
      = lsum (sps.zip sn) (fun x => sumD 1 (dig x.2) 256 • x.1.1)
        + lsum (dps.zip dn) (fun pd => sumD 1 (dig pd.2) 256 • pd.1) := by
  unfold GroupOps.strausNafExpanded
  rw [List.zip_map_left, List.zip_map_left]
  have hm : (sps.zip sn).map (Prod.map (fun x : G × Array G => x.2) id)
      = (sps.zip sn).map (fun x => (x.1.2, x.2)) := rfl
  have hm' : (dps.zip dn).map (Prod.map ((grp G).mkNafTable 8) id)
      = (dps.zip dn).map (fun pd => ((grp G).mkNafTable 8 pd.1, pd.2)) := rfl
  rw [hm, hm', strausNafExpandedLoop_eq (sps.zip sn) (fun x => x.1.2) (fun x => x.2) (fun x => x.1.1)
    (dps.zip dn) (fun pd => (grp G).mkNafTable 8 pd.1) (fun pd => pd.2) (fun pd => pd.1)
    (fun x hx => ⟨ht x.1 (List.of_mem_zip hx).1, hsn x.2 (List.of_mem_zip hx).2⟩)
    (fun pd hpd => ⟨isNafTable_mk 8 pd.1, hdn pd.2 (List.of_mem_zip hpd).2⟩)]
  simp

/-- NAF-5 of a scalar below 2^255 -/
theorem naf5_ok (n : Nat) (hn : n < 2 ^ 255) :
    nonAdjacentForm 5 n = some (naf 5 n) ∧ NafDigits 8 (naf 5 n) ∧ sumD 1 (dig (naf 5 n)) 256 = (n : ℤ) := by
  have he := nonAdjacentForm_eq 5 n (by omega)
  refine ⟨he, ?_, (naf_value 5 n _ (by omega) hn he).2.1⟩
  intro i
  rcases naf5_digits n _ hn he i with h | ⟨h1, h2, h3, _⟩
  · exact Or.inl h
  · exact Or.inr ⟨h1, by omega⟩

/-- NAF-8 of a scalar below 2^255 -/
theorem naf8_ok (n : Nat) (hn : n < 2 ^ 255) :
    nonAdjacentForm 8 n = some (naf 8 n) ∧ NafDigits 64 (naf 8 n) ∧ sumD 1 (dig (naf 8 n)) 256 = (n : ℤ) := by
  have he := nonAdjacentForm_eq 8 n (by omega)
  refine ⟨he, ?_, (naf_value 8 n _ (by omega) hn he).2.1⟩
  intro i
  rcases naf8_digits n _ hn he i with h | ⟨h1, h2, h3, _⟩
  · exact Or.inl h
  · exact Or.inr ⟨h1, by omega⟩

/-- **C03/Straus, variable time.** NAF-5 recoding followed by the vartime Straus loop returns `Σ sᵢ•Pᵢ` for lists of
    any length and all scalars below 2^255. -/
theorem strausNaf_correct (ss : List Nat) (ps : List G) (hs : ∀ s ∈ ss, s < 2 ^ 255) :
    (grp G).strausVartime ss ps = some (msum ss ps) := by
  unfold GroupOps.strausVartime
  rw [allSome_map ss _ (naf 5) (fun s h => (naf5_ok s (hs s h)).1)]
  simp only [Option.map_some]
  rw [strausNaf_digits]
  · rw [lsum_zip_scalars ss ps (naf 5) (fun a => sumD 1 (dig a) 256) (fun s h => (naf5_ok s (hs s h)).2.2)]
  · intro a ha
    obtain ⟨s, hsm, rfl⟩ := List.mem_map.1 ha
    exact (naf5_ok s (hs s hsm)).2.1


/-! ## Double-base (NAF-5 for `a•A`, NAF-8 table for `b•B`), with the leading-zero skip -/

/-- loop invariant of `edwardsDoubleScalarMulBasepointVartimeGenericInner` -/
theorem doubleBaseLoop_eq (tA tB : Array G) (A B : G) (a b : Array Int)
    (hA : IsNafTable 8 tA A) (hB : IsNafTable 64 tB B) (ha : NafDigits 8 a) (hb : NafDigits 64 b) :
    ∀ i r, (grp G).doubleBaseLoop tA tB a b i r
      = ((2 : ℤ) ^ i) • r + (sumD 1 (dig a) i • A + sumD 1 (dig b) i • B)
  | 0, r => by simp [GroupOps.doubleBaseLoop, sumD]
  | i + 1, r => by
    simp only [GroupOps.doubleBaseLoop, grp_dbl]
    rw [doubleBaseLoop_eq tA tB A B a b hA hB ha hb i,
      nafAdd_correct 64 tB B hB _ (b.getD i 0) (hb i), nafAdd_correct 8 tA A hA _ (a.getD i 0) (ha i), pow_succ]
    show _ = _ + ((sumD 1 (dig a) i + dig a i * 2 ^ (1 * i)) • A + (sumD 1 (dig b) i + dig b i * 2 ^ (1 * i)) • B)
    rw [Nat.one_mul]
    have ea : a.getD i 0 = dig a i := rfl
    have eb : b.getD i 0 = dig b i := rfl
    rw [ea, eb]
    module

/-- the start index: everything above it is zero in both arrays, and it is a valid position -/
theorem findStart_spec (a b : Array Int) : ∀ n,
    (∀ j, GroupOps.findStart a b n < j → j < n → dig a j = 0 ∧ dig b j = 0) ∧
    (GroupOps.findStart a b n + 1 ≤ n ∨ n = 0)
  | 0 => ⟨fun j _ h => by omega, Or.inr rfl⟩
  | n + 1 => by
    unfold GroupOps.findStart
    by_cases h : a.getD n 0 ≠ 0 ∨ b.getD n 0 ≠ 0
    · rw [if_pos h]
      exact ⟨fun j h1 h2 => by omega, Or.inl (by omega)⟩
    · rw [if_neg h]
      obtain ⟨h1, h2⟩ := findStart_spec a b n
      have h3 : GroupOps.findStart a b n + 1 ≤ n + 1 := by
        rcases h2 with h2 | h2
        · omega
        · subst h2; exact Nat.le_refl _
      refine ⟨fun j hj1 hj2 => ?_, Or.inl h3⟩
      by_cases hjn : j = n
      · subst hjn
        have h0 : ¬ (dig a j ≠ 0 ∨ dig b j ≠ 0) := h
        constructor
        · by_contra hc; exact h0 (Or.inl hc)
        · by_contra hc; exact h0 (Or.inr hc)
      · exact h1 j hj1 (by omega)

/-- **C03/double-base (digits).** Starting at the top non-zero position loses nothing:
    the result is `(Σ_{i<256} aᵢ2^i)•A + (Σ_{i<256} bᵢ2^i)•B`. -/
theorem doubleBase_digits (tA tB : Array G) (A B : G) (a b : Array Int)
    (hA : IsNafTable 8 tA A) (hB : IsNafTable 64 tB B) (ha : NafDigits 8 a) (hb : NafDigits 64 b) :
    (grp G).doubleBase tA tB a b = sumD 1 (dig a) 256 • A + sumD 1 (dig b) 256 • B := by
  unfold GroupOps.doubleBase
  rw [doubleBaseLoop_eq tA tB A B a b hA hB ha hb]
  obtain ⟨hz, hle⟩ := findStart_spec a b 256
  have hle' : GroupOps.findStart a b 256 + 1 ≤ 256 := by omega
  obtain ⟨m, hm⟩ : ∃ m, 256 = GroupOps.findStart a b 256 + 1 + m := ⟨256 - (GroupOps.findStart a b 256 + 1), by omega⟩
  have e1 : sumD 1 (dig a) 256 = sumD 1 (dig a) (GroupOps.findStart a b 256 + 1) := by
    conv => lhs; rw [hm]
    exact sumD_extend 1 _ _ m (fun i h1 h2 => (hz i (by omega) (by omega)).1)
  have e2 : sumD 1 (dig b) 256 = sumD 1 (dig b) (GroupOps.findStart a b 256 + 1) := by
    conv => lhs; rw [hm]
    exact sumD_extend 1 _ _ m (fun i h1 h2 => (hz i (by omega) (by omega)).2)
  rw [e1, e2]
  simp

/-- **C03/double-base.** `DoubleScalarMulBasepointVartime(a, A, b) = a•A + b•B` for all scalars below 2^255, given the
    64-entry table of odd multiples of `B`. -/
theorem doubleBase_correct (tB : Array G) (B : G) (hB : IsNafTable 64 tB B) (a b : Nat) (A : G)
    (ha : a < 2 ^ 255) (hb : b < 2 ^ 255) :
    (grp G).doubleScalarMulBasepointVartime tB a A b = some (a • A + b • B) := by
  unfold GroupOps.doubleScalarMulBasepointVartime
  obtain ⟨ea, da, va⟩ := naf5_ok a ha
  obtain ⟨eb, db, vb⟩ := naf8_ok b hb
  rw [ea, eb]
  simp only
  rw [doubleBase_digits _ tB A B _ _ (isNafTable_mk 8 A) hB da db, va, vb, natCast_zsmul, natCast_zsmul]

/-- the expanded variant: the table of `A` is precomputed -/
theorem expandedDoubleBase_correct (tB : Array G) (B : G) (hB : IsNafTable 64 tB B) (a b : Nat) (A : G) (tA : Array G)
    (hA : IsNafTable 8 tA A) (ha : a < 2 ^ 255) (hb : b < 2 ^ 255) :
    (grp G).expandedDoubleScalarMulBasepointVartime tB a tA b = some (a • A + b • B) := by
  unfold GroupOps.expandedDoubleScalarMulBasepointVartime
  obtain ⟨ea, da, va⟩ := naf5_ok a ha
  obtain ⟨eb, db, vb⟩ := naf8_ok b hb
  rw [ea, eb]
  simp only
  rw [doubleBase_digits tA tB A B _ _ hA hB da db, va, vb, natCast_zsmul, natCast_zsmul]

/-! ## Dispatch -/

/-- **C03/dispatch.** `MultiscalarMulVartime = Σ sᵢ•Pᵢ` whatever the Straus/Pippenger threshold is (190 in the
    library) and whatever window the size selects: the thresholds only choose between equal functions. -/
theorem dispatch_correct (threshold : Nat) (ss : List Nat) (ps : List G) (hs : ∀ s ∈ ss, s < 2 ^ 255) :
    (grp G).multiscalarMulVartime threshold ss ps = some (msum ss ps) := by
  unfold GroupOps.multiscalarMulVartime
  by_cases h : ss.length < threshold
  · rw [if_pos h]; exact strausNaf_correct ss ps hs
  · rw [if_neg h]; exact pippengerVartime_correct ss ps hs

theorem msum_append (ss ss' : List Nat) (ps ps' : List G) (h : ss.length = ps.length) :
    msum (ss ++ ss') (ps ++ ps') = msum ss ps + msum ss' ps' := by
  unfold msum
  rw [List.zip_append h, lsum_append]

/-- **C03/expanded dispatch.** `ExpandedMultiscalarMulVartime` (threshold test `>`; Pippenger on the plain points,
    expanded Straus on the precomputed tables) `= Σ static + Σ dynamic`, for every threshold. -/
theorem expandedDispatch_correct (threshold : Nat) (sss : List Nat) (sps : List (G × Array G)) (dss : List Nat)
    (dps : List G) (ht : ∀ sp ∈ sps, IsNafTable 8 sp.2 sp.1) (hlen : sss.length = sps.length)
    (hs : ∀ s ∈ sss, s < 2 ^ 255) (hd : ∀ s ∈ dss, s < 2 ^ 255) :
    (grp G).expandedMultiscalarMulVartime threshold sss sps dss dps
      = some (msum sss (sps.map (·.1)) + msum dss dps) := by
  unfold GroupOps.expandedMultiscalarMulVartime
  by_cases h : sss.length + dss.length > threshold
  · rw [if_pos h]
    simp only
    rw [pippenger_correct _ (pippengerWindow_valid _) (sss ++ dss) _
      (fun s hm => by rcases List.mem_append.1 hm with h1 | h1; exact hs s h1; exact hd s h1),
      msum_append _ _ _ _ (by simpa using hlen)]
  · rw [if_neg h, allSome_map sss _ (naf 5) (fun s h => (naf5_ok s (hs s h)).1),
      allSome_map dss _ (naf 5) (fun s h => (naf5_ok s (hd s h)).1)]
    simp only
    rw [strausNafExpanded_digits _ sps _ dps ht
      (fun a ha => by obtain ⟨s, hsm, rfl⟩ := List.mem_map.1 ha; exact (naf5_ok s (hs s hsm)).2.1)
      (fun a ha => by obtain ⟨s, hsm, rfl⟩ := List.mem_map.1 ha; exact (naf5_ok s (hd s hsm)).2.1)]
    congr 2
    · have := lsum_zip_scalars sss (sps.map (·.1)) (naf 5) (fun a => sumD 1 (dig a) 256)
        (fun s h => (naf5_ok s (hs s h)).2.2)
      rw [← this, List.zip_map_left, lsum_map]
      rfl
    · exact lsum_zip_scalars dss dps (naf 5) (fun a => sumD 1 (dig a) 256) (fun s h => (naf5_ok s (hd s h)).2.2)


/-! ## Fixed-base multiplication (32 tables × 8 entries, odd digits, ×16, even digits) -/

/-- `tbls[k][j] = ((j+1)·256^k)•B` -/
def IsBasepointTable (tbls : Array (Array G)) (B : G) : Prop :=
  ∀ k, k < 32 → ∀ j, j < 8 → (tbls.getD k #[]).getD j 0 = (((j : ℤ) + 1) * 2 ^ (8 * k)) • B

theorem basepointTableFrom_getD : ∀ n (p : G) k, k < n →
    ((grp G).basepointTableFrom n p).getD k #[] = (grp G).mkTable (((2 : ℤ) ^ (8 * k)) • p)
  | 0, _, _, h => by omega
  | n + 1, p, 0, _ => by simp [GroupOps.basepointTableFrom]
  | n + 1, p, k + 1, h => by
    simp only [GroupOps.basepointTableFrom, List.getD_cons_succ]
    rw [basepointTableFrom_getD n _ k (by omega), mulByPow2_eq, smul_smul, ← pow_add]
    congr 3

/-- the table built by `newEdwardsBasepointTableGeneric(B)` is a basepoint table of `B` -/
theorem isBasepointTable_mk (B : G) : IsBasepointTable ((grp G).mkBasepointTable B) B := by
  intro k hk j hj
  unfold GroupOps.mkBasepointTable
  have : ((grp G).basepointTableFrom 32 B).toArray.getD k #[] = ((grp G).basepointTableFrom 32 B).getD k #[] := by
    simp [Array.getD_eq_getD_getElem?, List.getD_eq_getElem?_getD]
  rw [this, basepointTableFrom_getD 32 B k hk, mkTable_getD _ j hj, smul_smul]

/-- `Σ_{k ≤ m < k+c} f m` -/
def passSum (f : Nat → ℤ) : Nat → Nat → ℤ
  | 0, _ => 0
  | c + 1, k => f k + passSum f c (k + 1)

/-- one pass over the tables: `acc + (Σ_{k ≤ m < k+fuel} a[2m+off]·256^m)•B` -/
theorem basepointPass_eq (tbls : Array (Array G)) (B : G) (a : Array Int) (off : Nat)
    (hT : IsBasepointTable tbls B) (hb : ∀ i, -8 ≤ dig a i ∧ dig a i ≤ 8) :
    ∀ fuel k acc, k + fuel ≤ 32 → (grp G).basepointPass tbls a off fuel k acc
      = acc + passSum (fun m => dig a (2 * m + off) * 2 ^ (8 * m)) fuel k • B
  | 0, k, acc, _ => by simp [GroupOps.basepointPass, passSum]
  | fuel + 1, k, acc, h => by
    simp only [GroupOps.basepointPass, grp_add]
    rw [basepointPass_eq tbls B a off hT hb fuel (k + 1) _ (by omega)]
    have hl : (grp G).lookup (tbls.getD k #[]) (a.getD (2 * k + off) 0)
        = dig a (2 * k + off) • (((2 : ℤ) ^ (8 * k)) • B) :=
      lookup_correct _ _ (fun j hj => by rw [hT k (by omega) j hj, mul_smul]) _ (hb _)
    rw [hl]
    show _ = acc + (dig a (2 * k + off) * 2 ^ (8 * k)
      + passSum (fun m => dig a (2 * m + off) * 2 ^ (8 * m)) fuel (k + 1)) • B
    module

/-- interleaving: even positions plus 16 times the odd positions is the radix-16 value -/
theorem passSum_interleave (f : Nat → ℤ) : ∀ c k,
    passSum (fun m => f (2 * m + 0) * 2 ^ (8 * m)) c k + 16 * passSum (fun m => f (2 * m + 1) * 2 ^ (8 * m)) c k
      = sumD 4 f (2 * (k + c)) - sumD 4 f (2 * k)
  | 0, k => by simp [passSum]
  | c + 1, k => by
    have ih := passSum_interleave f c (k + 1)
    have e1 : 2 * (k + (c + 1)) = 2 * (k + 1 + c) := by omega
    have e2 : sumD 4 f (2 * (k + 1)) = sumD 4 f (2 * k) + f (2 * k) * 2 ^ (4 * (2 * k))
        + f (2 * k + 1) * 2 ^ (4 * (2 * k + 1)) := rfl
    have e3 : (2 : ℤ) ^ (4 * (2 * k)) = 2 ^ (8 * k) := by congr 1; omega
    have e4 : (2 : ℤ) ^ (4 * (2 * k + 1)) = 16 * 2 ^ (8 * k) := by
      have : 4 * (2 * k + 1) = 8 * k + 4 := by omega
      rw [this, pow_add]; norm_num [mul_comm]
    simp only [passSum]
    rw [e1]
    rw [e2, e3, e4] at ih
    simp only [Nat.add_zero] at ih ⊢
    linarith

/-- **C03/fixed base (digits).** With tables `tbls[k][j] = ((j+1)·256^k)•B` and 64 digits in [-8, 8]:
    `(Σ_{i<64} dᵢ·16^i)•B`. -/
theorem basepointMul_digits (tbls : Array (Array G)) (B : G) (a : Array Int) (hT : IsBasepointTable tbls B)
    (hb : ∀ i, -8 ≤ dig a i ∧ dig a i ≤ 8) :
    (grp G).basepointMul tbls a = sumD 4 (dig a) 64 • B := by
  unfold GroupOps.basepointMul
  simp only [grp_zero]
  rw [basepointPass_eq tbls B a 0 hT hb 32 0 _ (by omega), mulByPow2_eq,
    basepointPass_eq tbls B a 1 hT hb 32 0 _ (by omega)]
  have h := passSum_interleave (dig a) 32 0
  have e0 : sumD 4 (dig a) (2 * 0) = 0 := rfl
  rw [e0, sub_zero] at h
  have e64 : 2 * (0 + 32) = 64 := rfl
  rw [e64] at h
  rw [← h]
  module

/-- **C03/fixed base.** `MulBasepoint(table, n) = n•B` for every `n < 2^255`. -/
theorem basepointMul_correct (tbls : Array (Array G)) (B : G) (hT : IsBasepointTable tbls B) (n : Nat)
    (hn : n < 2 ^ 255) : (grp G).mulBasepoint tbls n = n • B := by
  unfold GroupOps.mulBasepoint
  rw [basepointMul_digits tbls B _ hT (fun i => by have := r16_abs_le_8 n hn i; omega),
    (r16_value n (by omega)).2.1, natCast_zsmul]


/-! ## Closed forms with the tables the code builds -/

/-- `MulBasepoint` with the table built by `newEdwardsBasepointTableGeneric(B)` -/
theorem mulBasepoint_mk_correct (B : G) (n : Nat) (hn : n < 2 ^ 255) :
    (grp G).mulBasepoint ((grp G).mkBasepointTable B) n = n • B :=
  basepointMul_correct _ B (isBasepointTable_mk B) n hn

/-- `DoubleScalarMulBasepointVartime` with the 64-entry table built by `newAffineNielsPointNafLookupTable(B)` -/
theorem doubleBase_mk_correct (B : G) (a b : Nat) (A : G) (ha : a < 2 ^ 255) (hb : b < 2 ^ 255) :
    (grp G).doubleScalarMulBasepointVartime ((grp G).mkNafTable 64 B) a A b = some (a • A + b • B) :=
  doubleBase_correct _ B (isNafTable_mk 64 B) a b A ha hb

/-- `ExpandedDoubleScalarMulBasepointVartime(a, NewExpandedEdwardsPoint(A), b)` -/
theorem expandedDoubleBase_mk_correct (B : G) (a b : Nat) (A : G) (ha : a < 2 ^ 255) (hb : b < 2 ^ 255) :
    (grp G).expandedDoubleScalarMulBasepointVartime ((grp G).mkNafTable 64 B) a ((grp G).expand A).2 b
      = some (a • A + b • B) :=
  expandedDoubleBase_correct _ B (isNafTable_mk 64 B) a b A _ (isNafTable_mk 8 A) ha hb

/-- `ExpandedMultiscalarMulVartime` on points expanded by `NewExpandedEdwardsPoint` -/
theorem expandedDispatch_mk_correct (threshold : Nat) (sss : List Nat) (sps : List G) (dss : List Nat) (dps : List G)
    (hlen : sss.length = sps.length) (hs : ∀ s ∈ sss, s < 2 ^ 255) (hd : ∀ s ∈ dss, s < 2 ^ 255) :
    (grp G).expandedMultiscalarMulVartime threshold sss (sps.map (grp G).expand) dss dps
      = some (msum sss sps + msum dss dps) := by
  rw [expandedDispatch_correct threshold sss _ dss dps
    (fun sp h => by obtain ⟨P, _, rfl⟩ := List.mem_map.1 h; exact isNafTable_mk 8 P)
    (by simpa using hlen) hs hd]
  simp [GroupOps.expand, Function.comp_def]

/-! ## Instances: the hypotheses are satisfiable (G = ℤ, P = 1, so `n•P = n`) -/

section examples

/-- the table `[1, 2, …, 8]` of multiples of `1 : ℤ` -/
example : ∀ j, j < 8 → (#[1, 2, 3, 4, 5, 6, 7, 8] : Array ℤ).getD j 0 = ((j : ℤ) + 1) • (1 : ℤ) := by
  intro j hj; interval_cases j <;> rfl

example : (grp ℤ).lookup #[1, 2, 3, 4, 5, 6, 7, 8] (-5) = (-5 : ℤ) • (1 : ℤ) :=
  lookup_correct _ 1 (by intro j hj; interval_cases j <;> rfl) (-5) (by omega)

example (x : ℤ) (hx : -8 ≤ x ∧ x ≤ 8) : (grp ℤ).lookup ((grp ℤ).mkTable 1) x = x • (1 : ℤ) :=
  lookup_mkTable 1 x hx

/-- NAF-5 table `[1, 3, …, 15]`, digit `-13` -/
example : (grp ℤ).nafAdd #[1, 3, 5, 7, 9, 11, 13, 15] 100 (-13) = 100 + (-13 : ℤ) • (1 : ℤ) :=
  nafAdd_correct 8 _ 1 (by intro j hj; interval_cases j <;> rfl) 100 (-13) (Or.inr ⟨by decide, by decide⟩)

/-- NAF-8 table (64 odd multiples), digit `127` -/
example : (grp ℤ).nafAdd ((grp ℤ).mkNafTable 64 1) 0 127 = 0 + (127 : ℤ) • (1 : ℤ) :=
  nafAdd_correct 64 _ 1 (isNafTable_mk 64 1) 0 127 (Or.inr ⟨by decide, by decide⟩)

example : (grp ℤ).nafLookup ((grp ℤ).mkNafTable 8 1) 15 = ((15 : Nat) : ℤ) • (1 : ℤ) :=
  nafLookup_correct 8 _ 1 (isNafTable_mk 8 1) 15 (by decide) (by decide)

example : (grp ℤ).mulRadix16 1 (toRadix16 (2 ^ 255 - 1)) = (2 ^ 255 - 1) • (1 : ℤ) :=
  mulRadix16_correct 1 _ (by norm_num)

example : (grp ℤ).mul 1 (2 ^ 252 + 27742317777372353535851937790883648493) = (2 ^ 252 + 27742317777372353535851937790883648493) • (1 : ℤ) :=
  mul_correct 1 _ (by norm_num)

example : (grp ℤ).mulBasepoint ((grp ℤ).mkBasepointTable 1) (2 ^ 255 - 19) = (2 ^ 255 - 19) • (1 : ℤ) :=
  mulBasepoint_mk_correct 1 _ (by norm_num)

example : (grp ℤ).multiscalarMul [0, 1, 2 ^ 255 - 1] [5, 7, 11] = msum [0, 1, 2 ^ 255 - 1] [(5 : ℤ), 7, 11] :=
  strausCT_correct _ _ (by intro s hs; simp at hs; rcases hs with rfl | rfl | rfl <;> norm_num)

example : (grp ℤ).multiscalarMul [] [] = msum [] ([] : List ℤ) := strausCT_correct _ _ (by simp)

example : (grp ℤ).strausVartime [2 ^ 255 - 1, 8] [3, 1] = some (msum [2 ^ 255 - 1, 8] [(3 : ℤ), 1]) :=
  strausNaf_correct _ _ (by intro s hs; simp at hs; rcases hs with rfl | rfl <;> norm_num)

example : (grp ℤ).doubleScalarMulBasepointVartime ((grp ℤ).mkNafTable 64 1) (2 ^ 255 - 1) 7 0
    = some ((2 ^ 255 - 1) • (7 : ℤ) + 0 • (1 : ℤ)) :=
  doubleBase_mk_correct 1 _ _ 7 (by norm_num) (by norm_num)

example : (grp ℤ).pippengerVartime [2 ^ 255 - 1, 0, 12345] [1, 2, 3] = some (msum [2 ^ 255 - 1, 0, 12345] [(1 : ℤ), 2, 3]) :=
  pippengerVartime_correct _ _ (by intro s hs; simp at hs; rcases hs with rfl | rfl | rfl <;> norm_num)

/-- every window, also on the empty list -/
example (w : Nat) (hw : w = 6 ∨ w = 7 ∨ w = 8) :
    (GroupOps.allSome (([] : List Nat).map (toRadix2w w))).bind (fun ds => (grp ℤ).pippenger w ds []) = some 0 :=
  pippenger_correct w hw [] [] (by simp)

example (w : Nat) (hw : w = 6 ∨ w = 7 ∨ w = 8) :
    (GroupOps.allSome ([2 ^ 255 - 1].map (toRadix2w w))).bind (fun ds => (grp ℤ).pippenger w ds [1])
      = some (msum [2 ^ 255 - 1] [(1 : ℤ)]) :=
  pippenger_correct w hw _ _ (by intro s hs; simp at hs; subst hs; norm_num)

/-- the library's threshold, and any other -/
example (thr : Nat) : (grp ℤ).multiscalarMulVartime thr [5, 2 ^ 254] [1, -1] = some (msum [5, 2 ^ 254] [(1 : ℤ), -1]) :=
  dispatch_correct thr _ _ (by intro s hs; simp at hs; rcases hs with rfl | rfl <;> norm_num)

example : (grp ℤ).multiscalarMulVartime GroupOps.mulPippengerThreshold [] [] = some (0 : ℤ) :=
  dispatch_correct _ [] [] (by simp)

example (thr : Nat) : (grp ℤ).expandedMultiscalarMulVartime thr [3] ([10].map (grp ℤ).expand) [4, 5] [100, 1000]
    = some (msum [3] [(10 : ℤ)] + msum [4, 5] [100, 1000]) :=
  expandedDispatch_mk_correct thr _ _ _ _ rfl (by intro s hs; simp at hs; subst hs; norm_num)
    (by intro s hs; simp at hs; rcases hs with rfl | rfl <;> norm_num)

/-- the models are executable: evaluation agrees with the theorems (ℤ, kernel evaluation) -/
example : (grp ℤ).mul 3 1000003 = 3000009 := by decide +kernel
example : (grp ℤ).mulBasepoint ((grp ℤ).mkBasepointTable 1) (2 ^ 255 - 19) = 2 ^ 255 - 19 := by decide +kernel
example : (grp ℤ).multiscalarMul [2 ^ 255 - 1] [2] = 2 * (2 ^ 255 - 1) := by decide +kernel
example : (grp ℤ).multiscalarMulVartime 190 [2 ^ 255 - 1] [2] = some (2 * (2 ^ 255 - 1)) := by decide +kernel
example : (grp ℤ).multiscalarMulVartime 0 [7, 2 ^ 255 - 1] [1, 2] = some (7 + 2 * (2 ^ 255 - 1)) := by decide +kernel
example : (grp ℤ).doubleScalarMulBasepointVartime ((grp ℤ).mkNafTable 64 1) 9 5 (2 ^ 255 - 1)
    = some (45 + (2 ^ 255 - 1)) := by decide +kernel

end examples

/-! ## Axioms -/

#print axioms lookup_correct
#print axioms lookup_mkTable
#print axioms nafLookup_correct
#print axioms nafAdd_correct
#print axioms mkTable_getD
#print axioms mkNafTable_getD
#print axioms isBasepointTable_mk
#print axioms mulRadix16_digits
#print axioms mulRadix16_correct
#print axioms mul_correct
#print axioms basepointMul_digits
#print axioms basepointMul_correct
#print axioms mulBasepoint_mk_correct
#print axioms strausCT_digits
#print axioms strausCT_correct
#print axioms strausNaf_digits
#print axioms strausNaf_correct
#print axioms strausNafExpanded_digits
#print axioms doubleBase_digits
#print axioms doubleBase_correct
#print axioms doubleBase_mk_correct
#print axioms expandedDoubleBase_correct
#print axioms expandedDoubleBase_mk_correct
#print axioms bucketSumLoop_eq
#print axioms bucketSum_eq
#print axioms bucketStep_bw
#print axioms column_eq
#print axioms pippenger_digits
#print axioms pippenger_correct
#print axioms pippengerVartime_correct
#print axioms dispatch_correct
#print axioms expandedDispatch_correct
#print axioms expandedDispatch_mk_correct

end Voi.Props.C03
