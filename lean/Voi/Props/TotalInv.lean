/-
Property C19 — theorems about the total models of `Voi/Model/Total.lean`.

For ALL byte strings of ALL lengths (the quantifier of the property; stream P1 can only exhaust lengths up to a
bound):

 (1) wrong length  ⇒  error, with the receiver in its documented state      (`…_len`)
 (2) the documented-panic set is exactly a condition on lengths / options    (`…_panic`)
 (3) no model predicts a runtime panic: `Outcome` has no such constructor; the two known findings D4 / D5 are the
     only functions into `KOutcome`, and they panic exactly below 32 bytes    (`d4…`, `d5…`, `normal_not_runtime`)
 (4) whenever a decoder fails — whatever the reason — the receiver component is the documented neutral /
     untouched value                                                           (`…_err`)
 (5) the Merlin-based entry points never hit the `fault` outcome and panic exactly when a length exceeds
     2^32 − 1 (from `Props/StrobeInv.lean`).

Core Lean only; no `sorry`, no axioms beyond propext / Classical.choice / Quot.sound.
-/
import Voi.Model.Total
import Voi.Props.StrobeInv
namespace Voi.Props.TotalInv
open Voi Voi.Spec Voi.Model.Total

/-! ## the two shells -/

theorem recvDecode_len {len : Nat} {fail : Bytes} {dec : Bytes → Option Bytes} {b : Bytes}
    (h : b.size ≠ len) : recvDecode len fail dec b = .err (some fail) := by
  simp [recvDecode, h]

/-- every failure of a decoding method — wrong length or bad content — leaves `fail` in the receiver -/
theorem recvDecode_err {len : Nat} {fail : Bytes} {dec : Bytes → Option Bytes} {b : Bytes} {r : Option Bytes}
    (h : recvDecode len fail dec b = .err r) : r = some fail := by
  unfold recvDecode at h
  split at h
  · cases h; rfl
  · split at h
    · cases h
    · cases h; rfl

/-- a decoding method either fails (receiver = `fail`) or succeeds on an input of the right length that the
content check accepts -/
theorem recvDecode_cases (len : Nat) (fail : Bytes) (dec : Bytes → Option Bytes) (b : Bytes) :
    recvDecode len fail dec b = .err (some fail) ∨
    (b.size = len ∧ ∃ r, dec b = some r ∧ recvDecode len fail dec b = .ok [r]) := by
  unfold recvDecode
  by_cases h : b.size = len
  · cases hd : dec b with
    | none => left; simp [h]
    | some r => right; exact ⟨h, r, rfl, by simp [h]⟩
  · left; simp [h]

theorem recvDecode_ok {len : Nat} {fail : Bytes} {dec : Bytes → Option Bytes} {b : Bytes} {d : List Bytes}
    (h : recvDecode len fail dec b = .ok d) : b.size = len ∧ ∃ r, dec b = some r ∧ d = [r] := by
  rcases recvDecode_cases len fail dec b with h' | ⟨hl, r, hd, h'⟩
  · rw [h'] at h; cases h
  · rw [h'] at h; cases h; exact ⟨hl, r, hd, rfl⟩

theorem recvDecode_no_panic (len : Nat) (fail : Bytes) (dec : Bytes → Option Bytes) (b : Bytes) :
    recvDecode len fail dec b ≠ .panicDoc ∧ recvDecode len fail dec b ≠ .fault := by
  rcases recvDecode_cases len fail dec b with h | ⟨_, r, _, h⟩ <;> rw [h] <;> exact ⟨nofun, nofun⟩

theorem newDecode_len {len : Nat} {dec : Bytes → Option Bytes} {b : Bytes}
    (h : b.size ≠ len) : newDecode len dec b = .err none := by
  simp [newDecode, h]

theorem newDecode_cases (len : Nat) (dec : Bytes → Option Bytes) (b : Bytes) :
    newDecode len dec b = .err none ∨
    (b.size = len ∧ ∃ r, dec b = some r ∧ newDecode len dec b = .ok [r]) := by
  unfold newDecode
  by_cases h : b.size = len
  · cases hd : dec b with
    | none => left; simp [h]
    | some r => right; exact ⟨h, r, rfl, by simp [h]⟩
  · left; simp [h]

theorem newDecode_err {len : Nat} {dec : Bytes → Option Bytes} {b : Bytes} {r : Option Bytes}
    (h : newDecode len dec b = .err r) : r = none := by
  rcases newDecode_cases len dec b with h' | ⟨_, _, _, h'⟩ <;> rw [h'] at h <;> cases h; rfl

theorem newDecode_no_panic (len : Nat) (dec : Bytes → Option Bytes) (b : Bytes) :
    newDecode len dec b ≠ .panicDoc ∧ newDecode len dec b ≠ .fault := by
  rcases newDecode_cases len dec b with h | ⟨_, r, _, h⟩ <;> rw [h] <;> exact ⟨nofun, nofun⟩

theorem ofOption_no_panic (r : Option Bytes) : ofOption r ≠ .panicDoc ∧ ofOption r ≠ .fault := by
  cases r <;> exact ⟨nofun, nofun⟩

theorem ofOption_err {r : Option Bytes} {x : Option Bytes} (h : ofOption r = .err x) : x = none ∧ r = none := by
  cases r with
  | none => cases h; exact ⟨rfl, rfl⟩
  | some _ => cases h

/-! ## (1) + (4): package curve -/

theorem ceySetBytes_len (rcv0 b : Bytes) (h : b.size ≠ 32) : ceySetBytes rcv0 b = .err (some rcv0) := recvDecode_len h
theorem ceySetBytes_err {rcv0 b : Bytes} {r} (h : ceySetBytes rcv0 b = .err r) : r = some rcv0 := recvDecode_err h
/-- `SetBytes` has no content check: it fails ONLY on a wrong length -/
theorem ceySetBytes_iff (rcv0 b : Bytes) : (ceySetBytes rcv0 b).isErr = true ↔ b.size ≠ 32 := by
  unfold ceySetBytes recvDecode
  by_cases h : b.size = 32 <;> simp [h, Outcome.isErr]

theorem ceyUnmarshal_len (b : Bytes) (h : b.size ≠ 32) : ceyUnmarshal b = .err (some edIdentity) := recvDecode_len h
theorem ceyUnmarshal_err {b : Bytes} {r} (h : ceyUnmarshal b = .err r) : r = some edIdentity := recvDecode_err h
/-- success stores the input verbatim -/
theorem ceyUnmarshal_ok {b : Bytes} {d} (h : ceyUnmarshal b = .ok d) : d = [b] ∧ b.size = 32 := by
  obtain ⟨hl, r, hd, rfl⟩ := recvDecode_ok h
  simp only [edKeep, Option.map_eq_some_iff] at hd
  obtain ⟨_, _, rfl⟩ := hd
  exact ⟨rfl, hl⟩

theorem ceyNew_len (b : Bytes) (h : b.size ≠ 32) : ceyNew b = .err none := newDecode_len h
theorem epUnmarshal_len (b : Bytes) (h : b.size ≠ 32) : epUnmarshal b = .err (some edIdentity) := recvDecode_len h
theorem epUnmarshal_err {b : Bytes} {r} (h : epUnmarshal b = .err r) : r = some edIdentity := recvDecode_err h
theorem epSetCompressed_len (rcv0 b : Bytes) (h : b.size ≠ 32) : epSetCompressed rcv0 b = .err (some rcv0) := recvDecode_len h
theorem epSetCompressed_err {rcv0 b : Bytes} {r} (h : epSetCompressed rcv0 b = .err r) : r = some rcv0 := recvDecode_err h
theorem epSetMontgomery_len (rcv0 u : Bytes) (s : Nat) (h : u.size ≠ 32) : epSetMontgomery rcv0 u s = .err (some rcv0) := recvDecode_len h
theorem epSetMontgomery_err {rcv0 u : Bytes} {s : Nat} {r} (h : epSetMontgomery rcv0 u s = .err r) : r = some rcv0 := recvDecode_err h
/-- only bit 0 of the sign argument matters -/
theorem epSetMontgomery_sign (rcv0 u : Bytes) (s : Nat) : epSetMontgomery rcv0 u (s + 2) = epSetMontgomery rcv0 u s := by
  simp [epSetMontgomery]

theorem crSetBytes_len (rcv0 b : Bytes) (h : b.size ≠ 32) : crSetBytes rcv0 b = .err (some rcv0) := recvDecode_len h
theorem crSetBytes_err {rcv0 b : Bytes} {r} (h : crSetBytes rcv0 b = .err r) : r = some rcv0 := recvDecode_err h
theorem crUnmarshal_len (b : Bytes) (h : b.size ≠ 32) : crUnmarshal b = .err (some ristIdentity) := recvDecode_len h
theorem crUnmarshal_err {b : Bytes} {r} (h : crUnmarshal b = .err r) : r = some ristIdentity := recvDecode_err h
theorem rpUnmarshal_len (b : Bytes) (h : b.size ≠ 32) : rpUnmarshal b = .err (some ristIdentity) := recvDecode_len h
theorem rpUnmarshal_err {b : Bytes} {r} (h : rpUnmarshal b = .err r) : r = some ristIdentity := recvDecode_err h
theorem rpSetCompressed_len (rcv0 b : Bytes) (h : b.size ≠ 32) : rpSetCompressed rcv0 b = .err (some rcv0) := recvDecode_len h
theorem rpSetCompressed_err {rcv0 b : Bytes} {r} (h : rpSetCompressed rcv0 b = .err r) : r = some rcv0 := recvDecode_err h
theorem rpSetUniform_len (rcv0 b : Bytes) (h : b.size ≠ 64) : rpSetUniform rcv0 b = .err (some rcv0) := recvDecode_len h
theorem rpSetUniform_err {rcv0 b : Bytes} {r} (h : rpSetUniform rcv0 b = .err r) : r = some rcv0 := recvDecode_err h
/-- `SetUniformBytes` has no content check: every 64-byte string is accepted -/
theorem rpSetUniform_iff (rcv0 b : Bytes) : (rpSetUniform rcv0 b).isErr = true ↔ b.size ≠ 64 := by
  unfold rpSetUniform recvDecode Ristretto.fromUniformBytes
  by_cases h : b.size = 64 <;> simp [h, Outcome.isErr]
theorem mpSetBytes_len (rcv0 b : Bytes) (h : b.size ≠ 32) : mpSetBytes rcv0 b = .err (some rcv0) := recvDecode_len h
theorem mpSetBytes_err {rcv0 b : Bytes} {r} (h : mpSetBytes rcv0 b = .err r) : r = some rcv0 := recvDecode_err h
theorem mpSetBytes_iff (rcv0 b : Bytes) : (mpSetBytes rcv0 b).isErr = true ↔ b.size ≠ 32 := by
  unfold mpSetBytes recvDecode
  by_cases h : b.size = 32 <;> simp [h, Outcome.isErr]

/-! ## (1) + (4): package curve/scalar -/

theorem scSetModOrder_len (rcv0 b : Bytes) (h : b.size ≠ 32) : scSetModOrder rcv0 b = .err (some rcv0) := recvDecode_len h
theorem scSetModOrder_err {rcv0 b : Bytes} {r} (h : scSetModOrder rcv0 b = .err r) : r = some rcv0 := recvDecode_err h
theorem scSetModOrder_iff (rcv0 b : Bytes) : (scSetModOrder rcv0 b).isErr = true ↔ b.size ≠ 32 := by
  unfold scSetModOrder recvDecode scReduce
  by_cases h : b.size = 32 <;> simp [h, Outcome.isErr]
theorem scSetWide_len (rcv0 b : Bytes) (h : b.size ≠ 64) : scSetWide rcv0 b = .err (some rcv0) := recvDecode_len h
theorem scSetWide_err {rcv0 b : Bytes} {r} (h : scSetWide rcv0 b = .err r) : r = some rcv0 := recvDecode_err h
theorem scSetWide_iff (rcv0 b : Bytes) : (scSetWide rcv0 b).isErr = true ↔ b.size ≠ 64 := by
  unfold scSetWide recvDecode scReduce
  by_cases h : b.size = 64 <;> simp [h, Outcome.isErr]
theorem scSetCanonical_len (rcv0 b : Bytes) (h : b.size ≠ 32) : scSetCanonical rcv0 b = .err (some rcv0) := recvDecode_len h
theorem scSetCanonical_err {rcv0 b : Bytes} {r} (h : scSetCanonical rcv0 b = .err r) : r = some rcv0 := recvDecode_err h
/-- the exact error condition of `SetCanonicalBytes` -/
theorem scSetCanonical_iff (rcv0 b : Bytes) : (scSetCanonical rcv0 b).isErr = true ↔ b.size ≠ 32 ∨ ¬ leNat b < L := by
  unfold scSetCanonical recvDecode scCanonical
  by_cases h : b.size = 32 <;> by_cases h2 : leNat b < L <;> simp [h, h2, Outcome.isErr]
theorem scSetBits_len (rcv0 b : Bytes) (h : b.size ≠ 32) : scSetBits rcv0 b = .err (some rcv0) := recvDecode_len h
theorem scSetBits_err {rcv0 b : Bytes} {r} (h : scSetBits rcv0 b = .err r) : r = some rcv0 := recvDecode_err h
theorem scSetBits_iff (rcv0 b : Bytes) : (scSetBits rcv0 b).isErr = true ↔ b.size ≠ 32 := by
  unfold scSetBits recvDecode scBits
  by_cases h : b.size = 32 <;> simp [h, Outcome.isErr]
theorem scUnmarshal_len (rcv0 b : Bytes) (h : b.size ≠ 32) : scUnmarshal rcv0 b = .err (some rcv0) := recvDecode_len h
theorem scUnmarshal_err {rcv0 b : Bytes} {r} (h : scUnmarshal rcv0 b = .err r) : r = some rcv0 := recvDecode_err h
theorem scNewModOrder_len (b : Bytes) (h : b.size ≠ 32) : scNewModOrder b = .err none := newDecode_len h
theorem scNewWide_len (b : Bytes) (h : b.size ≠ 64) : scNewWide b = .err none := newDecode_len h
theorem scNewCanonical_len (b : Bytes) (h : b.size ≠ 32) : scNewCanonical b = .err none := newDecode_len h
theorem scNewBits_len (b : Bytes) (h : b.size ≠ 32) : scNewBits b = .err none := newDecode_len h
/-- `ScMinimalVartime` answers false (it neither panics nor errs) on every wrong length -/
theorem scMinimal_len (b : Bytes) (h : b.size ≠ 32) : scMinimal b = .boolean false := by
  simp [scMinimal, h]
/-- `ToBytes(out)`: an output buffer of the wrong size is left untouched -/
theorem scToBytes_len (s out : Bytes) (h : out.size ≠ 32) : scToBytes s out = .err (some out) := recvDecode_len h
theorem scToBytes_ok (s out : Bytes) (h : out.size = 32) : scToBytes s out = .ok [s] := by
  simp [scToBytes, recvDecode, h]

/-! ## (2): documented panics — recoding widths and multiscalar multiplication -/

theorem scNaf_panic (w : Nat) : scNaf w = .panicDoc ↔ w < 2 ∨ w > 8 := by
  unfold scNaf; split <;> simp_all
theorem scRadix2w_panic (w : Nat) : scRadix2w w = .panicDoc ↔ ¬ (w = 6 ∨ w = 7 ∨ w = 8) := by
  unfold scRadix2w; split <;> simp_all
theorem scRadixHint_panic (w : Nat) : scRadixHint w = .panicDoc ↔ ¬ (w = 6 ∨ w = 7 ∨ w = 8) := by
  unfold scRadixHint
  split
  · rename_i h; rcases h with h | h <;> simp [h]
  · split
    · rename_i h; simp [h]
    · rename_i h1 h2; simp; omega
theorem msmEd_panic (ns np : Nat) : msmEd ns np = .panicDoc ↔ ns ≠ np := by
  unfold msmEd; split <;> simp_all
theorem msmEdx_panic (ns np ds dp : Nat) : msmEdx ns np ds dp = .panicDoc ↔ ns ≠ np ∨ ds ≠ dp := by
  unfold msmEdx; split <;> simp_all
theorem msmRist_panic (ns np : Nat) : msmRist ns np = .panicDoc ↔ ns ≠ np := by
  unfold msmRist; split <;> simp_all
theorem msmRistx_panic (ns np ds dp : Nat) : msmRistx ns np ds dp = .panicDoc ↔ ns ≠ np ∨ ds ≠ dp := by
  unfold msmRistx; split <;> simp_all

/-! ## (2): documented panics — Ed25519 -/

/-- the default options are never rejected -/
theorem edMode_default (n : Nat) : edMode edDefault n = some none := by
  simp [edMode, edDefault, Ed25519.modeOf]

/-- `VerifyWithOptions` panics exactly when: the public key is not 32 bytes, or the options are nil, or the
options are rejected (incompatible flags, context longer than 255, unsupported hash, Ed25519ph with a message
that is not 64 bytes) -/
theorem edVerifyWithOptions_panic (o : Option EdOptions) (pk msg sig : Bytes) :
    edVerifyWithOptions o pk msg sig = .panicDoc ↔
      pk.size ≠ 32 ∨ o = none ∨ ∃ o', o = some o' ∧ edMode o' msg.size = none := by
  unfold edVerifyWithOptions
  by_cases h : pk.size = 32
  · cases o with
    | none => simp [h]
    | some o' =>
      cases hm : edMode o' msg.size with
      | none => simp [h, hm]
      | some f => simp [h, hm]
  · simp [h]

/-- `Verify` panics exactly on a public key that is not 32 bytes — whatever the message and the signature are -/
theorem edVerify_panic (pk msg sig : Bytes) : edVerify pk msg sig = .panicDoc ↔ pk.size ≠ 32 := by
  unfold edVerify
  rw [edVerifyWithOptions_panic]
  constructor
  · rintro (h | h | ⟨o', h1, h2⟩)
    · exact h
    · cases h
    · cases h1; rw [edMode_default] at h2; cases h2
  · exact Or.inl

/-- apart from the panic `Verify` only ever answers with a verdict -/
theorem edVerifyWithOptions_total (o : Option EdOptions) (pk msg sig : Bytes) :
    edVerifyWithOptions o pk msg sig = .panicDoc ∨ ∃ b, edVerifyWithOptions o pk msg sig = .boolean b := by
  unfold edVerifyWithOptions
  split
  · left; rfl
  · split
    · left; rfl
    · split
      · left; rfl
      · right; exact ⟨_, rfl⟩

/-- a signature of the wrong length is `false`, never a panic (key and options being acceptable) -/
theorem edVerify_sig_len (pk msg sig : Bytes) (hpk : pk.size = 32) (h : sig.size ≠ 64) :
    edVerify pk msg sig = .boolean false := by
  simp [edVerify, edVerifyWithOptions, hpk, edMode_default, Ed25519.verify, h]

theorem edVerifyExpandedWithOptions_panic (o : Option EdOptions) (pk msg sig : Bytes) :
    edVerifyExpandedWithOptions o pk msg sig = .panicDoc ↔
      (Pt.decode pk).isSome ∧ (o = none ∨ ∃ o', o = some o' ∧ edMode o' msg.size = none) := by
  unfold edVerifyExpandedWithOptions
  cases hd : Pt.decode pk with
  | none => simp
  | some P =>
    cases o with
    | none => simp
    | some o' =>
      cases hm : edMode o' msg.size with
      | none => simp [hm]
      | some f => simp [hm]

/-- `VerifyExpanded` (default options) never panics -/
theorem edVerifyExpanded_no_panic (pk msg sig : Bytes) : edVerifyExpanded pk msg sig ≠ .panicDoc := by
  intro h
  unfold edVerifyExpanded at h
  rw [edVerifyExpandedWithOptions_panic] at h
  rcases h with ⟨_, h | ⟨o', h1, h2⟩⟩
  · cases h
  · cases h1; rw [edMode_default] at h2; cases h2

/-- the batch API panics on nil options ONLY; everything else — key or signature of any length, rejected options —
is a verdict -/
theorem edBatchEntry_panic (o : Option EdOptions) (pk msg sig : Bytes) :
    edBatchEntry o pk msg sig = .panicDoc ↔ o = none := by
  unfold edBatchEntry
  cases o with
  | none => simp
  | some o' => cases hm : edMode o' msg.size <;> simp [hm]

theorem edBatchEntry_total (o : EdOptions) (pk msg sig : Bytes) :
    ∃ b, edBatchEntry (some o) pk msg sig = .boolean b := by
  cases hm : edMode o msg.size with
  | none => exact ⟨false, by simp [edBatchEntry, hm]⟩
  | some f => exact ⟨Ed25519.verify (edVOpts o) f o.ctx pk msg sig, by simp [edBatchEntry, hm]⟩

/-- the Spec's verification predicate is false for every public key that is not 32 bytes -/
theorem verify_pk_len (o : Ed25519.VOpts) (f : Ed25519.Dom) (ctx pk msg sig : Bytes) (h : pk.size ≠ 32) :
    Ed25519.verify o f ctx pk msg sig = false := by
  have hd : Pt.decode pk = none := by simp [Pt.decode, h]
  unfold Ed25519.verify
  split
  · rfl
  · simp only [hd]
    split <;> rfl

/-- in a batch, a public key of the wrong length is `false` -/
theorem edBatchEntry_pk_len (o : EdOptions) (pk msg sig : Bytes) (h : pk.size ≠ 32) :
    edBatchEntry (some o) pk msg sig = .boolean false := by
  cases hm : edMode o msg.size with
  | none => simp [edBatchEntry, hm]
  | some f => simp [edBatchEntry, hm, verify_pk_len _ _ _ _ _ _ h]

theorem cacheVerifyWithOptions_panic (o : Option EdOptions) (pk msg sig : Bytes) :
    cacheVerifyWithOptions o pk msg sig = .panicDoc ↔
      (Pt.decode pk).isSome ∧ (o = none ∨ ∃ o', o = some o' ∧ edMode o' msg.size = none) := by
  unfold cacheVerifyWithOptions
  cases hd : Pt.decode pk with
  | none => simp
  | some P =>
    cases o with
    | none => simp
    | some o' =>
      cases hm : edMode o' msg.size with
      | none => simp [hm]
      | some f => simp [hm]

/-- the caching verifier answers `false` — no panic — on a public key of the wrong length, even with nil options -/
theorem cacheVerifyWithOptions_pk_len (o : Option EdOptions) (pk msg sig : Bytes) (h : pk.size ≠ 32) :
    cacheVerifyWithOptions o pk msg sig = .boolean false := by
  simp [cacheVerifyWithOptions, Pt.decode, h]

theorem cacheVerify_no_panic (pk msg sig : Bytes) : cacheVerify pk msg sig ≠ .panicDoc := by
  intro h
  unfold cacheVerify at h
  rw [cacheVerifyWithOptions_panic] at h
  rcases h with ⟨_, h | ⟨o', h1, h2⟩⟩
  · cases h
  · cases h1; rw [edMode_default] at h2; cases h2

theorem edNewExpanded_len (pk : Bytes) (h : pk.size ≠ 32) : edNewExpanded pk = .err none := newDecode_len h

theorem edNewKey_panic (seed : Bytes) : edNewKey seed = .panicDoc ↔ seed.size ≠ 32 := by
  unfold edNewKey; split <;> simp_all

theorem edSign_panic (sk msg : Bytes) : edSign sk msg = .panicDoc ↔ sk.size ≠ 64 := by
  unfold edSign; split <;> simp_all

/-- `PrivateKey.Sign` panics on nil options only … -/
theorem edPkSign_panic (o : Option EdOptions) (sk msg : Bytes) : edPkSign o sk msg = .panicDoc ↔ o = none := by
  cases o with
  | none => simp [edPkSign]
  | some o' =>
    cases hm : edMode o' msg.size with
    | none => simp [edPkSign, hm]
    | some f => by_cases h : sk.size = 64 <;> simp [edPkSign, hm, h]

/-- … and reports rejected options and a private key of the wrong length as an error -/
theorem edPkSign_err (o : EdOptions) (sk msg : Bytes) :
    (edPkSign (some o) sk msg).isErr = true ↔ edMode o msg.size = none ∨ sk.size ≠ 64 := by
  cases hm : edMode o msg.size with
  | none => simp [edPkSign, hm, Outcome.isErr]
  | some f => by_cases h : sk.size = 64 <;> simp [edPkSign, hm, h, Outcome.isErr]

/-! ## ECVRF -/

theorem vrfProve_len (withY : Bool) (sk alpha : Bytes) (h : sk.size ≠ 64) : vrfProve withY sk alpha = .panicDoc := by
  simp [vrfProve, h]
/-- with a 64-byte key, `Prove` panics only if hashing to the curve fails (the Spec's `prove` returns `none`) -/
theorem vrfProve_panic (withY : Bool) (sk alpha : Bytes) :
    vrfProve withY sk alpha = .panicDoc ↔ sk.size ≠ 64 ∨ ECVRF.prove withY none sk alpha = none := by
  unfold vrfProve
  by_cases h : sk.size = 64
  · cases hp : ECVRF.prove withY none sk alpha <;> simp [h]
  · simp [h]
theorem vrfProveRnd_len (withY : Bool) (sk alpha ent : Bytes) (h : sk.size ≠ 64) :
    vrfProveRnd withY sk alpha ent = .err none := by
  simp [vrfProveRnd, h]
theorem vrfProveRnd_entropy (withY : Bool) (sk alpha ent : Bytes) (h : ent.size < 32) :
    vrfProveRnd withY sk alpha ent = .err none := by
  unfold vrfProveRnd; split <;> simp
theorem vrfProveRnd_no_panic (withY : Bool) (sk alpha ent : Bytes) : vrfProveRnd withY sk alpha ent ≠ .panicDoc := by
  unfold vrfProveRnd
  split
  · nofun
  · split
    · nofun
    · exact (ofOption_no_panic _).1
/-- `Verify` only ever returns `(true, beta)` or `(false, nil)` -/
theorem vrfVerify_total (withY : Bool) (pk pi alpha : Bytes) :
    vrfVerify withY pk pi alpha = .boolean false ∨ ∃ beta, vrfVerify withY pk pi alpha = .ok [beta] := by
  unfold vrfVerify
  cases ECVRF.verify withY pk pi alpha with
  | none => left; rfl
  | some b => right; exact ⟨b, rfl⟩
theorem vrfVerify_pk_len (withY : Bool) (pk pi alpha : Bytes) (h : pk.size ≠ 32) :
    vrfVerify withY pk pi alpha = .boolean false := by
  simp [vrfVerify, ECVRF.verify, ECVRF.stringToPoint, h]
theorem vrfHash_len (pi : Bytes) (h : pi.size ≠ 80) : vrfHash pi = .err none := by
  simp [vrfHash, h]
theorem vrfHash_no_panic (pi : Bytes) : vrfHash pi ≠ .panicDoc := by
  unfold vrfHash
  split
  · nofun
  · exact (ofOption_no_panic _).1

/-! ## (3): runtime panics -/

/-- an `Outcome` is never a runtime panic: the only way to one is the `panicRuntime` constructor of `KOutcome`,
which only the models of D4 / D5 produce -/
theorem normal_not_runtime (o : Outcome) : (KOutcome.normal o).isPanicRuntime = false := rfl

theorem d4EdPriv_panic (sk : Bytes) : d4EdPriv sk = .panicRuntime ↔ sk.size < 32 := by
  unfold d4EdPriv; split <;> simp_all
theorem d5Public_panic (sk : Bytes) : d5Public sk = .panicRuntime ↔ sk.size < 32 := by
  unfold d5Public; split <;> simp_all
theorem d5Seed_panic (sk : Bytes) : d5Seed sk = .panicRuntime ↔ sk.size < 32 := by
  unfold d5Seed; split <;> simp_all

/-! ## X25519 -/

theorem xX25519_len (k u : Bytes) (h : k.size ≠ 32 ∨ u.size ≠ 32) : xX25519 k u = .err none := by
  simp [xX25519, X25519.x25519Checked, h, ofOption]
theorem xX25519_no_panic (k u : Bytes) : xX25519 k u ≠ .panicDoc := (ofOption_no_panic _).1
theorem xX25519Base_len (k : Bytes) (h : k.size ≠ 32) : xX25519Base k = .err none := by
  simp [xX25519Base, h]
theorem xEdPub_len (pk : Bytes) (h : pk.size ≠ 32) : xEdPub pk = .boolean false := by
  simp [xEdPub, X25519.edPubToX25519, Pt.decode, h]

/-! ## hash to curve: the expanders refuse 0 and more than 65535 output bytes, and never panic -/

theorem h2cXmd_len (h : H2C.HashFn) (dst msg : Bytes) (n : Nat) (hn : n = 0 ∨ n > 65535) :
    h2cXmd h dst msg n = .err none := by
  unfold h2cXmd H2C.xmd H2C.expandMessageXmd
  split
  · rfl
  · simp [ofOption]
theorem h2cXof_len (X : H2C.XofFn) (dst msg : Bytes) (n : Nat) (hn : n = 0 ∨ n > 65535) :
    h2cXof X dst msg n = .err none := by
  simp [h2cXof, H2C.xof, H2C.expandMessageXof, hn, ofOption]
theorem h2cXmd_no_panic (h : H2C.HashFn) (dst msg : Bytes) (n : Nat) : h2cXmd h dst msg n ≠ .panicDoc :=
  (ofOption_no_panic _).1
theorem h2cXof_no_panic (X : H2C.XofFn) (dst msg : Bytes) (n : Nat) : h2cXof X dst msg n ≠ .panicDoc :=
  (ofOption_no_panic _).1
theorem h2cRO_no_panic (ex : H2C.Expander) (dst msg : Bytes) : h2cRO ex dst msg ≠ .panicDoc := (ofOption_no_panic _).1
theorem h2cNU_no_panic (ex : H2C.Expander) (dst msg : Bytes) : h2cNU ex dst msg ≠ .panicDoc := (ofOption_no_panic _).1
theorem h2cRist_no_panic (ex : H2C.Expander) (dst msg : Bytes) : h2cRist ex dst msg ≠ .panicDoc := (ofOption_no_panic _).1
/-- a hash whose output is shorter than 2k/8 = 32 bytes (SHA-224) is refused for every input -/
theorem h2cXmd_small_hash (h : H2C.HashFn) (dst msg : Bytes) (n : Nat) (hb : h.b < 32) :
    h2cXmd h dst msg n = .err none := by
  have : h.b < 2 * H2C.kSuite / 8 := by simpa [H2C.kSuite] using hb
  simp [h2cXmd, H2C.xmd, H2C.expandMessageXmd, this, ofOption]

/-! ## (5) Merlin: no fault, panic exactly above 2^32 − 1, `Finalize` errs exactly on short entropy -/

section Merlin
open Voi.Spec.Merlin Voi.Props.StrobeInv

theorem appendMessage_tooLong (t : Transcript) (label msg : List UInt8)
    (h : label.length > maxUint32 ∨ msg.length > maxUint32) : appendMessage t label msg = .error .tooLong := by
  unfold appendMessage
  split
  · rfl
  · split
    · rfl
    · omega

theorem extractBytes_tooLong (t : Transcript) (label : List UInt8) (n : Nat)
    (h : label.length > maxUint32 ∨ n > maxUint32) : extractBytes t label n = .error .tooLong := by
  unfold extractBytes
  split
  · rfl
  · split
    · rfl
    · omega

theorem newTranscript_tooLong (app : List UInt8) (h : app.length > maxUint32) : newTranscript app = .error .tooLong := by
  obtain ⟨s, e, _⟩ := new_ok merlinProtocolLabel
  unfold newTranscript
  rw [e]
  exact appendMessage_tooLong _ _ _ (Or.inr h)

/-- all lengths within 2^32 − 1 (the only case a 64-bit Go program can reach with less than 4 GiB of input):
the call sequence returns normally with exactly `n` bytes -/
theorem mSeq_ok (app label msg elabel : List UInt8) (n : Nat)
    (ha : app.length ≤ maxUint32) (hl : label.length ≤ maxUint32) (hm : msg.length ≤ maxUint32)
    (he : elabel.length ≤ maxUint32) (hn : n ≤ maxUint32) :
    ∃ out, mSeq app label msg elabel n = .ok [Sr25519.ofL out] ∧ out.length = n := by
  obtain ⟨t0, e0, v0⟩ := newTranscript_ok app ha
  obtain ⟨t1, e1, v1⟩ := appendMessage_ok t0 label msg v0 hl hm
  obtain ⟨t2, out, e2, _, l2⟩ := extractBytes_ok t1 elabel n v1 he hn
  refine ⟨out, ?_, l2⟩
  unfold mSeq
  rw [e0]; simp only []
  rw [e1]; simp only []
  rw [e2]

/-- the documented panic of the Merlin entry points: exactly when a length exceeds 2^32 − 1 -/
theorem mSeq_panic (app label msg elabel : List UInt8) (n : Nat) :
    mSeq app label msg elabel n = .panicDoc ↔
      ¬ (app.length ≤ maxUint32 ∧ label.length ≤ maxUint32 ∧ msg.length ≤ maxUint32 ∧
         elabel.length ≤ maxUint32 ∧ n ≤ maxUint32) := by
  constructor
  · rintro h ⟨ha, hl, hm, he, hn⟩
    obtain ⟨out, e, _⟩ := mSeq_ok app label msg elabel n ha hl hm he hn
    rw [e] at h; cases h
  · intro h
    by_cases ha : app.length ≤ maxUint32
    · obtain ⟨t0, e0, v0⟩ := newTranscript_ok app ha
      by_cases hlm : label.length ≤ maxUint32 ∧ msg.length ≤ maxUint32
      · obtain ⟨t1, e1, v1⟩ := appendMessage_ok t0 label msg v0 hlm.1 hlm.2
        have hx : elabel.length > maxUint32 ∨ n > maxUint32 := by omega
        unfold mSeq
        rw [e0]; simp only []
        rw [e1]; simp only []
        rw [extractBytes_tooLong t1 elabel n hx]
        rfl
      · have hx : label.length > maxUint32 ∨ msg.length > maxUint32 := by omega
        unfold mSeq
        rw [e0]; simp only []
        rw [appendMessage_tooLong t0 label msg hx]
        rfl
    · unfold mSeq
      rw [newTranscript_tooLong app (by omega)]
      rfl

/-- the model of the call sequence never reaches the `fault` outcome: STROBE's index arithmetic stays in range -/
theorem mSeq_no_fault (app label msg elabel : List UInt8) (n : Nat) : mSeq app label msg elabel n ≠ .fault := by
  by_cases h : app.length ≤ maxUint32 ∧ label.length ≤ maxUint32 ∧ msg.length ≤ maxUint32 ∧
      elabel.length ≤ maxUint32 ∧ n ≤ maxUint32
  · obtain ⟨out, e, _⟩ := mSeq_ok app label msg elabel n h.1 h.2.1 h.2.2.1 h.2.2.2.1 h.2.2.2.2
    rw [e]; nofun
  · rw [(mSeq_panic app label msg elabel n).mpr h]; nofun

theorem rekey_tooLong (rb : RngBuilder) (label witness : List UInt8)
    (h : label.length > maxUint32 ∨ witness.length > maxUint32) :
    rekeyWithWitnessBytes rb label witness = .error .tooLong := by
  unfold rekeyWithWitnessBytes
  split
  · rfl
  · split
    · rfl
    · omega

/-- the RNG path: with all lengths in range, `Finalize` fails (an error, not a panic) exactly when the entropy
source yields fewer than 32 bytes, and otherwise `Read` returns exactly `n` bytes -/
theorem mRng_ok (app wlabel witness entropy : List UInt8) (n : Nat)
    (ha : app.length ≤ maxUint32) (hl : wlabel.length ≤ maxUint32) (hw : witness.length ≤ maxUint32)
    (hn : n ≤ maxUint32) :
    (entropy.length < 32 → mRng app wlabel witness entropy n = .err none) ∧
    (32 ≤ entropy.length → ∃ out, mRng app wlabel witness entropy n = .ok [Sr25519.ofL out] ∧ out.length = n) := by
  obtain ⟨t0, e0, v0⟩ := newTranscript_ok app ha
  obtain ⟨s1, e1, v1⟩ := rekey_ok t0.s wlabel witness v0 hl hw
  have e1' : rekeyWithWitnessBytes (buildRng t0) wlabel witness = .ok { s := some s1 } := e1
  constructor
  · intro he
    have : finalize { s := some s1 } entropy = .error .entropy := by
      unfold finalize
      rw [if_pos he]
    unfold mRng
    rw [e0]; simp only []
    rw [e1']; simp only []
    rw [this]
    rfl
  · intro he
    obtain ⟨s2, e2, v2⟩ := finalize_ok s1 entropy v1 he
    obtain ⟨r3, out, e3, _, l3⟩ := read_ok { s := s2 } n v2 hn
    refine ⟨out, ?_, l3⟩
    unfold mRng
    rw [e0]; simp only []
    rw [e1']; simp only []
    rw [e2]; simp only []
    rw [e3]

theorem mRng_no_fault (app wlabel witness entropy : List UInt8) (n : Nat)
    (ha : app.length ≤ maxUint32) (hl : wlabel.length ≤ maxUint32) (hw : witness.length ≤ maxUint32)
    (hn : n ≤ maxUint32) : mRng app wlabel witness entropy n ≠ .fault ∧ mRng app wlabel witness entropy n ≠ .panicDoc := by
  obtain ⟨h1, h2⟩ := mRng_ok app wlabel witness entropy n ha hl hw hn
  by_cases he : entropy.length < 32
  · rw [h1 he]; exact ⟨nofun, nofun⟩
  · obtain ⟨out, e, _⟩ := h2 (by omega)
    rw [e]; exact ⟨nofun, nofun⟩

end Merlin

/-! ## sr25519 decoders: wrong length ⇒ error with the documented receiver state; the explicit length check of the
shell agrees with `Spec.Sr25519` (it is redundant there); every failure leaves the documented state -/

section Sr
open Voi.Spec.Sr25519

theorem srSigUnmarshal_len (old : Option Signature) (b : Bytes) (h : b.size ≠ 64) :
    srSigUnmarshal old b = .err (some (marshalSignature none)) := by simp [srSigUnmarshal, h]
theorem srPkUnmarshal_len (old : Option PublicKey) (b : Bytes) (h : b.size ≠ 32) :
    srPkUnmarshal old b = .err (some (marshalPublicKey none)) := by simp [srPkUnmarshal, h]
theorem srSkUnmarshal_len (old : Option SecretKey) (b : Bytes) (h : b.size ≠ 64) :
    srSkUnmarshal old b = .err (some (marshalSecretKey old)) := by simp [srSkUnmarshal, h]
theorem srKpUnmarshal_len (old : Option KeyPair) (b : Bytes) (h : b.size ≠ 96) :
    srKpUnmarshal old b = .err (some (marshalKeyPair none)) := by simp [srKpUnmarshal, h]
theorem srMskUnmarshal_len (old : Option Bytes) (b : Bytes) (h : b.size ≠ 32) :
    srMskUnmarshal old b = .err (some (marshalMiniSecretKey old)) := by simp [srMskUnmarshal, h]

/-- the shell's length check agrees with the Spec's decoder (the Spec rejects the same lengths) -/
theorem srSigUnmarshal_spec (old : Option Signature) (b : Bytes) :
    srSigUnmarshal old b = srRecv Signature.unmarshalInto marshalSignature old b := by
  unfold srSigUnmarshal
  split
  · rename_i h; simp [srRecv, Signature.unmarshalInto, decodeSignature, h]
  · rfl
theorem srPkUnmarshal_spec (old : Option PublicKey) (b : Bytes) :
    srPkUnmarshal old b = srRecv PublicKey.unmarshalInto marshalPublicKey old b := by
  unfold srPkUnmarshal
  split
  · rename_i h; simp [srRecv, PublicKey.unmarshalInto, decodePublicKey, h]
  · rfl
theorem srSkUnmarshal_spec (old : Option SecretKey) (b : Bytes) :
    srSkUnmarshal old b = srRecv SecretKey.unmarshalInto marshalSecretKey old b := by
  unfold srSkUnmarshal
  split
  · rename_i h; simp [srRecv, SecretKey.unmarshalInto, decodeSecretKey, h]
  · rfl
theorem srKpUnmarshal_spec (old : Option KeyPair) (b : Bytes) :
    srKpUnmarshal old b = srRecv KeyPair.unmarshalInto marshalKeyPair old b := by
  unfold srKpUnmarshal
  split
  · rename_i h; simp [srRecv, KeyPair.unmarshalInto, decodeKeyPair, h]
  · rfl
theorem srMskUnmarshal_spec (old : Option Bytes) (b : Bytes) :
    srMskUnmarshal old b = srRecv MiniSecretKey.unmarshalInto marshalMiniSecretKey old b := by
  unfold srMskUnmarshal
  split
  · rename_i h; simp [srRecv, MiniSecretKey.unmarshalInto, decodeMiniSecretKey, h]
  · rfl

/-- EVERY failed `Signature.UnmarshalBinary` (length, marker bit, non-canonical scalar) leaves the zero signature -/
theorem srSigUnmarshal_err {old : Option Signature} {b : Bytes} {r} (h : srSigUnmarshal old b = .err r) :
    r = some (marshalSignature none) := by
  rw [srSigUnmarshal_spec] at h
  unfold srRecv Signature.unmarshalInto at h
  cases hd : decodeSignature b with
  | none => simp [hd] at h; exact h.symm
  | some s => simp [hd] at h
theorem srPkUnmarshal_err {old : Option PublicKey} {b : Bytes} {r} (h : srPkUnmarshal old b = .err r) :
    r = some (marshalPublicKey none) := by
  rw [srPkUnmarshal_spec] at h
  unfold srRecv PublicKey.unmarshalInto at h
  cases hd : decodePublicKey b with
  | none => simp [hd] at h; exact h.symm
  | some s => simp [hd] at h
theorem srKpUnmarshal_err {old : Option KeyPair} {b : Bytes} {r} (h : srKpUnmarshal old b = .err r) :
    r = some (marshalKeyPair none) := by
  rw [srKpUnmarshal_spec] at h
  unfold srRecv KeyPair.unmarshalInto at h
  cases hd : decodeKeyPair b with
  | none => simp [hd] at h; exact h.symm
  | some s => simp [hd] at h
/-- `SecretKey` / `MiniSecretKey` are NOT reset: a failed decode leaves the old value -/
theorem srSkUnmarshal_err {old : Option SecretKey} {b : Bytes} {r} (h : srSkUnmarshal old b = .err r) :
    r = some (marshalSecretKey old) := by
  rw [srSkUnmarshal_spec] at h
  unfold srRecv SecretKey.unmarshalInto at h
  cases hd : decodeSecretKey b with
  | none => simp [hd] at h; exact h.symm
  | some s => simp [hd] at h
theorem srMskUnmarshal_err {old : Option Bytes} {b : Bytes} {r} (h : srMskUnmarshal old b = .err r) :
    r = some (marshalMiniSecretKey old) := by
  rw [srMskUnmarshal_spec] at h
  unfold srRecv MiniSecretKey.unmarshalInto at h
  cases hd : decodeMiniSecretKey b with
  | none => simp [hd] at h; exact h.symm
  | some s => simp [hd] at h

theorem srSigNew_len (b : Bytes) (h : b.size ≠ 64) : srSigNew b = .err none := by simp [srSigNew, h]
theorem srPkNew_len (b : Bytes) (h : b.size ≠ 32) : srPkNew b = .err none := by simp [srPkNew, h]
theorem srSkNew_len (b : Bytes) (h : b.size ≠ 64) : srSkNew b = .err none := by simp [srSkNew, h]
theorem srSkEdNew_len (b : Bytes) (h : b.size ≠ 64) : srSkEdNew b = .err none := by simp [srSkEdNew, h]
theorem srKpNew_len (b : Bytes) (h : b.size ≠ 96) : srKpNew b = .err none := by simp [srKpNew, h]
theorem srMskNew_len (b : Bytes) (h : b.size ≠ 32) : srMskNew b = .err none := by simp [srMskNew, h]

open Voi.Spec.Merlin Voi.Props.StrobeInv in
theorem toL_length (b : Bytes) : (Sr25519.toL b).length = b.size := by
  simp [Sr25519.toL]

open Voi.Spec.Merlin Voi.Props.StrobeInv in
theorem commitBytes_ok (t : Transcript) (label : String) (b : Bytes) (v : Valid t.s)
    (hl : (lb label).length ≤ maxUint32) (hb : b.size ≤ maxUint32) :
    ∃ t', commitBytes t label b = .ok t' ∧ Valid t'.s :=
  appendMessage_ok t (lb label) (Sr25519.toL b) v hl (by rw [toL_length]; exact hb)

open Voi.Spec.Merlin Voi.Props.StrobeInv in
/-- `NewSigningContext` returns normally for every context a Go program can hold -/
theorem newSigningContext_ok (ctx : Bytes) (h : ctx.size ≤ maxUint32) :
    ∃ sc, newSigningContext ctx = .ok sc ∧ Valid sc.s := by
  have h14 : (lb "SigningContext").length = 14 := by rfl
  obtain ⟨t0, e0, v0⟩ := newTranscript_ok (lb "SigningContext") (by rw [h14]; unfold maxUint32; omega)
  obtain ⟨t1, e1, v1⟩ := appendMessage_ok t0 [] (Sr25519.toL ctx) v0 (by simp) (by rw [toL_length]; exact h)
  refine ⟨t1, ?_, v1⟩
  unfold newSigningContext
  rw [e0]
  exact e1

open Voi.Spec.Merlin Voi.Props.StrobeInv in
theorem newTranscriptBytes_ok (sc : Transcript) (msg : Bytes) (v : Valid sc.s) (h : msg.size ≤ maxUint32) :
    ∃ t, newTranscriptBytes sc msg = .ok t ∧ Valid t.s := by
  have h10 : (lb "sign-bytes").length = 10 := by rfl
  obtain ⟨t1, e1, v1⟩ := appendMessage_ok sc.clone (lb "sign-bytes") (Sr25519.toL msg) v
    (by rw [h10]; unfold maxUint32; omega) (by rw [toL_length]; exact h)
  refine ⟨t1, ?_, v1⟩
  unfold newTranscriptBytes
  rw [e1]
  rfl

open Voi.Spec.Merlin Voi.Props.StrobeInv in
theorem deriveVerifyChallengeScalar_ok (pk : PublicKey) (t : Transcript) (sig : Signature) (v : Valid t.s)
    (hp : pk.compressed.size ≤ maxUint32) (hr : sig.r.size ≤ maxUint32) :
    ∃ k, deriveVerifyChallengeScalar pk t sig = .ok k := by
  have l1 : (lb "proto-name").length = 10 := by rfl
  have l2 : (lb "sign:pk").length = 7 := by rfl
  have l3 : (lb "sign:R").length = 6 := by rfl
  have l4 : (lb "sign:c").length = 6 := by rfl
  have l5 : protoLabel.size = 11 := by rfl
  obtain ⟨t1, e1, v1⟩ := commitBytes_ok t.clone "proto-name" protoLabel v (by rw [l1]; unfold maxUint32; omega)
    (by rw [l5]; unfold maxUint32; omega)
  obtain ⟨t2, e2, v2⟩ := commitBytes_ok t1 "sign:pk" pk.compressed v1 (by rw [l2]; unfold maxUint32; omega) hp
  obtain ⟨t3, e3, v3⟩ := commitBytes_ok t2 "sign:R" sig.r v2 (by rw [l3]; unfold maxUint32; omega) hr
  obtain ⟨t4, out, e4, _, _⟩ := extractBytes_ok t3 (lb "sign:c") 64 v3 (by rw [l4]; unfold maxUint32; omega)
    (by unfold maxUint32; omega)
  refine ⟨scalarFromWide out, ?_⟩
  unfold deriveVerifyChallengeScalar signingPrefix challengeScalar
  rw [e1]
  show (do let t ← (do commitBytes t1 "sign:pk" pk.compressed); _) = _
  rw [e2]
  show (do let t ← commitBytes t2 "sign:R" sig.r; _) = _
  rw [e3]
  show (do let x ← (do let x ← extractBytes t3 (lb "sign:c") 64; _); _) = _
  rw [e4]
  rfl
open Voi.Spec.Merlin Voi.Props.StrobeInv in
theorem verify_ok (pk : PublicKey) (t : Transcript) (sig : Signature) (v : Valid t.s)
    (hp : pk.compressed.size ≤ maxUint32) (hr : sig.r.size ≤ maxUint32) :
    ∃ b, Sr25519.verify pk t sig = .ok b := by
  unfold Sr25519.verify
  cases Ristretto.decode sig.r with
  | none => exact ⟨false, rfl⟩
  | some R =>
    obtain ⟨k, e⟩ := deriveVerifyChallengeScalar_ok pk t sig v hp hr
    refine ⟨verifyEquation k pk.point sig.s R, ?_⟩
    show (do let k ← deriveVerifyChallengeScalar pk t sig; _) = _
    rw [e]
    rfl

/-- what `UnmarshalBinary` leaves in a zero-value receiver is either the zero value or the input itself -/
theorem pk_unmarshal_compressed {pk : Bytes} {k : PublicKey} (h : (PublicKey.unmarshalInto none pk).1 = some k) :
    k.compressed = pk ∧ pk.size = 32 := by
  unfold PublicKey.unmarshalInto decodePublicKey at h
  by_cases hl : pk.size = 32
  · cases hd : Ristretto.decode pk with
    | none => simp [hl, hd] at h
    | some A => simp [hl, hd] at h; subst h; exact ⟨rfl, hl⟩
  · simp [hl] at h

theorem sig_unmarshal_r {sig : Bytes} {s : Signature} (h : (Signature.unmarshalInto none sig).1 = some s) :
    s.r.size ≤ 32 ∧ sig.size = 64 := by
  unfold Signature.unmarshalInto at h
  cases hd : decodeSignature sig with
  | none => simp [hd] at h
  | some s' =>
    simp [hd] at h
    subst h
    unfold decodeSignature at hd
    by_cases hl : sig.size = 64
    · simp only [hl, ne_eq, not_true_eq_false, if_false] at hd
      split at hd
      · cases hd
      · split at hd
        · cases hd
        · cases hd
          refine ⟨?_, hl⟩
          simp [bslice, ByteArray.size_extract]
          omega
    · simp [hl] at hd

open Voi.Spec.Merlin Voi.Props.StrobeInv in
/-- `sr25519` verification — context, message, public key and signature bytes of ANY length (below Merlin's 4 GiB
limit for the first two): the call sequence `NewSigningContext`, `NewTranscriptBytes`, `UnmarshalBinary` ×2 (errors
ignored), `Verify` returns a verdict: no panic, no fault -/
theorem srVerify_total (ctx msg pk sig : Bytes) (hc : ctx.size ≤ maxUint32) (hm : msg.size ≤ maxUint32) :
    ∃ b, srVerify ctx msg pk sig = .boolean b := by
  obtain ⟨sc, e0, v0⟩ := newSigningContext_ok ctx hc
  obtain ⟨t, e1, v1⟩ := newTranscriptBytes_ok sc msg v0 hm
  have hv : ∃ b, verifyRecv (PublicKey.unmarshalInto none pk).1 t (Signature.unmarshalInto none sig).1 = .ok b := by
    cases hk : (PublicKey.unmarshalInto none pk).1 with
    | none => exact ⟨false, by simp [verifyRecv]⟩
    | some k =>
      cases hs : (Signature.unmarshalInto none sig).1 with
      | none => exact ⟨false, by simp [verifyRecv]⟩
      | some s =>
        obtain ⟨hk1, hk2⟩ := pk_unmarshal_compressed hk
        obtain ⟨hs1, _⟩ := sig_unmarshal_r hs
        exact verify_ok k t s v1 (by rw [hk1, hk2]; unfold maxUint32; omega) (by unfold maxUint32; omega)
  obtain ⟨b, eb⟩ := hv
  refine ⟨b, ?_⟩
  unfold srVerify
  simp only []
  rw [e0]; simp only []
  rw [e1]; simp only []
  rw [eb]

open Voi.Spec.Merlin Voi.Props.StrobeInv in
/-- … and the verdict is `false` whenever the public key is not 32 bytes or the signature is not 64 bytes -/
theorem srVerify_bad_len (ctx msg pk sig : Bytes) (hc : ctx.size ≤ maxUint32) (hm : msg.size ≤ maxUint32)
    (h : pk.size ≠ 32 ∨ sig.size ≠ 64) : srVerify ctx msg pk sig = .boolean false := by
  obtain ⟨sc, e0, v0⟩ := newSigningContext_ok ctx hc
  obtain ⟨t, e1, v1⟩ := newTranscriptBytes_ok sc msg v0 hm
  have hv : verifyRecv (PublicKey.unmarshalInto none pk).1 t (Signature.unmarshalInto none sig).1 = .ok false := by
    rcases h with h | h
    · have : (PublicKey.unmarshalInto none pk).1 = none := by simp [PublicKey.unmarshalInto, decodePublicKey, h]
      rw [this]; simp [verifyRecv]
    · have : (Signature.unmarshalInto none sig).1 = none := by simp [Signature.unmarshalInto, decodeSignature, h]
      rw [this]
      unfold verifyRecv
      split <;> simp_all
  unfold srVerify
  simp only []
  rw [e0]; simp only []
  rw [e1]; simp only []
  rw [hv]


end Sr

/-! ## axiom audit -/
#print axioms recvDecode_len
#print axioms recvDecode_err
#print axioms recvDecode_cases
#print axioms recvDecode_ok
#print axioms recvDecode_no_panic
#print axioms newDecode_len
#print axioms newDecode_cases
#print axioms newDecode_err
#print axioms newDecode_no_panic
#print axioms ofOption_no_panic
#print axioms ofOption_err
#print axioms ceySetBytes_len
#print axioms ceySetBytes_err
#print axioms ceySetBytes_iff
#print axioms ceyUnmarshal_len
#print axioms ceyUnmarshal_err
#print axioms ceyUnmarshal_ok
#print axioms ceyNew_len
#print axioms epUnmarshal_len
#print axioms epUnmarshal_err
#print axioms epSetCompressed_len
#print axioms epSetCompressed_err
#print axioms epSetMontgomery_len
#print axioms epSetMontgomery_err
#print axioms epSetMontgomery_sign
#print axioms crSetBytes_len
#print axioms crSetBytes_err
#print axioms crUnmarshal_len
#print axioms crUnmarshal_err
#print axioms rpUnmarshal_len
#print axioms rpUnmarshal_err
#print axioms rpSetCompressed_len
#print axioms rpSetCompressed_err
#print axioms rpSetUniform_len
#print axioms rpSetUniform_err
#print axioms rpSetUniform_iff
#print axioms mpSetBytes_len
#print axioms mpSetBytes_err
#print axioms mpSetBytes_iff
#print axioms scSetModOrder_len
#print axioms scSetModOrder_err
#print axioms scSetModOrder_iff
#print axioms scSetWide_len
#print axioms scSetWide_err
#print axioms scSetWide_iff
#print axioms scSetCanonical_len
#print axioms scSetCanonical_err
#print axioms scSetCanonical_iff
#print axioms scSetBits_len
#print axioms scSetBits_err
#print axioms scSetBits_iff
#print axioms scUnmarshal_len
#print axioms scUnmarshal_err
#print axioms scNewModOrder_len
#print axioms scNewWide_len
#print axioms scNewCanonical_len
#print axioms scNewBits_len
#print axioms scMinimal_len
#print axioms scToBytes_len
#print axioms scToBytes_ok
#print axioms scNaf_panic
#print axioms scRadix2w_panic
#print axioms scRadixHint_panic
#print axioms msmEd_panic
#print axioms msmEdx_panic
#print axioms msmRist_panic
#print axioms msmRistx_panic
#print axioms edMode_default
#print axioms edVerifyWithOptions_panic
#print axioms edVerify_panic
#print axioms edVerifyWithOptions_total
#print axioms edVerify_sig_len
#print axioms edVerifyExpandedWithOptions_panic
#print axioms edVerifyExpanded_no_panic
#print axioms edBatchEntry_panic
#print axioms edBatchEntry_total
#print axioms verify_pk_len
#print axioms edBatchEntry_pk_len
#print axioms cacheVerifyWithOptions_panic
#print axioms cacheVerifyWithOptions_pk_len
#print axioms cacheVerify_no_panic
#print axioms edNewExpanded_len
#print axioms edNewKey_panic
#print axioms edSign_panic
#print axioms edPkSign_panic
#print axioms edPkSign_err
#print axioms vrfProve_len
#print axioms vrfProve_panic
#print axioms vrfProveRnd_len
#print axioms vrfProveRnd_entropy
#print axioms vrfProveRnd_no_panic
#print axioms vrfVerify_total
#print axioms vrfVerify_pk_len
#print axioms vrfHash_len
#print axioms vrfHash_no_panic
#print axioms normal_not_runtime
#print axioms d4EdPriv_panic
#print axioms d5Public_panic
#print axioms d5Seed_panic
#print axioms xX25519_len
#print axioms xX25519_no_panic
#print axioms xX25519Base_len
#print axioms xEdPub_len
#print axioms h2cXmd_len
#print axioms h2cXof_len
#print axioms h2cXmd_no_panic
#print axioms h2cXof_no_panic
#print axioms h2cRO_no_panic
#print axioms h2cNU_no_panic
#print axioms h2cRist_no_panic
#print axioms h2cXmd_small_hash
#print axioms appendMessage_tooLong
#print axioms extractBytes_tooLong
#print axioms newTranscript_tooLong
#print axioms mSeq_ok
#print axioms mSeq_panic
#print axioms mSeq_no_fault
#print axioms rekey_tooLong
#print axioms mRng_ok
#print axioms mRng_no_fault
#print axioms srSigUnmarshal_len
#print axioms srPkUnmarshal_len
#print axioms srSkUnmarshal_len
#print axioms srKpUnmarshal_len
#print axioms srMskUnmarshal_len
#print axioms srSigUnmarshal_spec
#print axioms srPkUnmarshal_spec
#print axioms srSkUnmarshal_spec
#print axioms srKpUnmarshal_spec
#print axioms srMskUnmarshal_spec
#print axioms srSigUnmarshal_err
#print axioms srPkUnmarshal_err
#print axioms srKpUnmarshal_err
#print axioms srSkUnmarshal_err
#print axioms srMskUnmarshal_err
#print axioms srSigNew_len
#print axioms srPkNew_len
#print axioms srSkNew_len
#print axioms srSkEdNew_len
#print axioms srKpNew_len
#print axioms srMskNew_len
#print axioms toL_length
#print axioms commitBytes_ok
#print axioms newSigningContext_ok
#print axioms newTranscriptBytes_ok
#print axioms deriveVerifyChallengeScalar_ok
#print axioms verify_ok
#print axioms pk_unmarshal_compressed
#print axioms sig_unmarshal_r
#print axioms srVerify_total
#print axioms srVerify_bad_len

end Voi.Props.TotalInv
