/-
Property C02 — signing is RFC 8032-exact and always verifiable (the part that is mathematics, over the interface of
`Voi.Model.Ed25519`; the byte-for-byte equality of keys and signatures with RFC 8032 is stream K1).

  * `sign_concrete`      `Voi.Spec.Ed25519.sign` (what K1 compares with `PrivateKey.Sign`) is `SpecG.signWith concrete`
                         applied to the clamped scalar and the hashed nonce — by unfolding;
  * `sign_complete`      for EVERY secret scalar `a`, EVERY nonce `r` (hence also with added randomness), every
                         message, dom flag and context, the signature `encode(r•B) ‖ (r + k·a) mod L` satisfies the
                         specification predicate under EVERY option set — cofactored and cofactorless — with exactly
                         two side conditions: `hA` (A is not of small order if the options forbid that) and `hR`
                         (R = r•B is not of small order, i.e. `r ≢ 0 (mod L)`, if the options forbid that);
                         `sign_complete_model`: the same for the code-shaped `Model.verify` (via C01);
  * `clamp_not_dvd`      a clamped scalar is never `≡ 0 (mod L)`, so `hA` always holds for library keys once B has
                         order exactly L (`not_smallOrder_of_order`);
  * `sign_S_canonical`   the signature is 64 bytes, `S < L`, the R bytes are canonical;
  * `S_unique`           for fixed R bytes, key and message at most one `S < L` verifies (any option set) when B has
                         order exactly L; `flip_S_rejected`: changing any bit of the S half of an accepted signature
                         makes verification fail;
  * `mode_eq_modeOf`, `modeOf_*`   option errors: context > 255, pre-hash with |msg| ≠ 64, unsupported hash,
                         incompatible flags ⇒ no mode (error / documented panic), never a signature.

What is NOT a theorem (and cannot be): that changing the message, the key, the context or an R bit makes verification
fail — that is collision resistance of SHA-512.

No `sorry`, no `axiom`, no `native_decide`.
-/
import Voi.Props.C01
import Voi.Props.BytesLemmas

namespace Voi.Props.C02
open Voi Voi.Spec Voi.Model.Ed25519 Voi.Props.C01
open Voi.Spec.Ed25519 (VOpts Dom dom2 modeOf clamp)

/-! ## `Spec.Ed25519.sign` is `SpecG.signWith concrete` -/

/-- the nonce of `PrivateKey.Sign`: `r = H(dom2 ‖ [Z] ‖ prefix ‖ [padding] ‖ M) mod L` -/
def nonce (f : Dom) (ctx : Bytes) (entropy : Option Bytes) (priv msg : Bytes) : Nat :=
  let h := sha512 (bslice priv 0 32)
  let pfx := bslice h 32 32
  let d := dom2 f ctx
  let rIn := match entropy with
    | none => d ++ pfx ++ msg
    | some z => d ++ z ++ pfx ++ bzero (1024 - (d.size + 32 + 32)) ++ msg
  leNat (sha512 rIn) % L

section Concrete
attribute [local irreducible] Pt.smul Pt.encode leNat sha512 dom2 Pt.B bslice natLE bzero clamp

theorem sign_concrete (f : Dom) (ctx : Bytes) (entropy : Option Bytes) (priv msg : Bytes) :
    Voi.Spec.Ed25519.sign f ctx entropy priv msg
      = SpecG.signWith concrete f ctx (clamp (sha512 (bslice priv 0 32))) (nonce f ctx entropy priv msg)
          (bslice priv 32 32) msg := by
  cases entropy <;> rfl
end Concrete

/-! ## Completeness -/

section Complete
variable (I : EdIface) [AddCommGroup I.G]

/-- the three byte-level facts about a produced signature -/
theorem signWith_slices (h : Laws I) (f : Dom) (ctx : Bytes) (a r : ℕ) (pk msg : Bytes) :
    (SpecG.signWith I f ctx a r pk msg).size = 64 ∧
    bslice (SpecG.signWith I f ctx a r pk msg) 0 32 = I.encode (r • I.B) ∧
    leNat (bslice (SpecG.signWith I f ctx a r pk msg) 32 32)
      = (r + SpecG.challenge I f ctx (I.encode (r • I.B)) pk msg * a) % I.L := by
  unfold SpecG.signWith
  simp only [h.smul_eq]
  have hlt : (r + SpecG.challenge I f ctx (I.encode (r • I.B)) pk msg * a) % I.L < I.L :=
    Nat.mod_lt _ h.L_prime.pos
  generalize (r + SpecG.challenge I f ctx (I.encode (r • I.B)) pk msg * a) % I.L = s at *
  have hr : (I.encode (r • I.B)).size = 32 := h.encode_size _
  have hsz : (natLE s 32).size = 32 := Bytes.natLE_size s 32
  refine ⟨?_, ?_, ?_⟩
  · rw [ByteArray.size_append, hr, hsz]
  · unfold bslice
    exact ByteArray.extract_append_eq_left hr.symm
  · unfold bslice
    rw [ByteArray.extract_append_eq_right hr.symm (by rw [hr, hsz]), Bytes.leNat_natLE]
    have : (256 : ℕ) ^ 32 = 2 ^ 256 := by norm_num
    rw [this]
    exact Nat.mod_eq_of_lt (lt_trans hlt h.L_lt)

/-- **C02: S is canonical, R is canonical, the signature has 64 bytes** -/
theorem sign_S_canonical (h : Laws I) (f : Dom) (ctx : Bytes) (a r : ℕ) (pk msg : Bytes) :
    (SpecG.signWith I f ctx a r pk msg).size = 64 ∧
    leNat (bslice (SpecG.signWith I f ctx a r pk msg) 32 32) < I.L ∧
    I.isCanonicalEnc (bslice (SpecG.signWith I f ctx a r pk msg) 0 32) = true ∧
    I.scMinimal (bslice (SpecG.signWith I f ctx a r pk msg) 32 32) = true := by
  obtain ⟨h1, h2, h3⟩ := signWith_slices I h f ctx a r pk msg
  have hlt : leNat (bslice (SpecG.signWith I f ctx a r pk msg) 32 32) < I.L := by
    rw [h3]; exact Nat.mod_lt _ h.L_prime.pos
  refine ⟨h1, hlt, ?_, ?_⟩
  · rw [h2]; exact h.canonical_encode _
  · exact (h.scMinimal_iff _ (bslice_size h1)).2 hlt

/-- the verification equation holds EXACTLY (not only up to torsion): `[S]B − [k]A = R` -/
theorem sign_equation (h : Laws I) (a r k : ℕ) :
    ((r + k * a) % I.L) • I.B - k • (a • I.B) = r • I.B := by
  rw [nsmul_mod_of_smul_eq_zero h.L_B, add_smul, mul_smul]; abel

/-- **C02 completeness** (declarative predicate).  `pk` is any encoding of `A = a•B` that the options admit
    (in the library: `pk = encode (a•B)`, see `sign_complete_key`). -/
theorem sign_complete (h : Laws I) (o : VOpts) (f : Dom) (ctx msg : Bytes) (a r : ℕ) (pk : Bytes)
    (hpk : I.decode pk = some (a • I.B)) (hpkc : o.nonCanA = false → I.isCanonicalEnc pk = true)
    (hA : o.smallA = false → (8 : ℕ) • (a • I.B) ≠ 0)
    (hR : o.smallR = false → (8 : ℕ) • (r • I.B) ≠ 0) :
    SpecG.verify I o f ctx pk msg (SpecG.signWith I f ctx a r pk msg) = true := by
  obtain ⟨h1, h2, h3⟩ := signWith_slices I h f ctx a r pk msg
  obtain ⟨-, hlt, hcan, -⟩ := sign_S_canonical I h f ctx a r pk msg
  rw [specG_verify_iff I h]
  refine ⟨h1, hlt, a • I.B, r • I.B, hpk, ?_, hA, hR, hpkc, fun _ => hcan, ?_⟩
  · rw [h2]; exact h.decode_encode _
  · rw [h2, h3, sign_equation I h]
    split
    · rfl
    · rw [sub_self, smul_zero]

/-- completeness for the key the library derives: `pk = encode (a•B)` -/
theorem sign_complete_key (h : Laws I) (o : VOpts) (f : Dom) (ctx msg : Bytes) (a r : ℕ)
    (hA : o.smallA = false → (8 : ℕ) • (a • I.B) ≠ 0)
    (hR : o.smallR = false → (8 : ℕ) • (r • I.B) ≠ 0) :
    SpecG.verify I o f ctx (I.encode (a • I.B)) msg (SpecG.signWith I f ctx a r (I.encode (a • I.B)) msg) = true :=
  sign_complete I h o f ctx msg a r _ (h.decode_encode _) (fun _ => h.canonical_encode _) hA hR

/-- completeness for the CODE-SHAPED verification model (so: `SelfVerify` never fails, under the side conditions) -/
theorem sign_complete_model (h : Laws I) (hExp : ExpHyp I) (hsv : ∀ k, k < I.L → ShortVecOK I k)
    (o : VOpts) (f : Dom) (ctx msg : Bytes) (a r : ℕ)
    (hA : o.smallA = false → (8 : ℕ) • (a • I.B) ≠ 0)
    (hR : o.smallR = false → (8 : ℕ) • (r • I.B) ≠ 0) :
    verify I o f ctx (I.encode (a • I.B)) msg (SpecG.signWith I f ctx a r (I.encode (a • I.B)) msg) = true := by
  rw [model_eq_spec I h hExp hsv]; exact sign_complete_key I h o f ctx msg a r hA hR

/-- the four presets: only the library default (which forbids small-order A) needs `hA`; none needs `hR` -/
theorem sign_complete_presets (h : Laws I) (f : Dom) (ctx msg : Bytes) (a r : ℕ)
    (hA : (8 : ℕ) • (a • I.B) ≠ 0) :
    let pk := I.encode (a • I.B)
    let sig := SpecG.signWith I f ctx a r pk msg
    SpecG.verify I VOpts.default f ctx pk msg sig = true ∧ SpecG.verify I VOpts.stdlib f ctx pk msg sig = true ∧
    SpecG.verify I VOpts.fips f ctx pk msg sig = true ∧ SpecG.verify I VOpts.zip215 f ctx pk msg sig = true := by
  refine ⟨?_, ?_, ?_, ?_⟩ <;>
    exact sign_complete_key I h _ f ctx msg a r (fun _ => hA) (fun hc => by cases hc)

/-! ### The side condition `hA` for library keys -/

/-- `B` has order exactly `L` -/
def OrderExact : Prop := ∀ n : ℤ, n • I.B = 0 → (I.L : ℤ) ∣ n

/-- if `B` has order exactly `L`, a multiple `a•B` with `a ≢ 0 (mod L)` is not of small order -/
theorem not_smallOrder_of_order (h : Laws I) (hOrd : OrderExact I) {a : ℕ} (ha : ¬ I.L ∣ a) :
    (8 : ℕ) • (a • I.B) ≠ 0 := by
  intro h0
  have h1 : ((8 * a : ℕ) : ℤ) • I.B = 0 := by rw [natCast_zsmul, mul_smul]; exact h0
  have h2 := hOrd _ h1
  have h3 : I.L ∣ 8 * a := Int.natCast_dvd_natCast.1 h2
  exact ha ((Nat.Coprime.dvd_mul_left h.coprime8.symm).1 h3)

end Complete

theorem clamp_range (hb : Bytes) : 2 ^ 254 ≤ clamp hb ∧ clamp hb < 2 ^ 255 ∧ 8 ∣ clamp hb := by
  unfold clamp
  generalize leNat (bslice hb 0 32) = x
  dsimp only
  generalize x % 2 ^ 255 / 8 = y
  have hz : y * 8 % 2 ^ 254 < 2 ^ 254 := Nat.mod_lt _ (by norm_num)
  have h8 : 8 ∣ y * 8 % 2 ^ 254 := (Nat.dvd_mod_iff (by norm_num : 8 ∣ 2 ^ 254)).2 (Nat.dvd_mul_left 8 y)
  generalize y * 8 % 2 ^ 254 = z at hz h8
  refine ⟨by omega, by omega, ?_⟩
  exact Nat.dvd_add h8 (by norm_num)

/-- **a clamped scalar is never a multiple of L**: it is a multiple of 8 in `[2^254, 2^255)`; a multiple `L·q` of the
    odd `L` that is divisible by 8 has `8 ∣ q`, so it is `0` or `≥ 8L > 2^255`.  Hence the library's `A = [a]B` is
    never the identity and (with `B` of order exactly `L`) never of small order. -/
theorem clamp_not_dvd (hb : Bytes) : ¬ L ∣ clamp hb := by
  obtain ⟨h1, h2, h8⟩ := clamp_range hb
  generalize clamp hb = c at *
  rintro ⟨q, rfl⟩
  have hcop : Nat.Coprime 8 L := by decide
  obtain ⟨t, rfl⟩ := hcop.dvd_of_dvd_mul_left h8
  have hL : 2 ^ 252 < L := by decide
  rcases Nat.eq_zero_or_pos t with rfl | ht
  · simp at h1
  · have h3 : L * (8 * 1) ≤ L * (8 * t) := Nat.mul_le_mul_left L (Nat.mul_le_mul_left 8 ht)
    omega

/-! ## Uniqueness of S -/

section Unique
variable (I : EdIface) [AddCommGroup I.G]

/-- **C02: S-uniqueness.**  For fixed R bytes, key, message, context and options, at most one `S` is accepted
    (cofactored or cofactorless), provided `B` has order exactly `L`. -/
theorem S_unique (h : Laws I) (hOrd : OrderExact I) (o : VOpts) (f : Dom) (ctx pk msg sig sig' : Bytes)
    (hRb : bslice sig' 0 32 = bslice sig 0 32)
    (hv : SpecG.verify I o f ctx pk msg sig = true) (hv' : SpecG.verify I o f ctx pk msg sig' = true) :
    leNat (bslice sig' 32 32) = leNat (bslice sig 32 32) := by
  rw [specG_verify_iff I h] at hv hv'
  obtain ⟨-, hs, A, R, hA, hR, -, -, -, -, he⟩ := hv
  obtain ⟨-, hs', A', R', hA', hR', -, -, -, -, he'⟩ := hv'
  rw [hRb] at hR' he'
  rw [hA] at hA'; cases hA'
  rw [hR] at hR'; cases hR'
  generalize leNat (bslice sig 32 32) = s at *
  generalize leNat (bslice sig' 32 32) = s' at *
  generalize SpecG.challenge I f ctx (bslice sig 0 32) pk msg = k at *
  -- in both cases  (s' − s) • B  is killed by 8
  have key : ((8 * ((s' : ℤ) - s) : ℤ)) • I.B = 0 := by
    have e8 : ∀ P : I.G, (8 : ℕ) • P = (8 : ℤ) • P := fun P => by rw [← natCast_zsmul]; rfl
    by_cases hc : o.cofactorless = true
    · rw [if_pos hc] at he he'
      have := h.encode_injective (he'.trans he.symm)
      have h2 : s' • I.B = s • I.B := by
        have := congrArg (· + k • A) this
        simpa using this
      rw [mul_smul, sub_smul, natCast_zsmul, natCast_zsmul, h2, sub_self, smul_zero]
    · rw [if_neg hc] at he he'
      have h2 : (8 : ℕ) • (s' • I.B - k • A - R) - (8 : ℕ) • (s • I.B - k • A - R) = 0 := by rw [he, he', sub_zero]
      rw [← smul_sub] at h2
      have h3 : s' • I.B - k • A - R - (s • I.B - k • A - R) = ((s' : ℤ) - s) • I.B := by
        rw [sub_smul, natCast_zsmul, natCast_zsmul]; abel
      rw [h3, e8] at h2
      rw [mul_smul]; exact h2
  have hd : (I.L : ℤ) ∣ 8 * ((s' : ℤ) - s) := hOrd _ key
  have hcop : IsCoprime (I.L : ℤ) (8 : ℤ) := by
    have := Nat.isCoprime_iff_coprime.2 h.coprime8.symm
    simpa using this
  have hd' : (I.L : ℤ) ∣ (s' : ℤ) - s := hcop.dvd_of_dvd_mul_left hd
  obtain ⟨q, hq⟩ := hd'
  have hLpos : (0 : ℤ) < I.L := by exact_mod_cast h.L_prime.pos
  have hs1 : (s : ℤ) < I.L := by exact_mod_cast hs
  have hs2 : (s' : ℤ) < I.L := by exact_mod_cast hs'
  have hq0 : q = 0 := by
    by_contra hne
    rcases lt_or_gt_of_ne hne with hneg | hpos
    · have : (I.L : ℤ) * q ≤ -(I.L : ℤ) := by nlinarith
      omega
    · have : (I.L : ℤ) ≤ (I.L : ℤ) * q := by nlinarith
      omega
  rw [hq0, mul_zero] at hq
  omega

/-- as byte strings: two accepted 64-byte signatures with the same R half are equal -/
theorem S_unique_bytes (h : Laws I) (hOrd : OrderExact I) (o : VOpts) (f : Dom) (ctx pk msg sig sig' : Bytes)
    (hRb : bslice sig' 0 32 = bslice sig 0 32)
    (hv : SpecG.verify I o f ctx pk msg sig = true) (hv' : SpecG.verify I o f ctx pk msg sig' = true) :
    sig' = sig := by
  have hS := S_unique I h hOrd o f ctx pk msg sig sig' hRb hv hv'
  have hz : sig.size = 64 := ((specG_verify_iff I h o f ctx pk msg sig).1 hv).1
  have hz' : sig'.size = 64 := ((specG_verify_iff I h o f ctx pk msg sig').1 hv').1
  have hSb : bslice sig' 32 32 = bslice sig 32 32 :=
    Bytes.leNat_inj (by rw [bslice_size hz, bslice_size hz']) hS
  have split : ∀ b : Bytes, b.size = 64 → b = bslice b 0 32 ++ bslice b 32 32 := by
    intro b hb
    unfold bslice
    rw [ByteArray.extract_append_extract]
    have : b.extract (min 0 32) (max (0 + 32) (32 + 32)) = b.extract 0 b.size := by rw [hb]; rfl
    rw [this, ByteArray.extract_zero_size]
  rw [split sig hz, split sig' hz', hRb, hSb]

/-- **flipping any bit (changing anything) in the S half of an accepted signature makes verification fail** -/
theorem flip_S_rejected (h : Laws I) (hOrd : OrderExact I) (o : VOpts) (f : Dom) (ctx pk msg sig sig' : Bytes)
    (hv : SpecG.verify I o f ctx pk msg sig = true)
    (hRb : bslice sig' 0 32 = bslice sig 0 32) (hne : sig' ≠ sig) :
    SpecG.verify I o f ctx pk msg sig' = false := by
  rw [← Bool.not_eq_true]
  intro hv'
  exact hne (S_unique_bytes I h hOrd o f ctx pk msg sig sig' hRb hv hv')

end Unique

/-! ## Option errors -/

section Options

/-- the code-shaped option handling (`(*Options).verify` + `checkHash`, shared by `Sign` and `Verify`) computes the
    specification's `modeOf` -/
theorem mode_eq_modeOf (o : Option VOpts) (ctx : Bytes) (hs : HashSel) (n : ℕ) :
    (mode o ctx hs n).map (fun x => x.1) = modeOf o ctx (decide (hs = .sha512)) (decide (hs = .other)) n := by
  rcases o with _ | ⟨a1, a2, a3, nonCanR, cofactorless⟩
  · by_cases h0 : ctx.size > 0 <;> by_cases h255 : ctx.size > 255 <;> cases hs <;> by_cases hn : n = 64 <;>
      simp [mode, optionsVerify, checkHash, modeOf, h0, h255, hn] <;> omega
  · cases nonCanR <;> cases cofactorless <;>
    by_cases h0 : ctx.size > 0 <;> by_cases h255 : ctx.size > 255 <;> cases hs <;> by_cases hn : n = 64 <;>
      simp [mode, optionsVerify, checkHash, modeOf, h0, h255, hn] <;> omega

/-- … and passes on the context and the effective `VerifyOptions` (`VerifyOptionsDefault` when `Verify == nil`) -/
theorem mode_snd (o : Option VOpts) (ctx : Bytes) (hs : HashSel) (n : ℕ) {f : Dom} {c : Bytes} {v : VOpts}
    (hm : mode o ctx hs n = some (f, c, v)) : c = ctx ∧ v = o.getD VOpts.default := by
  have hempty : ctx.size = 0 → ByteArray.empty = ctx := fun h => (ByteArray.size_eq_zero_iff.1 h).symm
  rcases o with _ | ⟨a1, a2, a3, nonCanR, cofactorless⟩
  · by_cases h0 : ctx.size > 0 <;> by_cases h255 : ctx.size > 255 <;> cases hs <;> by_cases hn : n = 64 <;>
      simp [mode, optionsVerify, checkHash, h0, h255, hn] at hm <;>
      (obtain ⟨-, rfl, rfl⟩ := hm; first | exact ⟨rfl, rfl⟩ | exact ⟨hempty (by omega), rfl⟩)
  · cases nonCanR <;> cases cofactorless <;>
    by_cases h0 : ctx.size > 0 <;> by_cases h255 : ctx.size > 255 <;> cases hs <;> by_cases hn : n = 64 <;>
      simp [mode, optionsVerify, checkHash, h0, h255, hn] at hm <;>
      (obtain ⟨-, rfl, rfl⟩ := hm; first | exact ⟨rfl, rfl⟩ | exact ⟨hempty (by omega), rfl⟩)

/-- the accepted modes never carry the incompatible pair: `Model.verify` is only ever reached with admissible options -/
theorem mode_admissible (o : Option VOpts) (ctx : Bytes) (hs : HashSel) (n : ℕ) {f : Dom} {c : Bytes} {v : VOpts}
    (hm : mode o ctx hs n = some (f, c, v)) : ¬ (v.nonCanR = true ∧ v.cofactorless = true) := by
  obtain ⟨-, rfl⟩ := mode_snd o ctx hs n hm
  rintro ⟨h1, h2⟩
  rcases o with _ | ⟨a1, a2, a3, nonCanR, cofactorless⟩
  · simp [VOpts.default] at h1
  · simp at h1 h2; subst h1 h2
    simp [mode, optionsVerify] at hm

theorem modeOf_incompatible (v : VOpts) (hv : v.nonCanR = true ∧ v.cofactorless = true) (ctx : Bytes) (a b : Bool)
    (n : ℕ) : modeOf (some v) ctx a b n = none := by
  simp [modeOf, hv.1, hv.2]

theorem modeOf_ctx_too_long (o : Option VOpts) (ctx : Bytes) (hc : ctx.size > 255) (a b : Bool) (n : ℕ) :
    modeOf o ctx a b n = none := by
  unfold modeOf; split <;> simp [hc]

theorem modeOf_unsupported_hash (o : Option VOpts) (ctx : Bytes) (a : Bool) (n : ℕ) :
    modeOf o ctx a true n = none := by
  unfold modeOf; split <;> simp

theorem modeOf_ph_bad_length (o : Option VOpts) (ctx : Bytes) (b : Bool) (n : ℕ) (hn : n ≠ 64) :
    modeOf o ctx true b n = none := by
  unfold modeOf; split <;> simp [hn]

/-- exactly these four conditions make the options invalid -/
theorem modeOf_isSome_iff (o : Option VOpts) (ctx : Bytes) (a b : Bool) (n : ℕ) :
    (modeOf o ctx a b n).isSome = true ↔
      ¬ (∃ v, o = some v ∧ v.nonCanR = true ∧ v.cofactorless = true) ∧ ctx.size ≤ 255 ∧ b = false ∧
        (a = true → n = 64) := by
  unfold modeOf
  rcases o with _ | v
  · by_cases h255 : ctx.size > 255 <;> cases a <;> cases b <;> by_cases hn : n = 64 <;> simp [h255, hn] <;> omega
  · cases h1 : v.nonCanR <;> cases h2 : v.cofactorless <;>
    by_cases h255 : ctx.size > 255 <;> cases a <;> cases b <;> by_cases hn : n = 64 <;> simp [h255, hn] <;> omega

/-- the mode that is used: pure / ctx / ph -/
theorem modeOf_value (o : Option VOpts) (ctx : Bytes) (a : Bool) (n : ℕ) {f : Dom}
    (hm : modeOf o ctx a false n = some f) :
    f = if a then some 1 else if ctx.size > 0 then some 0 else none := by
  rcases o with _ | ⟨a1, a2, a3, nonCanR, cofactorless⟩
  · by_cases h255 : ctx.size > 255 <;> cases a <;> by_cases hn : n = 64 <;>
      simp [modeOf, h255, hn] at hm <;> simp [← hm]
  · cases nonCanR <;> cases cofactorless <;>
    by_cases h255 : ctx.size > 255 <;> cases a <;> by_cases hn : n = 64 <;>
      simp [modeOf, h255, hn] at hm <;> simp [← hm]

/-- entry point: `VerifyWithOptions` panics exactly on a bad key length or invalid options, and otherwise returns
    the model's decision -/
theorem verifyWithOptions_panic_iff (I : EdIface) (o : Option VOpts) (hs : HashSel) (ctx pk msg sig : Bytes) :
    verifyWithOptions I o hs ctx pk msg sig = .panic ↔ pk.size ≠ 32 ∨ mode o ctx hs msg.size = none := by
  unfold verifyWithOptions
  by_cases hp : pk.size = 32
  · rcases hm : mode o ctx hs msg.size with _ | ⟨f, c, v⟩ <;> simp [hp]
  · simp [hp]

end Options

/-! ## Non-vacuity on the toy instance of C01 (`G = ℤ/104`, `B = 8`, `L = 13`) -/

namespace Toy
open Voi.Props.C01.Toy

theorem toy_order : OrderExact toy := by
  intro n hn
  have h1 : ((n * 8 : ℤ) : ZMod 104) = 0 := by
    have : n • (8 : ZMod 104) = 0 := hn
    rw [zsmul_eq_mul] at this
    push_cast; exact this
  rw [ZMod.intCast_zmod_eq_zero_iff_dvd] at h1
  show ((13 : ℕ) : ℤ) ∣ n
  omega

/-- `a = 3`, `r = 2`: both side conditions hold, every option set accepts -/
example (o : VOpts) (f : Dom) (ctx msg : Bytes) :
    SpecG.verify toy o f ctx (toy.encode ((3 : ℕ) • toy.B)) msg
      (SpecG.signWith toy f ctx 3 2 (toy.encode ((3 : ℕ) • toy.B)) msg) = true :=
  sign_complete_key toy toy_laws o f ctx msg 3 2 (fun _ => by decide +kernel) (fun _ => by decide +kernel)

example (o : VOpts) (f : Dom) (ctx msg : Bytes) :
    verify toy o f ctx (toy.encode ((3 : ℕ) • toy.B)) msg
      (SpecG.signWith toy f ctx 3 2 (toy.encode ((3 : ℕ) • toy.B)) msg) = true :=
  sign_complete_model toy toy_laws toy_exp toy_sv o f ctx msg 3 2 (fun _ => by decide +kernel)
    (fun _ => by decide +kernel)

/-- the side condition `hR` cannot be dropped: with nonce `r = 0` the signature has `R = identity`, which option
    sets without `AllowSmallOrderR` reject (here flag set 0), although it verifies under the default preset -/
example : SpecG.verify toy (VOpts.ofBits 0) none ByteArray.empty (toy.encode ((3 : ℕ) • toy.B)) ByteArray.empty
    (SpecG.signWith toy none ByteArray.empty 3 0 (toy.encode ((3 : ℕ) • toy.B)) ByteArray.empty) = false := by
  decide +kernel
example : SpecG.verify toy VOpts.default none ByteArray.empty (toy.encode ((3 : ℕ) • toy.B)) ByteArray.empty
    (SpecG.signWith toy none ByteArray.empty 3 0 (toy.encode ((3 : ℕ) • toy.B)) ByteArray.empty) = true := by
  decide +kernel

/-- `S_unique` / `flip_S_rejected` have satisfiable hypotheses: the accepted toy signature of C01 and a copy with a
    bit of `S` flipped -/
example : SpecG.verify toy VOpts.default none ByteArray.empty pkT ByteArray.empty
    (bslice sigT 0 32 ++ natLE (3 ^^^ 4) 32) = false :=
  flip_S_rejected toy toy_laws toy_order VOpts.default none ByteArray.empty pkT ByteArray.empty sigT _
    (by decide +kernel) (by decide +kernel) (by decide +kernel)

example : ¬ toy.L ∣ 3 ∧ (8 : ℕ) • ((3 : ℕ) • toy.B) ≠ 0 :=
  ⟨by decide, not_smallOrder_of_order toy toy_laws toy_order (by decide)⟩

end Toy

/-- the clamped scalar of the RFC 8032 test vector 1 seed hash (first 32 bytes of SHA-512(seed)), kernel-evaluated -/
example : clamp (ofHex! "307c83864f2833cb427a2ef1c00a013cfdff2768d980c0a3a520f006904de94f") % 8 = 0 ∧
    ¬ L ∣ clamp (ofHex! "307c83864f2833cb427a2ef1c00a013cfdff2768d980c0a3a520f006904de94f") :=
  ⟨by decide +kernel, clamp_not_dvd _⟩

end Voi.Props.C02

section Axioms
open Voi.Props.C02
#print axioms sign_concrete
#print axioms signWith_slices
#print axioms sign_S_canonical
#print axioms sign_equation
#print axioms sign_complete
#print axioms sign_complete_key
#print axioms sign_complete_model
#print axioms sign_complete_presets
#print axioms not_smallOrder_of_order
#print axioms clamp_range
#print axioms clamp_not_dvd
#print axioms S_unique
#print axioms S_unique_bytes
#print axioms flip_S_rejected
#print axioms mode_eq_modeOf
#print axioms mode_snd
#print axioms mode_admissible
#print axioms modeOf_incompatible
#print axioms modeOf_ctx_too_long
#print axioms modeOf_unsupported_hash
#print axioms modeOf_ph_bad_length
#print axioms modeOf_isSome_iff
#print axioms modeOf_value
#print axioms verifyWithOptions_panic_iff
#print axioms Toy.toy_order
end Axioms
