/-
C20 — the three affine-Niels tables of package `curve` (as unpacked by the interpreted initialisers):
shape, limb ranges, canonicity, aliases, and agreement of the 64-bit and 32-bit encodings.
  ED25519_BASEPOINT_TABLE                  32 × 8 entries  (= edwardsBasepointTableInnerDocHidden; RISTRETTO_BASEPOINT_TABLE holds a copy)
  constAFFINE_ODD_MULTIPLES_OF_BASEPOINT   64 entries
  constAFFINE_ODD_MULTIPLES_OF_B_SHL_128   64 entries
An entry is an `affineNielsPoint` = 3 field elements (y_plus_x, y_minus_x, xy2d).
What the entries *are* is proved in `Voi.Props.C20.Base*`, `OddB`, `OddBShl*` for the 64-bit literals and transferred
to the 32-bit literals with the agreement theorems below (`Voi.Props.C20`).
-/
import Voi.Props.C20.Defs
import Voi.Gen.Consts_CurveU64
import Voi.Gen.Consts_CurveU32
namespace Voi.Props.C20.TablesAgree
open Voi Voi.Spec Voi.Spec.Limbs Voi.Props.C20 Voi.Gen.Consts

/-- 64-bit: 256 / 64 / 64 entries × 3 field elements × 5 limbs, every limb < 2^51, every field element < p -/
theorem shape_u64 :
    CurveU64.ED25519_BASEPOINT_TABLE.length = 256 * 3 * 5 ∧
    CurveU64.constAFFINE_ODD_MULTIPLES_OF_BASEPOINT.length = 64 * 3 * 5 ∧
    CurveU64.constAFFINE_ODD_MULTIPLES_OF_B_SHL_128.length = 64 * 3 * 5 ∧
    limbs51Ok CurveU64.ED25519_BASEPOINT_TABLE = true ∧
    limbs51Ok CurveU64.constAFFINE_ODD_MULTIPLES_OF_BASEPOINT = true ∧
    limbs51Ok CurveU64.constAFFINE_ODD_MULTIPLES_OF_B_SHL_128 = true ∧
    (fes51 CurveU64.ED25519_BASEPOINT_TABLE).all (· < p) = true ∧
    (fes51 CurveU64.constAFFINE_ODD_MULTIPLES_OF_BASEPOINT).all (· < p) = true ∧
    (fes51 CurveU64.constAFFINE_ODD_MULTIPLES_OF_B_SHL_128).all (· < p) = true := by decide +kernel

/-- 32-bit: 256 / 64 / 64 entries × 3 field elements × 10 limbs, limbs alternately < 2^26 / < 2^25, every field element < p -/
theorem shape_u32 :
    CurveU32.ED25519_BASEPOINT_TABLE.length = 256 * 3 * 10 ∧
    CurveU32.constAFFINE_ODD_MULTIPLES_OF_BASEPOINT.length = 64 * 3 * 10 ∧
    CurveU32.constAFFINE_ODD_MULTIPLES_OF_B_SHL_128.length = 64 * 3 * 10 ∧
    limbs2625Ok CurveU32.ED25519_BASEPOINT_TABLE = true ∧
    limbs2625Ok CurveU32.constAFFINE_ODD_MULTIPLES_OF_BASEPOINT = true ∧
    limbs2625Ok CurveU32.constAFFINE_ODD_MULTIPLES_OF_B_SHL_128 = true ∧
    (fes2625 CurveU32.ED25519_BASEPOINT_TABLE).all (· < p) = true ∧
    (fes2625 CurveU32.constAFFINE_ODD_MULTIPLES_OF_BASEPOINT).all (· < p) = true ∧
    (fes2625 CurveU32.constAFFINE_ODD_MULTIPLES_OF_B_SHL_128).all (· < p) = true := by decide +kernel

/-- the exported names that share the table object / hold a copy of it -/
theorem aliases :
    CurveU64.edwardsBasepointTableInnerDocHidden = CurveU64.ED25519_BASEPOINT_TABLE ∧
    CurveU64.RISTRETTO_BASEPOINT_TABLE = CurveU64.ED25519_BASEPOINT_TABLE ∧
    CurveU32.edwardsBasepointTableInnerDocHidden = CurveU32.ED25519_BASEPOINT_TABLE ∧
    CurveU32.RISTRETTO_BASEPOINT_TABLE = CurveU32.ED25519_BASEPOINT_TABLE := ⟨rfl, rfl, rfl, rfl⟩

/-- the two encodings of the whole tables denote the same sequences of field elements -/
theorem tables_enc_agree :
    fes2625 CurveU32.ED25519_BASEPOINT_TABLE = fes51 CurveU64.ED25519_BASEPOINT_TABLE ∧
    fes2625 CurveU32.constAFFINE_ODD_MULTIPLES_OF_BASEPOINT = fes51 CurveU64.constAFFINE_ODD_MULTIPLES_OF_BASEPOINT ∧
    fes2625 CurveU32.constAFFINE_ODD_MULTIPLES_OF_B_SHL_128 = fes51 CurveU64.constAFFINE_ODD_MULTIPLES_OF_B_SHL_128 := by
  decide +kernel

end Voi.Props.C20.TablesAgree
