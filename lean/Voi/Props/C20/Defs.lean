/-
C20 — vocabulary.  How a flat list of limbs (as dumped by `go2ir -globals`: integer leaves in declaration
order) is read as field elements (`Voi.Spec.Limbs.fes51`, `fes2625`), points and table entries.
Everything is executable `Nat` arithmetic, so every statement about the regenerated literals is closed
and is proved by kernel evaluation (`decide +kernel`).
-/
import Voi.Spec.Edwards
import Voi.Spec.Limbs
namespace Voi.Props.C20
open Voi.Spec Voi.Spec.Limbs

/-- `curve.affineNielsPoint`: (y + x, y − x, 2·d·x·y) -/
structure ANiels where
  y_plus_x : Nat
  y_minus_x : Nat
  xy2d : Nat
deriving Repr

/-! Kernel-friendly decidable equality.  The instances produced by `deriving DecidableEq` cast along the
equations of the leading fields (`Eq.rec`); to reduce such a cast the kernel has to unify the two *unevaluated*
field terms, which explodes when they are equal in value but not in shape (observed: `[1]T₁` and `[3]T₁` have the
same x-coordinate — 17 minutes).  Deciding the conjunction of the `Nat` equalities has no such casts. -/
instance : DecidableEq ANiels := fun a b =>
  decidable_of_iff (a.y_plus_x = b.y_plus_x ∧ a.y_minus_x = b.y_minus_x ∧ a.xy2d = b.xy2d) (by cases a; cases b; simp)

instance (priority := high) ptDecEq : DecidableEq Pt := fun a b =>
  decidable_of_iff (a.x = b.x ∧ a.y = b.y) (by cases a; cases b; simp)

/-- the affine Niels form of an affine point (fully reduced coordinates) -/
def ANiels.ofPt (P : Pt) : ANiels := ⟨Fp.add P.y P.x, Fp.sub P.y P.x, Fp.mul Fp.d2 (Fp.mul P.x P.y)⟩

/-- the `k`-th `affineNielsPoint` of a table given as the sequence `fs` of its field elements
    (`fs = fes51 limbs` or `fes2625 limbs`; 3 field elements per entry: y_plus_x, y_minus_x, xy2d).
    Out of range reads give 0, which is not a valid entry. -/
def nielsAt (fs : List Nat) (k : Nat) : ANiels := ⟨fs.getD (3 * k) 0, fs.getD (3 * k + 1) 0, fs.getD (3 * k + 2) 0⟩

/-- the `k`-th `EdwardsPoint` (X, Y, Z, T) of a sequence of field elements (4 per point) -/
def extAt (fs : List Nat) (k : Nat) : Ext :=
  ⟨fs.getD (4 * k) 0, fs.getD (4 * k + 1) 0, fs.getD (4 * k + 2) 0, fs.getD (4 * k + 3) 0⟩

/-- `E` is the affine point `P` in normal form: fully reduced X = x, Y = y, Z = 1, T = x·y. -/
def IsAffineOf (E : Ext) (P : Pt) : Prop :=
  E.X = P.x ∧ E.Y = P.y ∧ E.Z = 1 ∧ E.T = Fp.mul P.x P.y ∧ P.x < p ∧ P.y < p

instance (E : Ext) (P : Pt) : Decidable (IsAffineOf E P) := by unfold IsAffineOf; infer_instance

/-- `E = (X : Y : Z : T)` is a valid extended representation of the affine point `P`, with fully reduced
    coordinates: Z ≠ 0, X = x·Z, Y = y·Z, T·Z = X·Y (all mod p).  Z = 1 is *not* required. -/
def Represents (E : Ext) (P : Pt) : Prop :=
  E.X < p ∧ E.Y < p ∧ E.Z < p ∧ E.T < p ∧ E.Z ≠ 0 ∧
  E.X = Fp.mul P.x E.Z ∧ E.Y = Fp.mul P.y E.Z ∧ Fp.mul E.T E.Z = Fp.mul E.X E.Y

instance (E : Ext) (P : Pt) : Decidable (Represents E P) := by unfold Represents; infer_instance

/-- the compressed Edwards-Y encoding of `P` as an integer (RFC 8032 §5.1.2): y, with the parity of x in bit 255 -/
def encNat (P : Pt) : Nat := P.y % p + 2 ^ 255 * (P.x % p % 2)

/-- a list of byte values -/
def IsBytes (n : Nat) (l : List Nat) : Prop := l.length = n ∧ allBelow 8 l = true
instance (n : Nat) (l : List Nat) : Decidable (IsBytes n l) := by unfold IsBytes; infer_instance

def bytesToList (b : Bytes) : List Nat := b.data.toList.map UInt8.toNat

/-! The coordinates of the Ed25519 base point (RFC 8032 §5.1) and of [2^128]B, as literals.  They are only
a device to keep kernel evaluation cheap: `B_eq`, `B128_eq` (in `Voi.Props.C20.Points`) prove that they are
`Pt.B` and `Pt.smul (2^128) Pt.B`, and every theorem is stated with the latter. -/
def Blit : Pt :=
  ⟨15112221349535400772501151409588531511454012693041857206046113283949847762202,
   46316835694926478169428394003475163141307993866256225615783033603165251855960⟩

def B128lit : Pt :=
  ⟨34445898214599204196824587830670445739267303633182408050117152659121903233060,
   43048524062920118298805915568484795959327268000798232147099016825120495085163⟩

end Voi.Props.C20
