/-
C20 — the scalar-field constants of package `curve/scalar` (both limb encodings: 5 × 52 bits, 9 × 29 bits)
and the constants of package `internal/lattice`.
The Montgomery radix differs between the backends: R = 2^260 (5 × 52) resp. R = 2^261 (9 × 29).
All proofs are kernel evaluations of closed statements about the regenerated literals.
(`constLFACTOR` and the masks are Go `const`s: they are inlined in the regenerated IR programs, see the L0 obligations.)
-/
import Voi.Spec.Field
import Voi.Spec.Limbs
import Voi.Gen.Consts_ScalarU64
import Voi.Gen.Consts_ScalarU32
import Voi.Gen.Consts_Lattice
namespace Voi.Props.C20.Scalar
open Voi Voi.Spec Voi.Spec.Limbs Voi.Gen.Consts

/-- `l` is a 5 × 52-bit unpacked scalar with value `v` -/
def Is52 (l : List Nat) (v : Nat) : Prop := l.length = 5 ∧ allBelow 52 l = true ∧ sc52 l = v
/-- `l` is a 9 × 29-bit unpacked scalar with value `v` -/
def Is29 (l : List Nat) (v : Nat) : Prop := l.length = 9 ∧ allBelow 29 l = true ∧ sc29 l = v
instance (l : List Nat) (v : Nat) : Decidable (Is52 l v) := by unfold Is52; infer_instance
instance (l : List Nat) (v : Nat) : Decidable (Is29 l v) := by unfold Is29; infer_instance

/-- the group order, as the Spec has it -/
theorem spec_L : L = 2 ^ 252 + 27742317777372353535851937790883648493 ∧
    L = 7237005577332262213973186563042994240857116359379907606001950938285454250989 := by decide +kernel

/-- BASEPOINT_ORDER (a packed 32-byte `Scalar`, deliberately non-canonical) = L; same bytes in both builds. -/
theorem basepoint_order :
    ScalarU64.BASEPOINT_ORDER.length = 32 ∧ allBelow 8 ScalarU64.BASEPOINT_ORDER = true ∧
    leBytes ScalarU64.BASEPOINT_ORDER = L ∧ ScalarU32.BASEPOINT_ORDER = ScalarU64.BASEPOINT_ORDER := by decide +kernel

/-- `order` (sc_minimal.go): L as four little-endian 64-bit words; same in both builds. -/
theorem order_words :
    ScalarU64.order.length = 4 ∧ allBelow 64 ScalarU64.order = true ∧
    leWords64 ScalarU64.order = L ∧ ScalarU32.order = ScalarU64.order := by decide +kernel

/-- constL = L -/
theorem const_L : Is52 ScalarU64.constL L ∧ Is29 ScalarU32.constL L := by decide +kernel

/-- constR = R mod L with R = 2^260 (64-bit backend) resp. R = 2^261 (32-bit backend) -/
theorem const_R : Is52 ScalarU64.constR (2 ^ 260 % L) ∧ Is29 ScalarU32.constR (2 ^ 261 % L) := by decide +kernel

/-- constRR = R² mod L -/
theorem const_RR :
    Is52 ScalarU64.constRR (2 ^ 260 * 2 ^ 260 % L) ∧ Is29 ScalarU32.constRR (2 ^ 261 * 2 ^ 261 % L) := by decide +kernel

/-- R is indeed the radix of the whole limb vector: 5 · 52 = 260, 9 · 29 = 261 -/
theorem montgomery_radix : 5 * 52 = 260 ∧ 9 * 29 = 261 := by decide

/-- the two encodings denote the same integer where they are meant to (L); R and RR legitimately differ -/
theorem scalar_enc_agree : sc29 ScalarU32.constL = sc52 ScalarU64.constL := by decide +kernel

/-! ## `internal/lattice` (an `Int128` is dumped as its fields `hi : int64`, `lo : uint64`, an `int512` as 8 words) -/

/-- constELL_LOWER_HALF = L mod 2^128, non-negative -/
theorem ell_lower_half :
    Lattice.constELL_LOWER_HALF.length = 2 ∧ allBelow 64 Lattice.constELL_LOWER_HALF = true ∧
    Lattice.constELL_LOWER_HALF.headD 0 < 2 ^ 63 ∧
    leWords64 Lattice.constELL_LOWER_HALF.reverse = L % 2 ^ 128 := by decide +kernel

theorem i128_zero_one : Lattice.i128Zero = [0, 0] ∧ Lattice.i128One = [0, 1] := by decide +kernel

theorem i512_one :
    Lattice.i512One.length = 8 ∧ allBelow 64 Lattice.i512One = true ∧ leWords64 Lattice.i512One = 1 := by decide +kernel

end Voi.Props.C20.Scalar
