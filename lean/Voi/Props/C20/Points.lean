/-
C20 — the point constants of package `curve`, in both limb encodings:
ED25519_BASEPOINT_POINT, RISTRETTO_BASEPOINT_POINT, constB_SHL_128, EIGHT_TORSION (= eightTorsionInnerDocHidden),
and the byte-string constants ED25519_BASEPOINT_COMPRESSED, RISTRETTO_BASEPOINT_COMPRESSED, X25519_BASEPOINT,
noncanonicalSignBits.  All proofs are kernel evaluations of closed statements about the regenerated literals.
-/
import Voi.Props.C20.Defs
import Voi.Spec.Ristretto
import Voi.Spec.Montgomery
import Voi.Gen.Consts_CurveU64
import Voi.Gen.Consts_CurveU32
namespace Voi.Props.C20.Points
open Voi Voi.Spec Voi.Spec.Limbs Voi.Props.C20 Voi.Gen.Consts

/-! ## The Spec's base point is the RFC 8032 base point -/

/-- `Pt.B` (defined in the Spec by decoding y = 4/5 with sign bit 0): y = 4/5, x even ("positive"), on the curve,
    reduced coordinates. -/
theorem specB : Pt.B.y * 5 % p = 4 ∧ Pt.B.x % 2 = 0 ∧ Pt.B.x < p ∧ Pt.B.y < p ∧ Pt.B.onCurve = true := by
  decide +kernel

/-- … and it has order L (L is prime, so exactly L). -/
theorem specB_order : Pt.smul L Pt.B = Pt.zero ∧ Pt.B ≠ Pt.zero := by decide +kernel

theorem B_eq : Pt.B = Blit := by decide +kernel
theorem B128_eq : Pt.smul (2 ^ 128) Pt.B = B128lit := by rw [B_eq]; decide +kernel

/-! ## ED25519_BASEPOINT_POINT / RISTRETTO_BASEPOINT_POINT -/

/-- 64-bit encoding: 4 field elements × 5 limbs; (X, Y, Z, T) = (x, y, 1, x·y) for B = (x, 4/5), x even. -/
theorem basepoint_u64 :
    CurveU64.ED25519_BASEPOINT_POINT.length = 20 ∧ limbs51Ok CurveU64.ED25519_BASEPOINT_POINT = true ∧
    IsAffineOf (extAt (fes51 CurveU64.ED25519_BASEPOINT_POINT) 0) Pt.B := by
  rw [B_eq]; decide +kernel

/-- 32-bit encoding: 4 field elements × 10 limbs. -/
theorem basepoint_u32 :
    CurveU32.ED25519_BASEPOINT_POINT.length = 40 ∧ limbs2625Ok CurveU32.ED25519_BASEPOINT_POINT = true ∧
    IsAffineOf (extAt (fes2625 CurveU32.ED25519_BASEPOINT_POINT) 0) Pt.B := by
  rw [B_eq]; decide +kernel

/-- RISTRETTO_BASEPOINT_POINT wraps a copy of ED25519_BASEPOINT_POINT. -/
theorem ristretto_basepoint_u64 : CurveU64.RISTRETTO_BASEPOINT_POINT = CurveU64.ED25519_BASEPOINT_POINT := by decide +kernel
theorem ristretto_basepoint_u32 : CurveU32.RISTRETTO_BASEPOINT_POINT = CurveU32.ED25519_BASEPOINT_POINT := by decide +kernel

/-! ## constB_SHL_128 represents [2^128]B (it is stored with Z ≠ 1) -/

theorem b_shl_128_u64 :
    CurveU64.constB_SHL_128.length = 20 ∧ limbs51Ok CurveU64.constB_SHL_128 = true ∧
    Represents (extAt (fes51 CurveU64.constB_SHL_128) 0) (Pt.smul (2 ^ 128) Pt.B) := by
  rw [B128_eq]; decide +kernel

theorem b_shl_128_u32 :
    CurveU32.constB_SHL_128.length = 40 ∧ limbs2625Ok CurveU32.constB_SHL_128 = true ∧
    Represents (extAt (fes2625 CurveU32.constB_SHL_128) 0) (Pt.smul (2 ^ 128) Pt.B) := by
  rw [B128_eq]; decide +kernel

/-- the affine point it denotes, computed with the Spec's own normalisation -/
theorem b_shl_128_toPt_u64 : (extAt (fes51 CurveU64.constB_SHL_128) 0).toPt = Pt.smul (2 ^ 128) Pt.B := by
  rw [B128_eq]; decide +kernel
theorem b_shl_128_toPt_u32 : (extAt (fes2625 CurveU32.constB_SHL_128) 0).toPt = Pt.smul (2 ^ 128) Pt.B := by
  rw [B128_eq]; decide +kernel

/-- surprising but harmless: the stored Z is not 1 -/
theorem b_shl_128_Z_ne_one : (extAt (fes51 CurveU64.constB_SHL_128) 0).Z ≠ 1 := by decide +kernel

/-! ## EIGHT_TORSION -/

/-- the generator of E[8] the library uses: entry 1 of the array -/
def T1 : Pt :=
  ⟨14399317868200118260347934320527232580618823971194345261214217575416788799818,
   55188659117513257062467267217118295137698188065244968500265048394206261417927⟩

/-- T₁ is on the curve and has order exactly 8: [8]T₁ = O and [4]T₁ ≠ O. It is the Spec's `Pt.T1`. -/
theorem T1_order_eight :
    T1.onCurve = true ∧ Pt.smul 8 T1 = Pt.zero ∧ Pt.smul 4 T1 ≠ Pt.zero ∧ T1 = Pt.T1 := by decide +kernel

/-- 64-bit encoding: entry i is (x, y, 1, x·y) for (x, y) = [i]T₁, which is on the curve, for all 8 entries. -/
theorem eight_torsion_u64 :
    CurveU64.EIGHT_TORSION.length = 160 ∧ limbs51Ok CurveU64.EIGHT_TORSION = true ∧
    ∀ i < 8, IsAffineOf (extAt (fes51 CurveU64.EIGHT_TORSION) i) (Pt.smul i T1) ∧ (Pt.smul i T1).onCurve = true := by
  decide +kernel

theorem eight_torsion_u32 :
    CurveU32.EIGHT_TORSION.length = 320 ∧ limbs2625Ok CurveU32.EIGHT_TORSION = true ∧
    ∀ i < 8, IsAffineOf (extAt (fes2625 CurveU32.EIGHT_TORSION) i) (Pt.smul i T1) ∧ (Pt.smul i T1).onCurve = true := by
  decide +kernel

/-- the Spec's `Pt.torsion` is the same enumeration -/
theorem spec_torsion : ∀ i < 8, Pt.torsion i = Pt.smul i T1 := by decide +kernel

/-- the 8 points are pairwise distinct (so the array enumerates all of E[8]) -/
theorem eight_torsion_distinct : ∀ i < 8, ∀ j < 8, Pt.smul i T1 = Pt.smul j T1 → i = j := by decide +kernel

theorem eight_torsion_alias_u64 : CurveU64.eightTorsionInnerDocHidden = CurveU64.EIGHT_TORSION := by decide +kernel
theorem eight_torsion_alias_u32 : CurveU32.eightTorsionInnerDocHidden = CurveU32.EIGHT_TORSION := by decide +kernel

/-! ## Byte-string constants (identical in both builds) -/

/-- ED25519_BASEPOINT_COMPRESSED = encode(B): 32 bytes, little-endian y with the parity of x in bit 255;
    and it is what the Spec's `Pt.encode` produces. -/
theorem ed25519_basepoint_compressed :
    IsBytes 32 CurveU64.ED25519_BASEPOINT_COMPRESSED ∧
    leBytes CurveU64.ED25519_BASEPOINT_COMPRESSED = encNat Pt.B ∧
    bytesToList (Pt.encode Pt.B) = CurveU64.ED25519_BASEPOINT_COMPRESSED := by
  rw [B_eq]; decide +kernel

/-- RISTRETTO_BASEPOINT_COMPRESSED = the RFC 9496 §A.1 generator encoding = the Spec's encoding of B. -/
theorem ristretto_basepoint_compressed :
    IsBytes 32 CurveU64.RISTRETTO_BASEPOINT_COMPRESSED ∧
    bytesToList (ofHex! "e2f2ae0a6abc4e71a884a961c500515f58e30b6aa582dd8db6a65945e08d2d76") = CurveU64.RISTRETTO_BASEPOINT_COMPRESSED ∧
    bytesToList (Ristretto.encode Ristretto.B) = CurveU64.RISTRETTO_BASEPOINT_COMPRESSED := by
  decide +kernel

/-- X25519_BASEPOINT = u = 9 (RFC 7748), which is the Montgomery u-coordinate of B. -/
theorem x25519_basepoint :
    IsBytes 32 CurveU64.X25519_BASEPOINT ∧ leBytes CurveU64.X25519_BASEPOINT = 9 ∧ Montgomery.ofEdwards Pt.B = 9 := by
  rw [B_eq]; decide +kernel

/-- noncanonicalSignBits = the two encodings with x = 0 and the sign bit set: (0, 1) and (0, −1). -/
theorem noncanonical_sign_bits :
    IsBytes 64 CurveU64.noncanonicalSignBits ∧
    leBytes (CurveU64.noncanonicalSignBits.take 32) = 1 + 2 ^ 255 ∧
    leBytes (CurveU64.noncanonicalSignBits.drop 32) = (p - 1) + 2 ^ 255 ∧
    Pt.onCurve ⟨0, 1⟩ = true ∧ Pt.onCurve ⟨0, p - 1⟩ = true := by decide +kernel

/-- the byte-string constants do not depend on the limb backend -/
theorem bytes_enc_agree :
    CurveU32.ED25519_BASEPOINT_COMPRESSED = CurveU64.ED25519_BASEPOINT_COMPRESSED ∧
    CurveU32.RISTRETTO_BASEPOINT_COMPRESSED = CurveU64.RISTRETTO_BASEPOINT_COMPRESSED ∧
    CurveU32.X25519_BASEPOINT = CurveU64.X25519_BASEPOINT ∧
    CurveU32.noncanonicalSignBits = CurveU64.noncanonicalSignBits := by decide +kernel

/-- sizes of the packed byte tables consumed by the interpreted unpack code: 256, 64, 64 entries of 96 bytes -/
theorem packed_sizes :
    CurveU64.packedEdwardsBasepointTable_size = 256 * 96 ∧ CurveU32.packedEdwardsBasepointTable_size = 256 * 96 ∧
    CurveU64.packedAffineOddMultiplesOfBasepoint_size = 64 * 96 ∧ CurveU32.packedAffineOddMultiplesOfBasepoint_size = 64 * 96 ∧
    CurveU64.packedAffineOddMultiplesOfBShl128_size = 64 * 96 ∧ CurveU32.packedAffineOddMultiplesOfBShl128_size = 64 * 96 := by
  decide +kernel

/-! ## The two encodings denote the same coordinates -/

theorem points_enc_agree :
    fes2625 CurveU32.ED25519_BASEPOINT_POINT = fes51 CurveU64.ED25519_BASEPOINT_POINT ∧
    fes2625 CurveU32.RISTRETTO_BASEPOINT_POINT = fes51 CurveU64.RISTRETTO_BASEPOINT_POINT ∧
    fes2625 CurveU32.constB_SHL_128 = fes51 CurveU64.constB_SHL_128 ∧
    fes2625 CurveU32.EIGHT_TORSION = fes51 CurveU64.EIGHT_TORSION := by decide +kernel

end Voi.Props.C20.Points
