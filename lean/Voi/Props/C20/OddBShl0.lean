/-
C20 — constAFFINE_ODD_MULTIPLES_OF_B_SHL_128 (64-bit literal), entries 0 … 31: entry j is the affine-Niels form of
[(2j+1)·2^128]B, the right-hand side computed by the Spec's scalar multiplication, in the kernel.
-/
import Voi.Props.C20.Points
namespace Voi.Props.C20.OddBShl0
open Voi Voi.Spec Voi.Spec.Limbs Voi.Props.C20 Voi.Gen.Consts

theorem entries : ∀ j < 32,
    nielsAt (fes51 CurveU64.constAFFINE_ODD_MULTIPLES_OF_B_SHL_128) (0 + j) =
    ANiels.ofPt (Pt.smul ((2 * (0 + j) + 1) * 2 ^ 128) Pt.B) := by
  rw [Points.B_eq]; decide +kernel

end Voi.Props.C20.OddBShl0
