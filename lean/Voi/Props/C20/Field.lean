/-
C20 — the field-element constants of packages `internal/field`, `curve` and `internal/elligator`,
in both limb encodings (5 × 51 bits and 10 × 25.5 bits).

For every constant one theorem says: the 64-bit literal and the 32-bit literal both are the *canonical*
encoding (right number of limbs, every limb within its nominal width, value < p) of one value `v`, `v` is the
value the name promises (decimal literal of RFC 9496 §4.1 where there is one), and `v` satisfies its defining
equation.  That the two encodings agree is a consequence (`field_enc_agree` spells it out).
All proofs are kernel evaluations of closed statements about the regenerated literals.
-/
import Voi.Props.C20.Defs
import Voi.Spec.Ristretto
import Voi.Spec.Montgomery
import Voi.Spec.H2C
import Voi.Gen.Consts_FieldU64
import Voi.Gen.Consts_FieldU32
import Voi.Gen.Consts_CurveU64
import Voi.Gen.Consts_CurveU32
import Voi.Gen.Consts_ElligatorU64
import Voi.Gen.Consts_ElligatorU32
namespace Voi.Props.C20.Field
open Voi Voi.Spec Voi.Spec.Limbs Voi.Props.C20 Voi.Gen.Consts

/-- `l` is the canonical 5 × 51-bit encoding of `v`: 5 limbs, each < 2^51, value exactly `v`, `v < p`. -/
def Is51 (l : List Nat) (v : Nat) : Prop := l.length = 5 ∧ allBelow 51 l = true ∧ fe51 l = v ∧ v < p
/-- `l` is the canonical 10 × 25.5-bit encoding of `v`: 10 limbs, alternately < 2^26 and < 2^25, value exactly `v`, `v < p`. -/
def Is2625 (l : List Nat) (v : Nat) : Prop := l.length = 10 ∧ limbs2625Ok l = true ∧ fe2625 l = v ∧ v < p
instance (l : List Nat) (v : Nat) : Decidable (Is51 l v) := by unfold Is51; infer_instance
instance (l : List Nat) (v : Nat) : Decidable (Is2625 l v) := by unfold Is2625; infer_instance

/-- both literals canonically encode `v` -/
def Both (l64 l32 : List Nat) (v : Nat) : Prop := Is51 l64 v ∧ Is2625 l32 v
instance (a b : List Nat) (v : Nat) : Decidable (Both a b v) := by unfold Both; infer_instance

theorem Both.agree {a b : List Nat} {v : Nat} (h : Both a b v) : fe2625 b = fe51 a := by
  rw [h.1.2.2.1, h.2.2.2.1]

/-! ## Curve constants (package `curve`) -/

/-- d = −121665/121666 -/
theorem edwards_d :
    Both CurveU64.constEDWARDS_D CurveU32.constEDWARDS_D
      37095705934669439343138083508754565189542113879843219016388785533085940283555 ∧
    (37095705934669439343138083508754565189542113879843219016388785533085940283555 * 121666 + 121665) % p = 0 ∧
    Fp.d = 37095705934669439343138083508754565189542113879843219016388785533085940283555 := by decide +kernel

/-- 2d -/
theorem edwards_d2 :
    Both CurveU64.constEDWARDS_D2 CurveU32.constEDWARDS_D2 (2 * Fp.d % p) ∧ Fp.d2 = 2 * Fp.d % p := by decide +kernel

/-- −1 -/
theorem minus_one : Both CurveU64.constMINUS_ONE CurveU32.constMINUS_ONE (p - 1) := by decide +kernel

/-- RFC 9496 §4.1 SQRT_AD_MINUS_ONE = sqrt(a·d − 1), a = −1 -/
theorem sqrt_ad_minus_one :
    Both CurveU64.constSQRT_AD_MINUS_ONE CurveU32.constSQRT_AD_MINUS_ONE
      25063068953384623474111414158702152701244531502492656460079210482610430750235 ∧
    Fp.sq 25063068953384623474111414158702152701244531502492656460079210482610430750235 = Fp.sub (Fp.neg Fp.d) 1 ∧
    Ristretto.SQRT_AD_MINUS_ONE = 25063068953384623474111414158702152701244531502492656460079210482610430750235 := by
  decide +kernel

/-- RFC 9496 §4.1 INVSQRT_A_MINUS_D = 1/sqrt(a − d), a = −1; it is the root SQRT_RATIO_M1(1, a − d) returns -/
theorem invsqrt_a_minus_d :
    Both CurveU64.constINVSQRT_A_MINUS_D CurveU32.constINVSQRT_A_MINUS_D
      54469307008909316920995813868745141605393597292927456921205312896311721017578 ∧
    Fp.mul (Fp.sq 54469307008909316920995813868745141605393597292927456921205312896311721017578) (Fp.sub (Fp.neg 1) Fp.d) = 1 ∧
    Fp.sqrtRatioM1 1 (Fp.sub (Fp.neg 1) Fp.d) = (true, 54469307008909316920995813868745141605393597292927456921205312896311721017578) ∧
    Ristretto.INVSQRT_A_MINUS_D = 54469307008909316920995813868745141605393597292927456921205312896311721017578 := by
  decide +kernel

/-- RFC 9496 §4.1 ONE_MINUS_D_SQ = 1 − d² -/
theorem one_minus_d_sq :
    Both CurveU64.constONE_MINUS_EDWARDS_D_SQUARED CurveU32.constONE_MINUS_EDWARDS_D_SQUARED
      1159843021668779879193775521855586647937357759715417654439879720876111806838 ∧
    1159843021668779879193775521855586647937357759715417654439879720876111806838 = Fp.sub 1 (Fp.sq Fp.d) ∧
    Ristretto.ONE_MINUS_D_SQ = 1159843021668779879193775521855586647937357759715417654439879720876111806838 := by
  decide +kernel

/-- RFC 9496 §4.1 D_MINUS_ONE_SQ = (d − 1)² -/
theorem d_minus_one_sq :
    Both CurveU64.constEDWARDS_D_MINUS_ONE_SQUARED CurveU32.constEDWARDS_D_MINUS_ONE_SQUARED
      40440834346308536858101042469323190826248399146238708352240133220865137265952 ∧
    40440834346308536858101042469323190826248399146238708352240133220865137265952 = Fp.sq (Fp.sub Fp.d 1) ∧
    Ristretto.D_MINUS_ONE_SQ = 40440834346308536858101042469323190826248399146238708352240133220865137265952 := by
  decide +kernel

/-! ## Package `internal/field` -/

/-- SQRT_M1 = 2^((p−1)/4) (`Fp.pow` is modular square-and-multiply), a square root of −1, the even ("non-negative") one;
    RFC 9496 §4.1 decimal value. -/
theorem sqrt_m1 :
    Both FieldU64.SQRT_M1 FieldU32.SQRT_M1
      19681161376707505956807079304988542015446066515923890162744021073123829784752 ∧
    19681161376707505956807079304988542015446066515923890162744021073123829784752 = Fp.pow 2 ((p - 1) / 4) ∧
    Fp.sq 19681161376707505956807079304988542015446066515923890162744021073123829784752 = p - 1 ∧
    19681161376707505956807079304988542015446066515923890162744021073123829784752 % 2 = 0 ∧
    Fp.sqrtM1 = 19681161376707505956807079304988542015446066515923890162744021073123829784752 := by decide +kernel

theorem field_minus_one : Both FieldU64.MinusOne FieldU32.MinusOne (p - 1) := by decide +kernel
theorem field_one : Both FieldU64.One FieldU32.One 1 := by decide +kernel
theorem field_two : Both FieldU64.Two FieldU32.Two 2 := by decide +kernel

/-- (A + 2)/4 = 121666 for A = 486662; a variable only in the 32-bit backend (an inlined Go `const` in the 64-bit one). -/
theorem aplus2_over_four : Is2625 FieldU32.constAPLUS2_OVER_FOUR 121666 ∧ 4 * 121666 = 486662 + 2 := by decide +kernel

/-! ## Package `internal/elligator` -/

theorem elligator_zero : Both ElligatorU64.constFieldZero ElligatorU32.constFieldZero 0 := by decide +kernel

/-- A = 486662, the Montgomery coefficient of curve25519 -/
theorem montgomery_a :
    Both ElligatorU64.constMONTGOMERY_A ElligatorU32.constMONTGOMERY_A 486662 ∧ Montgomery.A = 486662 := by decide +kernel

/-- −A -/
theorem montgomery_neg_a :
    Both ElligatorU64.constMONTGOMERY_NEG_A ElligatorU32.constMONTGOMERY_NEG_A (p - 486662) := by decide +kernel

/-- A² (no reduction needed) -/
theorem montgomery_a_squared :
    Both ElligatorU64.constMONTGOMERY_A_SQUARED ElligatorU32.constMONTGOMERY_A_SQUARED (486662 * 486662) := by decide +kernel

/-- sqrt(−(A + 2)): squares to −486664, the even root; it is the constant of RFC 9380 Appendix D.1 used by the H2C Spec. -/
theorem montgomery_sqrt_neg_a_plus_two :
    Both ElligatorU64.constMONTGOMERY_SQRT_NEG_A_PLUS_TWO ElligatorU32.constMONTGOMERY_SQRT_NEG_A_PLUS_TWO
      6853475219497561581579357271197624642482790079785650197046958215289687604742 ∧
    Fp.sq 6853475219497561581579357271197624642482790079785650197046958215289687604742 = p - (486662 + 2) ∧
    6853475219497561581579357271197624642482790079785650197046958215289687604742 % 2 = 0 ∧
    H2C.sqrtNeg486664 = 6853475219497561581579357271197624642482790079785650197046958215289687604742 := by decide +kernel

/-- U_FACTOR = −2·sqrt(−1) -/
theorem montgomery_u_factor :
    Both ElligatorU64.constMONTGOMERY_U_FACTOR ElligatorU32.constMONTGOMERY_U_FACTOR (Fp.neg (Fp.mul 2 Fp.sqrtM1)) := by
  decide +kernel

/-- V_FACTOR = sqrt(U_FACTOR): squares to U_FACTOR, the even root -/
theorem montgomery_v_factor :
    Both ElligatorU64.constMONTGOMERY_V_FACTOR ElligatorU32.constMONTGOMERY_V_FACTOR
      38214883241950591754978413199355411911188925816896391856984770930832735035198 ∧
    Fp.sq 38214883241950591754978413199355411911188925816896391856984770930832735035198 = Fp.neg (Fp.mul 2 Fp.sqrtM1) ∧
    38214883241950591754978413199355411911188925816896391856984770930832735035198 % 2 = 0 := by decide +kernel

/-! ## The two encodings of every field constant denote the same value -/

theorem field_enc_agree :
    fe2625 CurveU32.constEDWARDS_D = fe51 CurveU64.constEDWARDS_D ∧
    fe2625 CurveU32.constEDWARDS_D2 = fe51 CurveU64.constEDWARDS_D2 ∧
    fe2625 CurveU32.constMINUS_ONE = fe51 CurveU64.constMINUS_ONE ∧
    fe2625 CurveU32.constSQRT_AD_MINUS_ONE = fe51 CurveU64.constSQRT_AD_MINUS_ONE ∧
    fe2625 CurveU32.constINVSQRT_A_MINUS_D = fe51 CurveU64.constINVSQRT_A_MINUS_D ∧
    fe2625 CurveU32.constONE_MINUS_EDWARDS_D_SQUARED = fe51 CurveU64.constONE_MINUS_EDWARDS_D_SQUARED ∧
    fe2625 CurveU32.constEDWARDS_D_MINUS_ONE_SQUARED = fe51 CurveU64.constEDWARDS_D_MINUS_ONE_SQUARED ∧
    fe2625 FieldU32.SQRT_M1 = fe51 FieldU64.SQRT_M1 ∧
    fe2625 FieldU32.MinusOne = fe51 FieldU64.MinusOne ∧
    fe2625 FieldU32.One = fe51 FieldU64.One ∧
    fe2625 FieldU32.Two = fe51 FieldU64.Two ∧
    fe2625 ElligatorU32.constFieldZero = fe51 ElligatorU64.constFieldZero ∧
    fe2625 ElligatorU32.constMONTGOMERY_A = fe51 ElligatorU64.constMONTGOMERY_A ∧
    fe2625 ElligatorU32.constMONTGOMERY_NEG_A = fe51 ElligatorU64.constMONTGOMERY_NEG_A ∧
    fe2625 ElligatorU32.constMONTGOMERY_A_SQUARED = fe51 ElligatorU64.constMONTGOMERY_A_SQUARED ∧
    fe2625 ElligatorU32.constMONTGOMERY_SQRT_NEG_A_PLUS_TWO = fe51 ElligatorU64.constMONTGOMERY_SQRT_NEG_A_PLUS_TWO ∧
    fe2625 ElligatorU32.constMONTGOMERY_U_FACTOR = fe51 ElligatorU64.constMONTGOMERY_U_FACTOR ∧
    fe2625 ElligatorU32.constMONTGOMERY_V_FACTOR = fe51 ElligatorU64.constMONTGOMERY_V_FACTOR :=
  ⟨edwards_d.1.agree, edwards_d2.1.agree, minus_one.agree, sqrt_ad_minus_one.1.agree, invsqrt_a_minus_d.1.agree,
   one_minus_d_sq.1.agree, d_minus_one_sq.1.agree, sqrt_m1.1.agree, field_minus_one.agree, field_one.agree, field_two.agree,
   elligator_zero.agree, montgomery_a.1.agree, montgomery_neg_a.agree, montgomery_a_squared.agree,
   montgomery_sqrt_neg_a_plus_two.1.agree, montgomery_u_factor.agree, montgomery_v_factor.1.agree⟩

end Voi.Props.C20.Field
