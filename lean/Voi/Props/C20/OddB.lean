/-
C20 — constAFFINE_ODD_MULTIPLES_OF_BASEPOINT (64-bit literal): entry j is the affine-Niels form of [2j+1]B,
for all 64 entries; and constAFFINE_ODD_MULTIPLES_OF_B_SHL_128 read as the odd multiples of the point P = [2^128]B.
-/
import Voi.Props.C20.Points
namespace Voi.Props.C20.OddB
open Voi Voi.Spec Voi.Spec.Limbs Voi.Props.C20 Voi.Gen.Consts

theorem entries : ∀ j < 64,
    nielsAt (fes51 CurveU64.constAFFINE_ODD_MULTIPLES_OF_BASEPOINT) j = ANiels.ofPt (Pt.smul (2 * j + 1) Pt.B) := by
  rw [Points.B_eq]; decide +kernel

/-- entry j of the second table is [2j+1]P for P = [2^128]B (the form in which the table is used);
    `Voi.Props.C20.OddBShl*` prove the stronger "is [(2j+1)·2^128]B". -/
theorem shl128_entries_as_multiples_of_P : ∀ j < 64,
    nielsAt (fes51 CurveU64.constAFFINE_ODD_MULTIPLES_OF_B_SHL_128) j =
    ANiels.ofPt (Pt.smul (2 * j + 1) (Pt.smul (2 ^ 128) Pt.B)) := by
  rw [Points.B128_eq]; decide +kernel

end Voi.Props.C20.OddB
