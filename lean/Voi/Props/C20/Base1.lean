/-
C20 — fixed-base table, rows 4 … 7 (64-bit literal): entry (i, j) of ED25519_BASEPOINT_TABLE is the affine-Niels
form of [(j+1)·256^i]B, the right-hand side computed by the Spec's scalar multiplication, in the kernel.
One of eight modules (4 rows × 8 entries each) so that they build in parallel; assembled in `Voi.Props.C20`.
-/
import Voi.Props.C20.Points
namespace Voi.Props.C20.Base1
open Voi Voi.Spec Voi.Spec.Limbs Voi.Props.C20 Voi.Gen.Consts

theorem rows : ∀ i < 4, ∀ j < 8,
    nielsAt (fes51 CurveU64.ED25519_BASEPOINT_TABLE) (8 * (4 + i) + j) =
    ANiels.ofPt (Pt.smul ((j + 1) * 256 ^ (4 + i)) Pt.B) := by
  rw [Points.B_eq]; decide +kernel

end Voi.Props.C20.Base1
