/-
C03, Pippenger's bucket method: the running-sum identity and the bucket invariant.

  * `bucketSumLoop_eq` : the two running sums compute  Σ_j (j+1)•bucket_j
  * `bucketStep_bw`    : adding / subtracting `P` in bucket `|d|-1` changes the weighted bucket sum by `d•P`
  * `column_eq`        : `calculateColumn(idx) = Σ_i d_{i,idx}•P_i`
-/
import Voi.Props.C03.Basic

namespace Voi.Props.C03
open Voi.Model.Recoding Voi.Model.ScalarMul Voi.Props.C17

variable {G : Type} [AddCommGroup G]

/-- `Σ_{j<n} f j` -/
def rsum (f : Nat → G) : Nat → G
  | 0 => 0
  | n + 1 => rsum f n + f n

theorem rsum_zero (f : Nat → G) : ∀ n, (∀ j, j < n → f j = 0) → rsum f n = 0
  | 0, _ => rfl
  | n + 1, h => by
    show rsum f n + f n = 0
    rw [rsum_zero f n (fun j hj => h j (by omega)), h n (by omega), add_zero]

/-- changing one summand -/
theorem rsum_update (f g : Nat → G) (b : Nat) (h : ∀ j, j ≠ b → g j = f j) :
    ∀ n, rsum g n = rsum f n + (if b < n then g b - f b else 0)
  | 0 => by simp [rsum]
  | n + 1 => by
    show rsum g n + g n = rsum f n + f n + _
    rw [rsum_update f g b h n]
    by_cases hbn : b < n
    · have h1 : b < n + 1 := by omega
      have h2 : n ≠ b := by omega
      rw [if_pos hbn, if_pos h1, h n h2]; abel
    · by_cases hb : b = n
      · subst hb
        have h1 : b < b + 1 := by omega
        rw [if_neg hbn, if_pos h1]; abel
      · have h1 : ¬ b < n + 1 := by omega
        have h2 : n ≠ b := fun e => hb e.symm
        rw [if_neg hbn, if_neg h1, h n h2]; abel

/-! ## The running sums -/

/-- weighted bucket sum `Σ_{j<n} (j+1)•buckets[j]` -/
def bw (buckets : Array G) (n : Nat) : G := rsum (fun j => ((j : ℤ) + 1) • buckets.getD j 0) n

/-- **Bucket running-sum identity.** Entering the loop at index `i` with intermediate sum `inter` and total `sum`,
    the result is `sum + i•inter + Σ_{j<i} (j+1)•bucket_j`. -/
theorem bucketSumLoop_eq (buckets : Array G) : ∀ i (inter sum : G),
    ((grp G).bucketSumLoop buckets i (inter, sum)).2 = sum + (i : ℤ) • inter + bw buckets i
  | 0, inter, sum => by simp [GroupOps.bucketSumLoop, bw, rsum]
  | i + 1, inter, sum => by
    simp only [GroupOps.bucketSumLoop, grp_add, grp_zero]
    rw [bucketSumLoop_eq buckets i]
    show _ = sum + ((i + 1 : Nat) : ℤ) • inter + (bw buckets i + ((i : ℤ) + 1) • buckets.getD i 0)
    push_cast
    module

/-- the combination phase of `calculateColumn` returns `Σ_{j<bc} (j+1)•bucket_j` -/
theorem bucketSum_eq (buckets : Array G) (bc : Nat) (hbc : 1 ≤ bc) :
    ((grp G).bucketSumLoop buckets (bc - 1) (buckets.getD (bc - 1) 0, buckets.getD (bc - 1) 0)).2
      = bw buckets bc := by
  rw [bucketSumLoop_eq]
  obtain ⟨k, rfl⟩ : ∃ k, bc = k + 1 := ⟨bc - 1, by omega⟩
  show _ = bw buckets k + ((k : ℤ) + 1) • buckets.getD k 0
  simp only [Nat.add_sub_cancel]
  module

/-! ## The buckets -/

theorem getD_set (a : Array G) (i : Nat) (v : G) (j : Nat) :
    (a.setIfInBounds i v).getD j 0 = if j = i ∧ i < a.size then v else a.getD j 0 := by
  rw [Array.getD_eq_getD_getElem?, Array.getD_eq_getD_getElem?, Array.getElem?_setIfInBounds]
  by_cases hij : i = j
  · subst hij
    by_cases hi : i < a.size
    · simp [hi]
    · simp [hi]
  · have : ¬ j = i := fun h => hij h.symm
    simp [hij, this]

theorem getD_replicate (n j : Nat) : (Array.replicate n (0 : G)).getD j 0 = 0 := by
  rw [Array.getD_eq_getD_getElem?]
  by_cases h : j < n
  · simp [h]
  · have : (Array.replicate n (0 : G)).size ≤ j := by simp; omega
    simp [Array.getElem?_eq_none this]

theorem bw_replicate (n : Nat) : bw (Array.replicate n (0 : G)) n = 0 := by
  apply rsum_zero
  intro j _
  rw [getD_replicate, smul_zero]

/-- storing `v` in bucket `b` -/
theorem bw_set (buckets : Array G) (n b : Nat) (v : G) (hb : b < n) (hs : buckets.size = n) :
    bw (buckets.setIfInBounds b v) n = bw buckets n + ((b : ℤ) + 1) • (v - buckets.getD b 0) := by
  unfold bw
  rw [rsum_update (fun j => ((j : ℤ) + 1) • buckets.getD j 0)
    (fun j => ((j : ℤ) + 1) • (buckets.setIfInBounds b v).getD j 0) b
    (fun j hj => by simp only [getD_set]; rw [if_neg (fun h => hj h.1)]) n]
  rw [if_pos hb]
  simp only [getD_set]
  rw [if_pos (show True ∧ b < buckets.size from ⟨trivial, by omega⟩)]
  module

theorem bucketStep_size (buckets : Array G) (d : Int) (P : G) :
    ((grp G).bucketStep buckets d P).size = buckets.size := by
  unfold GroupOps.bucketStep
  by_cases h1 : d > 0
  · simp [h1]
  · by_cases h2 : d < 0
    · simp [h1, h2]
    · simp [h1, h2]

/-- **Signed digits into buckets.** A digit `d` with `|d| ≤ n` (= number of buckets) changes the weighted bucket
    sum by `d•P`: bucket `d-1` gets `+P` for `d > 0`, bucket `-d-1` gets `-P` for `d < 0`. -/
theorem bucketStep_bw (buckets : Array G) (n : Nat) (d : Int) (P : G) (hs : buckets.size = n)
    (hd : d.natAbs ≤ n) : bw ((grp G).bucketStep buckets d P) n = bw buckets n + d • P := by
  unfold GroupOps.bucketStep
  by_cases h1 : d > 0
  · simp only [h1, if_true, grp_add, grp_zero]
    rw [bw_set buckets n _ _ (by omega) hs]
    have : (((d - 1).toNat : Nat) : ℤ) + 1 = d := by omega
    rw [this]
    module
  · by_cases h2 : d < 0
    · simp only [h1, h2, if_true, if_false, grp_sub, grp_zero]
      rw [bw_set buckets n _ _ (by omega) hs]
      have : (((-d - 1).toNat : Nat) : ℤ) + 1 = -d := by omega
      rw [this]
      module
    · have : d = 0 := by omega
      simp [this]

/-- distribution phase of `calculateColumn` -/
theorem buckets_fold (n idx : Nat) (dps : List (Array Int × G))
    (hd : ∀ dp ∈ dps, (dig dp.1 idx).natAbs ≤ n) : ∀ (buckets : Array G), buckets.size = n →
    (dps.foldl (fun bs dp => (grp G).bucketStep bs (dp.1.getD idx 0) dp.2) buckets).size = n ∧
    bw (dps.foldl (fun bs dp => (grp G).bucketStep bs (dp.1.getD idx 0) dp.2) buckets) n
      = bw buckets n + lsum dps (fun dp => dig dp.1 idx • dp.2) := by
  induction dps with
  | nil => intro b hb; simp [hb]
  | cons dp dps ih =>
    intro b hb
    rw [List.foldl_cons]
    have hsz : ((grp G).bucketStep b (dp.1.getD idx 0) dp.2).size = n := by rw [bucketStep_size, hb]
    obtain ⟨h1, h2⟩ := ih (fun x hx => hd x (by simp [hx])) _ hsz
    refine ⟨h1, ?_⟩
    rw [h2, bucketStep_bw b n (dp.1.getD idx 0) dp.2 hb (hd dp (by simp)), lsum_cons]
    show _ + dig dp.1 idx • dp.2 + _ = _
    abel

/-- **Column.** With `bc ≥ 1` buckets and all digits of the column bounded by `bc` in magnitude,
    `calculateColumn(idx) = Σ_i d_{i,idx}•P_i`. -/
theorem column_eq (bc idx : Nat) (dps : List (Array Int × G)) (hbc : 1 ≤ bc)
    (hd : ∀ dp ∈ dps, (dig dp.1 idx).natAbs ≤ bc) :
    (grp G).column bc dps idx = lsum dps (fun dp => dig dp.1 idx • dp.2) := by
  unfold GroupOps.column
  simp only [grp_zero]
  rw [bucketSum_eq _ bc hbc]
  obtain ⟨_, h2⟩ := buckets_fold bc idx dps hd (Array.replicate bc 0) (by simp)
  rw [h2, bw_replicate, zero_add]

end Voi.Props.C03
