/-
C03 (generic part), shared vocabulary: the models of `Voi.Model.ScalarMul` instantiated with an arbitrary
commutative group, doubling chains, tables, and the algebra of "Horner" position loops.
-/
import Voi.Model.ScalarMul
import Voi.Props.C17
import Mathlib.Algebra.Group.Basic
import Mathlib.Algebra.Module.NatInt
import Mathlib.Tactic.Module
import Mathlib.Tactic.Abel
import Mathlib.Tactic.Ring
import Mathlib.Tactic.Linarith

namespace Voi.Props.C03
open Voi.Model.Recoding Voi.Model.ScalarMul Voi.Props.C17

set_option exponentiation.threshold 1024

variable {G : Type} [AddCommGroup G]

/-- the operations of a commutative group as the carrier of the models -/
def grp (G : Type) [AddCommGroup G] : GroupOps G :=
  { zero := 0, add := fun a b => a + b, neg := fun a => -a, dbl := fun a => a + a }

@[simp] theorem grp_zero : (grp G).zero = 0 := rfl
@[simp] theorem grp_add (a b : G) : (grp G).add a b = a + b := rfl
@[simp] theorem grp_neg (a : G) : (grp G).neg a = -a := rfl
@[simp] theorem grp_dbl (a : G) : (grp G).dbl a = a + a := rfl
@[simp] theorem grp_sub (a b : G) : (grp G).sub a b = a - b := by
  simp [GroupOps.sub, sub_eq_add_neg]

/-- `mulByPow2 x k = 2^k • x` -/
theorem mulByPow2_eq (x : G) (k : Nat) : (grp G).mulByPow2 x k = ((2 : ℤ) ^ k) • x := by
  induction k generalizing x with
  | zero => simp [GroupOps.mulByPow2]
  | succ k ih =>
    simp only [GroupOps.mulByPow2, grp_dbl]
    rw [ih, pow_succ]
    module


/-! ## Tables -/

theorem tableFrom_length (step : G) : ∀ n cur, ((grp G).tableFrom step n cur).length = n
  | 0, _ => rfl
  | n + 1, cur => by simp [GroupOps.tableFrom, tableFrom_length step n]

/-- entry `j` of `tableFrom step n cur` is `cur + j•step` -/
theorem tableFrom_getD (step : G) : ∀ n cur j, j < n →
    ((grp G).tableFrom step n cur).getD j 0 = cur + (j : ℤ) • step
  | 0, _, _, h => by omega
  | n + 1, cur, 0, _ => by simp [GroupOps.tableFrom]
  | n + 1, cur, j + 1, h => by
    simp only [GroupOps.tableFrom, List.getD_cons_succ, grp_add]
    rw [tableFrom_getD step n _ j (by omega)]
    push_cast
    module

theorem toArray_getD (l : List G) (j : Nat) : l.toArray.getD j 0 = l.getD j 0 := by
  simp [Array.getD_eq_getD_getElem?, List.getD_eq_getElem?_getD]

/-- `mkTable P = [P, 2P, …, 8P]` -/
theorem mkTable_getD (P : G) (j : Nat) (h : j < 8) :
    ((grp G).mkTable P).getD j 0 = ((j : ℤ) + 1) • P := by
  unfold GroupOps.mkTable
  rw [toArray_getD, tableFrom_getD P 8 P j h]
  module

/-- `mkNafTable n P = [P, 3P, …, (2n-1)P]` -/
theorem mkNafTable_getD (n : Nat) (P : G) (j : Nat) (h : j < n) :
    ((grp G).mkNafTable n P).getD j 0 = (2 * (j : ℤ) + 1) • P := by
  unfold GroupOps.mkNafTable
  rw [toArray_getD, tableFrom_getD _ n P j h]
  simp only [grp_dbl]
  module

/-! ## Lookup -/

/-- the masked scan selects entry `a - 1` when `a` is among the compared values `j0+1 .. j0+fuel` -/
theorem scan_eq (tbl : Array G) (a : Nat) : ∀ fuel j0 t,
    (grp G).scan tbl a fuel j0 t = if j0 + 1 ≤ a ∧ a ≤ j0 + fuel then tbl.getD (a - 1) 0 else t
  | 0, j0, t => by
    have : ¬ (j0 + 1 ≤ a ∧ a ≤ j0 + 0) := by omega
    rw [if_neg this]; rfl
  | fuel + 1, j0, t => by
    simp only [GroupOps.scan, grp_zero]
    rw [scan_eq tbl a fuel (j0 + 1)]
    by_cases h1 : a = j0 + 1
    · have h2 : ¬ (j0 + 1 + 1 ≤ a ∧ a ≤ j0 + 1 + fuel) := by omega
      have h3 : j0 + 1 ≤ a ∧ a ≤ j0 + (fuel + 1) := by omega
      rw [if_neg h2, if_pos h3, if_pos h1, h1]; rfl
    · by_cases h2 : j0 + 1 + 1 ≤ a ∧ a ≤ j0 + 1 + fuel
      · have h3 : j0 + 1 ≤ a ∧ a ≤ j0 + (fuel + 1) := by omega
        rw [if_pos h2, if_pos h3]
      · have h3 : ¬ (j0 + 1 ≤ a ∧ a ≤ j0 + (fuel + 1)) := by omega
        rw [if_neg h2, if_neg h3, if_neg h1]

/-- what `Lookup` computes, as direct indexing -/
theorem lookup_eq (tbl : Array G) (x : Int) :
    (grp G).lookup tbl x =
      if x = 0 ∨ 8 < x.natAbs then 0
      else if x < 0 then -tbl.getD (x.natAbs - 1) 0 else tbl.getD (x.natAbs - 1) 0 := by
  unfold GroupOps.lookup
  simp only [scan_eq, grp_zero, grp_neg]
  by_cases h0 : x = 0 ∨ 8 < x.natAbs
  · have : ¬ (0 + 1 ≤ x.natAbs ∧ x.natAbs ≤ 0 + 8) := by omega
    simp [h0, this]
  · have : 0 + 1 ≤ x.natAbs ∧ x.natAbs ≤ 0 + 8 := by omega
    simp [h0, this]

/-- **C03/lookup.** If `tbl[j] = (j+1)•P` for `j < 8` then `Lookup(x) = x•P` for every `-8 ≤ x ≤ 8`. -/
theorem lookup_correct (tbl : Array G) (P : G) (ht : ∀ j, j < 8 → tbl.getD j 0 = ((j : ℤ) + 1) • P)
    (x : Int) (hx : -8 ≤ x ∧ x ≤ 8) : (grp G).lookup tbl x = x • P := by
  rw [lookup_eq]
  by_cases h0 : x = 0
  · simp [h0]
  · have h1 : ¬ (x = 0 ∨ 8 < x.natAbs) := by omega
    simp only [h1, if_false]
    rw [ht (x.natAbs - 1) (by omega)]
    have hc : ((x.natAbs - 1 : Nat) : ℤ) + 1 = (x.natAbs : ℤ) := by omega
    rw [hc]
    by_cases hneg : x < 0
    · have : (x.natAbs : ℤ) = -x := by omega
      simp [hneg, this]
    · have : (x.natAbs : ℤ) = x := by omega
      simp [hneg, this]

/-- `Lookup` on the table built by `newProjectiveNielsPointLookupTable` -/
theorem lookup_mkTable (P : G) (x : Int) (hx : -8 ≤ x ∧ x ≤ 8) :
    (grp G).lookup ((grp G).mkTable P) x = x • P :=
  lookup_correct _ P (mkTable_getD P) x hx

/-- NAF table lookup: if `tbl[j] = (2j+1)•P` for `j < n` then `Lookup(x) = x•P` for odd `x < 2n` -/
theorem nafLookup_correct (n : Nat) (tbl : Array G) (P : G)
    (ht : ∀ j, j < n → tbl.getD j 0 = (2 * (j : ℤ) + 1) • P)
    (x : Nat) (hodd : x % 2 = 1) (hx : x < 2 * n) : (grp G).nafLookup tbl x = (x : ℤ) • P := by
  unfold GroupOps.nafLookup
  simp only [grp_zero]
  rw [ht (x / 2) (by omega)]
  have : 2 * ((x / 2 : Nat) : ℤ) + 1 = (x : ℤ) := by omega
  rw [this]

/-- **C03/NAF lookup.** One signed NAF digit (`0`, or odd with `|d| < 2n`; n = 8: |d| < 16, n = 64: |d| < 128)
    adds `d•P`. -/
theorem nafAdd_correct (n : Nat) (tbl : Array G) (P : G)
    (ht : ∀ j, j < n → tbl.getD j 0 = (2 * (j : ℤ) + 1) • P)
    (t : G) (d : Int) (hd : d = 0 ∨ (d % 2 = 1 ∧ d.natAbs < 2 * n)) :
    (grp G).nafAdd tbl t d = t + d • P := by
  unfold GroupOps.nafAdd
  rcases hd with h0 | ⟨hodd, hlt⟩
  · simp [h0]
  · by_cases hpos : d > 0
    · simp only [hpos, if_true, grp_add]
      rw [nafLookup_correct n tbl P ht d.toNat (by omega) (by omega)]
      have : (d.toNat : ℤ) = d := by omega
      rw [this]
    · have hneg : d < 0 := by omega
      simp only [hpos, hneg, if_true, if_false, grp_sub]
      rw [nafLookup_correct n tbl P ht (-d).toNat (by omega) (by omega)]
      have : ((-d).toNat : ℤ) = -d := by omega
      rw [this]
      module


/-! ## Sums over lists, the value Σ sᵢ•Pᵢ -/

/-- `Σ_{x ∈ l} f x` -/
def lsum {α : Type} (l : List α) (f : α → G) : G := (l.map f).sum

/-- `Σ sᵢ•Pᵢ` over the paired scalars and points -/
def msum (ss : List Nat) (ps : List G) : G := lsum (ss.zip ps) (fun t => t.1 • t.2)

section lsum
variable {α : Type}

@[simp] theorem lsum_nil (f : α → G) : lsum [] f = 0 := rfl
@[simp] theorem lsum_cons (x : α) (l : List α) (f : α → G) : lsum (x :: l) f = f x + lsum l f := by
  simp [lsum]

theorem lsum_append (l₁ l₂ : List α) (f : α → G) : lsum (l₁ ++ l₂) f = lsum l₁ f + lsum l₂ f := by
  simp [lsum]

theorem lsum_map {β : Type} (g : β → α) (l : List β) (f : α → G) : lsum (l.map g) f = lsum l (fun x => f (g x)) := by
  simp [lsum, Function.comp_def]

theorem lsum_congr (l : List α) (f g : α → G) (h : ∀ x ∈ l, f x = g x) : lsum l f = lsum l g := by
  induction l with
  | nil => rfl
  | cons x l ih =>
    rw [lsum_cons, lsum_cons, h x (by simp), ih (fun y hy => h y (by simp [hy]))]

theorem lsum_add (l : List α) (f g : α → G) : lsum l (fun x => f x + g x) = lsum l f + lsum l g := by
  induction l with
  | nil => simp
  | cons x l ih => rw [lsum_cons, lsum_cons, lsum_cons, ih]; abel

theorem lsum_zsmul (l : List α) (c : ℤ) (f : α → G) : lsum l (fun x => c • f x) = c • lsum l f := by
  induction l with
  | nil => simp
  | cons x l ih => rw [lsum_cons, lsum_cons, ih, smul_add]

theorem lsum_zero (l : List α) : lsum l (fun _ => (0 : G)) = 0 := by
  induction l with
  | nil => rfl
  | cons x l ih => rw [lsum_cons, ih, add_zero]

/-- an inner `for j` loop that adds one term per element -/
theorem foldl_eq_add (l : List α) (step : G → α → G) (f : α → G)
    (h : ∀ x ∈ l, ∀ q, step q x = q + f x) (q : G) : l.foldl step q = q + lsum l f := by
  induction l generalizing q with
  | nil => simp
  | cons x l ih =>
    rw [List.foldl_cons, h x (by simp), ih (fun y hy => h y (by simp [hy])), lsum_cons, add_assoc]

/-- **Horner step.** Adding position `i` to the partial values of all terms adds `2^(r·i)` times the column. -/
theorem wsum_succ (r : Nat) (l : List α) (c : α → Nat → ℤ) (p : α → G) (i : Nat) :
    lsum l (fun x => sumD r (c x) (i + 1) • p x)
      = lsum l (fun x => sumD r (c x) i • p x) + ((2 : ℤ) ^ (r * i)) • lsum l (fun x => c x i • p x) := by
  rw [← lsum_zsmul, ← lsum_add]
  apply lsum_congr
  intro x _
  show (sumD r (c x) i + c x i * 2 ^ (r * i)) • p x = _
  module

theorem wsum_zero (r : Nat) (l : List α) (c : α → Nat → ℤ) (p : α → G) :
    lsum l (fun x => sumD r (c x) 0 • p x) = 0 := by
  have : (fun x => sumD r (c x) 0 • p x) = fun _ => (0 : G) := by
    funext x; show (0 : ℤ) • p x = 0; simp
  rw [this, lsum_zero]

end lsum

end Voi.Props.C03
