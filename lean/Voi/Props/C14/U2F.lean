/-
C14 — `uniformToField25519` (h2c.go): 48 big-endian bytes, reversed, zero-extended to 64 bytes and
decoded by `SetBytesWide`, are `OS2IP(b) mod p` (RFC 9380 §5.2 hash_to_field, m = 1, L = 48).
Core Lean only.
-/
import Voi.Props.C14.Bytes
namespace Voi.Props.C14
open Voi Voi.Spec Voi.Spec.H2C Voi.Model.H2C Voi.Props.Bytes

theorem bzero_tail (n k : Nat) : ((bzero n).extract k n).data.toList = List.replicate (n - k) 0 := by
  rw [bzero_eq]
  simp [ByteArray.data_extract]

/-- the zero-extended little-endian string built by `uniformToField25519` has the value OS2IP(b) -/
theorem leNat_extended (b : Bytes) (hb : b.size ≤ 64) :
    leNat (goCopy (bzero elementWideSize) 0 (reversedByteSlice b)) = beNat b := by
  have hs : (reversedByteSlice b).size = b.size := reversedByteSlice_size b
  have he : elementWideSize = 64 := rfl
  rw [he]
  rw [goCopy_fits _ _ _ (by rw [bzero_size, hs]; omega)]
  rw [ByteArray.extract_same, ByteArray.empty_append, bzero_size, Nat.zero_add, hs]
  rw [leNat_eq, beNat_eq, ByteArray.toList_data_append, bzero_tail, leList_append_zeros,
    beList_eq_leList_reverse]
  unfold reversedByteSlice
  simp

/-- **`uniformToField25519` = OS2IP mod p** on 48 bytes (RFC 9380 §5.2 for F_p, L = 48). -/
theorem uniformToField_eq (b : Bytes) (hb : b.size = 48) :
    uniformToField25519 b = some (os2ipModP b) := by
  unfold uniformToField25519 setBytesWide os2ipModP
  have he : ell = 48 := rfl
  rw [he]
  rw [if_neg (by rw [hb]; decide), if_neg (by rw [goCopy_size, bzero_size]; exact fun h => h rfl)]
  rw [leNat_extended b (by omega)]

/-- it panics exactly on a wrong length (never reached from the suites: they pass 48-byte slices) -/
theorem uniformToField_none_iff (b : Bytes) : uniformToField25519 b = none ↔ b.size ≠ 48 := by
  by_cases hb : b.size = 48
  · rw [uniformToField_eq b hb]; simp [hb]
  · unfold uniformToField25519
    have he : ell = 48 := rfl
    rw [he, if_pos hb]; simp [hb]

end Voi.Props.C14
