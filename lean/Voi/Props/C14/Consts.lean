/-
C14 — the constants of the Elligator model are the constants of the Go code.  `Voi.Model.H2C` writes
the six constants of internal/elligator as numbers; `Voi.Gen.Consts_ElligatorU64/U32` are the limb
literals of constants_u64.go / constants_u32.go as dumped from the working tree by `go2ir -globals`
(regenerated on every run).  Both limb encodings are canonical encodings of exactly the model's numbers.
Core Lean only; depends on the regenerated `Voi/Gen` files (like C20), therefore NOT imported by
`Voi/Props/C14.lean`.
-/
import Voi.Model.H2C
import Voi.Props.C20.Field
namespace Voi.Props.C14
open Voi Voi.Spec Voi.Model.H2C Voi.Gen.Consts Voi.Props.C20.Field

theorem elligator_consts_tied :
    Both ElligatorU64.constMONTGOMERY_A ElligatorU32.constMONTGOMERY_A constMONTGOMERY_A ∧
    Both ElligatorU64.constMONTGOMERY_NEG_A ElligatorU32.constMONTGOMERY_NEG_A constMONTGOMERY_NEG_A ∧
    Both ElligatorU64.constMONTGOMERY_A_SQUARED ElligatorU32.constMONTGOMERY_A_SQUARED constMONTGOMERY_A_SQUARED ∧
    Both ElligatorU64.constMONTGOMERY_SQRT_NEG_A_PLUS_TWO ElligatorU32.constMONTGOMERY_SQRT_NEG_A_PLUS_TWO
      constMONTGOMERY_SQRT_NEG_A_PLUS_TWO ∧
    Both ElligatorU64.constMONTGOMERY_U_FACTOR ElligatorU32.constMONTGOMERY_U_FACTOR constMONTGOMERY_U_FACTOR ∧
    Both ElligatorU64.constMONTGOMERY_V_FACTOR ElligatorU32.constMONTGOMERY_V_FACTOR constMONTGOMERY_V_FACTOR ∧
    Both ElligatorU64.constFieldZero ElligatorU32.constFieldZero constFieldZero := by
  decide +kernel

end Voi.Props.C14

#print axioms Voi.Props.C14.elligator_consts_tied
