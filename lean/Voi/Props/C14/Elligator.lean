/-
C14 — Elligator 2.  The straight-line code of internal/elligator/elligator2.go (model:
`Voi.Model.H2C.montgomeryFlavor`, `edwardsFlavor`, `setEdwardsFromXY`; tied to the Go code by stream H3)
computes, for EVERY field element, exactly the map of RFC 9380 §6.7.1 (`map_to_curve_elligator2` on
curve25519, Z = 2, with `sgn0`, `inv0`, `is_square`, `sqrt`) followed by the rational map of §6.8.2 /
Appendix D.1 with its exceptional cases (`Voi.Spec.H2C.mapToCurveElligator2`, `mapToCurve`).

Mathlib is used here; this module must not be imported by Voi/Drv/* or Main.lean.
-/
import Mathlib.FieldTheory.Finite.Basic
import Mathlib.NumberTheory.LegendreSymbol.Basic
import Mathlib.Tactic.Ring
import Mathlib.Tactic.LinearCombination
import Voi.Proofs.SqrtRatio
import Voi.Proofs.SpecBridge
import Voi.Props.C10
import Voi.Model.H2C
namespace Voi.Props.C14
open Voi Voi.Spec Voi.Spec.H2C Voi.Model.H2C
open Voi.Proofs.SqrtRatio
open Voi.Props.C07 hiding toZ
/-- Mathlib has a root-level `toZ` (order theory); here `toZ` always means the cast ℕ → ZMod p -/
local notation "toZ" => Voi.Props.C07.toZ

/-! ### the constants of internal/elligator, as numbers and in `ZMod p` -/

/-- the Montgomery coefficient A = 486662 in `ZMod p` -/
noncomputable abbrev A : ZMod p := 486662

theorem cA_eq : constMONTGOMERY_A = J := rfl
theorem cNegA_eq : constMONTGOMERY_NEG_A = Fp.neg J := by decide +kernel
theorem cASq_eq : constMONTGOMERY_A_SQUARED = J * J := rfl
/-- sqrt(−(A+2)) is the constant of RFC 9380 Appendix D.1 -/
theorem cSqrt_eq : constMONTGOMERY_SQRT_NEG_A_PLUS_TWO = sqrtNeg486664 := by decide +kernel
theorem cSqrt_sq : Fp.sq constMONTGOMERY_SQRT_NEG_A_PLUS_TWO = Fp.neg 486664 := by decide +kernel
theorem cSqrt_lt : constMONTGOMERY_SQRT_NEG_A_PLUS_TWO < p := by decide +kernel
/-- U_FACTOR = −2·sqrt(−1) -/
theorem cU_eq : constMONTGOMERY_U_FACTOR = Fp.neg (Fp.mul 2 Fp.sqrtM1) := by decide +kernel
/-- V_FACTOR² = U_FACTOR -/
theorem cV_sq : Fp.sq constMONTGOMERY_V_FACTOR = constMONTGOMERY_U_FACTOR := by decide +kernel

theorem toZ_J : toZ J = A := by
  unfold J Voi.Props.C07.toZ; exact Nat.cast_ofNat
theorem toZ_Z : toZ Z = 2 := by
  unfold Z Voi.Props.C07.toZ; exact Nat.cast_ofNat
theorem toZ_486664 : toZ 486664 = (486664 : ZMod p) := by
  unfold Voi.Props.C07.toZ; exact Nat.cast_ofNat
theorem toZ_cA : toZ constMONTGOMERY_A = A := toZ_J
theorem toZ_cNegA : toZ constMONTGOMERY_NEG_A = -A := by rw [cNegA_eq, toZ_neg, toZ_J]
theorem toZ_cASq : toZ constMONTGOMERY_A_SQUARED = A * A := by
  rw [cASq_eq]; show ((J * J : Nat) : ZMod p) = _; rw [Nat.cast_mul]; exact congrArg₂ _ toZ_J toZ_J
theorem toZ_cU : toZ constMONTGOMERY_U_FACTOR = -(2 * I) := by
  rw [cU_eq, toZ_neg, toZ_mul, toZ_ofNat, I]
theorem toZ_cV_sq : toZ constMONTGOMERY_V_FACTOR * toZ constMONTGOMERY_V_FACTOR = -(2 * I) := by
  rw [← toZ_sq, cV_sq, toZ_cU]
theorem toZ_cSqrt_sq : toZ constMONTGOMERY_SQRT_NEG_A_PLUS_TWO ^ 2 = -486664 := by
  rw [pow_two, ← toZ_sq, cSqrt_sq, toZ_neg, toZ_486664]

/-! ### quadratic residues: 2 is a non-square, Euler's criterion for the Spec's `isSquare` -/

theorem two_pow_half : Fp.pow 2 (p / 2) = p - 1 := by decide +kernel

/-- **2 is not a square** in `ZMod p` (p ≡ 5 mod 8; Euler's criterion by kernel computation) -/
theorem two_nonsquare : ¬ IsSquare (2 : ZMod p) := by
  intro h
  have h1 := (ZMod.euler_criterion p two_ne_zero').1 h
  have h2 : toZ (Fp.pow 2 (p / 2)) = (2 : ZMod p) ^ (p / 2) := by
    rw [toZ_pow _ _ (by decide +kernel), toZ_ofNat]
  rw [two_pow_half, Voi.Props.C10.toZ_p_sub_one] at h2
  rw [← h2] at h1
  exact one_ne_neg_one h1.symm

theorem A_ne_zero : A ≠ 0 := by
  intro h
  have h2 : toZ J = 0 := by rw [toZ_J]; exact h
  have := (toZ_eq_zero_iff J).1 h2
  revert this
  decide

/-- **The exceptional case of §6.7.1 is empty**: `1 + Z·r² = 1 + 2r²` never vanishes, because
−1/2 is not a square (−1 is, 2 is not). -/
theorem one_add_two_sq_ne_zero (r : ZMod p) : 1 + 2 * r ^ 2 ≠ 0 := by
  intro h
  have hr : r ≠ 0 := by
    rintro rfl
    rw [zero_pow (by decide), mul_zero, add_zero] at h
    exact one_ne_zero h
  apply two_nonsquare
  refine ⟨I / r, ?_⟩
  rw [div_mul_div_comm, I_mul_I, eq_div_iff (mul_ne_zero hr hr)]
  linear_combination h

/-- the numerator of g(x1): `2A²r² − (1+2r²)²` never vanishes (2 is not a square) -/
theorem num_ne_zero (r : ZMod p) : 2 * (A * A) * r ^ 2 - (1 + 2 * r ^ 2) ^ 2 ≠ 0 := by
  intro h
  have hr : r ≠ 0 := by
    rintro rfl
    apply one_ne_zero (α := ZMod p)
    linear_combination -h
  apply two_nonsquare
  refine ⟨(1 + 2 * r ^ 2) / (A * r), ?_⟩
  have hAr : A * r ≠ 0 := mul_ne_zero A_ne_zero hr
  rw [div_mul_div_comm, eq_div_iff (mul_ne_zero hAr hAr)]
  linear_combination h

theorem pow_lt (a e : Nat) : Fp.pow a e < p := by
  unfold Fp.pow
  have gen : ∀ (fuel base e acc : Nat), acc < p → Fp.powAux base fuel e acc < p := by
    intro fuel
    induction fuel with
    | zero => intro base e acc h; exact h
    | succ n ih =>
      intro base e acc h
      unfold Fp.powAux
      split
      · exact h
      · apply ih
        split
        · exact Nat.mod_lt _ p_pos
        · exact h
  exact gen _ _ _ _ (by decide)

/-- the Spec's `is_square` (Euler's criterion computed by `Fp.pow`) decides squareness in `ZMod p` -/
theorem isSquare_iff (x : Nat) : isSquare x = true ↔ IsSquare (toZ x) := by
  unfold isSquare
  simp only [Bool.or_eq_true]
  have hl := pow_lt x ((p - 1) / 2)
  have hz : toZ (Fp.pow x ((p - 1) / 2)) = toZ x ^ ((p - 1) / 2) := toZ_pow _ _ (by decide +kernel)
  have he : (p - 1) / 2 = p / 2 := by decide +kernel
  rw [beq_iff hl (by decide : 0 < p), beq_iff hl (by decide : 1 < p), hz, toZ_zero, toZ_one, he]
  by_cases h0 : toZ x = 0
  · rw [h0]
    constructor
    · intro _; exact ⟨0, by ring⟩
    · intro _; left; exact zero_pow (by decide +kernel)
  · rw [ZMod.euler_criterion p h0]
    constructor
    · rintro (h | h)
      · exact absurd (pow_eq_zero_iff (by decide +kernel) |>.1 h) h0
      · exact h
    · intro h; right; exact h

/-! ### algebra of Elligator 2 on curve25519 (pure `ZMod p`; certificates from a Gröbner reduction)

`w = 1 + 2r²`, `N = A(2A²r² − w²)` (the code's numerator `t3`), `x1 = −A/w`, `x2 = −x1 − A`,
`g(x) = x³ + Ax² + x`.  Then `w³ g(x1) = N` and `w³ g(x2) = 2r² N`. -/
section Algebra
variable {r w N s x1 : ZMod p}

theorem G1 (hw : w = 1 + 2 * r ^ 2) (hN : N = (A * A * (2 * (r * r)) - w * w) * A) (hx : x1 * w = -A) :
    w ^ 3 * (x1 ^ 3 + A * x1 ^ 2 + x1) = N := by
  linear_combination (A ^ 3) * hw + (-1) * hN +
    (-A ^ 2 * w + A ^ 2 + A * w ^ 2 * x1 - A * w * x1 + w ^ 2 * x1 ^ 2 + w ^ 2) * hx

theorem G2 (hw : w = 1 + 2 * r ^ 2) (hN : N = (A * A * (2 * (r * r)) - w * w) * A) (hx : x1 * w = -A) :
    w ^ 3 * ((-x1 - A) ^ 3 + A * (-x1 - A) ^ 2 + (-x1 - A)) = 2 * r ^ 2 * N := by
  linear_combination (N + A ^ 3 * w - A ^ 3) * hw + (1 - w) * hN +
    (-A ^ 2 * w ^ 2 + 2 * A ^ 2 * w - A ^ 2 - 2 * A * w ^ 2 * x1 + A * w * x1 - w ^ 2 * x1 ^ 2 - w ^ 2) * hx

end Algebra

/-! ### the straight-line code of `montgomeryFlavor`, with its intermediate values named -/

/-- `u` after `u.Add(&t1, &field.One)`: 1 + 2r² -/
def mW (r : Nat) : Nat := Fp.add (feSquare2 r) fieldOne
/-- `t2` = (1 + 2r²)² -/
def mT2 (r : Nat) : Nat := Fp.sq (mW r)
/-- `t3`, the numerator A(2A²r² − (1+2r²)²) -/
def mT3 (r : Nat) : Nat :=
  Fp.mul (Fp.sub (Fp.mul constMONTGOMERY_A_SQUARED (feSquare2 r)) (mT2 r)) constMONTGOMERY_A
/-- `t1` before `InvSqrt`: numerator · denominator -/
def mT1 (r : Nat) : Nat := Fp.mul (Fp.mul (mT2 r) (mW r)) (mT3 r)
/-- the flag returned by `InvSqrt` -/
def mOk (r : Nat) : Bool := (Fp.sqrtRatioM1 1 (mT1 r)).1
/-- `t1` after `InvSqrt` -/
def mS (r : Nat) : Nat := (Fp.sqrtRatioM1 1 (mT1 r)).2

theorem montgomeryFlavor_unfold (r : Nat) : montgomeryFlavor r =
    (Fp.mul (Fp.mul (Fp.mul (Fp.mul
        (feConditionalAssign (Fp.mul (Fp.sq r) constMONTGOMERY_U_FACTOR) fieldOne (b2i (mOk r)))
        constMONTGOMERY_NEG_A) (mT3 r)) (mT2 r)) (Fp.sq (mS r)),
     feConditionalNegate
       (Fp.mul (Fp.mul (feConditionalAssign (Fp.mul r constMONTGOMERY_V_FACTOR) fieldOne (b2i (mOk r))) (mT3 r)) (mS r))
       (b2i (mOk r) ^^^ feIsNegative
         (Fp.mul (Fp.mul (feConditionalAssign (Fp.mul r constMONTGOMERY_V_FACTOR) fieldOne (b2i (mOk r))) (mT3 r)) (mS r)))) := by
  unfold montgomeryFlavor feInvSqrt mOk mS mT1 mT3 mT2 mW
  simp only []

theorem toZ_feSquare2 (r : Nat) : toZ (feSquare2 r) = 2 * (toZ r * toZ r) := by
  unfold feSquare2; rw [toZ_mul, toZ_sq, toZ_ofNat]

theorem toZ_mW (r : Nat) : toZ (mW r) = 1 + 2 * toZ r ^ 2 := by
  unfold mW fieldOne; rw [toZ_add, toZ_feSquare2, toZ_one]; ring

theorem toZ_mT2 (r : Nat) : toZ (mT2 r) = toZ (mW r) * toZ (mW r) := by
  unfold mT2; rw [toZ_sq]

theorem toZ_mT3 (r : Nat) :
    toZ (mT3 r) = (A * A * (2 * (toZ r * toZ r)) - toZ (mW r) * toZ (mW r)) * A := by
  unfold mT3; rw [toZ_mul, toZ_sub, toZ_mul, toZ_cASq, toZ_feSquare2, toZ_mT2, toZ_cA]

theorem toZ_mT1 (r : Nat) : toZ (mT1 r) = toZ (mW r) ^ 3 * toZ (mT3 r) := by
  unfold mT1; rw [toZ_mul, toZ_mul, toZ_mT2]; ring

theorem mW_ne (r : Nat) : toZ (mW r) ≠ 0 := by
  rw [toZ_mW]; exact one_add_two_sq_ne_zero _

theorem mT3_ne (r : Nat) : toZ (mT3 r) ≠ 0 := by
  rw [toZ_mT3, toZ_mW]
  apply mul_ne_zero _ A_ne_zero
  have := num_ne_zero (toZ r)
  intro h; apply this; linear_combination h

theorem mT1_ne (r : Nat) : toZ (mT1 r) ≠ 0 := by
  rw [toZ_mT1]; exact mul_ne_zero (pow_ne_zero _ (mW_ne r)) (mT3_ne r)

theorem toZ_one_ne : toZ 1 ≠ 0 := by rw [toZ_one]; exact one_ne_zero

/-- `InvSqrt` succeeded: `t1 · s² = 1` -/
theorem mS_ok {r : Nat} (h : mOk r = true) : toZ (mW r) ^ 3 * toZ (mT3 r) * toZ (mS r) ^ 2 = 1 := by
  have := sqrtRatioM1_ok toZ_one_ne (mT1_ne r) h
  rw [toZ_mT1, toZ_one] at this; exact this

/-- `InvSqrt` failed: `t1 · s² = i` -/
theorem mS_not_ok {r : Nat} (h : mOk r = false) : toZ (mW r) ^ 3 * toZ (mT3 r) * toZ (mS r) ^ 2 = I := by
  have := sqrtRatioM1_not_ok toZ_one_ne (mT1_ne r) h
  rw [toZ_mT1, toZ_one, mul_one] at this; exact this

theorem mOk_iff (r : Nat) : mOk r = true ↔ IsSquare (1 / (toZ (mW r) ^ 3 * toZ (mT3 r))) := by
  have := sqrtRatioM1_ok_iff toZ_one_ne (mT1_ne r)
  rw [toZ_mT1, toZ_one] at this; exact this

/-! ### the Spec's map, with its intermediate values named -/

/-- x1 = −J · inv0(1 + Z·u²) -/
def sX1 (r : Nat) : Nat := Fp.mul (Fp.neg J) (inv0 (Fp.add 1 (Fp.mul Z (Fp.sq r))))
/-- x2 = −x1 − J -/
def sX2 (r : Nat) : Nat := Fp.sub (Fp.neg (sX1 r)) J

theorem sX1_lt (r : Nat) : sX1 r < p := mul_lt _ _
theorem sX2_lt (r : Nat) : sX2 r < p := sub_lt _ _

theorem toZ_sX1 (r : Nat) : toZ (sX1 r) * toZ (mW r) = -A := by
  unfold sX1 inv0
  rw [toZ_mul, toZ_neg, toZ_J, Voi.Proofs.toZ_inv', toZ_add, toZ_mul, toZ_sq, toZ_Z, toZ_one, toZ_mW]
  have h := one_add_two_sq_ne_zero (toZ r)
  have e : (1 : ZMod p) + 2 * (toZ r * toZ r) = 1 + 2 * toZ r ^ 2 := by ring
  rw [e, mul_assoc, inv_mul_cancel₀ h, mul_one]

theorem toZ_sX2 (r : Nat) : toZ (sX2 r) = -toZ (sX1 r) - A := by
  unfold sX2; rw [toZ_sub, toZ_neg, toZ_J]

/-- the branch `x1 == 0 ⇒ x1 := −J` of §6.7.1 (the image of the exceptional case) is never taken -/
theorem sX1_ne_zero (r : Nat) : (sX1 r == 0) = false := by
  rw [← Bool.not_eq_true, beq_iff_eq]
  intro h
  have := toZ_sX1 r
  rw [h, toZ_zero, zero_mul] at this
  exact A_ne_zero (neg_eq_zero.1 this.symm)

theorem mapToCurveElligator2_unfold (r : Nat) : mapToCurveElligator2 r =
    if isSquare (montG (sX1 r)) then (sX1 r, sqrtSgn (montG (sX1 r)) 1)
    else (sX2 r, sqrtSgn (montG (sX2 r)) 0) := by
  unfold mapToCurveElligator2
  simp only []
  have : (if (Fp.mul (Fp.neg J) (inv0 (Fp.add 1 (Fp.mul Z (Fp.sq r)))) == 0) = true then Fp.neg J
      else Fp.mul (Fp.neg J) (inv0 (Fp.add 1 (Fp.mul Z (Fp.sq r))))) = sX1 r := by
    have h := sX1_ne_zero r
    unfold sX1 at h ⊢
    rw [h]; rfl
  rw [this]
  rfl

theorem toZ_montG (x : Nat) : toZ (montG x) = toZ x ^ 3 + A * toZ x ^ 2 + toZ x := by
  unfold montG; rw [toZ_add, toZ_add, toZ_mul, toZ_sq, toZ_mul, toZ_sq, toZ_J]; ring

/-- `w³ g(x1) = N` for the values of the code and of the Spec -/
theorem gx1_eq (r : Nat) : toZ (mW r) ^ 3 * toZ (montG (sX1 r)) = toZ (mT3 r) := by
  rw [toZ_montG]
  exact G1 (toZ_mW r) (toZ_mT3 r) (toZ_sX1 r)

/-- `w³ g(x2) = 2r² N` -/
theorem gx2_eq (r : Nat) : toZ (mW r) ^ 3 * toZ (montG (sX2 r)) = 2 * toZ r ^ 2 * toZ (mT3 r) := by
  rw [toZ_montG, toZ_sX2]
  exact G2 (toZ_mW r) (toZ_mT3 r) (toZ_sX1 r)

/-! ### `sgn0`, `sqrt` of the Spec -/

theorem sgn0_of_nonneg {y : Nat} (hn : Fp.isNeg y = false) : sgn0 y = 0 := by
  unfold Fp.isNeg at hn
  unfold sgn0
  have : ¬ y % p % 2 = 1 := by simpa using hn
  omega

/-- a reduced non-negative `y` with `y² = g` IS the Spec's `sqrt g` -/
theorem sqrt_eq {g y : Nat} (hy : y < p) (hn : Fp.isNeg y = false) (h : toZ y ^ 2 = toZ g) : sqrt g = y := by
  unfold sqrt
  rw [sqrtRatioM1_unique toZ_one_ne hy hn (by rw [toZ_one, one_mul]; exact h)]

theorem sqrtSgn_one {g y : Nat} (hy : y < p) (hn : Fp.isNeg y = false) (h : toZ y ^ 2 = toZ g) :
    sqrtSgn g 1 = Fp.neg y := by
  unfold sqrtSgn
  simp only [sqrt_eq hy hn h, sgn0_of_nonneg hn]
  rfl

theorem sqrtSgn_zero {g y : Nat} (hy : y < p) (hn : Fp.isNeg y = false) (h : toZ y ^ 2 = toZ g) :
    sqrtSgn g 0 = y := by
  unfold sqrtSgn
  simp only [sqrt_eq hy hn h, sgn0_of_nonneg hn]
  rfl

/-! ### the sign rule `v.ConditionalNegate(isSquare ^ v.IsNegative())` -/

theorem condNeg_square {v : Nat} (hv : v < p) :
    feConditionalNegate v (b2i true ^^^ feIsNegative v) = Fp.neg (Fp.abs v) := by
  unfold feConditionalNegate feIsNegative Fp.abs b2i
  cases h : Fp.isNeg v
  · simp [Nat.mod_eq_of_lt hv]
  · simp [Voi.Props.C10.neg_neg_of_lt hv]

theorem condNeg_nonsquare {v : Nat} (hv : v < p) :
    feConditionalNegate v (b2i false ^^^ feIsNegative v) = Fp.abs v := by
  unfold feConditionalNegate feIsNegative Fp.abs b2i
  cases h : Fp.isNeg v
  · simp [Nat.mod_eq_of_lt hv]
  · simp

/-! ### Montgomery level: `montgomeryFlavor` = `map_to_curve_elligator2` -/

/-- `v` before the sign fix, square case: `1 · t3 · s` -/
def mV0s (r : Nat) : Nat := Fp.mul (Fp.mul fieldOne (mT3 r)) (mS r)
/-- `v` before the sign fix, non-square case: `r · V_FACTOR · t3 · s` -/
def mV0n (r : Nat) : Nat := Fp.mul (Fp.mul (Fp.mul r constMONTGOMERY_V_FACTOR) (mT3 r)) (mS r)
/-- `u`, square case -/
def mUs (r : Nat) : Nat :=
  Fp.mul (Fp.mul (Fp.mul (Fp.mul fieldOne constMONTGOMERY_NEG_A) (mT3 r)) (mT2 r)) (Fp.sq (mS r))
/-- `u`, non-square case -/
def mUn (r : Nat) : Nat :=
  Fp.mul (Fp.mul (Fp.mul (Fp.mul (Fp.mul (Fp.sq r) constMONTGOMERY_U_FACTOR) constMONTGOMERY_NEG_A) (mT3 r)) (mT2 r))
    (Fp.sq (mS r))

theorem montgomeryFlavor_square {r : Nat} (h : mOk r = true) :
    montgomeryFlavor r = (mUs r, Fp.neg (Fp.abs (mV0s r))) := by
  rw [montgomeryFlavor_unfold, h]
  have e : ∀ a b, feConditionalAssign a b (b2i true) = b := fun a b => rfl
  rw [e, e, condNeg_square (mul_lt _ _)]
  rfl

theorem montgomeryFlavor_nonsquare {r : Nat} (h : mOk r = false) :
    montgomeryFlavor r = (mUn r, Fp.abs (mV0n r)) := by
  rw [montgomeryFlavor_unfold, h]
  have e : ∀ a b, feConditionalAssign a b (b2i false) = a := fun a b => rfl
  rw [e, e, condNeg_nonsquare (mul_lt _ _)]
  rfl

/-- square case: `u = x1` -/
theorem mUs_eq {r : Nat} (h : mOk r = true) : mUs r = sX1 r := by
  apply toZ_inj (mul_lt _ _) (sX1_lt r)
  have hw := mW_ne r
  apply mul_right_cancel₀ hw
  rw [toZ_sX1]
  unfold fieldOne
  rw [toZ_mul, toZ_mul, toZ_mul, toZ_mul, toZ_sq, toZ_one, toZ_cNegA, toZ_mT2]
  linear_combination (-A) * mS_ok h

/-- square case: `v² = g(x1)` -/
theorem mV0s_sq {r : Nat} (h : mOk r = true) : toZ (mV0s r) ^ 2 = toZ (montG (sX1 r)) := by
  have hw3 : toZ (mW r) ^ 3 ≠ 0 := pow_ne_zero _ (mW_ne r)
  apply mul_left_cancel₀ hw3
  rw [gx1_eq]
  unfold mV0s fieldOne
  rw [toZ_mul, toZ_mul, toZ_one]
  linear_combination (toZ (mT3 r)) * mS_ok h

/-- non-square case: `u = x2` -/
theorem mUn_eq {r : Nat} (h : mOk r = false) : mUn r = sX2 r := by
  apply toZ_inj (mul_lt _ _) (sX2_lt r)
  have hw := mW_ne r
  apply mul_right_cancel₀ hw
  rw [toZ_sX2]
  rw [toZ_mul, toZ_mul, toZ_mul, toZ_mul, toZ_mul, toZ_sq, toZ_sq, toZ_cU, toZ_cNegA, toZ_mT2]
  linear_combination (2 * I * A * toZ r * toZ r) * mS_not_ok h + (2 * A * toZ r * toZ r) * I_mul_I
    + toZ_sX1 r + A * toZ_mW r

/-- non-square case: `v² = g(x2)` -/
theorem mV0n_sq {r : Nat} (h : mOk r = false) : toZ (mV0n r) ^ 2 = toZ (montG (sX2 r)) := by
  have hw3 : toZ (mW r) ^ 3 ≠ 0 := pow_ne_zero _ (mW_ne r)
  apply mul_left_cancel₀ hw3
  rw [gx2_eq]
  unfold mV0n
  rw [toZ_mul, toZ_mul, toZ_mul]
  linear_combination (toZ r ^ 2 * toZ (mT3 r) * (toZ constMONTGOMERY_V_FACTOR * toZ constMONTGOMERY_V_FACTOR)) * mS_not_ok h
    + (toZ r ^ 2 * toZ (mT3 r) * I) * toZ_cV_sq + (-2 * toZ r ^ 2 * toZ (mT3 r)) * I_mul_I

/-- the flag of `InvSqrt(numerator · denominator)` is `is_square(g(x1))` -/
theorem mOk_eq_isSquare (r : Nat) : mOk r = isSquare (montG (sX1 r)) := by
  cases h : mOk r
  · -- not a square
    symm
    rw [← Bool.not_eq_true, isSquare_iff]
    rintro ⟨c, hc⟩
    have hnot : ¬ mOk r = true := by rw [h]; exact Bool.noConfusion
    apply hnot
    rw [mOk_iff]
    have hN := mT3_ne r
    have hw3 : toZ (mW r) ^ 3 ≠ 0 := pow_ne_zero _ (mW_ne r)
    refine ⟨c / toZ (mT3 r), ?_⟩
    rw [div_mul_div_comm, div_eq_div_iff (mul_ne_zero hw3 hN) (mul_ne_zero hN hN)]
    have := gx1_eq r
    rw [hc] at this
    linear_combination (-toZ (mT3 r)) * this
  · symm
    rw [isSquare_iff]
    exact ⟨toZ (mV0s r), by rw [← mV0s_sq h, pow_two]⟩

/-- **Montgomery level, all inputs.**  The straight-line `montgomeryFlavor` returns exactly the
point (s, t) of RFC 9380 §6.7.1 `map_to_curve_elligator2` for curve25519 (Z = 2), including the
choice of the root by `sgn0`. For every natural `r` (the field decoder only produces `r < p`). -/
theorem montgomery_model_eq_spec (r : Nat) : montgomeryFlavor r = mapToCurveElligator2 r := by
  rw [mapToCurveElligator2_unfold, ← mOk_eq_isSquare]
  cases h : mOk r
  · rw [montgomeryFlavor_nonsquare h]
    simp only [Bool.false_eq_true, if_false]
    rw [mUn_eq h, sqrtSgn_zero (abs_lt _) (abs_nonneg _) (by rw [toZ_abs_sq]; exact mV0n_sq h)]
  · rw [montgomeryFlavor_square h]
    simp only [if_true]
    rw [mUs_eq h, sqrtSgn_one (abs_lt _) (abs_nonneg _) (by rw [toZ_abs_sq]; exact mV0s_sq h)]

/-- the returned pair is reduced and satisfies the Montgomery curve equation `v² = u³ + Au² + u` -/
theorem montgomery_on_curve (r : Nat) :
    (montgomeryFlavor r).1 < p ∧ (montgomeryFlavor r).2 < p ∧
    toZ (montgomeryFlavor r).2 ^ 2 =
      toZ (montgomeryFlavor r).1 ^ 3 + A * toZ (montgomeryFlavor r).1 ^ 2 + toZ (montgomeryFlavor r).1 := by
  cases h : mOk r
  · rw [montgomeryFlavor_nonsquare h]
    simp only []
    refine ⟨mul_lt _ _, abs_lt _, ?_⟩
    rw [toZ_abs_sq, mV0n_sq h, mUn_eq h, toZ_montG]
  · rw [montgomeryFlavor_square h]
    simp only []
    refine ⟨mul_lt _ _, neg_lt _, ?_⟩
    rw [Voi.Props.C07.toZ_neg, neg_pow_two, toZ_abs_sq, mV0s_sq h, mUs_eq h, toZ_montG]

/-! ### the rational map curve25519 → edwards25519 (RFC 9380 Appendix D.1, RFC 7748 §4.1) -/

/-- `(u, v)` on `v² = u³ + Au² + u`, `v ≠ 0`, `u ≠ −1` ⇒ `(c·u/v, (u−1)/(u+1))` with `c² = −(A+2)`
is on `−x² + y² = 1 + d x² y²`, `d = −121665/121666` (certificate from a Gröbner reduction). -/
theorem edwards_of_montgomery {x y u v c d : ZMod p} (hv : v ≠ 0) (hu : u + 1 ≠ 0)
    (hx : x * v = c * u) (hy : y * (u + 1) = u - 1) (hc : c ^ 2 = -486664)
    (hcurve : v ^ 2 = u ^ 3 + A * u ^ 2 + u) (hd : d * 121666 = -121665) :
    y ^ 2 - x ^ 2 = 1 + d * (x ^ 2 * y ^ 2) := by
  have h6 : (121666 : ZMod p) ≠ 0 := Voi.Proofs.num_121666_ne p Voi.Proofs.p_eq
  have hK : (121666 : ZMod p) * v ^ 2 * (u + 1) ^ 2 ≠ 0 :=
    mul_ne_zero (mul_ne_zero h6 (pow_ne_zero _ hv)) (pow_ne_zero _ hu)
  apply mul_left_cancel₀ hK
  linear_combination
    (-121666*c*d*u^3*y^2 - 243332*c*d*u^2*y^2 - 121666*c*d*u*y^2 - 121666*c*u^3 - 243332*c*u^2 - 121666*c*u
      - 121666*d*u^2*v*x*y^2 - 243332*d*u*v*x*y^2 - 121666*d*v*x*y^2 - 121666*u^2*v*x - 243332*u*v*x - 121666*v*x) * hx
    + (-121666*c^2*d*u^3*y - 121666*c^2*d*u^3 - 121666*c^2*d*u^2*y + 121666*c^2*d*u^2 + 121666*u*v^2*y
      + 121666*u*v^2 + 121666*v^2*y - 121666*v^2) * hy
    + (-121666*d*u^4 + 243332*d*u^3 - 121666*d*u^2 - 121666*u^4 - 243332*u^3 - 121666*u^2) * hc
    + (-486664*u) * hcurve
    + (486664*u^4 - 973328*u^3 + 486664*u^2) * hd

/-- the Spec's rational map lands on the curve whenever its input is on curve25519 -/
theorem montToEdwards_onCurve {s t : Nat}
    (hcurve : toZ t ^ 2 = toZ s ^ 3 + A * toZ s ^ 2 + toZ s) : (montToEdwards s t).onCurve = true := by
  unfold montToEdwards
  by_cases hex : (t % p == 0 || Fp.add s 1 == 0) = true
  · rw [if_pos hex]; exact Voi.Proofs.zero_onCurve
  · rw [if_neg hex]
    rw [Bool.or_eq_true, not_or, beq_iff_eq, beq_iff_eq] at hex
    obtain ⟨ht, hs⟩ := hex
    have ht' : toZ t ≠ 0 := fun h => ht ((toZ_eq_zero_iff t).1 h)
    have hs' : toZ s + 1 ≠ 0 := by
      intro h
      apply hs
      apply eq_zero_of_toZ (add_lt _ _)
      rw [toZ_add, toZ_one]; exact h
    rw [Voi.Props.C10.onCurve_iff]
    refine ⟨mul_lt _ _, mul_lt _ _, ?_⟩
    simp only []
    apply edwards_of_montgomery ht' hs' _ _ _ hcurve
    · rw [Voi.Proofs.toZ_d]; exact Voi.Proofs.d25519_mul
    · exact toZ sqrtNeg486664
    · rw [toZ_mul, toZ_mul, Voi.Proofs.toZ_inv', mul_assoc, mul_assoc, inv_mul_cancel₀ ht', mul_one]
    · rw [toZ_mul, toZ_sub, toZ_one, Voi.Proofs.toZ_inv', toZ_add, toZ_one, mul_assoc, inv_mul_cancel₀ hs', mul_one]
    · rw [← cSqrt_eq]; exact toZ_cSqrt_sq

/-- **`elligator_on_curve`**: the point of RFC 9380 §6.8.2 is on edwards25519, for every input -/
theorem mapToCurve_onCurve (r : Nat) : (mapToCurve r).onCurve = true := by
  unfold mapToCurve
  have h := montgomery_on_curve r
  rw [montgomery_model_eq_spec] at h
  generalize mapToCurveElligator2 r = st at h
  obtain ⟨s, t⟩ := st
  exact montToEdwards_onCurve h.2.2

/-! ### Edwards level: `EdwardsFlavor` -/

/-- the affine coordinates computed by `EdwardsFlavor` from `(u, v)`, before `SetEdwardsFromXY` -/
def eXY (u v : Nat) : Pt :=
  ⟨feConditionalAssign (Fp.mul (Fp.mul (Fp.inv v) u) constMONTGOMERY_SQRT_NEG_A_PLUS_TWO) constFieldZero
     (feIsZero (Fp.add u fieldOne) ||| feIsZero v),
   feConditionalAssign (Fp.mul (Fp.sub u fieldOne) (Fp.inv (Fp.add u fieldOne))) fieldOne
     (feIsZero (Fp.add u fieldOne) ||| feIsZero v)⟩

theorem edwardsFlavor_unfold (r : Nat) :
    edwardsFlavor r =
      setEdwardsFromXY (eXY (montgomeryFlavor r).1 (montgomeryFlavor r).2).x
        (eXY (montgomeryFlavor r).1 (montgomeryFlavor r).2).y := by
  unfold edwardsFlavor eXY
  simp only []

/-- the straight-line rational map with its `ConditionalAssign`s IS the Spec's rational map with
its exceptional cases (`v = 0` or `u = −1` ↦ (0, 1)) -/
theorem eXY_eq (u v : Nat) : eXY u v = montToEdwards u v := by
  unfold eXY montToEdwards feIsZero fieldOne constFieldZero
  rw [Nat.mod_eq_of_lt (add_lt u 1), cSqrt_eq]
  have hx : Fp.mul (Fp.mul (Fp.inv v) u) sqrtNeg486664 = Fp.mul sqrtNeg486664 (Fp.mul u (Fp.inv v)) := by
    apply toZ_inj (mul_lt _ _) (mul_lt _ _)
    rw [toZ_mul, toZ_mul, toZ_mul, toZ_mul]; ring
  rw [hx]
  cases h1 : (Fp.add u 1 == 0) <;> cases h2 : (v % p == 0) <;>
    simp [b2i, feConditionalAssign, Pt.zero]

/-- `SetEdwardsFromXY` is compression followed by decompression -/
theorem setEdwardsFromXY_eq (x y : Nat) : setEdwardsFromXY x y = Pt.decode (Pt.encode ⟨x, y⟩) := by
  unfold setEdwardsFromXY Pt.encode feIsNegative b2i
  cases Fp.isNeg x <;> simp

theorem setEdwardsFromXY_eq' (P : Pt) : setEdwardsFromXY P.x P.y = Pt.decode (Pt.encode P) := by
  cases P; exact setEdwardsFromXY_eq _ _

/-- **Elligator 2, all inputs.**  For every representative `r`, the straight-line `EdwardsFlavor`
(`montgomeryFlavor`, the rational map with conditional assignments, compression and
decompression) never panics and returns exactly the affine edwards25519 point of RFC 9380 §6.8.2
`map_to_curve_elligator2_edwards25519` (§6.7.1 Elligator 2 with Z = 2, then Appendix D.1). -/
theorem elligator_model_eq_spec (r : Nat) : edwardsFlavor r = some (mapToCurve r) := by
  rw [edwardsFlavor_unfold, setEdwardsFromXY_eq', eXY_eq, montgomery_model_eq_spec]
  have e : montToEdwards (mapToCurveElligator2 r).1 (mapToCurveElligator2 r).2 = mapToCurve r := by
    unfold mapToCurve
    generalize mapToCurveElligator2 r = st
    obtain ⟨s, t⟩ := st
    simp only []
  rw [e]
  exact Voi.Props.C10.encode_decode (mapToCurve_onCurve r)

/-- **`elligator_on_curve`**: the point returned by the code satisfies the curve equation -/
theorem elligator_on_curve (r : Nat) : ∃ P, edwardsFlavor r = some P ∧ P.onCurve = true :=
  ⟨mapToCurve r, elligator_model_eq_spec r, mapToCurve_onCurve r⟩

/-- `EdwardsFlavor` never reaches the `panic` of `SetEdwardsFromXY` -/
theorem edwardsFlavor_no_panic (r : Nat) : edwardsFlavor r ≠ none := by
  rw [elligator_model_eq_spec]; exact Option.some_ne_none _

end Voi.Props.C14
