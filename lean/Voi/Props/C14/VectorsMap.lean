/-
C14 — non-vacuity, second part: Elligator 2 and the edwards25519 suites of RFC 9380 Appendix J.5
evaluated by the Lean kernel on the code-shaped model (`decide +kernel`); core Lean only.
-/
import Voi.Model.H2C
namespace Voi.Props.C14.VectorsMap
open Voi Voi.Spec Voi.Spec.H2C Voi.Model.H2C

def isPt (r : Res Pt) (x y : Nat) : Bool := match r with | .ok P => P.x == x && P.y == y | _ => false
def isSome' (o : Option Pt) (x y : Nat) : Bool := match o with | some P => P.x == x && P.y == y | none => false

/-! ### Elligator 2: RFC vectors (u ↦ Q of Appendix J.5.2), r = 0 ↦ (0, 1), the Montgomery pair -/

example : isSome' (edwardsFlavor 0x7f3e7fb9428103ad7f52db32f9df32505d7b427d894c5093f7a0f0374a30641d)
    0x42836f691d05211ebc65ef8fcf01e0fb6328ec9c4737c26050471e50803022eb
    0x22cb4aaa555e23bd460262d2130d6a3c9207aa8bbb85060928beb263d6d42a95 = true := by decide +kernel

example : isSome' (edwardsFlavor 0x09cfa30ad79bd59456594a0f5d3a76f6b71c6787b04de98be5cd201a556e253b)
    0x333e41b61c6dd43af220c1ac34a3663e1cf537f996bab50ab66e33c4bd8e4e19
    0x51b6f178eb08c4a782c820e306b82c6e273ab22e258d972cd0c511787b2a3443 = true := by decide +kernel

/-- r = 0: Montgomery (0, 0) (v = 0, the exceptional case of the rational map) ↦ the identity (0, 1) -/
example : montgomeryFlavor 0 = (0, 0) ∧ isSome' (edwardsFlavor 0) 0 1 = true := by decide +kernel

/-! ### the suites (Appendix J.5.1 / J.5.2), msg = "" and "abc" -/

set_option maxRecDepth 100000 in
example : isPt (Model.H2C.edwards25519_XMD_SHA512_ELL2_NU (strBytes "QUUX-V01-CS02-with-edwards25519_XMD:SHA-512_ELL2_NU_") ByteArray.empty)
    0x1ff2b70ecf862799e11b7ae744e3489aa058ce805dd323a936375a84695e76da
    0x222e314d04a4d5725e9f2aff9fb2a6b69ef375a1214eb19021ceab2d687f0f9b = true := by decide +kernel

set_option maxRecDepth 100000 in
example : isPt (Model.H2C.edwards25519_XMD_SHA512_ELL2_RO (strBytes "QUUX-V01-CS02-with-edwards25519_XMD:SHA-512_ELL2_RO_") (strBytes "abc"))
    0x608040b42285cc0d72cbb3985c6b04c935370c7361f4b7fbdb1ae7f8c1a8ecad
    0x1a8395b88338f22e435bbd301183e7f20a5f9de643f11882fb237f88268a5531 = true := by decide +kernel

end Voi.Props.C14.VectorsMap
