/-
C14 — non-vacuity, expand_message_xmd: the code-shaped model `Voi.Model.H2C` evaluated by the Lean
kernel on RFC 9380 Appendix K.1 vectors (SHA-256: the b_1 short-cut, the loop, the long-DST vector) and
on the abort boundaries.  Every `example` is a closed computation (`decide +kernel`); core Lean only.
(`VectorsXof.lean`: expand_message_xof, uniform bytes; `VectorsMap.lean`: Elligator 2 and the suites.)
-/
import Voi.Model.H2C
namespace Voi.Props.C14.Vectors
open Voi Voi.Spec Voi.Spec.H2C Voi.Model.H2C

/-- OS2IP of the output (0 on error) -/
def val (o : Option Bytes) : Nat := match o with | some b => beNat b | none => 0
/-- the output buffer handed in: `n` bytes 0xa5 that must all be overwritten -/
def buf (n : Nat) : Bytes := ⟨Array.replicate n 0xa5⟩

def dstXmd : Bytes := strBytes "QUUX-V01-CS02-with-expander-SHA256-128"
def dstXmdLong : Bytes := strBytes ("QUUX-V01-CS02-with-expander-SHA256-128-long-DST-" ++ String.ofList (List.replicate 208 '1'))

example : dstXmdLong.size = 256 := by decide +kernel

/-! ### expand_message_xmd, SHA-256 (Appendix K.1): the b_1 short-cut, the loop, the oversize DST -/

set_option maxRecDepth 100000 in
example : val (expandMessageXMD (buf 0x20) hSha256 dstXmd ByteArray.empty)
    = 0x68a985b87eb6b46952128911f2a4412bbc302a9d759667f87f7a21d803f07235 := by decide +kernel

set_option maxRecDepth 100000 in
example : val (expandMessageXMD (buf 0x80) hSha256 dstXmd (strBytes "abc"))
    = 0xabba86a6129e366fc877aab32fc4ffc70120d8996c88aee2fe4b32d6c7b6437a647e6c3163d40b76a73cf6a5674ef1d890f95b664ee0afa5359a5c4e07985635bbecbac65d747d3d2da7ec2b8221b17b0ca9dc8a1ac1c07ea6a1e60583e2cb00058e77b7b72a298425cd1b941ad4ec65e8afc50303a22c0f99b0509b4c895f40 := by
  decide +kernel

set_option maxRecDepth 100000 in
example : val (expandMessageXMD (buf 0x20) hSha256 dstXmdLong ByteArray.empty)
    = 0xe8dc0c8b686b7ef2074086fbdd2f30e3f8bfbd3bdf177f73f04b97ce618a3ed3 := by decide +kernel

/-! abort conditions: len = 0, len > 65535, ell > 255 (and ell = 255 passes the check), b < 32 -/
example : (expandMessageXMD (buf 0) hSha256 dstXmd ByteArray.empty).isNone = true := by decide +kernel
example : (expandMessageXMD (buf 65536) hSha512 dstXmd ByteArray.empty).isNone = true := by decide +kernel
example : (expandMessageXMD (buf (255 * 32 + 1)) hSha256 dstXmd ByteArray.empty).isNone = true := by decide +kernel
example : (expandMessageXMD (buf 1) hSha224 dstXmd ByteArray.empty).isNone = true := by decide +kernel

end Voi.Props.C14.Vectors
