/-
C14 — message expansion: the code-shaped models `Voi.Model.H2C.expandMessageXMD` /
`expandMessageXOF` (transcriptions of expand_message.go, tied to the Go code by stream H3) equal
RFC 9380 §5.3.1 / §5.3.2 / §5.3.3 (`Voi.Spec.H2C.expandMessageXmd` / `expandMessageXof`) for EVERY
hash record, DST, message, requested length and initial contents of the output buffer, and for every
state of the XOF instance handed in.  Core Lean only (no Mathlib needed).

Hypotheses, all about the hash/XOF *record* (none about the inputs):
 * `HashWF h`:  `H` returns `b` bytes (`Size()` is the digest length) and `b ≤ 255` (only used for
   DSTs longer than 255 bytes: the digest replaces the DST and its length goes into one byte);
 * `XofWF X`:   `X m n` returns `n` bytes.
-/
import Voi.Props.C14.Bytes
namespace Voi.Props.C14
open Voi Voi.Spec Voi.Spec.H2C Voi.Model.H2C

/-- well-formed hash record: `H` returns `b` bytes, and `b` fits one byte -/
structure HashWF (h : HashFn) : Prop where
  size : ∀ m, (h.H m).size = h.b
  b_le : h.b ≤ 255

/-- well-formed XOF: `X m n` returns `n` bytes -/
def XofWF (X : XofFn) : Prop := ∀ m n, (X m n).size = n

/-! ### Spec side: b_1 ‖ … ‖ b_ell -/

theorem xmdBlocks_acc (h : HashFn) (b0 dp : Bytes) : ∀ (todo i : Nat) (prev acc : Bytes),
    xmdBlocks h b0 dp todo i prev acc = acc ++ xmdBlocks h b0 dp todo i prev ByteArray.empty := by
  intro todo
  induction todo with
  | zero => intro i prev acc; simp [xmdBlocks]
  | succ todo ih =>
    intro i prev acc
    simp only [xmdBlocks]
    rw [ih _ _ (acc ++ _), ih _ _ (ByteArray.empty ++ _), ByteArray.empty_append, ByteArray.append_assoc]

theorem xmdBlocks_succ (h : HashFn) (b0 dp : Bytes) (todo i : Nat) (prev : Bytes) :
    xmdBlocks h b0 dp (todo + 1) i prev ByteArray.empty =
      h.H (bxor b0 prev ++ i2osp i 1 ++ dp) ++
        xmdBlocks h b0 dp todo (i + 1) (h.H (bxor b0 prev ++ i2osp i 1 ++ dp)) ByteArray.empty := by
  simp only [xmdBlocks]
  rw [xmdBlocks_acc, ByteArray.empty_append]

theorem xmdBlocks_size (h : HashFn) (hH : ∀ m, (h.H m).size = h.b) (b0 dp : Bytes) :
    ∀ (todo i : Nat) (prev acc : Bytes),
    (xmdBlocks h b0 dp todo i prev acc).size = acc.size + todo * h.b := by
  intro todo
  induction todo with
  | zero => intro i prev acc; simp [xmdBlocks]
  | succ todo ih =>
    intro i prev acc
    simp only [xmdBlocks]
    rw [ih, ByteArray.size_append, hH, Nat.succ_mul]; omega

/-! ### the loop of `ExpandMessageXMD` -/

theorem ceil_step {w b : Nat} (hb : 0 < b) (hw : b < w) : (w + b - 1) / b = (w - b + b - 1) / b + 1 := by
  have : w + b - 1 = (w - b + b - 1) + b := by omega
  rw [this, Nat.add_div_right _ hb]

theorem ceil_one {w b : Nat} (hw0 : 0 < w) (hw : w ≤ b) : (w + b - 1) / b = 1 := by
  have h1 : w + b - 1 = (w - 1) + b := by omega
  have hb : 0 < b := by omega
  rw [h1, Nat.add_div_right _ hb, Nat.div_eq_of_lt (by omega)]

/-- the output buffer keeps its length through the loop, whatever the hash does -/
theorem xmdLoop_size (b0 DST : Bytes) (lenDST bIn : Nat) : ∀ (fuel : Nat) (h : Hasher) (i wanted : Nat)
    (xorBuf out : Bytes) (outOff : Nat),
    (xmdLoop b0 DST lenDST bIn fuel h i wanted xorBuf out outOff).size = out.size := by
  intro fuel
  induction fuel with
  | zero => intros; rfl
  | succ fuel ih =>
    intro h i wanted xorBuf out outOff
    unfold xmdLoop
    by_cases hw : wanted = 0
    · rw [if_pos hw]
    · rw [if_neg hw]
      simp only []
      rw [ih, goCopy_size]

/-- **Loop invariant.**  Started with `xorBuf = b_(i-1)`, `outOff + wanted = len(out)`, the loop
leaves `out[:outOff]` alone and fills the rest with the first `wanted` bytes of
`b_i ‖ b_(i+1) ‖ …` of RFC 9380 §5.3.1 steps 9–11. -/
theorem xmdLoop_eq (hf : HashFn) (hH : ∀ m, (hf.H m).size = hf.b) (hb : 0 < hf.b)
    (b0 DST : Bytes) (lenDST : Nat) (hb0 : b0.size = hf.b) :
    ∀ (fuel : Nat) (h : Hasher) (i wanted : Nat) (prev out : Bytes) (outOff : Nat),
      h.fn = hf → wanted ≤ fuel → prev.size = hf.b → outOff + wanted = out.size →
      xmdLoop b0 DST lenDST hf.b fuel h i wanted prev out outOff =
        out.extract 0 outOff ++
          (xmdBlocks hf b0 (DST ++ lit [byte lenDST]) ((wanted + hf.b - 1) / hf.b) i prev
            ByteArray.empty).extract 0 wanted := by
  intro fuel
  induction fuel with
  | zero =>
    intro h i wanted prev out outOff _ hw _ ho
    have hw0 : wanted = 0 := by omega
    subst hw0
    simp only [xmdLoop, ByteArray.extract_same, ByteArray.append_empty]
    have : outOff = out.size := by omega
    rw [this, ByteArray.extract_zero_size]
  | succ fuel ih =>
    intro h i wanted prev out outOff hfn hw hp ho
    unfold xmdLoop
    by_cases hw0 : wanted = 0
    · subst hw0
      rw [if_pos rfl]
      simp only [ByteArray.extract_same, ByteArray.append_empty]
      have : outOff = out.size := by omega
      rw [this, ByteArray.extract_zero_size]
    · rw [if_neg hw0]
      simp only [Hasher.reset, Hasher.write, Hasher.sum, hfn, ByteArray.empty_append]
      rw [xorInto_eq prev b0 (by rw [hp, hb0])]
      -- the block b_i
      have hbi : hf.H (bxor b0 prev ++ lit [byte i] ++ DST ++ lit [byte lenDST]) =
          hf.H (bxor b0 prev ++ i2osp i 1 ++ (DST ++ lit [byte lenDST])) := by
        unfold i2osp; rw [natBE_one, ByteArray.append_assoc]
      rw [hbi]
      generalize hbidef : hf.H (bxor b0 prev ++ i2osp i 1 ++ (DST ++ lit [byte lenDST])) = bi
      have hbis : bi.size = hf.b := by rw [← hbidef]; exact hH _
      by_cases hgt : wanted > hf.b
      · -- a full block
        rw [if_pos hgt]
        rw [ih _ _ _ _ _ _ rfl (by omega) hbis (by rw [goCopy_size]; omega)]
        rw [ceil_step hb hgt, xmdBlocks_succ, hbidef]
        have hfull : bi.extract 0 hf.b = bi := extract_full bi hf.b (by omega)
        rw [hfull, goCopy_fits out outOff bi (by omega)]
        rw [ByteArray.extract_append (as := bi)]
        have e1 : bi.extract 0 wanted = bi := extract_full bi wanted (by omega)
        rw [e1, hbis, Nat.zero_sub]
        have e2 : (out.extract 0 outOff ++ bi ++ out.extract (outOff + hf.b) out.size).extract 0 (outOff + hf.b)
            = out.extract 0 outOff ++ bi := by
          apply ByteArray.extract_append_eq_left
          rw [ByteArray.size_append, ByteArray.size_extract, hbis]; omega
        rw [e2, ByteArray.append_assoc]
      · -- the final, possibly partial block
        rw [if_neg hgt]
        have hle : wanted ≤ hf.b := by omega
        rw [Nat.sub_self]
        have hnext : ∀ (h' : Hasher) (o : Bytes), xmdLoop b0 DST lenDST hf.b fuel h' (i + 1) 0 bi o
            (outOff + wanted) = o := by
          intro h' o; cases fuel <;> simp [xmdLoop]
        rw [hnext]
        rw [ceil_one (by omega) hle, xmdBlocks_succ, hbidef]
        simp only [xmdBlocks, ByteArray.append_empty]
        rw [goCopy_fill out outOff (bi.extract 0 wanted)
          (by rw [ByteArray.size_extract, hbis]; omega)]

/-! ### `ExpandMessageXMD` -/

/-- the DST actually used (§5.3.3) -/
theorem oversize_eq : oversizeDST = oversizePrefix := rfl

/-- `ExpandMessageXMD` with the hash object's bookkeeping (`Write`/`Sum`/`Reset`) evaluated: what is
hashed, in which order the checks come. No hypothesis. -/
theorem expandMessageXMD_unfold (out : Bytes) (hf : HashFn) (dst msg : Bytes) :
    expandMessageXMD out hf dst msg =
      if hf.b < 32 then none else
      if out.size = 0 ∨ out.size > 65535 then none else
      let DST := if dst.size > 255 then hf.H (oversizeDST ++ dst) else dst
      if (out.size + hf.b - 1) / hf.b > 255 then none else
      let dp := DST ++ lit [byte DST.size]
      let b0 := hf.H (bzero hf.s ++ msg ++ lit [byte (out.size >>> 8), byte out.size, 0] ++ dp)
      let b1 := hf.H (b0 ++ lit [1] ++ dp)
      if out.size ≤ hf.b then some (goCopy out 0 (b1.extract 0 out.size)) else
      some (xmdLoop b0 DST DST.size hf.b (out.size - hf.b)
        ⟨hf, b0 ++ lit [1] ++ DST ++ lit [byte DST.size]⟩ 2 (out.size - hf.b) b1 (goCopy out 0 b1) b1.size) := by
  unfold expandMessageXMD
  simp only [Hasher.new, Hasher.blockSize, Hasher.write, Hasher.sum, Hasher.reset, kay, maxUint16, maxUint8,
    ByteArray.empty_append]
  have e32 : 2 * 128 / 8 = 32 := rfl
  rw [e32]
  by_cases h1 : hf.b < 32
  · rw [if_pos h1, if_pos h1]
  rw [if_neg h1, if_neg h1]
  by_cases h2 : out.size = 0 ∨ out.size > 65535
  · rw [if_pos h2, if_pos h2]
  rw [if_neg h2, if_neg h2]
  by_cases hd : dst.size > 255
  · simp only [if_pos hd, ByteArray.empty_append, ByteArray.append_assoc]
  · simp only [if_neg hd, ByteArray.empty_append, ByteArray.append_assoc]

/-- **Length.**  Whenever `ExpandMessageXMD` succeeds the output buffer has kept its length
(`len_in_bytes` = `len(out)`), for every hash record. -/
theorem xmd_length (out : Bytes) (hf : HashFn) (dst msg : Bytes) {o : Bytes}
    (h : expandMessageXMD out hf dst msg = some o) : o.size = out.size := by
  rw [expandMessageXMD_unfold] at h
  by_cases h1 : hf.b < 32
  · rw [if_pos h1] at h; cases h
  rw [if_neg h1] at h
  by_cases h2 : out.size = 0 ∨ out.size > 65535
  · rw [if_pos h2] at h; cases h
  rw [if_neg h2] at h
  simp only [] at h
  by_cases h3 : (out.size + hf.b - 1) / hf.b > 255
  · rw [if_pos h3] at h; cases h
  rw [if_neg h3] at h
  by_cases h4 : out.size ≤ hf.b
  · rw [if_pos h4] at h
    injection h with h; rw [← h, goCopy_size]
  · rw [if_neg h4] at h
    injection h with h; rw [← h, xmdLoop_size, goCopy_size]

/-- **Abort conditions.**  `ExpandMessageXMD` returns an error exactly when the digest is shorter than
2k = 256 bits, or the requested length is 0 or above 65535, or more than 255 blocks would be needed —
nothing else, in particular no DST and no message makes it fail.  For every hash record. -/
theorem xmd_abort_iff (out : Bytes) (hf : HashFn) (dst msg : Bytes) :
    expandMessageXMD out hf dst msg = none ↔
      hf.b < 32 ∨ out.size = 0 ∨ out.size > 65535 ∨ (out.size + hf.b - 1) / hf.b > 255 := by
  rw [expandMessageXMD_unfold]
  by_cases h1 : hf.b < 32
  · simp [h1]
  rw [if_neg h1]
  by_cases h2 : out.size = 0 ∨ out.size > 65535
  · rw [if_pos h2]
    rcases h2 with h2 | h2 <;> simp [h2]
  rw [if_neg h2]
  simp only []
  by_cases h3 : (out.size + hf.b - 1) / hf.b > 255
  · simp [h3]
  rw [if_neg h3]
  have h2' : ¬ out.size = 0 ∧ ¬ out.size > 65535 := by
    constructor
    · exact fun h => h2 (Or.inl h)
    · exact fun h => h2 (Or.inr h)
  by_cases h4 : out.size ≤ hf.b
  · simp [h4, h1, h2'.1, h2'.2, h3]
  · simp [h4, h1, h2'.1, h2'.2, h3]

/-- **Model = RFC 9380 §5.3.1 (+ §5.3.3)** for every well-formed hash record, every DST (any length),
message and output buffer (any length, any previous contents). -/
theorem xmd_model_eq_spec (hf : HashFn) (hwf : HashWF hf) (out dst msg : Bytes) :
    expandMessageXMD out hf dst msg = expandMessageXmd hf 128 msg dst out.size := by
  rw [expandMessageXMD_unfold]
  unfold expandMessageXmd
  have e32 : 2 * 128 / 8 = 32 := rfl
  rw [e32]
  by_cases h1 : hf.b < 32
  · rw [if_pos h1, if_pos h1]
  rw [if_neg h1, if_neg h1]
  by_cases h2 : out.size = 0 ∨ out.size > 65535
  · rw [if_pos h2, if_pos h2]
  rw [if_neg h2, if_neg h2]
  simp only []
  -- the DST in use
  have hD : (if dst.size > 255 then hf.H (oversizeDST ++ dst) else dst) = xmdDst hf dst := by
    unfold xmdDst; rw [oversize_eq]
  rw [hD]
  have hDs : (xmdDst hf dst).size ≤ 255 := by
    unfold xmdDst
    by_cases hd : dst.size > 255
    · rw [if_pos hd, hwf.size]; exact hwf.b_le
    · rw [if_neg hd]; omega
  generalize xmdDst hf dst = DST at hDs
  by_cases h3 : (out.size + hf.b - 1) / hf.b > 255
  · rw [if_pos h3, if_pos (Or.inl h3)]
  have h3' : ¬ ((out.size + hf.b - 1) / hf.b > 255 ∨ DST.size > 255) := by
    rintro (h | h)
    · exact h3 h
    · omega
  rw [if_neg h3, if_neg h3']
  -- b_0 and b_1
  have hdp : DST ++ lit [byte DST.size] = dstPrime DST := by
    unfold dstPrime i2osp; rw [natBE_one]
  rw [hdp]
  have hmsg : bzero hf.s ++ msg ++ lit [byte (out.size >>> 8), byte out.size, 0] ++ dstPrime DST =
      i2osp 0 hf.s ++ msg ++ i2osp out.size 2 ++ i2osp 0 1 ++ dstPrime DST := by
    unfold i2osp
    rw [natBE_zero, natBE_two, natBE_one, ByteArray.append_assoc (b := lit _) (c := lit _), lit_append]
    rfl
  rw [hmsg]
  generalize hb0 : hf.H (i2osp 0 hf.s ++ msg ++ i2osp out.size 2 ++ i2osp 0 1 ++ dstPrime DST) = b0
  have hb0s : b0.size = hf.b := by rw [← hb0]; exact hwf.size _
  have hone : lit [1] = i2osp 1 1 := by unfold i2osp; rw [natBE_one]; rfl
  rw [hone]
  generalize hb1 : hf.H (b0 ++ i2osp 1 1 ++ dstPrime DST) = b1
  have hb1s : b1.size = hf.b := by rw [← hb1]; exact hwf.size _
  have hbpos : 0 < hf.b := by omega
  have hlen0 : 0 < out.size := by
    rcases Nat.eq_zero_or_pos out.size with h | h
    · exact absurd (Or.inl h) h2
    · exact h
  unfold bslice
  rw [Nat.zero_add]
  by_cases h4 : out.size ≤ hf.b
  · -- served from b_1 alone
    rw [if_pos h4, ceil_one hlen0 h4]
    simp only [Nat.sub_self, xmdBlocks]
    rw [goCopy_fill out 0 (b1.extract 0 out.size) (by rw [ByteArray.size_extract, hb1s]; omega)]
    rw [ByteArray.extract_same, ByteArray.empty_append]
  · rw [if_neg h4]
    have hgt : hf.b < out.size := by omega
    -- the state before the loop: out = b_1 ‖ (old contents), outOff = b
    rw [← hdp]
    rw [xmdLoop_eq hf hwf.size hbpos b0 DST DST.size hb0s _ _ _ _ _ _ _ rfl (Nat.le_refl _) hb1s
      (by rw [goCopy_size, hb1s]; omega)]
    rw [goCopy_fits out 0 b1 (by omega), ByteArray.extract_same, ByteArray.empty_append]
    rw [ByteArray.extract_append_eq_left (by rfl)]
    rw [ceil_step hbpos hgt]
    rw [Nat.add_sub_cancel]
    rw [xmdBlocks_acc hf b0 _ _ 2 b1 b1, ByteArray.extract_append, hb1s, Nat.zero_sub,
      extract_full b1 out.size (by omega)]

/-- **Oversize DST (§5.3.3).**  A DST longer than 255 bytes is used as
`H("H2C-OVERSIZE-DST-" ‖ DST)`: the call is the same as the call with that digest as the DST. -/
theorem xmd_oversize_dst (hf : HashFn) (hwf : HashWF hf) (out dst msg : Bytes) (hd : dst.size > 255) :
    expandMessageXMD out hf dst msg = expandMessageXMD out hf (hf.H (oversizeDST ++ dst)) msg := by
  rw [expandMessageXMD_unfold, expandMessageXMD_unfold, if_pos hd]
  have : ¬ (hf.H (oversizeDST ++ dst)).size > 255 := by rw [hwf.size]; have := hwf.b_le; omega
  rw [if_neg this]

/-- the same on the Spec side -/
theorem xmd_spec_oversize_dst (hf : HashFn) (hwf : HashWF hf) (dst msg : Bytes) (len : Nat) (hd : dst.size > 255) :
    expandMessageXmd hf 128 msg dst len = expandMessageXmd hf 128 msg (hf.H (strBytes "H2C-OVERSIZE-DST-" ++ dst)) len := by
  have e := xmd_oversize_dst hf hwf (bzero len) dst msg hd
  rw [xmd_model_eq_spec hf hwf, xmd_model_eq_spec hf hwf, bzero_size] at e
  exact e

/-! ### `ExpandMessageXOF` -/

/-- `ExpandMessageXOF` with the XOF objects' bookkeeping (`Clone`/`Reset`/`Write`/`Read`) evaluated.
Only `xofFunc.fn` is left: the state of the instance handed in is discarded.  No hypothesis. -/
theorem expandMessageXOF_unfold (out : Bytes) (x : Xof) (dst msg : Bytes) :
    expandMessageXOF out x dst msg =
      if out.size = 0 ∨ out.size > 65535 then none else
      let DST := if dst.size > 255 then
          goCopy (bzero 32) 0 ((x.fn (oversizeDST ++ dst) (bzero 32).size).extract 0 (bzero 32).size)
        else dst
      some (goCopy out 0 ((x.fn (msg ++ lit [byte (out.size >>> 8), byte out.size] ++ DST ++ lit [byte DST.size])
        out.size).extract 0 out.size)) := by
  unfold expandMessageXOF
  simp only [newXOF, Xof.clone, Xof.reset, Xof.write, Xof.readFull, kay, maxUint16, maxUint8,
    ByteArray.empty_append, Nat.zero_add]
  have e32 : 2 * 128 / 8 = 32 := rfl
  rw [e32]
  by_cases h2 : out.size = 0 ∨ out.size > 65535
  · rw [if_pos h2, if_pos h2]
  rw [if_neg h2, if_neg h2]
  by_cases hd : dst.size > 255
  · simp only [if_pos hd]
  · simp only [if_neg hd]

/-- **Length** (every XOF, every state of the instance) -/
theorem xof_length (out : Bytes) (x : Xof) (dst msg : Bytes) {o : Bytes}
    (h : expandMessageXOF out x dst msg = some o) : o.size = out.size := by
  rw [expandMessageXOF_unfold] at h
  by_cases h2 : out.size = 0 ∨ out.size > 65535
  · rw [if_pos h2] at h; cases h
  rw [if_neg h2] at h
  injection h with h; rw [← h, goCopy_size]

/-- **Abort conditions**: exactly a requested length of 0 or above 65535 (every XOF, every state of
the instance, every DST and message). -/
theorem xof_abort_iff (out : Bytes) (x : Xof) (dst msg : Bytes) :
    expandMessageXOF out x dst msg = none ↔ out.size = 0 ∨ out.size > 65535 := by
  rw [expandMessageXOF_unfold]
  by_cases h2 : out.size = 0 ∨ out.size > 65535
  · rw [if_pos h2]; exact ⟨fun _ => h2, fun _ => rfl⟩
  · rw [if_neg h2]
    constructor
    · intro h; cases h
    · intro h; exact absurd h h2

theorem goCopy_all (dst src : Bytes) (h : src.size = dst.size) : goCopy dst 0 (src.extract 0 dst.size) = src := by
  rw [extract_full src dst.size (by omega), goCopy_fill dst 0 src (by omega), ByteArray.extract_same,
    ByteArray.empty_append]

/-- **Model = RFC 9380 §5.3.2 (+ §5.3.3)** for every XOF returning the requested number of bytes,
every state of the instance handed in, every DST, message and output buffer. -/
theorem xof_model_eq_spec (x : Xof) (hwf : XofWF x.fn) (out dst msg : Bytes) :
    expandMessageXOF out x dst msg = expandMessageXof x.fn 128 msg dst out.size := by
  rw [expandMessageXOF_unfold]
  unfold expandMessageXof
  by_cases h2 : out.size = 0 ∨ out.size > 65535
  · rw [if_pos h2, if_pos h2]
  rw [if_neg h2, if_neg h2]
  simp only []
  have hD : (if dst.size > 255 then
      goCopy (bzero 32) 0 ((x.fn (oversizeDST ++ dst) (bzero 32).size).extract 0 (bzero 32).size) else dst)
      = xofDst x.fn 128 dst := by
    unfold xofDst
    by_cases hd : dst.size > 255
    · rw [if_pos hd, if_pos hd, goCopy_all _ _ (hwf _ _), bzero_size, oversize_eq]
    · rw [if_neg hd, if_neg hd]
  rw [hD]
  have hDs : (xofDst x.fn 128 dst).size ≤ 255 := by
    unfold xofDst
    by_cases hd : dst.size > 255
    · rw [if_pos hd, hwf]; decide
    · rw [if_neg hd]; omega
  generalize xofDst x.fn 128 dst = DST at hDs
  rw [if_neg (by omega)]
  rw [goCopy_all _ _ (hwf _ _)]
  unfold dstPrime i2osp
  rw [natBE_two, natBE_one, ByteArray.append_assoc (a := msg ++ lit _)]

/-- the state of the XOF instance handed in (absorbed input, squeezed output) is irrelevant -/
theorem xof_state_irrelevant (x y : Xof) (h : x.fn = y.fn) (out dst msg : Bytes) :
    expandMessageXOF out x dst msg = expandMessageXOF out y dst msg := by
  rw [expandMessageXOF_unfold, expandMessageXOF_unfold, h]

/-- **Oversize DST (§5.3.3)** for the XOF expander: a DST longer than 255 bytes is used as
`X("H2C-OVERSIZE-DST-" ‖ DST, 32)`. -/
theorem xof_oversize_dst (x : Xof) (hwf : XofWF x.fn) (out dst msg : Bytes) (hd : dst.size > 255) :
    expandMessageXOF out x dst msg = expandMessageXOF out x (x.fn (oversizeDST ++ dst) 32) msg := by
  rw [expandMessageXOF_unfold, expandMessageXOF_unfold, if_pos hd]
  have : ¬ (x.fn (oversizeDST ++ dst) 32).size > 255 := by rw [hwf]; decide
  rw [if_neg this, goCopy_all _ _ (hwf _ _), bzero_size]

/-- the contents of `out` before the call are irrelevant (XMD) -/
theorem xmd_out_irrelevant (hf : HashFn) (hwf : HashWF hf) (out out' dst msg : Bytes) (h : out.size = out'.size) :
    expandMessageXMD out hf dst msg = expandMessageXMD out' hf dst msg := by
  rw [xmd_model_eq_spec hf hwf, xmd_model_eq_spec hf hwf, h]

/-- the contents of `out` before the call are irrelevant (XOF) -/
theorem xof_out_irrelevant (x : Xof) (hwf : XofWF x.fn) (out out' dst msg : Bytes) (h : out.size = out'.size) :
    expandMessageXOF out x dst msg = expandMessageXOF out' x dst msg := by
  rw [xof_model_eq_spec x hwf, xof_model_eq_spec x hwf, h]

end Voi.Props.C14
