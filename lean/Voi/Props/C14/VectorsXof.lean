/-
C14 — non-vacuity, expand_message_xof and uniform bytes → field element: the code-shaped model
evaluated by the Lean kernel on RFC 9380 Appendix K.6 vectors (`decide +kernel`); core Lean only.
-/
import Voi.Model.H2C
namespace Voi.Props.C14.VectorsXof
open Voi Voi.Spec Voi.Spec.H2C Voi.Model.H2C

/-- OS2IP of the output (0 on error) -/
def val (o : Option Bytes) : Nat := match o with | some b => beNat b | none => 0
/-- the output buffer handed in: `n` bytes 0xa5 that must all be overwritten -/
def buf (n : Nat) : Bytes := ⟨Array.replicate n 0xa5⟩
def dstXof : Bytes := strBytes "QUUX-V01-CS02-with-expander-SHAKE128"
def dstXofLong : Bytes := strBytes ("QUUX-V01-CS02-with-expander-SHAKE128-long-DST-" ++ String.ofList (List.replicate 210 '1'))

example : dstXofLong.size = 256 := by decide +kernel

/-! ### expand_message_xof, SHAKE128 (Appendix K.6); the instance handed in is dirty -/

set_option maxRecDepth 100000 in
example : val (expandMessageXOF (buf 0x20) ⟨shake128, strBytes "absorbed before the call", 7⟩ dstXof ByteArray.empty)
    = 0x86518c9cd86581486e9485aa74ab35ba150d1c75c88e26b7043e44e2acd735a2 := by decide +kernel

set_option maxRecDepth 100000 in
example : val (expandMessageXOF (buf 0x20) ⟨shake128, ByteArray.empty, 0⟩ dstXofLong (strBytes "abc"))
    = 0x690c8d82c7213b4282c6cb41c00e31ea1d3e2005f93ad19bbf6da40f15790c5c := by decide +kernel

example : (expandMessageXOF (buf 0) ⟨shake128, ByteArray.empty, 0⟩ dstXof ByteArray.empty).isNone = true := by
  decide +kernel
example : (expandMessageXOF (buf 65536) ⟨shake128, ByteArray.empty, 0⟩ dstXof ByteArray.empty).isNone = true := by
  decide +kernel

/-! ### uniform bytes → field element -/

/-- 2^384 − 1 (48 bytes 0xff) reduces mod p; a wrong length panics -/
example : uniformToField25519 ⟨Array.replicate 48 0xff⟩ = some ((2 ^ 384 - 1) % p) := by decide +kernel
example : uniformToField25519 ⟨Array.replicate 47 0xff⟩ = none := by decide +kernel

end Voi.Props.C14.VectorsXof
