/-
C14 — byte-string lemmas (core Lean only): the `Voi.Basic` helpers used by the RFC 9380 Spec
(`natBE` = I2OSP, `bxor` = strxor, `beNat` = OS2IP, `bslice`) in closed form, and the Go building
blocks of the model (`goCopy`, `xorInto`, `lit`, `byte`, `reversedByteSlice`).
-/
import Voi.Model.H2C
import Voi.Props.BytesLemmas
namespace Voi.Props.C14
open Voi Voi.Model.H2C Voi.Props.Bytes

/-! ### folds that push one byte per index -/

theorem foldl_push (f : Nat → UInt8) (l : List Nat) : ∀ (acc : ByteArray),
    l.foldl (fun b a => b.push (f a)) acc = acc ++ (l.map f).toByteArray := by
  induction l with
  | nil => intro acc; simp
  | cons x l ih =>
    intro acc
    rw [List.foldl_cons, ih, List.map_cons]
    rw [← ByteArray.append_toByteArray_singleton, ByteArray.append_assoc, ← List.toByteArray_append]
    simp

theorem ofNat_mod (n : Nat) : UInt8.ofNat (n % 256) = UInt8.ofNat n := by
  apply UInt8.toNat_inj.1
  simp [UInt8.toNat_ofNat']

/-! ### I2OSP -/

/-- I2OSP in closed form -/
theorem natBE_eq (n len : Nat) : natBE n len =
    ((List.range' 0 len).map fun i => UInt8.ofNat (n >>> (8 * (len - 1 - i)) % 256)).toByteArray := by
  unfold natBE
  simp
  rw [foldl_push]
  show ByteArray.empty ++ _ = _
  simp

theorem natBE_size (n len : Nat) : (natBE n len).size = len := by
  rw [natBE_eq]; simp

/-- I2OSP(n, 1) = `[]byte{byte(n)}` -/
theorem natBE_one (n : Nat) : natBE n 1 = lit [byte n] := by
  rw [natBE_eq]
  simp [lit, byte, ofNat_mod]

/-- I2OSP(n, 2) = `[]byte{byte(n >> 8), byte(n)}` -/
theorem natBE_two (n : Nat) : natBE n 2 = lit [byte (n >>> 8), byte n] := by
  rw [natBE_eq]
  simp [lit, byte, ofNat_mod, List.range']

theorem bzero_eq (n : Nat) : bzero n = (List.replicate n (0 : UInt8)).toByteArray := by
  unfold bzero
  apply ByteArray.ext
  simp

theorem bzero_size (n : Nat) : (bzero n).size = n := by
  rw [bzero_eq]; simp

/-- I2OSP(0, r) = `make([]byte, r)` -/
theorem natBE_zero (r : Nat) : natBE 0 r = bzero r := by
  rw [natBE_eq, bzero_eq]
  congr 1
  apply List.ext_getElem
  · simp
  · intro i h1 h2
    simp

theorem lit_append (l l' : List UInt8) : lit l ++ lit l' = lit (l ++ l') := by
  unfold lit; rw [List.toByteArray_append]

theorem lit_size (l : List UInt8) : (lit l).size = l.length := by
  unfold lit; simp

/-! ### `get!` -/

theorem get!_eq_data (b : ByteArray) (i : Nat) : b.get! i = b.data[i]! := by
  cases b; rfl

theorem getElem!_eq_data (b : ByteArray) (i : Nat) : b[i]! = b.data[i]! := by
  by_cases h : i < b.size
  · rw [getElem!_pos b i h, getElem!_pos b.data i h]; rfl
  · rw [getElem!_neg b i h, getElem!_neg b.data i h]

theorem get!_eq (b : ByteArray) (i : Nat) : b.get! i = b[i]! := by
  rw [get!_eq_data, getElem!_eq_data]

/-! ### strxor -/

/-- strxor in closed form -/
theorem bxor_eq (a b : Bytes) : bxor a b =
    ((List.range' 0 a.size).map fun i => a.get! i ^^^ b.get! i).toByteArray := by
  unfold bxor
  simp
  rw [foldl_push]
  show ByteArray.empty ++ _ = _
  simp

theorem bxor_size (a b : Bytes) : (bxor a b).size = a.size := by
  rw [bxor_eq]; simp

theorem bxor_getElem (a b : Bytes) (i : Nat) (h : i < (bxor a b).size) :
    (bxor a b)[i] = a[i]! ^^^ b[i]! := by
  have h' := h
  rw [bxor_size] at h'
  simp only [bxor_eq, List.getElem_toByteArray, List.getElem_map, List.getElem_range', get!_eq]
  simp

/-- the prefix of the fold of `xorInto` -/
theorem xorInto_aux (b0 : Bytes) (k : Nat) : ∀ (x : Bytes), k ≤ x.size →
    let r := (List.range k).foldl (fun buf i => buf.set! i (buf.get! i ^^^ b0.get! i)) x
    r.size = x.size ∧ ∀ j, r[j]! = if j < k then x[j]! ^^^ b0[j]! else x[j]! := by
  induction k with
  | zero => intro x _; simp
  | succ k ih =>
    intro x hk
    obtain ⟨hs, hg⟩ := ih x (by omega)
    simp only [List.range_succ, List.foldl_append, List.foldl_cons, List.foldl_nil]
    generalize (List.range k).foldl (fun buf i => buf.set! i (buf.get! i ^^^ b0.get! i)) x = r at hs hg
    refine ⟨by rw [ByteArray.size_set!, hs], ?_⟩
    intro j
    rw [ByteArray.getElem!_set! _ _ _ _ (by omega), get!_eq, get!_eq, hg k]
    by_cases hj : k = j
    · subst hj; simp
    · rw [if_neg hj, hg j]
      by_cases hlt : j < k
      · rw [if_pos hlt, if_pos (by omega)]
      · rw [if_neg hlt, if_neg (by omega)]

/-- `for i, v := range b0 { xorBuf[i] ^= v }` is strxor(b_0, xorBuf) for equal lengths -/
theorem xorInto_eq (x b0 : Bytes) (h : x.size = b0.size) : xorInto x b0 = bxor b0 x := by
  have hs : (xorInto x b0).size = x.size := (xorInto_aux b0 b0.size x (by omega)).1
  have hg : ∀ j, (xorInto x b0)[j]! = if j < b0.size then x[j]! ^^^ b0[j]! else x[j]! :=
    (xorInto_aux b0 b0.size x (by omega)).2
  apply ByteArray.ext_getElem
  · rw [hs, bxor_size, h]
  · intro i hi hi'
    rw [bxor_getElem, ← getElem!_pos _ i hi, hg i]
    have hlt : i < b0.size := by rw [bxor_size] at hi'; exact hi'
    rw [if_pos hlt, UInt8.xor_comm]

/-! ### `copy` -/

theorem goCopy_eq (dst : Bytes) (off : Nat) (src : Bytes) :
    goCopy dst off src = dst.extract 0 off ++ src.extract 0 (min (dst.size - off) src.size) ++
      dst.extract (off + min (dst.size - off) src.size) dst.size := by
  unfold goCopy
  rw [ByteArray.copySlice_eq_append]
  simp only [Nat.zero_add, Nat.sub_zero, ← ByteArray.size_data]
  congr 2
  rw [Nat.min_eq_left (Nat.min_le_right _ _)]

/-- `copy` never changes the length of the destination -/
theorem goCopy_size (dst : Bytes) (off : Nat) (src : Bytes) : (goCopy dst off src).size = dst.size := by
  rw [goCopy_eq]
  simp only [ByteArray.size_append, ByteArray.size_extract]
  omega

/-- copying a source that fits exactly up to the end -/
theorem goCopy_fill (dst : Bytes) (off : Nat) (src : Bytes) (h : off + src.size = dst.size) :
    goCopy dst off src = dst.extract 0 off ++ src := by
  rw [goCopy_eq]
  have h1 : min (dst.size - off) src.size = src.size := by omega
  rw [h1, h, ByteArray.extract_same, ByteArray.append_empty, ByteArray.extract_zero_size]

/-- copying a source that fits -/
theorem goCopy_fits (dst : Bytes) (off : Nat) (src : Bytes) (h : off + src.size ≤ dst.size) :
    goCopy dst off src = dst.extract 0 off ++ src ++ dst.extract (off + src.size) dst.size := by
  rw [goCopy_eq]
  have h1 : min (dst.size - off) src.size = src.size := by omega
  rw [h1, ByteArray.extract_zero_size]

theorem extract_full (b : Bytes) (n : Nat) (h : b.size ≤ n) : b.extract 0 n = b := by
  have : n = max n b.size := by omega
  rw [this, ByteArray.extract_zero_max_size]

theorem extract_empty_of_ge (b : Bytes) (i j : Nat) (h : b.size ≤ i) : b.extract i j = ByteArray.empty := by
  rw [ByteArray.extract_eq_empty_iff]; omega

/-! ### OS2IP and byte reversal -/

/-- big-endian value of a list of bytes -/
def beList (l : List UInt8) : Nat := l.foldl (fun acc x => acc <<< 8 + x.toNat) 0

theorem beNat_eq (b : Bytes) : beNat b = beList b.data.toList := by
  unfold beNat beList
  rw [foldl_eq_list]

theorem beList_append_singleton (l : List UInt8) (x : UInt8) :
    beList (l ++ [x]) = 256 * beList l + x.toNat := by
  unfold beList
  rw [List.foldl_append]
  simp [Nat.shiftLeft_eq, Nat.mul_comm]

/-- the big-endian value is the little-endian value of the reversed string -/
theorem leList_eq_beList_reverse (l : List UInt8) : leList l = beList l.reverse := by
  induction l with
  | nil => rfl
  | cons x l ih =>
    rw [List.reverse_cons, beList_append_singleton, leList, ih, Nat.add_comm]

theorem beList_eq_leList_reverse (l : List UInt8) : beList l = leList l.reverse := by
  rw [leList_eq_beList_reverse, List.reverse_reverse]

theorem leList_append_zeros (l : List UInt8) (n : Nat) :
    leList (l ++ List.replicate n 0) = leList l := by
  induction l with
  | nil =>
    induction n with
    | zero => rfl
    | succ n ih => simp only [List.nil_append] at ih ⊢; simp [List.replicate_succ, leList, ih]
  | cons x l ih => simp only [List.cons_append, leList, ih]

theorem reversedByteSlice_size (b : Bytes) : (reversedByteSlice b).size = b.size := by
  unfold reversedByteSlice; simp

end Voi.Props.C14
