/-
C14 — the hash records of the library's XMD suites are well formed (`HashWF`): the executable
SHA-512 / SHA-384 / SHA-256 of `Voi.Spec.Sha2` return exactly 64 / 48 / 32 bytes for every message.
This discharges the only hypothesis of `xmd_model_eq_spec` and of the XMD suite theorems for the
SHA-2 instances.  Core Lean only.
-/
import Voi.Props.C14.Expand
namespace Voi.Props.C14
open Voi Voi.Spec Voi.Spec.H2C Voi.Model.H2C

/-! ### SHA-512 / SHA-384 -/

theorem sha512Rounds_size (w hs : Array UInt64) : ∀ (fuel t : Nat) (a b c d e f g h : UInt64),
    (sha512Rounds w hs fuel t a b c d e f g h).size = 8 := by
  intro fuel
  induction fuel with
  | zero => intros; rfl
  | succ n ih => intros; unfold sha512Rounds; exact ih ..

theorem sha512Compress_size (hs : Array UInt64) (m : Bytes) (off : Nat) : (sha512Compress hs m off).size = 8 :=
  sha512Rounds_size ..

theorem foldl_compress512_size (P : Bytes) (l : List Nat) : ∀ (iv : Array UInt64), iv.size = 8 →
    (l.foldl (fun b a => sha512Compress b P (128 * a)) iv).size = 8 := by
  induction l with
  | nil => intro iv h; exact h
  | cons x l ih => intro iv _; rw [List.foldl_cons]; exact ih _ (sha512Compress_size ..)

theorem inner_push_size {α : Type} (F : α → Nat → UInt8) (a : α) (l : List Nat) : ∀ (acc : ByteArray),
    (l.foldl (fun b j => b.push (F a j)) acc).size = acc.size + l.length := by
  induction l with
  | nil => intro acc; rfl
  | cons x l ih => intro acc; rw [List.foldl_cons, ih, ByteArray.size_push, List.length_cons]; omega

theorem outer_push_size {α : Type} (F : α → Nat → UInt8) (k : Nat) (l : List α) : ∀ (acc : ByteArray),
    (l.foldl (fun b a => (List.range' 0 k).foldl (fun b j => b.push (F a j)) b) acc).size
      = acc.size + k * l.length := by
  induction l with
  | nil => intro acc; simp
  | cons x l ih =>
    intro acc
    rw [List.foldl_cons, ih, inner_push_size, List.length_range', List.length_cons, Nat.mul_succ]; omega

theorem sha512Core_size (iv : Array UInt64) (hiv : iv.size = 8) (m : Bytes) (n : Nat) (hn : n ≤ 64) :
    (sha512Core iv m n).size = n := by
  unfold sha512Core
  simp
  rw [← Array.foldl_toList, outer_push_size (fun a j => (a >>> (56 - 8 * UInt64.ofNat j)).toUInt8)]
  rw [Array.length_toList, foldl_compress512_size _ _ _ hiv]
  show min n (0 + 8 * 8) = n
  omega

theorem sha512_size (m : Bytes) : (sha512 m).size = 64 := sha512Core_size _ rfl m 64 (by omega)
theorem sha384_size (m : Bytes) : (sha384 m).size = 48 := sha512Core_size _ rfl m 48 (by omega)

/-! ### SHA-256 -/

theorem sha256Rounds_size (w hs : Array UInt32) : ∀ (fuel t : Nat) (a b c d e f g h : UInt32),
    (sha256Rounds w hs fuel t a b c d e f g h).size = 8 := by
  intro fuel
  induction fuel with
  | zero => intros; rfl
  | succ n ih => intros; unfold sha256Rounds; exact ih ..

theorem sha256Compress_size (hs : Array UInt32) (m : Bytes) (off : Nat) : (sha256Compress hs m off).size = 8 :=
  sha256Rounds_size ..

theorem foldl_compress256_size (P : Bytes) (l : List Nat) : ∀ (iv : Array UInt32), iv.size = 8 →
    (l.foldl (fun b a => sha256Compress b P (64 * a)) iv).size = 8 := by
  induction l with
  | nil => intro iv h; exact h
  | cons x l ih => intro iv _; rw [List.foldl_cons]; exact ih _ (sha256Compress_size ..)

theorem sha256Core_size (iv : Array UInt32) (hiv : iv.size = 8) (m : Bytes) (n : Nat) (hn : n ≤ 32) :
    (sha256Core iv m n).size = n := by
  unfold sha256Core
  simp
  rw [← Array.foldl_toList, outer_push_size (fun a j => (a >>> (24 - 8 * UInt32.ofNat j)).toUInt8)]
  rw [Array.length_toList, foldl_compress256_size _ _ _ hiv]
  show min n (0 + 4 * 8) = n
  omega

theorem sha256_size (m : Bytes) : (sha256 m).size = 32 := sha256Core_size _ rfl m 32 (by omega)

/-! ### the records -/

theorem hashWF_sha512 : HashWF hSha512 := ⟨sha512_size, by decide⟩
theorem hashWF_sha384 : HashWF hSha384 := ⟨sha384_size, by decide⟩
theorem hashWF_sha256 : HashWF hSha256 := ⟨sha256_size, by decide⟩

/-! ### SHAKE128 / SHAKE256: `X m n` returns `n` bytes (`XofWF`) -/

theorem keccakRounds_size : ∀ (fuel i : Nat)
    (a0 a1 a2 a3 a4 a5 a6 a7 a8 a9 a10 a11 a12 a13 a14 a15 a16 a17 a18 a19 a20 a21 a22 a23 a24 : UInt64),
    (keccakRounds fuel i a0 a1 a2 a3 a4 a5 a6 a7 a8 a9 a10 a11 a12 a13 a14 a15 a16 a17 a18 a19 a20 a21 a22
      a23 a24).size = 25 := by
  intro fuel
  induction fuel with
  | zero => intros; rfl
  | succ n ih => intros; unfold keccakRounds; exact ih ..

theorem keccakF1600_size (s : Array UInt64) : (keccakF1600 s).size = 25 := keccakRounds_size ..

theorem bytesOfLanes_size (a : Array UInt64) : (bytesOfLanes a).size = 8 * a.size := by
  unfold bytesOfLanes
  simp
  rw [← Array.foldl_toList, outer_push_size (fun a j => (a >>> (8 * UInt64.ofNat j)).toUInt8)]
  rw [Array.length_toList]
  show 0 + 8 * a.size = 8 * a.size
  omega

theorem block_size (s : Array UInt64) (rate : Nat) (hr : rate ≤ 200) :
    ((bytesOfLanes (keccakF1600 s)).extract 0 rate).size = rate := by
  rw [ByteArray.size_extract, bytesOfLanes_size, keccakF1600_size]; omega

/-- the squeezing loop: every iteration appends one block of `rate` bytes -/
theorem squeeze_size (rate : Nat) (hr : rate ≤ 200) (l : List Nat) : ∀ (st : Array UInt64 × ByteArray),
    (l.foldl (fun b _ => (keccakF1600 b.fst, b.snd ++ ByteArray.extract (bytesOfLanes (keccakF1600 b.fst)) 0 rate))
      st).snd.size = st.snd.size + rate * l.length := by
  induction l with
  | nil => intro st; simp
  | cons x l ih =>
    intro st
    rw [List.foldl_cons, ih]
    simp only [ByteArray.size_append, block_size _ _ hr, List.length_cons, Nat.mul_succ]
    omega

theorem absorb_size (f : Array UInt64 → Nat → Array UInt64) (l : List Nat) : ∀ (init : Array UInt64),
    init.size = 25 → (l.foldl (fun b a => keccakF1600 (f b a)) init).size = 25 := by
  induction l with
  | nil => intro init h; exact h
  | cons x l ih => intro init _; rw [List.foldl_cons]; exact ih _ (keccakF1600_size _)

theorem ceil_mul_ge (n rate : Nat) (hr : 0 < rate) : n ≤ rate + rate * ((n + rate - 1) / rate - 1) := by
  by_cases hn : n = 0
  · omega
  · have h1 : 1 ≤ (n + rate - 1) / rate := by
      rw [Nat.le_div_iff_mul_le hr]; omega
    have hdm := Nat.div_add_mod (n + rate - 1) rate
    have hml := Nat.mod_lt (n + rate - 1) hr
    generalize (n + rate - 1) / rate = q at h1 hdm
    obtain ⟨k, rfl⟩ : ∃ k, q = k + 1 := ⟨q - 1, by omega⟩
    rw [Nat.add_sub_cancel]
    rw [Nat.mul_succ] at hdm
    omega

theorem keccakSponge_size (rate : Nat) (hr0 : 0 < rate) (hr : rate ≤ 200) (ds : UInt8) (m : Bytes) (n : Nat) :
    (keccakSponge rate ds m n).size = n := by
  unfold keccakSponge
  simp
  rw [squeeze_size rate hr]
  simp only [List.length_range']
  rw [ByteArray.size_extract, bytesOfLanes_size, absorb_size _ _ _ (by simp)]
  have := ceil_mul_ge n rate hr0
  omega

theorem shake128_size (m : Bytes) (n : Nat) : (shake128 m n).size = n := keccakSponge_size 168 (by omega) (by omega) _ m n
theorem shake256_size (m : Bytes) (n : Nat) : (shake256 m n).size = n := keccakSponge_size 136 (by omega) (by omega) _ m n

theorem xofWF_shake128 : XofWF shake128 := shake128_size
theorem xofWF_shake256 : XofWF shake256 := shake256_size

end Voi.Props.C14
