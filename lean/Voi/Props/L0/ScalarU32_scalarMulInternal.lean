/- Obligation: the regenerated program of curve/scalar:scalarMulInternal (tags force32bit) meets its committed specification. -/
import Voi.Props.L0.Specs
import Voi.Gen.IR_ScalarU32_scalarMulInternal
namespace Voi.Props.L0
open Voi.IR

set_option maxRecDepth 1000000 in
theorem ScalarU32_scalarMulInternal : check Voi.Gen.ScalarU32.scalarMulInternal_prog Voi.Gen.ScalarU32.scalarMulInternal_outs Spec.ScalarU32_scalarMulInternal = true := by decide +kernel

end Voi.Props.L0
