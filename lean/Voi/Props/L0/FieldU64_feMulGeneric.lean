/- Obligation: the regenerated program of internal/field:feMulGeneric (tags purego) meets its committed specification. -/
import Voi.Props.L0.Specs
import Voi.Gen.IR_FieldU64_feMulGeneric
namespace Voi.Props.L0
open Voi.IR

set_option maxRecDepth 1000000 in
theorem FieldU64_feMulGeneric : check Voi.Gen.FieldU64.feMulGeneric_prog Voi.Gen.FieldU64.feMulGeneric_outs Spec.FieldU64_feMulGeneric = true := by decide +kernel

end Voi.Props.L0
