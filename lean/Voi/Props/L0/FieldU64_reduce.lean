/- Obligation: the regenerated program of internal/field:(*Element).reduce (tags purego) meets its committed specification. -/
import Voi.Props.L0.Specs
import Voi.Gen.IR_FieldU64_reduce
namespace Voi.Props.L0
open Voi.IR

set_option maxRecDepth 1000000 in
theorem FieldU64_reduce : check Voi.Gen.FieldU64.reduce_prog Voi.Gen.FieldU64.reduce_outs Spec.FieldU64_reduce = true := by decide +kernel

end Voi.Props.L0
