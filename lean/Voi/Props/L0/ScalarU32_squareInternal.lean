/- Obligation: the regenerated program of curve/scalar:(*unpackedScalar).squareInternal (tags force32bit) meets its committed specification. -/
import Voi.Props.L0.Specs
import Voi.Gen.IR_ScalarU32_squareInternal
namespace Voi.Props.L0
open Voi.IR

set_option maxRecDepth 1000000 in
theorem ScalarU32_squareInternal : check Voi.Gen.ScalarU32.squareInternal_prog Voi.Gen.ScalarU32.squareInternal_outs Spec.ScalarU32_squareInternal = true := by decide +kernel

end Voi.Props.L0
