/-
Hand-written specifications of the limb-level functions (committed; the PROGRAMS they are checked
against are regenerated from /repo by go2ir on every run).  Inputs are numbered in parameter order
(`in`/`inout` pointers contribute their integer leaves, `sym` scalars and input bytes one variable each).
-/
import Voi.IR.Specs
namespace Voi.Props.L0.Spec
open Voi.IR

def L : Int := 2^252 + 27742317777372353535851937790883648493
def vars (a n : Nat) : List Nat := (List.range n).map (a + ·)
def rep (n : Nat) (v : AVal) : List AVal := List.replicate n v
def radix52 : List Nat := [0, 52, 104, 156, 208]
def radix29 : List Nat := (List.range 9).map (29 * ·)

/-! ## internal/field, 64-bit backend (5 × 51-bit limbs) -/
def p16_64 : List AVal := [bnd 36028797018963664, bnd 36028797018963952, bnd 36028797018963952, bnd 36028797018963952, bnd 36028797018963952]
def fe64 (a : Nat) : Poly := linW (vars a 5) radix51

def FieldU64_feMulGeneric : Spec where
  pre := rep 10 (bits 54)
  post := rep 5 (bits 52)
  noWrap := true
  congr := some ⟨P25519, weights radix51, (fe64 0).mul (fe64 5)⟩
def FieldU64_fePow2kGeneric1 : Spec where
  pre := rep 5 (bits 54)
  post := rep 5 (bits 52)
  noWrap := true
  congr := some ⟨P25519, weights radix51, (fe64 0).mul (fe64 0)⟩
def FieldU64_reduce : Spec where
  pre := rep 5 (bits 64)
  post := rep 5 (bits 52)
  noWrap := true
  congr := some ⟨P25519, weights radix51, fe64 0⟩
def FieldU64_Add : Spec where
  pre := rep 10 (bits 63)
  post := rep 5 (bits 64)
  noWrap := true
  congr := some ⟨0, weights radix51, (fe64 0).add (fe64 5)⟩
def FieldU64_Sub : Spec where
  pre := rep 5 (bits 63) ++ p16_64
  post := rep 5 (bits 52)
  noWrap := true
  congr := some ⟨P25519, weights radix51, (fe64 0).add ((fe64 5).scale (-1))⟩
def FieldU64_Neg : Spec where
  pre := p16_64
  post := rep 5 (bits 52)
  noWrap := true
  congr := some ⟨P25519, weights radix51, (fe64 0).scale (-1)⟩
def FieldU64_Mul121666 : Spec where
  pre := rep 5 (bits 54)
  post := rep 5 (bits 52)
  noWrap := true
  congr := some ⟨P25519, weights radix51, (fe64 0).scale 121666⟩
def FieldU64_Square2 : Spec where
  pre := rep 5 (bits 54)
  post := rep 5 (bits 53)
  noWrap := true
  congr := some ⟨P25519, weights radix51, ((fe64 0).mul (fe64 0)).scale 2⟩
/-- decoding ignores bit 255: value ≡ bytes (mod 2^255), every limb below 2^51 -/
def FieldU64_SetBytes : Spec where
  pre := rep 32 (bits 8)
  post := rep 5 (bits 51)
  noWrap := true
  congr := none
def FieldU64_SetBytesWide : Spec where
  pre := rep 64 (bits 8)
  post := rep 5 (bits 52)
  noWrap := true
  congr := none
def FieldU64_ToBytes : Spec where
  pre := rep 5 (bits 54)
  post := rep 32 (bits 8)
  noWrap := false
  congr := none
def FieldU64_ConditionalSelect : Spec where
  pre := rep 10 (bits 64) ++ [bnd 1]
  post := rep 5 (bits 64)
  noWrap := false
  congr := none
def FieldU64_ConditionalSwap : Spec where
  pre := rep 10 (bits 64) ++ [bnd 1]
  post := rep 10 (bits 64)
  noWrap := false
  congr := none
def FieldU64_ConditionalAssign : Spec where
  pre := rep 10 (bits 64) ++ [bnd 1]
  post := rep 5 (bits 64)
  noWrap := false
  congr := none


/-! ## internal/field, amd64 assembly (field_u64_amd64.s, translated by asm2ir) — the same contracts as the generic code -/
def FieldAsm_feMul : Spec := FieldU64_feMulGeneric
def FieldAsm_fePow2k1 : Spec := FieldU64_fePow2kGeneric1

/-! ## internal/field, 32-bit backend (10 limbs of 26/25 bits) -/
def evenB : Nat := 226050910   -- ⌊(2^32-1)/19⌋ : 19·x fits a uint32
def oddB : Nat := 113025455    -- half of it
def mulPre32 : List AVal := [bnd evenB, bnd oddB, bnd evenB, bnd oddB, bnd evenB, bnd oddB, bnd evenB, bnd oddB, bnd evenB, bnd oddB]
/-- what the reducing operations actually guarantee (even limbs < 2^26, odd limbs < 2^25 + 2^13): tight enough for the
sum of three such elements to satisfy `mulPre32` again — the headroom the formulas of curve/models.go rely on
(`Voi/Props/FL/Bounds`) -/
def red32t : List AVal := [bits 26, bnd (2^25 + 2^13), bits 26, bnd (2^25 + 2^13), bits 26, bnd (2^25 + 2^13), bits 26, bnd (2^25 + 2^13), bits 26, bnd (2^25 + 2^13)]
def red32 : List AVal := [bits 27, bits 26, bits 27, bits 26, bits 27, bits 26, bits 27, bits 26, bits 27, bits 26]
def p16_32 : List AVal := [bnd (0x3ffffed * 16), bnd (0x1ffffff * 16), bnd (0x3ffffff * 16), bnd (0x1ffffff * 16), bnd (0x3ffffff * 16),
  bnd (0x1ffffff * 16), bnd (0x3ffffff * 16), bnd (0x1ffffff * 16), bnd (0x3ffffff * 16), bnd (0x1ffffff * 16)]
def fe32 (a : Nat) : Poly := linW (vars a 10) radix2625

def FieldU32_Mul : Spec where
  pre := mulPre32 ++ mulPre32
  post := red32t
  noWrap := true
  congr := some ⟨P25519, weights radix2625, (fe32 0).mul (fe32 10)⟩
def FieldU32_Pow2k1 : Spec where
  pre := mulPre32
  post := red32t
  noWrap := true
  congr := some ⟨P25519, weights radix2625, (fe32 0).mul (fe32 0)⟩
def FieldU32_reduce : Spec where
  pre := rep 10 (bits 63)
  post := red32
  noWrap := true
  congr := some ⟨P25519, weights radix2625, fe32 0⟩
def FieldU32_Add : Spec where
  pre := rep 20 (bits 31)
  post := rep 10 (bits 32)
  noWrap := true
  congr := some ⟨0, weights radix2625, (fe32 0).add (fe32 10)⟩
def FieldU32_Sub : Spec where
  pre := rep 10 (bnd (3 * 2^30 - 1)) ++ p16_32
  post := red32t
  noWrap := true
  congr := some ⟨P25519, weights radix2625, (fe32 0).add ((fe32 10).scale (-1))⟩
def FieldU32_Neg : Spec where
  pre := p16_32
  post := red32t
  noWrap := true
  congr := some ⟨P25519, weights radix2625, (fe32 0).scale (-1)⟩
def FieldU32_Mul121666 : Spec where
  pre := mulPre32
  post := red32t
  noWrap := true
  congr := some ⟨P25519, weights radix2625, (fe32 0).scale 121666⟩
def FieldU32_Square2 : Spec where
  pre := mulPre32
  post := red32t
  noWrap := true
  congr := some ⟨P25519, weights radix2625, ((fe32 0).mul (fe32 0)).scale 2⟩
def FieldU32_SetBytes : Spec where
  pre := rep 32 (bits 8)
  post := red32t
  noWrap := false
  congr := none
def FieldU32_SetBytesWide : Spec where
  pre := rep 64 (bits 8)
  post := red32
  noWrap := false
  congr := none
def FieldU32_ToBytes : Spec where
  pre := mulPre32
  post := rep 32 (bits 8)
  noWrap := false
  congr := none
def FieldU32_ConditionalSelect : Spec where
  pre := rep 20 (bits 32) ++ [bnd 1]
  post := rep 10 (bits 32)
  noWrap := false
  congr := none
def FieldU32_ConditionalSwap : Spec where
  pre := rep 20 (bits 32) ++ [bnd 1]
  post := rep 20 (bits 32)
  noWrap := false
  congr := none
def FieldU32_ConditionalAssign : Spec where
  pre := rep 20 (bits 32) ++ [bnd 1]
  post := rep 10 (bits 32)
  noWrap := false
  congr := none

/-! ## curve/scalar, 64-bit backend (5 × 52-bit limbs; wide products as 9 (lo,hi) pairs of 64-bit words) -/
def sc64 (a : Nat) : Poly := linW (vars a 5) radix52
/-- weights of the 18-word product representation { l0_lo, l0_hi, …, l8_lo, l8_hi } -/
def wide64 : List Nat := (List.range 18).map fun i => 52 * (i / 2) + 64 * (i % 2)

def ScalarU64_scalarMulInternal : Spec where
  pre := rep 10 (bits 52)
  post := rep 18 (bits 64)
  noWrap := false
  congr := some ⟨0, weights wide64, (sc64 0).mul (sc64 5)⟩
def ScalarU64_squareInternal : Spec where
  pre := rep 5 (bits 52)
  post := rep 18 (bits 64)
  noWrap := false
  congr := some ⟨0, weights wide64, (sc64 0).mul (sc64 0)⟩

/-! ## curve/scalar, 32-bit backend (9 × 29-bit limbs; 17-word wide product) -/
def sc32 (a : Nat) : Poly := linW (vars a 9) radix29
def wide32 : List Nat := (List.range 17).map (29 * ·)
def ScalarU32_scalarMulInternal : Spec where
  pre := rep 18 (bits 29)
  post := rep 17 (bits 64)
  noWrap := false
  congr := none  -- Karatsuba with intentionally wrapping subtractions: value covered by stream T0/S1 (see DESIGN §7 C05)
def ScalarU32_squareInternal : Spec where
  pre := rep 9 (bits 29)
  post := rep 17 (bits 64)
  noWrap := false
  congr := some ⟨0, weights wide32, (sc32 0).mul (sc32 0)⟩


/-! ## scalar functions checked for bounds only (relational borrow/mask logic; values by correspondence T0/S1) -/
def ScalarU64_MontgomeryReduce : Spec where
  pre := (List.range 18).map fun i => if i % 2 = 0 then bits 64 else bits 44
  post := rep 5 (bits 52)
  noWrap := false
  congr := none
def ScalarU64_Add : Spec where
  pre := rep 10 (bits 52)
  post := rep 5 (bits 52)
  noWrap := false
  congr := none
def ScalarU64_Sub : Spec where
  pre := rep 10 (bits 52)
  post := rep 5 (bits 52)
  noWrap := false
  congr := none
def ScalarU64_SetBytes : Spec where
  pre := rep 32 (bits 8)
  post := rep 5 (bits 52)
  noWrap := false
  congr := none
def ScalarU64_SetBytesWide : Spec where
  pre := rep 64 (bits 8)
  post := rep 5 (bits 52)
  noWrap := false
  congr := none
def ScalarU64_ToBytes : Spec where
  pre := rep 5 (bits 52)
  post := rep 32 (bits 8)
  noWrap := false
  congr := none
def ScalarU64_MontgomeryMul : Spec where
  pre := rep 10 (bits 52)
  post := rep 5 (bits 52)
  noWrap := false
  congr := none
def ScalarU64_Mul : Spec where
  pre := rep 10 (bits 52)
  post := rep 5 (bits 52)
  noWrap := false
  congr := none
def ScalarU64_FromMontgomery : Spec where
  pre := rep 5 (bits 52)
  post := rep 5 (bits 52)
  noWrap := false
  congr := none
def ScalarU32_MontgomeryReduce : Spec where
  pre := rep 17 (bits 62)
  post := rep 9 (bits 29)
  noWrap := false
  congr := none
def ScalarU32_Add : Spec where
  pre := rep 18 (bits 29)
  post := rep 9 (bits 29)
  noWrap := false
  congr := none
def ScalarU32_Sub : Spec where
  pre := rep 18 (bits 29)
  post := rep 9 (bits 29)
  noWrap := false
  congr := none
def ScalarU32_SetBytes : Spec where
  pre := rep 32 (bits 8)
  post := rep 9 (bits 29)
  noWrap := false
  congr := none
def ScalarU32_SetBytesWide : Spec where
  pre := rep 64 (bits 8)
  post := rep 9 (bits 29)
  noWrap := false
  congr := none
def ScalarU32_ToBytes : Spec where
  pre := rep 9 (bits 29)
  post := rep 32 (bits 8)
  noWrap := false
  congr := none
def ScalarU32_MontgomeryMul : Spec where
  pre := rep 18 (bits 29)
  post := rep 9 (bits 29)
  noWrap := false
  congr := none
def ScalarU32_Mul : Spec where
  pre := rep 18 (bits 29)
  post := rep 9 (bits 29)
  noWrap := false
  congr := none
def ScalarU32_FromMontgomery : Spec where
  pre := rep 9 (bits 29)
  post := rep 9 (bits 29)
  noWrap := false
  congr := none

end Voi.Props.L0.Spec
