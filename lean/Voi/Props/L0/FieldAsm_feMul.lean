/- Obligation: the program asm2ir regenerated from internal/field/field_u64_amd64.s:feMul meets the committed specification
   (the SAME specification as the generic Go code). -/
import Voi.Props.L0.Specs
import Voi.Gen.IR_FieldAsm_feMul
namespace Voi.Props.L0
open Voi.IR

set_option maxRecDepth 1000000 in
theorem FieldAsm_feMul : check Voi.Gen.FieldAsm.feMul_prog Voi.Gen.FieldAsm.feMul_outs Spec.FieldAsm_feMul = true := by decide +kernel

end Voi.Props.L0
