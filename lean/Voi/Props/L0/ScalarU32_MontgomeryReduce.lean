/- Obligation: the regenerated program of curve/scalar:(*unpackedScalar).MontgomeryReduce (tags force32bit) meets its committed specification. -/
import Voi.Props.L0.Specs
import Voi.Gen.IR_ScalarU32_MontgomeryReduce
namespace Voi.Props.L0
open Voi.IR

set_option maxRecDepth 1000000 in
theorem ScalarU32_MontgomeryReduce : check Voi.Gen.ScalarU32.MontgomeryReduce_prog Voi.Gen.ScalarU32.MontgomeryReduce_outs Spec.ScalarU32_MontgomeryReduce = true := by decide +kernel

end Voi.Props.L0
