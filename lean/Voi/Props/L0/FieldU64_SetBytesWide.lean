/- Obligation: the regenerated program of internal/field:(*Element).SetBytesWide (tags purego) meets its committed specification. -/
import Voi.Props.L0.Specs
import Voi.Gen.IR_FieldU64_SetBytesWide
namespace Voi.Props.L0
open Voi.IR

set_option maxRecDepth 1000000 in
theorem FieldU64_SetBytesWide : check Voi.Gen.FieldU64.SetBytesWide_prog Voi.Gen.FieldU64.SetBytesWide_outs Spec.FieldU64_SetBytesWide = true := by decide +kernel

end Voi.Props.L0
