/- Obligation: the regenerated program of curve/scalar:(*unpackedScalar).ToBytes (tags force32bit) meets its committed specification. -/
import Voi.Props.L0.Specs
import Voi.Gen.IR_ScalarU32_ToBytes
namespace Voi.Props.L0
open Voi.IR

set_option maxRecDepth 1000000 in
theorem ScalarU32_ToBytes : check Voi.Gen.ScalarU32.ToBytes_prog Voi.Gen.ScalarU32.ToBytes_outs Spec.ScalarU32_ToBytes = true := by decide +kernel

end Voi.Props.L0
