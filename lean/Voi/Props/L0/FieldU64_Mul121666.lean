/- Obligation: the regenerated program of internal/field:(*Element).Mul121666 (tags purego) meets its committed specification. -/
import Voi.Props.L0.Specs
import Voi.Gen.IR_FieldU64_Mul121666
namespace Voi.Props.L0
open Voi.IR

set_option maxRecDepth 1000000 in
theorem FieldU64_Mul121666 : check Voi.Gen.FieldU64.Mul121666_prog Voi.Gen.FieldU64.Mul121666_outs Spec.FieldU64_Mul121666 = true := by decide +kernel

end Voi.Props.L0
