/- Obligation: the regenerated program of curve/scalar:(*unpackedScalar).ToBytes (tags purego) meets its committed specification. -/
import Voi.Props.L0.Specs
import Voi.Gen.IR_ScalarU64_ToBytes
namespace Voi.Props.L0
open Voi.IR

set_option maxRecDepth 1000000 in
theorem ScalarU64_ToBytes : check Voi.Gen.ScalarU64.ToBytes_prog Voi.Gen.ScalarU64.ToBytes_outs Spec.ScalarU64_ToBytes = true := by decide +kernel

end Voi.Props.L0
