/- Obligation: the regenerated program of internal/field:(*Element).Pow2k (tags force32bit) meets its committed specification. -/
import Voi.Props.L0.Specs
import Voi.Gen.IR_FieldU32_Pow2k1
namespace Voi.Props.L0
open Voi.IR

set_option maxRecDepth 1000000 in
theorem FieldU32_Pow2k1 : check Voi.Gen.FieldU32.Pow2k1_prog Voi.Gen.FieldU32.Pow2k1_outs Spec.FieldU32_Pow2k1 = true := by decide +kernel

end Voi.Props.L0
