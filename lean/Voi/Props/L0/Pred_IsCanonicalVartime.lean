/-
Obligation (C10, canonicity clause): the decision tree go2ir regenerated from curve/edwards.go:IsCanonicalVartime (the
succeed-fast loop over all 32 bytes, then the comparison with the two package-level byte strings `noncanonicalSignBits`,
whose contents come from interpreting the real initialiser) returns `true` exactly when the y field (low 255 bits) is
below p = 2^255-19 and the string is neither (y = 1, sign bit set) nor (y = p-1, sign bit set) — for ALL 2^256 inputs.
Generic proof script (one lemma application per `if`, omega per path): ≈ 8 min of kernel/omega time, built once in setup
and again only when the regenerated tree changes.
-/
import Voi.IR.TreeLemmas
import Voi.Gen.IR_Pred_IsCanonicalVartime
namespace Voi.Props.L0
open Voi.IR Voi.Gen.Pred

set_option synthInstance.maxSize 100000 in
set_option synthInstance.maxHeartbeats 4000000 in
set_option maxHeartbeats 40000000 in
theorem Pred_IsCanonicalVartime
    (b0 b1 b2 b3 b4 b5 b6 b7 b8 b9 b10 b11 b12 b13 b14 b15 b16 b17 b18 b19 b20 b21 b22 b23 b24 b25 b26 b27 b28 b29 b30 b31 : Nat)
    (h0 : b0 < 256) (h1 : b1 < 256) (h2 : b2 < 256) (h3 : b3 < 256) (h4 : b4 < 256) (h5 : b5 < 256) (h6 : b6 < 256) (h7 : b7 < 256)
    (h8 : b8 < 256) (h9 : b9 < 256) (h10 : b10 < 256) (h11 : b11 < 256) (h12 : b12 < 256) (h13 : b13 < 256) (h14 : b14 < 256) (h15 : b15 < 256)
    (h16 : b16 < 256) (h17 : b17 < 256) (h18 : b18 < 256) (h19 : b19 < 256) (h20 : b20 < 256) (h21 : b21 < 256) (h22 : b22 < 256) (h23 : b23 < 256)
    (h24 : b24 < 256) (h25 : b25 < 256) (h26 : b26 < 256) (h27 : b27 < 256) (h28 : b28 < 256) (h29 : b29 < 256) (h30 : b30 < 256) (h31 : b31 < 256) :
    IsCanonicalVartime_sh b0 b1 b2 b3 b4 b5 b6 b7 b8 b9 b10 b11 b12 b13 b14 b15 b16 b17 b18 b19 b20 b21 b22 b23 b24 b25 b26 b27 b28 b29 b30 b31
      = [if (b0 + 2^8*b1 + 2^16*b2 + 2^24*b3 + 2^32*b4 + 2^40*b5 + 2^48*b6 + 2^56*b7 + 2^64*b8 + 2^72*b9 + 2^80*b10 + 2^88*b11 + 2^96*b12 + 2^104*b13 + 2^112*b14 + 2^120*b15
           + 2^128*b16 + 2^136*b17 + 2^144*b18 + 2^152*b19 + 2^160*b20 + 2^168*b21 + 2^176*b22 + 2^184*b23 + 2^192*b24 + 2^200*b25 + 2^208*b26 + 2^216*b27
           + 2^224*b28 + 2^232*b29 + 2^240*b30 + 2^248*(b31 % 128) < 2^255 - 19)
         ∧ ¬(b0 = 1 ∧ b1 = 0 ∧ b2 = 0 ∧ b3 = 0 ∧ b4 = 0 ∧ b5 = 0 ∧ b6 = 0 ∧ b7 = 0 ∧ b8 = 0 ∧ b9 = 0 ∧ b10 = 0 ∧ b11 = 0 ∧ b12 = 0 ∧ b13 = 0 ∧ b14 = 0 ∧ b15 = 0 ∧ b16 = 0 ∧ b17 = 0 ∧ b18 = 0 ∧ b19 = 0 ∧ b20 = 0 ∧ b21 = 0 ∧ b22 = 0 ∧ b23 = 0 ∧ b24 = 0 ∧ b25 = 0 ∧ b26 = 0 ∧ b27 = 0 ∧ b28 = 0 ∧ b29 = 0 ∧ b30 = 0 ∧ b31 = 128)
         ∧ ¬(b0 = 236 ∧ b1 = 255 ∧ b2 = 255 ∧ b3 = 255 ∧ b4 = 255 ∧ b5 = 255 ∧ b6 = 255 ∧ b7 = 255 ∧ b8 = 255 ∧ b9 = 255 ∧ b10 = 255 ∧ b11 = 255 ∧ b12 = 255 ∧ b13 = 255 ∧ b14 = 255 ∧ b15 = 255 ∧ b16 = 255 ∧ b17 = 255 ∧ b18 = 255 ∧ b19 = 255 ∧ b20 = 255 ∧ b21 = 255 ∧ b22 = 255 ∧ b23 = 255 ∧ b24 = 255 ∧ b25 = 255 ∧ b26 = 255 ∧ b27 = 255 ∧ b28 = 255 ∧ b29 = 255 ∧ b30 = 255 ∧ b31 = 255)
         then 1 else 0] := by
  unfold IsCanonicalVartime_sh
  repeat' (refine ite_l (fun _ => ?_) (fun _ => ?_))
  all_goals (refine sing_ite (fun _ => ?_) (fun _ => ?_))
  -- leaves are constants or comparisons (`return v < c`); `with_reducible`: never try to evaluate a comparison of open terms
  all_goals first | (with_reducible rfl) | (exfalso; omega) | (exact if_pos (by omega)) | (exact if_neg (by omega))

end Voi.Props.L0
