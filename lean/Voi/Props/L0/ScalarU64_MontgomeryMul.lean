/- Obligation: the regenerated program of curve/scalar:(*unpackedScalar).MontgomeryMul (tags purego) meets its committed specification. -/
import Voi.Props.L0.Specs
import Voi.Gen.IR_ScalarU64_MontgomeryMul
namespace Voi.Props.L0
open Voi.IR

set_option maxRecDepth 1000000 in
theorem ScalarU64_MontgomeryMul : check Voi.Gen.ScalarU64.MontgomeryMul_prog Voi.Gen.ScalarU64.MontgomeryMul_outs Spec.ScalarU64_MontgomeryMul = true := by decide +kernel

end Voi.Props.L0
