/- Obligation: the regenerated program of curve/scalar:(*unpackedScalar).SetBytesWide (tags purego) meets its committed specification. -/
import Voi.Props.L0.Specs
import Voi.Gen.IR_ScalarU64_SetBytesWide
namespace Voi.Props.L0
open Voi.IR

set_option maxRecDepth 1000000 in
theorem ScalarU64_SetBytesWide : check Voi.Gen.ScalarU64.SetBytesWide_prog Voi.Gen.ScalarU64.SetBytesWide_outs Spec.ScalarU64_SetBytesWide = true := by decide +kernel

end Voi.Props.L0
