/- Obligation: the regenerated program of curve/scalar:(*unpackedScalar).SetBytesWide (tags force32bit) meets its committed specification. -/
import Voi.Props.L0.Specs
import Voi.Gen.IR_ScalarU32_SetBytesWide
namespace Voi.Props.L0
open Voi.IR

set_option maxRecDepth 1000000 in
theorem ScalarU32_SetBytesWide : check Voi.Gen.ScalarU32.SetBytesWide_prog Voi.Gen.ScalarU32.SetBytesWide_outs Spec.ScalarU32_SetBytesWide = true := by decide +kernel

end Voi.Props.L0
