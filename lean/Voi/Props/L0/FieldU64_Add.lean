/- Obligation: the regenerated program of internal/field:(*Element).Add (tags purego) meets its committed specification. -/
import Voi.Props.L0.Specs
import Voi.Gen.IR_FieldU64_Add
namespace Voi.Props.L0
open Voi.IR

set_option maxRecDepth 1000000 in
theorem FieldU64_Add : check Voi.Gen.FieldU64.Add_prog Voi.Gen.FieldU64.Add_outs Spec.FieldU64_Add = true := by decide +kernel

end Voi.Props.L0
