/- Obligation: the regenerated program of internal/field:(*Element).Square2 (tags force32bit) meets its committed specification. -/
import Voi.Props.L0.Specs
import Voi.Gen.IR_FieldU32_Square2
namespace Voi.Props.L0
open Voi.IR

set_option maxRecDepth 1000000 in
theorem FieldU32_Square2 : check Voi.Gen.FieldU32.Square2_prog Voi.Gen.FieldU32.Square2_outs Spec.FieldU32_Square2 = true := by decide +kernel

end Voi.Props.L0
