/-
Obligation (C05, predicate clause): the decision tree that go2ir regenerated from curve/scalar/sc_minimal.go:ScMinimalVartime
(every branch of the real control flow explored, comparisons kept as arithmetic) returns `true` exactly when the
little-endian value of the 32 input bytes is below the group order L — for ALL 2^256 inputs.
The proof script is generic (one lemma application per `if`, then `omega` per path), so a harmless rewrite of the Go
function re-proves itself; a comparison that skips a word, a wrong mask or a wrong constant does not.
-/
import Voi.IR.TreeLemmas
import Voi.Gen.IR_Pred_ScMinimalVartime
namespace Voi.Props.L0
open Voi.IR Voi.Gen.Pred

def Lnat : Nat := 2^252 + 27742317777372353535851937790883648493

set_option maxHeartbeats 4000000 in
theorem Pred_ScMinimalVartime
    (b0 b1 b2 b3 b4 b5 b6 b7 b8 b9 b10 b11 b12 b13 b14 b15 b16 b17 b18 b19 b20 b21 b22 b23 b24 b25 b26 b27 b28 b29 b30 b31 : Nat)
    (h0 : b0 < 256) (h1 : b1 < 256) (h2 : b2 < 256) (h3 : b3 < 256) (h4 : b4 < 256) (h5 : b5 < 256) (h6 : b6 < 256) (h7 : b7 < 256)
    (h8 : b8 < 256) (h9 : b9 < 256) (h10 : b10 < 256) (h11 : b11 < 256) (h12 : b12 < 256) (h13 : b13 < 256) (h14 : b14 < 256) (h15 : b15 < 256)
    (h16 : b16 < 256) (h17 : b17 < 256) (h18 : b18 < 256) (h19 : b19 < 256) (h20 : b20 < 256) (h21 : b21 < 256) (h22 : b22 < 256) (h23 : b23 < 256)
    (h24 : b24 < 256) (h25 : b25 < 256) (h26 : b26 < 256) (h27 : b27 < 256) (h28 : b28 < 256) (h29 : b29 < 256) (h30 : b30 < 256) (h31 : b31 < 256) :
    ScMinimalVartime_sh b0 b1 b2 b3 b4 b5 b6 b7 b8 b9 b10 b11 b12 b13 b14 b15 b16 b17 b18 b19 b20 b21 b22 b23 b24 b25 b26 b27 b28 b29 b30 b31
      = [if b0 + 2^8*b1 + 2^16*b2 + 2^24*b3 + 2^32*b4 + 2^40*b5 + 2^48*b6 + 2^56*b7 + 2^64*b8 + 2^72*b9 + 2^80*b10 + 2^88*b11 + 2^96*b12 + 2^104*b13 + 2^112*b14 + 2^120*b15
           + 2^128*b16 + 2^136*b17 + 2^144*b18 + 2^152*b19 + 2^160*b20 + 2^168*b21 + 2^176*b22 + 2^184*b23 + 2^192*b24 + 2^200*b25 + 2^208*b26 + 2^216*b27
           + 2^224*b28 + 2^232*b29 + 2^240*b30 + 2^248*b31 < Lnat then 1 else 0] := by
  unfold ScMinimalVartime_sh Lnat
  repeat' (refine ite_l (fun _ => ?_) (fun _ => ?_))
  all_goals (refine sing_ite (fun _ => ?_) (fun _ => ?_))
  -- leaves are constants or comparisons (`return v < c`); `with_reducible`: never try to evaluate a comparison of open terms
  all_goals first | (with_reducible rfl) | (exfalso; omega) | (exact if_pos (by omega)) | (exact if_neg (by omega))

/-- non-vacuity: the tree really distinguishes L − 1 from L -/
example : ScMinimalVartime_sh 0xec 0xd3 0xf5 0x5c 0x1a 0x63 0x12 0x58 0xd6 0x9c 0xf7 0xa2 0xde 0xf9 0xde 0x14 0 0 0 0 0 0 0 0 0 0 0 0 0 0 0 0x10 = [1] := by decide
example : ScMinimalVartime_sh 0xed 0xd3 0xf5 0x5c 0x1a 0x63 0x12 0x58 0xd6 0x9c 0xf7 0xa2 0xde 0xf9 0xde 0x14 0 0 0 0 0 0 0 0 0 0 0 0 0 0 0 0x10 = [0] := by decide

end Voi.Props.L0
