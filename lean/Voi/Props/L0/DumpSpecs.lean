/- Renders the committed limb-function specifications as JSON lines (one per function), so that the failing-input search of
   bin/check can evaluate EXACTLY these specifications on concrete outputs of the real Go functions.
   Run: lake env lean --run Voi/Props/L0/DumpSpecs.lean -/
import Voi.Props.L0.Specs
open Voi.IR Voi.Props.L0.Spec

def jList (l : List String) : String := "[" ++ ", ".intercalate l ++ "]"
def atomJ : Atom → String
  | .var v => toString v
  | .quot _ _ => "-1"
def polyJ (p : Poly) : String := jList (p.map fun (c, m) => "[" ++ toString c ++ ", " ++ jList (m.map atomJ) ++ "]")
def specJ (name : String) (s : Spec) : String :=
  "{\"name\": \"" ++ name ++ "\", \"pre_hi\": " ++ jList (s.pre.map (toString ·.hi)) ++
  ", \"pre_lo\": " ++ jList (s.pre.map (toString ·.lo)) ++
  ", \"post_hi\": " ++ jList (s.post.map (toString ·.hi)) ++ ", \"noWrap\": " ++ (if s.noWrap then "true" else "false") ++
  (match s.congr with
   | none => ""
   | some c => ", \"modulus\": " ++ toString c.modulus ++ ", \"weights\": " ++ jList (c.weights.map toString) ++ ", \"rhs\": " ++ polyJ c.rhs.norm) ++ "}"

def main : IO Unit := do
  IO.println (specJ "FieldU64_feMulGeneric" FieldU64_feMulGeneric)
  IO.println (specJ "FieldU64_fePow2kGeneric1" FieldU64_fePow2kGeneric1)
  IO.println (specJ "FieldU64_reduce" FieldU64_reduce)
  IO.println (specJ "FieldU64_Add" FieldU64_Add)
  IO.println (specJ "FieldU64_Sub" FieldU64_Sub)
  IO.println (specJ "FieldU64_Neg" FieldU64_Neg)
  IO.println (specJ "FieldU64_Mul121666" FieldU64_Mul121666)
  IO.println (specJ "FieldU64_Square2" FieldU64_Square2)
  IO.println (specJ "FieldU64_SetBytes" FieldU64_SetBytes)
  IO.println (specJ "FieldU64_SetBytesWide" FieldU64_SetBytesWide)
  IO.println (specJ "FieldU64_ToBytes" FieldU64_ToBytes)
  IO.println (specJ "FieldU64_ConditionalSelect" FieldU64_ConditionalSelect)
  IO.println (specJ "FieldU64_ConditionalSwap" FieldU64_ConditionalSwap)
  IO.println (specJ "FieldU64_ConditionalAssign" FieldU64_ConditionalAssign)
  IO.println (specJ "FieldAsm_feMul" FieldAsm_feMul)
  IO.println (specJ "FieldAsm_fePow2k1" FieldAsm_fePow2k1)
  IO.println (specJ "FieldU32_Mul" FieldU32_Mul)
  IO.println (specJ "FieldU32_Pow2k1" FieldU32_Pow2k1)
  IO.println (specJ "FieldU32_reduce" FieldU32_reduce)
  IO.println (specJ "FieldU32_Add" FieldU32_Add)
  IO.println (specJ "FieldU32_Sub" FieldU32_Sub)
  IO.println (specJ "FieldU32_Neg" FieldU32_Neg)
  IO.println (specJ "FieldU32_Mul121666" FieldU32_Mul121666)
  IO.println (specJ "FieldU32_Square2" FieldU32_Square2)
  IO.println (specJ "FieldU32_SetBytes" FieldU32_SetBytes)
  IO.println (specJ "FieldU32_SetBytesWide" FieldU32_SetBytesWide)
  IO.println (specJ "FieldU32_ToBytes" FieldU32_ToBytes)
  IO.println (specJ "FieldU32_ConditionalSelect" FieldU32_ConditionalSelect)
  IO.println (specJ "FieldU32_ConditionalSwap" FieldU32_ConditionalSwap)
  IO.println (specJ "FieldU32_ConditionalAssign" FieldU32_ConditionalAssign)
  IO.println (specJ "ScalarU64_scalarMulInternal" ScalarU64_scalarMulInternal)
  IO.println (specJ "ScalarU64_squareInternal" ScalarU64_squareInternal)
  IO.println (specJ "ScalarU64_MontgomeryReduce" ScalarU64_MontgomeryReduce)
  IO.println (specJ "ScalarU64_Add" ScalarU64_Add)
  IO.println (specJ "ScalarU64_Sub" ScalarU64_Sub)
  IO.println (specJ "ScalarU64_SetBytes" ScalarU64_SetBytes)
  IO.println (specJ "ScalarU64_ToBytes" ScalarU64_ToBytes)
  IO.println (specJ "ScalarU64_FromMontgomery" ScalarU64_FromMontgomery)
  IO.println (specJ "ScalarU64_MontgomeryMul" ScalarU64_MontgomeryMul)
  IO.println (specJ "ScalarU32_scalarMulInternal" ScalarU32_scalarMulInternal)
  IO.println (specJ "ScalarU32_squareInternal" ScalarU32_squareInternal)
  IO.println (specJ "ScalarU32_MontgomeryReduce" ScalarU32_MontgomeryReduce)
  IO.println (specJ "ScalarU32_Add" ScalarU32_Add)
  IO.println (specJ "ScalarU32_Sub" ScalarU32_Sub)
  IO.println (specJ "ScalarU32_SetBytes" ScalarU32_SetBytes)
  IO.println (specJ "ScalarU32_ToBytes" ScalarU32_ToBytes)
  IO.println (specJ "ScalarU32_FromMontgomery" ScalarU32_FromMontgomery)
  IO.println (specJ "ScalarU32_MontgomeryMul" ScalarU32_MontgomeryMul)
