/- Obligation: the regenerated program of curve/scalar:(*unpackedScalar).SetBytes (tags force32bit) meets its committed specification. -/
import Voi.Props.L0.Specs
import Voi.Gen.IR_ScalarU32_SetBytes
namespace Voi.Props.L0
open Voi.IR

set_option maxRecDepth 1000000 in
theorem ScalarU32_SetBytes : check Voi.Gen.ScalarU32.SetBytes_prog Voi.Gen.ScalarU32.SetBytes_outs Spec.ScalarU32_SetBytes = true := by decide +kernel

end Voi.Props.L0
