/- Obligation: the regenerated program of internal/field:(*Element).Add (tags force32bit) meets its committed specification. -/
import Voi.Props.L0.Specs
import Voi.Gen.IR_FieldU32_Add
namespace Voi.Props.L0
open Voi.IR

set_option maxRecDepth 1000000 in
theorem FieldU32_Add : check Voi.Gen.FieldU32.Add_prog Voi.Gen.FieldU32.Add_outs Spec.FieldU32_Add = true := by decide +kernel

end Voi.Props.L0
