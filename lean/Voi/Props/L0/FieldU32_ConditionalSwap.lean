/- Obligation: the regenerated program of internal/field:(*Element).ConditionalSwap (tags force32bit) meets its committed specification. -/
import Voi.Props.L0.Specs
import Voi.Gen.IR_FieldU32_ConditionalSwap
namespace Voi.Props.L0
open Voi.IR

set_option maxRecDepth 1000000 in
theorem FieldU32_ConditionalSwap : check Voi.Gen.FieldU32.ConditionalSwap_prog Voi.Gen.FieldU32.ConditionalSwap_outs Spec.FieldU32_ConditionalSwap = true := by decide +kernel

end Voi.Props.L0
