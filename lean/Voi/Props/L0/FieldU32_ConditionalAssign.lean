/- Obligation: the regenerated program of internal/field:(*Element).ConditionalAssign (tags force32bit) meets its committed specification. -/
import Voi.Props.L0.Specs
import Voi.Gen.IR_FieldU32_ConditionalAssign
namespace Voi.Props.L0
open Voi.IR

set_option maxRecDepth 1000000 in
theorem FieldU32_ConditionalAssign : check Voi.Gen.FieldU32.ConditionalAssign_prog Voi.Gen.FieldU32.ConditionalAssign_outs Spec.FieldU32_ConditionalAssign = true := by decide +kernel

end Voi.Props.L0
