/- Obligation: the regenerated program of internal/field:(*Element).ToBytes (tags force32bit) meets its committed specification. -/
import Voi.Props.L0.Specs
import Voi.Gen.IR_FieldU32_ToBytes
namespace Voi.Props.L0
open Voi.IR

set_option maxRecDepth 1000000 in
theorem FieldU32_ToBytes : check Voi.Gen.FieldU32.ToBytes_prog Voi.Gen.FieldU32.ToBytes_outs Spec.FieldU32_ToBytes = true := by decide +kernel

end Voi.Props.L0
