/- Obligation: the regenerated program of internal/field:(*Element).ToBytes (tags purego) meets its committed specification. -/
import Voi.Props.L0.Specs
import Voi.Gen.IR_FieldU64_ToBytes
namespace Voi.Props.L0
open Voi.IR

set_option maxRecDepth 1000000 in
theorem FieldU64_ToBytes : check Voi.Gen.FieldU64.ToBytes_prog Voi.Gen.FieldU64.ToBytes_outs Spec.FieldU64_ToBytes = true := by decide +kernel

end Voi.Props.L0
