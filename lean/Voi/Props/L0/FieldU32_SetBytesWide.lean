/- Obligation: the regenerated program of internal/field:(*Element).SetBytesWide (tags force32bit) meets its committed specification. -/
import Voi.Props.L0.Specs
import Voi.Gen.IR_FieldU32_SetBytesWide
namespace Voi.Props.L0
open Voi.IR

set_option maxRecDepth 1000000 in
theorem FieldU32_SetBytesWide : check Voi.Gen.FieldU32.SetBytesWide_prog Voi.Gen.FieldU32.SetBytesWide_outs Spec.FieldU32_SetBytesWide = true := by decide +kernel

end Voi.Props.L0
