/- Obligation: the regenerated program of curve/scalar:(*unpackedScalar).Sub (tags purego) meets its committed specification. -/
import Voi.Props.L0.Specs
import Voi.Gen.IR_ScalarU64_Sub
namespace Voi.Props.L0
open Voi.IR

set_option maxRecDepth 1000000 in
theorem ScalarU64_Sub : check Voi.Gen.ScalarU64.Sub_prog Voi.Gen.ScalarU64.Sub_outs Spec.ScalarU64_Sub = true := by decide +kernel

end Voi.Props.L0
