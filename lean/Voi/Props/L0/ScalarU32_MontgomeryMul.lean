/- Obligation: the regenerated program of curve/scalar:(*unpackedScalar).MontgomeryMul (tags force32bit) meets its committed specification. -/
import Voi.Props.L0.Specs
import Voi.Gen.IR_ScalarU32_MontgomeryMul
namespace Voi.Props.L0
open Voi.IR

set_option maxRecDepth 1000000 in
theorem ScalarU32_MontgomeryMul : check Voi.Gen.ScalarU32.MontgomeryMul_prog Voi.Gen.ScalarU32.MontgomeryMul_outs Spec.ScalarU32_MontgomeryMul = true := by decide +kernel

end Voi.Props.L0
