/- Obligation: the regenerated program of internal/field:(*Element).reduce (tags force32bit) meets its committed specification. -/
import Voi.Props.L0.Specs
import Voi.Gen.IR_FieldU32_reduce
namespace Voi.Props.L0
open Voi.IR

set_option maxRecDepth 1000000 in
theorem FieldU32_reduce : check Voi.Gen.FieldU32.reduce_prog Voi.Gen.FieldU32.reduce_outs Spec.FieldU32_reduce = true := by decide +kernel

end Voi.Props.L0
