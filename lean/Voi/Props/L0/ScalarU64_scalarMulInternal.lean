/- Obligation: the regenerated program of curve/scalar:scalarMulInternal (tags purego) meets its committed specification. -/
import Voi.Props.L0.Specs
import Voi.Gen.IR_ScalarU64_scalarMulInternal
namespace Voi.Props.L0
open Voi.IR

set_option maxRecDepth 1000000 in
theorem ScalarU64_scalarMulInternal : check Voi.Gen.ScalarU64.scalarMulInternal_prog Voi.Gen.ScalarU64.scalarMulInternal_outs Spec.ScalarU64_scalarMulInternal = true := by decide +kernel

end Voi.Props.L0
