/- Obligation: the regenerated program of internal/field:(*Element).ConditionalAssign (tags purego) meets its committed specification. -/
import Voi.Props.L0.Specs
import Voi.Gen.IR_FieldU64_ConditionalAssign
namespace Voi.Props.L0
open Voi.IR

set_option maxRecDepth 1000000 in
theorem FieldU64_ConditionalAssign : check Voi.Gen.FieldU64.ConditionalAssign_prog Voi.Gen.FieldU64.ConditionalAssign_outs Spec.FieldU64_ConditionalAssign = true := by decide +kernel

end Voi.Props.L0
