/- Obligation: the regenerated program of internal/field:(*Element).SetBytes (tags purego) meets its committed specification. -/
import Voi.Props.L0.Specs
import Voi.Gen.IR_FieldU64_SetBytes
namespace Voi.Props.L0
open Voi.IR

set_option maxRecDepth 1000000 in
theorem FieldU64_SetBytes : check Voi.Gen.FieldU64.SetBytes_prog Voi.Gen.FieldU64.SetBytes_outs Spec.FieldU64_SetBytes = true := by decide +kernel

end Voi.Props.L0
