/- Obligation: the regenerated program of curve/scalar:(*unpackedScalar).Add (tags purego) meets its committed specification. -/
import Voi.Props.L0.Specs
import Voi.Gen.IR_ScalarU64_Add
namespace Voi.Props.L0
open Voi.IR

set_option maxRecDepth 1000000 in
theorem ScalarU64_Add : check Voi.Gen.ScalarU64.Add_prog Voi.Gen.ScalarU64.Add_outs Spec.ScalarU64_Add = true := by decide +kernel

end Voi.Props.L0
