/- Obligation: the regenerated program of curve/scalar:(*unpackedScalar).Mul (tags force32bit) meets its committed specification. -/
import Voi.Props.L0.Specs
import Voi.Gen.IR_ScalarU32_Mul
namespace Voi.Props.L0
open Voi.IR

set_option maxRecDepth 1000000 in
theorem ScalarU32_Mul : check Voi.Gen.ScalarU32.Mul_prog Voi.Gen.ScalarU32.Mul_outs Spec.ScalarU32_Mul = true := by decide +kernel

end Voi.Props.L0
