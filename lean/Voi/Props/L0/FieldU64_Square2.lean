/- Obligation: the regenerated program of internal/field:(*Element).Square2 (tags purego) meets its committed specification. -/
import Voi.Props.L0.Specs
import Voi.Gen.IR_FieldU64_Square2
namespace Voi.Props.L0
open Voi.IR

set_option maxRecDepth 1000000 in
theorem FieldU64_Square2 : check Voi.Gen.FieldU64.Square2_prog Voi.Gen.FieldU64.Square2_outs Spec.FieldU64_Square2 = true := by decide +kernel

end Voi.Props.L0
