/- Obligation: the regenerated program of curve/scalar:(*unpackedScalar).FromMontgomery (tags force32bit) meets its committed specification. -/
import Voi.Props.L0.Specs
import Voi.Gen.IR_ScalarU32_FromMontgomery
namespace Voi.Props.L0
open Voi.IR

set_option maxRecDepth 1000000 in
theorem ScalarU32_FromMontgomery : check Voi.Gen.ScalarU32.FromMontgomery_prog Voi.Gen.ScalarU32.FromMontgomery_outs Spec.ScalarU32_FromMontgomery = true := by decide +kernel

end Voi.Props.L0
