/- Obligation: the regenerated program of internal/field:(*Element).ConditionalSelect (tags purego) meets its committed specification. -/
import Voi.Props.L0.Specs
import Voi.Gen.IR_FieldU64_ConditionalSelect
namespace Voi.Props.L0
open Voi.IR

set_option maxRecDepth 1000000 in
theorem FieldU64_ConditionalSelect : check Voi.Gen.FieldU64.ConditionalSelect_prog Voi.Gen.FieldU64.ConditionalSelect_outs Spec.FieldU64_ConditionalSelect = true := by decide +kernel

end Voi.Props.L0
