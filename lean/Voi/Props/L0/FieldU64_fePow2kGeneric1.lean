/- Obligation: the regenerated program of internal/field:fePow2kGeneric (tags purego) meets its committed specification. -/
import Voi.Props.L0.Specs
import Voi.Gen.IR_FieldU64_fePow2kGeneric1
namespace Voi.Props.L0
open Voi.IR

set_option maxRecDepth 1000000 in
theorem FieldU64_fePow2kGeneric1 : check Voi.Gen.FieldU64.fePow2kGeneric1_prog Voi.Gen.FieldU64.fePow2kGeneric1_outs Spec.FieldU64_fePow2kGeneric1 = true := by decide +kernel

end Voi.Props.L0
