/- Obligation: the regenerated program of curve/scalar:(*unpackedScalar).Mul (tags purego) meets its committed specification. -/
import Voi.Props.L0.Specs
import Voi.Gen.IR_ScalarU64_Mul
namespace Voi.Props.L0
open Voi.IR

set_option maxRecDepth 1000000 in
theorem ScalarU64_Mul : check Voi.Gen.ScalarU64.Mul_prog Voi.Gen.ScalarU64.Mul_outs Spec.ScalarU64_Mul = true := by decide +kernel

end Voi.Props.L0
