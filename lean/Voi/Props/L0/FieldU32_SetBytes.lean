/- Obligation: the regenerated program of internal/field:(*Element).SetBytes (tags force32bit) meets its committed specification. -/
import Voi.Props.L0.Specs
import Voi.Gen.IR_FieldU32_SetBytes
namespace Voi.Props.L0
open Voi.IR

set_option maxRecDepth 1000000 in
theorem FieldU32_SetBytes : check Voi.Gen.FieldU32.SetBytes_prog Voi.Gen.FieldU32.SetBytes_outs Spec.FieldU32_SetBytes = true := by decide +kernel

end Voi.Props.L0
