/- Obligation: the regenerated program of curve/scalar:(*unpackedScalar).squareInternal (tags purego) meets its committed specification. -/
import Voi.Props.L0.Specs
import Voi.Gen.IR_ScalarU64_squareInternal
namespace Voi.Props.L0
open Voi.IR

set_option maxRecDepth 1000000 in
theorem ScalarU64_squareInternal : check Voi.Gen.ScalarU64.squareInternal_prog Voi.Gen.ScalarU64.squareInternal_outs Spec.ScalarU64_squareInternal = true := by decide +kernel

end Voi.Props.L0
