/- Obligation: the regenerated program of curve/scalar:(*unpackedScalar).FromMontgomery (tags purego) meets its committed specification. -/
import Voi.Props.L0.Specs
import Voi.Gen.IR_ScalarU64_FromMontgomery
namespace Voi.Props.L0
open Voi.IR

set_option maxRecDepth 1000000 in
theorem ScalarU64_FromMontgomery : check Voi.Gen.ScalarU64.FromMontgomery_prog Voi.Gen.ScalarU64.FromMontgomery_outs Spec.ScalarU64_FromMontgomery = true := by decide +kernel

end Voi.Props.L0
