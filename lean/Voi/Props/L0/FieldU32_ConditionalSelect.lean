/- Obligation: the regenerated program of internal/field:(*Element).ConditionalSelect (tags force32bit) meets its committed specification. -/
import Voi.Props.L0.Specs
import Voi.Gen.IR_FieldU32_ConditionalSelect
namespace Voi.Props.L0
open Voi.IR

set_option maxRecDepth 1000000 in
theorem FieldU32_ConditionalSelect : check Voi.Gen.FieldU32.ConditionalSelect_prog Voi.Gen.FieldU32.ConditionalSelect_outs Spec.FieldU32_ConditionalSelect = true := by decide +kernel

end Voi.Props.L0
