/- Obligation: the program asm2ir regenerated from internal/field/field_u64_amd64.s:fePow2k (k = 1) meets the committed specification
   (the SAME specification as the generic Go code). -/
import Voi.Props.L0.Specs
import Voi.Gen.IR_FieldAsm_fePow2k1
namespace Voi.Props.L0
open Voi.IR

set_option maxRecDepth 1000000 in
theorem FieldAsm_fePow2k1 : check Voi.Gen.FieldAsm.fePow2k1_prog Voi.Gen.FieldAsm.fePow2k1_outs Spec.FieldAsm_fePow2k1 = true := by decide +kernel

end Voi.Props.L0
