/- Obligation: the regenerated program of internal/field:(*Element).Neg (tags force32bit) meets its committed specification. -/
import Voi.Props.L0.Specs
import Voi.Gen.IR_FieldU32_Neg
namespace Voi.Props.L0
open Voi.IR

set_option maxRecDepth 1000000 in
theorem FieldU32_Neg : check Voi.Gen.FieldU32.Neg_prog Voi.Gen.FieldU32.Neg_outs Spec.FieldU32_Neg = true := by decide +kernel

end Voi.Props.L0
