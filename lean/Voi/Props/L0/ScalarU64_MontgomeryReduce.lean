/- Obligation: the regenerated program of curve/scalar:(*unpackedScalar).MontgomeryReduce (tags purego) meets its committed specification. -/
import Voi.Props.L0.Specs
import Voi.Gen.IR_ScalarU64_MontgomeryReduce
namespace Voi.Props.L0
open Voi.IR

set_option maxRecDepth 1000000 in
theorem ScalarU64_MontgomeryReduce : check Voi.Gen.ScalarU64.MontgomeryReduce_prog Voi.Gen.ScalarU64.MontgomeryReduce_outs Spec.ScalarU64_MontgomeryReduce = true := by decide +kernel

end Voi.Props.L0
