/- Obligation: the regenerated program of curve/scalar:(*unpackedScalar).Add (tags force32bit) meets its committed specification. -/
import Voi.Props.L0.Specs
import Voi.Gen.IR_ScalarU32_Add
namespace Voi.Props.L0
open Voi.IR

set_option maxRecDepth 1000000 in
theorem ScalarU32_Add : check Voi.Gen.ScalarU32.Add_prog Voi.Gen.ScalarU32.Add_outs Spec.ScalarU32_Add = true := by decide +kernel

end Voi.Props.L0
