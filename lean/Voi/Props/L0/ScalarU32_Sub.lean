/- Obligation: the regenerated program of curve/scalar:(*unpackedScalar).Sub (tags force32bit) meets its committed specification. -/
import Voi.Props.L0.Specs
import Voi.Gen.IR_ScalarU32_Sub
namespace Voi.Props.L0
open Voi.IR

set_option maxRecDepth 1000000 in
theorem ScalarU32_Sub : check Voi.Gen.ScalarU32.Sub_prog Voi.Gen.ScalarU32.Sub_outs Spec.ScalarU32_Sub = true := by decide +kernel

end Voi.Props.L0
