/- Obligation: the regenerated program of internal/field:(*Element).ConditionalSwap (tags purego) meets its committed specification. -/
import Voi.Props.L0.Specs
import Voi.Gen.IR_FieldU64_ConditionalSwap
namespace Voi.Props.L0
open Voi.IR

set_option maxRecDepth 1000000 in
theorem FieldU64_ConditionalSwap : check Voi.Gen.FieldU64.ConditionalSwap_prog Voi.Gen.FieldU64.ConditionalSwap_outs Spec.FieldU64_ConditionalSwap = true := by decide +kernel

end Voi.Props.L0
