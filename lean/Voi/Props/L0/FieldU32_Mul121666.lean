/- Obligation: the regenerated program of internal/field:(*Element).Mul121666 (tags force32bit) meets its committed specification. -/
import Voi.Props.L0.Specs
import Voi.Gen.IR_FieldU32_Mul121666
namespace Voi.Props.L0
open Voi.IR

set_option maxRecDepth 1000000 in
theorem FieldU32_Mul121666 : check Voi.Gen.FieldU32.Mul121666_prog Voi.Gen.FieldU32.Mul121666_outs Spec.FieldU32_Mul121666 = true := by decide +kernel

end Voi.Props.L0
