/- Obligation: the regenerated program of internal/field:(*Element).Sub (tags purego) meets its committed specification. -/
import Voi.Props.L0.Specs
import Voi.Gen.IR_FieldU64_Sub
namespace Voi.Props.L0
open Voi.IR

set_option maxRecDepth 1000000 in
theorem FieldU64_Sub : check Voi.Gen.FieldU64.Sub_prog Voi.Gen.FieldU64.Sub_outs Spec.FieldU64_Sub = true := by decide +kernel

end Voi.Props.L0
