/- Obligation: the regenerated program of curve/scalar:(*unpackedScalar).SetBytes (tags purego) meets its committed specification. -/
import Voi.Props.L0.Specs
import Voi.Gen.IR_ScalarU64_SetBytes
namespace Voi.Props.L0
open Voi.IR

set_option maxRecDepth 1000000 in
theorem ScalarU64_SetBytes : check Voi.Gen.ScalarU64.SetBytes_prog Voi.Gen.ScalarU64.SetBytes_outs Spec.ScalarU64_SetBytes = true := by decide +kernel

end Voi.Props.L0
