/- Obligation: the regenerated program of internal/field:(*Element).Sub (tags force32bit) meets its committed specification. -/
import Voi.Props.L0.Specs
import Voi.Gen.IR_FieldU32_Sub
namespace Voi.Props.L0
open Voi.IR

set_option maxRecDepth 1000000 in
theorem FieldU32_Sub : check Voi.Gen.FieldU32.Sub_prog Voi.Gen.FieldU32.Sub_outs Spec.FieldU32_Sub = true := by decide +kernel

end Voi.Props.L0
