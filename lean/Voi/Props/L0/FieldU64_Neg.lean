/- Obligation: the regenerated program of internal/field:(*Element).Neg (tags purego) meets its committed specification. -/
import Voi.Props.L0.Specs
import Voi.Gen.IR_FieldU64_Neg
namespace Voi.Props.L0
open Voi.IR

set_option maxRecDepth 1000000 in
theorem FieldU64_Neg : check Voi.Gen.FieldU64.Neg_prog Voi.Gen.FieldU64.Neg_outs Spec.FieldU64_Neg = true := by decide +kernel

end Voi.Props.L0
