/-
C16, integer level: the correctness invariant of Pornin's Algorithm 4 as performed by
`internal/lattice.FindShortVector` (model: `Voi.Model.Lattice`).

Everything here is about the model over unbounded `Int`; the tie to the Go code is stream L1.
-/
import Voi.Model.Lattice
namespace Voi.Props.LatticeInv
open Voi.Model.Lattice

set_option exponentiation.threshold 1024

/-! ## The invariant -/

/-- `u, v` lie in the lattice `Λ_k = {(a,b) : a ≡ b·k (mod L)}`, `N_u, N_v, p` are their squared norms and
    inner product, and `(u, v)` is a basis of determinant `±L`. -/
structure Inv (k : Int) (st : State) : Prop where
  hu  : L ∣ st.u0 - st.u1 * k
  hv  : L ∣ st.v0 - st.v1 * k
  hnu : st.nu = st.u0 * st.u0 + st.u1 * st.u1
  hnv : st.nv = st.v0 * st.v0 + st.v1 * st.v1
  hp  : st.p = st.u0 * st.v0 + st.u1 * st.v1
  hdet : st.u0 * st.v1 - st.u1 * st.v0 = L ∨ st.u0 * st.v1 - st.u1 * st.v0 = -L

theorem inv_init (k : Nat) : Inv k (init k) where
  hu := by simp [init]
  hv := by simp [init]
  hnu := by simp [init]
  hnv := by simp [init]
  hp := by simp [init]
  hdet := by simp [init]

theorem inv_swap {k : Int} {st : State} (h : Inv k st) : Inv k (swap st) := by
  unfold swap
  split
  · exact
      { hu := h.hv, hv := h.hu, hnu := h.hnv, hnv := h.hnu
        hp := by simp only [h.hp]; grind
        hdet := by
          rcases h.hdet with e | e
          · right; simp only; grind
          · left; simp only; grind }
  · exact h

theorem inv_narrow {k : Int} {st : State} (h : Inv k st) : Inv k (narrow st) :=
  { hu := h.hu, hv := h.hv, hnu := h.hnu, hnv := h.hnv, hp := h.hp, hdet := h.hdet }

theorem pow_two_mul (s : Nat) : ((2 ^ (2 * s) : Nat) : Int) = ((2 ^ s : Nat) : Int) * ((2 ^ s : Nat) : Int) := by
  rw [Nat.mul_comm, Nat.pow_mul, Nat.pow_two]; simp

theorem pow_succ_two (s : Nat) : ((2 ^ (s + 1) : Nat) : Int) = 2 * ((2 ^ s : Nat) : Int) := by
  rw [Nat.pow_succ]; simp; grind

/-- the lattice membership of `a ∓ m·b` -/
theorem dvd_sub_mul {a1 a2 b1 b2 k m : Int} (ha : L ∣ a1 - a2 * k) (hb : L ∣ b1 - b2 * k) :
    L ∣ (a1 - b1 * m) - (a2 - b2 * m) * k := by
  have : (a1 - b1 * m) - (a2 - b2 * m) * k = (a1 - a2 * k) - (b1 - b2 * k) * m := by grind
  rw [this]
  exact Int.dvd_sub ha (Int.dvd_trans hb (Int.dvd_mul_right _ _))

theorem dvd_add_mul {a1 a2 b1 b2 k m : Int} (ha : L ∣ a1 - a2 * k) (hb : L ∣ b1 - b2 * k) :
    L ∣ (a1 + b1 * m) - (a2 + b2 * m) * k := by
  have : (a1 + b1 * m) - (a2 + b2 * m) * k = (a1 - a2 * k) + (b1 - b2 * k) * m := by grind
  rw [this]
  exact Int.dvd_add ha (Int.dvd_trans hb (Int.dvd_mul_right _ _))

theorem inv_update {k : Int} {st : State} (h : Inv k st) : Inv k (update st) := by
  obtain ⟨hu, hv, hnu, hnv, hp, hdet⟩ := h
  unfold update
  simp only [shl, pow_two_mul, pow_succ_two]
  generalize ((2 ^ shiftAmt st : Nat) : Int) = m
  split
  · exact
      { hu := dvd_sub_mul hu hv
        hv := hv
        hnu := by simp only [hnu, hnv, hp]; grind
        hnv := hnv
        hp := by simp only [hnv, hp]; grind
        hdet := by
          rcases hdet with e | e
          · left; simp only; grind
          · right; simp only; grind }
  · exact
      { hu := dvd_add_mul hu hv
        hv := hv
        hnu := by simp only [hnu, hnv, hp]; grind
        hnv := hnv
        hp := by simp only [hnv, hp]; grind
        hdet := by
          rcases hdet with e | e
          · left; simp only; grind
          · right; simp only; grind }

/-- one loop head (swap, pass switch) preserves the invariant -/
theorem inv_head {k : Int} {st : State} (h : Inv k st) : Inv k (narrow (swap st)) :=
  inv_narrow (inv_swap h)

/-- the invariant holds for the state returned by the loop, for ANY fuel and any start state satisfying it -/
theorem inv_loop {k : Int} : ∀ (n : Nat) {st : State}, Inv k st → Inv k (fsvLoop n st).1
  | 0, _, h => h
  | n + 1, st, h => by
    unfold fsvLoop
    simp only
    split
    · exact inv_head h
    · exact inv_loop n (inv_update (inv_head h))

theorem inv_run (k : Nat) : Inv k (fsvRun k).1 := inv_loop fuel (inv_init k)

/-! ## Consequences for the returned pair `(d0, d1) = (v_0, v_1)` -/

/-- `d0 ≡ d1·k (mod L)`: the orientation used by `edwardsMulAbglsvPorninVartime`
    (`[d0]A + [d1·b]B − [d1]C = d1·([k]A + [b]B − C)` on the prime-order subgroup). -/
theorem fsv_congr (k : Nat) : L ∣ (fsv k).1 - (fsv k).2 * k := (inv_run k).hv

theorem fsv_congr_emod (k : Nat) : (fsv k).1 % L = ((fsv k).2 * k) % L :=
  Int.emod_eq_emod_iff_emod_sub_eq_zero.mpr (Int.emod_eq_zero_of_dvd (fsv_congr k))

theorem L_ne_zero : L ≠ 0 := by decide

/-- a basis vector of a lattice of determinant `±L` is non-zero -/
theorem v_ne_zero {k : Int} {st : State} (h : Inv k st) : ¬ (st.v0 = 0 ∧ st.v1 = 0) := by
  rintro ⟨h0, h1⟩
  have hd := h.hdet
  rw [h0, h1] at hd
  simp at hd
  rcases hd with e | e
  · exact L_ne_zero e.symm
  · exact L_ne_zero (by omega)

theorem fsv_ne_zero (k : Nat) : fsv k ≠ (0, 0) := by
  intro e
  have h1 : (fsv k).1 = 0 := by rw [e]
  have h2 : (fsv k).2 = 0 := by rw [e]
  exact v_ne_zero (inv_run k) ⟨h1, h2⟩

/-! ## Shortness: when the exit test fired, `N_v < 2^254`, hence `|d0|, |d1| < 2^127 < L` -/

theorem mul_self_nonneg (x : Int) : 0 ≤ x * x := by
  have := Int.sq_nonneg x; grind

theorem natBitLen_le {n m : Nat} (h : natBitLen n ≤ m) : n < 2 ^ m := by
  unfold natBitLen at h
  split at h
  · subst n; exact Nat.pow_pos (by decide)
  · exact Nat.lt_of_lt_of_le Nat.lt_log2_self (Nat.pow_le_pow_right (by decide) h)

/-- `BitLen x ≤ m → x < 2^m` (for negative `x` trivially) -/
theorem lt_of_bitLen_le {x : Int} {m : Nat} (h : bitLen x ≤ m) : x < ((2 ^ m : Nat) : Int) := by
  cases x with
  | ofNat n => exact Int.ofNat_lt.mpr (natBitLen_le h)
  | negSucc n =>
    have h1 : Int.negSucc n < 0 := Int.negSucc_lt_zero n
    have h2 : (0 : Int) ≤ ((2 ^ m : Nat) : Int) := Int.natCast_nonneg _
    omega

/-- if the loop reports success, its final state passed the exit test -/
theorem loop_exit : ∀ (n : Nat) (st : State), (fsvLoop n st).2 = true → exitNow (fsvLoop n st).1 = true
  | 0, _, h => by simp [fsvLoop] at h
  | n + 1, st, h => by
    unfold fsvLoop at h ⊢
    simp only at h ⊢
    split
    · assumption
    · rename_i hne
      rw [if_neg hne] at h
      exact loop_exit n _ h

theorem abs_lt_of_mul_self_lt {x B : Int} (hB : 0 ≤ B) (h : x * x < B * B) : -B < x ∧ x < B := by
  constructor
  · by_cases hx : x ≤ -B
    · have h1 : B * B ≤ (-x) * (-x) := Int.mul_le_mul (by omega) (by omega) hB (by omega)
      have h2 : (-x) * (-x) = x * x := by grind
      omega
    · omega
  · by_cases hx : B ≤ x
    · have h1 : B * B ≤ x * x := Int.mul_le_mul hx hx hB (by omega)
      omega
    · omega

/-- `2^127` -/
def B127 : Int := ((2 ^ 127 : Nat) : Int)

theorem B127_sq : B127 * B127 = ((2 ^ 254 : Nat) : Int) := by decide
theorem B127_lt_L : B127 < L := by decide

/-- a state satisfying the invariant that passed the exit test has `|v_0|, |v_1| < 2^127` -/
theorem short_of_exit {k : Int} {st : State} (h : Inv k st) (he : exitNow st = true) :
    (-B127 < st.v0 ∧ st.v0 < B127) ∧ (-B127 < st.v1 ∧ st.v1 < B127) := by
  have hlt : st.nv < ((2 ^ 254 : Nat) : Int) := lt_of_bitLen_le (m := 254) (of_decide_eq_true he)
  rw [← B127_sq, h.hnv] at hlt
  have h0 := mul_self_nonneg st.v0
  have h1 := mul_self_nonneg st.v1
  exact ⟨abs_lt_of_mul_self_lt (by decide) (by omega), abs_lt_of_mul_self_lt (by decide) (by omega)⟩

/-- a multiple of `L` of absolute value `< 2^127` is zero -/
theorem eq_zero_of_dvd_of_short {x : Int} (hd : L ∣ x) (h : -B127 < x ∧ x < B127) : x = 0 := by
  apply Int.eq_zero_of_dvd_of_natAbs_lt_natAbs hd
  have := B127_lt_L
  have hL : L.natAbs = L.toNat := by decide
  omega

/-- a short lattice basis vector has `v_1 ≠ 0` and, being short, `v_1 ≢ 0 (mod L)` -/
theorem v1_not_dvd {k : Int} {st : State} (h : Inv k st) (he : exitNow st = true) : ¬ L ∣ st.v1 := by
  intro hd
  obtain ⟨s0, s1⟩ := short_of_exit h he
  have hv1 : st.v1 = 0 := eq_zero_of_dvd_of_short hd s1
  have hv0d : L ∣ st.v0 := by
    have := h.hv
    rw [hv1] at this
    simpa using this
  have hv0 : st.v0 = 0 := eq_zero_of_dvd_of_short hv0d s0
  exact v_ne_zero h ⟨hv0, hv1⟩

/-- `fsvRun k` finished by the exit test (not by running out of fuel) -/
def Finished (k : Nat) : Prop := (fsvRun k).2 = true

instance (k : Nat) : Decidable (Finished k) := by unfold Finished; infer_instance

theorem fsv_exit {k : Nat} (hf : Finished k) : exitNow (fsvRun k).1 = true := loop_exit fuel (init k) hf

/-- both results fit a signed 128-bit integer, with room to spare: `|d0|, |d1| < 2^127` -/
theorem fsv_short {k : Nat} (hf : Finished k) :
    (-B127 < (fsv k).1 ∧ (fsv k).1 < B127) ∧ (-B127 < (fsv k).2 ∧ (fsv k).2 < B127) :=
  short_of_exit (inv_run k) (fsv_exit hf)

theorem fsv_fitsI128 {k : Nat} (hf : Finished k) : fitsI128 (fsv k).1 = true ∧ fitsI128 (fsv k).2 = true := by
  obtain ⟨⟨a, b⟩, ⟨c, d⟩⟩ := fsv_short hf
  unfold B127 at a b c d
  simp only [fitsI128, Bool.and_eq_true, decide_eq_true_eq]
  omega

/-- `d1 ≢ 0 (mod L)` (with `L` prime this is: `d1` is invertible modulo `L`) -/
theorem fsv_d1_not_dvd {k : Nat} (hf : Finished k) : ¬ L ∣ (fsv k).2 := v1_not_dvd (inv_run k) (fsv_exit hf)

theorem fsv_d1_emod_ne_zero {k : Nat} (hf : Finished k) : (fsv k).2 % L ≠ 0 :=
  fun h => fsv_d1_not_dvd hf (Int.dvd_of_emod_eq_zero h)

theorem fsv_d1_ne_zero {k : Nat} (hf : Finished k) : (fsv k).2 ≠ 0 :=
  fun h => fsv_d1_not_dvd hf (by rw [h]; exact Int.dvd_zero _)

/-! ## Every step strictly decreases `N_u`; termination; the fixed-width ranges are never left -/

theorem natBitLen_upper (n : Nat) : n < 2 ^ natBitLen n := by
  unfold natBitLen
  split
  · subst n; decide
  · exact Nat.lt_log2_self

theorem natBitLen_lower {n : Nat} (h : 0 < natBitLen n) : 2 ^ (natBitLen n - 1) ≤ n := by
  unfold natBitLen at h ⊢
  split
  · rename_i h0; simp [h0] at h
  · rename_i h0; simpa using Nat.log2_self_le h0

theorem bitLen_natCast (n : Nat) : bitLen (n : Int) = natBitLen n := rfl
theorem bitLen_negSucc (n : Nat) : bitLen (Int.negSucc n) = natBitLen n := rfl

/-- Lagrange's identity: `N_u·N_v − p² = det² = L²` -/
theorem lagrange {k : Int} {st : State} (h : Inv k st) : st.nu * st.nv - st.p * st.p = L * L := by
  have e : (st.u0 * st.v1 - st.u1 * st.v0) * (st.u0 * st.v1 - st.u1 * st.v0) = L * L := by
    rcases h.hdet with e | e <;> rw [e] <;> grind
  rw [h.hnu, h.hnv, h.hp, ← e]
  grind

theorem nu_nonneg {k : Int} {st : State} (h : Inv k st) : 0 ≤ st.nu := by
  have h0 := mul_self_nonneg st.u0
  have h1 := mul_self_nonneg st.u1
  rw [h.hnu]; omega

theorem nv_nonneg {k : Int} {st : State} (h : Inv k st) : 0 ≤ st.nv := by
  have h0 := mul_self_nonneg st.v0
  have h1 := mul_self_nonneg st.v1
  rw [h.hnv]; omega

/-- `2^254` -/
def B254 : Int := ((2 ^ 254 : Nat) : Int)

/-- `(2/√3)·L < 2^254`, squared and cleared of denominators -/
theorem L_small : 4 * (L * L) < 3 * (B254 * B254) := by decide

/-- If `N_v ≤ N_u` and `N_v ≥ 2^254` the basis is NOT Lagrange-reduced: `N_v < 2|p|`.
    (A reduced basis has `N_v² ≤ (4/3)·det² = (4/3)·L² < 2^508`.) -/
theorem not_reduced {nu nv p : Int} (hle : nv ≤ nu) (hlag : nu * nv - p * p = L * L) (hbig : B254 ≤ nv) :
    nv < 2 * p ∨ nv < -(2 * p) := by
  have hB : (0 : Int) ≤ B254 := by decide
  have hnv0 : 0 ≤ nv := by omega
  have h1 : B254 * B254 ≤ nv * nv := Int.mul_le_mul hbig hbig hB hnv0
  have h2 : nv * nv ≤ nu * nv := Int.mul_le_mul_of_nonneg_right hle hnv0
  have h3 := L_small
  by_cases hp : 0 ≤ p
  · by_cases hc : nv < 2 * p
    · exact Or.inl hc
    · exfalso
      have h4 : (2 * p) * (2 * p) ≤ nv * nv := Int.mul_le_mul (by omega) (by omega) (by omega) hnv0
      have h5 : (2 * p) * (2 * p) = 4 * (p * p) := by grind
      omega
  · by_cases hc : nv < -(2 * p)
    · exact Or.inr hc
    · exfalso
      have h4 : (-(2 * p)) * (-(2 * p)) ≤ nv * nv := Int.mul_le_mul (by omega) (by omega) (by omega) hnv0
      have h5 : (-(2 * p)) * (-(2 * p)) = 4 * (p * p) := by grind
      omega

theorem shift_lt {n q a b : Nat} (hn : n < 2 ^ a) (hq : 2 ^ (b - 1) ≤ q) (hb : a < b) :
    n * 2 ^ (b - a) < 2 * q := by
  have h1 : n * 2 ^ (b - a) < 2 ^ a * 2 ^ (b - a) := Nat.mul_lt_mul_of_pos_right hn (Nat.pow_pos (by decide))
  have h2 : 2 ^ a * 2 ^ (b - a) = 2 ^ b := by rw [← Nat.pow_add]; congr 1; omega
  have h3 : 2 ^ b = 2 * 2 ^ (b - 1) := by
    have : b = (b - 1) + 1 := by omega
    rw [this, Nat.pow_succ]; simp; omega
  omega

/-- the multiplier `m = 2^s` chosen by the algorithm satisfies `N_v·m < 2|p|` -/
theorem multiplier_ok {nu nv p : Int} (hle : nv ≤ nu) (hlag : nu * nv - p * p = L * L) (hbig : B254 ≤ nv) :
    (0 ≤ p → nv * ((2 ^ (bitLen p - bitLen nv) : Nat) : Int) < 2 * p) ∧
    (p < 0 → nv * ((2 ^ (bitLen p - bitLen nv) : Nat) : Int) < -(2 * p)) := by
  have hB : (0 : Int) ≤ B254 := by decide
  have hnv0 : 0 ≤ nv := by omega
  have hnr := not_reduced hle hlag hbig
  obtain ⟨n, rfl⟩ := Int.eq_ofNat_of_zero_le hnv0
  have hn := natBitLen_upper n
  constructor
  · intro hp
    obtain ⟨q, rfl⟩ := Int.eq_ofNat_of_zero_le hp
    rw [bitLen_natCast, bitLen_natCast]
    by_cases hs : natBitLen q ≤ natBitLen n
    · have : natBitLen q - natBitLen n = 0 := by omega
      rw [this]; simp; omega
    · have hq := natBitLen_lower (n := q) (by omega)
      exact_mod_cast shift_lt hn hq (by omega)
  · intro hp
    obtain ⟨q, rfl⟩ : ∃ q, p = Int.negSucc q := by
      cases p with
      | ofNat q => exact absurd hp (by simp)
      | negSucc q => exact ⟨q, rfl⟩
    rw [bitLen_negSucc, bitLen_natCast]
    have hneg : -(2 * Int.negSucc q) = 2 * ((q : Int) + 1) := by rw [Int.negSucc_eq]; omega
    rw [hneg]
    by_cases hs : natBitLen q ≤ natBitLen n
    · have : natBitLen q - natBitLen n = 0 := by omega
      rw [this]; simp
      rw [hneg] at hnr
      have : (Int.negSucc q) < 0 := Int.negSucc_lt_zero q
      omega
    · have hq := natBitLen_lower (n := q) (by omega)
      have := shift_lt hn hq (by omega)
      have h' : ((n * 2 ^ (natBitLen q - natBitLen n) : Nat) : Int) < ((2 * q : Nat) : Int) := Int.ofNat_lt.mpr this
      simp only [Int.natCast_mul] at h' ⊢
      omega

/-- `N_v ≥ 2^254` when the exit test does not fire -/
theorem big_of_not_exit {x : Int} (hx : 0 ≤ x) (h : ¬ bitLen x ≤ 254) : B254 ≤ x := by
  obtain ⟨n, rfl⟩ := Int.eq_ofNat_of_zero_le hx
  rw [bitLen_natCast] at h
  have hl := natBitLen_lower (n := n) (by omega)
  have : 2 ^ 254 ≤ 2 ^ (natBitLen n - 1) := Nat.pow_le_pow_right (by decide) (by omega)
  unfold B254
  exact_mod_cast Nat.le_trans this hl

/-- at a loop head that does not exit (so `N_v ≤ N_u`, `N_v ≥ 2^254`), the step strictly decreases `N_u` -/
theorem update_decreases {k : Int} {st : State} (h : Inv k st) (hle : st.nv ≤ st.nu)
    (hne : ¬ exitNow st = true) : (update st).nu < st.nu := by
  have hbig : B254 ≤ st.nv := big_of_not_exit (nv_nonneg h) (fun hc => hne (decide_eq_true hc))
  obtain ⟨hpos, hneg⟩ := multiplier_ok hle (lagrange h) hbig
  have hm : (0 : Int) < ((2 ^ shiftAmt st : Nat) : Int) := by
    exact_mod_cast Nat.pow_pos (by decide)
  unfold update
  simp only [shl, pow_two_mul, pow_succ_two]
  unfold shiftAmt at hm ⊢
  generalize ((2 ^ (bitLen st.p - bitLen st.nv) : Nat) : Int) = m at *
  split
  · rename_i hp
    have := Int.mul_lt_mul_of_pos_right (hpos hp) hm
    simp only
    grind
  · rename_i hp
    have := Int.mul_lt_mul_of_pos_right (hneg (by omega)) hm
    simp only
    grind

theorem swap_le (st : State) : (swap st).nv ≤ (swap st).nu := by
  unfold swap; split <;> (try simp only) <;> omega

theorem swap_sum (st : State) : (swap st).nu + (swap st).nv = st.nu + st.nv := by
  unfold swap; split <;> (try simp only) <;> omega

/-! ### Termination (with SOME fuel; that 4096 is enough is checked at run time) -/

/-- from any state satisfying the invariant the loop reaches its exit test -/
theorem loop_terminates {k : Int} : ∀ (μ : Nat) (st : State), Inv k st → (st.nu + st.nv).toNat ≤ μ →
    ∃ n, (fsvLoop n st).2 = true
  | 0, st, h, hμ => by
    -- N_u + N_v = 0 cannot avoid the exit test
    refine ⟨1, ?_⟩
    have hi := inv_head h
    have h1 := nu_nonneg hi; have h2 := nv_nonneg hi
    have hs := swap_sum st
    have hle := swap_le st
    have hnv : (narrow (swap st)).nv = 0 := by
      show (swap st).nv = 0
      have : (narrow (swap st)).nu = (swap st).nu := rfl
      have : (narrow (swap st)).nv = (swap st).nv := rfl
      omega
    have he : exitNow (narrow (swap st)) = true := by
      unfold exitNow; rw [hnv]; decide
    unfold fsvLoop; simp only [he, if_true]
  | μ + 1, st, h, hμ => by
    have hi := inv_head h
    by_cases he : exitNow (narrow (swap st)) = true
    · refine ⟨1, ?_⟩
      unfold fsvLoop; simp only [he, if_true]
    · have hdec := update_decreases hi (swap_le st) he
      have hs := swap_sum st
      have h1 := nu_nonneg (inv_update hi); have h2 := nv_nonneg hi
      have hnv : (update (narrow (swap st))).nv = (swap st).nv := by
        unfold update; split <;> rfl
      have hnu : (narrow (swap st)).nu = (swap st).nu := rfl
      have hnv' : (narrow (swap st)).nv = (swap st).nv := rfl
      obtain ⟨n, hn⟩ := loop_terminates μ (update (narrow (swap st))) (inv_update hi) (by omega)
      refine ⟨n + 1, ?_⟩
      unfold fsvLoop; simp only [he]
      exact hn

theorem fsv_terminates (k : Nat) : ∃ n, (fsvLoop n (init k)).2 = true :=
  loop_terminates _ _ (inv_init k) (Nat.le_refl _)

/-- more fuel does not change a finished run -/
theorem loop_mono : ∀ (n : Nat) (st : State), (fsvLoop n st).2 = true → fsvLoop (n + 1) st = fsvLoop n st
  | 0, _, h => by simp [fsvLoop] at h
  | n + 1, st, h => by
    unfold fsvLoop at h ⊢
    simp only at h ⊢
    split
    · rfl
    · rename_i hne
      rw [if_neg hne] at h
      exact loop_mono n _ h

/-! ### Ranges of the fixed-width refinement -/

/-- the bound in force: `2^511` in pass one, `2^383` in pass two -/
def bound (st : State) : Int := if st.wide then ((2 ^ 511 : Nat) : Int) else ((2 ^ 383 : Nat) : Int)

structure RInv (st : State) : Prop where
  nu_lt : st.nu < bound st
  nv_lt : st.nv < bound st
  ok : st.rangeOk = true

theorem rinv_swap {st : State} (h : RInv st) : RInv (swap st) := by
  unfold swap; split
  · exact ⟨h.nv_lt, h.nu_lt, h.ok⟩
  · exact h

/-- `|p| < N_u` when `N_v ≤ N_u` (Cauchy–Schwarz, strict because `L ≠ 0`) -/
theorem p_lt_nu {k : Int} {st : State} (h : Inv k st) (hle : st.nv ≤ st.nu) : -st.nu < st.p ∧ st.p < st.nu := by
  have hl := lagrange h
  have h0 := nu_nonneg h
  have h1 : st.nu * st.nv ≤ st.nu * st.nu := Int.mul_le_mul_of_nonneg_left hle h0
  have hL : 0 < L * L := by decide
  exact abs_lt_of_mul_self_lt h0 (by omega)

theorem rinv_narrow {k : Int} {st : State} (hi : Inv k st) (hle : st.nv ≤ st.nu) (h : RInv st) :
    RInv (narrow st) := by
  obtain ⟨hp1, hp2⟩ := p_lt_nu hi hle
  have h0 := nu_nonneg hi; have h1 := nv_nonneg hi
  obtain ⟨hnu, hnv, hok⟩ := h
  unfold bound at hnu hnv
  have key : (narrow st).nu < bound (narrow st) := by
    show st.nu < bound (narrow st)
    unfold bound narrow safeToShrink
    simp only
    cases hw : st.wide <;> simp [hw] at hnu ⊢
    · exact hnu
    · split <;> omega
  have hfit : fits (if (narrow st).wide then 512 else 384) st = true := by
    have kb : st.nu < bound (narrow st) := key
    unfold bound at kb
    unfold fits
    simp only [Bool.and_eq_true, decide_eq_true_eq]
    split <;> rename_i hw <;> simp only [hw, if_true] at kb <;> simp at kb ⊢ <;> omega
  have key' : st.nu < bound (narrow st) := key
  refine ⟨key, ?_, ?_⟩
  · show st.nv < bound (narrow st)
    omega
  · show (st.rangeOk && fits (if (narrow st).wide then 512 else 384) st) = true
    rw [hok, hfit]; rfl

theorem rinv_update {k : Int} {st : State} (hi : Inv k st) (hle : st.nv ≤ st.nu)
    (hne : ¬ exitNow st = true) (h : RInv st) : RInv (update st) := by
  have hdec := update_decreases hi hle hne
  have hw : (update st).wide = st.wide := by unfold update; split <;> rfl
  have hnv : (update st).nv = st.nv := by unfold update; split <;> rfl
  have hok : (update st).rangeOk = st.rangeOk := by unfold update; split <;> rfl
  have hb : bound (update st) = bound st := by unfold bound; rw [hw]
  exact ⟨by rw [hb]; have := h.nu_lt; omega, by rw [hb, hnv]; exact h.nv_lt, by rw [hok]; exact h.ok⟩

theorem rinv_loop {k : Int} : ∀ (n : Nat) {st : State}, Inv k st → RInv st → RInv (fsvLoop n st).1
  | 0, _, _, h => h
  | n + 1, st, hi, h => by
    have hi' := inv_head hi
    have hle : (narrow (swap st)).nv ≤ (narrow (swap st)).nu := swap_le st
    have h' : RInv (narrow (swap st)) := rinv_narrow (inv_swap hi) (swap_le st) (rinv_swap h)
    unfold fsvLoop
    simp only
    split
    · exact h'
    · rename_i hne
      exact rinv_loop n (inv_update hi') (rinv_update hi' hle hne h')

theorem rinv_init {k : Nat} (hk : k < 2 ^ 255) : RInv (init k) := by
  refine ⟨?_, ?_, rfl⟩
  · show L * L < ((2 ^ 511 : Nat) : Int)
    decide
  show (k : Int) * k + 1 < ((2 ^ 511 : Nat) : Int)
  have h1 : (k : Int) ≤ ((2 ^ 255 - 1 : Nat) : Int) := by exact_mod_cast Nat.le_pred_of_lt hk
  have h2 : (k : Int) * k ≤ ((2 ^ 255 - 1 : Nat) : Int) * ((2 ^ 255 - 1 : Nat) : Int) :=
    Int.mul_le_mul h1 h1 (Int.natCast_nonneg k) (by decide)
  have h3 : ((2 ^ 255 - 1 : Nat) : Int) * ((2 ^ 255 - 1 : Nat) : Int) + 1 < ((2 ^ 511 : Nat) : Int) := by decide
  omega

/-- For every scalar `k < 2^255` and every amount of fuel, no range assertion of the 512/384-bit refinement
    ever fails: at every loop head `0 ≤ N_u, N_v < 2^(w-1)` and `-2^(w-1) ≤ p < 2^(w-1)`. -/
theorem fsv_rangeOk {k : Nat} (hk : k < 2 ^ 255) : (fsvRun k).1.rangeOk = true :=
  (rinv_loop fuel (inv_init k) (rinv_init hk)).ok

/-- the checked model never reports a range violation -/
theorem fsvChecked_ok {k : Nat} (hk : k < 2 ^ 255) (hf : Finished k) :
    fsvChecked k = .ok (fsv k).1 (fsv k).2 (fsvRun k).1.iters := by
  have h1 := fsv_rangeOk hk
  obtain ⟨h2, h3⟩ := fsv_fitsI128 hf
  unfold Finished at hf
  unfold fsv at h2 h3
  simp only at h2 h3
  unfold fsvChecked fsv
  simp only [hf, h1, h2, h3]
  rfl

theorem fsvChecked_ne_rangeViolation {k : Nat} (hk : k < 2 ^ 255) : fsvChecked k ≠ .rangeViolation := by
  by_cases hf : Finished k
  · rw [fsvChecked_ok hk hf]; intro h; cases h
  · unfold Finished at hf
    unfold fsvChecked
    simp only [hf]
    intro h; cases h

/-! ## Summary statements -/

/-- what C16 asks of the returned pair `(d0, d1) = (st.v0, st.v1)` (integer level) -/
structure Good (k : Nat) (st : State) : Prop where
  /-- `d0 ≡ d1·k (mod L)` -/
  congr : L ∣ st.v0 - st.v1 * k
  /-- `(d0, d1) ≠ (0, 0)` -/
  ne_zero : ¬ (st.v0 = 0 ∧ st.v1 = 0)
  /-- `|d0| < 2^127` -/
  short0 : -B127 < st.v0 ∧ st.v0 < B127
  /-- `|d1| < 2^127` -/
  short1 : -B127 < st.v1 ∧ st.v1 < B127
  /-- `d1 ≢ 0 (mod L)` -/
  d1_unit : ¬ L ∣ st.v1
  /-- the 512- and 384-bit integers of the Go code never left their range -/
  range : st.rangeOk = true

theorem good_of_finished {k n : Nat} (hk : k < 2 ^ 255) (hf : (fsvLoop n (init k)).2 = true) :
    Good k (fsvLoop n (init k)).1 :=
  have hi := inv_loop n (inv_init k)
  have he := loop_exit n (init k) hf
  { congr := hi.hv
    ne_zero := v_ne_zero hi
    short0 := (short_of_exit hi he).1
    short1 := (short_of_exit hi he).2
    d1_unit := v1_not_dvd hi he
    range := (rinv_loop n (inv_init k) (rinv_init hk)).ok }

theorem loop_mono_le {n : Nat} {st : State} (h : (fsvLoop n st).2 = true) :
    ∀ m, n ≤ m → fsvLoop m st = fsvLoop n st := by
  intro m hm
  induction m with
  | zero => have : n = 0 := by omega
            subst this; rfl
  | succ m ih =>
    by_cases e : n = m + 1
    · rw [e]
    · have hle : n ≤ m := by omega
      have := ih hle
      rw [← this] at h
      rw [loop_mono m st h, this]

/-- **C16, integer level, total correctness.**  For every scalar `k < 2^255` the reduction loop (with no fuel
    limit: any sufficiently large fuel gives the same final state) reaches its exit test, and the pair it
    returns is non-zero, satisfies `d0 ≡ d1·k (mod L)`, `|d0|, |d1| < 2^127`, `d1 ≢ 0 (mod L)`, and all
    intermediate values fit the 512/384-bit integers used by the Go code. -/
theorem fsv_total_correct {k : Nat} (hk : k < 2 ^ 255) :
    ∃ n, (fsvLoop n (init k)).2 = true ∧ (∀ m, n ≤ m → fsvLoop m (init k) = fsvLoop n (init k)) ∧
      Good k (fsvLoop n (init k)).1 := by
  obtain ⟨n, hn⟩ := fsv_terminates k
  exact ⟨n, hn, loop_mono_le hn, good_of_finished hk hn⟩

/-- The full statement about the EXECUTABLE model `fsv` (fuel 4096), which is what stream L1 compares with
    the Go code. -/
def fsv_statement : Prop :=
  ∀ k : Nat, k < 2 ^ 255 → Finished k ∧ Good k (fsvRun k).1

/-- Proved part: everything except that 4096 iterations suffice (`Finished k`), which the driver checks at
    run time for every tested input (reply `fuel-exhausted` otherwise; maximum observed: 164 steps). -/
theorem fsv_partial (k : Nat) (hk : k < 2 ^ 255) (hf : Finished k) : Good k (fsvRun k).1 :=
  good_of_finished hk hf

/-! ## Non-vacuity: the hypotheses are satisfiable and the statements talk about non-trivial runs -/

/-- `k = ⌊L/φ⌋`-like scalar = ⌊L·F_700/F_701⌋ (all partial quotients 1): 161 reduction steps -/
def kEx : Nat := 4472715423563893616032882896421916149548477336229675920703557454894525427265

example : kEx < 2 ^ 255 := by decide
example : Finished kEx := by decide +kernel
example : (fsvRun kEx).1.iters = 161 := by decide +kernel
example : Good kEx (fsvRun kEx).1 := fsv_partial kEx (by decide) (by decide +kernel)
example : fsv kEx = (-78223260824970602361607920654228030825, -30010821454963453907530667147829489881) := by
  decide +kernel
-- the invariant and the premises of the decrease lemma hold at the first loop head of this run
example : Inv kEx (narrow (swap (init kEx))) := inv_head (inv_init kEx)
example : ¬ exitNow (narrow (swap (init kEx))) = true := by decide +kernel
example : (update (narrow (swap (init kEx)))).nu < (narrow (swap (init kEx))).nu :=
  update_decreases (inv_head (inv_init kEx)) (swap_le _) (by decide +kernel)
-- an unreduced scalar (k ≥ L): the first step swaps
example : (swap (init (2 ^ 255 - 1))).u1 = 1 := by decide +kernel
example : Finished (2 ^ 255 - 1) := by decide +kernel
example : fsvChecked (2 ^ 255 - 1) =
    .ok 84667582102274932455117783478168538729 32608151360171445284720822772657597668 55 := by decide +kernel
-- degenerate scalars
example : fsv 0 = (0, 1) := by decide +kernel
example : fsv 1 = (1, 1) := by decide +kernel
-- two's-complement bit length of negative values, as `int512.BitLen`
example : bitLen (-1) = 0 ∧ bitLen (-2) = 1 ∧ bitLen (-256) = 8 ∧ bitLen (-257) = 9 ∧ bitLen 255 = 8 ∧ bitLen 0 = 0 := by
  decide +kernel

end Voi.Props.LatticeInv

section Axioms
open Voi.Props.LatticeInv
#print axioms inv_init
#print axioms inv_update
#print axioms inv_loop
#print axioms fsv_congr
#print axioms fsv_ne_zero
#print axioms fsv_short
#print axioms fsv_d1_not_dvd
#print axioms update_decreases
#print axioms fsv_terminates
#print axioms fsv_rangeOk
#print axioms fsvChecked_ne_rangeViolation
#print axioms fsv_total_correct
#print axioms fsv_partial
end Axioms
