/-
C11 (ristretto255 encoding, RFC 9496 §4.3.1 / §4.3.2): theorems about the executable Spec
`Ristretto.decode` / `Ristretto.encode` of Voi/Spec/Ristretto.lean — the functions the Go code
(`RistrettoPoint.SetCompressed`, `CompressedRistretto.SetRistrettoPoint`) is compared with on every
run (stream T1).

Proved here (no open hypothesis; primality of p is `Voi.Proofs.fact_p_prime`, Voi/Proofs/Primes.lean):

* `decode_size`        accepted strings have 32 bytes
* `decode_canonical`   accepted strings are canonical (`leNat b < p`) and non-negative (even)
* `decode_accepts_iff` acceptance = the five RFC conditions (length, canonical, non-negative,
                       was_square, t non-negative, y ≠ 0), in terms of the named intermediate values
* `decode_on_curve`    an accepted string yields (x : y : 1 : t) with t = x y, x, y, t reduced,
                       x non-negative, and −x² + y² = 1 + d x² y²  (a curve point)
* `encode_decode`      **RFC 9496 round trip**: `decode b = some P → encode P = b`
* `decode_injective`   two strings decoding to the same representation are equal

Stated only (`def …_statement : Prop`, not proved; they need the Edwards group law of b-group and
the 4-torsion analysis): `encode_coset_invariant_statement`, `decode_encode_statement`,
`equal_iff_sameCoset_statement`.

Mathlib is used here; this module must not be imported by Voi/Drv/* or Main.lean.
-/
import Voi.Proofs.SqrtRatio
import Voi.Props.BytesLemmas
import Voi.Spec.Ristretto
namespace Voi.Props.C11
open Voi Voi.Spec Voi.Spec.Ristretto Voi.Proofs.SqrtRatio Voi.Props.Bytes
open Voi.Props.C07 hiding toZ
/-- Mathlib has a root-level `toZ` (order theory); here `toZ` always means the cast ℕ → ZMod p -/
local notation "toZ" => Voi.Props.C07.toZ

/-! ### the intermediate values of Decode, as functions of `s` -/

def dU1 (s : Nat) : Nat := Fp.sub 1 (Fp.sq s)
def dU2 (s : Nat) : Nat := Fp.add 1 (Fp.sq s)
def dV (s : Nat) : Nat := Fp.sub (Fp.neg (Fp.mul D (Fp.sq (dU1 s)))) (Fp.sq (dU2 s))
/-- `(was_square, invsqrt)` -/
def dSR (s : Nat) : Bool × Nat := Fp.sqrtRatioM1 1 (Fp.mul (dV s) (Fp.sq (dU2 s)))
def dDenX (s : Nat) : Nat := Fp.mul (dSR s).2 (dU2 s)
def dDenY (s : Nat) : Nat := Fp.mul (Fp.mul (dSR s).2 (dDenX s)) (dV s)
def dX (s : Nat) : Nat := Fp.abs (Fp.mul (Fp.mul 2 s) (dDenX s))
def dY (s : Nat) : Nat := Fp.mul (dU1 s) (dDenY s)
def dT (s : Nat) : Nat := Fp.mul (dX s) (dY s)

/-- steps 2–3 of Decode on the integer `s` -/
def decPt (s : Nat) : Ext := ⟨dX s, dY s, 1, dT s⟩
def decodeNat (s : Nat) : Option Ext :=
  if (!(dSR s).1 || Fp.isNeg (dT s) || dY s == 0) = true then none
  else some (decPt s)

theorem decPt_X (s : Nat) : (decPt s).X = dX s := rfl
theorem decPt_Y (s : Nat) : (decPt s).Y = dY s := rfl
theorem decPt_Z (s : Nat) : (decPt s).Z = 1 := rfl
theorem decPt_T (s : Nat) : (decPt s).T = dT s := rfl

theorem decode_eq (b : Bytes) : decode b =
    if b.size ≠ 32 then none else if leNat b ≥ p then none else
    if Fp.isNeg (leNat b) = true then none else decodeNat (leNat b) := by
  unfold decode
  simp only []
  rfl

/-! ### the intermediate values of Encode -/

def eU1 (P : Ext) : Nat := Fp.mul (Fp.add P.Z P.Y) (Fp.sub P.Z P.Y)
def eU2 (P : Ext) : Nat := Fp.mul P.X P.Y
def eSR (P : Ext) : Bool × Nat := Fp.sqrtRatioM1 1 (Fp.mul (eU1 P) (Fp.sq (eU2 P)))
def eDen1 (P : Ext) : Nat := Fp.mul (eSR P).2 (eU1 P)
def eDen2 (P : Ext) : Nat := Fp.mul (eSR P).2 (eU2 P)
def eZinv (P : Ext) : Nat := Fp.mul (Fp.mul (eDen1 P) (eDen2 P)) P.T

/-- Encode when neither the rotation nor the y-negation is taken -/
theorem encode_noRotate (P : Ext) (h1 : Fp.isNeg (Fp.mul P.T (eZinv P)) = false)
    (h2 : Fp.isNeg (Fp.mul P.X (eZinv P)) = false) :
    encode P = natLE (Fp.abs (Fp.mul (eDen2 P) (Fp.sub P.Z P.Y))) 32 := by
  unfold encode
  simp only []
  unfold isNegative ctAbs Ristretto.sqrtRatioM1
  unfold eZinv eDen1 eDen2 eSR eU1 eU2 at *
  simp only [h1, Bool.false_eq_true, if_false, h2]

/-! ### acceptance conditions -/

theorem decode_size {b : Bytes} {P : Ext} (h : decode b = some P) : b.size = 32 := by
  by_contra hs
  rw [decode_eq, if_pos hs] at h
  cases h

/-- the five conditions of RFC 9496 §4.3.1 -/
theorem decode_accepts_iff (b : Bytes) :
    (decode b).isSome = true ↔
      b.size = 32 ∧ leNat b < p ∧ Fp.isNeg (leNat b) = false ∧
      (dSR (leNat b)).1 = true ∧ Fp.isNeg (dT (leNat b)) = false ∧ dY (leNat b) ≠ 0 := by
  rw [decode_eq]
  by_cases hs : b.size = 32
  · rw [if_neg (fun h => h hs)]
    by_cases hlt : leNat b < p
    · rw [if_neg (Nat.not_le.2 hlt)]
      by_cases hn : Fp.isNeg (leNat b) = true
      · rw [if_pos hn]; simp [hn]
      · rw [if_neg hn]
        unfold decodeNat
        cases h1 : (dSR (leNat b)).1 <;> cases h2 : Fp.isNeg (dT (leNat b)) <;>
          by_cases h3 : dY (leNat b) = 0 <;> simp [hs, hlt, hn, h3]
    · rw [if_pos (Nat.not_lt.1 hlt)]; simp [hlt]
  · rw [if_pos hs]; simp [hs]

/-- what an accepted string yields -/
theorem decode_some {b : Bytes} {P : Ext} (h : decode b = some P) :
    b.size = 32 ∧ leNat b < p ∧ Fp.isNeg (leNat b) = false ∧
    (dSR (leNat b)).1 = true ∧ Fp.isNeg (dT (leNat b)) = false ∧ dY (leNat b) ≠ 0 ∧
    P = decPt (leNat b) := by
  have hacc := (decode_accepts_iff b).1 (by rw [h]; rfl)
  obtain ⟨h1, h2, h3, h4, h5, h6⟩ := hacc
  refine ⟨h1, h2, h3, h4, h5, h6, ?_⟩
  rw [decode_eq, if_neg (fun h => h h1), if_neg (Nat.not_le.2 h2), if_neg (by rw [h3]; decide)] at h
  unfold decodeNat at h
  rw [h4, h5] at h
  have : (dY (leNat b) == 0) = false := by simpa using h6
  rw [this] at h
  simp only [Bool.not_true, Bool.or_self, Bool.false_eq_true, if_false] at h
  exact (Option.some.inj h).symm

/-- **Canonicity.**  Decode accepts only canonical (`s < p`), non-negative (`s` even) strings. -/
theorem decode_canonical {b : Bytes} {P : Ext} (h : decode b = some P) :
    leNat b < p ∧ leNat b % 2 = 0 := by
  obtain ⟨_, h2, h3, _⟩ := decode_some h
  refine ⟨h2, ?_⟩
  unfold Fp.isNeg at h3
  rw [Nat.mod_eq_of_lt h2] at h3
  simpa using h3

/-! ### algebra -/

theorem toZ_dU1 (s : Nat) : toZ (dU1 s) = 1 - toZ s ^ 2 := by
  unfold dU1; rw [toZ_sub, toZ_sq, toZ_one]; ring
theorem toZ_dU2 (s : Nat) : toZ (dU2 s) = 1 + toZ s ^ 2 := by
  unfold dU2; rw [toZ_add, toZ_sq, toZ_one]; ring
theorem toZ_dV (s : Nat) :
    toZ (dV s) = -(toZ D * (1 - toZ s ^ 2) ^ 2) - (1 + toZ s ^ 2) ^ 2 := by
  unfold dV; rw [toZ_sub, toZ_neg, toZ_mul, toZ_sq, toZ_sq, toZ_dU1, toZ_dU2]; ring
theorem toZ_two : toZ 2 = 2 := toZ_ofNat 2

theorem D_eq_d : D = Fp.d := by decide +kernel

theorem mul_one_of_lt {a : Nat} (ha : a < p) : Fp.mul a 1 = a := by
  unfold Fp.mul; rw [Nat.mul_one, Nat.mod_eq_of_lt ha]

/-- pure field algebra: the decoded (x, y) satisfies the curve equation -/
theorem curve_alg {K : Type} [Field K] (S Dc J X Y : K)
    (hJ : (-(Dc * (1 - S ^ 2) ^ 2) - (1 + S ^ 2) ^ 2) * (1 + S ^ 2) ^ 2 * J ^ 2 = 1)
    (hX : X ^ 2 = 4 * S ^ 2 * J ^ 2 * (1 + S ^ 2) ^ 2) (hY : Y * (1 + S ^ 2) = 1 - S ^ 2) :
    -X ^ 2 + Y ^ 2 = 1 + Dc * (X ^ 2 * Y ^ 2) := by
  have hne : (-(Dc * (1 - S ^ 2) ^ 2) - (1 + S ^ 2) ^ 2) * (1 + S ^ 2) ^ 2 ≠ 0 := by
    intro h; rw [h, zero_mul] at hJ; exact zero_ne_one hJ
  have key : (-(Dc * (1 - S ^ 2) ^ 2) - (1 + S ^ 2) ^ 2) * (1 + S ^ 2) ^ 2 *
      (-X ^ 2 + Y ^ 2 - (1 + Dc * (X ^ 2 * Y ^ 2))) = 0 := by
    linear_combination
      (-(1 + S ^ 2) ^ 2 * (-(Dc * (1 - S ^ 2) ^ 2) - (1 + S ^ 2) ^ 2)
        - Dc * (-(Dc * (1 - S ^ 2) ^ 2) - (1 + S ^ 2) ^ 2) * Y ^ 2 * (1 + S ^ 2) ^ 2) * hX
      + (Y * (1 + S ^ 2) + (1 - S ^ 2)) *
        ((-(Dc * (1 - S ^ 2) ^ 2) - (1 + S ^ 2) ^ 2)
          - 4 * S ^ 2 * (J ^ 2 * (1 + S ^ 2) ^ 2) * Dc * (-(Dc * (1 - S ^ 2) ^ 2) - (1 + S ^ 2) ^ 2)) * hY
      + (-4 * S ^ 2 * (1 + S ^ 2) ^ 2 - 4 * S ^ 2 * Dc * (1 - S ^ 2) ^ 2) * hJ
  rcases mul_eq_zero.1 key with h | h
  · exact absurd h hne
  · exact sub_eq_zero.1 h

/-- the round trip for `s = 0` (the identity element), by computation -/
theorem encode_decPt_zero : encode (decPt 0) = natLE 0 32 := by decide +kernel

theorem natLE_leNat {b : Bytes} (hs : b.size = 32) : natLE (leNat b) 32 = b := by
  apply leNat_inj (by rw [natLE_size, hs])
  rw [leNat_natLE]
  have := leNat_lt b
  rw [hs] at this
  exact Nat.mod_eq_of_lt this

section Field

/-- the facts Decode establishes about its intermediate values when `was_square` holds -/
theorem dec_facts {s : Nat} (hok : (dSR s).1 = true) :
    toZ (dV s) * (1 + toZ s ^ 2) ^ 2 * toZ (dSR s).2 ^ 2 = 1 ∧
    toZ (dY s) * (1 + toZ s ^ 2) = 1 - toZ s ^ 2 ∧
    toZ (dX s) ^ 2 = 4 * toZ s ^ 2 * toZ (dSR s).2 ^ 2 * (1 + toZ s ^ 2) ^ 2 ∧
    toZ (dT s) = toZ (dX s) * toZ (dY s) := by
  have hJ : toZ (dV s) * (1 + toZ s ^ 2) ^ 2 * toZ (dSR s).2 ^ 2 = 1 := by
    have := sqrtRatioM1_ok' (u := 1) (v := Fp.mul (dV s) (Fp.sq (dU2 s))) hok
    rw [toZ_mul, toZ_sq, toZ_dU2, toZ_one] at this
    unfold dSR; linear_combination this
  refine ⟨hJ, ?_, ?_, ?_⟩
  · unfold dY dDenY dDenX
    rw [toZ_mul, toZ_mul, toZ_mul, toZ_mul, toZ_dU1, toZ_dU2]
    linear_combination (1 - toZ s ^ 2) * hJ
  · unfold dX dDenX
    rw [toZ_abs_sq, toZ_mul, toZ_mul, toZ_mul, toZ_dU2, toZ_two]
    ring
  · unfold dT; rw [toZ_mul]

/-- **The decoded representation is a curve point** (x : y : 1 : x y) with reduced coordinates and
non-negative x:  −x² + y² = 1 + d x² y². -/
theorem decode_on_curve {b : Bytes} {P : Ext} (h : decode b = some P) :
    P.X < p ∧ P.Y < p ∧ P.T < p ∧ P.Z = 1 ∧ Fp.isNeg P.X = false ∧ Fp.isNeg P.T = false ∧
    P.Y ≠ 0 ∧ toZ P.T = toZ P.X * toZ P.Y ∧
    -toZ P.X ^ 2 + toZ P.Y ^ 2 = 1 + toZ Fp.d * (toZ P.X ^ 2 * toZ P.Y ^ 2) := by
  obtain ⟨_, _, _, hok, hT, hY, rfl⟩ := decode_some h
  obtain ⟨hJ, hYU, hX2, hTT⟩ := dec_facts hok
  refine ⟨abs_lt _, mul_lt _ _, mul_lt _ _, rfl, abs_nonneg _, hT, hY, hTT, ?_⟩
  rw [decPt_X, decPt_Y]
  rw [toZ_dV] at hJ
  rw [← D_eq_d]
  exact curve_alg _ _ _ _ _ hJ hX2 hYU

/-- the round trip on the integer level, `s ≠ 0` -/
theorem encode_decodeNat {s : Nat} (hs : s < p) (hneg : Fp.isNeg s = false) (h0 : s ≠ 0)
    (hok : (dSR s).1 = true) (hT : Fp.isNeg (dT s) = false) (hY : dY s ≠ 0) :
    encode (decPt s) = natLE s 32 := by
  obtain ⟨hJ, hYU, hX2, hTT⟩ := dec_facts hok
  -- names
  have hS : toZ s ≠ 0 := fun h => h0 (eq_zero_of_toZ hs h)
  have hYne : toZ (dY s) ≠ 0 := fun h => hY (eq_zero_of_toZ (mul_lt _ _) h)
  generalize hSd : toZ s = S at *
  generalize hYd : toZ (dY s) = Y at *
  generalize hXd : toZ (dX s) = X at *
  generalize hJd : toZ (dSR s).2 = J at *
  generalize hVd : toZ (dV s) = V at *
  have hU2 : (1 + S ^ 2) ≠ 0 := by
    intro h; rw [h] at hJ; apply zero_ne_one (α := ZMod p); rw [← hJ]; ring
  have hJne : J ≠ 0 := by
    intro h; rw [h] at hJ; apply zero_ne_one (α := ZMod p); rw [← hJ]; ring
  have h2 : (2 : ZMod p) ≠ 0 := two_ne_zero'
  have hXne : X ≠ 0 := by
    intro h
    rw [h] at hX2
    have : (2 * S * J * (1 + S ^ 2)) ^ 2 = 0 := by linear_combination -hX2
    have := pow_eq_zero_iff (by decide) |>.1 this
    exact mul_ne_zero (mul_ne_zero (mul_ne_zero h2 hS) hJne) hU2 this
  -- the argument of the second inverse square root is a non-zero square
  generalize hP : decPt s = P
  have hPX : P.X = dX s := by rw [← hP, decPt_X]
  have hPY : P.Y = dY s := by rw [← hP, decPt_Y]
  have hPZ : P.Z = 1 := by rw [← hP, decPt_Z]
  have hPT : P.T = dT s := by rw [← hP, decPt_T]
  have hW : toZ (Fp.mul (eU1 P) (Fp.sq (eU2 P))) = (1 + Y) * (1 - Y) * (X * Y) ^ 2 := by
    unfold eU1 eU2
    rw [hPX, hPY, hPZ]
    rw [toZ_mul, toZ_mul, toZ_sq, toZ_mul, toZ_add, toZ_sub, toZ_one, hXd, hYd]; ring
  generalize hWd : toZ (Fp.mul (eU1 P) (Fp.sq (eU2 P))) = W at hW
  have hWU : W * (1 + S ^ 2) ^ 2 = (2 * S * X * Y) ^ 2 := by
    rw [hW]; linear_combination (-(X ^ 2 * Y ^ 2) * (Y * (1 + S ^ 2) + (1 - S ^ 2))) * hYU
  have hden : 2 * S * X * Y ≠ 0 := mul_ne_zero (mul_ne_zero (mul_ne_zero h2 hS) hXne) hYne
  have hWne : W ≠ 0 := by
    intro h; rw [h, zero_mul] at hWU
    exact hden (pow_eq_zero_iff (by decide) |>.1 hWU.symm)
  have hsq : IsSquare (1 / W) := by
    refine ⟨(1 + S ^ 2) / (2 * S * X * Y), ?_⟩
    rw [div_mul_div_comm, div_eq_div_iff hWne (mul_ne_zero hden hden)]
    linear_combination -hWU
  have hu1 : toZ 1 ≠ 0 := by rw [toZ_one]; exact one_ne_zero
  have hok' : (eSR P).1 = true := by
    unfold eSR
    rw [sqrtRatioM1_ok_iff hu1 (by rw [hWd]; exact hWne), toZ_one, hWd]
    exact hsq
  have hJ' : W * toZ (eSR P).2 ^ 2 = 1 := by
    have := sqrtRatioM1_ok' hok'
    rw [hWd, toZ_one] at this
    exact this
  generalize hJ'd : toZ (eSR P).2 = J' at hJ'
  -- z_inv = 1
  have hz : eZinv P = 1 := by
    refine toZ_inj (mul_lt _ _) (by decide) ?_
    unfold eZinv eDen1 eDen2 eU1 eU2
    rw [hPX, hPY, hPZ, hPT]
    rw [toZ_mul, toZ_mul, toZ_mul, toZ_mul, toZ_mul, toZ_mul, toZ_add, toZ_sub, hJ'd]
    rw [hTT, hXd, hYd, toZ_one]
    rw [hW] at hJ'
    linear_combination hJ'
  have hr1 : Fp.isNeg (Fp.mul P.T (eZinv P)) = false := by
    rw [hz, hPT, mul_one_of_lt (show dT s < p from mul_lt _ _)]; exact hT
  have hr2 : Fp.isNeg (Fp.mul P.X (eZinv P)) = false := by
    rw [hz, hPX, mul_one_of_lt (show dX s < p from abs_lt _)]; exact abs_nonneg _
  rw [encode_noRotate P hr1 hr2]
  refine congrArg (fun n => natLE n 32) ?_
  -- |den2 (1 − y)| = s because its square is s²
  apply nonneg_root_unique (abs_lt _) hs (abs_nonneg _) hneg
  rw [toZ_abs_sq, hSd]
  unfold eDen2 eU2
  rw [hPX, hPY, hPZ]
  rw [toZ_mul, toZ_mul, toZ_mul, toZ_sub, hJ'd]
  rw [hXd, hYd, toZ_one]
  have hk : (1 - Y) = S ^ 2 * (1 + Y) := by
    apply mul_right_cancel₀ hU2
    linear_combination (-(1 + S ^ 2)) * hYU
  have h1Y : (1 + Y) ≠ 0 := by
    intro h; apply hWne; rw [hW, h]; ring
  apply mul_right_cancel₀ h1Y
  rw [hW] at hJ'
  linear_combination (1 - Y) * hJ' + hk


/-- **RFC 9496 round trip.**  Re-encoding the internal representation decoded from an accepted
string returns exactly that string. -/
theorem encode_decode {b : Bytes} {P : Ext} (h : decode b = some P) : encode P = b := by
  obtain ⟨hs, hlt, hneg, hok, hT, hY, rfl⟩ := decode_some h
  refine Eq.trans ?_ (natLE_leNat hs)
  by_cases h0 : leNat b = 0
  · rw [h0]; exact encode_decPt_zero
  · exact encode_decodeNat hlt hneg h0 hok hT hY

/-- distinct accepted strings decode to distinct representations -/
theorem decode_injective {b b' : Bytes} {P : Ext} (h : decode b = some P) (h' : decode b' = some P) :
    b = b' := by
  rw [← encode_decode h, ← encode_decode h']

end Field

/-! ### statements not proved here

They need the Edwards group structure on `Pt`/`Ext` (b-group: Voi/Proofs/SpecBridge.lean) and the
analysis of the 4-torsion action on the Jacobi-quartic parametrisation; kept as `Prop`s so that the
intended claims are on record and type-check against the Spec. -/

/-- a representation of a curve point: (X : Y : Z : T) with Z ≠ 0, X Y = Z T, on the curve -/
def ValidExt (P : Ext) : Prop :=
  toZ P.Z ≠ 0 ∧ toZ P.X * toZ P.Y = toZ P.Z * toZ P.T ∧
  -toZ P.X ^ 2 * toZ P.Z ^ 2 + toZ P.Y ^ 2 * toZ P.Z ^ 2 =
    toZ P.Z ^ 4 + toZ Fp.d * (toZ P.X ^ 2 * toZ P.Y ^ 2)

/-- membership in the even subgroup 2E (the set of ristretto255 internal representations) -/
def InEven (P : Ext) : Prop := ∃ Q : Ext, ValidExt Q ∧ Ext.eq P (Ext.dbl Q) = true ∧ ValidExt P

/-- all four coset representatives P + E[4] (and every projective scaling) encode identically -/
def encode_coset_invariant_statement : Prop :=
  ∀ (P Q : Ext), InEven P → InEven Q → sameCoset P Q = true → encode P = encode Q

/-- encode followed by decode returns an equal group element -/
def decode_encode_statement : Prop :=
  ∀ P : Ext, InEven P → ∃ Q : Ext, decode (encode P) = some Q ∧ equal P Q = true

/-- §4.3.3 equality is coset membership -/
def equal_iff_sameCoset_statement : Prop :=
  ∀ (P Q : Ext), InEven P → InEven Q → (equal P Q = true ↔ sameCoset P Q = true)

/-! ### the hypotheses are satisfiable: RFC 9496 appendix A vectors (kernel computation) -/

/-- the generator encoding (A.1) -/
def encG : Bytes := ofHex! "e2f2ae0a6abc4e71a884a961c500515f58e30b6aa582dd8db6a65945e08d2d76"

example : (decode encG).isSome = true := by decide +kernel
example : (decode encG).map encode = some encG := by decide +kernel
example : leNat encG < p ∧ leNat encG % 2 = 0 := by decide +kernel
-- the identity
example : (decode (natLE 0 32)).map encode = some (natLE 0 32) := by decide +kernel
example : decPt 0 = ⟨0, 1, 1, 0⟩ := by
  have hx : dX 0 = 0 := by decide +kernel
  have hy : dY 0 = 1 := by decide +kernel
  have ht : dT 0 = 0 := by decide +kernel
  unfold decPt; rw [hx, hy, ht]
-- A.2 bad encodings: non-canonical (s = p), negative (s = 1), non-square, negative t, y = 0 (s = p − 1… = −1)
example : decode (ofHex! "edffffffffffffffffffffffffffffffffffffffffffffffffffffffffffff7f") = none := by
  decide +kernel
example : decode (natLE 1 32) = none := by decide +kernel
example : decode (ofHex! "26948d35ca62e643e26a83177332e6b6afeb9d08e4268b650f1f5bbd8d81d371") = none := by
  decide +kernel
example : decode (ofHex! "3eb858e78f5a7254d8c9731174a94f76755fd3941c0ac93735c07ba14579630e") = none := by
  decide +kernel
example : decode (natLE 1 31) = none ∧ decode (natLE 0 33) = none := by decide +kernel

#print axioms decode_size
#print axioms decode_canonical
#print axioms decode_accepts_iff
#print axioms decode_on_curve
#print axioms encode_decode
#print axioms decode_injective

end Voi.Props.C11
