/-
C05 (predicate clause) / C01 (`Laws.scMinimal_iff`): the byte-wise model of `scalar.ScMinimalVartime`
(`Voi.Model.Ed25519.scMinimalVartime`: fast paths on the top byte, then the 64-bit-word comparison loop against
`order[3..0]`) decides exactly `little-endian value < L`:

  * `scMinimal_iff : scMinimalVartime b = true ↔ b.size = 32 ∧ leNat b < L`        for ALL byte strings `b`

Proof: `leNat (b[8i .. 8i+8]) = leNat b / 2^(64 i) % 2^64` and `b[31] = leNat b / 2^248` (`leNat_bslice`,
`get_last`), the four words of `L` by kernel evaluation, and then linear arithmetic on
`n = w0 + 2^64 w1 + 2^128 w2 + 2^192 w3`.

Core Lean only (no Mathlib), no `sorry`, no `axiom`, no `native_decide`.
-/
import Voi.Model.Ed25519
import Voi.Props.BytesLemmas

namespace Voi.Props.ScMinimal
open Voi Voi.Spec Voi.Model.Ed25519 Voi.Props.Bytes

/-! ## slices of little-endian strings -/

theorem leList_take : ∀ (l : List UInt8) (n : Nat), leList (l.take n) = leList l % 256 ^ n
  | [], n => by simp [leList]
  | x :: l, 0 => by simp [leList, Nat.mod_one]
  | x :: l, n + 1 => by
    rw [List.take_succ_cons]
    simp only [leList]
    rw [leList_take l n, Nat.pow_succ, Nat.mul_comm (256 ^ n) 256]
    have hx := x.toNat_lt
    have h1 : (x.toNat + 256 * leList l) % (256 * 256 ^ n)
        = (x.toNat + 256 * leList l) % 256 + 256 * ((x.toNat + 256 * leList l) / 256 % 256 ^ n) :=
      Nat.mod_mul
    rw [h1]
    have h2 : (x.toNat + 256 * leList l) % 256 = x.toNat := by omega
    have h3 : (x.toNat + 256 * leList l) / 256 = leList l := by omega
    rw [h2, h3]

theorem leList_drop : ∀ (l : List UInt8) (n : Nat), leList (l.drop n) = leList l / 256 ^ n
  | [], n => by simp [leList]
  | x :: l, 0 => by simp
  | x :: l, n + 1 => by
    rw [List.drop_succ_cons, leList_drop l n]
    simp only [leList]
    rw [Nat.pow_succ, Nat.mul_comm (256 ^ n) 256, ← Nat.div_div_eq_div_mul]
    have hx := x.toNat_lt
    have h3 : (x.toNat + 256 * leList l) / 256 = leList l := by omega
    rw [h3]

/-- a slice of a little-endian string is a digit range of its value -/
theorem leNat_bslice (b : Bytes) (off len : Nat) :
    leNat (bslice b off len) = leNat b / 256 ^ off % 256 ^ len := by
  unfold bslice
  rw [leNat_eq, leNat_eq, ByteArray.data_extract, Array.toList_extract, List.extract_eq_take_drop,
    leList_take, leList_drop, Nat.add_sub_cancel_left]

/-- the last byte of a 32-byte string is the top digit of its value -/
theorem get_last (b : Bytes) (hs : b.size = 32) : (b.get! 31).toNat = leNat b / 256 ^ 31 := by
  have hlen : b.data.toList.length = 32 := by rw [Array.length_toList]; exact hs
  have h1 : b.get! 31 = b.data.toList[31] := by
    have hs' : 31 < b.data.size := by
      have : b.data.size = 32 := hs
      omega
    show b.data[31]! = _
    rw [getElem!_pos b.data 31 hs']
    rfl
  have h2 : b.data.toList.drop 31 = [b.data.toList[31]] := by
    rw [List.drop_eq_getElem_cons (by omega)]
    congr 1
    apply List.drop_eq_nil_of_le
    omega
  rw [leNat_eq, ← leList_drop, h2, h1]
  simp [leList]

/-! ## the words of L -/

theorem orderWord_0 : orderWord 0 = 0x5812631a5cf5d3ed := by decide
theorem orderWord_1 : orderWord 1 = 0x14def9dea2f79cd6 := by decide
theorem orderWord_2 : orderWord 2 = 0 := by decide
theorem orderWord_3 : orderWord 3 = 0x1000000000000000 := by decide

theorem L_words : L = 0x5812631a5cf5d3ed + 2 ^ 64 * 0x14def9dea2f79cd6 + 2 ^ 128 * 0 + 2 ^ 192 * 0x1000000000000000 := by
  decide

/-- the two masks of the fast paths -/
theorem top_masks : ∀ t : Fin 256, ((t.val &&& 240 = 0) ↔ t.val < 16) ∧ ((t.val &&& 224 ≠ 0) ↔ 32 ≤ t.val) := by
  decide +kernel

/-! ## the predicate -/

/-- the loop `for i := 3; ; i-- { … }`, unrolled -/
theorem scMinLoop_3 (b : Bytes) : scMinLoop b 3 =
    (if leU64 b 3 > orderWord 3 then false else if leU64 b 3 < orderWord 3 then true
     else if leU64 b 2 > orderWord 2 then false else if leU64 b 2 < orderWord 2 then true
     else if leU64 b 1 > orderWord 1 then false else if leU64 b 1 < orderWord 1 then true
     else if leU64 b 0 > orderWord 0 then false else if leU64 b 0 < orderWord 0 then true
     else false) := rfl

/-- the word loop is the lexicographic comparison with the words of `L` -/
theorem scMinLoop_iff (b : Bytes) :
    scMinLoop b 3 = true ↔
      leU64 b 0 + 2 ^ 64 * leU64 b 1 + 2 ^ 128 * leU64 b 2 + 2 ^ 192 * leU64 b 3 < L := by
  have h0 : leU64 b 0 < 2 ^ 64 := by unfold leU64; rw [leNat_bslice]; exact Nat.mod_lt _ (by decide)
  have h1 : leU64 b 1 < 2 ^ 64 := by unfold leU64; rw [leNat_bslice]; exact Nat.mod_lt _ (by decide)
  have h2 : leU64 b 2 < 2 ^ 64 := by unfold leU64; rw [leNat_bslice]; exact Nat.mod_lt _ (by decide)
  have h3 : leU64 b 3 < 2 ^ 64 := by unfold leU64; rw [leNat_bslice]; exact Nat.mod_lt _ (by decide)
  rw [L_words]
  rw [scMinLoop_3, orderWord_0, orderWord_1, orderWord_2, orderWord_3]
  generalize leU64 b 0 = v0 at *
  generalize leU64 b 1 = v1 at *
  generalize leU64 b 2 = v2 at *
  generalize leU64 b 3 = v3 at *
  by_cases c3 : v3 > 0x1000000000000000
  · simp only [c3, if_true]; constructor
    · intro h; cases h
    · intro h; omega
  by_cases d3 : v3 < 0x1000000000000000
  · simp only [c3, d3, if_true, if_false]; constructor
    · intro _; omega
    · intro _; trivial
  simp only [c3, d3, if_false]
  by_cases c2 : v2 > 0
  · simp only [c2, if_true]; constructor
    · intro h; cases h
    · intro h; omega
  have d2 : ¬ v2 < 0 := Nat.not_lt_zero _
  simp only [c2, d2, if_false]
  by_cases c1 : v1 > 0x14def9dea2f79cd6
  · simp only [c1, if_true]; constructor
    · intro h; cases h
    · intro h; omega
  by_cases d1 : v1 < 0x14def9dea2f79cd6
  · simp only [c1, d1, if_true, if_false]; constructor
    · intro _; omega
    · intro _; trivial
  simp only [c1, d1, if_false]
  by_cases c0 : v0 > 0x5812631a5cf5d3ed
  · simp only [c0, if_true]; constructor
    · intro h; cases h
    · intro h; omega
  by_cases d0 : v0 < 0x5812631a5cf5d3ed
  · simp only [c0, d0, if_true, if_false]; constructor
    · intro _; omega
    · intro _; trivial
  simp only [c0, d0, if_false]; constructor
  · intro h; cases h
  · intro h; omega

/-- the four words recompose the value -/
theorem words_sum (b : Bytes) (hs : b.size = 32) :
    leU64 b 0 + 2 ^ 64 * leU64 b 1 + 2 ^ 128 * leU64 b 2 + 2 ^ 192 * leU64 b 3 = leNat b := by
  have hlt : leNat b < 256 ^ b.size := leNat_lt b
  rw [hs] at hlt
  unfold leU64
  simp only [leNat_bslice]
  have e0 : (256 : Nat) ^ (8 * 0) = 1 := by decide
  have e1 : (256 : Nat) ^ (8 * 1) = 2 ^ 64 := by decide
  have e2 : (256 : Nat) ^ (8 * 2) = 2 ^ 128 := by decide
  have e3 : (256 : Nat) ^ (8 * 3) = 2 ^ 192 := by decide
  have e8 : (256 : Nat) ^ 8 = 2 ^ 64 := by decide
  have e32 : (256 : Nat) ^ 32 = 2 ^ 256 := by decide
  rw [e0, e1, e2, e3, e8]
  rw [e32] at hlt
  generalize leNat b = n at *
  omega

/-- **`ScMinimalVartime` decides `value < L`** — for every byte string (other lengths: `false`). -/
theorem scMinimal_iff (b : Bytes) : scMinimalVartime b = true ↔ b.size = 32 ∧ leNat b < L := by
  by_cases hs : b.size = 32
  case neg => simp [scMinimalVartime, hs]
  have hlt : leNat b < 256 ^ b.size := leNat_lt b
  rw [hs] at hlt
  have e32 : (256 : Nat) ^ 32 = 2 ^ 256 := by decide
  have e31 : (256 : Nat) ^ 31 = 2 ^ 248 := by decide
  rw [e32] at hlt
  have htop := get_last b hs
  rw [e31] at htop
  have htlt : leNat b / 2 ^ 248 < 256 := by omega
  obtain ⟨m1, m2⟩ := top_masks ⟨leNat b / 2 ^ 248, htlt⟩
  simp only at m1 m2
  have hL1 : 2 ^ 252 < L := by decide
  have hL2 : L < 2 ^ 253 := by decide
  unfold scMinimalVartime
  simp only [hs, ne_eq, not_true_eq_false, if_false, htop, true_and]
  by_cases c1 : leNat b / 2 ^ 248 &&& 240 = 0
  · simp only [c1, if_true, true_iff]
    have := m1.1 c1
    omega
  · simp only [c1, if_false]
    by_cases c2 : leNat b / 2 ^ 248 &&& 224 ≠ 0
    · simp only [c2]
      have := m2.1 c2
      constructor
      · intro h; cases h
      · intro h; omega
    · simp only [c2, if_false]
      rw [scMinLoop_iff, words_sum b hs]

/-- the form used by `Voi.Props.C01.Laws` -/
theorem scMinimal_iff' (b : Bytes) (hs : b.size = 32) : scMinimalVartime b = true ↔ leNat b < L := by
  rw [scMinimal_iff]; exact ⟨fun h => h.2, fun h => ⟨hs, h⟩⟩

/-! ## non-vacuity: `L − 1` passes, `L` fails, `2^252 − 1` passes through the fast path, short input fails -/
example : scMinimalVartime (natLE (L - 1) 32) = true := by decide +kernel
example : scMinimalVartime (natLE L 32) = false := by decide +kernel
example : scMinimalVartime (natLE (2 ^ 252 - 1) 32) = true := by decide +kernel
example : scMinimalVartime (natLE (2 ^ 256 - 1) 32) = false := by decide +kernel
example : scMinimalVartime (natLE 0 31) = false := by decide +kernel
example : leNat (natLE (L - 1) 32) < L := ((scMinimal_iff _).1 (by decide +kernel)).2

end Voi.Props.ScMinimal

#print axioms Voi.Props.ScMinimal.leNat_bslice
#print axioms Voi.Props.ScMinimal.get_last
#print axioms Voi.Props.ScMinimal.scMinLoop_iff
#print axioms Voi.Props.ScMinimal.scMinimal_iff
