/-
Byte-string lemmas for `Voi.Basic` (core Lean only): `leNat` is the little-endian value of the list of bytes,
`natLE n len` has `len` bytes and `leNat (natLE n len) = n % 256^len`, and `leNat` is injective on byte strings of
one length (so changing any bit of a fixed-length field changes its value).  Used by C02.
-/
import Voi.Basic
namespace Voi.Props.Bytes
open Voi

theorem foldlM_loop_eq {β : Type} (f : β → UInt8 → β) (as : ByteArray) (stop : Nat) (h : stop ≤ as.size) :
    ∀ (i j : Nat) (b : β), j + i = stop →
      (ByteArray.foldlM.loop (m := Id) (fun x y => pure (f x y)) as stop h i j b).run
        = ((as.data.toList.drop j).take i).foldl f b := by
  intro i
  induction i with
  | zero => intro j b _; simp [ByteArray.foldlM.loop]
  | succ i ih =>
    intro j b hj
    unfold ByteArray.foldlM.loop
    have hlt : j < stop := by omega
    simp only [hlt, ↓reduceDIte]
    have hj' : j < as.data.toList.length := by simp; exact Nat.lt_of_lt_of_le hlt h
    rw [List.drop_eq_getElem_cons hj', List.take_succ_cons, List.foldl_cons]
    have := ih (j + 1) (f b as[j]) (by omega)
    have e : as.data.toList[j] = as[j] := by
      rw [ByteArray.getElem_eq_getElem_data]; simp
    rw [e]
    exact this

theorem foldl_eq_list {β : Type} (f : β → UInt8 → β) (init : β) (as : ByteArray) :
    as.foldl f init = as.data.toList.foldl f init := by
  unfold ByteArray.foldl ByteArray.foldlM
  simp only [Nat.le_refl, ↓reduceDIte, Nat.sub_zero]
  have := foldlM_loop_eq f as as.size (Nat.le_refl _) as.size 0 init (by omega)
  have hl : as.data.toList.length ≤ as.size := Nat.le_of_eq (Array.length_toList)
  rw [List.drop_zero, List.take_of_length_le hl] at this
  exact this

/-- little-endian value of a list of bytes -/
def leList : List UInt8 → Nat
  | [] => 0
  | x :: l => x.toNat + 256 * leList l

theorem leNat_foldl (l : List UInt8) : ∀ (v t : Nat),
    l.foldl (fun (acc : Nat × Nat) x => (acc.1 + x.toNat <<< acc.2, acc.2 + 8)) (v, 8 * t)
      = (v + 2 ^ (8 * t) * leList l, 8 * (t + l.length)) := by
  induction l with
  | nil => intro v t; simp [leList]
  | cons x l ih =>
    intro v t
    rw [List.foldl_cons]
    have : (8 * t + 8) = 8 * (t + 1) := by omega
    simp only [this]
    rw [ih]
    simp only [leList, List.length_cons, Nat.shiftLeft_eq]
    have : 2 ^ (8 * (t + 1)) = 2 ^ (8 * t) * 256 := by rw [Nat.mul_add, Nat.pow_add]
    rw [this]
    refine Prod.ext ?_ ?_
    · simp only; rw [Nat.mul_add, Nat.mul_assoc, Nat.add_assoc, Nat.mul_comm x.toNat]
    · simp only; omega

theorem leNat_eq (b : Bytes) : leNat b = leList b.data.toList := by
  unfold leNat
  rw [foldl_eq_list]
  have := leNat_foldl b.data.toList 0 0
  simp at this
  simp [this]

/-- the `len` little-endian base-256 digits of `n` -/
def digits : Nat → Nat → List UInt8
  | _, 0 => []
  | n, k + 1 => UInt8.ofNat (n % 256) :: digits (n / 256) k

theorem digits_length (n k : Nat) : (digits n k).length = k := by
  induction k generalizing n with
  | zero => rfl
  | succ k ih => simp [digits, ih]

theorem natLE_foldl (k : Nat) : ∀ (s : Nat) (out : ByteArray) (m : Nat),
    (List.foldl (fun (b : ByteArray × Nat) (_ : Nat) => (b.fst.push (UInt8.ofNat (b.snd % 256)), b.snd >>> 8)) (out, m)
      (List.range' s k)).fst.data.toList = out.data.toList ++ digits m k := by
  induction k with
  | zero => intro s out m; simp [digits]
  | succ k ih =>
    intro s out m
    rw [List.range'_succ, List.foldl_cons, ih]
    simp [digits, Nat.shiftRight_eq_div_pow, ByteArray.push]

theorem natLE_data (n len : Nat) : (natLE n len).data.toList = digits n len := by
  unfold natLE
  simp
  have := natLE_foldl len 0 (ByteArray.emptyWithCapacity len) n
  have he : (ByteArray.emptyWithCapacity len).data.toList = [] := rfl
  rw [he, List.nil_append] at this
  exact this

theorem natLE_size (n len : Nat) : (natLE n len).size = len := by
  show (natLE n len).data.size = len
  rw [← Array.length_toList, natLE_data, digits_length]

theorem leList_digits (k : Nat) : ∀ n, leList (digits n k) = n % 256 ^ k := by
  induction k with
  | zero => intro n; simp [digits, leList, Nat.mod_one]
  | succ k ih =>
    intro n
    simp only [digits, leList, ih]
    have h1 : (UInt8.ofNat (n % 256)).toNat = n % 256 := by
      simp [UInt8.toNat_ofNat']
    rw [h1, Nat.pow_succ, Nat.mul_comm (256 ^ k) 256, Nat.mod_mul]

theorem leNat_natLE (n len : Nat) : leNat (natLE n len) = n % 256 ^ len := by
  rw [leNat_eq, natLE_data, leList_digits]

theorem leList_lt (l : List UInt8) : leList l < 256 ^ l.length := by
  induction l with
  | nil => simp [leList]
  | cons x l ih =>
    simp only [leList, List.length_cons, Nat.pow_succ]
    have := x.toNat_lt
    omega

theorem leList_inj : ∀ (l l' : List UInt8), l.length = l'.length → leList l = leList l' → l = l'
  | [], [], _, _ => rfl
  | [], _ :: _, h, _ => by simp at h
  | _ :: _, [], h, _ => by simp at h
  | x :: l, y :: l', h, e => by
    simp only [leList] at e
    have hx := x.toNat_lt
    have hy := y.toNat_lt
    have h1 : x.toNat = y.toNat := by omega
    have h2 : leList l = leList l' := by omega
    have hl : l.length = l'.length := by simpa using h
    rw [leList_inj l l' hl h2, UInt8.toNat_inj.1 h1]

/-- on byte strings of one length the little-endian value is injective: changing any bit changes the value -/
theorem leNat_inj {a b : Bytes} (hs : a.size = b.size) (h : leNat a = leNat b) : a = b := by
  rw [leNat_eq, leNat_eq] at h
  have hl : a.data.toList.length = b.data.toList.length := by
    rw [Array.length_toList, Array.length_toList]; exact hs
  have := leList_inj _ _ hl h
  exact ByteArray.ext (Array.toList_inj.1 this)

theorem leNat_lt (b : Bytes) : leNat b < 256 ^ b.size := by
  rw [leNat_eq]
  have := leList_lt b.data.toList
  rw [Array.length_toList] at this
  exact this

end Voi.Props.Bytes
