/-
C17: the boolean range predicates of `Voi.Model.Recoding` (`bitsOk`, `nafShapeOk`, `r16Ok`, `r2wOk`, evaluated by
the driver on every R1 request) follow from index-wise facts about `dig`.
-/
import Voi.Props.C17.Basic

namespace Voi.Props.C17
open Voi.Model.Recoding

theorem getD_toList (a : Array Int) (i : Nat) : a.toList.getD i 0 = dig a i := by
  simp [dig, Array.getD_eq_getD_getElem?, List.getD_eq_getElem?_getD]

theorem all_of_getD (p : Int → Bool) : ∀ (l : List Int),
    (∀ i, i < l.length → p (l.getD i 0) = true) → l.all p = true
  | [], _ => rfl
  | d :: ds, h => by
    rw [List.all_cons, Bool.and_eq_true]
    refine ⟨by simpa using h 0 (by simp), all_of_getD p ds ?_⟩
    intro i hi
    simpa using h (i + 1) (by simpa using hi)

theorem all_take_of_getD (p : Int → Bool) : ∀ (l : List Int) (k : Nat),
    (∀ i, i < k → i < l.length → p (l.getD i 0) = true) → (l.take k).all p = true
  | [], _, _ => by simp
  | _ :: _, 0, _ => by simp
  | d :: ds, k + 1, h => by
    rw [List.take_succ_cons, List.all_cons, Bool.and_eq_true]
    refine ⟨by simpa using h 0 (by omega) (by simp), all_take_of_getD p ds k ?_⟩
    intro i hi hl
    simpa using h (i + 1) (by omega) (by simpa using hl)

theorem all_drop_of_getD (p : Int → Bool) : ∀ (l : List Int) (k : Nat),
    (∀ i, k ≤ i → i < l.length → p (l.getD i 0) = true) → (l.drop k).all p = true
  | [], _, _ => by simp
  | d :: ds, 0, h => by
    rw [List.drop_zero]; exact all_of_getD p _ (fun i hi => h i (by omega) hi)
  | d :: ds, k + 1, h => by
    rw [List.drop_succ_cons]
    apply all_drop_of_getD p ds k
    intro i hi hl
    simpa using h (i + 1) (by omega) (by simpa using hl)

theorem getD_drop (l : List Int) (k i : Nat) : (l.drop k).getD i 0 = l.getD (k + i) 0 := by
  simp [List.getD_eq_getElem?_getD, List.getElem?_drop]

/-! ### bitsOk -/

theorem bitsOk_of (a : Array Int) (hs : a.size = 256) (h : ∀ i, dig a i = 0 ∨ dig a i = 1) :
    bitsOk a.toList = true := by
  unfold bitsOk
  rw [Bool.and_eq_true]
  refine ⟨by simp [hs], all_of_getD _ _ ?_⟩
  intro i _
  rw [getD_toList]
  rcases h i with e | e <;> rw [e] <;> decide

/-! ### nafShapeOk -/

theorem nafShapeOk_list (w : Nat) : ∀ (l : List Int),
    (∀ i, l.getD i 0 ≠ 0 → l.getD i 0 % 2 = 1 ∧ (l.getD i 0).natAbs < 2 ^ (w - 1) ∧
      ∀ j, i < j → j < i + w → l.getD j 0 = 0) → nafShapeOk w l = true
  | [], _ => rfl
  | d :: ds, h => by
    unfold nafShapeOk
    rw [Bool.and_eq_true]
    constructor
    · by_cases hd : d = 0
      · simp [hd]
      · obtain ⟨h1, h2, h3⟩ := h 0 (by simpa using hd)
        have h1' : d % 2 = 1 := by simpa using h1
        have h2' : d.natAbs < 2 ^ (w - 1) := by simpa using h2
        have h3' : (ds.take (w - 1)).all (· == 0) = true := by
          apply all_take_of_getD
          intro i hi _
          have := h3 (i + 1) (by omega) (by omega)
          simpa using this
        simp [h1', h2', h3']
    · apply nafShapeOk_list w ds
      intro i hi
      obtain ⟨h1, h2, h3⟩ := h (i + 1) (by simpa using hi)
      refine ⟨by simpa using h1, by simpa using h2, ?_⟩
      intro j hj1 hj2
      simpa using h3 (j + 1) (by omega) (by omega)

theorem nafShapeOk_of (w : Nat) (a : Array Int)
    (h : ∀ i, dig a i ≠ 0 → dig a i % 2 = 1 ∧ (dig a i).natAbs < 2 ^ (w - 1) ∧
      ∀ j, i < j → j < i + w → dig a j = 0) : nafShapeOk w a.toList = true := by
  apply nafShapeOk_list
  intro i hi
  rw [getD_toList] at hi ⊢
  obtain ⟨h1, h2, h3⟩ := h i hi
  exact ⟨h1, h2, fun j hj1 hj2 => by rw [getD_toList]; exact h3 j hj1 hj2⟩

/-! ### r16Ok -/

theorem r16Ok_of (a : Array Int) (hs : a.size = 64)
    (h1 : ∀ i, i < 63 → -8 ≤ dig a i ∧ dig a i < 8) (h2 : 0 ≤ dig a 63 ∧ dig a 63 ≤ 8) :
    r16Ok a.toList = true := by
  unfold r16Ok
  rw [Bool.and_eq_true, Bool.and_eq_true]
  refine ⟨⟨by simp [hs], all_take_of_getD _ _ _ ?_⟩, all_drop_of_getD _ _ _ ?_⟩
  · intro i hi _
    rw [getD_toList]
    have := h1 i hi
    simp [this.1, this.2]
  · intro i hi hl
    have : i = 63 := by simp [hs] at hl; omega
    subst this
    rw [getD_toList]
    simp [h2.1, h2.2]

/-! ### r2wOk -/

theorem r2wOk_of (w : Nat) (a : Array Int) (t : Nat) (hs : a.size = 43)
    (ht : t = if w = 8 then digitsCount w else digitsCount w - 1)
    (hint : ∀ j, j < t → -(2 ^ (w - 1) : Int) ≤ dig a j ∧ dig a j < 2 ^ (w - 1))
    (hterm : 0 ≤ dig a t ∧ dig a t ≤ 2 ^ (w - 1))
    (hhint : toRadix2wSizeHint w = some (t + 1))
    (hzero : ∀ j, t + 1 ≤ j → dig a j = 0) : r2wOk w a.toList = true := by
  unfold r2wOk
  simp only [← ht, hhint, Option.getD_some]
  simp only [Bool.and_eq_true]
  refine ⟨⟨⟨⟨by simp [hs], all_take_of_getD _ _ _ ?_⟩, all_take_of_getD _ _ _ ?_⟩,
    all_drop_of_getD _ _ _ ?_⟩, all_drop_of_getD _ _ _ ?_⟩
  · intro i hi _
    rw [getD_toList]
    have := hint i hi
    simp [this.1, this.2]
  · intro i hi _
    have : i = 0 := by omega
    subst this
    rw [getD_drop, getD_toList]
    simp [hterm.1, hterm.2]
  · intro i hi _
    rw [getD_toList, hzero i hi]; rfl
  · intro i hi _
    rw [getD_toList, hzero i hi]; rfl

end Voi.Props.C17
