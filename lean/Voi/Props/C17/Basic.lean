/-
C17, shared vocabulary and arithmetic for the recoding theorems.

  * `dig a i`      : digit `i` of a digit array (0 outside the array)
  * `sumD r f k`   : Σ_{i<k} f i · 2^(r·i)
  * `recon_toList` : the spec's `recon r a.toList` is `sumD r (dig a) a.size`
  * `sumD_set`     : effect of one `setIfInBounds` on the sum
  * `sumD_digits`  : Σ_{i<k} (n / 2^(r·i) % 2^r) · 2^(r·i) = n % 2^(r·k)
  * `nafBitBuf_mod`, `r2wBitBuf_mod` : the 64-bit word window extraction (incl. the seam case that ORs two
    words) yields bits `pos .. pos+w-1` of `n`
-/
import Voi.Model.Recoding
import Mathlib.Tactic.Ring
import Mathlib.Tactic.Linarith
import Mathlib.Tactic.IntervalCases
import Mathlib.Tactic.NormNum

namespace Voi.Props.C17
open Voi.Model.Recoding

set_option exponentiation.threshold 1024

/-! ## Digit access and sums -/

/-- digit `i` of a digit array; 0 outside -/
def dig (a : Array Int) (i : Nat) : Int := a.getD i 0

/-- `Σ_{i<k} f i · 2^(r·i)` -/
def sumD (r : Nat) (f : Nat → Int) : Nat → Int
  | 0 => 0
  | k + 1 => sumD r f k + f k * 2 ^ (r * k)

theorem dig_eq_getElem (a : Array Int) (i : Nat) (h : i < a.size) : dig a i = a[i] := by
  simp [dig, Array.getD, h]

theorem dig_of_size_le (a : Array Int) (i : Nat) (h : a.size ≤ i) : dig a i = 0 := by
  have : ¬ i < a.size := by omega
  simp [dig, Array.getD, this]

theorem dig_set (a : Array Int) (i : Nat) (v : Int) (j : Nat) :
    dig (a.setIfInBounds i v) j = if j = i ∧ i < a.size then v else dig a j := by
  unfold dig
  rw [Array.getD_eq_getD_getElem?, Array.getD_eq_getD_getElem?, Array.getElem?_setIfInBounds]
  by_cases hij : i = j
  · subst hij
    by_cases hi : i < a.size
    · simp [hi]
    · simp [hi]
  · have : ¬ j = i := fun h => hij h.symm
    simp [hij, this]

theorem dig_set_self (a : Array Int) (i : Nat) (v : Int) (h : i < a.size) :
    dig (a.setIfInBounds i v) i = v := by simp [dig_set, h]

theorem dig_set_ne (a : Array Int) (i : Nat) (v : Int) (j : Nat) (h : j ≠ i) :
    dig (a.setIfInBounds i v) j = dig a j := by simp [dig_set, h]

theorem dig_replicate (k i : Nat) : dig (Array.replicate k 0) i = 0 := by
  unfold dig
  rw [Array.getD_eq_getD_getElem?]
  by_cases h : i < k
  · simp [h]
  · have : (Array.replicate k (0 : Int)).size ≤ i := by simp; omega
    simp [Array.getElem?_eq_none this]

theorem sumD_congr (r : Nat) (f g : Nat → Int) : ∀ k, (∀ i, i < k → f i = g i) → sumD r f k = sumD r g k
  | 0, _ => rfl
  | k + 1, h => by
    simp only [sumD]
    rw [sumD_congr r f g k (fun i hi => h i (by omega)), h k (by omega)]

theorem sumD_zero (r : Nat) (f : Nat → Int) : ∀ k, (∀ i, i < k → f i = 0) → sumD r f k = 0
  | 0, _ => rfl
  | k + 1, h => by
    simp only [sumD]
    rw [sumD_zero r f k (fun i hi => h i (by omega)), h k (by omega)]; simp

/-- digits that are zero from `k` on do not contribute -/
theorem sumD_extend (r : Nat) (f : Nat → Int) (k : Nat) :
    ∀ m, (∀ i, k ≤ i → i < k + m → f i = 0) → sumD r f (k + m) = sumD r f k
  | 0, _ => rfl
  | m + 1, h => by
    show sumD r f (k + m) + f (k + m) * 2 ^ (r * (k + m)) = _
    rw [sumD_extend r f k m (fun i h1 h2 => h i h1 (by omega)), h (k + m) (by omega) (by omega)]; simp

/-- changing one digit -/
theorem sumD_update (r : Nat) (f g : Nat → Int) (i : Nat) (h : ∀ j, j ≠ i → g j = f j) :
    ∀ k, sumD r g k = sumD r f k + (if i < k then (g i - f i) * 2 ^ (r * i) else 0)
  | 0 => by simp [sumD]
  | k + 1 => by
    simp only [sumD]
    rw [sumD_update r f g i h k]
    by_cases hik : i < k
    · have h1 : i < k + 1 := by omega
      have h2 : k ≠ i := by omega
      simp only [hik, h1, if_true, h k h2]; ring
    · by_cases hik' : i = k
      · subst hik'; simp; ring
      · have h1 : ¬ i < k + 1 := by omega
        have h2 : k ≠ i := fun e => hik' e.symm
        simp only [hik, h1, if_false, h k h2]; ring

/-- effect of one array store on the digit sum -/
theorem sumD_set (r : Nat) (a : Array Int) (i : Nat) (v : Int) (k : Nat) (hi : i < a.size) (hk : i < k) :
    sumD r (dig (a.setIfInBounds i v)) k = sumD r (dig a) k + (v - dig a i) * 2 ^ (r * i) := by
  rw [sumD_update r (dig a) (dig (a.setIfInBounds i v)) i (fun j hj => dig_set_ne a i v j hj) k]
  simp [hk, dig_set_self a i v hi]

/-! ## `recon` on lists is `sumD` on digit functions -/

theorem sumD_shift (r : Nat) (f : Nat → Int) :
    ∀ k, sumD r f (k + 1) = f 0 + 2 ^ r * sumD r (fun i => f (i + 1)) k
  | 0 => by simp [sumD]
  | k + 1 => by
    have ih := sumD_shift r f k
    show sumD r f (k + 1) + f (k + 1) * 2 ^ (r * (k + 1)) = _
    rw [ih]
    show _ = f 0 + 2 ^ r * (sumD r (fun i => f (i + 1)) k + f (k + 1) * 2 ^ (r * k))
    have : (2 : Int) ^ (r * (k + 1)) = 2 ^ r * 2 ^ (r * k) := by rw [← pow_add]; congr 1; ring
    rw [this]; ring

theorem recon_list (r : Nat) : ∀ l : List Int, recon r l = sumD r (fun i => l.getD i 0) l.length
  | [] => rfl
  | d :: ds => by
    show d + 2 ^ r * recon r ds = sumD r (fun i => (d :: ds).getD i 0) (ds.length + 1)
    rw [sumD_shift, recon_list r ds]
    simp

/-- the spec's reconstruction of an array's digit list is the digit sum -/
theorem recon_toList (r : Nat) (a : Array Int) : recon r a.toList = sumD r (dig a) a.size := by
  rw [recon_list]
  simp only [Array.length_toList]
  apply sumD_congr
  intro i _
  simp [dig, Array.getD_eq_getD_getElem?, List.getD_eq_getElem?_getD]

/-! ## Positional arithmetic -/

/-- `Σ_{i<k} (n / 2^(r·i) % 2^r) · 2^(r·i) = n % 2^(r·k)` -/
theorem sumD_digits (r n : Nat) :
    ∀ k, sumD r (fun i => ((n / 2 ^ (r * i) % 2 ^ r : Nat) : Int)) k = ((n % 2 ^ (r * k) : Nat) : Int)
  | 0 => by simp [sumD, Nat.mod_one]
  | k + 1 => by
    simp only [sumD]
    rw [sumD_digits r n k]
    have h : 2 ^ (r * (k + 1)) = 2 ^ (r * k) * 2 ^ r := by rw [← pow_add]; congr 1
    rw [h, Nat.mod_mul]
    push_cast; ring

/-- splitting a residue: `n % 2^(p+k) = n % 2^p + 2^p · (n / 2^p % 2^k)` -/
theorem mod_pow_add (n p k : Nat) : n % 2 ^ (p + k) = n % 2 ^ p + 2 ^ p * (n / 2 ^ p % 2 ^ k) := by
  rw [pow_add, Nat.mod_mul]

theorem div_pow_add (n p k : Nat) : n / 2 ^ (p + k) = n / 2 ^ p / 2 ^ k := by
  rw [pow_add, Nat.div_div_eq_div_mul]

/-- `n < 2^b`, `p + k ≥ b`  ⇒  `n / 2^p < 2^k` -/
theorem div_pow_lt (n b p k : Nat) (hn : n < 2 ^ b) (h : b ≤ p + k) : n / 2 ^ p < 2 ^ k := by
  apply Nat.div_lt_of_lt_mul
  calc n < 2 ^ b := hn
    _ ≤ 2 ^ (p + k) := Nat.pow_le_pow_right (by decide) h
    _ = 2 ^ p * 2 ^ k := pow_add 2 p k

/-! ## The 64-bit word window -/

/-- the four words are the base-2^64 digits of `n`; the fifth is zero -/
theorem x5_eq (n i : Nat) (hn : n < 2 ^ 256) (hi : i ≤ 4) : x5 n i = n / 2 ^ (64 * i) % 2 ^ 64 := by
  unfold x5 word64
  by_cases h : i < 4
  · simp [h]
  · have : i = 4 := by omega
    subst this
    simp only [h, if_false]
    have : n / 2 ^ (64 * 4) = 0 := Nat.div_eq_of_lt (by simpa using hn)
    rw [this]; rfl

/-- single-word case: `(m % 2^64) >> b` agrees with `m >> b` on the low `64 - b` bits -/
theorem shr_word (m b w : Nat) (hb : b + w ≤ 64) : (m % 2 ^ 64) / 2 ^ b % 2 ^ w = m / 2 ^ b % 2 ^ w := by
  have h64 : 2 ^ 64 = 2 ^ b * 2 ^ (64 - b) := by rw [← pow_add]; congr 1; omega
  rw [h64, Nat.mod_mul_right_div_self]
  exact Nat.mod_mod_of_dvd _ (Nat.pow_dvd_pow 2 (by omega))

/-- seam case: `(lo >> b) | (hi << (64-b))` on `uint64` is `(m >> b) mod 2^64` for `m = hi·2^64 + lo` -/
theorem seam_word (m b : Nat) (hb0 : 0 < b) (hb : b < 64) :
    (m % 2 ^ 64) / 2 ^ b ||| (m / 2 ^ 64 % 2 ^ 64) * 2 ^ (64 - b) % 2 ^ 64 = m / 2 ^ b % 2 ^ 64 := by
  have hs : 2 ^ 64 = 2 ^ (64 - b) * 2 ^ b := by rw [← pow_add]; congr 1; omega
  have hs' : 2 ^ 64 = 2 ^ b * 2 ^ (64 - b) := by rw [← pow_add]; congr 1; omega
  -- the shifted high word
  have hhi : (m / 2 ^ 64 % 2 ^ 64) * 2 ^ (64 - b) % 2 ^ 64 = 2 ^ (64 - b) * (m / 2 ^ 64 % 2 ^ b) := by
    conv => lhs; rw [Nat.mul_comm]; rhs; rw [hs]
    rw [Nat.mul_mod_mul_left]
    congr 1
    exact Nat.mod_mod_of_dvd _ (Nat.pow_dvd_pow 2 (by omega))
  -- the shifted low word
  have hlo : (m % 2 ^ 64) / 2 ^ b = m / 2 ^ b % 2 ^ (64 - b) := by
    conv => lhs; rw [hs']
    rw [Nat.mod_mul_right_div_self]
  have hlt : m / 2 ^ b % 2 ^ (64 - b) < 2 ^ (64 - b) := Nat.mod_lt _ (Nat.pow_pos (by decide))
  rw [hhi, hlo, Nat.or_comm, ← Nat.two_pow_add_eq_or_of_lt hlt]
  -- m / 2^b % 2^64 = m/2^b % 2^(64-b) + 2^(64-b) * (m / 2^b / 2^(64-b) % 2^b)
  conv => rhs; rw [hs, Nat.mod_mul]
  have : m / 2 ^ b / 2 ^ (64 - b) = m / 2 ^ 64 := by rw [Nat.div_div_eq_div_mul, ← hs']
  rw [this, Nat.add_comm]

/-- the NAF bit buffer: its low `w` bits are bits `pos .. pos+w-1` of `n` -/
theorem nafBitBuf_mod (n w pos : Nat) (hn : n < 2 ^ 256) (hw : w ≤ 8) (hpos : pos < 256) :
    nafBitBuf n w pos % 2 ^ w = n / 2 ^ pos % 2 ^ w := by
  unfold nafBitBuf
  simp only
  have hidx : pos / 64 ≤ 3 := by omega
  have hpos' : pos = 64 * (pos / 64) + pos % 64 := by omega
  have hdiv : n / 2 ^ pos = n / 2 ^ (64 * (pos / 64)) / 2 ^ (pos % 64) := by
    conv => lhs; rw [hpos']
    exact div_pow_add _ _ _
  rw [x5_eq n _ hn (by omega)]
  by_cases hb : pos % 64 < 64 - w
  · simp only [hb, if_true, shr64]
    rw [shr_word _ _ _ (by omega), hdiv]
  · simp only [hb, if_false, shr64, shl64]
    rw [x5_eq n _ hn (by omega)]
    have h1 : n / 2 ^ (64 * (1 + pos / 64)) = n / 2 ^ (64 * (pos / 64)) / 2 ^ 64 := by
      have : 64 * (1 + pos / 64) = 64 * (pos / 64) + 64 := by omega
      rw [this]; exact div_pow_add _ _ _
    rw [h1, seam_word _ _ (by omega) (by omega), hdiv]
    exact Nat.mod_mod_of_dvd _ (Nat.pow_dvd_pow 2 (by omega))

/-- the ToRadix2w bit buffer: same window (the `u64Idx == 3` shortcut reads the same bits) -/
theorem r2wBitBuf_mod (n w off : Nat) (hn : n < 2 ^ 256) (hw : w ≤ 8) (hoff : off < 256) :
    r2wBitBuf n w off % 2 ^ w = n / 2 ^ off % 2 ^ w := by
  rw [← nafBitBuf_mod n w off hn hw hoff]
  unfold r2wBitBuf nafBitBuf
  simp only
  have hidx : off / 64 ≤ 3 := by omega
  have hx : x5 n (off / 64) = word64 n (off / 64) := by simp [x5]; omega
  by_cases hb : off % 64 < 64 - w
  · simp [hb, hx]
  · by_cases h3 : off / 64 = 3
    · have h4 : x5 n 4 = 0 := by simp [x5]
      have h3x : x5 n 3 = word64 n 3 := by simp [x5]
      simp [hb, h3, h4, h3x, shl64]
    · have : x5 n (1 + off / 64) = word64 n (1 + off / 64) := by simp [x5]; omega
      simp [hb, h3, hx, this]

/-! ## `wrap8` -/

theorem wrap8_id (x : Int) (h1 : -128 ≤ x) (h2 : x < 128) : wrap8 x = x := by
  unfold wrap8; omega

end Voi.Props.C17
