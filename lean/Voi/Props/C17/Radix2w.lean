/-
C17, Scalar.ToRadix2w(w), w ∈ {6, 7, 8}, and ToRadix2wSizeHint.

  1. `r2wLoop_exact`: the code-shaped loop (64-bit word windows, `uint64` shift, `int8` conversion) equals
     `r2wLoopZ`, which reads bits `w·i .. w·i+w-1` of `n` directly and stores `coef - carry'·2^w` over ℤ.
  2. `R2wInv`: loop invariant (value, ranges, zero tail, and the fate of the last carry).
  3. `r2wTerminal_spec`: the terminal-carry placement.
-/
import Voi.Props.C17.Basic
import Mathlib.Tactic.LinearCombination

namespace Voi.Props.C17
open Voi.Model.Recoding

set_option exponentiation.threshold 1024

/-- the ToRadix2w main loop over unbounded integers -/
def r2wLoopZ (n w : Nat) : (fuel i carry : Nat) → Array Int → Array Int × Nat
  | 0, _, carry, digits => (digits, carry)
  | fuel + 1, i, carry, digits =>
    let coef := carry + n / 2 ^ (i * w) % 2 ^ w
    let carry' := (coef + 2 ^ w / 2) / 2 ^ w
    r2wLoopZ n w fuel (i + 1) carry' (digits.setIfInBounds i ((coef : Int) - (carry' : Int) * 2 ^ w))

/-- terminal carry over unbounded integers -/
def r2wTerminalZ (w : Nat) (digits : Array Int) (carry : Nat) : Array Int :=
  let dc := digitsCount w
  if w = 8 then digits.setIfInBounds dc (digits.getD dc 0 + (carry : Int))
  else digits.setIfInBounds (dc - 1) (digits.getD (dc - 1) 0 + (carry : Int) * 2 ^ w)

theorem digitsCount_6 : digitsCount 6 = 43 := rfl
theorem digitsCount_7 : digitsCount 7 = 37 := rfl
theorem digitsCount_8 : digitsCount 8 = 32 := rfl

/-- every window starts below bit 256 -/
theorem r2w_off_lt (w i : Nat) (hw : w = 6 ∨ w = 7 ∨ w = 8) (hi : i < digitsCount w) : i * w < 256 := by
  rcases hw with rfl | rfl | rfl
  · rw [digitsCount_6] at hi; omega
  · rw [digitsCount_7] at hi; omega
  · rw [digitsCount_8] at hi; omega

/-- one digit: the `uint64` shift does not drop bits and the `int8` conversion is the identity -/
theorem r2w_digit (w coef : Nat) (hw : w = 6 ∨ w = 7 ∨ w = 8) (hc : coef ≤ 2 ^ w) :
    let carry' := shr64 (coef + 2 ^ w / 2) w
    carry' = (coef + 2 ^ w / 2) / 2 ^ w ∧ carry' ≤ 1 ∧
    wrap8 (Int.ofNat coef - Int.ofNat (shl64 carry' w)) = (coef : Int) - (carry' : Int) * 2 ^ w ∧
    -(2 ^ (w - 1) : Int) ≤ (coef : Int) - (carry' : Int) * 2 ^ w ∧
    (coef : Int) - (carry' : Int) * 2 ^ w < 2 ^ (w - 1) := by
  intro carry'
  have h1 : carry' = (coef + 2 ^ w / 2) / 2 ^ w := rfl
  rcases hw with rfl | rfl | rfl <;>
  · have h2 : carry' ≤ 1 := by rw [h1]; omega
    refine ⟨h1, h2, ?_, ?_, ?_⟩
    · simp only [wrap8, shl64, Int.ofNat_eq_natCast]; omega
    · omega
    · omega

theorem r2wLoop_exact (n w : Nat) (hn : n < 2 ^ 256) (hw : w = 6 ∨ w = 7 ∨ w = 8) :
    ∀ (fuel i carry : Nat) (digits : Array Int), i + fuel = digitsCount w → carry ≤ 1 →
      r2wLoop n w fuel i carry digits = r2wLoopZ n w fuel i carry digits
  | 0, _, _, _, _, _ => rfl
  | fuel + 1, i, carry, digits, hf, hc => by
    unfold r2wLoop r2wLoopZ
    have hw8 : w ≤ 8 := by omega
    rw [r2wBitBuf_mod n w (i * w) hn hw8 (r2w_off_lt w i hw (by omega))]
    have hv : n / 2 ^ (i * w) % 2 ^ w < 2 ^ w := Nat.mod_lt _ (Nat.pow_pos (by decide))
    obtain ⟨h1, h2, h3, _, _⟩ := r2w_digit w (carry + n / 2 ^ (i * w) % 2 ^ w) hw (by omega)
    simp only at h1 h2 h3 ⊢
    rw [h3, h1]
    exact r2wLoop_exact n w hn hw fuel (i + 1) _ _ (by omega) (by rw [← h1]; exact h2)

/-! ## Loop invariant -/

structure R2wInv (n w i carry : Nat) (digits : Array Int) : Prop where
  size : digits.size = 43
  carry_le : carry ≤ 1
  /-- nothing has been written at or above `i` -/
  rest : ∀ j, i ≤ j → dig digits j = 0
  /-- every digit written by the loop is balanced -/
  range : ∀ j, j < i → -(2 ^ (w - 1) : Int) ≤ dig digits j ∧ dig digits j < 2 ^ (w - 1)
  /-- Σ_{j<i} d_j·2^(w·j) + carry·2^(w·i) = n mod 2^(w·i) -/
  value : sumD w (dig digits) 43 + (carry : Int) * 2 ^ (w * i) = ((n % 2 ^ (w * i) : Nat) : Int)
  /-- w = 6, 7: the last window holds bits 252.. only, so the last digit is small and non-negative and
      there is no carry out of the loop -/
  last : w ≠ 8 → i = digitsCount w →
    carry = 0 ∧ 0 ≤ dig digits (i - 1) ∧ dig digits (i - 1) ≤ ((n / 2 ^ 252 : Nat) : Int) + 1

theorem r2wInv_init (n w : Nat) (hw : w = 6 ∨ w = 7 ∨ w = 8) : R2wInv n w 0 0 (Array.replicate 43 0) where
  size := by simp
  carry_le := by omega
  rest := fun j _ => dig_replicate 43 j
  range := fun j hj => by omega
  value := by rw [sumD_zero w _ 43 (fun i _ => dig_replicate 43 i)]; simp [Nat.mod_one]
  last := fun _ h => by rcases hw with rfl | rfl | rfl <;> simp [digitsCount] at h

theorem r2wInv_step (n w i carry : Nat) (digits : Array Int) (hn : n < 2 ^ 256)
    (hw : w = 6 ∨ w = 7 ∨ w = 8) (hi : i < digitsCount w) (h : R2wInv n w i carry digits) :
    let coef := carry + n / 2 ^ (i * w) % 2 ^ w
    let carry' := (coef + 2 ^ w / 2) / 2 ^ w
    R2wInv n w (i + 1) carry' (digits.setIfInBounds i ((coef : Int) - (carry' : Int) * 2 ^ w)) := by
  intro coef carry'
  have hc := h.carry_le
  have hv : n / 2 ^ (i * w) % 2 ^ w < 2 ^ w := Nat.mod_lt _ (Nat.pow_pos (by decide))
  obtain ⟨h1, h2, _, h4, h5⟩ := r2w_digit w coef hw (by simp only [coef]; omega)
  have hcarry : shr64 (coef + 2 ^ w / 2) w = carry' := h1
  rw [hcarry] at h2 h4 h5
  have hdc : digitsCount w ≤ 43 := by rcases hw with rfl | rfl | rfl <;> decide
  have hsz : i < digits.size := by rw [h.size]; omega
  have hzero : dig digits i = 0 := h.rest i (Nat.le_refl _)
  refine ⟨by simp [h.size], h2, ?_, ?_, ?_, ?_⟩
  · intro j hj
    rw [dig_set_ne _ _ _ _ (by omega)]; exact h.rest j (by omega)
  · intro j hj
    by_cases hji : j = i
    · subst hji; rw [dig_set_self _ _ _ hsz]; exact ⟨h4, h5⟩
    · rw [dig_set_ne _ _ _ _ hji]; exact h.range j (by omega)
  · rw [sumD_set w digits i _ 43 hsz (by omega), hzero]
    have hsplit : ((n % 2 ^ (w * (i + 1)) : Nat) : Int)
        = ((n % 2 ^ (w * i) : Nat) : Int) + 2 ^ (w * i) * ((n / 2 ^ (i * w) % 2 ^ w : Nat) : Int) := by
      rw [show w * (i + 1) = w * i + w by ring, mod_pow_add, Nat.mul_comm i w]; push_cast; ring
    have hpow : (2 : Int) ^ (w * (i + 1)) = 2 ^ (w * i) * 2 ^ w := by
      rw [show w * (i + 1) = w * i + w by ring, pow_add]
    have hcoef : (coef : Int) = (carry : Int) + ((n / 2 ^ (i * w) % 2 ^ w : Nat) : Int) := by
      simp [coef]
    rw [hsplit, hpow]
    linear_combination h.value + (2 : Int) ^ (w * i) * hcoef
  · intro hw8 hlast
    -- last iteration for w = 6, 7: the window starts at bit 252
    have hoff : i * w = 252 := by
      rcases hw with rfl | rfl | rfl
      · rw [digitsCount_6] at hlast; omega
      · rw [digitsCount_7] at hlast; omega
      · exact absurd rfl hw8
    have hq : n / 2 ^ 252 < 16 := Nat.div_lt_of_lt_mul (by omega)
    have hvv : n / 2 ^ (i * w) % 2 ^ w = n / 2 ^ 252 := by
      rw [hoff]; apply Nat.mod_eq_of_lt
      rcases hw with rfl | rfl | rfl <;> omega
    have hcoef : coef = carry + n / 2 ^ 252 := by simp only [coef, hvv]
    have hc0 : carry' = 0 := by
      simp only [carry', hcoef]
      rcases hw with rfl | rfl | rfl <;> omega
    rw [Nat.add_sub_cancel, dig_set_self _ _ _ hsz, hc0, hcoef]
    refine ⟨rfl, by omega, ?_⟩
    push_cast; omega

theorem r2wLoopZ_inv (n w : Nat) (hn : n < 2 ^ 256) (hw : w = 6 ∨ w = 7 ∨ w = 8) :
    ∀ (fuel i carry : Nat) (digits : Array Int), i + fuel = digitsCount w → R2wInv n w i carry digits →
      R2wInv n w (digitsCount w) (r2wLoopZ n w fuel i carry digits).2 (r2wLoopZ n w fuel i carry digits).1
  | 0, i, carry, digits, hf, h => by
    have : i = digitsCount w := by omega
    subst this; exact h
  | fuel + 1, i, carry, digits, hf, h => by
    unfold r2wLoopZ
    exact r2wLoopZ_inv n w hn hw fuel (i + 1) _ _ (by omega)
      (r2wInv_step n w i carry digits hn hw (by omega) h)

/-! ## Terminal carry and the final result -/

/-- index of the digit that receives the terminal carry -/
def terminalIdx (w : Nat) : Nat := if w = 8 then digitsCount w else digitsCount w - 1

/-- the facts about the returned array -/
structure R2wFinal (n w : Nat) (a : Array Int) : Prop where
  size : a.size = 43
  value : sumD w (dig a) 43 = (n : Int)
  interior : ∀ j, j < terminalIdx w → -(2 ^ (w - 1) : Int) ≤ dig a j ∧ dig a j < 2 ^ (w - 1)
  terminal : 0 ≤ dig a (terminalIdx w) ∧
    dig a (terminalIdx w) ≤ (if w = 8 then 1 else ((n / 2 ^ 252 : Nat) : Int) + 1)
  beyond : ∀ j, terminalIdx w < j → dig a j = 0

theorem r2wTerminal_spec (n w carry : Nat) (digits : Array Int) (hn : n < 2 ^ 256)
    (hw : w = 6 ∨ w = 7 ∨ w = 8) (h : R2wInv n w (digitsCount w) carry digits) :
    r2wTerminal w digits carry = r2wTerminalZ w digits carry ∧
    R2wFinal n w (r2wTerminalZ w digits carry) := by
  have hc := h.carry_le
  have hq : n / 2 ^ 252 < 16 := Nat.div_lt_of_lt_mul (by omega)
  by_cases hw8 : w = 8
  · subst hw8
    have hz : digits.getD (digitsCount 8) 0 = 0 := h.rest _ (Nat.le_refl _)
    have hsz : digitsCount 8 < digits.size := by rw [h.size, digitsCount_8]; omega
    have hmod : n % 2 ^ (8 * digitsCount 8) = n := Nat.mod_eq_of_lt (by rw [digitsCount_8]; exact hn)
    constructor
    · unfold r2wTerminal r2wTerminalZ
      simp only [if_true, hz, Int.ofNat_eq_natCast]
      rw [wrap8_id (carry : Int) (by omega) (by omega), wrap8_id _ (by omega) (by omega)]
    · unfold r2wTerminalZ
      simp only [if_true, hz]
      refine ⟨by simp [h.size], ?_, ?_, ?_, ?_⟩
      · rw [sumD_set 8 digits _ _ 43 hsz (by rw [digitsCount_8]; omega)]
        have : dig digits (digitsCount 8) = 0 := hz
        rw [this]
        have hv := h.value
        rw [hmod] at hv
        linear_combination hv
      · intro j hj
        simp only [terminalIdx, if_true] at hj
        rw [dig_set_ne _ _ _ _ (by omega)]; exact h.range j hj
      · simp only [terminalIdx, if_true]
        rw [dig_set_self _ _ _ hsz]; omega
      · intro j hj
        simp only [terminalIdx, if_true] at hj
        rw [dig_set_ne _ _ _ _ (by omega)]; exact h.rest j (by omega)
  · obtain ⟨hc0, hl1, hl2⟩ := h.last hw8 rfl
    subst hc0
    have hdc : 1 ≤ digitsCount w ∧ digitsCount w ≤ 43 ∧ 256 ≤ w * digitsCount w := by
      rcases hw with rfl | rfl | rfl <;> decide
    have hsz : digitsCount w - 1 < digits.size := by rw [h.size]; omega
    have hmod : n % 2 ^ (w * digitsCount w) = n :=
      Nat.mod_eq_of_lt (Nat.lt_of_lt_of_le hn (Nat.pow_le_pow_right (by decide) hdc.2.2))
    have hx : digits.getD (digitsCount w - 1) 0 = dig digits (digitsCount w - 1) := rfl
    constructor
    · unfold r2wTerminal r2wTerminalZ
      simp only [hw8, if_false, shl64, Nat.zero_mul, Nat.zero_mod, Int.ofNat_eq_natCast, hx]
      rw [wrap8_id ((0 : Nat) : Int) (by omega) (by omega)]
      simp only [Nat.cast_zero, Int.add_zero, Int.zero_mul]
      rw [wrap8_id _ (by omega) (by omega)]
    · unfold r2wTerminalZ
      simp only [hw8, if_false, hx, Nat.cast_zero, Int.zero_mul, Int.add_zero]
      refine ⟨by simp [h.size], ?_, ?_, ?_, ?_⟩
      · rw [sumD_set w digits _ _ 43 hsz (by omega)]
        have hv := h.value
        rw [hmod] at hv
        linear_combination hv
      · intro j hj
        simp only [terminalIdx, hw8, if_false] at hj
        rw [dig_set_ne _ _ _ _ (by omega)]; exact h.range j (by omega)
      · simp only [terminalIdx, hw8, if_false]
        rw [dig_set_self _ _ _ hsz]; exact ⟨hl1, hl2⟩
      · intro j hj
        simp only [terminalIdx, hw8, if_false] at hj
        rw [dig_set_ne _ _ _ _ (by omega)]; exact h.rest j (by omega)

/-- the ToRadix2w array of `n` (for a valid width) -/
def radix2w (w n : Nat) : Array Int :=
  let r := r2wLoop n w (digitsCount w) 0 0 (Array.replicate 43 0)
  r2wTerminal w r.1 r.2

/-- the same over unbounded integers (no word extraction, no `uint64`/`int8` truncation) -/
def radix2wZ (w n : Nat) : Array Int :=
  let r := r2wLoopZ n w (digitsCount w) 0 0 (Array.replicate 43 0)
  r2wTerminalZ w r.1 r.2

theorem toRadix2w_eq (w n : Nat) (hw : w = 6 ∨ w = 7 ∨ w = 8) : toRadix2w w n = some (radix2w w n) := by
  unfold toRadix2w radix2w toRadix2wSizeHint
  rcases hw with rfl | rfl | rfl <;> simp

theorem radix2w_exact_final (w n : Nat) (hw : w = 6 ∨ w = 7 ∨ w = 8) (hn : n < 2 ^ 256) :
    radix2w w n = radix2wZ w n ∧ R2wFinal n w (radix2w w n) := by
  unfold radix2w radix2wZ
  simp only
  rw [r2wLoop_exact n w hn hw _ 0 0 _ (by omega) (by omega)]
  have hinv := r2wLoopZ_inv n w hn hw (digitsCount w) 0 0 _ (by omega) (r2wInv_init n w hw)
  obtain ⟨he, hfin⟩ := r2wTerminal_spec n w _ _ hn hw hinv
  rw [he]
  exact ⟨rfl, hfin⟩

end Voi.Props.C17
