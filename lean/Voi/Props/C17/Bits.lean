/-
C17, Scalar.Bits: the 256 output bytes are the binary digits of the scalar.
-/
import Voi.Props.C17.Basic

namespace Voi.Props.C17
open Voi.Model.Recoding

set_option exponentiation.threshold 1024

/-- `(s.inner[i>>3] >> (i&7)) & 1` is bit `i` of `n` -/
theorem bit_extract (n i : Nat) : byteAt n (i / 8) / 2 ^ (i % 8) % 2 = n / 2 ^ i % 2 := by
  unfold byteAt
  have hi : i = 8 * (i / 8) + i % 8 := by omega
  have hdiv : n / 2 ^ i = n / 2 ^ (8 * (i / 8)) / 2 ^ (i % 8) := by
    conv => lhs; rw [hi]
    exact div_pow_add _ _ _
  rw [hdiv]
  generalize n / 2 ^ (8 * (i / 8)) = m
  have hr : i % 8 < 8 := Nat.mod_lt _ (by decide)
  generalize i % 8 = r at hr
  interval_cases r <;> omega

/-- loop invariant of `bitsLoop` at position `i` -/
structure BitsInv (n i : Nat) (out : Array Int) : Prop where
  size : out.size = 256
  done : ∀ j, j < i → dig out j = ((n / 2 ^ j % 2 : Nat) : Int)
  rest : ∀ j, i ≤ j → dig out j = 0

theorem bitsLoop_inv (n : Nat) : ∀ (fuel i : Nat) (out : Array Int),
    i + fuel = 256 → BitsInv n i out → BitsInv n 256 (bitsLoop n fuel i out)
  | 0, i, out, hf, h => by
    have : i = 256 := by omega
    subst this; exact h
  | fuel + 1, i, out, hf, h => by
    unfold bitsLoop
    apply bitsLoop_inv n fuel (i + 1) _ (by omega)
    have hi : i < out.size := by rw [h.size]; omega
    refine ⟨by simp [h.size], ?_, ?_⟩
    · intro j hj
      by_cases hji : j = i
      · subst hji
        rw [dig_set_self _ _ _ hi, bit_extract]; rfl
      · rw [dig_set_ne _ _ _ _ hji]; exact h.done j (by omega)
    · intro j hj
      rw [dig_set_ne _ _ _ _ (by omega)]; exact h.rest j (by omega)

theorem bits_inv (n : Nat) : BitsInv n 256 (bits n) := by
  unfold bits
  apply bitsLoop_inv n 256 0 _ rfl
  exact ⟨by simp, fun j hj => by omega, fun j _ => dig_replicate 256 j⟩

/-- every output bit is the corresponding binary digit of `n` -/
theorem bits_digit (n i : Nat) (hi : i < 256) : dig (bits n) i = ((n / 2 ^ i % 2 : Nat) : Int) :=
  (bits_inv n).done i hi

theorem bits_size (n : Nat) : (bits n).size = 256 := (bits_inv n).size

/-- for *every* `n` the bits reconstruct `n mod 2^256` -/
theorem bits_sum (n : Nat) : sumD 1 (dig (bits n)) 256 = ((n % 2 ^ 256 : Nat) : Int) := by
  have := sumD_digits 1 n 256
  simp only [Nat.one_mul, pow_one] at this
  rw [← this]
  apply sumD_congr
  intro i hi
  exact bits_digit n i hi

end Voi.Props.C17
