/-
C17, Scalar.NonAdjacentForm(w), 2 ≤ w ≤ 8.

  1. `nafLoop_exact`: the code-shaped loop (64-bit word windows, `int8` arithmetic) computes the same array
     as `nafLoopZ`, which reads bits `pos..pos+w-1` of `n` directly and stores the mathematical digit
     (`window` resp. `window - 2^w`) without any wrap-around.
  2. `NafInv`: the loop invariant (value, zero tail, digit shape, spacing, final carry).
-/
import Voi.Props.C17.Basic
import Mathlib.Tactic.LinearCombination

namespace Voi.Props.C17
open Voi.Model.Recoding

set_option exponentiation.threshold 1024

/-- `NonAdjacentForm` loop over unbounded integers: no word extraction, no `int8`. -/
def nafLoopZ (n w : Nat) : (fuel pos carry : Nat) → Array Int → Array Int
  | 0, _, _, naf => naf
  | fuel + 1, pos, carry, naf =>
    if pos < 256 then
      let window := carry + n / 2 ^ pos % 2 ^ w
      if window % 2 = 0 then nafLoopZ n w fuel (pos + 1) carry naf
      else if window < 2 ^ w / 2 then
        nafLoopZ n w fuel (pos + w) 0 (naf.setIfInBounds pos ((window : Nat) : Int))
      else
        nafLoopZ n w fuel (pos + w) 1 (naf.setIfInBounds pos (((window : Nat) : Int) - 2 ^ w))
    else naf

/-! ## The `int8` conversions store the mathematical digit -/

/-- `naf[pos] = int8(window)` for a small window -/
theorem naf_digit_small (w window : Nat) (hw : 2 ≤ w ∧ w ≤ 8) (h : window < 2 ^ w / 2) :
    wrap8 (window : Int) = (window : Int) := by
  obtain ⟨h2, h8⟩ := hw
  unfold wrap8
  interval_cases w <;> omega

/-- `naf[pos] = int8(window) - int8(width)` for a large window.  The individual conversions may wrap
    (`int8(128) = -128` for w = 7, `int8(256) = 0` and `int8(window) = window - 256` for w = 8), the
    stored digit is nevertheless exactly `window - 2^w`. -/
theorem naf_digit_big (w window : Nat) (hw : 2 ≤ w ∧ w ≤ 8) (hodd : window % 2 = 1)
    (hle : window ≤ 2 ^ w) (hge : ¬ window < 2 ^ w / 2) :
    wrap8 (wrap8 (window : Int) - wrap8 (Int.ofNat (2 ^ w))) = (window : Int) - 2 ^ w := by
  obtain ⟨h2, h8⟩ := hw
  unfold wrap8
  interval_cases w <;> simp only [Int.ofNat_eq_natCast] <;> norm_num <;> omega

theorem nafLoop_exact (n w : Nat) (hn : n < 2 ^ 256) (hw : 2 ≤ w ∧ w ≤ 8) :
    ∀ (fuel pos carry : Nat) (naf : Array Int), carry ≤ 1 →
      nafLoop n w fuel pos carry naf = nafLoopZ n w fuel pos carry naf
  | 0, _, _, _, _ => rfl
  | fuel + 1, pos, carry, naf, hc => by
    unfold nafLoop nafLoopZ
    by_cases hpos : pos < 256
    · simp only [hpos, if_true]
      rw [nafBitBuf_mod n w pos hn hw.2 hpos]
      have hv : n / 2 ^ pos % 2 ^ w < 2 ^ w := Nat.mod_lt _ (Nat.pow_pos (by decide))
      by_cases heven : (carry + n / 2 ^ pos % 2 ^ w) % 2 = 0
      · simp only [heven, if_true]
        exact nafLoop_exact n w hn hw fuel _ _ _ hc
      · simp only [heven, if_false]
        by_cases hsmall : carry + n / 2 ^ pos % 2 ^ w < 2 ^ w / 2
        · simp only [hsmall, if_true]
          rw [naf_digit_small w _ hw hsmall]
          exact nafLoop_exact n w hn hw fuel _ _ _ (by omega)
        · simp only [hsmall, if_false]
          rw [naf_digit_big w _ hw (by omega) (by omega) hsmall]
          exact nafLoop_exact n w hn hw fuel _ _ _ (by omega)
    · simp only [hpos, if_false]

/-! ## Loop invariant -/

/-- invariant of the NAF loop at `(pos, carry, naf)` for the scalar `n` -/
structure NafInv (n w pos carry : Nat) (naf : Array Int) : Prop where
  size : naf.size = 256
  carry_le : carry ≤ 1
  /-- once the loop has left the array the carry has been consumed (needs `n < 2^255`) -/
  carry_end : 256 ≤ pos → carry = 0
  /-- nothing has been written at or above `pos` -/
  rest : ∀ j, pos ≤ j → dig naf j = 0
  /-- Σ_{j<pos} naf[j]·2^j + carry·2^pos = n mod 2^pos -/
  value : sumD 1 (dig naf) 256 + (carry : Int) * 2 ^ pos = ((n % 2 ^ pos : Nat) : Int)
  /-- every non-zero digit is odd, below 2^(w-1) in magnitude, and followed by w-1 zeros -/
  shape : ∀ i, dig naf i ≠ 0 →
    i + w ≤ pos ∧ dig naf i % 2 = 1 ∧ -(2 ^ (w - 1) : Int) < dig naf i ∧ dig naf i < 2 ^ (w - 1) ∧
      ∀ j, i < j → j < i + w → dig naf j = 0

theorem nafInv_init (n w : Nat) : NafInv n w 0 0 (Array.replicate 256 0) where
  size := by simp
  carry_le := by omega
  carry_end := by omega
  rest := fun j _ => dig_replicate 256 j
  value := by
    rw [sumD_zero 1 _ 256 (fun i _ => dig_replicate 256 i)]; simp [Nat.mod_one]
  shape := fun i hi => absurd (dig_replicate 256 i) hi

/-- even window: `pos += 1`, carry preserved -/
theorem nafInv_even (n w pos carry : Nat) (naf : Array Int) (hn : n < 2 ^ 255) (hw : 2 ≤ w ∧ w ≤ 8)
    (hpos : pos < 256) (h : NafInv n w pos carry naf)
    (heven : (carry + n / 2 ^ pos % 2 ^ w) % 2 = 0) : NafInv n w (pos + 1) carry naf := by
  have hc := h.carry_le
  -- the low bit of the window is the low bit of the scalar at `pos`
  have hbit : n / 2 ^ pos % 2 ^ w % 2 = n / 2 ^ pos % 2 :=
    Nat.mod_mod_of_dvd _ (dvd_pow_self 2 (by omega))
  have hb : n / 2 ^ pos % 2 = carry := by omega
  refine ⟨h.size, hc, ?_, fun j hj => h.rest j (by omega), ?_, ?_⟩
  · intro hp
    have hp' : pos = 255 := by omega
    have : n / 2 ^ pos = 0 := by rw [hp']; exact Nat.div_eq_of_lt hn
    rw [this] at hb; omega
  · have hv := h.value
    rw [mod_pow_add n pos 1, pow_one, hb]
    push_cast at hv ⊢
    rw [pow_succ]
    linear_combination hv
  · intro i hi
    obtain ⟨h1, h2⟩ := h.shape i hi
    exact ⟨by omega, h2⟩

/-- odd window: a digit is stored at `pos`, `pos += w` -/
theorem nafInv_odd (n w pos carry : Nat) (naf : Array Int) (hn : n < 2 ^ 255) (hw : 2 ≤ w ∧ w ≤ 8)
    (hpos : pos < 256) (h : NafInv n w pos carry naf)
    (hodd : ¬ (carry + n / 2 ^ pos % 2 ^ w) % 2 = 0) :
    let window := carry + n / 2 ^ pos % 2 ^ w
    (window < 2 ^ w / 2 → NafInv n w (pos + w) 0 (naf.setIfInBounds pos ((window : Nat) : Int))) ∧
    (¬ window < 2 ^ w / 2 →
      NafInv n w (pos + w) 1 (naf.setIfInBounds pos (((window : Nat) : Int) - 2 ^ w))) := by
  intro window
  have hc := h.carry_le
  have hsz : pos < naf.size := by rw [h.size]; exact hpos
  have hv : n / 2 ^ pos % 2 ^ w < 2 ^ w := Nat.mod_lt _ (Nat.pow_pos (by decide))
  have hzero : dig naf pos = 0 := h.rest pos (Nat.le_refl _)
  have hW : (2 : Nat) ^ w = 2 * 2 ^ (w - 1) := by
    rw [← pow_succ']; congr 1; omega
  have hH : 2 ≤ 2 ^ (w - 1) ∧ 2 ^ (w - 1) % 2 = 0 := by
    obtain ⟨h2, h8⟩ := hw
    interval_cases w <;> simp
  have hWi : (2 : Int) ^ w = 2 * 2 ^ (w - 1) := by exact_mod_cast hW
  have hsplit : ((n % 2 ^ (pos + w) : Nat) : Int)
      = ((n % 2 ^ pos : Nat) : Int) + 2 ^ pos * ((n / 2 ^ pos % 2 ^ w : Nat) : Int) := by
    rw [mod_pow_add]; push_cast; ring
  -- properties shared by both branches, for an arbitrary stored digit `d`
  have common : ∀ (d : Int) (c' : Nat), c' ≤ 1 → (256 ≤ pos + w → c' = 0) →
      d + (c' : Int) * 2 ^ w = (window : Int) → d % 2 = 1 →
      -(2 ^ (w - 1) : Int) < d → d < 2 ^ (w - 1) →
      NafInv n w (pos + w) c' (naf.setIfInBounds pos d) := by
    intro d c' hc' hend hd hdodd hdlo hdhi
    refine ⟨by simp [h.size], hc', hend, ?_, ?_, ?_⟩
    · intro j hj
      rw [dig_set_ne _ _ _ _ (by omega)]; exact h.rest j (by omega)
    · rw [sumD_set 1 naf pos d 256 hsz hpos, hzero, hsplit, pow_add]
      have hv := h.value
      have hwin : (window : Int) = (carry : Int) + ((n / 2 ^ pos % 2 ^ w : Nat) : Int) := by
        simp [window]
      rw [Nat.one_mul]
      linear_combination hv + (2 : Int) ^ pos * hd + (2 : Int) ^ pos * hwin
    · intro i hi
      by_cases hip : i = pos
      · subst hip
        rw [dig_set_self _ _ _ hsz] at hi ⊢
        refine ⟨Nat.le_refl _, hdodd, hdlo, hdhi, ?_⟩
        intro j hj1 hj2
        rw [dig_set_ne _ _ _ _ (by omega)]; exact h.rest j (by omega)
      · rw [dig_set_ne _ _ _ _ hip] at hi ⊢
        obtain ⟨h1, h2, h3, h4, h5⟩ := h.shape i hi
        refine ⟨by omega, h2, h3, h4, ?_⟩
        intro j hj1 hj2
        rw [dig_set_ne _ _ _ _ (by omega)]; exact h5 j hj1 hj2
  -- near the top of the array the remaining bits of the scalar are small (n < 2^255)
  have htop : 256 ≤ pos + w → n / 2 ^ pos < 2 ^ (w - 1) := fun hp =>
    div_pow_lt n 255 pos (w - 1) hn (by omega)
  constructor
  · intro hsmall
    apply common _ 0 (by omega) (fun _ => rfl)
    · simp
    · omega
    · have : (0 : Int) ≤ (window : Int) := Int.natCast_nonneg _
      have : (0 : Int) < 2 ^ (w - 1) := by positivity
      omega
    · have : window < 2 ^ (w - 1) := by omega
      exact_mod_cast this
  · intro hbig
    apply common _ 1 (by omega)
    · intro hp
      exfalso
      have := htop hp
      have hmod : n / 2 ^ pos % 2 ^ w = n / 2 ^ pos := Nat.mod_eq_of_lt (by omega)
      omega
    · push_cast; ring
    · rw [hWi]; omega
    · have h1 : 2 ^ (w - 1) + 1 ≤ window := by omega
      have h1' : ((2 ^ (w - 1) + 1 : Nat) : Int) ≤ (window : Int) := by exact_mod_cast h1
      push_cast at h1'
      rw [hWi]; linarith
    · have h1 : window ≤ 2 ^ w := by omega
      have h1' : (window : Int) ≤ ((2 ^ w : Nat) : Int) := by exact_mod_cast h1
      push_cast at h1'
      have : (0 : Int) < 2 ^ (w - 1) := by positivity
      linarith

/-- the whole loop: from any state satisfying the invariant with enough fuel to reach position 256,
    the result satisfies the invariant at a position ≥ 256 (hence with carry 0). -/
theorem nafLoopZ_inv (n w : Nat) (hn : n < 2 ^ 255) (hw : 2 ≤ w ∧ w ≤ 8) :
    ∀ (fuel pos carry : Nat) (naf : Array Int), 256 ≤ pos + fuel → NafInv n w pos carry naf →
      ∃ pos', 256 ≤ pos' ∧ NafInv n w pos' 0 (nafLoopZ n w fuel pos carry naf)
  | 0, pos, carry, naf, hf, h => by
    have hp : 256 ≤ pos := by omega
    have hc := h.carry_end hp
    subst hc
    exact ⟨pos, hp, h⟩
  | fuel + 1, pos, carry, naf, hf, h => by
    unfold nafLoopZ
    by_cases hpos : pos < 256
    · simp only [hpos, if_true]
      by_cases heven : (carry + n / 2 ^ pos % 2 ^ w) % 2 = 0
      · simp only [heven, if_true]
        exact nafLoopZ_inv n w hn hw fuel _ _ _ (by omega) (nafInv_even n w pos carry naf hn hw hpos h heven)
      · simp only [heven, if_false]
        have hstep := nafInv_odd n w pos carry naf hn hw hpos h heven
        by_cases hsmall : carry + n / 2 ^ pos % 2 ^ w < 2 ^ w / 2
        · simp only [hsmall, if_true]
          exact nafLoopZ_inv n w hn hw fuel _ _ _ (by omega) (hstep.1 hsmall)
        · simp only [hsmall, if_false]
          exact nafLoopZ_inv n w hn hw fuel _ _ _ (by omega) (hstep.2 hsmall)
    · simp only [hpos, if_false]
      have hp : 256 ≤ pos := by omega
      have hc := h.carry_end hp
      subst hc
      exact ⟨pos, hp, h⟩

/-- the NAF array of `n` (for a valid width) -/
def naf (w n : Nat) : Array Int := nafLoop n w 256 0 0 (Array.replicate 256 0)

theorem nonAdjacentForm_eq (w n : Nat) (hw : 2 ≤ w ∧ w ≤ 8) : nonAdjacentForm w n = some (naf w n) := by
  unfold nonAdjacentForm naf
  have : ¬ (w < 2 ∨ w > 8) := by omega
  simp [this]

/-- the code-shaped loop stores exactly the unbounded-integer digits -/
theorem naf_exact (w n : Nat) (hw : 2 ≤ w ∧ w ≤ 8) (hn : n < 2 ^ 256) :
    naf w n = nafLoopZ n w 256 0 0 (Array.replicate 256 0) :=
  nafLoop_exact n w hn hw 256 0 0 _ (by omega)

theorem naf_inv (w n : Nat) (hw : 2 ≤ w ∧ w ≤ 8) (hn : n < 2 ^ 255) :
    ∃ pos', 256 ≤ pos' ∧ NafInv n w pos' 0 (naf w n) := by
  rw [naf_exact w n hw (by omega)]
  exact nafLoopZ_inv n w hn hw 256 0 0 _ (by omega) (nafInv_init n w)

end Voi.Props.C17
