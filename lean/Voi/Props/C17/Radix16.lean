/-
C17, Scalar.ToRadix16.

Step 1 (`nibbleLoop`) writes the 64 nibbles of the 32 bytes; step 2 (`recenterLoop`) pushes a carry through
positions 0..62.  No `int8` conversion ever changes a value, for *any* input (`R16Inv`, `recenterLoop_exact`).
The value theorem therefore holds for every `n` (the result reconstructs `n mod 2^256`); only the range of
the last digit depends on the size of the scalar: `[0, 8]` below 2^255, `[0, 16]` in general.
-/
import Voi.Props.C17.Basic
import Mathlib.Tactic.LinearCombination

namespace Voi.Props.C17
open Voi.Model.Recoding

set_option exponentiation.threshold 1024

/-- nibble `k` of `n` -/
def nib (n k : Nat) : Nat := n / 2 ^ (4 * k) % 2 ^ 4

theorem nib_lt (n k : Nat) : nib n k < 16 := Nat.mod_lt _ (by decide)

theorem nib_lo (n i : Nat) : byteAt n i / 2 ^ 0 % 16 = nib n (2 * i) := by
  unfold byteAt nib
  have : 4 * (2 * i) = 8 * i := by omega
  rw [this]
  generalize n / 2 ^ (8 * i) = m
  omega

theorem nib_hi (n i : Nat) : byteAt n i / 2 ^ 4 % 16 = nib n (2 * i + 1) := by
  unfold byteAt nib
  have : 4 * (2 * i + 1) = 8 * i + 4 := by omega
  rw [this, div_pow_add]
  generalize n / 2 ^ (8 * i) = m
  omega

/-! ## Step 1 -/

structure NibInv (n i : Nat) (out : Array Int) : Prop where
  size : out.size = 64
  done : ∀ k, k < 2 * i → dig out k = (nib n k : Int)
  rest : ∀ k, 2 * i ≤ k → dig out k = 0

theorem nibbleLoop_inv (n : Nat) : ∀ (fuel i : Nat) (out : Array Int),
    i + fuel = 32 → NibInv n i out → NibInv n 32 (nibbleLoop n fuel i out)
  | 0, i, out, hf, h => by
    have : i = 32 := by omega
    subst this; exact h
  | fuel + 1, i, out, hf, h => by
    unfold nibbleLoop
    apply nibbleLoop_inv n fuel (i + 1) _ (by omega)
    have h0 : 2 * i < out.size := by rw [h.size]; omega
    have h1 : 2 * i + 1 < (out.setIfInBounds (2 * i) (wrap8 (Int.ofNat (byteAt n i / 2 ^ 0 % 16)))).size := by
      simp [h.size]; omega
    have hlo : wrap8 (Int.ofNat (byteAt n i / 2 ^ 0 % 16)) = (nib n (2 * i) : Int) := by
      rw [nib_lo]; have := nib_lt n (2 * i)
      exact wrap8_id _ (by simp only [Int.ofNat_eq_natCast]; omega) (by simp only [Int.ofNat_eq_natCast]; omega)
    have hhi : wrap8 (Int.ofNat (byteAt n i / 2 ^ 4 % 16)) = (nib n (2 * i + 1) : Int) := by
      rw [nib_hi]; have := nib_lt n (2 * i + 1)
      exact wrap8_id _ (by simp only [Int.ofNat_eq_natCast]; omega) (by simp only [Int.ofNat_eq_natCast]; omega)
    refine ⟨by simp [h.size], ?_, ?_⟩
    · intro k hk
      by_cases hk1 : k = 2 * i + 1
      · subst hk1
        rw [dig_set_self _ _ _ h1, hhi]
      · rw [dig_set_ne _ _ _ _ hk1]
        by_cases hk0 : k = 2 * i
        · subst hk0
          rw [dig_set_self _ _ _ h0, hlo]
        · rw [dig_set_ne _ _ _ _ hk0]; exact h.done k (by omega)
    · intro k hk
      rw [dig_set_ne _ _ _ _ (by omega), dig_set_ne _ _ _ _ (by omega)]; exact h.rest k (by omega)

theorem nibbles_inv (n : Nat) : NibInv n 32 (nibbleLoop n 32 0 (Array.replicate 64 0)) :=
  nibbleLoop_inv n 32 0 _ rfl ⟨by simp, fun k hk => by omega, fun k _ => dig_replicate 64 k⟩

/-! ## Step 2 -/

/-- the recentring loop over unbounded integers (no `int8`) -/
def recenterLoopZ : (fuel i : Nat) → Array Int → Array Int
  | 0, _, out => out
  | fuel + 1, i, out =>
    let carry := (out.getD i 0 + 8) / 16
    let out := out.setIfInBounds i (out.getD i 0 - carry * 16)
    let out := out.setIfInBounds (i + 1) (out.getD (i + 1) 0 + carry)
    recenterLoopZ fuel (i + 1) out

/-- invariant of the recentring loop at position `i` -/
structure R16Inv (n i : Nat) (out : Array Int) : Prop where
  size : out.size = 64
  /-- positions already recentred -/
  done : ∀ k, k < i → -8 ≤ dig out k ∧ dig out k < 8
  /-- the current position holds its nibble plus the incoming carry -/
  cur : dig out i = (nib n i : Int) ∨ dig out i = (nib n i : Int) + 1
  /-- untouched nibbles -/
  rest : ∀ k, i < k → k < 64 → dig out k = (nib n k : Int)
  value : sumD 4 (dig out) 64 = ((n % 2 ^ 256 : Nat) : Int)

theorem r16Inv_init (n : Nat) : R16Inv n 0 (nibbleLoop n 32 0 (Array.replicate 64 0)) := by
  have h := nibbles_inv n
  refine ⟨h.size, fun k hk => by omega, Or.inl (h.done 0 (by omega)), fun k _ hk => h.done k (by omega), ?_⟩
  have := sumD_digits 4 n 64
  rw [show 4 * 64 = 256 from rfl] at this
  rw [← this]
  apply sumD_congr
  intro k hk
  exact h.done k (by omega)

/-- one recentring step, together with the fact that every `int8` conversion in it is the identity -/
theorem r16Inv_step (n i : Nat) (out : Array Int) (hi : i < 63) (h : R16Inv n i out) :
    let carry := wrap8 (out.getD i 0 + 8) / 16
    let out1 := out.setIfInBounds i (wrap8 (out.getD i 0 - wrap8 (carry * 16)))
    let out2 := out1.setIfInBounds (i + 1) (wrap8 (out1.getD (i + 1) 0 + carry))
    let carryZ := (out.getD i 0 + 8) / 16
    let out1Z := out.setIfInBounds i (out.getD i 0 - carryZ * 16)
    let out2Z := out1Z.setIfInBounds (i + 1) (out1Z.getD (i + 1) 0 + carryZ)
    out2 = out2Z ∧ R16Inv n (i + 1) out2 := by
  intro carry out1 out2 carryZ out1Z out2Z
  have hx : out.getD i 0 = dig out i := rfl
  have hnib := nib_lt n i
  have hnib1 := nib_lt n (i + 1)
  have hsz : i < out.size := by rw [h.size]; omega
  have hsz1 : i + 1 < out1.size := by simp [out1, h.size]; omega
  have hxr : 0 ≤ dig out i ∧ dig out i ≤ 16 := by rcases h.cur with e | e <;> rw [e] <;> omega
  have hcarry : carry = carryZ := by
    simp only [carry, carryZ, hx]; rw [wrap8_id _ (by omega) (by omega)]
  have hc01 : carryZ = 0 ∨ carryZ = 1 := by simp only [carryZ, hx]; omega
  have hd : wrap8 (out.getD i 0 - wrap8 (carry * 16)) = out.getD i 0 - carryZ * 16 := by
    rw [hcarry, hx]
    rcases hc01 with e | e <;> rw [e] <;> simp only [wrap8] <;> omega
  have hout1 : out1 = out1Z := by simp only [out1, out1Z, hd]
  have hy : out1.getD (i + 1) 0 = (nib n (i + 1) : Int) := by
    show dig out1 (i + 1) = _
    simp only [out1]
    rw [dig_set_ne _ _ _ _ (by omega)]; exact h.rest (i + 1) (by omega) (by omega)
  have hd1 : wrap8 (out1.getD (i + 1) 0 + carry) = out1Z.getD (i + 1) 0 + carryZ := by
    rw [← hout1, hcarry, hy]
    exact wrap8_id _ (by rcases hc01 with e | e <;> rw [e] <;> omega)
      (by rcases hc01 with e | e <;> rw [e] <;> omega)
  have hout2 : out2 = out2Z := by
    show out1.setIfInBounds (i + 1) (wrap8 (out1.getD (i + 1) 0 + carry)) = _
    rw [hd1, hout1]
  refine ⟨hout2, ?_⟩
  rw [hout2]
  have hyZ : out1Z.getD (i + 1) 0 = (nib n (i + 1) : Int) := by rw [← hout1]; exact hy
  have hszZ : i + 1 < out1Z.size := by rw [← hout1]; exact hsz1
  refine ⟨by simp [out2Z, out1Z, h.size], ?_, ?_, ?_, ?_⟩
  · intro k hk
    simp only [out2Z]
    rw [dig_set_ne _ _ _ _ (by omega)]
    by_cases hki : k = i
    · subst hki
      simp only [out1Z]
      rw [dig_set_self _ _ _ hsz, hx]
      simp only [carryZ, hx]; omega
    · simp only [out1Z]
      rw [dig_set_ne _ _ _ _ hki]; exact h.done k (by omega)
  · simp only [out2Z]
    rw [dig_set_self _ _ _ hszZ, hyZ]
    rcases hc01 with e | e <;> rw [e] <;> simp
  · intro k hk1 hk2
    simp only [out2Z, out1Z]
    rw [dig_set_ne _ _ _ _ (by omega), dig_set_ne _ _ _ _ (by omega)]; exact h.rest k (by omega) hk2
  · simp only [out2Z]
    rw [sumD_set 4 out1Z (i + 1) _ 64 hszZ (by omega)]
    have : dig out1Z (i + 1) = out1Z.getD (i + 1) 0 := rfl
    rw [this]
    simp only [out1Z]
    rw [sumD_set 4 out i _ 64 hsz (by omega), hx, h.value]
    have hp : (2 : Int) ^ (4 * (i + 1)) = 16 * 2 ^ (4 * i) := by
      rw [show 4 * (i + 1) = 4 + 4 * i by omega, pow_add]; norm_num
    rw [hp]; ring

theorem recenterLoop_inv (n : Nat) : ∀ (fuel i : Nat) (out : Array Int),
    i + fuel = 63 → R16Inv n i out →
      recenterLoop fuel i out = recenterLoopZ fuel i out ∧ R16Inv n 63 (recenterLoop fuel i out)
  | 0, i, out, hf, h => by
    have : i = 63 := by omega
    subst this; exact ⟨rfl, h⟩
  | fuel + 1, i, out, hf, h => by
    unfold recenterLoop recenterLoopZ
    obtain ⟨he, hinv⟩ := r16Inv_step n i out (by omega) h
    simp only at he hinv ⊢
    rw [← he]
    exact recenterLoop_inv n fuel (i + 1) _ (by omega) hinv

theorem toRadix16_inv (n : Nat) : R16Inv n 63 (toRadix16 n) :=
  (recenterLoop_inv n 63 0 _ rfl (r16Inv_init n)).2

/-- no `int8` conversion of ToRadix16 changes a value: the `int8` loop equals the integer loop -/
theorem toRadix16_exact (n : Nat) :
    toRadix16 n = recenterLoopZ 63 0 (nibbleLoop n 32 0 (Array.replicate 64 0)) :=
  (recenterLoop_inv n 63 0 _ rfl (r16Inv_init n)).1

end Voi.Props.C17
