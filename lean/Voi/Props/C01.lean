/-
Property C01 — Ed25519 verification decides exactly the configured specification predicate.

Objects
  * `Voi.Model.Ed25519.verify I`        the CODE-SHAPED model of `verifyWithOptionsNoPanic` over an interface `I`
                                         (tied to the Go code by stream V2 for `I = concrete`);
  * `Voi.Model.Ed25519.SpecG.verify I`  the DECLARATIVE predicate of the property over the same interface;
                                         for `I = concrete` it IS `Voi.Spec.Ed25519.verify` (`specG_concrete`, by
                                         unfolding: the two definitions are the same term);
  * `Accepts I`                          the same predicate as a `Prop` in textbook form (R is always required to
                                         decode; `specG_verify_iff` shows this is what `SpecG.verify` decides — this
                                         is where the round-trip lemma `decode_of_encode_eq` is used).

Main theorem `model_eq_spec`: for every interface instance whose carrier is a commutative group (`AddCommGroup`,
Mathlib) and which satisfies the LAWS `Laws I`, under the explicit hypotheses
  `hExp : ∀ P, (8·L) • P = 0`          (the group has exponent dividing 8·L — true for edwards25519, NOT proved here)
  `hsv  : ∀ k < L, ShortVecOK I k`      (what `Props/LatticeInv` proves about `FindShortVector`)
and for ALL options, dom flags, contexts and ALL byte strings pk, msg, sig of all lengths,
  `Model.verify I o f ctx pk msg sig = SpecG.verify I o f ctx pk msg sig`.
(The documented-incompatible pair NonCanonicalR ∧ Cofactorless is rejected before `verify` is reached — see
`Model.mode`; the equality holds for it as well, so no side condition on `o` is needed.  `model_eq_spec'` is the
literal statement with the side condition.)

Status of the hypotheses for the CONCRETE instance (`Model.Ed25519.concrete`):
  * discharged here: `specG_concrete` (SpecG = Spec), `concrete_shortVecOK` (by citing `LatticeInv.fsv_congr` and
    `fsv_d1_not_dvd`; the latter under `Finished k`, i.e. the model's fuel of 4096 steps suffices — termination itself
    is `LatticeInv.fsv_terminates`), `concrete_coprime8`, `concrete_L_lt`;
  * NOT discharged here (they are the subject of C03/C05/C10 and of the L1/L3 mathematics): the group laws (the
    carrier must be the on-curve points, `Pt` itself contains off-curve pairs), `L • B = 0`, `L` prime,
    `isSmallOrder_iff`, the codec laws, `scMinimal_iff`; and `hExp`, which stays a hypothesis by design.
  Until then the tie between model and code for the concrete instance is stream V2, and between model and
  specification this theorem for every instance satisfying the laws (non-vacuous: `Toy`).

No `sorry`, no `axiom`, no `native_decide`.
-/
import Mathlib.Algebra.Group.Basic
import Mathlib.Algebra.Module.Basic
import Mathlib.Tactic.Module
import Mathlib.Tactic.Abel
import Mathlib.Tactic.Linarith
import Mathlib.Tactic.Ring
import Mathlib.Tactic.Tauto
import Mathlib.Data.Int.GCD
import Mathlib.Data.Nat.Prime.Basic
import Mathlib.RingTheory.Coprime.Basic
import Mathlib.RingTheory.Int.Basic
import Mathlib.Data.ZMod.Basic
import Mathlib.Tactic.NormNum.Prime
import Voi.Model.Ed25519
import Voi.Props.LatticeInv

namespace Voi.Props.C01
open Voi Voi.Spec Voi.Model.Ed25519
open Voi.Spec.Ed25519 (VOpts Dom dom2)

/-! ## The declarative predicate over the concrete interface is `Voi.Spec.Ed25519.verify` -/

section Concrete
attribute [local irreducible] Pt.decode bslice Pt.mul8 Pt.isZero Pt.smul Pt.add Pt.neg Pt.encode Pt.isCanonicalEnc
  leNat sha512 dom2 Voi.beq Pt.B

/-- `SpecG.verify concrete` and `Voi.Spec.Ed25519.verify` are the same term (after unfolding the interface
    projections, `Pt.sub` and `Pt.isSmallOrder`); the case split only serves to line up the two auxiliary
    `match` functions. -/
theorem specG_concrete (o : VOpts) (f : Dom) (ctx pk msg sig : Bytes) :
    SpecG.verify concrete o f ctx pk msg sig = Voi.Spec.Ed25519.verify o f ctx pk msg sig := by
  rcases h1 : Pt.decode pk with _ | A <;> rcases h2 : Pt.decode (bslice sig 0 32) with _ | R <;>
  simp only [SpecG.verify, Voi.Spec.Ed25519.verify, SpecG.challenge, Voi.Spec.Ed25519.challenge, concrete,
    Pt.sub, Pt.isSmallOrder, h1, h2] <;> rfl
end Concrete

/-! ## Pure group theory: δ-soundness -/

section Algebra
variable {G : Type} [AddCommGroup G]

theorem zsmul_emod_of_smul_eq_zero {L : ℕ} {B : G} (hLB : L • B = 0) (z : ℤ) : (z % (L : ℤ)) • B = z • B := by
  have hB : (L : ℤ) • B = 0 := by rw [natCast_zsmul]; exact hLB
  rw [Int.emod_def, sub_smul, mul_comm, mul_smul, hB, smul_zero, sub_zero]

theorem nsmul_mod_of_smul_eq_zero {L : ℕ} {B : G} (hLB : L • B = 0) (n : ℕ) : (n % L) • B = n • B := by
  have := zsmul_emod_of_smul_eq_zero hLB (n : ℤ)
  rw [← Int.natCast_mod, natCast_zsmul, natCast_zsmul] at this
  exact this

/-- `8•Y = d1•(8•X)` where `Y` is the δ-scaled combination and `X = a•A' + b•B − C`: the difference is
    `(d0 − d1·a)•A'`, a multiple of `L` times `A'` (killed by `8•` through `hExp`), plus a multiple of `L•B = 0`. -/
theorem delta_core {L : ℕ} {B : G} (hLB : L • B = 0) (hExp : ∀ P : G, (8 * L) • P = 0)
    {d0 d1 : ℤ} {a b : ℕ} (hcong : (L : ℤ) ∣ d0 - d1 * a) (A' C : G) :
    (8 : ℤ) • (d0 • A' + (d1 * b % L) • B - d1 • C) = d1 • ((8 : ℤ) • ((a : ℤ) • A' + (b : ℤ) • B - C)) := by
  obtain ⟨m, hm⟩ := hcong
  have h0 : d0 = d1 * a + L * m := by linarith
  have hA : ((8 * L : ℕ) : ℤ) • A' = 0 := by rw [natCast_zsmul]; exact hExp A'
  have hB : ((L : ℕ) : ℤ) • B = 0 := by rw [natCast_zsmul]; exact hLB
  have hmod : d1 * b % (L : ℤ) = d1 * b - L * (d1 * b / L) := by rw [Int.emod_def]
  rw [h0, hmod]
  have : (8 : ℤ) • ((d1 * a + L * m) • A' + (d1 * b - L * (d1 * b / L)) • B - d1 • C)
      = d1 • ((8 : ℤ) • ((a : ℤ) • A' + (b : ℤ) • B - C)) + m • (((8 * L : ℕ) : ℤ) • A')
        - (8 * (d1 * b / L)) • (((L : ℕ) : ℤ) • B) := by
    push_cast
    module
  rw [this, hA, hB]; simp

/-- multiplication by `d1` is injective on `8•G`, a group of exponent `L`, because `gcd(d1, L) = 1` -/
theorem smul_eq_zero_of_coprime {L : ℕ} {d1 : ℤ} (hcop : IsCoprime d1 (L : ℤ)) {Z : G} (hLZ : L • Z = 0)
    (hd : d1 • Z = 0) : Z = 0 := by
  obtain ⟨u, v, huv⟩ := hcop
  have hLZ' : (L : ℤ) • Z = 0 := by rw [natCast_zsmul]; exact hLZ
  calc Z = (1 : ℤ) • Z := (one_smul _ _).symm
    _ = (u * d1 + v * L) • Z := by rw [huv]
    _ = 0 := by rw [add_smul, mul_smul, mul_smul, hd, hLZ', smul_zero, smul_zero, add_zero]

theorem isCoprime_of_prime_not_dvd {L : ℕ} (hp : Nat.Prime L) {d1 : ℤ} (hnd : ¬ (L : ℤ) ∣ d1) :
    IsCoprime d1 (L : ℤ) := by
  rw [Int.isCoprime_iff_gcd_eq_one]
  have h1 : ¬ L ∣ d1.natAbs := fun h => hnd (Int.natCast_dvd.2 h)
  have h2 : Nat.Coprime L d1.natAbs := (Nat.Prime.coprime_iff_not_dvd hp).2 h1
  have h3 : Int.gcd d1 (L : ℤ) = Nat.gcd d1.natAbs L := by simp [Int.gcd]
  rw [h3]; exact h2.symm

/-- **δ-soundness (C16-δ).**  For ALL points `A'`, `C` (torsion components included): with the group exponent
    hypothesis, `d0 ≡ d1·a (mod L)` and `gcd(d1, L) = 1`, the δ-scaled check `[8](…) = 0` is equivalent to the
    plain cofactored check. -/
theorem delta_sound_of_coprime {L : ℕ} {B : G} (hLB : L • B = 0) (hExp : ∀ P : G, (8 * L) • P = 0)
    {d0 d1 : ℤ} {a b : ℕ} (hcong : (L : ℤ) ∣ d0 - d1 * a) (hcop : IsCoprime d1 (L : ℤ)) (A' C : G) :
    (8 : ℕ) • (d0 • A' + (d1 * b % L) • B - d1 • C) = 0 ↔ (8 : ℕ) • (a • A' + b • B - C) = 0 := by
  have key := delta_core hLB hExp (b := b) hcong A' C
  have e1 : ∀ P : G, (8 : ℕ) • P = (8 : ℤ) • P := fun P => by rw [← natCast_zsmul]; rfl
  rw [e1, e1, key, ← natCast_zsmul A' a, ← natCast_zsmul B b]
  constructor
  · intro hd
    refine smul_eq_zero_of_coprime hcop ?_ hd
    rw [← e1, smul_smul, mul_comm]
    exact hExp _
  · intro hz
    rw [hz, smul_zero]

theorem delta_sound {L : ℕ} {B : G} (hL : Nat.Prime L) (hLB : L • B = 0) (hExp : ∀ P : G, (8 * L) • P = 0)
    {d0 d1 : ℤ} {a b : ℕ} (hcong : (L : ℤ) ∣ d0 - d1 * a) (hnd : ¬ (L : ℤ) ∣ d1) (A' C : G) :
    (8 : ℕ) • (d0 • A' + (d1 * b % L) • B - d1 • C) = 0 ↔ (8 : ℕ) • (a • A' + b • B - C) = 0 :=
  delta_sound_of_coprime hLB hExp hcong (isCoprime_of_prime_not_dvd hL hnd) A' C

end Algebra
/-! ## Interface laws -/

/-- The laws an interface instance must satisfy (its carrier being a commutative group, via Mathlib's
    `AddCommGroup`).  Each one is discharged for edwards25519 by another property: the group structure and
    `L • B = 0` by C03/C10 (L1/L3 mathematics), `isSmallOrder_iff`, `decode_encode`, `canonical_encode` by C10,
    `scMinimal_iff` by C05, `L_prime` by a Pratt certificate. -/
structure Laws (I : EdIface) [AddCommGroup I.G] : Prop where
  zero_eq : I.zero = 0
  add_eq : ∀ P Q : I.G, I.add P Q = P + Q
  neg_eq : ∀ P : I.G, I.neg P = -P
  smul_eq : ∀ (n : ℕ) (P : I.G), I.smul n P = n • P
  L_prime : Nat.Prime I.L
  /-- `L` is odd (used by C02 `S_unique` only) -/
  coprime8 : Nat.Coprime 8 I.L
  /-- reduced scalars fit 32 bytes (used by C02 only) -/
  L_lt : I.L < 2 ^ 256
  L_B : I.L • I.B = 0
  isSmallOrder_iff : ∀ P : I.G, I.isSmallOrder P = true ↔ (8 : ℕ) • P = 0
  /-- the canonical encoding decodes to the point it encodes (hence `encode` is injective) -/
  decode_encode : ∀ P : I.G, I.decode (I.encode P) = some P
  /-- the canonical encoding passes the canonicity test -/
  canonical_encode : ∀ P : I.G, I.isCanonicalEnc (I.encode P) = true
  /-- encodings are 32 bytes (used by C02 only) -/
  encode_size : ∀ P : I.G, (I.encode P).size = 32
  scMinimal_iff : ∀ b : Bytes, b.size = 32 → (I.scMinimal b = true ↔ leNat b < I.L)

/-- **The group-order hypothesis**: every point is killed by `8·L` (the order of edwards25519(F_p) is `8·L`).
    Not provable at this level; it is an explicit, named hypothesis of every theorem that needs it. -/
def ExpHyp (I : EdIface) [AddCommGroup I.G] : Prop := ∀ P : I.G, (8 * I.L) • P = 0

/-- what `Props/LatticeInv` proves about `(d0, d1) = FindShortVector k` -/
def ShortVecOK (I : EdIface) (k : ℕ) : Prop :=
  (I.L : ℤ) ∣ (I.shortVec k).1 - (I.shortVec k).2 * k ∧ ¬ (I.L : ℤ) ∣ (I.shortVec k).2

/-- The `shortVec` hypothesis is discharged for the concrete `fsv` by `LatticeInv.fsv_congr` and
    `LatticeInv.fsv_d1_not_dvd`; the latter needs `Finished k` (the exit test fired within the model's fuel of
    4096 iterations — `LatticeInv.fsv_terminates` proves termination, the numeric bound 4096 is checked at run
    time by stream L1). -/
theorem concrete_shortVecOK (k : ℕ) (hf : Voi.Props.LatticeInv.Finished k) : ShortVecOK concrete k := by
  have hL : ((concrete.L : ℕ) : ℤ) = Voi.Model.Lattice.L := by decide
  refine ⟨?_, ?_⟩
  · rw [hL]; exact Voi.Props.LatticeInv.fsv_congr k
  · rw [hL]; exact Voi.Props.LatticeInv.fsv_d1_not_dvd hf

theorem concrete_coprime8 : Nat.Coprime 8 concrete.L := by decide
theorem concrete_L_lt : concrete.L < 2 ^ 256 := by decide

theorem Laws.isSmallOrder_eq_false_iff {I : EdIface} [AddCommGroup I.G] (h : Laws I) (P : I.G) :
    I.isSmallOrder P = false ↔ ¬ (8 : ℕ) • P = 0 := by
  rw [← h.isSmallOrder_iff, Bool.not_eq_true]

theorem Laws.encode_injective {I : EdIface} [AddCommGroup I.G] (h : Laws I) : Function.Injective I.encode := by
  intro P Q hPQ
  have := h.decode_encode P
  rw [hPQ, h.decode_encode Q] at this
  exact (Option.some.inj this).symm

/-- **Round trip** (justifies skipping the decompression of R when `CofactorlessVerify ∧ AllowSmallOrderR`):
    if the byte comparison with the canonical encoding of some point succeeds, the R bytes decode. -/
theorem decode_of_encode_eq {I : EdIface} [AddCommGroup I.G] (h : Laws I) {X : I.G} {rBytes : Bytes}
    (he : I.encode X = rBytes) : I.decode rBytes = some X := he ▸ h.decode_encode X

theorem beq_iff (a b : Bytes) : Voi.beq a b = true ↔ a = b := by
  unfold Voi.beq
  rw [beq_iff_eq]
  exact ⟨ByteArray.ext, fun h => h ▸ rfl⟩

theorem bslice_size {sig : Bytes} (hsz : sig.size = 64) : (bslice sig 32 32).size = 32 := by
  unfold bslice; rw [ByteArray.size_extract]; omega

/-! ## The value of the two multi-scalar multiplications -/

section Values
variable {I : EdIface} [AddCommGroup I.G]

theorem double_value (h : Laws I) (a : ℕ) (A : I.G) (b : ℕ) :
    doubleScalarMulBasepoint I a A b = a • A + b • I.B := by
  simp only [doubleScalarMulBasepoint, h.add_eq, h.smul_eq]

theorem natAbs_smul_of_nonneg {d : ℤ} (hd : 0 ≤ d) (P : I.G) : d.natAbs • P = d • P := by
  rw [← natCast_zsmul, Int.natAbs_of_nonneg hd]

theorem natAbs_smul_of_neg {d : ℤ} (hd : d < 0) (P : I.G) : d.natAbs • P = -(d • P) := by
  rw [← natCast_zsmul, Int.ofNat_natAbs_of_nonpos hd.le, neg_smul]

theorem scNeg_smul (h : Laws I) (b : ℕ) : scNeg I b • I.B = -(b • I.B) := by
  unfold scNeg
  rw [nsmul_mod_of_smul_eq_zero h.L_B]
  have hlt : b % I.L ≤ I.L := (Nat.mod_lt _ h.L_prime.pos).le
  have : (I.L - b % I.L) • I.B + (b % I.L) • I.B = 0 := by
    rw [← add_smul, Nat.sub_add_cancel hlt, h.L_B]
  rw [nsmul_mod_of_smul_eq_zero h.L_B] at this
  exact eq_neg_of_add_eq_zero_left this

/-- the VALUE computed by `TripleScalarMulBasepointVartime(a, A, b, C)`:
    `[d0]A + [d1·b mod L]B − [d1]C` with `(d0, d1) = FindShortVector(a)` -/
theorem triple_value (h : Laws I) (a : ℕ) (A : I.G) (b : ℕ) (C : I.G) :
    tripleScalarMulBasepoint I a A b C
      = (I.shortVec a).1 • A + ((I.shortVec a).2 * b % (I.L : ℤ)) • I.B - (I.shortVec a).2 • C := by
  unfold tripleScalarMulBasepoint
  simp only [h.add_eq, h.smul_eq, h.neg_eq]
  generalize (I.shortVec a).1 = d0
  generalize (I.shortVec a).2 = d1
  rw [zsmul_emod_of_smul_eq_zero h.L_B, nsmul_mod_of_smul_eq_zero h.L_B]
  have hA : (if decide (d0 < 0) = true then -(d0.natAbs • A) else d0.natAbs • A) = d0 • A := by
    by_cases hd : d0 < 0
    · simp only [hd, decide_true, if_true]; rw [natAbs_smul_of_neg hd, neg_neg]
    · simp only [hd, decide_false]; exact natAbs_smul_of_nonneg (not_lt.1 hd) A
  rw [hA]
  by_cases hd : d1 < 0
  · simp only [hd, if_true]
    rw [mul_comm, mul_smul, scNeg_smul h, natAbs_smul_of_neg hd, natAbs_smul_of_neg hd, smul_neg, neg_neg,
      mul_smul, natCast_zsmul]
    abel
  · simp only [hd, if_false]
    have hd' := not_lt.1 hd
    rw [mul_comm, mul_smul, natAbs_smul_of_nonneg hd', natAbs_smul_of_nonneg hd', mul_smul, natCast_zsmul, smul_neg]
    abel

/-- `IsSmallOrder` of the δ-scaled triple product is the plain cofactored check — for ALL `A`, `R`. -/
theorem triple_isSmallOrder_iff (h : Laws I) (hExp : ExpHyp I) {k : ℕ} (hsv : ShortVecOK I k) (A : I.G) (s : ℕ)
    (R : I.G) :
    I.isSmallOrder (tripleScalarMulBasepoint I k (I.neg A) s R) = true ↔ (8 : ℕ) • (s • I.B - k • A - R) = 0 := by
  rw [h.isSmallOrder_iff, triple_value h, delta_sound h.L_prime h.L_B hExp hsv.1 hsv.2, h.neg_eq]
  have : k • -A + s • I.B - R = s • I.B - k • A - R := by rw [smul_neg]; abel
  rw [this]

/-- the `e_0`/`e_1` split of `δb` inside the multiplication (`[e_0]B + [e_1]([2^128]B)` with the precomputed table of
    `[2^128]B`) has the value `[δb]B` that `tripleScalarMulBasepoint` uses -/
theorem split_value {G : Type} [AddCommGroup G] (B : G) (db : ℕ) :
    (db % 2 ^ 128) • B + (db / 2 ^ 128) • ((2 ^ 128 : ℕ) • B) = db • B := by
  rw [← mul_smul, ← add_smul, mul_comm, Nat.mod_add_div]

end Values

/-! ## Main theorem -/

section Main
variable (I : EdIface) [AddCommGroup I.G]

/-- the point comparison of the cofactorless branch -/
theorem cofactorless_point (h : Laws I) (k s : ℕ) (A : I.G) :
    doubleScalarMulBasepoint I k (I.neg A) s = I.add (I.smul s I.B) (I.neg (I.smul k A)) := by
  rw [double_value h, h.add_eq, h.neg_eq, h.neg_eq, h.smul_eq, h.smul_eq, smul_neg]; abel

/-- Pointwise form: the lattice hypothesis is needed only at the challenge `k = hram …` of this very input. -/
theorem model_eq_spec_at (h : Laws I) (hExp : ExpHyp I)
    (o : VOpts) (f : Dom) (ctx pk msg sig : Bytes) (hsv : ShortVecOK I (hram I f ctx sig pk msg)) :
    verify I o f ctx pk msg sig = SpecG.verify I o f ctx pk msg sig := by
  by_cases hsz : sig.size = 64
  case neg =>
    have hu : unpackSignature I o sig = none := by simp [unpackSignature, hsz]
    simp only [verify, SpecG.verify, hu]
    cases unpackPublicKey I o pk <;> simp [hsz]
  have hsm := h.scMinimal_iff _ (bslice_size hsz)
  by_cases hs : leNat (bslice sig 32 32) < I.L
  case neg =>
    have hsm' : I.scMinimal (bslice sig 32 32) = false := by
      rw [← Bool.not_eq_true, hsm]; exact hs
    have hu : unpackSignature I o sig = none := by simp [unpackSignature, hsm']
    simp only [verify, SpecG.verify, hu, hs]
    cases unpackPublicKey I o pk <;> simp
  have hsm' : I.scMinimal (bslice sig 32 32) = true := hsm.2 hs
  have hS : leNat (bslice sig 32 32) % I.L = leNat (bslice sig 32 32) := Nat.mod_eq_of_lt hs
  have hkeq : SpecG.challenge I f ctx (bslice sig 0 32) pk msg = hram I f ctx sig pk msg := rfl
  rcases hd : I.decode pk with _ | A
  · simp [verify, SpecG.verify, unpackPublicKey, hd]
  rcases hR : I.decode (bslice sig 0 32) with _ | R
  all_goals
    rcases o with ⟨smallA, smallR, nonCanA, nonCanR, cofactorless⟩
    cases hAs : I.isSmallOrder A <;> cases hAc : I.isCanonicalEnc pk <;>
    cases hRc : I.isCanonicalEnc (bslice sig 0 32) <;>
    cases smallA <;> cases nonCanA <;> cases nonCanR <;> cases cofactorless <;> cases smallR <;>
    simp [verify, SpecG.verify, unpackPublicKey, unpackSignature, verifyNeedsDecompressedR, cofactorlessVerify,
      hd, hR, hsz, hs, hsm', hS, hAs, hAc, hRc, hkeq, cofactorless_point I h] <;>
    first
    | done
    | (cases I.isSmallOrder R <;> simp <;>
        exact Bool.eq_iff_iff.2 (by
          rw [triple_isSmallOrder_iff h hExp hsv, h.isSmallOrder_iff, h.add_eq, h.add_eq, h.neg_eq, h.neg_eq,
            h.smul_eq, h.smul_eq]
          simp only [sub_eq_add_neg]))
    | (exact Bool.eq_iff_iff.2 (by
          rw [triple_isSmallOrder_iff h hExp hsv, h.isSmallOrder_iff, h.add_eq, h.add_eq, h.neg_eq, h.neg_eq,
            h.smul_eq, h.smul_eq]
          simp only [sub_eq_add_neg]))

/-- **C01, model = specification.**  All options (also the pair the entry points reject), all dom flags, all
    byte strings of all lengths. -/
theorem model_eq_spec (h : Laws I) (hExp : ExpHyp I) (hsv : ∀ k, k < I.L → ShortVecOK I k)
    (o : VOpts) (f : Dom) (ctx pk msg sig : Bytes) :
    verify I o f ctx pk msg sig = SpecG.verify I o f ctx pk msg sig :=
  model_eq_spec_at I h hExp o f ctx pk msg sig (hsv _ (Nat.mod_lt _ h.L_prime.pos))

end Main

/-! ## The predicate in textbook form -/

section Declarative
variable (I : EdIface) [AddCommGroup I.G]

/-- The statement of property C01 as a proposition: the signature is 64 bytes with `S < L`, A and R decode under
    the configured canonical-encoding and small-order rules, and the configured equation holds for
    `k = SHA-512(dom2 ‖ R-bytes ‖ A-bytes ‖ M) mod L`. -/
def Accepts (o : VOpts) (f : Dom) (ctx pk msg sig : Bytes) : Prop :=
  sig.size = 64 ∧ leNat (bslice sig 32 32) < I.L ∧
  ∃ A R : I.G, I.decode pk = some A ∧ I.decode (bslice sig 0 32) = some R ∧
    (o.smallA = false → (8 : ℕ) • A ≠ 0) ∧ (o.smallR = false → (8 : ℕ) • R ≠ 0) ∧
    (o.nonCanA = false → I.isCanonicalEnc pk = true) ∧
    (o.nonCanR = false → I.isCanonicalEnc (bslice sig 0 32) = true) ∧
    (if o.cofactorless = true then
      I.encode (leNat (bslice sig 32 32) • I.B - SpecG.challenge I f ctx (bslice sig 0 32) pk msg • A)
        = bslice sig 0 32
     else
      (8 : ℕ) • (leNat (bslice sig 32 32) • I.B - SpecG.challenge I f ctx (bslice sig 0 32) pk msg • A - R) = 0)

/-- `SpecG.verify` decides `Accepts`.  In the case `CofactorlessVerify ∧ AllowSmallOrderR` the executable
    predicate does not decode R; `decode_of_encode_eq` supplies the decoded point. -/
theorem specG_verify_iff (h : Laws I) (o : VOpts) (f : Dom) (ctx pk msg sig : Bytes) :
    SpecG.verify I o f ctx pk msg sig = true ↔ Accepts I o f ctx pk msg sig := by
  unfold Accepts
  by_cases hsz : sig.size = 64
  case neg => simp [SpecG.verify, hsz]
  by_cases hs : leNat (bslice sig 32 32) < I.L
  case neg => simp [SpecG.verify, hs]
  rcases hd : I.decode pk with _ | A
  · simp [SpecG.verify, hd]
  have hsub : ∀ (s k : ℕ) (P : I.G), I.add (I.smul s I.B) (I.neg (I.smul k P)) = s • I.B - k • P := by
    intro s k P; rw [h.add_eq, h.neg_eq, h.smul_eq, h.smul_eq, sub_eq_add_neg]
  rcases hR : I.decode (bslice sig 0 32) with _ | R
  · -- R does not decode: the only way `SpecG.verify` could still accept is the byte comparison, which fails
    have hne : ∀ X : I.G, I.encode X ≠ bslice sig 0 32 := by
      intro X he
      rw [decode_of_encode_eq h he] at hR
      cases hR
    rcases o with ⟨smallA, smallR, nonCanA, nonCanR, cofactorless⟩
    cases smallR <;> cases cofactorless <;>
      simp [SpecG.verify, hd, hR, hsz, hs, beq_iff, hne]
  · rcases o with ⟨smallA, smallR, nonCanA, nonCanR, cofactorless⟩
    cases smallA <;> cases nonCanA <;> cases nonCanR <;> cases cofactorless <;> cases smallR <;>
      simp [SpecG.verify, hd, hR, hsz, hs, beq_iff, h.isSmallOrder_iff, h.isSmallOrder_eq_false_iff, h.add_eq,
        h.neg_eq, h.smul_eq, ← sub_eq_add_neg] <;> tauto

end Declarative

/-! ## Corollaries -/

section Corollaries
variable (I : EdIface) [AddCommGroup I.G]

/-- the literal statement of the design: options other than the documented-incompatible pair -/
theorem model_eq_spec' (h : Laws I) (hExp : ExpHyp I) (hsv : ∀ k, k < I.L → ShortVecOK I k)
    (o : VOpts) (_ho : ¬ (o.nonCanR = true ∧ o.cofactorless = true)) (f : Dom) (ctx pk msg sig : Bytes) :
    verify I o f ctx pk msg sig = SpecG.verify I o f ctx pk msg sig :=
  model_eq_spec I h hExp hsv o f ctx pk msg sig

/-- the code-shaped model decides the textbook predicate -/
theorem model_verify_iff (h : Laws I) (hExp : ExpHyp I) (hsv : ∀ k, k < I.L → ShortVecOK I k)
    (o : VOpts) (f : Dom) (ctx pk msg sig : Bytes) :
    verify I o f ctx pk msg sig = true ↔ Accepts I o f ctx pk msg sig := by
  rw [model_eq_spec I h hExp hsv, specG_verify_iff I h]

/-- no accepted signature has `S ≥ L` (no malleability through S) -/
theorem verify_S_lt_L (h : Laws I) (hExp : ExpHyp I) (hsv : ∀ k, k < I.L → ShortVecOK I k)
    (o : VOpts) (f : Dom) (ctx pk msg sig : Bytes) (hv : verify I o f ctx pk msg sig = true) :
    leNat (bslice sig 32 32) < I.L :=
  ((model_verify_iff I h hExp hsv o f ctx pk msg sig).1 hv).2.1

theorem verify_sig_size (h : Laws I) (hExp : ExpHyp I) (hsv : ∀ k, k < I.L → ShortVecOK I k)
    (o : VOpts) (f : Dom) (ctx pk msg sig : Bytes) (hv : verify I o f ctx pk msg sig = true) : sig.size = 64 :=
  ((model_verify_iff I h hExp hsv o f ctx pk msg sig).1 hv).1

/-- small-order A is accepted only under `AllowSmallOrderA` -/
theorem reject_smallOrder_A (h : Laws I) (hExp : ExpHyp I) (hsv : ∀ k, k < I.L → ShortVecOK I k)
    (o : VOpts) (f : Dom) (ctx pk msg sig : Bytes) (ho : o.smallA = false) {A : I.G} (hd : I.decode pk = some A)
    (hA : (8 : ℕ) • A = 0) : verify I o f ctx pk msg sig = false := by
  rw [← Bool.not_eq_true, model_verify_iff I h hExp hsv]
  rintro ⟨-, -, A', R, hA', -, hsm, -⟩
  rw [hd] at hA'; cases hA'
  exact hsm ho hA

/-- small-order R is accepted only under `AllowSmallOrderR` -/
theorem reject_smallOrder_R (h : Laws I) (hExp : ExpHyp I) (hsv : ∀ k, k < I.L → ShortVecOK I k)
    (o : VOpts) (f : Dom) (ctx pk msg sig : Bytes) (ho : o.smallR = false) {R : I.G}
    (hd : I.decode (bslice sig 0 32) = some R) (hR : (8 : ℕ) • R = 0) : verify I o f ctx pk msg sig = false := by
  rw [← Bool.not_eq_true, model_verify_iff I h hExp hsv]
  rintro ⟨-, -, A', R', -, hR', -, hsm, -⟩
  rw [hd] at hR'; cases hR'
  exact hsm ho hR

/-- a non-canonical A is accepted only under `AllowNonCanonicalA` -/
theorem reject_nonCanonical_A (h : Laws I) (hExp : ExpHyp I) (hsv : ∀ k, k < I.L → ShortVecOK I k)
    (o : VOpts) (f : Dom) (ctx pk msg sig : Bytes) (ho : o.nonCanA = false) (hc : I.isCanonicalEnc pk = false) :
    verify I o f ctx pk msg sig = false := by
  rw [← Bool.not_eq_true, model_verify_iff I h hExp hsv]
  rintro ⟨-, -, A', R', -, -, -, -, hcan, -⟩
  rw [hcan ho] at hc; cases hc

/-- a non-canonical R is accepted only under `AllowNonCanonicalR` -/
theorem reject_nonCanonical_R (h : Laws I) (hExp : ExpHyp I) (hsv : ∀ k, k < I.L → ShortVecOK I k)
    (o : VOpts) (f : Dom) (ctx pk msg sig : Bytes) (ho : o.nonCanR = false)
    (hc : I.isCanonicalEnc (bslice sig 0 32) = false) : verify I o f ctx pk msg sig = false := by
  rw [← Bool.not_eq_true, model_verify_iff I h hExp hsv]
  rintro ⟨-, -, A', R', -, -, -, -, -, hcan, -⟩
  rw [hcan ho] at hc; cases hc

/-! ### Presets, flag sets spelled out -/

/-- **StdLib preset** `{SmallOrderA, SmallOrderR, NonCanonicalA, Cofactorless}` = the algorithm of Go's
    `crypto/ed25519`: 64 bytes, `S < L`, A decodes (any encoding), and the canonical encoding of `[S]B − [k]A`
    equals the R bytes.  (R is never decoded; its canonicity is implied by the byte comparison.) -/
theorem verify_stdlib_iff (h : Laws I) (hExp : ExpHyp I) (hsv : ∀ k, k < I.L → ShortVecOK I k)
    (f : Dom) (ctx pk msg sig : Bytes) :
    verify I ⟨true, true, true, false, true⟩ f ctx pk msg sig = true ↔
      sig.size = 64 ∧ leNat (bslice sig 32 32) < I.L ∧ ∃ A : I.G, I.decode pk = some A ∧
        I.encode (leNat (bslice sig 32 32) • I.B - SpecG.challenge I f ctx (bslice sig 0 32) pk msg • A)
          = bslice sig 0 32 := by
  rw [model_verify_iff I h hExp hsv]
  unfold Accepts
  constructor
  · rintro ⟨h1, h2, A, R, hA, -, -, -, -, -, he⟩
    exact ⟨h1, h2, A, hA, by simpa using he⟩
  · rintro ⟨h1, h2, A, hA, he⟩
    refine ⟨h1, h2, A, _, hA, decode_of_encode_eq h he, by simp, by simp, by simp, ?_, by simpa using he⟩
    intro _; rw [← he]; exact h.canonical_encode _

example : VOpts.stdlib = ⟨true, true, true, false, true⟩ := rfl

/-- **FIPS 186-5 / RFC 8032 preset** `{SmallOrderA, SmallOrderR}`: canonical A and R that decode, `S < L`, and
    the cofactored equation `[8]([S]B − [k]A − R) = 0`. -/
theorem verify_fips_iff (h : Laws I) (hExp : ExpHyp I) (hsv : ∀ k, k < I.L → ShortVecOK I k)
    (f : Dom) (ctx pk msg sig : Bytes) :
    verify I ⟨true, true, false, false, false⟩ f ctx pk msg sig = true ↔
      sig.size = 64 ∧ leNat (bslice sig 32 32) < I.L ∧ ∃ A R : I.G, I.decode pk = some A ∧
        I.decode (bslice sig 0 32) = some R ∧ I.isCanonicalEnc pk = true ∧
        I.isCanonicalEnc (bslice sig 0 32) = true ∧
        (8 : ℕ) • (leNat (bslice sig 32 32) • I.B - SpecG.challenge I f ctx (bslice sig 0 32) pk msg • A - R) = 0 := by
  rw [model_verify_iff I h hExp hsv]
  unfold Accepts
  simp

example : VOpts.fips = ⟨true, true, false, false, false⟩ := rfl

/-- **ZIP-215 preset** `{SmallOrderA, SmallOrderR, NonCanonicalA, NonCanonicalR}`: A and R decode (any encoding),
    `S < L`, cofactored equation. -/
theorem verify_zip215_iff (h : Laws I) (hExp : ExpHyp I) (hsv : ∀ k, k < I.L → ShortVecOK I k)
    (f : Dom) (ctx pk msg sig : Bytes) :
    verify I ⟨true, true, true, true, false⟩ f ctx pk msg sig = true ↔
      sig.size = 64 ∧ leNat (bslice sig 32 32) < I.L ∧ ∃ A R : I.G, I.decode pk = some A ∧
        I.decode (bslice sig 0 32) = some R ∧
        (8 : ℕ) • (leNat (bslice sig 32 32) • I.B - SpecG.challenge I f ctx (bslice sig 0 32) pk msg • A - R) = 0 := by
  rw [model_verify_iff I h hExp hsv]
  unfold Accepts
  simp

example : VOpts.zip215 = ⟨true, true, true, true, false⟩ := rfl

/-- **library default** `{SmallOrderR}`: as FIPS, and additionally A must not be of small order. -/
theorem verify_default_iff (h : Laws I) (hExp : ExpHyp I) (hsv : ∀ k, k < I.L → ShortVecOK I k)
    (f : Dom) (ctx pk msg sig : Bytes) :
    verify I ⟨false, true, false, false, false⟩ f ctx pk msg sig = true ↔
      sig.size = 64 ∧ leNat (bslice sig 32 32) < I.L ∧ ∃ A R : I.G, I.decode pk = some A ∧
        I.decode (bslice sig 0 32) = some R ∧ (8 : ℕ) • A ≠ 0 ∧ I.isCanonicalEnc pk = true ∧
        I.isCanonicalEnc (bslice sig 0 32) = true ∧
        (8 : ℕ) • (leNat (bslice sig 32 32) • I.B - SpecG.challenge I f ctx (bslice sig 0 32) pk msg • A - R) = 0 := by
  rw [model_verify_iff I h hExp hsv]
  unfold Accepts
  simp

example : VOpts.default = ⟨false, true, false, false, false⟩ := rfl

end Corollaries

/-! ## Expanded public keys (no laws needed: the same calls, cached) -/

section Expanded
variable (I : EdIface)

/-- `VerifyExpandedWithOptions(NewExpandedPublicKey(pk), …) = VerifyWithOptions(pk, …)` -/
theorem expanded_eq (o : VOpts) (f : Dom) (ctx pk msg sig : Bytes) {xk : ExpandedKey I}
    (hx : newExpandedPublicKey I pk = some xk) :
    verifyExpanded I o f ctx xk msg sig = verify I o f ctx pk msg sig := by
  unfold newExpandedPublicKey at hx
  rcases hd : I.decode pk with _ | A
  · rw [hd] at hx; cases hx
  · rw [hd] at hx
    cases hx
    rcases o with ⟨smallA, smallR, nonCanA, nonCanR, cofactorless⟩
    cases hAs : I.isSmallOrder A <;> cases hAc : I.isCanonicalEnc pk <;> cases smallA <;> cases nonCanA <;>
      simp [verifyExpanded, verify, checkExpandedPublicKey, unpackPublicKey, hd, hAs, hAc]

/-- `NewExpandedPublicKey` fails exactly on keys that every option set rejects -/
theorem expanded_none (o : VOpts) (f : Dom) (ctx pk msg sig : Bytes) (hx : newExpandedPublicKey I pk = none) :
    verify I o f ctx pk msg sig = false := by
  unfold newExpandedPublicKey at hx
  rcases hd : I.decode pk with _ | A
  · simp [verify, unpackPublicKey, hd]
  · rw [hd] at hx; cases hx

/-- the zero value `ExpandedPublicKey{}` (`isValidY = false`) is rejected -/
theorem expanded_invalid (o : VOpts) (f : Dom) (ctx msg sig : Bytes) (xk : ExpandedKey I) (hv : xk.isValidY = false) :
    verifyExpanded I o f ctx xk msg sig = false := by
  simp [verifyExpanded, checkExpandedPublicKey, hv]

/-- entry points: for a 32-byte key that expands, both entry points have the same outcome (incl. panics) -/
theorem expanded_entry_eq (o : Option VOpts) (hh : HashSel) (ctx pk msg sig : Bytes) (hpk : pk.size = 32)
    {xk : ExpandedKey I} (hx : newExpandedPublicKey I pk = some xk) :
    verifyExpandedWithOptions I o hh ctx pk msg sig = verifyWithOptions I o hh ctx pk msg sig := by
  unfold verifyExpandedWithOptions verifyWithOptions
  rw [hx]
  simp only [hpk, ne_eq, not_true_eq_false, if_false]
  rcases mode o ctx hh msg.size with _ | ⟨f, c, v⟩
  · rfl
  · simp only [expanded_eq I v f c pk msg sig hx]

end Expanded

/-! ## Non-vacuity: a toy instance satisfying every hypothesis

`G = ℤ/104` (`= 8·13`, cyclic, so it has both the "prime-order" part generated by `B = 8` and an 8-torsion part
generated by 13), `L = 13`; points are encoded as 32 equal bytes, decoding reads byte 0 only (so there are
non-canonical encodings); the hash is the identity; `shortVec k = (−k, −1)` (both sign branches of the triple
product are exercised). -/
namespace Toy

abbrev G := ZMod 104

def enc (P : G) : Bytes := ⟨Array.replicate 32 (UInt8.ofNat P.val)⟩

def dec (b : Bytes) : Option G := if b.size = 32 then some (((b.get! 0).toNat : ℕ) : G) else none

abbrev toy : EdIface where
  G := G
  zero := 0
  add := fun P Q => P + Q
  neg := fun P => -P
  smul := fun n P => n • P
  B := 8
  decode := dec
  encode := enc
  isCanonicalEnc := fun b => match dec b with
    | some P => beq (enc P) b
    | none => false
  isSmallOrder := fun P => decide ((8 : ℕ) • P = 0)
  beqG := fun P Q => decide (P = Q)
  L := 13
  scMinimal := fun b => decide (leNat b < 13)
  hash512 := fun b => b
  shortVec := fun k => (-(k : ℤ), -1)

theorem dec_enc : ∀ P : G, dec (enc P) = some P := by decide +kernel

theorem toy_laws : Laws toy where
  zero_eq := rfl
  add_eq := fun _ _ => rfl
  neg_eq := fun _ => rfl
  smul_eq := fun _ _ => rfl
  L_prime := by show Nat.Prime 13; norm_num
  coprime8 := by decide
  L_lt := by decide
  L_B := by show (13 : ℕ) • (8 : ZMod 104) = 0; decide +kernel
  isSmallOrder_iff := fun _ => decide_eq_true_iff
  decode_encode := dec_enc
  canonical_encode := fun P => by
    show (match dec (enc P) with | some Q => beq (enc Q) (enc P) | none => false) = true
    rw [dec_enc]; exact (beq_iff _ _).2 rfl
  encode_size := by decide +kernel
  scMinimal_iff := fun _ _ => decide_eq_true_iff

theorem toy_exp : ExpHyp toy := by
  intro P
  show (8 * 13 : ℕ) • (P : ZMod 104) = 0
  rw [nsmul_eq_mul]
  have : ((8 * 13 : ℕ) : ZMod 104) = 0 := by decide +kernel
  rw [this, zero_mul]

theorem toy_sv : ∀ k, k < toy.L → ShortVecOK toy k := by
  intro k _
  refine ⟨?_, ?_⟩
  · show ((13 : ℕ) : ℤ) ∣ -(k : ℤ) - -1 * k
    simp
  · show ¬ ((13 : ℕ) : ℤ) ∣ -1
    decide

/-- the hypotheses of `model_eq_spec` are jointly satisfiable -/
example (o : VOpts) (f : Dom) (ctx pk msg sig : Bytes) :
    verify toy o f ctx pk msg sig = SpecG.verify toy o f ctx pk msg sig :=
  model_eq_spec toy toy_laws toy_exp toy_sv o f ctx pk msg sig

example (o : VOpts) (f : Dom) (ctx pk msg sig : Bytes) :
    verify toy o f ctx pk msg sig = true ↔ Accepts toy o f ctx pk msg sig :=
  model_verify_iff toy toy_laws toy_exp toy_sv o f ctx pk msg sig

/-- `delta_sound` with torsion-laden points: `A' = 1`, `C = 13` are not in the subgroup generated by `B = 8` -/
example (a b : ℕ) :
    (8 : ℕ) • ((-(a : ℤ)) • (1 : G) + ((-1 : ℤ) * (b : ℤ) % ((13 : ℕ) : ℤ)) • (8 : G) - (-1 : ℤ) • (13 : G)) = 0 ↔
    (8 : ℕ) • (a • (1 : G) + b • (8 : G) - 13) = 0 :=
  delta_sound (L := 13) (B := (8 : G)) (by norm_num) (by decide +kernel) toy_exp
    (d0 := -(a : ℤ)) (d1 := -1) (a := a) (b := b) (by simp) (by decide) 1 13

/-! concrete toy signatures (kernel-evaluated): an honest one, accepted under every flag set; and one whose A and R
carry 8-torsion components (`A = 3•B + 13`, `R = 2•B + 39`) with `S` such that only the COFACTORED equation holds -/
def pkT : Bytes := enc 24
def sigT : Bytes := enc 16 ++ natLE 3 32
def pkT2 : Bytes := enc (24 + 13)
def sigT2 : Bytes := enc (16 + 39) ++ natLE 3 32

example : SpecG.challenge toy none ByteArray.empty (bslice sigT 0 32) pkT ByteArray.empty = 9 := by decide +kernel
example : ∀ i < 32, verify toy (VOpts.ofBits i) none ByteArray.empty pkT ByteArray.empty sigT = true := by
  decide +kernel
example : ∀ i < 16, verify toy (VOpts.ofBits i) none ByteArray.empty pkT2 ByteArray.empty sigT2 = true := by
  decide +kernel
example : ∀ i < 16, verify toy (VOpts.ofBits (16 + i)) none ByteArray.empty pkT2 ByteArray.empty sigT2 = false := by
  decide +kernel
example : Accepts toy VOpts.zip215 none ByteArray.empty pkT2 ByteArray.empty sigT2 :=
  (model_verify_iff toy toy_laws toy_exp toy_sv _ _ _ _ _ _).1 (by decide +kernel)

/-- `expanded_eq`: its hypothesis is satisfiable -/
example : ∃ xk, newExpandedPublicKey toy pkT = some xk ∧
    ∀ o f ctx msg sig, verifyExpanded toy o f ctx xk msg sig = verify toy o f ctx pkT msg sig := by
  rcases hx : newExpandedPublicKey toy pkT with _ | xk
  · exact absurd hx (by decide +kernel)
  · exact ⟨xk, rfl, fun o f ctx msg sig => expanded_eq toy o f ctx pkT msg sig hx⟩

end Toy

/-- the lattice hypothesis at a concrete scalar (the 161-step example of `LatticeInv`), discharged by citation -/
example : ShortVecOK concrete Voi.Props.LatticeInv.kEx := concrete_shortVecOK _ (by decide +kernel)

end Voi.Props.C01

section Axioms
open Voi.Props.C01
#print axioms specG_concrete
#print axioms delta_sound
#print axioms delta_sound_of_coprime
#print axioms concrete_shortVecOK
#print axioms decode_of_encode_eq
#print axioms triple_value
#print axioms split_value
#print axioms triple_isSmallOrder_iff
#print axioms model_eq_spec_at
#print axioms model_eq_spec
#print axioms specG_verify_iff
#print axioms model_verify_iff
#print axioms verify_S_lt_L
#print axioms reject_smallOrder_A
#print axioms reject_smallOrder_R
#print axioms reject_nonCanonical_A
#print axioms reject_nonCanonical_R
#print axioms verify_stdlib_iff
#print axioms verify_fips_iff
#print axioms verify_zip215_iff
#print axioms verify_default_iff
#print axioms expanded_eq
#print axioms expanded_none
#print axioms expanded_entry_eq
#print axioms Toy.toy_laws
end Axioms
