/-
Properties C01 / C02 (and the group-level clause of C16) for the CONCRETE Ed25519 instance — the headline theorems with
every hypothesis of the interface-level development discharged.

Objects (all executable, all compared with the Go code on every run):
  * `Voi.Model.Ed25519.verify concrete`   the code-shaped model of `verifyWithOptionsNoPanic` (stream V2),
  * `Voi.Spec.Ed25519.verify`             the specification predicate of C01 (stream V1),
  * `Voi.Spec.Ed25519.sign`, `publicKey`, `newKeyFromSeed`   RFC 8032 signing (stream K1).

What was a hypothesis in `Props/C01`, `Props/C02` and where it is discharged now:
  * `Laws I`                (group laws, codec laws, `L•B = 0`, `L` prime, `isSmallOrder ↔ 8•P = 0`, `scMinimal_iff`)
                            → `ConcreteIface.onCurve_laws` (SpecBridge, C10, Primes, ScMinimal);
  * `ExpHyp I` (`hExp`)     → `ConcreteIface.onCurve_expHyp` (`GroupOrder.card_Ed25519 : #E = 8·L`);
  * `ShortVecOK I k`        → `ConcreteIface.onCurve_shortVecOK` (LatticeInv); its side condition
    `Finished k`            → `LatticeFuel.finished_of_lt` (each step strictly shortens `p`; ≤ 765 < 4096 iterations);
  * `OrderExact I`          → `ConcreteIface.onCurve_orderExact` (`SpecBridge.addOrderOf_B = L`);
  * "the carrier must be the on-curve points" → `ConcreteIface.verify_onCurve_eq_concrete` etc. (interface morphism).

RESIDUAL HYPOTHESES, per theorem (this is the complete list):
  * `model_eq_spec_concrete`, `model_verify_iff_concrete`, `spec_verify_iff`, the four preset corollaries,
    `verify_S_lt_L_concrete`, `verify_sig_size_concrete`, the four `reject_*` theorems, `verifyWithOptions_concrete`,
    `expanded_eq_concrete`, `expanded_eq_spec`, `expanded_entry_eq_concrete`, `delta_sound_concrete`,
    `S_unique_concrete`, `S_unique_bytes_concrete`, `flip_S_rejected_concrete`, `sign_S_canonical_concrete`,
    `sign_complete_presets_concrete`:                                   NONE (beyond the stated premises of the form
                                                                         "this input verifies / decodes");
  * `sign_complete_concrete`, `sign_complete_model_concrete`:           `seed.size = 32` (the library panics otherwise) and
        `hR : o.smallR = false → nonce … ≠ 0`   — only when the option set forbids small-order R (none of the four
        presets does); it says the SHA-512-derived nonce is not ≡ 0 (mod L), probability ≈ 2^-252, and it is NECESSARY:
        `sign_rejected_of_nonce_zero`.
  Collision resistance of SHA-512 is never assumed; nothing here says that changing the message makes verification fail.

No `sorry`, no `axiom`, no `native_decide`.  Mathlib is used; this module must not be imported by Voi/Drv/* or Main.lean.
-/
import Voi.Proofs.ConcreteIface

namespace Voi.Props.C01Concrete
open Voi Voi.Spec Voi.Proofs Voi.Model.Ed25519 Voi.Props.C01 Voi.Proofs.ConcreteIface
open Voi.Spec.Ed25519 (VOpts Dom dom2 clamp publicKey newKeyFromSeed)

set_option exponentiation.threshold 1024

/-! ## C01: model = specification, concretely -/

/-- **C01, concrete, no hypotheses.**  The code-shaped model of `verifyWithOptionsNoPanic`, run on the executable
    Spec functions, decides exactly the specification predicate — all option sets (also the pair the entry points
    reject), all dom flags, all contexts, all byte strings of all lengths. -/
theorem model_eq_spec_concrete (o : VOpts) (f : Dom) (ctx pk msg sig : Bytes) :
    verify concrete o f ctx pk msg sig = Voi.Spec.Ed25519.verify o f ctx pk msg sig := by
  rw [verify_onCurve_eq_concrete, model_eq_spec onCurve onCurve_laws onCurve_expHyp onCurve_shortVecOK_lt,
    specG_onCurve_eq_spec]

/-- the literal statement of the design, with the side condition on the options -/
theorem model_eq_spec_concrete' (o : VOpts) (_ho : ¬ (o.nonCanR = true ∧ o.cofactorless = true)) (f : Dom)
    (ctx pk msg sig : Bytes) :
    verify concrete o f ctx pk msg sig = Voi.Spec.Ed25519.verify o f ctx pk msg sig :=
  model_eq_spec_concrete o f ctx pk msg sig

/-- the model over the curve, the model over all pairs and the specification agree -/
theorem model_onCurve_eq_spec (o : VOpts) (f : Dom) (ctx pk msg sig : Bytes) :
    verify onCurve o f ctx pk msg sig = Voi.Spec.Ed25519.verify o f ctx pk msg sig := by
  rw [← verify_onCurve_eq_concrete, model_eq_spec_concrete]

/-- **the specification predicate in textbook form** (`Accepts` of `Props/C01`, over the group of curve points):
    64 bytes, `S < L`, A and R decode under the configured canonicity / small-order rules, and the configured
    equation holds for `k = SHA-512(dom2 ‖ R ‖ A ‖ M) mod L`. -/
theorem spec_verify_iff (o : VOpts) (f : Dom) (ctx pk msg sig : Bytes) :
    Voi.Spec.Ed25519.verify o f ctx pk msg sig = true ↔ Accepts onCurve o f ctx pk msg sig := by
  rw [← specG_onCurve_eq_spec, specG_verify_iff onCurve onCurve_laws]

theorem model_verify_iff_concrete (o : VOpts) (f : Dom) (ctx pk msg sig : Bytes) :
    verify concrete o f ctx pk msg sig = true ↔ Accepts onCurve o f ctx pk msg sig := by
  rw [model_eq_spec_concrete, spec_verify_iff]

/-- **no accepted signature has `S ≥ L`** (no malleability through S) -/
theorem verify_S_lt_L_concrete (o : VOpts) (f : Dom) (ctx pk msg sig : Bytes)
    (hv : verify concrete o f ctx pk msg sig = true) : leNat (bslice sig 32 32) < L :=
  ((model_verify_iff_concrete o f ctx pk msg sig).1 hv).2.1

theorem spec_S_lt_L (o : VOpts) (f : Dom) (ctx pk msg sig : Bytes)
    (hv : Voi.Spec.Ed25519.verify o f ctx pk msg sig = true) : leNat (bslice sig 32 32) < L :=
  ((spec_verify_iff o f ctx pk msg sig).1 hv).2.1

theorem verify_sig_size_concrete (o : VOpts) (f : Dom) (ctx pk msg sig : Bytes)
    (hv : verify concrete o f ctx pk msg sig = true) : sig.size = 64 :=
  ((model_verify_iff_concrete o f ctx pk msg sig).1 hv).1

/-! ### rejection clauses, on Spec points -/

/-- a Spec point of small order is killed by 8 in the group -/
theorem eight_smul_of_isSmallOrder {A : Pt} (h : A.onCurve = true) (hA : A.isSmallOrder = true) :
    (8 : ℕ) • (⟨A, h⟩ : CurvePt) = 0 := by
  apply toEd'_eq_zero.1
  rw [toEd'_nsmul]
  unfold toEd'
  exact (Voi.Proofs.isSmallOrder_iff h).1 hA

/-- small-order A is accepted only under `AllowSmallOrderA` -/
theorem reject_smallOrder_A_concrete (o : VOpts) (f : Dom) (ctx pk msg sig : Bytes) (ho : o.smallA = false)
    {A : Pt} (hd : Pt.decode pk = some A) (hA : A.isSmallOrder = true) :
    verify concrete o f ctx pk msg sig = false := by
  rw [verify_onCurve_eq_concrete]
  exact reject_smallOrder_A onCurve onCurve_laws onCurve_expHyp onCurve_shortVecOK_lt o f ctx pk msg sig ho
    (decode_some hd) (eight_smul_of_isSmallOrder _ hA)

/-- small-order R is accepted only under `AllowSmallOrderR` -/
theorem reject_smallOrder_R_concrete (o : VOpts) (f : Dom) (ctx pk msg sig : Bytes) (ho : o.smallR = false)
    {R : Pt} (hd : Pt.decode (bslice sig 0 32) = some R) (hR : R.isSmallOrder = true) :
    verify concrete o f ctx pk msg sig = false := by
  rw [verify_onCurve_eq_concrete]
  exact reject_smallOrder_R onCurve onCurve_laws onCurve_expHyp onCurve_shortVecOK_lt o f ctx pk msg sig ho
    (decode_some hd) (eight_smul_of_isSmallOrder _ hR)

/-- a non-canonical A is accepted only under `AllowNonCanonicalA` -/
theorem reject_nonCanonical_A_concrete (o : VOpts) (f : Dom) (ctx pk msg sig : Bytes) (ho : o.nonCanA = false)
    (hc : Pt.isCanonicalEnc pk = false) : verify concrete o f ctx pk msg sig = false := by
  rw [verify_onCurve_eq_concrete]
  exact reject_nonCanonical_A onCurve onCurve_laws onCurve_expHyp onCurve_shortVecOK_lt o f ctx pk msg sig ho hc

/-- a non-canonical R is accepted only under `AllowNonCanonicalR` -/
theorem reject_nonCanonical_R_concrete (o : VOpts) (f : Dom) (ctx pk msg sig : Bytes) (ho : o.nonCanR = false)
    (hc : Pt.isCanonicalEnc (bslice sig 0 32) = false) : verify concrete o f ctx pk msg sig = false := by
  rw [verify_onCurve_eq_concrete]
  exact reject_nonCanonical_R onCurve onCurve_laws onCurve_expHyp onCurve_shortVecOK_lt o f ctx pk msg sig ho hc

/-! ### the four presets (flag sets spelled out as in `Props/C01`; `A`, `R` range over curve points, `•`, `-` are
the group operations of `instAddCommGroupCurvePt`, i.e. the executable `Pt.smul`, `Pt.add`, `Pt.neg`) -/

/-- **StdLib preset** = the algorithm of Go's `crypto/ed25519` -/
theorem verify_stdlib_iff_concrete (f : Dom) (ctx pk msg sig : Bytes) :
    verify concrete ⟨true, true, true, false, true⟩ f ctx pk msg sig = true ↔
      sig.size = 64 ∧ leNat (bslice sig 32 32) < onCurve.L ∧ ∃ A : onCurve.G, onCurve.decode pk = some A ∧
        onCurve.encode (leNat (bslice sig 32 32) • onCurve.B
            - SpecG.challenge onCurve f ctx (bslice sig 0 32) pk msg • A) = bslice sig 0 32 := by
  rw [verify_onCurve_eq_concrete]
  exact verify_stdlib_iff onCurve onCurve_laws onCurve_expHyp onCurve_shortVecOK_lt f ctx pk msg sig

/-- **FIPS 186-5 / RFC 8032 preset** -/
theorem verify_fips_iff_concrete (f : Dom) (ctx pk msg sig : Bytes) :
    verify concrete ⟨true, true, false, false, false⟩ f ctx pk msg sig = true ↔
      sig.size = 64 ∧ leNat (bslice sig 32 32) < onCurve.L ∧ ∃ A R : onCurve.G, onCurve.decode pk = some A ∧
        onCurve.decode (bslice sig 0 32) = some R ∧ onCurve.isCanonicalEnc pk = true ∧
        onCurve.isCanonicalEnc (bslice sig 0 32) = true ∧
        (8 : ℕ) • (leNat (bslice sig 32 32) • onCurve.B
            - SpecG.challenge onCurve f ctx (bslice sig 0 32) pk msg • A - R) = 0 := by
  rw [verify_onCurve_eq_concrete]
  exact verify_fips_iff onCurve onCurve_laws onCurve_expHyp onCurve_shortVecOK_lt f ctx pk msg sig

/-- **ZIP-215 preset** -/
theorem verify_zip215_iff_concrete (f : Dom) (ctx pk msg sig : Bytes) :
    verify concrete ⟨true, true, true, true, false⟩ f ctx pk msg sig = true ↔
      sig.size = 64 ∧ leNat (bslice sig 32 32) < onCurve.L ∧ ∃ A R : onCurve.G, onCurve.decode pk = some A ∧
        onCurve.decode (bslice sig 0 32) = some R ∧
        (8 : ℕ) • (leNat (bslice sig 32 32) • onCurve.B
            - SpecG.challenge onCurve f ctx (bslice sig 0 32) pk msg • A - R) = 0 := by
  rw [verify_onCurve_eq_concrete]
  exact verify_zip215_iff onCurve onCurve_laws onCurve_expHyp onCurve_shortVecOK_lt f ctx pk msg sig

/-- **library default** -/
theorem verify_default_iff_concrete (f : Dom) (ctx pk msg sig : Bytes) :
    verify concrete ⟨false, true, false, false, false⟩ f ctx pk msg sig = true ↔
      sig.size = 64 ∧ leNat (bslice sig 32 32) < onCurve.L ∧ ∃ A R : onCurve.G, onCurve.decode pk = some A ∧
        onCurve.decode (bslice sig 0 32) = some R ∧ (8 : ℕ) • A ≠ 0 ∧ onCurve.isCanonicalEnc pk = true ∧
        onCurve.isCanonicalEnc (bslice sig 0 32) = true ∧
        (8 : ℕ) • (leNat (bslice sig 32 32) • onCurve.B
            - SpecG.challenge onCurve f ctx (bslice sig 0 32) pk msg • A - R) = 0 := by
  rw [verify_onCurve_eq_concrete]
  exact verify_default_iff onCurve onCurve_laws onCurve_expHyp onCurve_shortVecOK_lt f ctx pk msg sig

/-- the challenge of the interface is the Spec's challenge -/
theorem challenge_onCurve (f : Dom) (ctx r a msg : Bytes) :
    SpecG.challenge onCurve f ctx r a msg = Voi.Spec.Ed25519.challenge f ctx r a msg := rfl

/-! ### the exported entry point -/

/-- `VerifyWithOptions` (model): panics on a bad key length or invalid options, otherwise returns the value of the
    specification predicate under the effective options -/
theorem verifyWithOptions_concrete (o : Option VOpts) (hs : HashSel) (ctx pk msg sig : Bytes) :
    verifyWithOptions concrete o hs ctx pk msg sig =
      if pk.size ≠ 32 then .panic else
      match mode o ctx hs msg.size with
      | none => .panic
      | some (f, c, v) => .result (Voi.Spec.Ed25519.verify v f c pk msg sig) := by
  unfold verifyWithOptions
  by_cases hp : pk.size ≠ 32
  · simp only [if_pos hp]
  · simp only [if_neg hp]
    rcases mode o ctx hs msg.size with _ | ⟨f, c, v⟩
    · rfl
    · simp only [model_eq_spec_concrete]

/-- … and when it returns, the context is the caller's and the options are the caller's or the default -/
theorem verifyWithOptions_concrete_result (o : Option VOpts) (hs : HashSel) (ctx pk msg sig : Bytes) {b : Bool}
    (hr : verifyWithOptions concrete o hs ctx pk msg sig = .result b) :
    pk.size = 32 ∧ ∃ f, Voi.Spec.Ed25519.modeOf o ctx (decide (hs = .sha512)) (decide (hs = .other)) msg.size = some f ∧
      b = Voi.Spec.Ed25519.verify (o.getD VOpts.default) f ctx pk msg sig := by
  rw [verifyWithOptions_concrete] at hr
  by_cases hp : pk.size = 32
  case neg => simp [hp] at hr
  refine ⟨hp, ?_⟩
  simp only [hp, ne_eq, not_true_eq_false, if_false] at hr
  have hm := Voi.Props.C02.mode_eq_modeOf o ctx hs msg.size
  rcases hmode : mode o ctx hs msg.size with _ | ⟨f, c, v⟩
  · rw [hmode] at hr; cases hr
  · rw [hmode] at hr hm
    obtain ⟨rfl, rfl⟩ := Voi.Props.C02.mode_snd o ctx hs msg.size hmode
    injection hr with hr
    exact ⟨f, hm.symm, hr.symm⟩

/-! ### expanded public keys -/

/-- `VerifyExpandedWithOptions(NewExpandedPublicKey(pk), …) = VerifyWithOptions(pk, …)`, concrete model -/
theorem expanded_eq_concrete (o : VOpts) (f : Dom) (ctx pk msg sig : Bytes) {xk : ExpandedKey concrete}
    (hx : newExpandedPublicKey concrete pk = some xk) :
    verifyExpanded concrete o f ctx xk msg sig = verify concrete o f ctx pk msg sig :=
  expanded_eq concrete o f ctx pk msg sig hx

/-- the expanded-key path decides the specification predicate -/
theorem expanded_eq_spec (o : VOpts) (f : Dom) (ctx pk msg sig : Bytes) {xk : ExpandedKey concrete}
    (hx : newExpandedPublicKey concrete pk = some xk) :
    verifyExpanded concrete o f ctx xk msg sig = Voi.Spec.Ed25519.verify o f ctx pk msg sig := by
  rw [expanded_eq_concrete o f ctx pk msg sig hx, model_eq_spec_concrete]

/-- keys that do not expand are rejected by the specification under every option set -/
theorem expanded_none_spec (o : VOpts) (f : Dom) (ctx pk msg sig : Bytes)
    (hx : newExpandedPublicKey concrete pk = none) : Voi.Spec.Ed25519.verify o f ctx pk msg sig = false := by
  rw [← model_eq_spec_concrete]; exact expanded_none concrete o f ctx pk msg sig hx

theorem expanded_entry_eq_concrete (o : Option VOpts) (hh : HashSel) (ctx pk msg sig : Bytes) (hpk : pk.size = 32)
    {xk : ExpandedKey concrete} (hx : newExpandedPublicKey concrete pk = some xk) :
    verifyExpandedWithOptions concrete o hh ctx pk msg sig = verifyWithOptions concrete o hh ctx pk msg sig :=
  expanded_entry_eq concrete o hh ctx pk msg sig hpk hx

/-! ## C16, group level: δ-soundness of the lattice-scaled triple product on edwards25519 -/

/-- For ALL curve points `A`, `R` (torsion components included), every scalar `k < 2^512` and every `s`:
    `IsSmallOrder` of what `TripleScalarMulBasepointVartime(k, −A, s, R)` computes — `[d0](−A) + [d1·s]B − [d1]R` with
    `(d0, d1) = FindShortVector(k)` — holds iff the plain cofactored equation `[8]([s]B − [k]A − R) = 0` holds. -/
theorem delta_sound_concrete {k : ℕ} (hk : k < 2 ^ 512) (A : CurvePt) (s : ℕ) (R : CurvePt) :
    concrete.isSmallOrder (tripleScalarMulBasepoint concrete k (concrete.neg A.1) s R.1) = true ↔
      (8 : ℕ) • (s • Bc - k • A - R) = 0 := by
  have h1 := triple_isSmallOrder_iff onCurve_laws onCurve_expHyp (onCurve_shortVecOK hk) A s R
  rw [← val_hom.neg, val_hom.triple_eq, val_hom.isSmallOrder]
  exact h1

/-! ## C02: signing, concretely -/

open Voi.Props.C02 in
/-- `Voi.Spec.Ed25519.sign` as `signWith` over the curve -/
theorem sign_eq_signWith (f : Dom) (ctx : Bytes) (entropy : Option Bytes) (priv msg : Bytes) :
    Voi.Spec.Ed25519.sign f ctx entropy priv msg
      = SpecG.signWith onCurve f ctx (clamp (sha512 (bslice priv 0 32))) (nonce f ctx entropy priv msg)
          (bslice priv 32 32) msg := by
  rw [sign_concrete, signWith_onCurve_eq_concrete]

section Keys
attribute [local irreducible] Pt.smul Pt.encode sha512 Pt.B clamp

/-- RFC 8032 §5.1.5: the public key is the canonical encoding of `[a]B`, `a` the clamped scalar -/
theorem publicKey_eq (seed : Bytes) :
    publicKey seed = onCurve.encode (clamp (sha512 seed) • onCurve.B) := rfl

end Keys

theorem publicKey_size (seed : Bytes) : (publicKey seed).size = 32 := by
  rw [publicKey_eq]; exact onCurve_laws.encode_size _

theorem priv_seed {seed : Bytes} (hs : seed.size = 32) : bslice (newKeyFromSeed seed) 0 32 = seed := by
  unfold newKeyFromSeed bslice
  rw [ByteArray.extract_append_eq_left hs.symm]

theorem priv_pub {seed : Bytes} (hs : seed.size = 32) : bslice (newKeyFromSeed seed) 32 32 = publicKey seed := by
  unfold newKeyFromSeed bslice
  rw [ByteArray.extract_append_eq_right hs.symm (by rw [hs, publicKey_size])]

/-- the library's public keys are never of small order (clamping + `B` has order exactly `L`) -/
theorem publicKey_not_smallOrder (seed : Bytes) : (8 : ℕ) • (clamp (sha512 seed) • onCurve.B) ≠ 0 :=
  Voi.Props.C02.not_smallOrder_of_order onCurve onCurve_laws onCurve_orderExact (Voi.Props.C02.clamp_not_dvd _)

theorem nonce_lt (f : Dom) (ctx : Bytes) (entropy : Option Bytes) (priv msg : Bytes) :
    Voi.Props.C02.nonce f ctx entropy priv msg < L := by
  unfold Voi.Props.C02.nonce
  exact Nat.mod_lt _ (by decide)

/-- the signature of a seed-derived key, as `signWith` with the derived key bytes -/
theorem sign_seed {seed : Bytes} (hs : seed.size = 32) (f : Dom) (ctx : Bytes) (entropy : Option Bytes) (msg : Bytes) :
    Voi.Spec.Ed25519.sign f ctx entropy (newKeyFromSeed seed) msg
      = SpecG.signWith onCurve f ctx (clamp (sha512 seed))
          (Voi.Props.C02.nonce f ctx entropy (newKeyFromSeed seed) msg)
          (onCurve.encode (clamp (sha512 seed) • onCurve.B)) msg := by
  rw [sign_eq_signWith, priv_seed hs, priv_pub hs, publicKey_eq]

/-- **C02 completeness, concrete.**  For every 32-byte seed, every message, dom flag, context and optional added
    randomness, the signature produced by `Voi.Spec.Ed25519.sign` under the key `newKeyFromSeed seed` satisfies the
    specification predicate with the public key `publicKey seed` under EVERY option set (cofactored and cofactorless).
    Residual hypotheses: the seed length, and — only if the options forbid small-order R — that the derived nonce is not
    `0` (mod L). -/
theorem sign_complete_concrete {seed : Bytes} (hs : seed.size = 32) (o : VOpts) (f : Dom) (ctx : Bytes)
    (entropy : Option Bytes) (msg : Bytes)
    (hR : o.smallR = false → Voi.Props.C02.nonce f ctx entropy (newKeyFromSeed seed) msg ≠ 0) :
    Voi.Spec.Ed25519.verify o f ctx (publicKey seed) msg
      (Voi.Spec.Ed25519.sign f ctx entropy (newKeyFromSeed seed) msg) = true := by
  rw [sign_seed hs, publicKey_eq, ← specG_onCurve_eq_spec]
  refine Voi.Props.C02.sign_complete_key onCurve onCurve_laws o f ctx msg _ _ (fun _ => publicKey_not_smallOrder seed) ?_
  intro ho
  refine Voi.Props.C02.not_smallOrder_of_order onCurve onCurve_laws onCurve_orderExact ?_
  intro hd
  have h0 := hR ho
  have hlt := nonce_lt f ctx entropy (newKeyFromSeed seed) msg
  exact h0 (Nat.eq_zero_of_dvd_of_lt hd hlt)

/-- the same for the CODE-SHAPED model: `SelfVerify` / `Verify` after `Sign` never fails -/
theorem sign_complete_model_concrete {seed : Bytes} (hs : seed.size = 32) (o : VOpts) (f : Dom) (ctx : Bytes)
    (entropy : Option Bytes) (msg : Bytes)
    (hR : o.smallR = false → Voi.Props.C02.nonce f ctx entropy (newKeyFromSeed seed) msg ≠ 0) :
    verify concrete o f ctx (publicKey seed) msg
      (Voi.Spec.Ed25519.sign f ctx entropy (newKeyFromSeed seed) msg) = true := by
  rw [model_eq_spec_concrete]; exact sign_complete_concrete hs o f ctx entropy msg hR

/-- **the four presets need no hypothesis** besides the seed length -/
theorem sign_complete_presets_concrete {seed : Bytes} (hs : seed.size = 32) (f : Dom) (ctx : Bytes)
    (entropy : Option Bytes) (msg : Bytes) :
    let pk := publicKey seed
    let sig := Voi.Spec.Ed25519.sign f ctx entropy (newKeyFromSeed seed) msg
    Voi.Spec.Ed25519.verify VOpts.default f ctx pk msg sig = true ∧
    Voi.Spec.Ed25519.verify VOpts.stdlib f ctx pk msg sig = true ∧
    Voi.Spec.Ed25519.verify VOpts.fips f ctx pk msg sig = true ∧
    Voi.Spec.Ed25519.verify VOpts.zip215 f ctx pk msg sig = true := by
  refine ⟨?_, ?_, ?_, ?_⟩ <;> exact sign_complete_concrete hs _ f ctx entropy msg (fun hc => by cases hc)

/-- the side condition `hR` is NECESSARY: with a zero nonce `R` is the identity, which every option set without
    `AllowSmallOrderR` rejects -/
theorem sign_rejected_of_nonce_zero {seed : Bytes} (hs : seed.size = 32) (o : VOpts) (f : Dom) (ctx : Bytes)
    (entropy : Option Bytes) (msg : Bytes) (ho : o.smallR = false)
    (h0 : Voi.Props.C02.nonce f ctx entropy (newKeyFromSeed seed) msg = 0) :
    Voi.Spec.Ed25519.verify o f ctx (publicKey seed) msg
      (Voi.Spec.Ed25519.sign f ctx entropy (newKeyFromSeed seed) msg) = false := by
  rw [← model_onCurve_eq_spec, sign_seed hs, h0]
  obtain ⟨-, h2, -⟩ := Voi.Props.C02.signWith_slices onCurve onCurve_laws f ctx (clamp (sha512 seed)) 0
    (onCurve.encode (clamp (sha512 seed) • onCurve.B)) msg
  refine reject_smallOrder_R onCurve onCurve_laws onCurve_expHyp onCurve_shortVecOK_lt o f ctx _ msg _ ho
    (R := (0 : ℕ) • onCurve.B) ?_ ?_
  · rw [h2]; exact onCurve_laws.decode_encode _
  · rw [zero_smul, smul_zero]

/-- **the produced signature is well formed**: 64 bytes, `S < L` (accepted by `ScMinimalVartime`), canonical `R` -/
theorem sign_S_canonical_concrete (f : Dom) (ctx : Bytes) (entropy : Option Bytes) (priv msg : Bytes) :
    (Voi.Spec.Ed25519.sign f ctx entropy priv msg).size = 64 ∧
    leNat (bslice (Voi.Spec.Ed25519.sign f ctx entropy priv msg) 32 32) < L ∧
    Pt.isCanonicalEnc (bslice (Voi.Spec.Ed25519.sign f ctx entropy priv msg) 0 32) = true ∧
    scMinimalVartime (bslice (Voi.Spec.Ed25519.sign f ctx entropy priv msg) 32 32) = true := by
  have h := Voi.Props.C02.sign_S_canonical onCurve onCurve_laws f ctx (clamp (sha512 (bslice priv 0 32)))
    (Voi.Props.C02.nonce f ctx entropy priv msg) (bslice priv 32 32) msg
  rw [← sign_eq_signWith] at h
  generalize Voi.Spec.Ed25519.sign f ctx entropy priv msg = sig at h ⊢
  dsimp only [onCurve] at h
  exact h

/-! ### uniqueness of S -/

/-- **C02: S-uniqueness, concrete, no hypotheses.**  For fixed R bytes, key, message, context and options at most
    one `S` satisfies the specification predicate (cofactored or cofactorless). -/
theorem S_unique_concrete (o : VOpts) (f : Dom) (ctx pk msg sig sig' : Bytes)
    (hRb : bslice sig' 0 32 = bslice sig 0 32)
    (hv : Voi.Spec.Ed25519.verify o f ctx pk msg sig = true)
    (hv' : Voi.Spec.Ed25519.verify o f ctx pk msg sig' = true) :
    leNat (bslice sig' 32 32) = leNat (bslice sig 32 32) := by
  rw [← specG_onCurve_eq_spec] at hv hv'
  exact Voi.Props.C02.S_unique onCurve onCurve_laws onCurve_orderExact o f ctx pk msg sig sig' hRb hv hv'

/-- as byte strings: two accepted signatures with the same R half are equal -/
theorem S_unique_bytes_concrete (o : VOpts) (f : Dom) (ctx pk msg sig sig' : Bytes)
    (hRb : bslice sig' 0 32 = bslice sig 0 32)
    (hv : Voi.Spec.Ed25519.verify o f ctx pk msg sig = true)
    (hv' : Voi.Spec.Ed25519.verify o f ctx pk msg sig' = true) : sig' = sig := by
  rw [← specG_onCurve_eq_spec] at hv hv'
  exact Voi.Props.C02.S_unique_bytes onCurve onCurve_laws onCurve_orderExact o f ctx pk msg sig sig' hRb hv hv'

/-- **changing anything in the S half of an accepted signature makes verification fail** (specification and model) -/
theorem flip_S_rejected_concrete (o : VOpts) (f : Dom) (ctx pk msg sig sig' : Bytes)
    (hv : Voi.Spec.Ed25519.verify o f ctx pk msg sig = true)
    (hRb : bslice sig' 0 32 = bslice sig 0 32) (hne : sig' ≠ sig) :
    Voi.Spec.Ed25519.verify o f ctx pk msg sig' = false ∧ verify concrete o f ctx pk msg sig' = false := by
  have : Voi.Spec.Ed25519.verify o f ctx pk msg sig' = false := by
    rw [← Bool.not_eq_true]
    intro hv'
    exact hne (S_unique_bytes_concrete o f ctx pk msg sig sig' hRb hv hv')
  exact ⟨this, by rw [model_eq_spec_concrete]; exact this⟩

/-! ## Non-vacuity: RFC 8032 §7.1 TEST 1 (empty message), kernel-evaluated -/

def seed1 : Bytes := ofHex! "9d61b19deffd5a60ba844af492ec2cc44449c5697b326919703bac031cae7f60"
def pk1 : Bytes := ofHex! "d75a980182b10ab7d54bfed3c964073a0ee172f3daa62325af021a68f707511a"
def sig1 : Bytes := ofHex! ("e5564300c360ac729086e2cc806e828a84877f1eb8e5d974d873e065224901555fb8821590a33bacc61e39701cf9b46b" ++
  "d25bf5f0595bbe24655141438e7a100b")

example : seed1.size = 32 := by decide +kernel

/-- the hypothesis of `sign_complete_presets_concrete` is satisfiable -/
example : Voi.Spec.Ed25519.verify VOpts.default none ByteArray.empty (publicKey seed1) ByteArray.empty
    (Voi.Spec.Ed25519.sign none ByteArray.empty none (newKeyFromSeed seed1) ByteArray.empty) = true :=
  (sign_complete_presets_concrete (seed := seed1) (by decide +kernel) none ByteArray.empty none ByteArray.empty).1

/-- the side condition `hR` holds for this key and message (two SHA-512 evaluations by the kernel) … -/
theorem nonce1_ne : Voi.Props.C02.nonce none ByteArray.empty none (newKeyFromSeed seed1) ByteArray.empty ≠ 0 := by
  decide +kernel

/-- … so the hypotheses of `sign_complete_concrete` are jointly satisfiable, for EVERY option set (32 flag sets) -/
example (o : VOpts) : Voi.Spec.Ed25519.verify o none ByteArray.empty (publicKey seed1) ByteArray.empty
    (Voi.Spec.Ed25519.sign none ByteArray.empty none (newKeyFromSeed seed1) ByteArray.empty) = true :=
  sign_complete_concrete (seed := seed1) (by decide +kernel) o none ByteArray.empty none ByteArray.empty
    (fun _ => nonce1_ne)

/-- `S_unique` / `flip_S_rejected` have a satisfiable premise: the RFC signature is accepted … -/
example : Voi.Spec.Ed25519.verify VOpts.default none ByteArray.empty pk1 ByteArray.empty sig1 = true := by
  decide +kernel
/-- … by the code-shaped model as well (by the theorem, not by evaluation) -/
example : verify concrete VOpts.default none ByteArray.empty pk1 ByteArray.empty sig1 = true := by
  rw [model_eq_spec_concrete]; decide +kernel
/-- … and flipping the lowest bit of `S` makes both reject (by the theorem) -/
example : Voi.Spec.Ed25519.verify VOpts.default none ByteArray.empty pk1 ByteArray.empty
    (bslice sig1 0 32 ++ natLE (leNat (bslice sig1 32 32) ^^^ 1) 32) = false :=
  (flip_S_rejected_concrete VOpts.default none ByteArray.empty pk1 ByteArray.empty sig1 _ (by decide +kernel)
    (by decide +kernel) (by decide +kernel)).1

/-- `delta_sound_concrete` at a torsion-laden instance: `A = B + T1`, `R = T1` (neither in the prime-order subgroup) -/
example (k s : ℕ) (hk : k < 2 ^ 512) (A R : CurvePt) (hA : A = Bc + ⟨Pt.T1, T1_onCurve⟩) (hR : R = ⟨Pt.T1, T1_onCurve⟩) :
    concrete.isSmallOrder (tripleScalarMulBasepoint concrete k (concrete.neg A.1) s R.1) = true ↔
      (8 : ℕ) • (s • Bc - k • (Bc + ⟨Pt.T1, T1_onCurve⟩) - ⟨Pt.T1, T1_onCurve⟩) = 0 := by
  have := delta_sound_concrete hk A s R
  rw [hA, hR] at this ⊢
  exact this

end Voi.Props.C01Concrete

section Axioms
open Voi.Props.C01Concrete
#print axioms model_eq_spec_concrete
#print axioms spec_verify_iff
#print axioms model_verify_iff_concrete
#print axioms verify_S_lt_L_concrete
#print axioms verify_sig_size_concrete
#print axioms reject_smallOrder_A_concrete
#print axioms reject_smallOrder_R_concrete
#print axioms reject_nonCanonical_A_concrete
#print axioms reject_nonCanonical_R_concrete
#print axioms verify_stdlib_iff_concrete
#print axioms verify_fips_iff_concrete
#print axioms verify_zip215_iff_concrete
#print axioms verify_default_iff_concrete
#print axioms verifyWithOptions_concrete
#print axioms verifyWithOptions_concrete_result
#print axioms expanded_eq_concrete
#print axioms expanded_eq_spec
#print axioms expanded_none_spec
#print axioms expanded_entry_eq_concrete
#print axioms delta_sound_concrete
#print axioms sign_eq_signWith
#print axioms publicKey_not_smallOrder
#print axioms sign_complete_concrete
#print axioms sign_complete_model_concrete
#print axioms sign_complete_presets_concrete
#print axioms sign_rejected_of_nonce_zero
#print axioms sign_S_canonical_concrete
#print axioms S_unique_concrete
#print axioms S_unique_bytes_concrete
#print axioms flip_S_rejected_concrete
end Axioms
