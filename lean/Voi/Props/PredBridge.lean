/-
Second half of the bridge (see `Voi.Props.PredBridgeSc`): the regenerated `IsCanonicalVartime` decision tree equals the
specification's strict canonicity predicate `Spec.Pt.isCanonicalEnc` on every 32-byte string.
-/
import Voi.Props.PredBridgeSc
import Voi.Props.L0.Pred_IsCanonicalVartime
import Voi.Props.C10
namespace Voi.Props.PredBridge
open Voi Voi.Spec Voi.Props.Bytes Voi.Gen.Pred

theorem ite_iff {P Q : Prop} [Decidable P] [Decidable Q] (h : P ↔ Q) :
    (if P then (1 : Nat) else 0) = if Q then 1 else 0 := by
  by_cases hp : P
  · rw [if_pos hp, if_pos (h.mp hp)]
  · rw [if_neg hp, if_neg (fun q => hp (h.mpr q))]

theorem conj1_iff (b0 b1 b2 b3 b4 b5 b6 b7 b8 b9 b10 b11 b12 b13 b14 b15 b16 b17 b18 b19 b20 b21 b22 b23 b24 b25 b26 b27 b28 b29 b30 b31 : Nat) (_h0 : b0 < 256) (_h1 : b1 < 256) (_h2 : b2 < 256) (_h3 : b3 < 256) (_h4 : b4 < 256) (_h5 : b5 < 256) (_h6 : b6 < 256) (_h7 : b7 < 256) (_h8 : b8 < 256) (_h9 : b9 < 256) (_h10 : b10 < 256) (_h11 : b11 < 256) (_h12 : b12 < 256) (_h13 : b13 < 256) (_h14 : b14 < 256) (_h15 : b15 < 256) (_h16 : b16 < 256) (_h17 : b17 < 256) (_h18 : b18 < 256) (_h19 : b19 < 256) (_h20 : b20 < 256) (_h21 : b21 < 256) (_h22 : b22 < 256) (_h23 : b23 < 256) (_h24 : b24 < 256) (_h25 : b25 < 256) (_h26 : b26 < 256) (_h27 : b27 < 256) (_h28 : b28 < 256) (_h29 : b29 < 256) (_h30 : b30 < 256) (_h31 : b31 < 256) :
    (b0 = 1 ∧ b1 = 0 ∧ b2 = 0 ∧ b3 = 0 ∧ b4 = 0 ∧ b5 = 0 ∧ b6 = 0 ∧ b7 = 0 ∧ b8 = 0 ∧ b9 = 0 ∧ b10 = 0 ∧ b11 = 0 ∧ b12 = 0 ∧ b13 = 0 ∧ b14 = 0 ∧ b15 = 0 ∧ b16 = 0 ∧ b17 = 0 ∧ b18 = 0 ∧ b19 = 0 ∧ b20 = 0 ∧ b21 = 0 ∧ b22 = 0 ∧ b23 = 0 ∧ b24 = 0 ∧ b25 = 0 ∧ b26 = 0 ∧ b27 = 0 ∧ b28 = 0 ∧ b29 = 0 ∧ b30 = 0 ∧ b31 = 128) ↔ b0 + 2^8*b1 + 2^16*b2 + 2^24*b3 + 2^32*b4 + 2^40*b5 + 2^48*b6 + 2^56*b7 + 2^64*b8 + 2^72*b9 + 2^80*b10 + 2^88*b11 + 2^96*b12 + 2^104*b13 + 2^112*b14 + 2^120*b15 + 2^128*b16 + 2^136*b17 + 2^144*b18 + 2^152*b19 + 2^160*b20 + 2^168*b21 + 2^176*b22 + 2^184*b23 + 2^192*b24 + 2^200*b25 + 2^208*b26 + 2^216*b27 + 2^224*b28 + 2^232*b29 + 2^240*b30 + 2^248*b31 = 2^255 + 1 := by
  omega

theorem conj2_iff (b0 b1 b2 b3 b4 b5 b6 b7 b8 b9 b10 b11 b12 b13 b14 b15 b16 b17 b18 b19 b20 b21 b22 b23 b24 b25 b26 b27 b28 b29 b30 b31 : Nat) (_h0 : b0 < 256) (_h1 : b1 < 256) (_h2 : b2 < 256) (_h3 : b3 < 256) (_h4 : b4 < 256) (_h5 : b5 < 256) (_h6 : b6 < 256) (_h7 : b7 < 256) (_h8 : b8 < 256) (_h9 : b9 < 256) (_h10 : b10 < 256) (_h11 : b11 < 256) (_h12 : b12 < 256) (_h13 : b13 < 256) (_h14 : b14 < 256) (_h15 : b15 < 256) (_h16 : b16 < 256) (_h17 : b17 < 256) (_h18 : b18 < 256) (_h19 : b19 < 256) (_h20 : b20 < 256) (_h21 : b21 < 256) (_h22 : b22 < 256) (_h23 : b23 < 256) (_h24 : b24 < 256) (_h25 : b25 < 256) (_h26 : b26 < 256) (_h27 : b27 < 256) (_h28 : b28 < 256) (_h29 : b29 < 256) (_h30 : b30 < 256) (_h31 : b31 < 256) :
    (b0 = 236 ∧ b1 = 255 ∧ b2 = 255 ∧ b3 = 255 ∧ b4 = 255 ∧ b5 = 255 ∧ b6 = 255 ∧ b7 = 255 ∧ b8 = 255 ∧ b9 = 255 ∧ b10 = 255 ∧ b11 = 255 ∧ b12 = 255 ∧ b13 = 255 ∧ b14 = 255 ∧ b15 = 255 ∧ b16 = 255 ∧ b17 = 255 ∧ b18 = 255 ∧ b19 = 255 ∧ b20 = 255 ∧ b21 = 255 ∧ b22 = 255 ∧ b23 = 255 ∧ b24 = 255 ∧ b25 = 255 ∧ b26 = 255 ∧ b27 = 255 ∧ b28 = 255 ∧ b29 = 255 ∧ b30 = 255 ∧ b31 = 255) ↔ b0 + 2^8*b1 + 2^16*b2 + 2^24*b3 + 2^32*b4 + 2^40*b5 + 2^48*b6 + 2^56*b7 + 2^64*b8 + 2^72*b9 + 2^80*b10 + 2^88*b11 + 2^96*b12 + 2^104*b13 + 2^112*b14 + 2^120*b15 + 2^128*b16 + 2^136*b17 + 2^144*b18 + 2^152*b19 + 2^160*b20 + 2^168*b21 + 2^176*b22 + 2^184*b23 + 2^192*b24 + 2^200*b25 + 2^208*b26 + 2^216*b27 + 2^224*b28 + 2^232*b29 + 2^240*b30 + 2^248*b31 = 2^255 + (2^255 - 19 - 1) := by
  omega

set_option synthInstance.maxSize 100000 in
set_option synthInstance.maxHeartbeats 4000000 in
/-- **`IsCanonicalVartime` (regenerated from the source, incl. the two `noncanonicalSignBits` strings produced by the real
initialiser) decides the specification's strict canonicity predicate** for every 32-byte string. -/
theorem isCanonical_tree_eq_spec (b : Bytes) (hs : b.size = 32) :
    IsCanonicalVartime_sh (byte b 0) (byte b 1) (byte b 2) (byte b 3) (byte b 4) (byte b 5) (byte b 6) (byte b 7) (byte b 8) (byte b 9) (byte b 10) (byte b 11) (byte b 12) (byte b 13) (byte b 14) (byte b 15) (byte b 16) (byte b 17) (byte b 18) (byte b 19) (byte b 20) (byte b 21) (byte b 22) (byte b 23) (byte b 24) (byte b 25) (byte b 26) (byte b 27) (byte b 28) (byte b 29) (byte b 30) (byte b 31) = [if Pt.isCanonicalEnc b = true then 1 else 0] := by
  rw [Voi.Props.L0.Pred_IsCanonicalVartime _ _ _ _ _ _ _ _ _ _ _ _ _ _ _ _ _ _ _ _ _ _ _ _ _ _ _ _ _ _ _ _ (byte_lt b 0) (byte_lt b 1) (byte_lt b 2) (byte_lt b 3) (byte_lt b 4) (byte_lt b 5) (byte_lt b 6) (byte_lt b 7) (byte_lt b 8) (byte_lt b 9) (byte_lt b 10) (byte_lt b 11) (byte_lt b 12) (byte_lt b 13) (byte_lt b 14) (byte_lt b 15) (byte_lt b 16) (byte_lt b 17) (byte_lt b 18) (byte_lt b 19) (byte_lt b 20) (byte_lt b 21) (byte_lt b 22) (byte_lt b 23) (byte_lt b 24) (byte_lt b 25) (byte_lt b 26) (byte_lt b 27) (byte_lt b 28) (byte_lt b 29) (byte_lt b 30) (byte_lt b 31)]
  congr 1
  refine @ite_iff _ _ _ _ ?_
  rw [yField_sum32 b hs,
    conj1_iff _ _ _ _ _ _ _ _ _ _ _ _ _ _ _ _ _ _ _ _ _ _ _ _ _ _ _ _ _ _ _ _ (byte_lt b 0) (byte_lt b 1) (byte_lt b 2) (byte_lt b 3) (byte_lt b 4) (byte_lt b 5) (byte_lt b 6) (byte_lt b 7) (byte_lt b 8) (byte_lt b 9) (byte_lt b 10) (byte_lt b 11) (byte_lt b 12) (byte_lt b 13) (byte_lt b 14) (byte_lt b 15) (byte_lt b 16) (byte_lt b 17) (byte_lt b 18) (byte_lt b 19) (byte_lt b 20) (byte_lt b 21) (byte_lt b 22) (byte_lt b 23) (byte_lt b 24) (byte_lt b 25) (byte_lt b 26) (byte_lt b 27) (byte_lt b 28) (byte_lt b 29) (byte_lt b 30) (byte_lt b 31),
    conj2_iff _ _ _ _ _ _ _ _ _ _ _ _ _ _ _ _ _ _ _ _ _ _ _ _ _ _ _ _ _ _ _ _ (byte_lt b 0) (byte_lt b 1) (byte_lt b 2) (byte_lt b 3) (byte_lt b 4) (byte_lt b 5) (byte_lt b 6) (byte_lt b 7) (byte_lt b 8) (byte_lt b 9) (byte_lt b 10) (byte_lt b 11) (byte_lt b 12) (byte_lt b 13) (byte_lt b 14) (byte_lt b 15) (byte_lt b 16) (byte_lt b 17) (byte_lt b 18) (byte_lt b 19) (byte_lt b 20) (byte_lt b 21) (byte_lt b 22) (byte_lt b 23) (byte_lt b 24) (byte_lt b 25) (byte_lt b 26) (byte_lt b 27) (byte_lt b 28) (byte_lt b 29) (byte_lt b 30) (byte_lt b 31),
    leNat_sum32 b hs]
  have h := Voi.Props.C10.isCanonicalEnc_iff_nat b hs
  unfold Voi.Props.C10.yField at h
  rw [Voi.Props.C10.p_eq] at h
  exact h.symm

/-- non-vacuity: both predicates are exercised on concrete strings (canonical, y = p, and the x = 0 / sign-bit case) -/
example : Pt.isCanonicalEnc (natLE 5 32) = true ∧ Pt.isCanonicalEnc (natLE (2^255 - 19) 32) = false
    ∧ Pt.isCanonicalEnc (natLE (2^255 + 1) 32) = false := by decide +kernel

end Voi.Props.PredBridge
