/-
C16, refinement: the word-level model `Word.fsvLoopW` (512/384-bit two's-complement words for `N_u, N_v, p`,
128-bit words for the coordinates, every primitive = integer arithmetic modulo 2^w) computes, for every scalar
`k < 2^255`, exactly the words of the values computed by the integer-level model `fsvLoop`, takes the same
decisions, and its two returned `Int128`s read back (signed) as the integer-level result `(d0, d1)`.

What is NOT proved here (checked by stream L1, op by op): that the Go methods `PositiveLt`, `SafeToShrink`,
`BitLen`, `IsNegative`, `Add`, `AddShifted`, `SubShifted`, `Mul`, `FromInt512`, `Int128.add/sub/shl` and the
constants agree with the one-line arithmetic definitions in `Voi.Model.Lattice.Word`.
-/
import Voi.Props.LatticeInv
namespace Voi.Props.LatticeRefine
open Voi.Model.Lattice Voi.Model.Lattice.Word Voi.Props.LatticeInv

set_option exponentiation.threshold 1024

/-! ## Words and values -/

theorem two_pow_split {w : Nat} (hw : 0 < w) : ((2 ^ w : Nat) : Int) = 2 * ((2 ^ (w - 1) : Nat) : Int) := by
  have : w = (w - 1) + 1 := by omega
  rw [this, Nat.pow_succ]; simp; omega

/-- a value that fits `w`-bit two's complement is read back exactly from its word -/
theorem sval_wrap {w : Nat} (hw : 0 < w) {x : Int}
    (h1 : -((2 ^ (w - 1) : Nat) : Int) ≤ x) (h2 : x < ((2 ^ (w - 1) : Nat) : Int)) : sval w (wrap w x) = x := by
  have hs := two_pow_split hw
  unfold sval wrap
  generalize ((2 ^ w : Nat) : Int) = M at *
  by_cases hx : 0 ≤ x
  · have e : x % M = x := Int.emod_eq_of_lt hx (by omega)
    rw [e]
    have : ((x.toNat : Nat) : Int) = x := Int.toNat_of_nonneg hx
    have hlt : x.toNat < 2 ^ (w - 1) := by
      have : ((x.toNat : Nat) : Int) < ((2 ^ (w - 1) : Nat) : Int) := by omega
      exact Int.ofNat_lt.mp this
    rw [if_pos hlt]; omega
  · have e : x % M = x + M := by
      have : (x + M) % M = x + M := Int.emod_eq_of_lt (by omega) (by omega)
      rw [← this, Int.add_emod_right]
    rw [e]
    have hn : 0 ≤ x + M := by omega
    have : (((x + M).toNat : Nat) : Int) = x + M := Int.toNat_of_nonneg hn
    have hge : ¬ (x + M).toNat < 2 ^ (w - 1) := by
      intro hc
      have : (((x + M).toNat : Nat) : Int) < ((2 ^ (w - 1) : Nat) : Int) := Int.ofNat_lt.mpr hc
      omega
    rw [if_neg hge]; omega

theorem wrap_cast (w : Nat) (x : Int) : ((wrap w x : Nat) : Int) = x % ((2 ^ w : Nat) : Int) := by
  unfold wrap
  apply Int.toNat_of_nonneg
  apply Int.emod_nonneg
  have : 0 < 2 ^ w := Nat.pow_pos (by decide)
  omega

/-- a non-negative value below `2^w` is its own word -/
theorem wrap_cast_of_fits {w : Nat} {x : Int} (h0 : 0 ≤ x) (h1 : x < ((2 ^ w : Nat) : Int)) :
    ((wrap w x : Nat) : Int) = x := by
  rw [wrap_cast, Int.emod_eq_of_lt h0 h1]

/-- `AddShifted` on words computes the word of the sum of the values -/
theorem addShifted_wrap (w : Nat) (a b : Int) (s : Nat) :
    addShifted w (wrap w a) (wrap w b) s = wrap w (a + shl b s) := by
  unfold addShifted
  rw [wrap_cast, wrap_cast]
  unfold wrap shl
  congr 1
  rw [Int.add_emod, Int.emod_emod, Int.mul_emod, Int.emod_emod, ← Int.mul_emod, ← Int.add_emod]

theorem subShifted_wrap (w : Nat) (a b : Int) (s : Nat) :
    subShifted w (wrap w a) (wrap w b) s = wrap w (a - shl b s) := by
  unfold subShifted
  rw [wrap_cast, wrap_cast]
  unfold wrap shl
  congr 1
  rw [Int.sub_emod, Int.emod_emod, Int.mul_emod, Int.emod_emod, ← Int.mul_emod, ← Int.sub_emod]

theorem i128_sub_shl (a b : Int) (s : Nat) :
    i128Sub (wrap 128 a) (i128Shl (wrap 128 b) s) = wrap 128 (a - shl b s) := by
  unfold i128Sub i128Shl
  rw [wrap_cast, wrap_cast, wrap_cast]
  unfold wrap shl
  congr 1
  rw [Int.sub_emod, Int.emod_emod, Int.emod_emod, Int.mul_emod, Int.emod_emod, ← Int.mul_emod, ← Int.sub_emod]

theorem i128_add_shl (a b : Int) (s : Nat) :
    i128Add (wrap 128 a) (i128Shl (wrap 128 b) s) = wrap 128 (a + shl b s) := by
  unfold i128Add i128Shl
  rw [wrap_cast, wrap_cast, wrap_cast]
  unfold wrap shl
  congr 1
  rw [Int.add_emod, Int.emod_emod, Int.emod_emod, Int.mul_emod, Int.emod_emod, ← Int.mul_emod, ← Int.add_emod]

/-- `FromInt512` of the 512-bit word of `x` is the 384-bit word of `x` -/
theorem fromInt512_wrap (x : Int) : fromInt512 (wrap 512 x) = wrap 384 x := by
  apply Int.ofNat_inj.mp
  unfold fromInt512
  rw [Int.natCast_emod, wrap_cast, wrap_cast]
  exact Int.emod_emod_of_dvd x (by decide)

/-! ## The simulation relation -/

/-- the width in force -/
def W (st : State) : Nat := if st.wide then 512 else 384

theorem W_pos (st : State) : 0 < W st := by unfold W; split <;> decide

theorem bound_eq (st : State) : bound st = ((2 ^ (W st - 1) : Nat) : Int) := by
  unfold bound W; split <;> rfl

theorem bound_lt (st : State) : bound st < ((2 ^ W st : Nat) : Int) := by
  unfold bound W; split <;> decide

theorem bound_pos (st : State) : 0 < bound st := by
  unfold bound; split <;> decide

/-- the word state holds the words of the value state -/
structure Sim (ws : WState) (st : State) : Prop where
  wide : ws.wide = st.wide
  nu : ws.nu = wrap (W st) st.nu
  nv : ws.nv = wrap (W st) st.nv
  p  : ws.p = wrap (W st) st.p
  u0 : ws.u0 = wrap 128 st.u0
  u1 : ws.u1 = wrap 128 st.u1
  v0 : ws.v0 = wrap 128 st.v0
  v1 : ws.v1 = wrap 128 st.v1

theorem width_eq {ws : WState} {st : State} (h : Sim ws st) : width ws = W st := by
  unfold width W; rw [h.wide]

/-- `PositiveLt` decides `N_u < N_v` when both fit -/
theorem swap_sim {k : Int} {ws : WState} {st : State} (h : Sim ws st) (hi : Inv k st) (hr : RInv st) :
    Sim (swapW ws) (swap st) := by
  have a0 := nu_nonneg hi; have b0 := nv_nonneg hi
  have a1 := hr.nu_lt; have b1 := hr.nv_lt
  have hb := bound_lt st
  have ea : ((ws.nu : Nat) : Int) = st.nu := by rw [h.nu]; exact wrap_cast_of_fits a0 (by omega)
  have eb : ((ws.nv : Nat) : Int) = st.nv := by rw [h.nv]; exact wrap_cast_of_fits b0 (by omega)
  have hdec : positiveLt ws.nu ws.nv = decide (st.nu < st.nv) := by
    unfold positiveLt
    rw [← ea, ← eb]
    simp [Int.ofNat_lt]
  unfold swapW swap
  rw [hdec]
  by_cases hc : st.nu < st.nv
  · simp only [hc, decide_true, if_true]
    exact ⟨h.wide, h.nv, h.nu, h.p, h.v0, h.v1, h.u0, h.u1⟩
  · simp only [hc, decide_false, if_false]
    exact h

theorem swap_wide (st : State) : (swap st).wide = st.wide := by
  unfold swap; split <;> rfl

theorem swap_idem_of_le {st : State} (h : st.nv ≤ st.nu) : swap st = st := by
  unfold swap; rw [if_neg (by omega)]

/-- the loop head of the word model follows the loop head of the value model -/
theorem head_sim {k : Int} {ws : WState} {st : State} (h : Sim ws st) (hi : Inv k st) (hr : RInv st) :
    Sim (headW ws) (narrow (swap st)) := by
  have h1 := swap_sim h hi hr
  have hi1 := inv_swap hi
  have hr1 := rinv_swap hr
  have hle := swap_le st
  unfold headW
  simp only
  generalize swap st = st1 at *
  generalize swapW ws = ws1 at *
  have a0 := nu_nonneg hi1
  have a1 := hr1.nu_lt
  have hb := bound_lt st1
  have ea : ((ws1.nu : Nat) : Int) = st1.nu := by rw [h1.nu]; exact wrap_cast_of_fits a0 (by omega)
  have hsafe : safeToShrinkW ws1.nu = safeToShrink st1 := by
    unfold safeToShrinkW safeToShrink
    rw [← ea]
    exact decide_eq_decide.mpr Int.ofNat_lt.symm
  rw [h1.wide, hsafe]
  by_cases hc : (st1.wide && safeToShrink st1) = true
  · rw [if_pos hc]
    simp only [Bool.and_eq_true] at hc
    obtain ⟨hw, hs⟩ := hc
    -- the pass switch
    have hW1 : W st1 = 512 := by unfold W; rw [hw]; rfl
    have hnw : (narrow st1).wide = false := by
      show (st1.wide && !safeToShrink st1) = false
      rw [hw, hs]; rfl
    have hW2 : W (narrow st1) = 384 := by unfold W; rw [hnw]; rfl
    have hsim : Sim (toNarrow ws1) (narrow st1) := by
      refine ⟨by rw [hnw]; rfl, ?_, ?_, ?_, h1.u0, h1.u1, h1.v0, h1.v1⟩
      · show fromInt512 ws1.nu = wrap (W (narrow st1)) st1.nu
        rw [hW2, h1.nu, hW1, fromInt512_wrap]
      · show fromInt512 ws1.nv = wrap (W (narrow st1)) st1.nv
        rw [hW2, h1.nv, hW1, fromInt512_wrap]
      · show fromInt512 ws1.p = wrap (W (narrow st1)) st1.p
        rw [hW2, h1.p, hW1, fromInt512_wrap]
    -- the repeated swap test is a no-op
    have hr2 : RInv (narrow st1) := rinv_narrow hi1 hle hr1
    have h3 := swap_sim hsim (inv_narrow hi1) hr2
    have : swap (narrow st1) = narrow st1 := swap_idem_of_le (show st1.nv ≤ st1.nu from hle)
    rw [this] at h3
    exact h3
  · rw [if_neg hc]
    have hnw : (narrow st1).wide = st1.wide := by
      show (st1.wide && !safeToShrink st1) = st1.wide
      cases hw : st1.wide <;> cases hs : safeToShrink st1 <;> simp_all
    have hW2 : W (narrow st1) = W st1 := by unfold W; rw [hnw]
    exact ⟨by rw [hnw]; exact h1.wide, by rw [hW2]; exact h1.nu, by rw [hW2]; exact h1.nv,
      by rw [hW2]; exact h1.p, h1.u0, h1.u1, h1.v0, h1.v1⟩

/-- the facts that make the non-modular reads exact at a loop head -/
structure Fits (st : State) : Prop where
  nv0 : 0 ≤ st.nv
  nv1 : st.nv < bound st
  p0 : -bound st < st.p
  p1 : st.p < bound st

theorem fits_of {k : Int} {st : State} (hi : Inv k st) (hle : st.nv ≤ st.nu) (hr : RInv st) : Fits st := by
  obtain ⟨h1, h2⟩ := p_lt_nu hi hle
  have := hr.nu_lt
  exact ⟨nv_nonneg hi, hr.nv_lt, by omega, by omega⟩

theorem bitLen_nv_sim {ws : WState} {st : State} (h : Sim ws st) (hf : Fits st) :
    bitLenW (width ws) ws.nv = bitLen st.nv := by
  unfold bitLenW
  rw [width_eq h, h.nv, sval_wrap (W_pos st)]
  · have := hf.nv0; have := bound_pos st; rw [← bound_eq]; omega
  · rw [← bound_eq]; exact hf.nv1

theorem sval_p_sim {ws : WState} {st : State} (h : Sim ws st) (hf : Fits st) :
    sval (width ws) ws.p = st.p := by
  rw [width_eq h, h.p, sval_wrap (W_pos st)]
  · have := hf.p0; rw [← bound_eq]; omega
  · rw [← bound_eq]; exact hf.p1

theorem update_sim {ws : WState} {st : State} (h : Sim ws st) (hf : Fits st) :
    Sim (updateW ws) (update st) := by
  have hlen := bitLen_nv_sim h hf
  have hp := sval_p_sim h hf
  have hs : bitLenW (width ws) ws.p - bitLenW (width ws) ws.nv = shiftAmt st := by
    unfold shiftAmt; rw [hlen]; unfold bitLenW; rw [hp]
  have hneg : isNeg (width ws) ws.p = decide (st.p < 0) := by unfold isNeg; rw [hp]
  have hw := width_eq h
  have hWu : W (update st) = W st := by
    unfold W update; split <;> rfl
  unfold updateW
  simp only
  rw [hs, hneg, hw]
  unfold update
  simp only
  by_cases hc : 0 ≤ st.p
  · have : decide (st.p < 0) = false := by simp; omega
    rw [this]
    simp only [Bool.not_false, if_true, hc]
    refine ⟨h.wide, ?_, h.nv, ?_, ?_, ?_, h.v0, h.v1⟩
    · show subShifted (W st) (addShifted (W st) ws.nu ws.nv (2 * shiftAmt st)) ws.p (shiftAmt st + 1) = _
      rw [h.nu, h.nv, h.p, addShifted_wrap, subShifted_wrap]
      try rfl
    · show subShifted (W st) ws.p ws.nv (shiftAmt st) = _
      rw [h.p, h.nv, subShifted_wrap]
      try rfl
    · show i128Sub ws.u0 (i128Shl ws.v0 (shiftAmt st)) = _
      rw [h.u0, h.v0, i128_sub_shl]
      try rfl
    · show i128Sub ws.u1 (i128Shl ws.v1 (shiftAmt st)) = _
      rw [h.u1, h.v1, i128_sub_shl]
      try rfl
  · have : decide (st.p < 0) = true := by simp; omega
    rw [this]
    simp only [Bool.not_true, hc, if_false]
    refine ⟨h.wide, ?_, h.nv, ?_, ?_, ?_, h.v0, h.v1⟩
    · show addShifted (W st) (addShifted (W st) ws.nu ws.nv (2 * shiftAmt st)) ws.p (shiftAmt st + 1) = _
      rw [h.nu, h.nv, h.p, addShifted_wrap, addShifted_wrap]
      try rfl
    · show addShifted (W st) ws.p ws.nv (shiftAmt st) = _
      rw [h.p, h.nv, addShifted_wrap]
      try rfl
    · show i128Add ws.u0 (i128Shl ws.v0 (shiftAmt st)) = _
      rw [h.u0, h.v0, i128_add_shl]
      try rfl
    · show i128Add ws.u1 (i128Shl ws.v1 (shiftAmt st)) = _
      rw [h.u1, h.v1, i128_add_shl]
      try rfl

/-- the two loops run in lock step -/
theorem loop_sim {k : Int} : ∀ (n : Nat) {ws : WState} {st : State}, Sim ws st → Inv k st → RInv st →
    Sim (fsvLoopW n ws).1 (fsvLoop n st).1 ∧ (fsvLoopW n ws).2 = (fsvLoop n st).2
  | 0, _, _, h, _, _ => ⟨h, rfl⟩
  | n + 1, ws, st, h, hi, hr => by
    have hh := head_sim h hi hr
    have hi' := inv_head hi
    have hle : (narrow (swap st)).nv ≤ (narrow (swap st)).nu := swap_le st
    have hr' : RInv (narrow (swap st)) := rinv_narrow (inv_swap hi) (swap_le st) (rinv_swap hr)
    have hf := fits_of hi' hle hr'
    have hlen := bitLen_nv_sim hh hf
    unfold fsvLoopW fsvLoop
    simp only
    rw [hlen]
    by_cases he : exitNow (narrow (swap st)) = true
    · have : decide (bitLen (narrow (swap st)).nv ≤ T) = true := he
      rw [this]
      simp only [if_true, he]
      exact ⟨hh, trivial⟩
    · have : decide (bitLen (narrow (swap st)).nv ≤ T) = false := by
        unfold exitNow at he; simpa using he
      rw [this]
      simp only [he]
      exact loop_sim n (update_sim hh hf) (inv_update hi') (rinv_update hi' hle he hr')

theorem L_toNat : ((L.toNat : Nat) : Int) = L := by decide

theorem init_sim (k : Nat) : Sim (initW k) (init k) := by
  have hW : W (init k) = 512 := rfl
  refine ⟨rfl, rfl, ?_, ?_, rfl, rfl, rfl, rfl⟩
  · show addShifted 512 (mulW k k) 1 0 = wrap 512 ((k : Int) * k + 1)
    have h1 : (1 : Nat) = wrap 512 1 := by decide
    unfold mulW
    rw [h1, addShifted_wrap]
    congr 1
  · show mulW L.toNat k = wrap 512 (L * k)
    unfold mulW
    rw [L_toNat]

/-! ## Refinement -/

/-- For every `k < 2^255` and every fuel the word-level run takes the same decisions as the integer-level run,
    its words are the words of the integer-level values, and — when the exit test fired — the two returned
    128-bit words read back, as signed integers, as the integer-level `(d0, d1)`. -/
theorem refines {k : Nat} (hk : k < 2 ^ 255) (n : Nat) :
    (fsvLoopW n (initW k)).2 = (fsvLoop n (init k)).2 ∧
    ((fsvLoop n (init k)).2 = true →
      sval 128 (fsvLoopW n (initW k)).1.v0 = (fsvLoop n (init k)).1.v0 ∧
      sval 128 (fsvLoopW n (initW k)).1.v1 = (fsvLoop n (init k)).1.v1) := by
  obtain ⟨hs, hflag⟩ := loop_sim n (init_sim k) (inv_init k) (rinv_init hk)
  refine ⟨hflag, fun hf => ?_⟩
  have g := good_of_finished hk hf
  obtain ⟨a, b⟩ := g.short0
  obtain ⟨c, d⟩ := g.short1
  unfold B127 at a b c d
  rw [hs.v0, hs.v1]
  exact ⟨sval_wrap (by decide) (by omega) (by omega), sval_wrap (by decide) (by omega) (by omega)⟩

/-- the executable word-level model returns exactly the executable integer-level result -/
theorem fsvW_eq_fsv {k : Nat} (hk : k < 2 ^ 255) (hf : Finished k) : fsvW k = some (fsv k) := by
  obtain ⟨h1, h2⟩ := refines hk fuel
  unfold Finished fsvRun at hf
  obtain ⟨e0, e1⟩ := h2 hf
  unfold fsvW fsv fsvRun
  simp only [h1, hf, if_true, e0, e1]

/-- the handler's cross-check `fsvW k = some (d0, d1)` cannot fail -/
theorem no_model_mismatch {k : Nat} (hk : k < 2 ^ 255) {d0 d1 : Int} {it : Nat}
    (h : fsvChecked k = .ok d0 d1 it) : fsvW k = some (d0, d1) := by
  by_cases hf : Finished k
  · rw [fsvChecked_ok hk hf] at h
    injection h with h0 h1 _
    rw [fsvW_eq_fsv hk hf, ← h0, ← h1]
  · unfold Finished at hf
    unfold fsvChecked at h
    simp only [hf] at h
    cases h

/-! ## Non-vacuity -/

example : fsvW (2 ^ 255 - 1) =
    some (84667582102274932455117783478168538729, 32608151360171445284720822772657597668) := by decide +kernel
example : (fsvLoopW fuel (initW kEx)).1.wide = false := by decide +kernel
example : fsvW kEx = some (fsv kEx) := fsvW_eq_fsv (by decide) (by decide +kernel)

end Voi.Props.LatticeRefine

section Axioms
open Voi.Props.LatticeRefine
#print axioms sval_wrap
#print axioms addShifted_wrap
#print axioms loop_sim
#print axioms refines
#print axioms fsvW_eq_fsv
#print axioms no_model_mismatch
end Axioms
