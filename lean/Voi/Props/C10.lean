/-
C10 (Edwards point encoding): theorems about the executable Spec `Pt.decode`, `Pt.encode`,
`Pt.isCanonicalEnc`, `Pt.onCurve` of Voi/Spec/Edwards.lean — the functions the Go code
(`EdwardsPoint.SetCompressedY`, `CompressedEdwardsY.IsCanonicalVartime`, `MarshalBinary`) is compared
with on every run (streams D1 / T1).

* `decode_iff`              decode succeeds ⇔ 32 bytes and (y² − 1)/(d y² + 1) is a square,
                            y = (leNat b mod 2^255) mod p  (bit 255 ignored, y taken mod p)
* `decode_iff_exists`       … ⇔ 32 bytes and y is the y-coordinate of a curve point
* `decode_on_curve`         the decoded point is on the curve, has that y, has x < p, and the
                            parity of x is bit 255 of the input unless x = 0
* `encode_decode`           decode (encode P) = P for every curve point
* `decode_encode_canonical` encode (decode b) = b for canonical b
* `isCanonicalEnc_iff`      canonical ⇔ y-field < p and b is not one of the two x = 0 encodings
                            with the sign bit set
* `encode_injective`, `encode_size`, `encode_y_lt`, `encode_canonical`
* `d_nonsquare`, `den_ne_zero`   d is a non-residue, hence d y² + 1 ≠ 0 for every y

No hypothesis is left open: primality of p is `Voi.Proofs.fact_p_prime` (Voi/Proofs/Primes.lean),
`d_nonsquare` is proved here.
Mathlib is used here; this module must not be imported by Voi/Drv/* or Main.lean.
-/
import Mathlib.NumberTheory.LegendreSymbol.Basic
import Voi.Proofs.SqrtRatio
import Voi.Props.BytesLemmas
import Voi.Spec.Edwards
namespace Voi.Props.C10
open Voi Voi.Spec Voi.Proofs.SqrtRatio Voi.Props.Bytes
open Voi.Props.C07 hiding toZ
/-- Mathlib has a root-level `toZ` (order theory); here `toZ` always means the cast ℕ → ZMod p -/
local notation "toZ" => Voi.Props.C07.toZ

/-! ### the fields of an encoding -/

/-- the y-field of an encoding: low 255 bits, little endian (not yet reduced) -/
def yField (b : Bytes) : Nat := leNat b % 2 ^ 255
/-- the y value used by decoding: the y-field modulo p -/
def yOf (b : Bytes) : Nat := yField b % p
/-- bit 255 of the encoding (as a proposition) -/
def signOf (b : Bytes) : Prop := leNat b / 2 ^ 255 % 2 = 1
instance (b : Bytes) : Decidable (signOf b) := by unfold signOf; infer_instance
/-- numerator `y² − 1` and denominator `d y² + 1` of x² -/
def uOf (y : Nat) : Nat := Fp.sub (Fp.sq y) 1
def vOf (y : Nat) : Nat := Fp.add (Fp.mul Fp.d (Fp.sq y)) 1

theorem yOf_eq_ofBytes (b : Bytes) : yOf b = Fp.ofBytes b := rfl
theorem yOf_lt (b : Bytes) : yOf b < p := Nat.mod_lt _ p_pos

theorem p_eq : p = 2 ^ 255 - 19 := rfl

theorem toZ_uOf (y : Nat) : toZ (uOf y) = toZ y ^ 2 - 1 := by
  unfold uOf; rw [toZ_sub, toZ_sq, toZ_one]; ring
theorem toZ_vOf (y : Nat) : toZ (vOf y) = toZ Fp.d * toZ y ^ 2 + 1 := by
  unfold vOf; rw [toZ_add, toZ_mul, toZ_sq, toZ_one]; ring

/-- `Pt.decode` on a 32-byte string, with the `let`s named -/
theorem decode_eq (b : Bytes) (hs : b.size = 32) :
    Pt.decode b =
      if (Fp.sqrtRatioM1 (uOf (yOf b)) (vOf (yOf b))).1 = true then
        some ⟨if signOf b then Fp.neg (Fp.sqrtRatioM1 (uOf (yOf b)) (vOf (yOf b))).2
              else (Fp.sqrtRatioM1 (uOf (yOf b)) (vOf (yOf b))).2, yOf b⟩
      else none := by
  unfold Pt.decode
  rw [if_neg (by rw [hs]; exact fun h => h rfl)]
  simp only []
  unfold uOf vOf yOf yField signOf
  generalize Fp.sqrtRatioM1 (Fp.sub (Fp.sq (leNat b % 2 ^ 255 % p)) 1)
    (Fp.add (Fp.mul Fp.d (Fp.sq (leNat b % 2 ^ 255 % p))) 1) = pr
  obtain ⟨ok, x⟩ := pr
  cases ok <;> simp

theorem decode_size {b : Bytes} {P : Pt} (h : Pt.decode b = some P) : b.size = 32 := by
  by_contra hs
  unfold Pt.decode at h
  rw [if_pos hs] at h
  cases h

/-! ### small Nat-level facts -/

theorem neg_zero : Fp.neg 0 = 0 := by decide +kernel

theorem neg_neg_of_lt {a : Nat} (ha : a < p) : Fp.neg (Fp.neg a) = a :=
  toZ_inj (neg_lt _) ha (by rw [toZ_neg, toZ_neg, neg_neg])

theorem isNeg_iff {a : Nat} (ha : a < p) : Fp.isNeg a = true ↔ a % 2 = 1 := by
  unfold Fp.isNeg; rw [Nat.mod_eq_of_lt ha]; simp

theorem isNeg_false_iff {a : Nat} (ha : a < p) : Fp.isNeg a = false ↔ a % 2 = 0 := by
  unfold Fp.isNeg; rw [Nat.mod_eq_of_lt ha]; simp

/-- negating a non-zero even residue gives an odd one -/
theorem isNeg_neg {r : Nat} (hr : r < p) (hn : Fp.isNeg r = false) (h0 : r ≠ 0) :
    Fp.isNeg (Fp.neg r) = true := by
  rw [isNeg_iff (neg_lt r)]
  rw [isNeg_false_iff hr] at hn
  unfold Fp.neg
  rw [Nat.mod_eq_of_lt hr]
  have hp := p_odd
  generalize p = q at *
  rw [Nat.mod_eq_of_lt (show q - r < q by omega)]
  omega

/-! ### curve equation -/

theorem d_pow_half : Fp.pow Fp.d (p / 2) = p - 1 := by decide +kernel
theorem d_mod_ne : Fp.d % p ≠ 0 := by decide +kernel

theorem toZ_p_sub_one : toZ (p - 1) = -1 := by
  unfold Voi.Props.C07.toZ
  rw [Nat.cast_sub (by decide : 1 ≤ p), ZMod.natCast_self]
  simp

section Field

/-- **d is not a square** in `ZMod p` (Euler's criterion, `d^((p−1)/2) = −1` by kernel computation) -/
theorem d_nonsquare : ¬ IsSquare (toZ Fp.d) := by
  intro h
  have hd0 : toZ Fp.d ≠ 0 := fun h0 => d_mod_ne ((toZ_eq_zero_iff _).1 h0)
  have h1 := (ZMod.euler_criterion p hd0).1 h
  rw [← toZ_pow _ _ (by decide +kernel), d_pow_half, toZ_p_sub_one] at h1
  exact one_ne_neg_one h1.symm

/-- the denominator `d y² + 1` never vanishes (−1/d is not a square) -/
theorem den_ne_zero (y : ZMod p) : toZ Fp.d * y ^ 2 + 1 ≠ 0 := by
  intro h
  have hy : y ≠ 0 := by
    rintro rfl
    rw [zero_pow (by decide), mul_zero, zero_add] at h
    exact one_ne_zero h
  apply d_nonsquare
  refine ⟨I / y, ?_⟩
  rw [div_mul_div_comm, I_mul_I, eq_div_iff (mul_ne_zero hy hy)]
  linear_combination h

theorem toZ_vOf_ne (y : Nat) : toZ (vOf y) ≠ 0 := by
  rw [toZ_vOf]; exact den_ne_zero _

end Field

theorem encode_size (P : Pt) : (Pt.encode P).size = 32 := natLE_size _ _

theorem leNat_encode (P : Pt) :
    leNat (Pt.encode P) = P.y % p + (if Fp.isNeg P.x then 2 ^ 255 else 0) := by
  unfold Pt.encode
  rw [leNat_natLE]
  have hy : P.y % p < p := Nat.mod_lt _ p_pos
  have hp := p_eq
  apply Nat.mod_eq_of_lt
  split <;> omega

/-- the y-field of an encoding is the reduced y: encodings always have y < p -/
theorem yField_encode (P : Pt) : yField (Pt.encode P) = P.y % p := by
  unfold yField
  rw [leNat_encode]
  have hy : P.y % p < p := Nat.mod_lt _ p_pos
  have hp := p_eq
  split <;> omega

theorem encode_y_lt (P : Pt) : yField (Pt.encode P) < p := by
  rw [yField_encode]; exact Nat.mod_lt _ p_pos

theorem signOf_encode (P : Pt) : signOf (Pt.encode P) ↔ Fp.isNeg P.x = true := by
  unfold signOf
  rw [leNat_encode]
  have hy : P.y % p < p := Nat.mod_lt _ p_pos
  have hp := p_eq
  by_cases h : Fp.isNeg P.x = true
  · rw [if_pos h]; simp only [h, iff_true]; omega
  · rw [if_neg h]
    constructor
    · intro h'; exfalso; omega
    · intro h'; exact absurd h' h

/-- `Pt.onCurve` in `ZMod p` -/
theorem onCurve_iff (P : Pt) :
    P.onCurve = true ↔ P.x < p ∧ P.y < p ∧
      toZ P.y ^ 2 - toZ P.x ^ 2 = 1 + toZ Fp.d * (toZ P.x ^ 2 * toZ P.y ^ 2) := by
  unfold Pt.onCurve
  simp only [Bool.and_eq_true, decide_eq_true_eq]
  rw [beq_iff (sub_lt _ _) (add_lt _ _), toZ_sub, toZ_add, toZ_mul, toZ_mul, toZ_sq, toZ_sq, toZ_one,
    and_assoc]
  constructor
  · rintro ⟨h1, h2, h3⟩; exact ⟨h1, h2, by linear_combination h3⟩
  · rintro ⟨h1, h2, h3⟩; exact ⟨h1, h2, by linear_combination h3⟩

/-- the curve equation solved for x²: `(d y² + 1) x² = y² − 1` -/
theorem curve_eq_iff (x y : ZMod p) :
    y ^ 2 - x ^ 2 = 1 + toZ Fp.d * (x ^ 2 * y ^ 2) ↔ (toZ Fp.d * y ^ 2 + 1) * x ^ 2 = y ^ 2 - 1 := by
  constructor <;> intro h <;> linear_combination -h

section Field

/-! ### decoding -/

/-- **Acceptance criterion.**  Decoding succeeds exactly for 32-byte strings whose masked y
(taken modulo p) makes `(y² − 1)/(d y² + 1)` a square. -/
theorem decode_iff (b : Bytes) :
    (Pt.decode b).isSome = true ↔
      b.size = 32 ∧ IsSquare ((toZ (yOf b) ^ 2 - 1) / (toZ Fp.d * toZ (yOf b) ^ 2 + 1)) := by
  by_cases hs : b.size = 32
  · rw [decode_eq b hs, ← toZ_uOf, ← toZ_vOf]
    have hflag := sqrtRatioM1_flag (uOf (yOf b)) (vOf (yOf b))
    have hv := toZ_vOf_ne (yOf b)
    constructor
    · intro h
      refine ⟨hs, ?_⟩
      by_cases hok : (Fp.sqrtRatioM1 (uOf (yOf b)) (vOf (yOf b))).1 = true
      · rcases hflag.1 hok with h0 | ⟨_, h1⟩
        · rw [h0, zero_div]; exact ⟨0, by ring⟩
        · exact h1
      · rw [if_neg hok] at h; exact Bool.noConfusion h
    · rintro ⟨_, hsq⟩
      rw [if_pos (hflag.2 (Or.inr ⟨hv, hsq⟩))]; rfl
  · constructor
    · intro h
      unfold Pt.decode at h
      rw [if_pos hs] at h; exact Bool.noConfusion h
    · rintro ⟨h, _⟩; exact absurd h hs

/-- **The decoded point.**  It lies on the curve, its y is the masked input y modulo p, its x is
reduced, and the parity ("sign") of x is bit 255 of the input unless x = 0 (for x = 0 both sign
bits are accepted and decode to the same point). -/
theorem decode_on_curve {b : Bytes} {P : Pt} (h : Pt.decode b = some P) :
    P.onCurve = true ∧ P.y = yOf b ∧ P.x < p ∧
      (P.x ≠ 0 → (Fp.isNeg P.x = true ↔ signOf b)) := by
  have hs := decode_size h
  rw [decode_eq b hs] at h
  by_cases hok : (Fp.sqrtRatioM1 (uOf (yOf b)) (vOf (yOf b))).1 = true
  · rw [if_pos hok] at h
    have hroot := sqrtRatioM1_ok' hok
    have hlt := sqrtRatioM1_lt (uOf (yOf b)) (vOf (yOf b))
    have hnn := sqrtRatioM1_nonneg (uOf (yOf b)) (vOf (yOf b))
    generalize (Fp.sqrtRatioM1 (uOf (yOf b)) (vOf (yOf b))).2 = r at h hroot hlt hnn
    injection h with h
    subst h
    simp only []
    have hxlt : (if signOf b then Fp.neg r else r) < p := by
      split
      · exact neg_lt r
      · exact hlt
    have hxsq : toZ (if signOf b then Fp.neg r else r) ^ 2 = toZ r ^ 2 := by
      split
      · rw [toZ_neg]; ring
      · rfl
    refine ⟨?_, trivial, hxlt, ?_⟩
    · rw [onCurve_iff]
      refine ⟨hxlt, yOf_lt b, ?_⟩
      simp only []
      rw [curve_eq_iff, hxsq, ← toZ_vOf, ← toZ_uOf]
      exact hroot
    · intro hx0
      by_cases hsg : signOf b
      · rw [if_pos hsg] at hx0 ⊢
        have hr0 : r ≠ 0 := by
          rintro rfl
          exact hx0 neg_zero
        simp only [hsg, iff_true]
        exact isNeg_neg hlt hnn hr0
      · rw [if_neg hsg]
        simp only [hsg, iff_false]
        rw [hnn]; exact Bool.noConfusion
  · rw [if_neg hok] at h; cases h

/-- Decoding succeeds exactly when the masked y (mod p) is the y-coordinate of a curve point. -/
theorem decode_iff_exists (b : Bytes) :
    (Pt.decode b).isSome = true ↔ b.size = 32 ∧ ∃ P : Pt, P.onCurve = true ∧ P.y = yOf b := by
  constructor
  · intro h
    obtain ⟨P, hP⟩ := Option.isSome_iff_exists.1 h
    exact ⟨decode_size hP, P, (decode_on_curve hP).1, (decode_on_curve hP).2.1⟩
  · rintro ⟨hs, P, hP, hy⟩
    rw [decode_iff]
    refine ⟨hs, toZ P.x, ?_⟩
    obtain ⟨_, _, heq⟩ := (onCurve_iff P).1 hP
    rw [curve_eq_iff, hy] at heq
    rw [div_eq_iff (den_ne_zero _), ← heq]; ring

/-! ### encoding -/

/-- **Round trip 1.**  Every curve point decodes back from its encoding. -/
theorem encode_decode {P : Pt} (hP : P.onCurve = true) : Pt.decode (Pt.encode P) = some P := by
  obtain ⟨hx, hy, heq⟩ := (onCurve_iff P).1 hP
  have hyof : yOf (Pt.encode P) = P.y := by
    unfold yOf; rw [yField_encode, Nat.mod_mod, Nat.mod_eq_of_lt hy]
  rw [decode_eq _ (encode_size P), hyof]
  rw [curve_eq_iff] at heq
  have hroot : toZ (vOf P.y) * toZ (Fp.abs P.x) ^ 2 = toZ (uOf P.y) := by
    rw [toZ_abs_sq, toZ_vOf, toZ_uOf]; exact heq
  rw [sqrtRatioM1_unique (toZ_vOf_ne P.y) (abs_lt _) (abs_nonneg _) hroot]
  simp only [if_true]
  congr 1
  obtain ⟨x, y⟩ := P
  simp only [] at hx ⊢
  congr 1
  by_cases hn : Fp.isNeg x = true
  · rw [if_pos ((signOf_encode _).2 hn)]
    unfold Fp.abs; rw [if_pos hn]; exact neg_neg_of_lt hx
  · rw [if_neg (fun h => hn ((signOf_encode _).1 h))]
    unfold Fp.abs; rw [if_neg hn]; exact Nat.mod_eq_of_lt hx

/-- **Injectivity.**  Distinct curve points have distinct encodings. -/
theorem encode_injective {P Q : Pt} (hP : P.onCurve = true) (hQ : Q.onCurve = true)
    (h : Pt.encode P = Pt.encode Q) : P = Q := by
  have h1 := encode_decode hP
  rw [h, encode_decode hQ] at h1
  exact (Option.some.inj h1).symm

end Field

/-! ### canonical encodings -/

/-- **Canonicity test.**  For 32-byte strings: canonical ⇔ the y-field is below p and the value is
neither `2^255 + 1` (y = 1, sign bit set) nor `2^255 + (p − 1)` (y = −1, sign bit set). -/
theorem isCanonicalEnc_iff_nat (b : Bytes) (hs : b.size = 32) :
    Pt.isCanonicalEnc b = true ↔
      yField b < p ∧ leNat b ≠ 2 ^ 255 + 1 ∧ leNat b ≠ 2 ^ 255 + (p - 1) := by
  unfold Pt.isCanonicalEnc yField
  rw [if_neg (by rw [hs]; exact fun h => h rfl)]
  have hlt : leNat b < 256 ^ b.size := leNat_lt b
  rw [hs] at hlt
  have hp := p_eq
  simp only [Bool.and_eq_true, decide_eq_true_eq, Bool.not_eq_true', Bool.and_eq_false_iff,
    Bool.or_eq_false_iff, decide_eq_false_iff_not, beq_eq_false_iff_ne, ne_eq]
  generalize leNat b = n at *
  constructor
  · rintro ⟨h1, h2⟩
    refine ⟨h1, ?_, ?_⟩
    · intro hn; rcases h2 with h2 | ⟨h2, _⟩ <;> omega
    · intro hn; rcases h2 with h2 | ⟨_, h2⟩ <;> omega
  · rintro ⟨h1, h2, h3⟩
    refine ⟨h1, ?_⟩
    by_cases hsg : n / 2 ^ 255 % 2 = 1
    · right; constructor <;> omega
    · left; exact hsg

/-- the two non-canonical x = 0 encodings -/
def encY1Sign : Bytes := natLE (2 ^ 255 + 1) 32
def encYm1Sign : Bytes := natLE (2 ^ 255 + (p - 1)) 32

example : encY1Sign =
    ofHex! "0100000000000000000000000000000000000000000000000000000000000080" := by decide +kernel
example : encYm1Sign =
    ofHex! "ecffffffffffffffffffffffffffffffffffffffffffffffffffffffffffffff" := by decide +kernel

/-- **Canonicity test**, byte-string form: canonical ⇔ y-field < p and `b` is not one of the two
encodings (y = 1 or y = p − 1) with the sign bit set. -/
theorem isCanonicalEnc_iff (b : Bytes) (hs : b.size = 32) :
    Pt.isCanonicalEnc b = true ↔ yField b < p ∧ b ≠ encY1Sign ∧ b ≠ encYm1Sign := by
  rw [isCanonicalEnc_iff_nat b hs]
  have hp := p_eq
  have e1 : leNat encY1Sign = 2 ^ 255 + 1 := by
    unfold encY1Sign; rw [leNat_natLE]; apply Nat.mod_eq_of_lt; omega
  have e2 : leNat encYm1Sign = 2 ^ 255 + (p - 1) := by
    unfold encYm1Sign; rw [leNat_natLE]; apply Nat.mod_eq_of_lt; omega
  have s1 : b.size = encY1Sign.size := by rw [hs]; exact (natLE_size _ _).symm
  have s2 : b.size = encYm1Sign.size := by rw [hs]; exact (natLE_size _ _).symm
  constructor
  · rintro ⟨h1, h2, h3⟩
    exact ⟨h1, fun h => h2 (by rw [h, e1]), fun h => h3 (by rw [h, e2])⟩
  · rintro ⟨h1, h2, h3⟩
    exact ⟨h1, fun h => h2 (leNat_inj s1 (h.trans e1.symm)), fun h => h3 (leNat_inj s2 (h.trans e2.symm))⟩

theorem isCanonicalEnc_size {b : Bytes} (h : Pt.isCanonicalEnc b = true) : b.size = 32 := by
  by_contra hs
  unfold Pt.isCanonicalEnc at h
  rw [if_pos hs] at h
  exact Bool.noConfusion h

section Field

/-- a reduced y with y² = 1 is 1 or p − 1 -/
theorem y_of_sq_one {y : Nat} (hy : y < p) (h : toZ y ^ 2 - 1 = 0) : y = 1 ∨ y = p - 1 := by
  have hf : (toZ y - 1) * (toZ y + 1) = 0 := by linear_combination h
  rcases mul_eq_zero.1 hf with h1 | h1
  · left
    exact toZ_inj hy (by decide) ((sub_eq_zero.1 h1).trans toZ_one.symm)
  · right
    refine toZ_inj hy (by decide) ?_
    rw [toZ_p_sub_one]; exact eq_neg_of_add_eq_zero_left h1

/-- **Round trip 2.**  Re-encoding the point decoded from a canonical encoding returns the input. -/
theorem decode_encode_canonical {b : Bytes} {P : Pt} (hc : Pt.isCanonicalEnc b = true)
    (hd : Pt.decode b = some P) : Pt.encode P = b := by
  have hs := isCanonicalEnc_size hc
  obtain ⟨hylt, hn1, hn2⟩ := (isCanonicalEnc_iff_nat b hs).1 hc
  obtain ⟨hP, hy, hx, hsign⟩ := decode_on_curve hd
  have hyof : yOf b = yField b := Nat.mod_eq_of_lt hylt
  -- the sign bit of b is the parity of x, also when x = 0
  have hsg : (Fp.isNeg P.x = true ↔ signOf b) := by
    by_cases hx0 : P.x = 0
    · -- x = 0 forces y = ±1, and canonicity then forces the sign bit to be clear
      obtain ⟨_, _, heq⟩ := (onCurve_iff P).1 hP
      rw [curve_eq_iff, hx0, toZ_zero] at heq
      have hy1 : toZ P.y ^ 2 - 1 = 0 := by rw [← heq]; ring
      have hcases := y_of_sq_one (hy ▸ yOf_lt b) hy1
      rw [hy, hyof] at hcases
      have hlt : leNat b < 256 ^ b.size := leNat_lt b
      rw [hs] at hlt
      have hns : ¬ signOf b := by
        unfold signOf
        unfold yField at hcases hylt
        have hp := p_eq
        generalize leNat b = n at *
        intro hsgn
        rcases hcases with h | h <;> omega
      have : Fp.isNeg P.x = false := by rw [hx0]; decide +kernel
      rw [this]; simp [hns]
    · exact hsign hx0
  apply leNat_inj (by rw [encode_size, hs])
  rw [leNat_encode, hy, hyof, Nat.mod_eq_of_lt hylt]
  have hlt : leNat b < 256 ^ b.size := leNat_lt b
  rw [hs] at hlt
  unfold yField
  by_cases hn : Fp.isNeg P.x = true
  · rw [if_pos hn]
    have := hsg.1 hn
    unfold signOf at this
    omega
  · rw [if_neg hn]
    have : ¬ signOf b := fun h => hn (hsg.2 h)
    unfold signOf at this
    omega

/-- **Encoding is canonical.**  The encoding of a curve point passes the strict canonicity test. -/
theorem encode_canonical {P : Pt} (hP : P.onCurve = true) :
    Pt.isCanonicalEnc (Pt.encode P) = true := by
  rw [isCanonicalEnc_iff_nat _ (encode_size P)]
  obtain ⟨hx, hy, heq⟩ := (onCurve_iff P).1 hP
  refine ⟨encode_y_lt P, ?_, ?_⟩
  all_goals
    rw [leNat_encode, Nat.mod_eq_of_lt hy]
    intro h
    have hp := p_eq
    -- the sign bit is set, so x is odd, in particular non-zero; but y = ±1 forces x = 0
    have hneg : Fp.isNeg P.x = true := by
      by_contra hn
      rw [if_neg hn] at h
      omega
    rw [if_pos hneg] at h
    have hy1 : toZ P.y ^ 2 - 1 = 0 := by
      have : P.y = 1 ∨ P.y = p - 1 := by omega
      rcases this with h1 | h1 <;> rw [h1]
      · rw [toZ_one]; ring
      · rw [toZ_p_sub_one]; ring
    rw [curve_eq_iff, hy1] at heq
    have hx0 : toZ P.x = 0 := by
      rcases mul_eq_zero.1 heq with h1 | h1
      · exact absurd h1 (den_ne_zero _)
      · exact pow_eq_zero_iff (by decide) |>.1 h1
    have : P.x = 0 := eq_zero_of_toZ hx hx0
    rw [this] at hneg
    revert hneg
    decide +kernel

/-- **Uniqueness of the canonical form**: a canonical string decodes to `P` iff it is `encode P`
(for curve points `P`). -/
theorem canonical_decode_iff {b : Bytes} {P : Pt} (hc : Pt.isCanonicalEnc b = true)
    (hP : P.onCurve = true) : Pt.decode b = some P ↔ b = Pt.encode P :=
  ⟨fun h => (decode_encode_canonical hc h).symm, fun h => h ▸ encode_decode hP⟩

end Field

/-! ### the hypotheses are satisfiable: concrete values (kernel computation) -/

/-- the base point encoding 5866…66 (y = 4/5) -/
def encB : Bytes := ofHex! "5866666666666666666666666666666666666666666666666666666666666666"

example : encB.size = 32 := by decide +kernel
example : (Pt.decode encB).isSome = true := by decide +kernel
example : Pt.decode encB = some Pt.B ∧ Pt.B.onCurve = true := by decide +kernel
example : Pt.isCanonicalEnc encB = true ∧ Pt.encode Pt.B = encB := by decide +kernel
example : Pt.B.x =
    15112221349535400772501151409588531511454012693041857206046113283949847762202 := by decide +kernel
-- y = 1: the identity, with either sign bit; only the first is canonical
example : Pt.decode (natLE 1 32) = some Pt.zero ∧ Pt.isCanonicalEnc (natLE 1 32) = true := by
  decide +kernel
example : Pt.decode encY1Sign = some Pt.zero ∧ Pt.isCanonicalEnc encY1Sign = false := by
  decide +kernel
-- y = p − 1 (the point of order 2) with the sign bit set: accepted, not canonical
example : Pt.decode encYm1Sign = some ⟨0, p - 1⟩ ∧ Pt.isCanonicalEnc encYm1Sign = false := by
  decide +kernel
-- y = p + 1 ≡ 1 (non-canonical y): accepted as the identity, not canonical, re-encodes differently
example : Pt.decode (natLE (p + 1) 32) = some Pt.zero ∧
    Pt.isCanonicalEnc (natLE (p + 1) 32) = false ∧
    Pt.encode Pt.zero ≠ natLE (p + 1) 32 := by decide +kernel
-- y = 2 is not on the curve: rejected; wrong lengths: rejected
example : Pt.decode (natLE 2 32) = none := by decide +kernel
example : Pt.decode (natLE 1 31) = none ∧ Pt.decode (natLE 1 33) = none := by decide +kernel

#print axioms d_nonsquare
#print axioms den_ne_zero
#print axioms decode_iff
#print axioms decode_iff_exists
#print axioms decode_on_curve
#print axioms encode_decode
#print axioms decode_encode_canonical
#print axioms isCanonicalEnc_iff
#print axioms isCanonicalEnc_iff_nat
#print axioms encode_injective
#print axioms encode_size
#print axioms encode_y_lt
#print axioms encode_canonical
#print axioms canonical_decode_iff

end Voi.Props.C10
