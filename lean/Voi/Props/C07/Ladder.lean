/-
C07 helper: the Go ladder (`Voi.Model.Montgomery.mulLoop`, Costello–Smith swap schedule, `Mul121666`)
and the RFC 7748 ladder (`Voi.Spec.X25519.ladder`, per-iteration `cswap`, a24 = 121665) compute the
same field elements in every iteration, for every scalar and every u.  No curve theory is used:
the two algorithms are equal as programs over ℤ/p.
-/
import Voi.Props.C07.FpRing
import Voi.Model.Montgomery
import Voi.Spec.X25519
namespace Voi.Props.C07
open Voi Voi.Spec

/-! ## 1. One step -/

/-- The arithmetic of one iteration of the RFC 7748 §5 loop after the two `cswap`s
(A, AA, B, BB, E, C, D, DA, CB, …), returning the new (x_2, z_2, x_3, z_3). -/
def rfcStep (x1 x2 z2 x3 z3 : Nat) : Nat × Nat × Nat × Nat :=
  let A := Fp.add x2 z2
  let AA := Fp.sq A
  let B := Fp.sub x2 z2
  let BB := Fp.sq B
  let E := Fp.sub AA BB
  let C := Fp.add x3 z3
  let D := Fp.sub x3 z3
  let DA := Fp.mul D A
  let CB := Fp.mul C B
  let x3 := Fp.sq (Fp.add DA CB)
  let z3 := Fp.mul x1 (Fp.sq (Fp.sub DA CB))
  let x2 := Fp.mul AA BB
  let z2 := Fp.mul E (Fp.add AA (Fp.mul Spec.X25519.a24 E))
  (x2, z2, x3, z3)

/-- `ladderStep` is: xor the swap bit, two `cswap`s, `rfcStep`, remember the bit.  (By unfolding.) -/
theorem ladderStep_unfold (x1 k t : Nat) (s : Spec.X25519.State) :
    Spec.X25519.ladderStep x1 k t s =
      (let kt := (k >>> t) &&& 1
       let sw := s.swap ^^^ kt
       let X := Spec.X25519.cswap sw s.x2 s.x3
       let Z := Spec.X25519.cswap sw s.z2 s.z3
       let r := rfcStep x1 X.1 Z.1 X.2 Z.2
       ⟨r.1, r.2.1, r.2.2.1, r.2.2.2, kt⟩) := rfl

/-- Go `montgomeryDifferentialAddAndDouble` = the RFC's step arithmetic, as field elements
(equal representatives in [0, p), not merely projectively equal).  The only non-syntactic point is
`E·(AA + 121665·E) = E·(121666·E + BB)`, which holds because `E = AA − BB`. -/
theorem step_eq_core (x1 x2 z2 x3 z3 : Nat) :
    Model.Montgomery.diffAddAndDouble ⟨x2, z2⟩ ⟨x3, z3⟩ x1 =
      (let r := rfcStep x1 x2 z2 x3 z3
       (⟨r.1, r.2.1⟩, ⟨r.2.2.1, r.2.2.2⟩)) := by
  unfold Model.Montgomery.diffAddAndDouble rfcStep Model.Montgomery.mul121666 Spec.X25519.a24
  simp only [Prod.mk.injEq, Model.Montgomery.ProjPt.mk.injEq]
  refine ⟨⟨?_, ?_⟩, ?_, ?_⟩
  · trivial
  · apply toZ_inj (mul_lt _ _) (mul_lt _ _)
    have h5 : toZ 121665 = 121665 := Nat.cast_ofNat
    have h6 : toZ 121666 = 121666 := Nat.cast_ofNat
    simp only [toZ_add, toZ_sub, toZ_mul, toZ_sq, h5, h6]
    ring
  · apply toZ_inj (sq_lt _) (sq_lt _)
    simp only [toZ_add, toZ_sub, toZ_mul, toZ_sq]
    ring
  · apply toZ_inj (mul_lt _ _) (mul_lt _ _)
    simp only [toZ_add, toZ_sub, toZ_mul, toZ_sq]
    ring

/-! ## 2. The swap schedule -/

theorem p_lt : p < 2 ^ 256 := by decide

theorem cswap_zero (a b : Nat) : Spec.X25519.cswap 0 a b = (a, b) := by
  simp [Spec.X25519.cswap]

theorem cswap_one {a b : Nat} (ha : a < 2 ^ 256) (hb : b < 2 ^ 256) :
    Spec.X25519.cswap 1 a b = (b, a) := by
  unfold Spec.X25519.cswap
  have h10 : (1 : Nat) ≠ 0 := by decide
  simp only [if_neg h10]
  rw [Nat.and_comm, Nat.and_two_pow_sub_one_eq_mod, Nat.mod_eq_of_lt (Nat.xor_lt_two_pow ha hb)]
  have e1 : a ^^^ (a ^^^ b) = b := by rw [← Nat.xor_assoc, Nat.xor_self, Nat.zero_xor]
  have e2 : b ^^^ (a ^^^ b) = a := by
    rw [Nat.xor_comm a b, ← Nat.xor_assoc, Nat.xor_self, Nat.zero_xor]
  rw [e1, e2]

/-- The RFC's masked-xor `cswap` is a conditional swap on 256-bit values. -/
theorem cswap_eq_ite {sw a b : Nat} (hsw : sw < 2) (ha : a < 2 ^ 256) (hb : b < 2 ^ 256) :
    Spec.X25519.cswap sw a b = if sw = 1 then (b, a) else (a, b) := by
  have : sw = 0 ∨ sw = 1 := by omega
  rcases this with rfl | rfl
  · rw [cswap_zero]; simp
  · rw [cswap_one ha hb]; simp

theorem bit_lt (k i : Nat) : Model.Montgomery.bit k i < 2 := Nat.mod_lt _ (by decide)

/-- The RFC's `k_t = (k >> t) & 1` is the Go code's `bits[t]`. -/
theorem rfc_bit_eq (k t : Nat) : (k >>> t) &&& 1 = Model.Montgomery.bit k t :=
  Nat.and_one_is_mod _

theorem xor_bit_lt {a b : Nat} (ha : a < 2) (hb : b < 2) : a ^^^ b < 2 :=
  Nat.xor_lt_two_pow (n := 1) ha hb

/-- the Go loop state that corresponds to an RFC state -/
def toPair (s : Spec.X25519.State) : Model.Montgomery.ProjPt × Model.Montgomery.ProjPt :=
  (⟨s.x2, s.z2⟩, ⟨s.x3, s.z3⟩)

/-- all four ladder variables are 256-bit values (they are < p after the first step) -/
def Bounded (s : Spec.X25519.State) : Prop :=
  s.x2 < 2 ^ 256 ∧ s.z2 < 2 ^ 256 ∧ s.x3 < 2 ^ 256 ∧ s.z3 < 2 ^ 256

/-- The loop invariant relating the two ladders before iteration `t` (i.e. after the iterations
254 … t+1): the Go pair *is* the RFC quadruple — the RFC does not swap back after the step, it
remembers `swap = k_{t+1}` instead, and the Go code recomputes that bit as `bits[t+1]`. -/
structure Rel (k t : Nat) (s : Spec.X25519.State)
    (st : Model.Montgomery.ProjPt × Model.Montgomery.ProjPt) : Prop where
  eq : st = toPair s
  swap : s.swap = Model.Montgomery.bit k t
  bounded : Bounded s

theorem rfcStep_bounded (x1 x2 z2 x3 z3 : Nat) :
    (rfcStep x1 x2 z2 x3 z3).1 < 2 ^ 256 ∧ (rfcStep x1 x2 z2 x3 z3).2.1 < 2 ^ 256 ∧
    (rfcStep x1 x2 z2 x3 z3).2.2.1 < 2 ^ 256 ∧ (rfcStep x1 x2 z2 x3 z3).2.2.2 < 2 ^ 256 := by
  unfold rfcStep
  exact ⟨Nat.lt_trans (mul_lt _ _) p_lt, Nat.lt_trans (mul_lt _ _) p_lt,
    Nat.lt_trans (sq_lt _) p_lt, Nat.lt_trans (mul_lt _ _) p_lt⟩

/-- One iteration preserves the invariant: Go's swap on `bits[t+1] ⊕ bits[t]` followed by the
differential add-and-double is the RFC's `swap ^= k_t; cswap; cswap; step; swap = k_t`. -/
theorem rel_step (x1 k t : Nat) {s : Spec.X25519.State}
    {st : Model.Montgomery.ProjPt × Model.Montgomery.ProjPt} (h : Rel k (t + 1) s st) :
    Rel k t (Spec.X25519.ladderStep x1 k t s) (Model.Montgomery.mulStep x1 k t st) := by
  obtain ⟨heq, hsw, hx2, hz2, hx3, hz3⟩ := h
  subst heq
  rw [ladderStep_unfold]
  simp only [rfc_bit_eq, hsw]
  have hc : Model.Montgomery.bit k (t + 1) ^^^ Model.Montgomery.bit k t < 2 :=
    xor_bit_lt (bit_lt _ _) (bit_lt _ _)
  rw [cswap_eq_ite hc hx2 hx3, cswap_eq_ite hc hz2 hz3]
  refine ⟨?_, rfl, ?_⟩
  · unfold Model.Montgomery.mulStep Model.Montgomery.conditionalSwap toPair
    by_cases h1 : Model.Montgomery.bit k (t + 1) ^^^ Model.Montgomery.bit k t = 1
    · simp only [if_pos h1]; rw [step_eq_core]
    · simp only [if_neg h1]; rw [step_eq_core]
  · exact rfcStep_bounded _ _ _ _ _

/-- `n` iterations preserve the invariant (induction over the loop). -/
theorem rel_loop (x1 k : Nat) : ∀ (n : Nat) {s : Spec.X25519.State}
    {st : Model.Montgomery.ProjPt × Model.Montgomery.ProjPt}, Rel k n s st →
    Rel k 0 (Spec.X25519.ladder x1 k n s) (Model.Montgomery.mulLoop x1 k n st)
  | 0, _, _, h => h
  | n + 1, _, _, h => by
    unfold Spec.X25519.ladder Model.Montgomery.mulLoop
    exact rel_loop x1 k n (rel_step x1 k n h)

/-- The initial states are related when the scalar has 255 bits (`bits[255] = 0`, the RFC's
initial `swap = 0`). -/
theorem rel_init {k x1 : Nat} (hk : k < 2 ^ 255) (hx : x1 < 2 ^ 256) :
    Rel k 255 ⟨1, 0, x1, 1, 0⟩ (Model.Montgomery.ProjPt.identity, ⟨x1, 1⟩) := by
  refine ⟨rfl, ?_, ?_⟩
  · unfold Model.Montgomery.bit
    rw [Nat.shiftRight_eq_div_pow, Nat.div_eq_of_lt hk]
  · exact ⟨by show 1 < 2 ^ 256; decide, by show 0 < 2 ^ 256; decide, hx, by show 1 < 2 ^ 256; decide⟩

end Voi.Props.C07
