/-
C07 helper: clamping.  `Model.Montgomery.clampScalar` (the byte operations `s[0] &= 248;
s[31] &= 127; s[31] |= 64` of x25519.go, as a number) equals RFC 7748's `decodeScalar25519`, and
it changes exactly the bits 0, 1, 2, 255 (cleared) and 254 (set).
-/
import Mathlib.Tactic.Ring
import Voi.Model.Montgomery
import Voi.Spec.X25519
namespace Voi.Props.C07
open Voi Voi.Spec

theorem and_248 : ∀ b < 256, b &&& 248 = b - b % 8 := by decide +kernel
theorem and_127_or_64 : ∀ b < 256, ((b &&& 127) ||| 64) = b % 64 + 64 := by decide +kernel

/-- closed form of the clamped scalar: keep bits 3 … 253, set bit 254 -/
def clampNat (n : Nat) : Nat := 8 * (n % 2 ^ 254 / 8) + 2 ^ 254

theorem clampScalar_eq_clampNat (k : Bytes) :
    Model.Montgomery.clampScalar k = clampNat (leNat k) := by
  unfold Model.Montgomery.clampScalar clampNat
  generalize leNat k = n
  simp only []
  rw [and_248 _ (Nat.mod_lt _ (by decide)), and_127_or_64 _ (Nat.mod_lt _ (by decide)),
    Nat.shiftLeft_eq]
  omega

theorem decode_aux (q : Nat) :
    (if q % 2 ^ 252 / 2 ^ 251 % 2 = 1 then 8 * (q % 2 ^ 252) else 8 * (q % 2 ^ 252) + 2 ^ 254) =
      8 * (q % 2 ^ 251) + 2 ^ 254 := by
  have hm : q % 2 ^ 251 = q % 2 ^ 252 % 2 ^ 251 :=
    (Nat.mod_mod_of_dvd q (Dvd.intro 2 rfl : 2 ^ 251 ∣ 2 ^ 252)).symm
  have hlt : q % 2 ^ 252 < 2 ^ 252 := Nat.mod_lt _ (by decide)
  rw [hm]
  generalize q % 2 ^ 252 = a at hlt ⊢
  split <;> omega

theorem decodeScalar25519_eq_clampNat (k : Bytes) :
    Spec.X25519.decodeScalar25519 k = clampNat (leNat k) := by
  unfold Spec.X25519.decodeScalar25519 clampNat
  generalize leNat k = n
  simp only [Nat.testBit_eq_decide_div_mod_eq, decide_eq_true_eq]
  have h0 : n - n % 8 = 8 * (n / 8) := by omega
  have h1 : 8 * (n / 8) % 2 ^ 255 = 8 * (n / 8 % 2 ^ 252) :=
    Nat.mul_mod_mul_left 8 (n / 8) (2 ^ 252)
  have h2 : n % 2 ^ 254 / 8 = n / 8 % 2 ^ 251 := Nat.mod_mul_right_div_self n 8 (2 ^ 251)
  have h3 : 8 * (n / 8 % 2 ^ 252) / 2 ^ 254 = n / 8 % 2 ^ 252 / 2 ^ 251 :=
    Nat.mul_div_mul_left (n / 8 % 2 ^ 252) (2 ^ 251) (by decide : 0 < 8)
  rw [h0, h1, h2, h3]
  exact decode_aux (n / 8)

theorem clampNat_lt (n : Nat) : clampNat n < 2 ^ 255 := by
  unfold clampNat; omega

/-- Bit-level description of clamping: bits 0, 1, 2 and every bit from 255 up are 0, bit 254 is 1,
all other bits are those of the input. -/
theorem clampNat_testBit (n i : Nat) :
    (clampNat n).testBit i =
      if i < 3 ∨ 255 ≤ i then false else if i = 254 then true else n.testBit i := by
  have hb : 2 ^ 3 * (n % 2 ^ 254 / 2 ^ 3) < 2 ^ 254 := by omega
  have hc : clampNat n = 2 ^ 254 * 1 ||| 2 ^ 3 * (n % 2 ^ 254 / 2 ^ 3) := by
    rw [← Nat.two_pow_add_eq_or_of_lt hb]; unfold clampNat; omega
  rw [hc, Nat.testBit_or, Nat.mul_one, Nat.testBit_two_pow, Nat.testBit_two_pow_mul,
    Nat.testBit_div_two_pow, Nat.testBit_mod_two_pow]
  by_cases h3 : i < 3
  · have : ¬ 254 = i := by omega
    have h3' : ¬ i ≥ 3 := by omega
    simp [h3, this, h3']
  · by_cases h255 : 255 ≤ i
    · have : ¬ 254 = i := by omega
      have h' : ¬ (i - 3 + 3 < 254) := by omega
      simp [h255, this, h']
    · by_cases h254 : i = 254
      · subst h254; simp
      · have e : i - 3 + 3 = i := by omega
        have h1 : ¬ 254 = i := fun h => h254 h.symm
        have h2 : i ≥ 3 := by omega
        have h4 : i < 254 := by omega
        have h5 : ¬ (i < 3 ∨ 255 ≤ i) := by omega
        simp [e, h1, h2, h4, h5, h254]

/-! ## `leNat` of an n-byte string is below 2^(8n) -/

theorem foldlM_loop_inv {β : Type} (f : β → UInt8 → β) (as : ByteArray) (stop : Nat)
    (h : stop ≤ as.size) (P : Nat → β → Prop)
    (hstep : ∀ (j : Nat) (hj : j < as.size) (b : β), P j b → P (j + 1) (f b as[j])) :
    ∀ (i j : Nat) (b : β), P j b → j ≤ stop →
      ∃ j', j' ≤ stop ∧
        P j' (Id.run (ByteArray.foldlM.loop (m := Id) (fun b x => pure (f b x)) as stop h i j b)) := by
  intro i
  induction i with
  | zero =>
    intro j b hP hj
    rw [ByteArray.foldlM.loop.eq_1]
    split <;> exact ⟨j, hj, hP⟩
  | succ i ih =>
    intro j b hP hj
    rw [ByteArray.foldlM.loop.eq_1]
    split
    · rename_i hlt
      exact ih (j + 1) (f b as[j]) (hstep j (Nat.lt_of_lt_of_le hlt h) b hP) hlt
    · exact ⟨j, hj, hP⟩

theorem leNat_lt (b : Bytes) : leNat b < 2 ^ (8 * b.size) := by
  unfold leNat ByteArray.foldl ByteArray.foldlM
  simp only [Nat.le_refl, dite_true]
  obtain ⟨j', hj', hv, hs⟩ := foldlM_loop_inv
    (fun (acc : Nat × Nat) (x : UInt8) => (acc.1 + x.toNat <<< acc.2, acc.2 + 8)) b b.size
    (Nat.le_refl _) (fun j acc => acc.1 < 2 ^ acc.2 ∧ acc.2 = 8 * j)
    (by
      intro j hj acc ⟨h1, h2⟩
      refine ⟨?_, by simp only []; omega⟩
      simp only [Nat.shiftLeft_eq]
      have hx : (b[j]).toNat < 256 := (b[j]).toNat_lt
      have hm : (b[j]).toNat * 2 ^ acc.2 ≤ 255 * 2 ^ acc.2 :=
        Nat.mul_le_mul_right _ (by omega)
      have hp : 2 ^ (acc.2 + 8) = 256 * 2 ^ acc.2 := by rw [Nat.pow_add]; omega
      omega)
    (b.size - 0) 0 (0, 0) ⟨by decide, rfl⟩ (Nat.zero_le _)
  refine Nat.lt_of_lt_of_le hv ?_
  rw [hs]
  exact Nat.pow_le_pow_right (by decide) (by omega)

end Voi.Props.C07
