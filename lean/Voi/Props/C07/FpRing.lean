/-
C07 helper: the `Nat`-with-`% p` field operations of `Voi.Spec.Fp` are the ring operations of
`ZMod p` (p = 2^255 - 19; primality is not used).  `toZ` is the canonical map ℕ → ZMod p; it is
injective on reduced representatives (`toZ_inj`).  Also: `Fp.pow a e` is `a ^ e` in `ZMod p`
for every exponent below 2^256 (so `Fp.inv a = a^(p-2)`, the RFC's `z_2^(p - 2)`).

Mathlib is used here; this module must not be imported by Voi/Drv/* or Main.lean.
-/
import Mathlib.Data.ZMod.Basic
import Mathlib.Tactic.Ring
import Voi.Spec.Field
namespace Voi.Props.C07
open Voi Voi.Spec

/-- canonical map ℕ → ℤ/p -/
def toZ (a : Nat) : ZMod p := (a : ZMod p)

theorem p_pos : 0 < p := by decide

theorem toZ_mod (a : Nat) : toZ (a % p) = toZ a := ZMod.natCast_mod a p

theorem toZ_p : toZ p = 0 := ZMod.natCast_self p

theorem toZ_add (a b : Nat) : toZ (Fp.add a b) = toZ a + toZ b := by
  unfold Fp.add; rw [toZ_mod]; exact Nat.cast_add a b

theorem toZ_mul (a b : Nat) : toZ (Fp.mul a b) = toZ a * toZ b := by
  unfold Fp.mul; rw [toZ_mod]; exact Nat.cast_mul a b

theorem toZ_sq (a : Nat) : toZ (Fp.sq a) = toZ a * toZ a := by
  unfold Fp.sq; rw [toZ_mod]; exact Nat.cast_mul a a

theorem toZ_sub (a b : Nat) : toZ (Fp.sub a b) = toZ a - toZ b := by
  unfold Fp.sub
  rw [toZ_mod]
  unfold toZ
  rw [Nat.cast_add, Nat.cast_sub (Nat.le_of_lt (Nat.mod_lt b p_pos)), ZMod.natCast_self,
    ZMod.natCast_mod]
  ring

theorem toZ_neg (a : Nat) : toZ (Fp.neg a) = - toZ a := by
  unfold Fp.neg
  rw [toZ_mod]
  unfold toZ
  rw [Nat.cast_sub (Nat.le_of_lt (Nat.mod_lt a p_pos)), ZMod.natCast_self, ZMod.natCast_mod]
  ring

theorem toZ_ofNat (n : Nat) [n.AtLeastTwo] : toZ (OfNat.ofNat n) = (OfNat.ofNat n : ZMod p) :=
  Nat.cast_ofNat

theorem toZ_one : toZ 1 = 1 := Nat.cast_one
theorem toZ_zero : toZ 0 = 0 := Nat.cast_zero

/-- `toZ` is injective on reduced representatives. -/
theorem toZ_inj {a b : Nat} (ha : a < p) (hb : b < p) (h : toZ a = toZ b) : a = b := by
  have := (ZMod.natCast_eq_natCast_iff' a b p).1 h
  rwa [Nat.mod_eq_of_lt ha, Nat.mod_eq_of_lt hb] at this

theorem add_lt (a b : Nat) : Fp.add a b < p := Nat.mod_lt _ p_pos
theorem sub_lt (a b : Nat) : Fp.sub a b < p := Nat.mod_lt _ p_pos
theorem mul_lt (a b : Nat) : Fp.mul a b < p := Nat.mod_lt _ p_pos
theorem sq_lt (a : Nat) : Fp.sq a < p := Nat.mod_lt _ p_pos

/-- square-and-multiply computes `acc * base ^ e` whenever the fuel covers the exponent -/
theorem toZ_powAux (fuel : Nat) : ∀ (base e acc : Nat), e < 2 ^ fuel →
    toZ (Fp.powAux base fuel e acc) = toZ acc * toZ base ^ e := by
  induction fuel with
  | zero =>
    intro base e acc he
    have : e = 0 := by omega
    subst this; simp [Fp.powAux]
  | succ n ih =>
    intro base e acc he
    unfold Fp.powAux
    by_cases h0 : e = 0
    · subst h0; simp
    · rw [if_neg h0]
      have he2 : e / 2 < 2 ^ n := by
        rw [Nat.pow_succ] at he; omega
      simp only []
      rw [ih _ _ _ he2, toZ_mod]
      have hb : toZ (base * base) = toZ base * toZ base := Nat.cast_mul base base
      rw [hb]
      have hsplit : e = 2 * (e / 2) + e % 2 := by omega
      by_cases h1 : e % 2 = 1
      · rw [if_pos h1, toZ_mod]
        have : toZ (acc * base) = toZ acc * toZ base := Nat.cast_mul acc base
        rw [this]
        conv_rhs => rw [hsplit, h1]
        rw [pow_add, pow_mul, pow_one]; ring
      · rw [if_neg h1]
        have h1' : e % 2 = 0 := by omega
        conv_rhs => rw [hsplit, h1']
        rw [Nat.add_zero, pow_mul]; ring

/-- `Fp.pow a e` is `a ^ e` in `ZMod p` for every exponent that fits the 256-bit fuel. -/
theorem toZ_pow (a e : Nat) (he : e < 2 ^ 256) : toZ (Fp.pow a e) = toZ a ^ e := by
  unfold Fp.pow
  rw [toZ_powAux 256 _ _ _ he, toZ_mod, toZ_one, one_mul]

/-- `Fp.inv a` is `a ^ (p - 2)` in `ZMod p` (Fermat inversion, `0 ↦ 0`). -/
theorem toZ_inv (a : Nat) : toZ (Fp.inv a) = toZ a ^ (p - 2) := by
  unfold Fp.inv
  exact toZ_pow a (p - 2) (by decide)

end Voi.Props.C07
