/-
Property C09 (batch-verifier part): the history invariant of `Model.Batch` and the characterisation of the two
query operations.  Core Lean tactics only.

* `inv_init`, `inv_step`, `inv_run`   for EVERY operation history: each stored entry's cached admission data and
                                      serial verdict are exactly what `admit` / `serialVerdict` compute from the
                                      entry's inputs; `anyInvalid`, `anyCofactorless` are the disjunctions over the
                                      entries; `anyNotExpanded` is the disjunction over the entries or-ed with
                                      "ForceNoPublicKeyExpansion was called since the last Reset".
* `reset_init`                        `Reset` returns to the initial state.
* `precompute_safe`                   whenever the precomputed multiscalar path is taken, every entry carries an
                                      expanded key (the Go code dereferences `entry.expandedA` there).
* `verify_eq`, `verify_conj`          `Verify` = (conjunction of the bits, bits) with bit i = serial verdict of entry i
                                      computed from ITS inputs and ITS options; (false, []) for the empty batch.
* `verifyBatchOnly_eq`                `VerifyBatchOnly` = batch non-empty ∧ every entry admissible, cofactored, valid.
* `verifyBatchOnly_panic_iff`         with a failing entropy source: panic exactly when the early aborts do not apply.
* `serialVerdict_plain`, `verify_true_admissible`, `serialVerdict_expand`, `modeOf_eq`
                                      the serial verdict IS `Spec.Ed25519.verify` of the entry's inputs under the mode
                                      computed by `Spec.Ed25519.modeOf`; inadmissible entries are invalid under the Spec;
                                      adding through an expanded key gives the same verdict as adding the plain key.
-/
import Voi.Model.Batch
namespace Voi.Props.BatchInv
open Voi Voi.Spec Voi.Spec.Ed25519 Voi.Model.Batch

/-- the verdict of an entry recomputed from its inputs -/
def verdict (e : Entry) : Bool := serialVerdict e.key e.msg e.sig e.opts

/-- ghost state: has `ForceNoPublicKeyExpansion` been called since the last `Reset`? -/
def forcedStep (f : Bool) : Op → Bool
  | .forceNoPublicKeyExpansion => true
  | .reset => false
  | _ => f

def forcedRun (f : Bool) : List Op → Bool
  | [] => f
  | op :: ops => forcedRun (forcedStep f op) ops

structure Inv (s : State) (forced : Bool) : Prop where
  entries : ∀ e ∈ s.entries, e.adm = admit e.key e.msg e.sig e.opts ∧ e.serial = verdict e
  anyInvalid : s.anyInvalid = s.entries.any (fun e => !e.adm.canBeValid)
  anyCofactorless : s.anyCofactorless = s.entries.any (fun e => e.adm.wantCofactorless)
  anyNotExpanded : s.anyNotExpanded = (forced || s.entries.any (fun e => !e.adm.expanded))

theorem inv_init : Inv init false :=
  ⟨by intro e h; simp [init] at h, rfl, rfl, rfl⟩

theorem mkEntry_wf (key : KeyIn) (msg sig : Bytes) (o : Opts) :
    (mkEntry key msg sig o).adm = admit (mkEntry key msg sig o).key (mkEntry key msg sig o).msg
        (mkEntry key msg sig o).sig (mkEntry key msg sig o).opts ∧
    (mkEntry key msg sig o).serial = verdict (mkEntry key msg sig o) := ⟨rfl, rfl⟩

theorem inv_addExpanded {s : State} {f : Bool} (h : Inv s f) (x : Option XKey) (msg sig : Bytes) (o : Opts) :
    Inv (addExpandedWithOptions s x msg sig o) f := by
  unfold addExpandedWithOptions
  refine ⟨?_, ?_, ?_, ?_⟩
  · intro e he
    simp only [List.mem_append, List.mem_singleton] at he
    rcases he with he | he
    · exact h.entries e he
    · subst he; exact mkEntry_wf _ _ _ _
  · simp only [List.any_append, List.any_cons, List.any_nil, Bool.or_false, h.anyInvalid]
  · simp only [List.any_append, List.any_cons, List.any_nil, Bool.or_false, h.anyCofactorless]
  · simp only [List.any_append, List.any_cons, List.any_nil, Bool.or_false, h.anyNotExpanded, Bool.or_assoc]

theorem admit_plain_not_expanded (pk msg sig : Bytes) (o : Opts) :
    (admit (.plain pk) msg sig o).expanded = false := by
  unfold admit
  split
  · rfl
  · simp only
    split
    · rfl
    · split
      · rfl
      · split <;> rfl

theorem inv_add {s : State} {f : Bool} (h : Inv s f) (pk msg sig : Bytes) (o : Opts) :
    Inv (addWithOptions s pk msg sig o) f := by
  unfold addWithOptions
  split
  · exact inv_addExpanded h _ _ _ _
  · refine ⟨?_, ?_, ?_, ?_⟩
    · intro e he
      simp only [List.mem_append, List.mem_singleton] at he
      rcases he with he | he
      · exact h.entries e he
      · subst he; exact mkEntry_wf _ _ _ _
    · simp only [List.any_append, List.any_cons, List.any_nil, Bool.or_false, h.anyInvalid]
    · simp only [List.any_append, List.any_cons, List.any_nil, Bool.or_false, h.anyCofactorless]
    · have : (mkEntry (.plain pk) msg sig o).adm.expanded = false := admit_plain_not_expanded pk msg sig o
      simp [List.any_append, this]

/-- **C09 history invariant, one step** -/
theorem inv_step {s : State} {f : Bool} (h : Inv s f) (op : Op) : Inv (step s op).1 (forcedStep f op) := by
  cases op with
  | add pk msg sig => exact inv_add h _ _ _ _
  | addWithOptions pk msg sig o => exact inv_add h _ _ _ _
  | addExpanded x msg sig => exact inv_addExpanded h _ _ _ _
  | addExpandedWithOptions x msg sig o => exact inv_addExpanded h _ _ _ _
  | forceNoPublicKeyExpansion =>
    exact ⟨h.entries, h.anyInvalid, h.anyCofactorless, by simp [step, forcedStep]⟩
  | reset => exact inv_init
  | verify ent => exact h
  | verifyBatchOnly ent => exact h

theorem inv_run_from {s : State} {f : Bool} (h : Inv s f) (ops : List Op) :
    Inv (run s ops).1 (forcedRun f ops) := by
  induction ops generalizing s f with
  | nil => exact h
  | cons op ops ih => simp only [run, forcedRun]; exact ih (inv_step h op)

/-- **C09 history invariant**: it holds after every operation history on a fresh verifier. -/
theorem inv_run (ops : List Op) : Inv (run init ops).1 (forcedRun false ops) :=
  inv_run_from inv_init ops

/-- `Reset` returns to the initial state (whatever the state was). -/
theorem reset_init (s : State) : (step s .reset).1 = init := rfl

/-- the precomputed path of `VerifyBatchOnly` is only taken when every entry has an expanded key -/
theorem precompute_safe {s : State} {f : Bool} (h : Inv s f) (hp : precomputeOk s = true) :
    ∀ e ∈ s.entries, e.adm.expanded = true := by
  intro e he
  unfold precomputeOk at hp
  have h1 : s.anyNotExpanded = false := by
    cases hs : s.anyNotExpanded
    · rfl
    · simp [hs] at hp
  rw [h.anyNotExpanded] at h1
  have h2 : s.entries.any (fun e => !e.adm.expanded) = false := by
    cases f <;> simp_all
  have := (List.any_eq_false.mp h2) e he
  simpa using this

/-! ### the two queries -/

theorem serial_bit {s : State} {f : Bool} (h : Inv s f) :
    ∀ e ∈ s.entries, (if e.adm.canBeValid then e.serial else false) = verdict e := by
  intro e he
  obtain ⟨h1, h2⟩ := h.entries e he
  rw [h2]
  by_cases hc : e.adm.canBeValid = true
  · simp [hc]
  · have hc' : e.adm.canBeValid = false := by simpa using hc
    simp only [hc', Bool.false_eq_true, if_false]
    unfold verdict serialVerdict
    rw [← h1, hc']; rfl

theorem not_canBeValid_verdict {s : State} {f : Bool} (h : Inv s f) {e : Entry} (he : e ∈ s.entries)
    (hc : e.adm.canBeValid = false) : verdict e = false := by
  have := serial_bit h e he
  rw [hc] at this; simpa using this.symm

theorem foldl_allValid (l : List Entry) (acc : Bool) :
    l.foldl (fun acc e => if e.adm.canBeValid then acc && e.serial else acc) acc =
      (acc && l.all (fun e => if e.adm.canBeValid then e.serial else true)) := by
  induction l generalizing acc with
  | nil => simp
  | cons e t ih =>
    simp only [List.foldl_cons, List.all_cons]
    rw [ih]
    by_cases hc : e.adm.canBeValid = true
    · simp [hc, Bool.and_assoc]
    · have hc' : e.adm.canBeValid = false := by simpa using hc
      simp [hc']

theorem verifySerial_eq {s : State} {f : Bool} (h : Inv s f) :
    verifySerial s = .bools (s.entries.all verdict) (s.entries.map verdict) := by
  unfold verifySerial
  have hb : s.entries.map (fun e => if e.adm.canBeValid then e.serial else false) = s.entries.map verdict :=
    List.map_congr_left (serial_bit h)
  simp only [hb, foldl_allValid, h.anyInvalid]
  congr 1
  -- (¬ ∃ inadmissible) ∧ (∀ admissible, serial)  =  ∀ verdict
  have key : ∀ l : List Entry, (∀ e ∈ l, (if e.adm.canBeValid then e.serial else false) = verdict e) →
      ((!l.any (fun e => !e.adm.canBeValid)) && l.all (fun e => if e.adm.canBeValid then e.serial else true))
        = l.all verdict := by
    intro l hl
    induction l with
    | nil => rfl
    | cons e t ih =>
      have he := hl e (by simp)
      have iht := ih (fun e' h' => hl e' (by simp [h']))
      simp only [List.any_cons, List.all_cons]
      rw [← iht, ← he]
      cases e.adm.canBeValid <;> cases e.serial <;> simp
  exact key s.entries (serial_bit h)

/-- **`Verify`**: (false, []) for the empty batch, otherwise bit i is the serial verdict of entry i recomputed from
the entry's own inputs and options, and the flag is the conjunction of the bits.  (With the idealised batch
equation the fast path and the serial path agree.) -/
theorem verify_eq {s : State} {f : Bool} (h : Inv s f) :
    Model.Batch.verify s .ok = .bools (!s.entries.isEmpty && s.entries.all verdict) (s.entries.map verdict) := by
  unfold Model.Batch.verify
  by_cases he : s.entries.isEmpty = true
  · have : s.entries = [] := List.isEmpty_iff.mp he
    simp [this]
  · have he' : s.entries.isEmpty = false := by simpa using he
    simp only [he', Bool.false_eq_true, if_false, Bool.not_false, Bool.true_and]
    by_cases hq : (!s.anyInvalid && !s.anyCofactorless) = true
    · simp only [hq, if_true]
      have hi : s.anyInvalid = false := by
        cases hs : s.anyInvalid <;> simp_all
      have hc : s.anyCofactorless = false := by
        cases hs : s.anyCofactorless <;> simp_all
      unfold verifyBatchOnly
      simp only [he', hi, hc, Bool.false_eq_true, if_false]
      by_cases hb : batchEquation s = true
      · simp only [hb]
        -- fast path: all entries admissible and all serial verdicts true
        have hall : ∀ e ∈ s.entries, e.adm.canBeValid = true ∧ verdict e = true := by
          intro e hm
          have h1 : e.adm.canBeValid = true := by
            have := h.anyInvalid
            rw [hi] at this
            have := (List.any_eq_false.mp this.symm) e hm
            simpa using this
          have h2 : e.serial = true := by
            unfold batchEquation at hb
            exact (List.all_eq_true.mp hb) e hm
          exact ⟨h1, (h.entries e hm).2 ▸ h2⟩
        have hm1 : s.entries.map (fun e => e.adm.canBeValid) = s.entries.map verdict :=
          List.map_congr_left (fun e hm => by rw [(hall e hm).1, (hall e hm).2])
        have ha : s.entries.all verdict = true := List.all_eq_true.mpr (fun e hm => (hall e hm).2)
        rw [hm1, ha]
      · have hb' : batchEquation s = false := by simpa using hb
        simp only [hb']
        exact verifySerial_eq h
    · simp only [hq, Bool.false_eq_true, if_false]
      exact verifySerial_eq h

/-- the overall flag of `Verify` is the conjunction of the returned bits (and false for no bits) -/
theorem verify_conj {s : State} {f : Bool} (h : Inv s f) :
    ∃ bits, Model.Batch.verify s .ok = .bools (!bits.isEmpty && bits.all id) bits ∧ bits.length = s.entries.length := by
  refine ⟨s.entries.map verdict, ?_, by simp⟩
  rw [verify_eq h]
  simp [List.all_map]

/-- **`VerifyBatchOnly`** = batch non-empty ∧ every entry admissible ∧ no entry cofactorless ∧ every entry valid. -/
theorem verifyBatchOnly_eq {s : State} {f : Bool} (h : Inv s f) :
    verifyBatchOnly s .ok =
      .bool (!s.entries.isEmpty &&
             s.entries.all (fun e => e.adm.canBeValid && !e.adm.wantCofactorless && verdict e)) := by
  unfold verifyBatchOnly
  by_cases he : s.entries.isEmpty = true
  · simp [he]
  · have he' : s.entries.isEmpty = false := by simpa using he
    simp only [he', Bool.false_eq_true, if_false, Bool.not_false, Bool.true_and]
    rw [h.anyInvalid, h.anyCofactorless]
    have hser : ∀ e ∈ s.entries, e.serial = verdict e := fun e hm => (h.entries e hm).2
    unfold batchEquation
    have hif : ∀ a b c : Bool, (if a = true then Out.bool false else if b = true then Out.bool false else Out.bool c)
        = Out.bool (!a && !b && c) := by
      intro a b c; cases a <;> cases b <;> rfl
    rw [hif]
    congr 1
    generalize s.entries = l at hser
    induction l with
    | nil => rfl
    | cons e t ih =>
      have iht := ih (fun e' h' => hser e' (by simp [h']))
      have h1 := hser e (by simp)
      simp only [List.any_cons, List.all_cons]
      rw [← iht, h1]
      cases e.adm.canBeValid <;> cases e.adm.wantCofactorless <;> cases verdict e <;> simp

/-- with a failing entropy source `VerifyBatchOnly` panics exactly when none of the early aborts applies -/
theorem verifyBatchOnly_panic_iff (s : State) :
    verifyBatchOnly s .fail = .panicDoc ↔
      (s.entries.isEmpty = false ∧ s.anyInvalid = false ∧ s.anyCofactorless = false) := by
  unfold verifyBatchOnly
  cases s.entries.isEmpty <;> cases s.anyInvalid <;> cases s.anyCofactorless <;> simp

/-! ### the serial verdict is the Spec's verification predicate -/

/-- `(*Options).verify()` followed by `checkHash` is the Spec's option/mode validation -/
theorem modeOf_eq (o : Opts) (msgLen : Nat) :
    modeOf o.verify o.ctx (decide (o.hash = .sha512)) (decide (o.hash = .other)) msgLen =
      (optsVerify o).bind (fun f => checkHash f msgLen o.hash) := by
  obtain ⟨vo, hash, ctx⟩ := o
  unfold modeOf optsVerify checkHash
  simp only
  by_cases h255 : ctx.size > 255
  · have h0 : ctx.size > 0 := by omega
    cases vo with
    | none => cases hash <;> simp [h255, h0]
    | some v => obtain ⟨_, _, _, ncr, cl⟩ := v; cases hash <;> cases ncr <;> cases cl <;> simp [h255, h0]
  · by_cases h0 : ctx.size > 0
    · cases vo with
      | none => cases hash <;> simp [h255, h0]
      | some v => obtain ⟨_, _, _, ncr, cl⟩ := v; cases hash <;> cases ncr <;> cases cl <;> simp [h255, h0]
    · cases vo with
      | none => cases hash <;> simp [h255, h0]
      | some v => obtain ⟨_, _, _, ncr, cl⟩ := v; cases hash <;> cases ncr <;> cases cl <;> simp [h255, h0]

theorem verify_true_admissible (v : VOpts) (f : Dom) (ctx pk msg sig : Bytes)
    (h : Spec.Ed25519.verify v f ctx pk msg sig = true) :
    unpackPublicKey v pk = true ∧ unpackSignature v sig = true := by
  unfold Spec.Ed25519.verify at h
  unfold unpackPublicKey unpackSignature
  by_cases h1 : sig.size ≠ 64
  · simp [h1] at h
  · simp only [h1, if_false] at h ⊢
    by_cases h2 : (!decide (leNat (bslice sig 32 32) < L)) = true
    · simp [h2] at h
    · simp only [h2, Bool.false_eq_true, if_false] at h ⊢
      cases hA : Pt.decode pk with
      | none => simp [hA] at h
      | some A =>
        simp only [hA] at h ⊢
        by_cases h3 : (!v.smallA && A.isSmallOrder) = true
        · simp [h3] at h
        · simp only [h3, Bool.false_eq_true, if_false] at h ⊢
          by_cases h4 : (!v.nonCanA && !Pt.isCanonicalEnc pk) = true
          · simp [h4] at h
          · simp only [h4, Bool.false_eq_true, if_false] at h ⊢
            by_cases h5 : (!v.nonCanR && !Pt.isCanonicalEnc (bslice sig 0 32)) = true
            · simp [h5] at h
            · simp only [h5, Bool.false_eq_true, if_false] at h ⊢
              refine ⟨trivial, ?_⟩
              by_cases hc : v.cofactorless = true
              · simp only [hc, if_true] at h
                by_cases hr : v.smallR = true
                · simp [hc, hr]
                · have hr' : v.smallR = false := by simpa using hr
                  simp only [hr', Bool.not_false, if_true, Bool.and_eq_true] at h
                  cases hR : Pt.decode (bslice sig 0 32) with
                  | none => simp [hR] at h
                  | some R => simp [hR] at h; simp [hc, hr', h.1]
              · have hc' : v.cofactorless = false := by simpa using hc
                simp only [hc', Bool.false_eq_true, if_false] at h
                cases hR : Pt.decode (bslice sig 0 32) with
                | none => simp [hR] at h
                | some R =>
                  simp only [hR] at h
                  by_cases h6 : (!v.smallR && R.isSmallOrder) = true
                  · simp [h6] at h
                  · simp [hc', h6]

theorem canBeValid_eq (key : KeyIn) (msg sig : Bytes) (o : Opts) (fb f : Dom)
    (h1 : optsVerify o = some fb) (h2 : checkHash fb msg.size o.hash = some f) :
    (admit key msg sig o).canBeValid =
      ((match key with
        | .expanded (some x) => checkExpandedPublicKey o.vopts x
        | .expanded none => unpackPublicKey o.vopts ByteArray.empty
        | .plain pk => unpackPublicKey o.vopts pk) && unpackSignature o.vopts sig) := by
  unfold admit
  simp only [h1, h2]
  cases key with
  | plain pk =>
    by_cases a : unpackPublicKey o.vopts pk = true <;> by_cases b : unpackSignature o.vopts sig = true <;> simp [a, b]
  | expanded ox =>
    cases ox with
    | none =>
      by_cases a : unpackPublicKey o.vopts ByteArray.empty = true <;> by_cases b : unpackSignature o.vopts sig = true <;> simp [a, b]
    | some x =>
      by_cases a : checkExpandedPublicKey o.vopts x = true <;> by_cases b : unpackSignature o.vopts sig = true <;> simp [a, b]

/-- **bit i = Spec verification.**  The serial verdict of an entry added with a plain key is
`Spec.Ed25519.verify` of the entry's inputs under the mode that `Spec.Ed25519.modeOf` computes from its options
(false when the options are rejected). -/
theorem serialVerdict_plain (pk msg sig : Bytes) (o : Opts) :
    serialVerdict (.plain pk) msg sig o =
      match modeOf o.verify o.ctx (decide (o.hash = .sha512)) (decide (o.hash = .other)) msg.size with
      | none => false
      | some f => Spec.Ed25519.verify o.vopts f o.ctx pk msg sig := by
  rw [modeOf_eq]
  unfold serialVerdict
  cases h1 : optsVerify o with
  | none => simp
  | some fb =>
    cases h2 : checkHash fb msg.size o.hash with
    | none => simp [h2]
    | some f =>
      simp only [Option.bind_some, h2, KeyIn.bytes]
      rw [canBeValid_eq _ _ _ _ fb f h1 h2]
      by_cases hv : Spec.Ed25519.verify o.vopts f o.ctx pk msg sig = true
      · obtain ⟨a, b⟩ := verify_true_admissible _ _ _ _ _ _ hv
        simp [a, b]
      · have hv' : Spec.Ed25519.verify o.vopts f o.ctx pk msg sig = false := by simpa using hv
        simp [hv']

theorem decode_empty : Pt.decode ByteArray.empty = none := by
  unfold Pt.decode; rfl

/-- adding through `NewExpandedPublicKey(pk)` (nil when the expansion fails) gives the same verdict as adding the
plain key: expanded-key verification agrees with plain verification, including the three cached flags. -/
theorem serialVerdict_expand (pk msg sig : Bytes) (o : Opts) :
    serialVerdict (.expanded (expand pk)) msg sig o = serialVerdict (.plain pk) msg sig o := by
  unfold serialVerdict
  cases h1 : optsVerify o with
  | none => simp [admit, h1]
  | some fb =>
    cases h2 : checkHash fb msg.size o.hash with
    | none => simp [admit, h1, h2]
    | some f =>
      simp only
      rw [canBeValid_eq _ _ _ _ fb f h1 h2, canBeValid_eq _ _ _ _ fb f h1 h2]
      unfold expand
      cases hA : Pt.decode pk with
      | none => simp [unpackPublicKey, hA, decode_empty]
      | some A =>
        simp only [KeyIn.bytes]
        have : checkExpandedPublicKey o.vopts ⟨pk, true, A.isSmallOrder, Pt.isCanonicalEnc pk⟩
            = unpackPublicKey o.vopts pk := by
          simp [checkExpandedPublicKey, unpackPublicKey, hA]
        simp only [this]

/-- same statement for the admission flags (only `expanded` may differ) -/
theorem admit_expand (pk msg sig : Bytes) (o : Opts) :
    (admit (.expanded (expand pk)) msg sig o).canBeValid = (admit (.plain pk) msg sig o).canBeValid ∧
    (admit (.expanded (expand pk)) msg sig o).wantCofactorless = (admit (.plain pk) msg sig o).wantCofactorless := by
  unfold admit
  cases h1 : optsVerify o with
  | none => simp
  | some fb =>
    simp only
    unfold expand
    cases hA : Pt.decode pk with
    | none => simp [unpackPublicKey, hA, decode_empty]
    | some A =>
      have : checkExpandedPublicKey o.vopts ⟨pk, true, A.isSmallOrder, Pt.isCanonicalEnc pk⟩
          = unpackPublicKey o.vopts pk := by
        simp [checkExpandedPublicKey, unpackPublicKey, hA]
      simp only [this]
      by_cases a : unpackPublicKey o.vopts pk = true <;> by_cases b : unpackSignature o.vopts sig = true <;>
        cases checkHash fb msg.size o.hash <;> simp [a, b]


/-- **C09, all histories, in terms of the Spec.**  After any history, `Verify` (with a working entropy source)
returns (conjunction, bits) where bit i is the verdict recomputed from entry i's own inputs; for entries added
with a plain key or with `NewExpandedPublicKey(pk)` that verdict is `Spec.Ed25519.verify` (see
`serialVerdict_plain`, `serialVerdict_expand`). -/
theorem verify_after_history (ops : List Op) :
    let s := (run init ops).1
    Model.Batch.verify s .ok = .bools (!s.entries.isEmpty && s.entries.all verdict) (s.entries.map verdict) :=
  verify_eq (inv_run ops)

theorem verifyBatchOnly_after_history (ops : List Op) :
    let s := (run init ops).1
    verifyBatchOnly s .ok =
      .bool (!s.entries.isEmpty &&
             s.entries.all (fun e => e.adm.canBeValid && !e.adm.wantCofactorless && verdict e)) :=
  verifyBatchOnly_eq (inv_run ops)

/-! ### sanity: the statements are not vacuous -/

/-- a concrete history (an entry with an empty key is inadmissible): empty-batch answers, per-entry bit, Reset -/
example :
    (run init [.verify .ok, .verifyBatchOnly .fail,
               .add ByteArray.empty ByteArray.empty ByteArray.empty,
               .verify .fail, .verifyBatchOnly .ok, .reset, .verify .ok]).2
      = [.bools false [], .bool false, .unit, .bools false [false], .bool false, .unit, .bools false []] := by
  decide

/-- the ghost flag is really needed: after `ForceNoPublicKeyExpansion` the flag is set without any entry -/
example : (run init [.forceNoPublicKeyExpansion]).1.anyNotExpanded = true ∧
          (run init [.forceNoPublicKeyExpansion]).1.entries = [] := by decide

/-- hypotheses of `precompute_safe` are satisfiable (fresh verifier) -/
example : Inv init false ∧ precomputeOk init = true := ⟨inv_init, by decide⟩

end Voi.Props.BatchInv

#print axioms Voi.Props.BatchInv.inv_run
#print axioms Voi.Props.BatchInv.reset_init
#print axioms Voi.Props.BatchInv.precompute_safe
#print axioms Voi.Props.BatchInv.verify_eq
#print axioms Voi.Props.BatchInv.verify_conj
#print axioms Voi.Props.BatchInv.verifyBatchOnly_eq
#print axioms Voi.Props.BatchInv.verifyBatchOnly_panic_iff
#print axioms Voi.Props.BatchInv.modeOf_eq
#print axioms Voi.Props.BatchInv.verify_true_admissible
#print axioms Voi.Props.BatchInv.serialVerdict_plain
#print axioms Voi.Props.BatchInv.serialVerdict_expand
#print axioms Voi.Props.BatchInv.admit_expand
#print axioms Voi.Props.BatchInv.verify_after_history
#print axioms Voi.Props.BatchInv.verifyBatchOnly_after_history
