/-
C17 — Scalar digit recodings preserve the value within their digit bounds.

Theorems about the code-shaped models of `Voi.Model.Recoding` (tied to curve/scalar/scalar.go by the
differential stream R1, which compares digits exactly).  All quantification is unbounded; the proofs are loop
invariants (helper modules `Voi/Props/C17/*.lean`), nothing is established by evaluation.

Vocabulary:  `dig a i` = digit `i` of the array `a` (0 outside);  `sumD r f k = Σ_{i<k} f i · 2^(r·i)`;
`recon r l` = the spec's value of a little-endian digit list in radix `2^r` (`recon_toList` relates the two).

  bits_value      ∀ n < 2^256            Σ_{i<256} bits[i]·2^i = n, bits ∈ {0,1}, length 256
  naf_value       ∀ w∈2..8, n < 2^255    Σ_{i<256} naf[i]·2^i = n, length 256
  naf_shape       ∀ w∈2..8, n < 2^255    non-zero digits odd, |d| < 2^(w-1), followed by w-1 zeros; all digits fit
                                          int8; the int8 arithmetic stores exactly the integer digit
  r16_value       ∀ n < 2^256            Σ_{i<64} r16[i]·16^i = n, length 64  (stronger than the 2^255 asked for)
  r16_bounds      ∀ n < 2^255            r16[i] ∈ [-8,8) for i < 63, r16[63] ∈ [0,8]; no int8 conversion changes a value
  r16_bounds_wide ∀ n                    r16[i] ∈ [-8,8) for i < 63, r16[63] ∈ [0,16]
  r2w_value       ∀ w∈{6,7,8}, n < 2^256 Σ_{i<43} d[i]·2^(w·i) = n, length 43  (stronger than the 2^255 asked for)
  r2w_bounds      ∀ w∈{6,7,8}, n < 2^255 interior digits ∈ [-2^(w-1), 2^(w-1)); terminal digit ∈ [0,8] (w=6,7: the
                                          last loop digit, no carry left) resp. {0,1} (w=8: the extra digit);
                                          zeros from ToRadix2wSizeHint(w) on; no uint64/int8 truncation
  corollaries     r16_abs_le_8, naf5_digits, naf8_digits, r2w_bucket_index
  spec predicates bits_ok, naf_shape_ok, r16_ok, r2w_ok: the boolean checks of `Voi.Model.Recoding` that the driver
                  evaluates per request are `true` for every input in range

False as one might have hoped (counterexamples below): NAF reconstruction for 2^255 ≤ n < 2^256; the radix-16
range [-8,8] for n ≥ 2^255; "no `int8` conversion changes a value" for the *intermediate* conversions of
NonAdjacentForm with w = 7, 8 (`int8(width)` wraps; the stored digit is still exact, see `naf_shape`).
-/
import Voi.Props.C17.Basic
import Voi.Props.C17.Bits
import Voi.Props.C17.Naf
import Voi.Props.C17.Radix16
import Voi.Props.C17.Radix2w
import Voi.Props.C17.SpecPreds

namespace Voi.Props.C17
open Voi.Model.Recoding

set_option exponentiation.threshold 1024

/-! ## Scalar.Bits -/

/-- **C17/Bits.** For every 256-bit `n` the 256 output bytes are bits (0 or 1) and Σ bits[i]·2^i = n. -/
theorem bits_value (n : Nat) (hn : n < 2 ^ 256) :
    (bits n).size = 256 ∧
    sumD 1 (dig (bits n)) 256 = (n : Int) ∧
    recon 1 (bits n).toList = (n : Int) ∧
    ∀ i, dig (bits n) i = 0 ∨ dig (bits n) i = 1 := by
  have hs := bits_sum n
  rw [Nat.mod_eq_of_lt hn] at hs
  refine ⟨bits_size n, hs, ?_, ?_⟩
  · rw [recon_toList, bits_size]; exact hs
  · intro i
    by_cases hi : i < 256
    · rw [bits_digit n i hi]; omega
    · exact Or.inl (dig_of_size_le _ _ (by rw [bits_size]; omega))

/-- without a bound on `n` the bits reconstruct `n mod 2^256` -/
theorem bits_value_mod (n : Nat) : recon 1 (bits n).toList = ((n % 2 ^ 256 : Nat) : Int) := by
  rw [recon_toList, bits_size]; exact bits_sum n

/-- the driver's boolean range check `bitsOk` holds for every input -/
theorem bits_ok (n : Nat) : bitsOk (bits n).toList = true := by
  apply bitsOk_of _ (bits_size n)
  intro i
  by_cases hi : i < 256
  · rw [bits_digit n i hi]; omega
  · exact Or.inl (dig_of_size_le _ _ (by rw [bits_size]; omega))

example : recon 1 (bits (2 ^ 255 - 19)).toList = 2 ^ 255 - 19 := by
  have := (bits_value (2 ^ 255 - 19) (by norm_num)).2.2.1
  rw [this]; norm_num

example : recon 1 (bits (2 ^ 256 - 1)).toList = 2 ^ 256 - 1 ∧ bitsOk (bits (2 ^ 256 - 1)).toList = true := by
  decide +kernel

/-! ## Scalar.NonAdjacentForm -/

/-- **C17/NAF value.** For 2 ≤ w ≤ 8 and every `n < 2^255`: Σ_{i<256} naf_w(n)[i]·2^i = n. -/
theorem naf_value (w n : Nat) (a : Array Int) (hw : 2 ≤ w ∧ w ≤ 8) (hn : n < 2 ^ 255)
    (h : nonAdjacentForm w n = some a) :
    a.size = 256 ∧ sumD 1 (dig a) 256 = (n : Int) ∧ recon 1 a.toList = (n : Int) := by
  rw [nonAdjacentForm_eq w n hw] at h
  cases h
  obtain ⟨pos', hp, hinv⟩ := naf_inv w n hw hn
  have hv := hinv.value
  have hmod : n % 2 ^ pos' = n :=
    Nat.mod_eq_of_lt (Nat.lt_of_lt_of_le hn (Nat.pow_le_pow_right (by decide) (by omega)))
  rw [hmod] at hv
  have hs : sumD 1 (dig (naf w n)) 256 = (n : Int) := by simpa using hv
  refine ⟨hinv.size, hs, ?_⟩
  rw [recon_toList, hinv.size]; exact hs

/-- the function is total exactly on the documented widths -/
theorem naf_defined (w n : Nat) : (nonAdjacentForm w n).isSome = true ↔ 2 ≤ w ∧ w ≤ 8 := by
  unfold nonAdjacentForm
  by_cases h : w < 2 ∨ w > 8
  · simp [h]; omega
  · simp [h]; omega

/-- **C17/NAF shape.** For 2 ≤ w ≤ 8 and every `n < 2^255`: the array has length 256; every non-zero digit is
    odd, smaller than 2^(w-1) in magnitude and followed by at least w-1 zeros (so two non-zero digits are at
    least `w` positions apart); every digit fits `int8` (indeed |d| ≤ 127); and the array computed with
    64-bit word windows and `int8` arithmetic is exactly the array of unbounded-integer digits
    (`nafLoopZ`: no conversion or subtraction changes the stored value). -/
theorem naf_shape (w n : Nat) (a : Array Int) (hw : 2 ≤ w ∧ w ≤ 8) (hn : n < 2 ^ 255)
    (h : nonAdjacentForm w n = some a) :
    a.size = 256 ∧
    (∀ i, dig a i ≠ 0 →
      dig a i % 2 = 1 ∧ (dig a i).natAbs < 2 ^ (w - 1) ∧ ∀ j, i < j → j < i + w → dig a j = 0) ∧
    (∀ i, -128 < dig a i ∧ dig a i < 128) ∧
    a = nafLoopZ n w 256 0 0 (Array.replicate 256 0) := by
  rw [nonAdjacentForm_eq w n hw] at h
  cases h
  obtain ⟨pos', hp, hinv⟩ := naf_inv w n hw hn
  have hpow : (2 : Nat) ^ (w - 1) ≤ 128 := by
    obtain ⟨h2, h8⟩ := hw
    interval_cases w <;> norm_num
  have hcast : ((2 ^ (w - 1) : Nat) : Int) = (2 : Int) ^ (w - 1) := by push_cast; rfl
  refine ⟨hinv.size, ?_, ?_, naf_exact w n hw (by omega)⟩
  · intro i hi
    obtain ⟨_, h2, h3, h4, h5⟩ := hinv.shape i hi
    rw [← hcast] at h3 h4
    exact ⟨h2, by omega, h5⟩
  · intro i
    by_cases hi : dig (naf w n) i = 0
    · rw [hi]; omega
    · obtain ⟨_, _, h3, h4, _⟩ := hinv.shape i hi
      rw [← hcast] at h3 h4
      omega

/-- the driver's boolean shape check `nafShapeOk` holds for every scalar below 2^255 -/
theorem naf_shape_ok (w n : Nat) (a : Array Int) (hw : 2 ≤ w ∧ w ≤ 8) (hn : n < 2 ^ 255)
    (h : nonAdjacentForm w n = some a) : nafShapeOk w a.toList = true :=
  nafShapeOk_of w a (naf_shape w n a hw hn h).2.1

example : ∃ a, nonAdjacentForm 8 (2 ^ 255 - 1) = some a ∧ recon 1 a.toList = 2 ^ 255 - 1 := by
  refine ⟨naf 8 (2 ^ 255 - 1), nonAdjacentForm_eq _ _ (by omega), ?_⟩
  have := (naf_value 8 (2 ^ 255 - 1) _ (by omega) (by norm_num) (nonAdjacentForm_eq _ _ (by omega))).2.2
  rw [this]; norm_num

example : (nonAdjacentForm 8 (2 ^ 255 - 1)).map (fun a => (recon 1 a.toList, nafShapeOk 8 a.toList, a[0]!, a[255]!))
    = some (2 ^ 255 - 1, true, -1, 1) := by decide +kernel

example : (nonAdjacentForm 5 (2 ^ 255 - 19)).map (fun a => (recon 1 a.toList, nafShapeOk 5 a.toList))
    = some (2 ^ 255 - 19, true) := by decide +kernel

/-- The bound `n < 2^255` in `naf_value` is needed: for `n = 2^256 - 1` the final carry is lost. -/
example : (nonAdjacentForm 5 (2 ^ 256 - 1)).map (fun a => recon 1 a.toList) = some (-1) := by decide +kernel

/-- Individual `int8` conversions inside NonAdjacentForm do wrap (w = 7: `int8(width) = -128`;
    w = 8: `int8(width) = 0`, `int8(window)` negative) — only the stored difference is exact. -/
example : wrap8 (Int.ofNat (2 ^ 7)) = -128 ∧ wrap8 (Int.ofNat (2 ^ 8)) = 0 ∧ wrap8 (Int.ofNat 255) = -1 := by
  decide

/-! ## Scalar.ToRadix16 -/

/-- **C17/radix-16 value.** For every `n < 2^256` (not only below 2^255): Σ_{i<64} r16[i]·16^i = n. -/
theorem r16_value (n : Nat) (hn : n < 2 ^ 256) :
    (toRadix16 n).size = 64 ∧
    sumD 4 (dig (toRadix16 n)) 64 = (n : Int) ∧
    recon 4 (toRadix16 n).toList = (n : Int) := by
  have hinv := toRadix16_inv n
  have hv := hinv.value
  rw [Nat.mod_eq_of_lt hn] at hv
  refine ⟨hinv.size, hv, ?_⟩
  rw [recon_toList, hinv.size]; exact hv

/-- radix 16 really is radix 16: `sumD 4` weighs digit `k` with `16^k` … -/
theorem sumD_radix16 (f : Nat → Int) (k : Nat) : sumD 4 f (k + 1) = sumD 4 f k + f k * 16 ^ k := by
  show sumD 4 f k + f k * 2 ^ (4 * k) = _
  rw [pow_mul]; norm_num

/-- … and `sumD w` weighs digit `k` with `(2^w)^k` -/
theorem sumD_radix2w (w : Nat) (f : Nat → Int) (k : Nat) :
    sumD w f (k + 1) = sumD w f k + f k * (2 ^ w) ^ k := by
  show sumD w f k + f k * 2 ^ (w * k) = _
  rw [pow_mul]

/-- **C17/radix-16 bounds, all inputs.** The first 63 digits are in [-8, 8); the last one is in [0, 16]. -/
theorem r16_bounds_wide (n : Nat) :
    (∀ i, i < 63 → -8 ≤ dig (toRadix16 n) i ∧ dig (toRadix16 n) i < 8) ∧
    0 ≤ dig (toRadix16 n) 63 ∧ dig (toRadix16 n) 63 ≤ 16 := by
  have hinv := toRadix16_inv n
  have := nib_lt n 63
  refine ⟨hinv.done, ?_⟩
  rcases hinv.cur with e | e <;> rw [e] <;> omega

/-- **C17/radix-16 bounds.** For every `n < 2^255`: r16[i] ∈ [-8, 8) for i < 63 and r16[63] ∈ [0, 8]
    (tighter than the documented [-8, 8]); and no `int8` conversion in ToRadix16 changes a value (the
    `int8` loop equals the integer loop `recenterLoopZ`; this part holds for every `n`). -/
theorem r16_bounds (n : Nat) (hn : n < 2 ^ 255) :
    (∀ i, i < 63 → -8 ≤ dig (toRadix16 n) i ∧ dig (toRadix16 n) i < 8) ∧
    (0 ≤ dig (toRadix16 n) 63 ∧ dig (toRadix16 n) 63 ≤ 8) ∧
    toRadix16 n = recenterLoopZ 63 0 (nibbleLoop n 32 0 (Array.replicate 64 0)) := by
  have hinv := toRadix16_inv n
  have h63 : nib n 63 < 8 := by
    unfold nib
    have : n / 2 ^ (4 * 63) < 8 := Nat.div_lt_of_lt_mul (by omega)
    omega
  refine ⟨hinv.done, ?_, toRadix16_exact n⟩
  rcases hinv.cur with e | e <;> rw [e] <;> omega

/-- the driver's boolean range check `r16Ok` holds for every scalar below 2^255 -/
theorem r16_ok (n : Nat) (hn : n < 2 ^ 255) : r16Ok (toRadix16 n).toList = true := by
  obtain ⟨h1, h2, _⟩ := r16_bounds n hn
  exact r16Ok_of _ (toRadix16_inv n).size h1 h2

example : recon 4 (toRadix16 (2 ^ 255 - 1)).toList = 2 ^ 255 - 1 := by
  have := (r16_value (2 ^ 255 - 1) (by norm_num)).2.2
  rw [this]; norm_num

example : recon 4 (toRadix16 (2 ^ 255 - 1)).toList = 2 ^ 255 - 1 ∧ r16Ok (toRadix16 (2 ^ 255 - 1)).toList = true
    ∧ (toRadix16 (2 ^ 255 - 1))[0]! = -1 ∧ (toRadix16 (2 ^ 255 - 1))[63]! = 8 := by decide +kernel

/-- The documented range [-8, 8] needs `n < 2^255`: above, the last digit can be as large as 16
    (the value is still reconstructed). -/
example : (toRadix16 (2 ^ 256 - 1))[63]! = 16 ∧ recon 4 (toRadix16 (2 ^ 256 - 1)).toList = 2 ^ 256 - 1 := by
  decide +kernel

example : (toRadix16 (2 ^ 255 + 2 ^ 252 - 1))[63]! = 9 := by decide +kernel

/-! ## Scalar.ToRadix2w, ToRadix2wSizeHint -/

/-- the function is total exactly on the documented widths -/
theorem r2w_defined (w n : Nat) : (toRadix2w w n).isSome = true ↔ (w = 6 ∨ w = 7 ∨ w = 8) := by
  unfold toRadix2w toRadix2wSizeHint
  by_cases h6 : w = 6
  · simp [h6]
  · by_cases h7 : w = 7
    · simp [h7]
    · by_cases h8 : w = 8
      · simp [h8]
      · simp [h6, h7, h8]

/-- **C17/radix-2^w value.** For w ∈ {6,7,8} and every `n < 2^256` (not only below 2^255):
    Σ_{i<43} d[i]·2^(w·i) = n. -/
theorem r2w_value (w n : Nat) (a : Array Int) (hw : w = 6 ∨ w = 7 ∨ w = 8) (hn : n < 2 ^ 256)
    (h : toRadix2w w n = some a) :
    a.size = 43 ∧ sumD w (dig a) 43 = (n : Int) ∧ recon w a.toList = (n : Int) := by
  rw [toRadix2w_eq w n hw] at h
  cases h
  obtain ⟨_, hfin⟩ := radix2w_exact_final w n hw hn
  refine ⟨hfin.size, hfin.value, ?_⟩
  rw [recon_toList, hfin.size]; exact hfin.value

/-- **C17/radix-2^w bounds.** For w ∈ {6,7,8} and every `n < 2^255`, with `t = terminalIdx w` (= digitsCount-1 =
    42, 36 for w = 6, 7; = digitsCount = 32 for w = 8):
    * digits below `t` are in [-2^(w-1), 2^(w-1));
    * the terminal digit is in [0, 8] for w = 6, 7 (the carry out of the loop is 0, nothing is folded in) and
      in {0, 1} for w = 8 (the carry, stored in the extra digit);
    * everything from `ToRadix2wSizeHint w = t + 1` on is zero;
    * every digit fits `int8`, and the array equals the one computed over unbounded integers (`radix2wZ`:
      no `uint64` shift drops a bit, no `int8` conversion changes a value). -/
theorem r2w_bounds (w n : Nat) (a : Array Int) (hw : w = 6 ∨ w = 7 ∨ w = 8) (hn : n < 2 ^ 255)
    (h : toRadix2w w n = some a) :
    (∀ j, j < terminalIdx w → -(2 ^ (w - 1) : Int) ≤ dig a j ∧ dig a j < 2 ^ (w - 1)) ∧
    (0 ≤ dig a (terminalIdx w) ∧ dig a (terminalIdx w) ≤ (if w = 8 then 1 else 8)) ∧
    toRadix2wSizeHint w = some (terminalIdx w + 1) ∧
    (∀ j, terminalIdx w + 1 ≤ j → dig a j = 0) ∧
    (∀ j, -128 ≤ dig a j ∧ dig a j < 128) ∧
    a = radix2wZ w n := by
  rw [toRadix2w_eq w n hw] at h
  cases h
  obtain ⟨hex, hfin⟩ := radix2w_exact_final w n hw (by omega)
  have hq : n / 2 ^ 252 < 8 := Nat.div_lt_of_lt_mul (by omega)
  have hterm : 0 ≤ dig (radix2w w n) (terminalIdx w) ∧
      dig (radix2w w n) (terminalIdx w) ≤ (if w = 8 then 1 else 8) := by
    refine ⟨hfin.terminal.1, ?_⟩
    have := hfin.terminal.2
    by_cases h8 : w = 8
    · simpa [h8] using this
    · simp only [h8, if_false] at this ⊢; omega
  have hpow : (2 : Int) ^ (w - 1) ≤ 128 ∧ (8 : Int) ≤ 2 ^ (w - 1) := by
    rcases hw with rfl | rfl | rfl <;> norm_num
  refine ⟨hfin.interior, hterm, ?_, fun j hj => hfin.beyond j (by omega), ?_, hex⟩
  · rcases hw with rfl | rfl | rfl <;> rfl
  · intro j
    rcases Nat.lt_trichotomy j (terminalIdx w) with hj | hj | hj
    · have := hfin.interior j hj; omega
    · subst hj
      have h2 := hterm.2
      by_cases h8 : w = 8
      · simp only [h8, if_true] at h2; omega
      · simp only [h8, if_false] at h2; omega
    · rw [hfin.beyond j hj]; omega

/-- the driver's boolean range check `r2wOk` holds for every scalar below 2^255 -/
theorem r2w_ok (w n : Nat) (a : Array Int) (hw : w = 6 ∨ w = 7 ∨ w = 8) (hn : n < 2 ^ 255)
    (h : toRadix2w w n = some a) : r2wOk w a.toList = true := by
  obtain ⟨h1, h2, h3, h4, _, _⟩ := r2w_bounds w n a hw hn h
  have hs := (r2w_value w n a hw (by omega) h).1
  have hpow : (8 : Int) ≤ 2 ^ (w - 1) := by rcases hw with rfl | rfl | rfl <;> norm_num
  refine r2wOk_of w a (terminalIdx w) hs rfl h1 ⟨h2.1, ?_⟩ h3 h4
  have h22 := h2.2
  by_cases h8 : w = 8
  · simp only [h8, if_true] at h22; omega
  · simp only [h8, if_false] at h22; omega

example : ∃ a, toRadix2w 8 (2 ^ 255 - 1) = some a ∧ recon 8 a.toList = 2 ^ 255 - 1 := by
  refine ⟨radix2w 8 (2 ^ 255 - 1), toRadix2w_eq _ _ (by omega), ?_⟩
  have := (r2w_value 8 (2 ^ 255 - 1) _ (by omega) (by norm_num) (toRadix2w_eq _ _ (by omega))).2.2
  rw [this]; norm_num

/-- w = 8, n = 2^255 - 1: digits -1, 0, …, 0, -128 and the terminal carry 1 in the extra digit 32 -/
example : (toRadix2w 8 (2 ^ 255 - 1)).map (fun a => (recon 8 a.toList, r2wOk 8 a.toList))
    = some (2 ^ 255 - 1, true) := by decide +kernel

example : (toRadix2w 8 (2 ^ 255 - 1)).map (fun a => [a[0]!, a[1]!, a[31]!, a[32]!, a[33]!])
    = some [-1, 0, -128, 1, 0] := by decide +kernel

example : (toRadix2w 6 (2 ^ 255 - 1)).map (fun a => (recon 6 a.toList, r2wOk 6 a.toList, a[42]!))
    = some (2 ^ 255 - 1, true, 8) := by decide +kernel

example : (toRadix2w 7 (2 ^ 255 - 19)).map (fun a => (recon 7 a.toList, r2wOk 7 a.toList, a[36]!, a[37]!))
    = some (2 ^ 255 - 19, true, 8, 0) := by decide +kernel

/-! ## Corollaries used by the scalar-multiplication theorems (C03, C08) -/

/-- radix-16 digits index the 8-entry lookup tables: |digit| ≤ 8 (all positions, also outside the array) -/
theorem r16_abs_le_8 (n : Nat) (hn : n < 2 ^ 255) (i : Nat) : (dig (toRadix16 n) i).natAbs ≤ 8 := by
  obtain ⟨h1, h2, _⟩ := r16_bounds n hn
  rcases Nat.lt_trichotomy i 63 with hi | hi | hi
  · have := h1 i hi; omega
  · subst hi; omega
  · rw [dig_of_size_le _ _ (by rw [(toRadix16_inv n).size]; omega)]; decide

/-- NAF-5 digits are 0 or in {±1, ±3, …, ±15}; the table index `|d|/2` is below 8 -/
theorem naf5_digits (n : Nat) (a : Array Int) (hn : n < 2 ^ 255) (h : nonAdjacentForm 5 n = some a) (i : Nat) :
    dig a i = 0 ∨ (dig a i % 2 = 1 ∧ -15 ≤ dig a i ∧ dig a i ≤ 15 ∧ (dig a i).natAbs / 2 < 8) := by
  obtain ⟨_, hs, _, _⟩ := naf_shape 5 n a (by omega) hn h
  by_cases h0 : dig a i = 0
  · exact Or.inl h0
  · obtain ⟨h1, h2, _⟩ := hs i h0
    norm_num at h2
    right; omega

/-- NAF-8 digits are 0 or odd with |d| ≤ 127; the table index `|d|/2` is below 64 -/
theorem naf8_digits (n : Nat) (a : Array Int) (hn : n < 2 ^ 255) (h : nonAdjacentForm 8 n = some a) (i : Nat) :
    dig a i = 0 ∨ (dig a i % 2 = 1 ∧ -127 ≤ dig a i ∧ dig a i ≤ 127 ∧ (dig a i).natAbs / 2 < 64) := by
  obtain ⟨_, hs, _, _⟩ := naf_shape 8 n a (by omega) hn h
  by_cases h0 : dig a i = 0
  · exact Or.inl h0
  · obtain ⟨h1, h2, _⟩ := hs i h0
    norm_num at h2
    right; omega

/-- Pippenger bucket index: a positive digit `d` selects bucket `d - 1`, a negative one bucket `-d - 1`,
    out of `2^(w-1)` buckets; so `|d| ≤ 2^(w-1)` is what is needed — for every position. -/
theorem r2w_bucket_index (w n : Nat) (a : Array Int) (hw : w = 6 ∨ w = 7 ∨ w = 8) (hn : n < 2 ^ 255)
    (h : toRadix2w w n = some a) (j : Nat) : (dig a j).natAbs ≤ 2 ^ (w - 1) := by
  obtain ⟨h1, h2, _, h4, _, _⟩ := r2w_bounds w n a hw hn h
  have hcast : ((2 ^ (w - 1) : Nat) : Int) = (2 : Int) ^ (w - 1) := by push_cast; rfl
  have hpow : 8 ≤ 2 ^ (w - 1) := by rcases hw with rfl | rfl | rfl <;> norm_num
  rcases Nat.lt_trichotomy j (terminalIdx w) with hj | hj | hj
  · have := h1 j hj
    rw [← hcast] at this; omega
  · subst hj
    have h22 := h2.2
    by_cases h8 : w = 8
    · simp only [h8, if_true] at h22; omega
    · simp only [h8, if_false] at h22; omega
  · rw [h4 j (by omega)]; simp

/-! ### instances of the corollaries -/

example (i : Nat) : (dig (toRadix16 (2 ^ 255 - 1)) i).natAbs ≤ 8 := r16_abs_le_8 _ (by norm_num) i

example (a : Array Int) (h : nonAdjacentForm 5 (2 ^ 255 - 19) = some a) (i : Nat) :
    dig a i = 0 ∨ (dig a i % 2 = 1 ∧ -15 ≤ dig a i ∧ dig a i ≤ 15 ∧ (dig a i).natAbs / 2 < 8) :=
  naf5_digits _ a (by norm_num) h i

example (a : Array Int) (h : nonAdjacentForm 8 (2 ^ 255 - 1) = some a) (i : Nat) :
    dig a i = 0 ∨ (dig a i % 2 = 1 ∧ -127 ≤ dig a i ∧ dig a i ≤ 127 ∧ (dig a i).natAbs / 2 < 64) :=
  naf8_digits _ a (by norm_num) h i

example (a : Array Int) (h : toRadix2w 8 (2 ^ 255 - 1) = some a) (j : Nat) : (dig a j).natAbs ≤ 128 :=
  r2w_bucket_index 8 _ a (by omega) (by norm_num) h j

/-- the bucket bound is attained: digit 31 of the radix-256 form of 2^255 - 1 is -128 -/
example : (toRadix2w 8 (2 ^ 255 - 1)).map (fun a => (dig a 31).natAbs) = some 128 := by decide +kernel

/-! ## Axioms -/

#print axioms bits_value
#print axioms bits_value_mod
#print axioms naf_value
#print axioms naf_defined
#print axioms naf_shape
#print axioms r16_value
#print axioms r16_bounds
#print axioms r16_bounds_wide
#print axioms r2w_defined
#print axioms r2w_value
#print axioms r2w_bounds
#print axioms r16_abs_le_8
#print axioms naf5_digits
#print axioms naf8_digits
#print axioms r2w_bucket_index
#print axioms bits_ok
#print axioms naf_shape_ok
#print axioms r16_ok
#print axioms r2w_ok
#print axioms recon_toList
#print axioms sumD_radix16
#print axioms sumD_radix2w

end Voi.Props.C17
