/-
Property C18 (stream C2, `lru.lin`): the Wing–Gong search of `Model.Linearize` decides linearizability.

`IsLinearization s h l`: `l` is a permutation of the recorded history `h`, it respects real-time order (no
operation is placed before one that had already returned when it was called), and replaying `l` sequentially on
the model from state `s` reproduces every observed `Get` result.

* `search_sound`      `search fuel s h = true → ∃ l, IsLinearization s h l`                 (any fuel)
* `search_complete`   `IsLinearization s h l → h.length ≤ fuel → search fuel s h = true`     (well-formed stamps)
* `linearizable_iff`  `linearizable cap h = true ↔ ∃ l, IsLinearization (new cap) h l`
So a reply `bool 0` of the Lean side means that NO sequential explanation of the recorded concurrent history
exists, and `bool 1` comes with a witness.  Core Lean tactics only.
-/
import Voi.Model.Linearize
namespace Voi.Props.LinearizeSound
open Voi.Model Voi.Model.LRU Voi.Model.Linearize

variable {K V : Type} [DecidableEq K] [DecidableEq V]

/-- sequential replay: every observed result agrees with the model -/
def replay : State K V → List (Ev K V) → Bool
  | _, [] => true
  | s, e :: l => agrees e (step s e.op).2 && replay (step s e.op).1 l

/-- `a` may be ordered before `b`: `b` had not already returned when `a` was called -/
def mayPrecede (a b : Ev K V) : Prop := ¬ (b.ret < a.call)

structure IsLinearization (s : State K V) (h l : List (Ev K V)) : Prop where
  perm : l.Perm h
  order : l.Pairwise mayPrecede
  replay : replay s l = true

theorem perm_cons_eraseIdx {α : Type} {l : List α} {i : Nat} {a : α} (h : l[i]? = some a) :
    (a :: l.eraseIdx i).Perm l := by
  induction l generalizing i with
  | nil => simp at h
  | cons x t ih =>
    cases i with
    | zero => simp at h; subst h; exact List.Perm.refl _
    | succ j =>
      have h' : t[j]? = some a := by simpa using h
      simp only [List.eraseIdx_cons_succ]
      exact (List.Perm.swap x a _).trans ((ih h').cons x)

omit [DecidableEq K] [DecidableEq V] in
theorem minimal_iff (rem : List (Ev K V)) (e : Ev K V) :
    minimal rem e = true ↔ ∀ e' ∈ rem, mayPrecede e e' := by
  unfold minimal mayPrecede
  rw [List.all_eq_true]
  constructor
  · intro h e' he'; have := h e' he'; simpa using this
  · intro h e' he'; have := h e' he'; simpa using this

/-- **soundness**: a successful search yields a linearization -/
theorem search_sound (fuel : Nat) (s : State K V) (h : List (Ev K V)) (hs : search fuel s h = true) :
    ∃ l, IsLinearization s h l := by
  induction fuel generalizing s h with
  | zero =>
    have : h = [] := List.isEmpty_iff.mp (by simpa [search] using hs)
    subst this
    exact ⟨[], List.Perm.refl _, List.Pairwise.nil, rfl⟩
  | succ fuel ih =>
    unfold search at hs
    rw [Bool.or_eq_true] at hs
    rcases hs with hs | hs
    · have : h = [] := List.isEmpty_iff.mp hs
      subst this
      exact ⟨[], List.Perm.refl _, List.Pairwise.nil, rfl⟩
    · rw [List.any_eq_true] at hs
      obtain ⟨i, _, hi⟩ := hs
      cases hg : h[i]? with
      | none => simp [hg] at hi
      | some e =>
        simp only [hg, Bool.and_eq_true] at hi
        obtain ⟨hmin, hag, hrest⟩ := hi
        obtain ⟨l, hl⟩ := ih _ _ hrest
        have hp := perm_cons_eraseIdx hg
        refine ⟨e :: l, (hl.perm.cons e).trans hp, ?_, ?_⟩
        · rw [List.pairwise_cons]
          refine ⟨?_, hl.order⟩
          intro e' he'
          have : e' ∈ h := List.mem_of_mem_eraseIdx (hl.perm.mem_iff.mp he')
          exact (minimal_iff h e).mp hmin e' this
        · simp only [replay, Bool.and_eq_true]; exact ⟨hag, hl.replay⟩

/-- **completeness**: if a linearization exists (and every event's stamps are ordered), the search finds one -/
theorem search_complete (fuel : Nat) (s : State K V) (h l : List (Ev K V))
    (hw : ∀ e ∈ h, e.call ≤ e.ret) (hl : IsLinearization s h l) (hf : h.length ≤ fuel) :
    search fuel s h = true := by
  induction l generalizing fuel s h with
  | nil =>
    have : h = [] := List.Perm.eq_nil (hl.perm.symm)
    subst this
    cases fuel <;> simp [search]
  | cons e l ih =>
    have hmem : e ∈ h := hl.perm.mem_iff.mp (by simp)
    obtain ⟨i, hi⟩ := List.mem_iff_getElem?.mp hmem
    have hlt : i < h.length := by
      obtain ⟨hh, _⟩ := List.getElem?_eq_some_iff.mp hi; exact hh
    cases fuel with
    | zero => omega
    | succ fuel =>
      unfold search
      rw [Bool.or_eq_true]
      refine Or.inr ?_
      rw [List.any_eq_true]
      refine ⟨i, List.mem_range.mpr hlt, ?_⟩
      have hp := perm_cons_eraseIdx hi
      have hperm : l.Perm (h.eraseIdx i) := List.Perm.cons_inv (hl.perm.trans hp.symm)
      have hord := List.pairwise_cons.mp hl.order
      have hrep : agrees e (step s e.op).2 = true ∧ replay (step s e.op).1 l = true := by
        have := hl.replay; simpa [replay] using this
      simp only [hi, Bool.and_eq_true]
      refine ⟨?_, hrep.1, ?_⟩
      · rw [minimal_iff]
        intro e' he'
        have : e' ∈ e :: h.eraseIdx i := hp.mem_iff.mpr he'
        rcases List.mem_cons.mp this with rfl | h2
        · have := hw e' he'; unfold mayPrecede; omega
        · exact hord.1 e' (hperm.mem_iff.mpr h2)
      · apply ih
        · intro e' he'; exact hw e' (List.mem_of_mem_eraseIdx he')
        · exact ⟨hperm, hord.2, hrep.2⟩
        · rw [List.length_eraseIdx]; simp only [hlt, if_true]; omega

/-- **C18 / C2**: the checker's answer is exactly "the recorded history is linearizable w.r.t. the LRU model" -/
theorem linearizable_iff (cap : Nat) (h : List (Ev K V)) (hw : ∀ e ∈ h, e.call ≤ e.ret) :
    linearizable cap h = true ↔ ∃ l, IsLinearization (new cap : State K V) h l := by
  unfold linearizable
  constructor
  · exact search_sound _ _ _
  · rintro ⟨l, hl⟩; exact search_complete _ _ _ l hw hl (Nat.le_refl _)

/-! ### sanity -/

/-- a history that is linearizable only because the two operations overlap -/
example : linearizable 1 ([⟨1, 4, .put 0 (some 7), none⟩, ⟨2, 3, .get 0, none⟩] : List (Ev Nat Nat)) = true := by
  decide
/-- the same operations without overlap: the `Get` must see the `Put` -/
example : linearizable 1 ([⟨1, 2, .put 0 (some 7), none⟩, ⟨3, 4, .get 0, none⟩] : List (Ev Nat Nat)) = false := by
  decide
/-- an evicted key cannot be returned -/
example : linearizable 1 ([⟨1, 2, .put 0 (some 7), none⟩, ⟨3, 4, .put 1 (some 8), none⟩,
    ⟨5, 6, .get 0, some 7⟩] : List (Ev Nat Nat)) = false := by decide

end Voi.Props.LinearizeSound

#print axioms Voi.Props.LinearizeSound.search_sound
#print axioms Voi.Props.LinearizeSound.search_complete
#print axioms Voi.Props.LinearizeSound.linearizable_iff
