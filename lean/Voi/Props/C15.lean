/-
Property C15 — ECVRF proofs are complete, unique and specification-exact (the part that is mathematics).

Objects (all in `Voi.Model.ECVRF`, core Lean, linked into the driver)
  * `VrfIface`       the interface `EdIface` of C01 (points, codecs, `L`, SHA-512, `ScMinimalVartime`) extended by
                     `mul8` (`MulByCofactor`) and `encodeToCurve : salt → alpha → Option G` (`encodeToCurveH2cSuite`);
  * `SpecG.*`        RFC 9381 §5.1–5.4 over the interface: `proveH`/`proveWith` (secret scalar `x` and ANY nonce `k` as
                     arguments), `prove` (RFC 8032 key expansion + §5.4.2.2 nonce), `decodeProof`, `proofToHash`, `verify`,
                     `challenge` (both formats), `gammaToHash`.  For `concrete` they ARE `Voi.Spec.ECVRF.*` (stream E1):
                     `specG_verify_concrete`, `specG_proofToHash_concrete`, `specG_decodeProof_concrete`,
                     `specG_prove_concrete'` … by unfolding;
  * `doVerify`, `doProve`, `decodeProof`, `challengeGeneration`, `gammaToHash`, `proofToHash`   the CODE-SHAPED model of
                     `ecvrf.go`, statement by statement; its concrete instance answers stream E2.

Theorems, for EVERY interface instance whose carrier is a commutative group and which satisfies `VrfLaws`
(= `C01.Laws` + `mul8 P = 8•P` + encode-to-curve lands in the prime-order part (`L•H = 0`, from `clear_cofactor` and
`ExpHyp` by `order_of_cleared`) + a canonical string that decodes is the encoding of its point):
  * `vrf_complete`, `vrf_complete_H`, `vrf_complete_honest`   for ALL secret scalars `x`, inputs `alpha`, nonces `k` (hence
        deterministic and with added randomness) and BOTH challenge formats, `verify (encode (x•B)) π alpha = proofToHash π`
        and it is `some _`; side condition: `x•B` not of small order — discharged for `x ≢ 0 (mod L)` with `B` of order
        exactly `L`; `expandKey_not_dvd`: the library's scalar is never `≡ 0` (`C02.clamp_not_dvd`);
  * `proofToHash_proveH`, `beta_indep_nonce`    β of an honest proof is `Hash(suite‖3‖[8x]H‖0)`: independent of the nonce
        (added randomness) and of the challenge format;
  * `vrf_verify_eq_proofToHash`    whenever `verify` returns `some β`, `proofToHash π = some β` — for ANY π (no laws);
  * `verify_eq_some_iff` (`Accepts`), `vrf_reject_iff`, `decodeProof_eq_none_iff`, `stringToPoint_eq_none_iff`
        exactness: INVALID ⟺ key length ≠ 32 ∨ key non-canonical ∨ key not on the curve ∨ key of small order ∨ proof
        length ≠ 80 ∨ Γ non-canonical ∨ Γ not on the curve ∨ s ≥ L ∨ (h2c failure) ∨ challenge mismatch;
  * `beta_of_8gamma`, `gammaToHash_congr`, `proofToHash_of_8gamma`   β depends only on `8•Γ` (torsion-shifting Γ is invisible);
  * `vrf_framing_distinct`, `challengeInput_size`   the two formats hash strings of 163 resp. 131 bytes: never the same
        query; `cross_format_partial`: a proof accepted under both formats exhibits two strings of different length with
        equal 128-bit truncated hash; `def cross_format_statement` (outcome form) is NOT claimed — random oracle;
  * `vrf_unique_algebraic`   for a key `Y = x•B` (up to torsion), `H` of order `L`, and a CHEATING `Γ` (`8•Γ ≠ 8•x•H`): for fixed
        `(U, W)` at most ONE challenge `c < L` admits a response `s` (needs `ExpHyp`, `OrderExact`);
        `full_uniqueness_partial`: every accepted proof either has the honest output or has its hash output equal to that
        one predetermined value; `unique_of_honest_gamma`; `def full_uniqueness_statement` is NOT claimed — and
        `Toy.toy_not_full_uniqueness` shows it does NOT follow from the laws (identity "hash");
  * `vrf_model_eq_spec` (`doVerify = SpecG.verify` for all strings of all lengths, both formats), `doVerify_panic_iff`,
        `decodeProof_eq`, `proofToHash_eq`, `challengeGeneration_eq`, `gammaToHash_eq`, `vrf_model_eq_spec_prove`
        (`doProve = SpecG.prove`, all keys / inputs / entropy streams; `hL : 2^128 ≤ L`, `concrete_hL`).

Residual hypotheses: `VrfLaws` for the concrete instance is not discharged here (group laws/codecs: C03/C10 —
`Voi.Proofs.ConcreteIface.onCurve_laws` provides `Laws`, `ExpHyp`, `OrderExact` on the on-curve carrier; `e2c_order`: C14
(`clear_cofactor`) + `ExpHyp`); until then the tie concrete ↔ Go is streams E1 (Spec) and E2 (model).
Non-vacuity: `Toy.toyV` (ℤ/104, L = 13) satisfies `VrfLaws`, `ExpHyp`, `OrderExact`; kernel-evaluated examples.

No `sorry`, no `axiom`, no `native_decide`.  Mathlib is used; must not be imported by Voi/Drv/* or Main.lean.
-/
import Voi.Props.C02
import Voi.Props.BytesMore
import Voi.Model.ECVRF

namespace Voi.Props.C15
open Voi Voi.Spec Voi.Model.ECVRF Voi.Props.C01 Voi.Props.C02 Voi.Props.Bytes
open Voi.Model.Ed25519 (EdIface)
open Voi.Spec.ECVRF (suiteString cLen ptLen qLen proofSize)

/-! ## `SpecG.*` over the concrete interface is `Voi.Spec.ECVRF.*` -/

section Concrete
attribute [local irreducible] Pt.decode bslice Pt.mul8 Pt.isZero Pt.smul Pt.add Pt.neg Pt.encode Pt.isCanonicalEnc
  leNat sha512 Voi.beq Pt.B natLE bzero Voi.Spec.ECVRF.encodeToCurve

theorem specG_stringToPoint_concrete (b : Bytes) :
    SpecG.stringToPoint concrete b = Voi.Spec.ECVRF.stringToPoint b := rfl

theorem specG_challenge_concrete (y : Option Bytes) (hs gs : Bytes) (U W : Pt) :
    SpecG.challenge concrete y hs gs U W = Voi.Spec.ECVRF.challenge y hs gs U W := rfl

theorem specG_gammaToHash_concrete (g : Pt) :
    SpecG.gammaToHash concrete g = Voi.Spec.ECVRF.gammaToHash g := rfl

theorem concrete_encodeToCurve : concrete.encodeToCurve = Voi.Spec.ECVRF.encodeToCurve := rfl

theorem specG_decodeProof_concrete (pi : Bytes) :
    SpecG.decodeProof concrete pi = Voi.Spec.ECVRF.decodeProof pi := by
  rcases h1 : Voi.Spec.ECVRF.stringToPoint (bslice pi 0 ptLen) with _ | g <;>
  simp only [SpecG.decodeProof, Voi.Spec.ECVRF.decodeProof, specG_stringToPoint_concrete, h1] <;> rfl

theorem specG_proofToHash_concrete (pi : Bytes) :
    SpecG.proofToHash concrete pi = Voi.Spec.ECVRF.proofToHash pi := by
  unfold SpecG.proofToHash Voi.Spec.ECVRF.proofToHash
  rw [specG_decodeProof_concrete]
  rfl

theorem specG_verify_concrete (withY : Bool) (pk pi alpha : Bytes) :
    SpecG.verify concrete withY pk pi alpha = Voi.Spec.ECVRF.verify withY pk pi alpha := by
  rcases h1 : Voi.Spec.ECVRF.stringToPoint pk with _ | Y <;>
  rcases h2 : Voi.Spec.ECVRF.decodeProof pi with _ | ⟨g, c, s⟩ <;>
  rcases h3 : Voi.Spec.ECVRF.encodeToCurve pk alpha with _ | H <;>
  simp only [SpecG.verify, Voi.Spec.ECVRF.verify, specG_stringToPoint_concrete, specG_decodeProof_concrete,
    specG_gammaToHash_concrete, concrete_encodeToCurve, h1, h2, h3] <;> rfl

/-- `Voi.Spec.ECVRF.prove` (what stream E1 compares with `Prove*`) is `SpecG.proveH concrete` applied to the clamped
    scalar of the key and the hashed nonce (deterministic, or with added randomness) -/
theorem specG_prove_concrete (withY : Bool) (entropy : Option Bytes) (sk alpha : Bytes) (hsk : sk.size = 64) :
    Voi.Spec.ECVRF.prove withY entropy sk alpha =
      (Voi.Spec.ECVRF.encodeToCurve (bslice sk 32 32) alpha).map fun H =>
        SpecG.proveH concrete withY (Voi.Spec.ECVRF.expandKey (bslice sk 0 32)).1
          (Voi.Spec.ECVRF.nonce (Voi.Spec.ECVRF.expandKey (bslice sk 0 32)).2 (Pt.encode H) entropy)
          (bslice sk 32 32) H := by
  rcases h1 : Voi.Spec.ECVRF.encodeToCurve (bslice sk 32 32) alpha with _ | H <;>
  simp only [Voi.Spec.ECVRF.prove, hsk, h1] <;> rfl

/-- the secret scalar of `prove` is the Ed25519 clamped scalar (so `clamp_not_dvd` applies) -/
theorem expandKey_fst (seed : Bytes) :
    (Voi.Spec.ECVRF.expandKey seed).1 = Voi.Spec.Ed25519.clamp (sha512 seed) := rfl

/-- `SpecG.prove concrete` IS `Voi.Spec.ECVRF.prove` -/
theorem specG_prove_concrete' (withY : Bool) (entropy : Option Bytes) (sk alpha : Bytes) :
    SpecG.prove concrete withY entropy sk alpha = Voi.Spec.ECVRF.prove withY entropy sk alpha := by
  by_cases hsk : sk.size = 64
  · rw [specG_prove_concrete withY entropy sk alpha hsk]
    simp only [SpecG.prove, hsk, ne_eq, not_true_eq_false, if_false]
    cases entropy <;> rfl
  · simp only [SpecG.prove, Voi.Spec.ECVRF.prove, hsk, ne_eq, not_false_eq_true, if_true]

end Concrete


/-! ## Laws -/

/-- The laws of `C01.Laws` plus what ECVRF needs: `MulByCofactor` is multiplication by 8 and encode-to-curve lands in the
    prime-order part (it ends with `clear_cofactor`, see `order_of_cleared`). -/
structure VrfLaws (V : VrfIface) [AddCommGroup V.G] : Prop where
  ed : Laws V.toEdIface
  mul8_eq : ∀ P : V.G, V.mul8 P = (8 : ℕ) • P
  e2c_order : ∀ (salt alpha : Bytes) (H : V.G), V.encodeToCurve salt alpha = some H → V.L • H = 0
  /-- a CANONICAL string that decodes is the encoding of the point it decodes to (C10; used only by
      `vrf_model_eq_spec`: the code hashes the Γ bytes of the proof, the RFC hashes `point_to_string(Γ)`) -/
  encode_decode : ∀ (b : Bytes) (P : V.G), V.isCanonicalEnc b = true → V.decode b = some P → V.encode P = b

/-- `clear_cofactor` puts a point into the prime-order part, under the group-order hypothesis -/
theorem order_of_cleared {I : EdIface} [AddCommGroup I.G] (hExp : ExpHyp I) (H' : I.G) :
    I.L • ((8 : ℕ) • H') = 0 := by
  rw [smul_smul, mul_comm]; exact hExp H'

/-! ## Byte layout of a proof string -/

theorem slices3 {a b c : Bytes} (ha : a.size = 32) (hb : b.size = 16) (hc : c.size = 32) :
    (a ++ b ++ c).size = 80 ∧ bslice (a ++ b ++ c) 0 32 = a ∧ bslice (a ++ b ++ c) 32 16 = b ∧
      bslice (a ++ b ++ c) 48 32 = c := by
  refine ⟨?_, ?_, ?_, ?_⟩
  · rw [ByteArray.size_append, ByteArray.size_append, ha, hb, hc]
  · unfold bslice
    rw [ByteArray.append_assoc]
    exact ByteArray.extract_append_eq_left ha.symm
  · unfold bslice
    rw [ByteArray.extract_append, ByteArray.extract_append_eq_right ha.symm (by rw [ha, hb])]
    have : (32 + 16 - (a ++ b).size) = (32 - (a ++ b).size) := by rw [ByteArray.size_append, ha, hb]
    rw [this, ByteArray.extract_same, ByteArray.append_empty]
  · unfold bslice
    exact ByteArray.extract_append_eq_right (by rw [ByteArray.size_append, ha, hb])
      (by rw [ByteArray.size_append, ha, hb, hc])

section Abstract
variable (V : VrfIface) [AddCommGroup V.G]

/-- the challenge is a 128-bit number -/
theorem challenge_lt (y : Option Bytes) (hs gs : Bytes) (U W : V.G) :
    SpecG.challenge V y hs gs U W < 2 ^ 128 := by
  unfold SpecG.challenge
  refine lt_of_lt_of_le (leNat_lt _) ?_
  have h1 := bslice_size_le (V.hash512 (SpecG.challengeInput V y hs gs U W)) 0 cLen
  have : (2 : ℕ) ^ 128 = 256 ^ 16 := by norm_num
  rw [this]
  exact Nat.pow_le_pow_right (by norm_num) h1

/-! ## What `decodeProof` and `verify` accept, exactly -/

theorem stringToPoint_eq_some_iff (b : Bytes) (Y : V.G) :
    SpecG.stringToPoint V b = some Y ↔ b.size = 32 ∧ V.isCanonicalEnc b = true ∧ V.decode b = some Y := by
  unfold SpecG.stringToPoint
  by_cases hsz : b.size = 32 <;> by_cases hc : V.isCanonicalEnc b = true <;> simp [hsz, hc]

theorem stringToPoint_eq_none_iff (b : Bytes) :
    SpecG.stringToPoint V b = none ↔ b.size ≠ 32 ∨ V.isCanonicalEnc b = false ∨ V.decode b = none := by
  unfold SpecG.stringToPoint
  by_cases hsz : b.size = 32 <;> by_cases hc : V.isCanonicalEnc b = true <;> simp [hsz, hc]

theorem decodeProof_eq_some_iff (pi : Bytes) (Γ : V.G) (c s : ℕ) :
    SpecG.decodeProof V pi = some (Γ, c, s) ↔
      pi.size = 80 ∧ V.isCanonicalEnc (bslice pi 0 32) = true ∧ V.decode (bslice pi 0 32) = some Γ ∧
        c = leNat (bslice pi 32 16) ∧ s = leNat (bslice pi 48 32) ∧ s < V.L := by
  unfold SpecG.decodeProof
  simp only [proofSize, ptLen, cLen, qLen, Nat.reduceAdd]
  by_cases hsz : pi.size = 80
  case neg => simp [hsz]
  have h32 : (bslice pi 0 32).size = 32 := bslice_size_of_le (by omega)
  rcases h1 : SpecG.stringToPoint V (bslice pi 0 32) with _ | g
  · rw [stringToPoint_eq_none_iff] at h1
    simp only [hsz, ne_eq, not_true_eq_false, if_false, reduceCtorEq, false_iff]
    rintro ⟨-, b2, b3, -⟩
    rcases h1 with h1 | h1 | h1
    · exact h1 h32
    · rw [b2] at h1; cases h1
    · rw [b3] at h1; cases h1
  obtain ⟨-, hc, hd⟩ := (stringToPoint_eq_some_iff V _ g).1 h1
  by_cases hs : leNat (bslice pi 48 32) < V.L
  · simp [hsz, hc, hd, hs]
    intro _; omega
  · simp [hsz, hc, hd, hs]
    intros; omega

/-- **rejection by `decodeProof`, in the order of the code**: wrong length, non-canonical Γ, Γ not on the curve,
    `s ≥ L`.  (`c` is never a reason: every 16-byte string is a challenge.) -/
theorem decodeProof_eq_none_iff (pi : Bytes) :
    SpecG.decodeProof V pi = none ↔
      pi.size ≠ 80 ∨ V.isCanonicalEnc (bslice pi 0 32) = false ∨ V.decode (bslice pi 0 32) = none ∨
        V.L ≤ leNat (bslice pi 48 32) := by
  unfold SpecG.decodeProof
  simp only [proofSize, ptLen, cLen, qLen, Nat.reduceAdd]
  by_cases hsz : pi.size = 80
  case neg => simp [hsz]
  have h32 : (bslice pi 0 32).size = 32 := bslice_size_of_le (by omega)
  rcases h1 : SpecG.stringToPoint V (bslice pi 0 32) with _ | g
  · rw [stringToPoint_eq_none_iff] at h1
    simp only [hsz, ne_eq, not_true_eq_false, if_false, true_iff, false_or]
    rcases h1 with h1 | h1 | h1
    · exact absurd h32 h1
    · exact Or.inl h1
    · exact Or.inr (Or.inl h1)
  obtain ⟨-, hc, hd⟩ := (stringToPoint_eq_some_iff V _ g).1 h1
  by_cases hs : leNat (bslice pi 48 32) < V.L
  · simp [hsz, hc, hd, hs]
  · simp [hsz, hc, hd, hs]; exact not_lt.1 hs

/-- The statement "π is a valid proof for (pk, alpha) with output β" as a proposition. -/
def Accepts (withY : Bool) (pk pi alpha β : Bytes) : Prop :=
  pk.size = 32 ∧ V.isCanonicalEnc pk = true ∧ pi.size = 80 ∧ V.isCanonicalEnc (bslice pi 0 32) = true ∧
  leNat (bslice pi 48 32) < V.L ∧
  ∃ Y Γ H : V.G, V.decode pk = some Y ∧ (8 : ℕ) • Y ≠ 0 ∧ V.decode (bslice pi 0 32) = some Γ ∧
    V.encodeToCurve pk alpha = some H ∧
    leNat (bslice pi 32 16) = SpecG.challenge V (if withY then some pk else none) (V.encode H) (V.encode Γ)
      (leNat (bslice pi 48 32) • V.B - leNat (bslice pi 32 16) • Y)
      (leNat (bslice pi 48 32) • H - leNat (bslice pi 32 16) • Γ) ∧
    β = SpecG.gammaToHash V Γ

/-- `SpecG.verify` returns `some β` exactly on `Accepts` -/
theorem verify_eq_some_iff (h : VrfLaws V) (withY : Bool) (pk pi alpha β : Bytes) :
    SpecG.verify V withY pk pi alpha = some β ↔ Accepts V withY pk pi alpha β := by
  unfold Accepts SpecG.verify SpecG.validateKey
  rcases h1 : SpecG.stringToPoint V pk with _ | Y
  · rw [stringToPoint_eq_none_iff] at h1
    simp only [reduceCtorEq, false_iff]
    rintro ⟨a1, a2, -, -, -, Y, -, -, a3, -⟩
    rcases h1 with h1 | h1 | h1
    · exact h1 a1
    · rw [a2] at h1; cases h1
    · rw [a3] at h1; cases h1
  obtain ⟨a1, a2, a3⟩ := (stringToPoint_eq_some_iff V pk Y).1 h1
  by_cases hso : V.isSmallOrder Y = true
  case pos =>
    have : (8 : ℕ) • Y = 0 := (h.ed.isSmallOrder_iff Y).1 hso
    simp only [hso, Bool.not_true, Bool.not_false, if_true, reduceCtorEq, false_iff]
    rintro ⟨-, -, -, -, -, Y', -, -, b1, b2, -⟩
    rw [a3] at b1; cases b1; exact b2 this
  rw [Bool.not_eq_true] at hso
  have hY : (8 : ℕ) • Y ≠ 0 := (h.ed.isSmallOrder_eq_false_iff Y).1 hso
  simp only [hso, Bool.not_false, Bool.not_true, Bool.false_eq_true, if_false]
  rcases h2 : SpecG.decodeProof V pi with _ | ⟨Γ, c, s⟩
  · rw [decodeProof_eq_none_iff] at h2
    simp only [reduceCtorEq, false_iff]
    rintro ⟨-, -, b1, b2, b3, -, Γ, -, -, -, b4, -⟩
    rcases h2 with h2 | h2 | h2 | h2
    · exact h2 b1
    · rw [b2] at h2; cases h2
    · rw [b4] at h2; cases h2
    · exact absurd b3 (not_lt.2 h2)
  obtain ⟨b1, b2, b3, rfl, rfl, b6⟩ := (decodeProof_eq_some_iff V pi Γ c s).1 h2
  rcases h3 : V.encodeToCurve pk alpha with _ | H
  · simp only [reduceCtorEq, false_iff]
    rintro ⟨-, -, -, -, -, -, -, H, -, -, -, c1, -⟩
    cases c1
  simp only [h.ed.add_eq, h.ed.neg_eq, h.ed.smul_eq, ← sub_eq_add_neg, beq_iff_eq]
  generalize hcc : SpecG.challenge V (if withY = true then some pk else none) (V.encode H) (V.encode Γ)
    (leNat (bslice pi 48 32) • V.B - leNat (bslice pi 32 16) • Y)
    (leNat (bslice pi 48 32) • H - leNat (bslice pi 32 16) • Γ) = cc
  constructor
  · intro hv
    by_cases hc : leNat (bslice pi 32 16) = cc
    · rw [if_pos hc] at hv
      exact ⟨a1, a2, b1, b2, b6, Y, Γ, H, a3, hY, b3, rfl, hc.trans hcc.symm, (Option.some.inj hv).symm⟩
    · rw [if_neg hc] at hv; cases hv
  · rintro ⟨-, -, -, -, -, Y', Γ', H', d1, -, d2, d3, d4, d5⟩
    rw [a3] at d1; cases d1
    rw [b3] at d2; cases d2
    cases d3
    rw [hcc] at d4
    rw [if_pos d4, d5]

/-- **C15: `Verify` returns exactly `ProofToHash(π)` on success** — for ANY proof string. -/
theorem vrf_verify_eq_proofToHash (withY : Bool) (pk pi alpha β : Bytes)
    (hv : SpecG.verify V withY pk pi alpha = some β) : SpecG.proofToHash V pi = some β := by
  unfold SpecG.verify at hv
  split at hv
  · cases hv
  split at hv
  · cases hv
  split at hv
  · cases hv
  rename_i Γ c s hdp
  split at hv
  · cases hv
  simp only at hv
  generalize SpecG.challenge V _ _ _ _ _ = cc at hv
  by_cases hc : (c == cc) = true
  · rw [if_pos hc] at hv; rw [SpecG.proofToHash, hdp]; exact hv
  · rw [if_neg hc] at hv; cases hv

/-- **C15: exactness of rejection**, in the order of the code: `verify` is INVALID iff the key string has the wrong
    length, is non-canonical, is not on the curve, or is a small-order point; or the proof has the wrong length, a
    non-canonical Γ, a Γ not on the curve, or `s ≥ L`; or encode-to-curve fails (never, for this suite); or the
    recomputed challenge differs. -/
theorem vrf_reject_iff (h : VrfLaws V) (withY : Bool) (pk pi alpha : Bytes) :
    SpecG.verify V withY pk pi alpha = none ↔
      pk.size ≠ 32 ∨ V.isCanonicalEnc pk = false ∨ V.decode pk = none ∨
      (∃ Y, V.decode pk = some Y ∧ (8 : ℕ) • Y = 0) ∨
      pi.size ≠ 80 ∨ V.isCanonicalEnc (bslice pi 0 32) = false ∨ V.decode (bslice pi 0 32) = none ∨
      V.L ≤ leNat (bslice pi 48 32) ∨
      V.encodeToCurve pk alpha = none ∨
      (∃ Y Γ H : V.G, V.decode pk = some Y ∧ V.decode (bslice pi 0 32) = some Γ ∧
        V.encodeToCurve pk alpha = some H ∧
        leNat (bslice pi 32 16) ≠ SpecG.challenge V (if withY then some pk else none) (V.encode H) (V.encode Γ)
          (leNat (bslice pi 48 32) • V.B - leNat (bslice pi 32 16) • Y)
          (leNat (bslice pi 48 32) • H - leNat (bslice pi 32 16) • Γ)) := by
  rw [← Option.not_isSome_iff_eq_none, Option.isSome_iff_exists]
  simp only [verify_eq_some_iff V h]
  unfold Accepts
  by_cases a1 : pk.size = 32
  case neg => simp [a1]
  cases a2 : V.isCanonicalEnc pk
  · simp [a1]
  rcases a3 : V.decode pk with _ | Y
  · simp [a1]
  by_cases a4 : (8 : ℕ) • Y = 0
  · simp [a1, a4]
  by_cases b1 : pi.size = 80
  case neg => simp [a1, b1]
  cases b2 : V.isCanonicalEnc (bslice pi 0 32)
  · simp [a1, b1]
  rcases b3 : V.decode (bslice pi 0 32) with _ | Γ
  · simp [a1, b1]
  by_cases b4 : leNat (bslice pi 48 32) < V.L
  case neg => simp [a1, a4, b1, b4]; exact Or.inl (not_lt.1 b4)
  rcases b5 : V.encodeToCurve pk alpha with _ | H
  · simp [a1, a4, b1, b4]
  simp [a1, a4, b1, b4, not_le.2 b4]

end Abstract

/-! ## Completeness -/

/-- the verification equations hold EXACTLY for an honest proof: `[s]P − [c]([x]P) = [k]P` for `P = B` and `P = H` -/
theorem prove_equation {G : Type} [AddCommGroup G] {L : ℕ} {P : G} (hLP : L • P = 0) (x k c : ℕ) :
    ((k + c * x) % L) • P - c • (x • P) = k • P := by
  rw [nsmul_mod_of_smul_eq_zero hLP, add_smul, mul_smul]; abel

section Complete
variable (V : VrfIface) [AddCommGroup V.G]

/-- the challenge an honest prover computes -/
def honestC (withY : Bool) (x k : ℕ) (y : Bytes) (H : V.G) : ℕ :=
  SpecG.challenge V (if withY then some y else none) (V.encode H) (V.encode (x • H)) (k • V.B) (k • H)

/-- the byte-level facts about a produced proof `Γ ‖ c ‖ s` -/
theorem proveH_fields (h : VrfLaws V) (withY : Bool) (x k : ℕ) (y : Bytes) (H : V.G) :
    (SpecG.proveH V withY x k y H).size = 80 ∧
    bslice (SpecG.proveH V withY x k y H) 0 32 = V.encode (x • H) ∧
    leNat (bslice (SpecG.proveH V withY x k y H) 32 16) = honestC V withY x k y H ∧
    leNat (bslice (SpecG.proveH V withY x k y H) 48 32) = (k + honestC V withY x k y H * x) % V.L := by
  have hc : honestC V withY x k y H < 2 ^ 128 := challenge_lt V _ _ _ _ _
  have hs : (k + honestC V withY x k y H * x) % V.L < 2 ^ 256 :=
    lt_trans (Nat.mod_lt _ h.ed.L_prime.pos) h.ed.L_lt
  have e : SpecG.proveH V withY x k y H = V.encode (x • H) ++ natLE (honestC V withY x k y H) 16
      ++ natLE ((k + honestC V withY x k y H * x) % V.L) 32 := by
    unfold SpecG.proveH honestC
    simp only [h.ed.smul_eq, cLen, qLen]
  rw [e]
  obtain ⟨h1, h2, h3, h4⟩ := slices3 (h.ed.encode_size (x • H)) (natLE_size (honestC V withY x k y H) 16)
    (natLE_size ((k + honestC V withY x k y H * x) % V.L) 32)
  refine ⟨h1, h2, ?_, ?_⟩
  · rw [h3, leNat_natLE]
    exact Nat.mod_eq_of_lt (by norm_num at hc ⊢; exact hc)
  · rw [h4, leNat_natLE]
    exact Nat.mod_eq_of_lt (by norm_num at hs ⊢; exact hs)

/-- an honest proof decodes to `(x•H, c, s)` — for every scalar, nonce and format, no key condition -/
theorem decodeProof_proveH (h : VrfLaws V) (withY : Bool) (x k : ℕ) (y : Bytes) (H : V.G) :
    SpecG.decodeProof V (SpecG.proveH V withY x k y H)
      = some (x • H, honestC V withY x k y H, (k + honestC V withY x k y H * x) % V.L) := by
  obtain ⟨h1, h2, h3, h4⟩ := proveH_fields V h withY x k y H
  rw [decodeProof_eq_some_iff]
  refine ⟨h1, ?_, ?_, h3.symm, h4.symm, Nat.mod_lt _ h.ed.L_prime.pos⟩
  · rw [h2]; exact h.ed.canonical_encode _
  · rw [h2]; exact h.ed.decode_encode _

/-- **β does not depend on the nonce nor on the challenge format**: `ProofToHash` of every honest proof is
    `Hash(suite ‖ 3 ‖ [8·x]H ‖ 0)` — deterministic or with added randomness, RFC 9381 or draft-10 challenge. -/
theorem proofToHash_proveH (h : VrfLaws V) (withY : Bool) (x k : ℕ) (y : Bytes) (H : V.G) :
    SpecG.proofToHash V (SpecG.proveH V withY x k y H) = some (SpecG.gammaToHash V (x • H)) := by
  rw [SpecG.proofToHash, decodeProof_proveH V h]; rfl

theorem beta_indep_nonce (h : VrfLaws V) (withY withY' : Bool) (x k k' : ℕ) (y : Bytes) (H : V.G) :
    SpecG.proofToHash V (SpecG.proveH V withY x k y H) = SpecG.proofToHash V (SpecG.proveH V withY' x k' y H) := by
  rw [proofToHash_proveH V h, proofToHash_proveH V h]

/-- **C15 completeness** for a given `H = encode_to_curve(pk, alpha)`: `pk` is any 32-byte canonical string that decodes to
    `Y = x•B`, with `Y` not of small order. ALL scalars `x`, ALL nonces `k`, both formats. -/
theorem vrf_complete_H (h : VrfLaws V) (withY : Bool) (x k : ℕ) (pk alpha : Bytes) (H : V.G)
    (hpk : pk.size = 32) (hcan : V.isCanonicalEnc pk = true) (hdec : V.decode pk = some (x • V.B))
    (hY : (8 : ℕ) • (x • V.B) ≠ 0) (hH : V.encodeToCurve pk alpha = some H) :
    SpecG.verify V withY pk (SpecG.proveH V withY x k pk H) alpha = some (SpecG.gammaToHash V (x • H)) := by
  obtain ⟨h1, h2, h3, h4⟩ := proveH_fields V h withY x k pk H
  rw [verify_eq_some_iff V h]
  refine ⟨hpk, hcan, h1, ?_, ?_, x • V.B, x • H, H, hdec, hY, ?_, hH, ?_, rfl⟩
  · rw [h2]; exact h.ed.canonical_encode _
  · rw [h4]; exact Nat.mod_lt _ h.ed.L_prime.pos
  · rw [h2]; exact h.ed.decode_encode _
  · rw [h3, h4, prove_equation h.ed.L_B, prove_equation (h.e2c_order _ _ _ hH)]
    rfl

/-- **C15 completeness** (`vrf_complete`): for the key the library derives, `pk = encode (x•B)`, every proof that
    `proveWith` outputs — for ALL `x`, `alpha`, nonces `k` (so also with added randomness), both challenge formats —
    verifies, and `verify` returns `proofToHash` of that proof.  Side condition: `Y = x•B` is not of small order
    (`vrf_complete_honest` discharges it for `x ≢ 0 (mod L)`, which `clamp_not_dvd` gives for library keys). -/
theorem vrf_complete (h : VrfLaws V) (withY : Bool) (x k : ℕ) (alpha π : Bytes)
    (hY : (8 : ℕ) • (x • V.B) ≠ 0)
    (hπ : SpecG.proveWith V withY x k (V.encode (x • V.B)) alpha = some π) :
    SpecG.verify V withY (V.encode (x • V.B)) π alpha = SpecG.proofToHash V π ∧
      (SpecG.proofToHash V π).isSome = true := by
  unfold SpecG.proveWith at hπ
  rcases hH : V.encodeToCurve (V.encode (x • V.B)) alpha with _ | H
  · rw [hH] at hπ; cases hπ
  rw [hH] at hπ
  cases hπ
  rw [vrf_complete_H V h withY x k _ alpha H (h.ed.encode_size _) (h.ed.canonical_encode _) (h.ed.decode_encode _)
    hY hH, proofToHash_proveH V h]
  exact ⟨rfl, rfl⟩

/-- the proof exists whenever encode-to-curve succeeds (it always does for the suite) -/
theorem proveWith_isSome (withY : Bool) (x k : ℕ) (y alpha : Bytes) :
    (SpecG.proveWith V withY x k y alpha).isSome = (V.encodeToCurve y alpha).isSome := by
  unfold SpecG.proveWith; cases V.encodeToCurve y alpha <;> rfl

/-- completeness for honest keys: `x ≢ 0 (mod L)` and `B` of order exactly `L` -/
theorem vrf_complete_honest (h : VrfLaws V) (hOrd : OrderExact V.toEdIface) (withY : Bool) (x k : ℕ)
    (alpha π : Bytes) (hx : ¬ V.L ∣ x)
    (hπ : SpecG.proveWith V withY x k (V.encode (x • V.B)) alpha = some π) :
    SpecG.verify V withY (V.encode (x • V.B)) π alpha = SpecG.proofToHash V π ∧
      (SpecG.proofToHash V π).isSome = true :=
  vrf_complete V h withY x k alpha π (not_smallOrder_of_order V.toEdIface h.ed hOrd hx) hπ

end Complete

/-- the secret scalar that `Voi.Spec.ECVRF.prove` uses is never `≡ 0 (mod L)` -/
theorem expandKey_not_dvd (seed : Bytes) : ¬ L ∣ (Voi.Spec.ECVRF.expandKey seed).1 := by
  rw [expandKey_fst]; exact clamp_not_dvd _

/-! ## β depends only on `8•Γ` -/

section Beta
variable (V : VrfIface) [AddCommGroup V.G]

theorem gammaToHash_congr (h : VrfLaws V) {Γ₁ Γ₂ : V.G} (h8 : (8 : ℕ) • Γ₁ = (8 : ℕ) • Γ₂) :
    SpecG.gammaToHash V Γ₁ = SpecG.gammaToHash V Γ₂ := by
  unfold SpecG.gammaToHash; rw [h.mul8_eq, h.mul8_eq, h8]

/-- **C15: the output depends only on `8•Γ`**: shifting Γ by any 8-torsion point does not change β -/
theorem beta_of_8gamma (h : VrfLaws V) (Γ T : V.G) (hT : (8 : ℕ) • T = 0) :
    SpecG.gammaToHash V (Γ + T) = SpecG.gammaToHash V Γ :=
  gammaToHash_congr V h (by rw [smul_add, hT, add_zero])

/-- … at the level of proof strings: two proofs whose Γ agree up to torsion have the same `ProofToHash` -/
theorem proofToHash_of_8gamma (h : VrfLaws V) {π₁ π₂ : Bytes} {Γ₁ Γ₂ : V.G} {c₁ s₁ c₂ s₂ : ℕ}
    (h1 : SpecG.decodeProof V π₁ = some (Γ₁, c₁, s₁)) (h2 : SpecG.decodeProof V π₂ = some (Γ₂, c₂, s₂))
    (h8 : (8 : ℕ) • Γ₁ = (8 : ℕ) • Γ₂) : SpecG.proofToHash V π₁ = SpecG.proofToHash V π₂ := by
  unfold SpecG.proofToHash
  rw [h1, h2]
  exact congrArg some (gammaToHash_congr V h h8)

end Beta

/-! ## The two challenge formats: framing -/

section Framing
variable (V : VrfIface) [AddCommGroup V.G]

theorem challengeInput_size (h : VrfLaws V) (y : Option Bytes) (hs gs : Bytes) (U W : V.G) :
    (SpecG.challengeInput V y hs gs U W).size = 67 + (y.getD ByteArray.empty).size + hs.size + gs.size := by
  unfold SpecG.challengeInput
  simp only [ByteArray.size_append, h.ed.encode_size]
  have e1 : suiteString.size = 1 := rfl
  have e2 : (bytesOfList [0x02]).size = 1 := rfl
  have e3 : (bytesOfList [0x00]).size = 1 := rfl
  rw [e1, e2, e3]; omega

/-- **C15: the two challenge formats never hash the same string** (framing): with a 32-byte key string, the RFC 9381
    input has 163 bytes, the draft-10 input 131 — whatever the points are.  So a proof made in one format poses a
    different hash query when verified in the other. -/
theorem vrf_framing_distinct (h : VrfLaws V) (pk hs gs hs' gs' : Bytes) (U W U' W' : V.G)
    (hpk : pk.size = 32) (h1 : hs.size = 32) (h2 : gs.size = 32) (h1' : hs'.size = 32) (h2' : gs'.size = 32) :
    (SpecG.challengeInput V (some pk) hs gs U W).size = 163 ∧
    (SpecG.challengeInput V none hs' gs' U' W').size = 131 ∧
    SpecG.challengeInput V (some pk) hs gs U W ≠ SpecG.challengeInput V none hs' gs' U' W' := by
  have a := challengeInput_size V h (some pk) hs gs U W
  have b := challengeInput_size V h none hs' gs' U' W'
  have e0 : (ByteArray.empty).size = 0 := rfl
  simp only [Option.getD_some, Option.getD_none, hpk, h1, h2, h1', h2', e0] at a b
  refine ⟨a, b, fun he => ?_⟩
  rw [he, b] at a
  cases a

/-- what "the formats never cross-verify" means as an OUTCOME: no proof string is valid under both formats.  This is
    NOT a theorem of algebra: it says that the adversary cannot find a proof whose two (distinct, `vrf_framing_distinct`)
    hash queries have the same 128-bit truncated digest — a random-oracle / collision statement.  See
    `cross_format_partial` for exactly what is proved. -/
def cross_format_statement : Prop :=
  ∀ (pk π alpha β β' : Bytes), SpecG.verify V true pk π alpha = some β → SpecG.verify V false pk π alpha = some β' → False

/-- **what is proved about cross-verification**: a proof string accepted under BOTH formats exhibits two byte strings of
    different lengths (163 and 131 bytes — the two framings of the same `(H, Γ, U, V)`) whose truncated hashes coincide
    (both equal the `c` field of the proof).  Missing for `cross_format_statement`: that no such pair can be found
    (random oracle). -/
theorem cross_format_partial (h : VrfLaws V) (pk π alpha β β' : Bytes)
    (hv : SpecG.verify V true pk π alpha = some β) (hv' : SpecG.verify V false pk π alpha = some β') :
    ∃ m m' : Bytes, m.size = 163 ∧ m'.size = 131 ∧ m ≠ m' ∧
      leNat (bslice (V.hash512 m) 0 16) = leNat (bslice π 32 16) ∧
      leNat (bslice (V.hash512 m') 0 16) = leNat (bslice π 32 16) := by
  rw [verify_eq_some_iff V h] at hv hv'
  obtain ⟨a1, -, -, -, -, Y, Γ, H, hY, -, hΓ, hH, hc, -⟩ := hv
  obtain ⟨-, -, -, -, -, Y', Γ', H', hY', -, hΓ', hH', hc', -⟩ := hv'
  rw [hY] at hY'; cases hY'
  rw [hΓ] at hΓ'; cases hΓ'
  rw [hH] at hH'; cases hH'
  obtain ⟨s1, s2, hne⟩ := vrf_framing_distinct V h pk (V.encode H) (V.encode Γ) (V.encode H) (V.encode Γ)
    (leNat (bslice π 48 32) • V.B - leNat (bslice π 32 16) • Y) (leNat (bslice π 48 32) • H - leNat (bslice π 32 16) • Γ)
    (leNat (bslice π 48 32) • V.B - leNat (bslice π 32 16) • Y) (leNat (bslice π 48 32) • H - leNat (bslice π 32 16) • Γ)
    a1 (h.ed.encode_size _) (h.ed.encode_size _) (h.ed.encode_size _) (h.ed.encode_size _)
  exact ⟨_, _, s1, s2, hne, hc.symm, hc'.symm⟩

end Framing

/-! ## Uniqueness: the algebraic core -/

section Unique
variable (V : VrfIface) [AddCommGroup V.G]

/-- **C15 uniqueness, algebraic core.**  Let the key be `Y = x•B` up to torsion, `H` in the prime-order part, and let
    `Γ` be a CHEATING Gamma: `8•Γ ≠ 8•(x•H)` (its output β differs from the honest one).  Then for any fixed pair of
    points `(U, W)` there is AT MOST ONE challenge value `c < L` for which some response `s` satisfies both
    verification equations `U = s•B − c•Y`, `W = s•H − c•Γ`.  (For the honest `Γ` every `c` has a response.)
    Hence a cheating prover must make the hash of a string containing `(Γ, U, W)` hit one predetermined value:
    probability `2^-128` per hash query in the random-oracle model. -/
theorem vrf_unique_algebraic (h : VrfLaws V) (hExp : ExpHyp V.toEdIface) (hOrd : OrderExact V.toEdIface)
    {Y H Γ U W : V.G} {x : ℕ} (hY : (8 : ℕ) • Y = (8 : ℕ) • (x • V.B)) (hH : V.L • H = 0)
    (hΓ : (8 : ℕ) • Γ ≠ (8 : ℕ) • (x • H))
    {c₁ s₁ c₂ s₂ : ℕ} (hc₁ : c₁ < V.L) (hc₂ : c₂ < V.L)
    (hU₁ : U = s₁ • V.B - c₁ • Y) (hW₁ : W = s₁ • H - c₁ • Γ)
    (hU₂ : U = s₂ • V.B - c₂ • Y) (hW₂ : W = s₂ • H - c₂ • Γ) : c₁ = c₂ := by
  -- differences, over ℤ
  have eB : ((s₁ : ℤ) - s₂) • V.B = ((c₁ : ℤ) - c₂) • Y := by
    have := hU₁.symm.trans hU₂
    have e : ((s₁ : ℤ) - s₂) • V.B - ((c₁ : ℤ) - c₂) • Y = (s₁ • V.B - c₁ • Y) - (s₂ • V.B - c₂ • Y) := by
      rw [sub_smul, sub_smul, natCast_zsmul, natCast_zsmul, natCast_zsmul, natCast_zsmul]; abel
    rw [this, sub_self] at e
    exact sub_eq_zero.1 e
  have eH : ((s₁ : ℤ) - s₂) • H = ((c₁ : ℤ) - c₂) • Γ := by
    have := hW₁.symm.trans hW₂
    have e : ((s₁ : ℤ) - s₂) • H - ((c₁ : ℤ) - c₂) • Γ = (s₁ • H - c₁ • Γ) - (s₂ • H - c₂ • Γ) := by
      rw [sub_smul, sub_smul, natCast_zsmul, natCast_zsmul, natCast_zsmul, natCast_zsmul]; abel
    rw [this, sub_self] at e
    exact sub_eq_zero.1 e
  generalize ((s₁ : ℤ) - s₂) = ds at eB eH
  -- `L ∣ ds − dc·x` because `B` has order exactly `L`
  have e8 : ∀ P : V.G, (8 : ℕ) • P = (8 : ℤ) • P := fun P => by rw [← natCast_zsmul]; rfl
  have k1 : (8 * (ds - ((c₁ : ℤ) - c₂) * x)) • V.B = 0 := by
    have hY' : (8 : ℤ) • Y = (8 : ℤ) • ((x : ℤ) • V.B) := by rw [← e8, ← e8, natCast_zsmul]; exact hY
    have : (8 * (ds - ((c₁ : ℤ) - c₂) * x)) • V.B
        = (8 : ℤ) • (ds • V.B) - ((c₁ : ℤ) - c₂) • ((8 : ℤ) • ((x : ℤ) • V.B)) := by module
    rw [this, eB, ← hY']; module
  have k2 : (V.L : ℤ) ∣ 8 * (ds - ((c₁ : ℤ) - c₂) * x) := hOrd _ k1
  have hcop : IsCoprime (V.L : ℤ) (8 : ℤ) := by
    have := Nat.isCoprime_iff_coprime.2 h.ed.coprime8.symm
    simpa using this
  obtain ⟨m, hm⟩ := hcop.dvd_of_dvd_mul_left k2
  -- so `ds•H = (dc·x)•H`
  have hH' : (V.L : ℤ) • H = 0 := by rw [natCast_zsmul]; exact hH
  have k3 : ds • H = ((c₁ : ℤ) - c₂) • ((x : ℤ) • H) := by
    have : ds = ((c₁ : ℤ) - c₂) * x + V.L * m := by linarith
    rw [this, add_smul, mul_smul, mul_comm (V.L : ℤ) m, mul_smul, hH', smul_zero, add_zero]
  -- `dc • Z = 0` for `Z = 8•(Γ − x•H) ≠ 0`, a point killed by `L`
  have k4 : ((c₁ : ℤ) - c₂) • ((8 : ℕ) • (Γ - x • H)) = 0 := by
    rw [smul_comm, smul_sub, ← eH, k3, natCast_zsmul, sub_self, smul_zero]
  have hZ : V.L • ((8 : ℕ) • (Γ - x • H)) = 0 := by rw [smul_smul, mul_comm]; exact hExp _
  have hZne : (8 : ℕ) • (Γ - x • H) ≠ 0 := by
    rw [smul_sub]; exact fun e => hΓ (sub_eq_zero.1 e)
  have hdvd : (V.L : ℤ) ∣ (c₁ : ℤ) - c₂ := by
    by_contra hnd
    exact hZne (smul_eq_zero_of_coprime (isCoprime_of_prime_not_dvd h.ed.L_prime hnd) hZ k4)
  obtain ⟨q, hq⟩ := hdvd
  have hLpos : (0 : ℤ) < V.L := by exact_mod_cast h.ed.L_prime.pos
  have h1 : (c₁ : ℤ) < V.L := by exact_mod_cast hc₁
  have h2 : (c₂ : ℤ) < V.L := by exact_mod_cast hc₂
  have hq0 : q = 0 := by
    by_contra hne
    rcases lt_or_gt_of_ne hne with hneg | hpos
    · have : (V.L : ℤ) * q ≤ -(V.L : ℤ) := by nlinarith
      omega
    · have : (V.L : ℤ) ≤ (V.L : ℤ) * q := by nlinarith
      omega
  rw [hq0, mul_zero] at hq
  omega

/-- what "full uniqueness" means as an OUTCOME (RFC 9381 §3.1): all proofs accepted for one key and input give one
    output.  Not a theorem of algebra (it fails for a hash that the adversary can invert); see
    `full_uniqueness_partial`. -/
def full_uniqueness_statement : Prop :=
  ∀ (withY : Bool) (pk alpha π₁ π₂ β₁ β₂ : Bytes),
    SpecG.verify V withY pk π₁ alpha = some β₁ → SpecG.verify V withY pk π₂ alpha = some β₂ → β₁ = β₂

/-- **what is proved about full uniqueness**: for a key `Y = x•B` (up to torsion), every accepted proof `(Γ, c, s)`
    EITHER yields the honest output `Hash(… [8x]H …)`, OR has a cheating Γ, and then its challenge `c` — which equals the
    hash of a string containing `Γ, U, W` — is the ONLY value `c' < L` for which `(U, W)` admit a response at all.
    Missing for `full_uniqueness_statement`: that a hash output hits a value predetermined by its input only with
    probability `2^-128` per query (random oracle). -/
theorem full_uniqueness_partial (h : VrfLaws V) (hExp : ExpHyp V.toEdIface) (hOrd : OrderExact V.toEdIface)
    (withY : Bool) (pk alpha π β : Bytes) {Y H : V.G} {x : ℕ} (hpk : V.decode pk = some Y)
    (hY : (8 : ℕ) • Y = (8 : ℕ) • (x • V.B)) (hH : V.encodeToCurve pk alpha = some H)
    (hL : 2 ^ 128 ≤ V.L)
    (hv : SpecG.verify V withY pk π alpha = some β) :
    β = SpecG.gammaToHash V (x • H) ∨
    ∃ Γ : V.G, V.decode (bslice π 0 32) = some Γ ∧ (8 : ℕ) • Γ ≠ (8 : ℕ) • (x • H) ∧
      let c := leNat (bslice π 32 16)
      let s := leNat (bslice π 48 32)
      let U := s • V.B - c • Y
      let W := s • H - c • Γ
      c = SpecG.challenge V (if withY then some pk else none) (V.encode H) (V.encode Γ) U W ∧
      ∀ c' s' : ℕ, c' < V.L → U = s' • V.B - c' • Y → W = s' • H - c' • Γ → c' = c := by
  rw [verify_eq_some_iff V h] at hv
  obtain ⟨-, -, -, -, -, Y', Γ, H', hY', -, hΓ, hH', hc, hβ⟩ := hv
  rw [hpk] at hY'; cases hY'
  rw [hH] at hH'; cases hH'
  by_cases h8 : (8 : ℕ) • Γ = (8 : ℕ) • (x • H)
  · left; rw [hβ]; exact gammaToHash_congr V h h8
  · right
    refine ⟨Γ, hΓ, h8, hc, ?_⟩
    intro c' s' hc' hU hW
    have hclt : leNat (bslice π 32 16) < V.L := by
      rw [hc]; exact lt_of_lt_of_le (challenge_lt V _ _ _ _ _) hL
    exact vrf_unique_algebraic V h hExp hOrd hY (h.e2c_order _ _ _ hH) h8 hc' hclt hU hW rfl rfl

/-- two accepted proofs with honest Γ (up to torsion) have the same output -/
theorem unique_of_honest_gamma (h : VrfLaws V) (withY : Bool) (pk alpha π₁ π₂ β₁ β₂ : Bytes) {Γ₁ Γ₂ : V.G}
    (hΓ₁ : V.decode (bslice π₁ 0 32) = some Γ₁) (hΓ₂ : V.decode (bslice π₂ 0 32) = some Γ₂)
    (h8 : (8 : ℕ) • Γ₁ = (8 : ℕ) • Γ₂)
    (hv₁ : SpecG.verify V withY pk π₁ alpha = some β₁) (hv₂ : SpecG.verify V withY pk π₂ alpha = some β₂) :
    β₁ = β₂ := by
  rw [verify_eq_some_iff V h] at hv₁ hv₂
  obtain ⟨-, -, -, -, -, -, Γ₁', -, -, -, e1, -, -, rfl⟩ := hv₁
  obtain ⟨-, -, -, -, -, -, Γ₂', -, -, -, e2, -, -, rfl⟩ := hv₂
  rw [hΓ₁] at e1; cases e1
  rw [hΓ₂] at e2; cases e2
  exact gammaToHash_congr V h h8

end Unique

/-! ## The code-shaped model = the declarative functions -/

section ModelEqSpec
variable (V : VrfIface) [AddCommGroup V.G]

theorem bytes_04_02 : bytesOfList [0x04, 0x02] = suiteString ++ bytesOfList [0x02] := by decide
theorem bytes_04_03 : bytesOfList [0x04, 0x03] = suiteString ++ bytesOfList [0x03] := by decide

/-- `copy(cString[:16], x); c.SetBits(cString[:])` is the little-endian value of the (≤ 16) copied bytes -/
theorem setBits_pad (a : Bytes) (ha : a.size ≤ 16) : setBits (a ++ bzero 16) = leNat a := by
  unfold setBits
  rw [leNat_pad]
  have h1 := leNat_lt a
  have h2 : 256 ^ a.size ≤ 256 ^ 16 := Nat.pow_le_pow_right (by norm_num) ha
  apply Nat.mod_eq_of_lt
  have : (256 : ℕ) ^ 16 < 2 ^ 255 := by norm_num
  omega

/-- `challengeGeneration` computes the specification's challenge; the `len(p1) > 0` test only skips an empty write -/
theorem challengeGeneration_eq (y : Option Bytes) (hs gs : Bytes) (U W : V.G) :
    challengeGeneration V (y.getD ByteArray.empty) hs gs U W = SpecG.challenge V y hs gs U W := by
  unfold challengeGeneration SpecG.challenge SpecG.challengeInput
  simp only [cLen]
  rw [setBits_pad _ (bslice_size_le _ 0 16), bytes_04_02]
  by_cases hp : (y.getD ByteArray.empty).size > 0
  · rw [if_pos hp]
  · rw [if_neg hp]
    have : y.getD ByteArray.empty = ByteArray.empty := ByteArray.size_eq_zero_iff.1 (by omega)
    rw [this, ByteArray.append_empty]

theorem gammaToHash_eq (Γ : V.G) : gammaToHash V Γ = SpecG.gammaToHash V Γ := by
  unfold gammaToHash SpecG.gammaToHash
  rw [bytes_04_03]

/-- **`decodeProof` (code) = ECVRF_decode_proof (specification)** for every byte string -/
theorem decodeProof_eq (h : VrfLaws V) (pi : Bytes) : decodeProof V pi = SpecG.decodeProof V pi := by
  unfold decodeProof
  rcases hS : SpecG.decodeProof V pi with _ | ⟨Γ, c, s⟩
  · rw [decodeProof_eq_none_iff] at hS
    by_cases hsz : pi.size = 80
    case neg => simp [hsz]
    have h48 : (bslice pi 48 32).size = 32 := bslice_size_of_le (by omega)
    rcases hS with hS | hS | hS | hS
    · exact absurd hsz hS
    · simp [hsz, hS]
    · simp only [hsz, ne_eq, not_true_eq_false, if_false, hS]
      split <;> rfl
    · have : V.scMinimal (bslice pi 48 32) = false := by
        rw [← Bool.not_eq_true, h.ed.scMinimal_iff _ h48]; omega
      simp only [hsz, ne_eq, not_true_eq_false, if_false, this]
      split
      · rfl
      · split <;> rfl
  · obtain ⟨h1, h2, h3, rfl, rfl, h6⟩ := (decodeProof_eq_some_iff V pi Γ c s).1 hS
    have h48 : (bslice pi 48 32).size = 32 := bslice_size_of_le (by omega)
    have hm : V.scMinimal (bslice pi 48 32) = true := (h.ed.scMinimal_iff _ h48).2 h6
    simp only [h1, ne_eq, not_true_eq_false, if_false, h2, Bool.not_true, Bool.false_eq_true, h3, hm]
    rw [setBits_pad _ (bslice_size_le _ 32 16), Nat.mod_eq_of_lt h6]

theorem proofToHash_eq (h : VrfLaws V) (pi : Bytes) : proofToHash V pi = SpecG.proofToHash V pi := by
  unfold proofToHash SpecG.proofToHash
  rw [decodeProof_eq V h]
  rcases SpecG.decodeProof V pi with _ | ⟨Γ, c, s⟩
  · rfl
  · simp only [Option.map_some, gammaToHash_eq]

/-- **C15, model = specification (`vrf_model_eq_spec`), verification**: for every interface instance satisfying the laws
    and ALL byte strings `pk`, `pi`, `alpha` of all lengths, both formats: what `doVerify` returns (`(true, β)` ↦ `some β`,
    `(false, nil)` and the h2c panic ↦ `none`) is `ECVRF_verify`. -/
theorem vrf_model_eq_spec (h : VrfLaws V) (pk pi alpha : Bytes) (draftPreV11 : Bool) :
    (doVerify V pk pi alpha draftPreV11).toOption = SpecG.verify V (!draftPreV11) pk pi alpha := by
  unfold doVerify SpecG.verify SpecG.stringToPoint SpecG.validateKey
  rw [decodeProof_eq V h]
  by_cases a1 : pk.size = 32
  case neg => simp [a1, VOut.toOption]
  by_cases a2 : V.isCanonicalEnc pk = true
  case neg => simp [a1, a2, VOut.toOption]
  rcases a3 : V.decode pk with _ | Y
  · simp [a1, a2, VOut.toOption]
  by_cases a4 : V.isSmallOrder Y = true
  · simp [a1, a2, a4, VOut.toOption]
  rcases b : SpecG.decodeProof V pi with _ | ⟨Γ, c, s⟩
  · simp [a1, a2, a4, VOut.toOption]
  rcases e : V.encodeToCurve pk alpha with _ | H
  · simp [a1, a2, a4, VOut.toOption]
  have hp1 : (if (!draftPreV11) = true then pk else ByteArray.empty)
      = (if (!draftPreV11) = true then some pk else none).getD ByteArray.empty := by
    cases draftPreV11 <;> rfl
  have hU : Voi.Model.Ed25519.doubleScalarMulBasepoint V.toEdIface c (V.neg Y) s = V.add (V.smul s V.B) (V.neg (V.smul c Y)) := by
    rw [double_value h.ed, h.ed.add_eq, h.ed.neg_eq, h.ed.neg_eq, h.ed.smul_eq, h.ed.smul_eq, smul_neg]; abel
  have hW : V.add (V.smul s H) (V.smul c (V.neg Γ)) = V.add (V.smul s H) (V.neg (V.smul c Γ)) := by
    simp only [h.ed.neg_eq, h.ed.smul_eq, smul_neg]
  have hg : bslice pi 0 32 = V.encode Γ := by
    obtain ⟨-, g2, g3, -⟩ := (decodeProof_eq_some_iff V pi Γ c s).1 b
    exact (h.encode_decode _ _ g2 g3).symm
  simp only [a1, ne_eq, not_true_eq_false, if_false, a2, Bool.not_true, Bool.false_eq_true, a4, hp1,
    hg, challengeGeneration_eq, hU, hW, gammaToHash_eq]
  simp only [Bool.not_eq_true] at a4
  simp only [a4, Bool.false_eq_true, if_false, Bool.not_false]
  generalize SpecG.challenge V (if (!draftPreV11) = true then some pk else none) (V.encode H)
      (V.encode Γ) (V.add (V.smul s V.B) (V.neg (V.smul c Y))) (V.add (V.smul s H) (V.neg (V.smul c Γ))) = cc
  by_cases hc : c = cc
  · simp [hc, VOut.toOption]
  · simp [hc, VOut.toOption]

/-- the only way `doVerify` panics: a valid key and a decodable proof, and the h2c suite fails (never, for this suite) -/
theorem doVerify_panic_iff (h : VrfLaws V) (pk pi alpha : Bytes) (draftPreV11 : Bool) :
    doVerify V pk pi alpha draftPreV11 = .panic ↔
      (∃ Y, SpecG.stringToPoint V pk = some Y ∧ V.isSmallOrder Y = false) ∧ (SpecG.decodeProof V pi).isSome = true ∧
        V.encodeToCurve pk alpha = none := by
  unfold doVerify SpecG.stringToPoint
  rw [decodeProof_eq V h]
  by_cases a1 : pk.size = 32
  case neg => simp [a1]
  by_cases a2 : V.isCanonicalEnc pk = true
  case neg => simp [a1, a2]
  rcases a3 : V.decode pk with _ | Y
  · simp [a1, a2]
  by_cases a4 : V.isSmallOrder Y = true
  · simp [a1, a2, a4]
  rcases b : SpecG.decodeProof V pi with _ | ⟨Γ, c, s⟩
  · simp [a1, a2, a4]
  rcases e : V.encodeToCurve pk alpha with _ | H
  · simp [a1, a2, a4]
  · simp only [a1, ne_eq, not_true_eq_false, if_false, a2, Bool.not_true, Bool.false_eq_true, a4]
    generalize challengeGeneration V _ _ _ _ _ = cc
    by_cases hc : c = cc <;> simp [hc]

/-- the proof string assembled by `doProve` (`c.ToBytes` into bytes 32..63, then `s.ToBytes` over bytes 48..79) is
    `Γ ‖ c (16 bytes) ‖ s (32 bytes)` -/
theorem proof_layout (g : Bytes) (hg : g.size = 32) (c s : ℕ) :
    bslice (g ++ natLE c 32 ++ bzero 16) 0 48 ++ natLE s 32 = g ++ natLE c 16 ++ natLE s 32 := by
  have e : natLE c 32 = natLE c 16 ++ natLE (c / 256 ^ 16) 16 := natLE_add c 16 16
  rw [e]
  congr 1
  unfold bslice
  have : g ++ (natLE c 16 ++ natLE (c / 256 ^ 16) 16) ++ bzero 16
      = (g ++ natLE c 16) ++ (natLE (c / 256 ^ 16) 16 ++ bzero 16) := by
    simp only [ByteArray.append_assoc]
  rw [this]
  exact ByteArray.extract_append_eq_left (by rw [ByteArray.size_append, hg, natLE_size])

/-- **C15, model = specification, proving**: `doProve` (deterministic: `rand = none`; with added randomness: a reader over
    `e`, of which 32 bytes are consumed, fewer is an error) is `ECVRF_prove` with the RFC 8032 key expansion and the §5.4.2.2
    nonce — for all keys, inputs, entropy streams, both formats.  `hL`: a 128-bit challenge is a reduced scalar. -/
theorem vrf_model_eq_spec_prove (h : VrfLaws V) (hL : 2 ^ 128 ≤ V.L) (rand : Option Bytes) (sk alpha : Bytes)
    (draftPreV11 : Bool) :
    doProve V rand sk alpha draftPreV11 =
      match rand with
      | none => SpecG.prove V (!draftPreV11) none sk alpha
      | some e => if e.size < 32 then none else SpecG.prove V (!draftPreV11) (some (bslice e 0 32)) sk alpha := by
  unfold doProve SpecG.prove
  by_cases hsk : sk.size = 64
  case neg => rcases rand with _ | e <;> simp [hsk]
  simp only [hsk, ne_eq, not_true_eq_false, if_false]
  rcases hH : V.encodeToCurve (bslice sk 32 32) alpha with _ | H
  · rcases rand with _ | e <;> simp
  have hp1 : (if (!draftPreV11) = true then bslice sk 32 32 else ByteArray.empty)
      = (if (!draftPreV11) = true then some (bslice sk 32 32) else none).getD ByteArray.empty := by
    cases draftPreV11 <;> rfl
  -- the common tail, for a given nonce input
  have tail : ∀ (nonceIn : Bytes) (entropy : Option Bytes),
      leNat (V.hash512 nonceIn) % V.L
        = SpecG.nonce V (bslice (V.hash512 (bslice sk 0 32)) 32 32) (V.encode H) entropy →
      some (bslice (V.encode (V.smul (Voi.Spec.Ed25519.clamp (V.hash512 (bslice sk 0 32))) H) ++
          natLE (challengeGeneration V (if (!draftPreV11) = true then bslice sk 32 32 else ByteArray.empty)
            (V.encode H) (V.encode (V.smul (Voi.Spec.Ed25519.clamp (V.hash512 (bslice sk 0 32))) H))
            (V.smul (leNat (V.hash512 nonceIn) % V.L) V.B) (V.smul (leNat (V.hash512 nonceIn) % V.L) H) % V.L) 32 ++
          bzero 16) 0 48 ++
        natLE (((challengeGeneration V (if (!draftPreV11) = true then bslice sk 32 32 else ByteArray.empty)
            (V.encode H) (V.encode (V.smul (Voi.Spec.Ed25519.clamp (V.hash512 (bslice sk 0 32))) H))
            (V.smul (leNat (V.hash512 nonceIn) % V.L) V.B) (V.smul (leNat (V.hash512 nonceIn) % V.L) H) *
              Voi.Spec.Ed25519.clamp (V.hash512 (bslice sk 0 32))) % V.L + leNat (V.hash512 nonceIn) % V.L) % V.L %
          V.L) 32)
      = some (SpecG.proveH V (!draftPreV11) (Voi.Spec.Ed25519.clamp (V.hash512 (bslice sk 0 32)))
          (SpecG.nonce V (bslice (V.hash512 (bslice sk 0 32)) 32 32) (V.encode H) entropy) (bslice sk 32 32) H) := by
    intro nonceIn entropy hk
    rw [hk, hp1, challengeGeneration_eq]
    unfold SpecG.proveH
    simp only [cLen, qLen]
    generalize SpecG.nonce V (bslice (V.hash512 (bslice sk 0 32)) 32 32) (V.encode H) entropy = k
    generalize hc : SpecG.challenge V (if (!draftPreV11) = true then some (bslice sk 32 32) else none) (V.encode H)
      (V.encode (V.smul (Voi.Spec.Ed25519.clamp (V.hash512 (bslice sk 0 32))) H)) (V.smul k V.B) (V.smul k H) = c
    have hclt : c < V.L := by
      rw [← hc]; exact lt_of_lt_of_le (challenge_lt V _ _ _ _ _) hL
    rw [Nat.mod_eq_of_lt hclt, Nat.mod_mod, proof_layout _ (h.ed.encode_size _)]
    congr 3
    rw [Nat.mod_add_mod, Nat.add_comm]
  rcases rand with _ | e
  · simp only [Option.map_some]
    exact tail _ none rfl
  · by_cases he : e.size < 32
    · simp [he]
    · simp only [he, if_false, Option.map_some]
      exact tail _ (some (bslice e 0 32)) rfl

/-- a 128-bit challenge is a reduced scalar for edwards25519 -/
theorem concrete_hL : 2 ^ 128 ≤ concrete.L := by decide

end ModelEqSpec

/-! ## Non-vacuity: the toy instance of C01 (`G = ℤ/104`, `B = 8`, `L = 13`, identity "hash") extended by
`mul8 P = 8•P` and `encodeToCurve salt alpha = 8 • leNat (salt ‖ alpha)` -/
namespace Toy
open Voi.Props.C01.Toy Voi.Props.C02.Toy

abbrev toyV : VrfIface where
  toEdIface := toy
  mul8 := fun P => (8 : ℕ) • P
  encodeToCurve := fun salt alpha => some ((8 : ℕ) • ((leNat (salt ++ alpha) : ℕ) : ZMod 104))

theorem toyV_laws : VrfLaws toyV where
  ed := toy_laws
  mul8_eq := fun _ => rfl
  e2c_order := by
    intro salt alpha H hH
    cases hH
    exact order_of_cleared (I := toy) toy_exp _
  encode_decode := by
    intro b P hc hd
    have hc' : (match dec b with | some Q => Voi.beq (enc Q) b | none => false) = true := hc
    have hd' : dec b = some P := hd
    rw [hd'] at hc'
    exact (C01.beq_iff _ _).1 hc'

/-- the hypotheses of the completeness theorem are jointly satisfiable: secret scalar 3, EVERY nonce, input and format -/
example (withY : Bool) (k : ℕ) (alpha π : Bytes)
    (hπ : SpecG.proveWith toyV withY 3 k (toyV.encode ((3 : ℕ) • toyV.B)) alpha = some π) :
    SpecG.verify toyV withY (toyV.encode ((3 : ℕ) • toyV.B)) π alpha = SpecG.proofToHash toyV π ∧
      (SpecG.proofToHash toyV π).isSome = true :=
  vrf_complete_honest toyV toyV_laws toy_order withY 3 k alpha π (by decide) hπ

/-- … and `proveWith` does produce a proof there -/
example (withY : Bool) (k : ℕ) (alpha : Bytes) :
    (SpecG.proveWith toyV withY 3 k (toyV.encode ((3 : ℕ) • toyV.B)) alpha).isSome = true := by
  rw [proveWith_isSome]; rfl

def pkT : Bytes := enc 24
def alphaT : Bytes := bytesOfList [7]
/-- an honest toy proof (x = 3, nonce 5), RFC format -/
def piT : Bytes := (SpecG.proveWith toyV true 3 5 pkT alphaT).getD ByteArray.empty

example : piT.size = 80 := by decide +kernel
example : SpecG.verify toyV true pkT piT alphaT = SpecG.proofToHash toyV piT := by decide +kernel
example : (SpecG.verify toyV true pkT piT alphaT).isSome = true := by decide +kernel
-- s + L is rejected (s ≥ L), a 79-byte proof is rejected, a small-order key is rejected
example : SpecG.verify toyV true pkT (bslice piT 0 48 ++ natLE (leNat (bslice piT 48 32) + 13) 32) alphaT = none := by
  decide +kernel
example : SpecG.verify toyV true pkT (bslice piT 0 79) alphaT = none := by decide +kernel
example : SpecG.verify toyV true (enc 13) piT alphaT = none := by decide +kernel

/-- **why `full_uniqueness_statement` is only a statement**: it does NOT follow from the laws.  In the toy instance the
    "hash" is the identity, so the challenge is predictable and a cheating Γ (here `Γ = 16 ≠ x•H`) is accepted with another
    output. -/
def piCheat : Bytes := enc 16 ++ bslice piT 32 16 ++ natLE 0 32

example : (SpecG.verify toyV true pkT piCheat alphaT).isSome = true ∧
    SpecG.verify toyV true pkT piCheat alphaT ≠ SpecG.verify toyV true pkT piT alphaT := by decide +kernel

theorem toy_not_full_uniqueness : ¬ full_uniqueness_statement toyV := by
  intro hu
  rcases h1 : SpecG.verify toyV true pkT piCheat alphaT with _ | β₁
  · exact absurd h1 (by decide +kernel)
  rcases h2 : SpecG.verify toyV true pkT piT alphaT with _ | β₂
  · exact absurd h2 (by decide +kernel)
  have := hu true pkT alphaT piCheat piT β₁ β₂ h1 h2
  rw [this, ← h2] at h1
  exact absurd h1 (by decide +kernel)

/-- the hypotheses of `full_uniqueness_partial` are satisfiable (and its conclusion's second branch is inhabited by
    `piCheat`) -/
example : ∃ Γ : toyV.G, toyV.decode (bslice piCheat 0 32) = some Γ ∧ (8 : ℕ) • Γ ≠ (8 : ℕ) • ((3 : ℕ) • (8 : ZMod 104)) :=
  ⟨16, by decide +kernel, by decide +kernel⟩

/-- the hypotheses of `vrf_model_eq_spec` are satisfiable -/
example (pk pi alpha : Bytes) (pre : Bool) :
    (doVerify toyV pk pi alpha pre).toOption = SpecG.verify toyV (!pre) pk pi alpha :=
  vrf_model_eq_spec toyV toyV_laws pk pi alpha pre

end Toy

end Voi.Props.C15

section Axioms
open Voi.Props.C15
#print axioms specG_stringToPoint_concrete
#print axioms specG_challenge_concrete
#print axioms specG_gammaToHash_concrete
#print axioms specG_decodeProof_concrete
#print axioms specG_proofToHash_concrete
#print axioms specG_verify_concrete
#print axioms specG_prove_concrete
#print axioms expandKey_not_dvd
#print axioms order_of_cleared
#print axioms challenge_lt
#print axioms stringToPoint_eq_some_iff
#print axioms stringToPoint_eq_none_iff
#print axioms decodeProof_eq_some_iff
#print axioms decodeProof_eq_none_iff
#print axioms verify_eq_some_iff
#print axioms vrf_verify_eq_proofToHash
#print axioms vrf_reject_iff
#print axioms prove_equation
#print axioms proveH_fields
#print axioms decodeProof_proveH
#print axioms proofToHash_proveH
#print axioms beta_indep_nonce
#print axioms vrf_complete_H
#print axioms vrf_complete
#print axioms vrf_complete_honest
#print axioms gammaToHash_congr
#print axioms beta_of_8gamma
#print axioms proofToHash_of_8gamma
#print axioms challengeInput_size
#print axioms vrf_framing_distinct
#print axioms cross_format_partial
#print axioms vrf_unique_algebraic
#print axioms full_uniqueness_partial
#print axioms unique_of_honest_gamma
#print axioms specG_prove_concrete'
#print axioms setBits_pad
#print axioms challengeGeneration_eq
#print axioms gammaToHash_eq
#print axioms decodeProof_eq
#print axioms proofToHash_eq
#print axioms vrf_model_eq_spec
#print axioms doVerify_panic_iff
#print axioms proof_layout
#print axioms vrf_model_eq_spec_prove
#print axioms Toy.toyV_laws
#print axioms Toy.toy_not_full_uniqueness
end Axioms
