/-
More byte-string lemmas over `Voi.Basic` (continuing `Voi.Props.BytesLemmas`, same namespace): bytes as base-256 digits
(`get!_toNat`), `leNat` of a concatenation, `natLE ∘ leNat = id`, `natLE` of a longer length is an extension, slices of
slices, a string is the concatenation of its two parts, zero padding.  Used by C12 and C15.
-/
import Mathlib.Tactic.Ring
import Mathlib.Tactic.NormNum
import Voi.Props.BytesLemmas
namespace Voi.Props.Bytes
open Voi


theorem get!_eq_getElem (b : Bytes) (i : ℕ) (h : i < b.size) : b.get! i = b[i] := by
  cases b with
  | mk bs =>
    show bs[i]! = _
    have h' : i < bs.size := h
    rw [getElem!_pos bs i h']
    rfl

theorem get!_eq_toList (b : Bytes) (i : ℕ) (h : i < b.size) :
    b.get! i = b.data.toList[i]'(by simpa using h) := by
  rw [get!_eq_getElem b i h, ByteArray.getElem_eq_getElem_data]; simp

theorem leList_digit : ∀ (l : List UInt8) (i : ℕ) (h : i < l.length), leList l / 256 ^ i % 256 = (l[i]).toNat
  | x :: l, 0, _ => by
    simp only [leList, Nat.pow_zero, Nat.div_one, List.getElem_cons_zero]
    have := x.toNat_lt
    omega
  | x :: l, i + 1, h => by
    simp only [leList, List.getElem_cons_succ]
    rw [Nat.pow_succ', ← Nat.div_div_eq_div_mul]
    have := x.toNat_lt
    have e : (x.toNat + 256 * leList l) / 256 = leList l := by omega
    rw [e]
    exact leList_digit l i (by simpa using h)

/-- byte `i` is the `i`-th base-256 digit of the little-endian value -/
theorem get!_toNat (b : Bytes) (i : ℕ) (h : i < b.size) : (b.get! i).toNat = leNat b / 256 ^ i % 256 := by
  rw [get!_eq_toList b i h, leNat_eq, leList_digit]

theorem get!_bslice (b : Bytes) (off len i : ℕ) (hi : i < len) (hb : off + len ≤ b.size) :
    (bslice b off len).get! i = b.get! (off + i) := by
  have hs : (bslice b off len).size = len := by unfold bslice; rw [ByteArray.size_extract]; omega
  rw [get!_eq_getElem _ i (by rw [hs]; exact hi), get!_eq_getElem b (off + i) (by omega)]
  unfold bslice
  rw [ByteArray.getElem_extract]

theorem leList_append (l l' : List UInt8) : leList (l ++ l') = leList l + 256 ^ l.length * leList l' := by
  induction l with
  | nil => simp [leList]
  | cons x l ih =>
    simp only [List.cons_append, leList, ih, List.length_cons, Nat.pow_succ]
    ring

theorem leNat_append (a c : Bytes) : leNat (a ++ c) = leNat a + 256 ^ a.size * leNat c := by
  rw [leNat_eq, leNat_eq, leNat_eq, ByteArray.toList_data_append, leList_append, Array.length_toList]
  rfl

/-- `natLE ∘ leNat` is the identity on byte strings of the requested length -/
theorem natLE_leNat (b : Bytes) : natLE (leNat b) b.size = b := by
  apply leNat_inj (by rw [natLE_size])
  rw [leNat_natLE]
  exact Nat.mod_eq_of_lt (leNat_lt b)

theorem bslice_size_of_le {b : Bytes} {off len : ℕ} (h : off + len ≤ b.size) : (bslice b off len).size = len := by
  unfold bslice; rw [ByteArray.size_extract]; omega

/-- a string is the concatenation of its two parts -/
theorem split_at (b : Bytes) (n m : ℕ) (h : b.size = n + m) : bslice b 0 n ++ bslice b n m = b := by
  unfold bslice
  rw [Nat.zero_add, ByteArray.extract_append_extract]
  have : b.extract (min 0 n) (max n (n + m)) = b.extract 0 b.size := by
    rw [h]; congr 1 <;> omega
  rw [this, ByteArray.extract_zero_size]

theorem bslice_bslice (b : Bytes) (off len off' len' : ℕ) (h : off' + len' ≤ len) :
    bslice (bslice b off len) off' len' = bslice b (off + off') len' := by
  unfold bslice
  rw [ByteArray.extract_extract]
  congr 1
  omega



theorem leList_replicate_zero (n : ℕ) : leList (List.replicate n 0) = 0 := by
  induction n with
  | zero => rfl
  | succ n ih => simp [List.replicate_succ, leList, ih]

theorem leNat_bzero (n : ℕ) : leNat (bzero n) = 0 := by
  rw [leNat_eq]
  have : (bzero n).data.toList = List.replicate n 0 := by simp [bzero]
  rw [this, leList_replicate_zero]

/-- zero padding at the most significant end does not change the little-endian value -/
theorem leNat_pad (a : Bytes) (n : ℕ) : leNat (a ++ bzero n) = leNat a := by
  rw [leNat_append, leNat_bzero, Nat.mul_zero, Nat.add_zero]

theorem digits_add (a b : ℕ) : ∀ n, digits n (a + b) = digits n a ++ digits (n / 256 ^ a) b := by
  induction a with
  | zero => intro n; simp [digits]
  | succ a ih =>
    intro n
    have : a + 1 + b = (a + b) + 1 := by omega
    rw [this]
    simp only [digits, ih, List.cons_append]
    rw [Nat.pow_succ', Nat.div_div_eq_div_mul]

/-- the first `a` bytes of a longer little-endian encoding are the `a`-byte encoding -/
theorem natLE_add (n a b : ℕ) : natLE n (a + b) = natLE n a ++ natLE (n / 256 ^ a) b := by
  apply ByteArray.ext
  apply Array.toList_inj.1
  rw [ByteArray.toList_data_append, natLE_data, natLE_data, natLE_data, digits_add]

theorem bslice_size_le (b : Bytes) (off len : ℕ) : (bslice b off len).size ≤ len := by
  unfold bslice; rw [ByteArray.size_extract]; omega

end Voi.Props.Bytes
