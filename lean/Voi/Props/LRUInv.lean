/-
Property C18 (LRU part): invariants of `Model.LRU` over ALL operation histories — `Put(k, nil)` included — and its
refinement to the abstract specification `Spec.LRU` (instantiated at the value type `Option V`: a stored nil
pointer is a value like any other).  Core Lean tactics only.

Main results (arbitrary key type with decidable equality, arbitrary value type, NO hypothesis on the operations):

* `inv_new`, `inv_step`, `inv_run`      every state reachable from `new cap` (cap > 0) by ANY history of `Get`s and
                                         `Put`s satisfies `Inv`: size ≤ cap, recency list duplicate-free,
                                         k ∈ list ↔ k bound in the store, the store binds every key once, |store| = |list|.
* `inv_put_nil`                          in particular `Put(k, nil)` preserves the invariant (it did not before the fix
                                         "LRU cache Put detects an existing key by presence, not by a non-nil value").
* `refine_get`, `refine_put`, `refine_step`, `refine_run`
                                         `abs (step s op) = Spec.step (abs s) (absOp op)`; the output of the model is the
                                         abstract output flattened (`Get` returns nil both for an absent key and for a
                                         key bound to nil); whole histories agree.
* `put_evicts_lru`, `put_no_evict`, `put_hit`
                                         when `Put` evicts, the evicted key is the LAST key of the abstract recency order
                                         (= least recently used) and exactly that binding disappears; no eviction below
                                         capacity; `Put` of a present key changes no binding (whatever its value).
* `Spec.items_run`, `Spec.get_returns_put`, `binding_from_put`, `get_returns_put`
                                         every cached binding (k, w) was supplied by an operation `put k w`: the cache
                                         never returns a value that was given for a different key.
* `Spec.keys_eq_stack`, `list_eq_stack`  declarative LRU order: after ANY history the cached keys (= the model's recency
                                         list) are exactly the first `cap` keys of Mattson's LRU stack of the history,
                                         i.e. the `cap` most recently used distinct keys, most recent first.
-/
import Voi.Model.LRU
namespace Voi.Props.LRUInv
open Voi.Spec.LRU (lookup eraseKey touch stackStep stackRun)
open Voi.Model Voi.Model.LRU

variable {K V : Type} [DecidableEq K]

/-! ### association-list lemmas -/

theorem lookup_eraseKey {α : Type} (k k' : K) (l : List (K × α)) :
    lookup k' (eraseKey k l) = if k' = k then none else lookup k' l := by
  induction l with
  | nil => simp [eraseKey, lookup]
  | cons hd t ih =>
    obtain ⟨a, v⟩ := hd
    unfold eraseKey at ih ⊢
    by_cases h1 : a = k
    · subst h1
      simp only [List.filter, decide_true, Bool.not_true]
      rw [ih]
      by_cases h2 : k' = a
      · simp [h2]
      · have : ¬ a = k' := fun h => h2 h.symm
        simp [h2, lookup, this]
    · simp only [List.filter, h1, decide_false, Bool.not_false]
      simp only [lookup]
      rw [ih]
      by_cases h2 : a = k'
      · subst h2; simp [h1]
      · simp [h2]

theorem lookup_isSome_iff {α : Type} (k : K) (l : List (K × α)) :
    (lookup k l).isSome ↔ k ∈ l.map Prod.fst := by
  induction l with
  | nil => simp [lookup]
  | cons hd t ih =>
    obtain ⟨a, v⟩ := hd
    by_cases h : a = k
    · simp [lookup, h]
    · have h' : ¬ k = a := fun e => h e.symm
      simp [lookup, h, h', ih]

theorem lookup_none_iff {α : Type} (k : K) (l : List (K × α)) :
    lookup k l = none ↔ k ∉ l.map Prod.fst := by
  rw [← lookup_isSome_iff]; cases lookup k l <;> simp

theorem eraseKey_of_not_mem {α : Type} (k : K) (l : List (K × α)) (h : k ∉ l.map Prod.fst) :
    eraseKey k l = l := by
  unfold eraseKey
  rw [List.filter_eq_self]
  intro p hp
  have : p.1 ≠ k := fun e => h (e ▸ List.mem_map_of_mem (f := Prod.fst) hp)
  simp [this]

theorem keys_eraseKey {α : Type} (k : K) (l : List (K × α)) :
    (eraseKey k l).map Prod.fst = (l.map Prod.fst).filter (fun a => !decide (a = k)) := by
  induction l with
  | nil => simp [eraseKey]
  | cons hd t ih =>
    unfold eraseKey at ih ⊢
    by_cases h : hd.1 = k <;> simp [List.filter, h, ih]

theorem nodup_filter {α : Type} (p : α → Bool) {l : List α} (h : l.Nodup) : (l.filter p).Nodup :=
  List.Nodup.sublist List.filter_sublist h

theorem length_eraseKey_of_mem {α : Type} (k : K) (l : List (K × α))
    (hn : (l.map Prod.fst).Nodup) (hm : k ∈ l.map Prod.fst) :
    (eraseKey k l).length + 1 = l.length := by
  induction l with
  | nil => simp at hm
  | cons hd t ih =>
    obtain ⟨a, v⟩ := hd
    simp only [List.map_cons, List.nodup_cons] at hn
    by_cases h : a = k
    · subst h
      have : eraseKey a ((a, v) :: t) = eraseKey a t := by simp [eraseKey, List.filter]
      rw [this, eraseKey_of_not_mem a t hn.1]; simp
    · have hk : k ∈ t.map Prod.fst := by
        simp only [List.map_cons, List.mem_cons] at hm
        rcases hm with e | e
        · exact absurd e.symm h
        · exact e
      have : eraseKey k ((a, v) :: t) = (a, v) :: eraseKey k t := by simp [eraseKey, List.filter, h]
      rw [this]; simp only [List.length_cons]; rw [ih hn.2 hk]

/-! ### last element -/

theorem eq_dropLast_append {α : Type} {l : List α} {a : α} (h : l.getLast? = some a) :
    l = l.dropLast ++ [a] := by
  induction l with
  | nil => simp at h
  | cons x t ih =>
    cases t with
    | nil => simp at h; simp [h]
    | cons y t' =>
      have h' : (y :: t').getLast? = some a := by simpa [List.getLast?_cons_cons] using h
      have := ih h'
      simp only [List.dropLast_cons_cons, List.cons_append]
      rw [← this]

/-! ### the invariant -/

/-- the representation invariant of `lruCache` -/
structure Inv (s : State K V) : Prop where
  capPos : 0 < s.cap
  size : s.list.length ≤ s.cap
  nodup : s.list.Nodup
  keys : ∀ k, k ∈ s.list ↔ (lookup k s.store).isSome
  storeNodup : (s.store.map Prod.fst).Nodup
  storeLen : s.store.length = s.list.length

theorem inv_new {cap : Nat} (h : 0 < cap) : Inv (new cap : State K V) :=
  ⟨h, Nat.zero_le _, List.nodup_nil, by intro k; simp [new, lookup], by simp [new], rfl⟩

theorem inv_get_hit {s : State K V} (hs : Inv s) (k : K) (hk : k ∈ s.list) :
    Inv { s with list := k :: s.list.erase k } := by
  refine ⟨hs.capPos, ?_, ?_, ?_, hs.storeNodup, ?_⟩
  · have := List.length_erase_of_mem hk
    have h0 : 0 < s.list.length := List.length_pos_of_mem hk
    have := hs.size
    simp only [List.length_cons]; omega
  · rw [List.nodup_cons]
    refine ⟨?_, hs.nodup.erase k⟩
    rw [hs.nodup.mem_erase_iff]; simp
  · intro k'
    rw [← hs.keys k', List.mem_cons, hs.nodup.mem_erase_iff]
    constructor
    · rintro (e | ⟨_, h⟩)
      · exact e ▸ hk
      · exact h
    · intro h
      by_cases e : k' = k
      · exact Or.inl e
      · exact Or.inr ⟨e, h⟩
  · have := List.length_erase_of_mem hk
    have h0 : 0 < s.list.length := List.length_pos_of_mem hk
    have := hs.storeLen
    simp only [List.length_cons]; omega

theorem inv_get {s : State K V} (hs : Inv s) (k : K) : Inv (LRU.get s k).1 := by
  unfold LRU.get
  cases h : lookup k s.store with
  | none => exact hs
  | some ov =>
    have hk : k ∈ s.list := by rw [hs.keys, h]; rfl
    exact inv_get_hit hs k hk

/-- state after the eviction step: the invariant with the size bound made strict -/
theorem inv_evict {s : State K V} (hs : Inv s) :
    Inv (evict s) ∧ (evict s).list.length < s.cap ∧ (evict s).cap = s.cap := by
  unfold evict
  by_cases hfull : s.list.length = s.cap
  · simp only [hfull, if_true]
    cases hl : s.list.getLast? with
    | none =>
      have : s.list = [] := List.getLast?_eq_none_iff.mp hl
      have h0 := hs.capPos
      rw [this] at hfull; simp at hfull; omega
    | some kb =>
      have hsplit := eq_dropLast_append hl
      have hnd : (s.list.dropLast ++ [kb]).Nodup := hsplit ▸ hs.nodup
      rw [List.nodup_append] at hnd
      have hkb_notin : kb ∉ s.list.dropLast := fun h => hnd.2.2 kb h kb (by simp) rfl
      have hmem : ∀ k, k ∈ s.list ↔ (k ∈ s.list.dropLast ∨ k = kb) := by
        intro k
        have : k ∈ s.list ↔ k ∈ s.list.dropLast ++ [kb] := by rw [← hsplit]
        rw [this]; simp
      have hkb_store : kb ∈ s.store.map Prod.fst := by
        rw [← lookup_isSome_iff, ← hs.keys, hmem]; exact Or.inr rfl
      have hlen := length_eraseKey_of_mem kb s.store hs.storeNodup hkb_store
      have hcap := hs.capPos
      refine ⟨⟨hs.capPos, ?_, hnd.1, ?_, ?_, ?_⟩, ?_, rfl⟩
      · simp only [List.length_dropLast]; omega
      · intro k
        simp only
        rw [lookup_eraseKey]
        by_cases e : k = kb
        · subst e; simp [hkb_notin]
        · simp only [e, if_false]
          rw [← hs.keys, hmem]; simp [e]
      · simp only; rw [keys_eraseKey]; exact nodup_filter _ hs.storeNodup
      · simp only [List.length_dropLast]
        have := hs.storeLen
        omega
      · simp only [List.length_dropLast]; omega
  · simp only [hfull, if_false]
    exact ⟨hs, Nat.lt_of_le_of_ne hs.size hfull, trivial⟩

theorem inv_insert {s : State K V} (hs : Inv s) (hlt : s.list.length < s.cap) (k : K) (ov : Option V)
    (hk : k ∉ s.list) :
    Inv { s with list := k :: s.list, store := (k, ov) :: eraseKey k s.store } := by
  have hks : k ∉ s.store.map Prod.fst := by
    rw [← lookup_isSome_iff, ← hs.keys]; exact hk
  have he : eraseKey k s.store = s.store := eraseKey_of_not_mem k s.store hks
  rw [he]
  refine ⟨hs.capPos, ?_, ?_, ?_, ?_, ?_⟩
  · simp only [List.length_cons]; omega
  · exact List.nodup_cons.mpr ⟨hk, hs.nodup⟩
  · intro k'
    simp only [lookup, List.mem_cons]
    by_cases e : k = k'
    · simp [e]
    · have e' : ¬ k' = k := fun h => e h.symm
      simp only [e, e', if_false, false_or]; exact hs.keys k'
  · simp only [List.map_cons]; exact List.nodup_cons.mpr ⟨hks, hs.storeNodup⟩
  · simp only [List.length_cons]; rw [hs.storeLen]

/-- on a miss `put` is `evict` followed by an insertion; on a hit (whatever the stored value) it is `get` -/
theorem put_eq {s : State K V} (hs : Inv s) (k : K) (ov : Option V) :
    put s k ov =
      if k ∈ s.list then (LRU.get s k).1
      else { evict s with list := k :: (evict s).list, store := (k, ov) :: eraseKey k (evict s).store } := by
  unfold put
  cases h : lookup k s.store with
  | none =>
    have hk : k ∉ s.list := by rw [hs.keys, h]; simp
    simp [hk]
  | some w =>
    have hk : k ∈ s.list := by rw [hs.keys, h]; rfl
    simp [hk]

theorem evict_list_subset {s : State K V} {k : K} (h : k ∈ (evict s).list) : k ∈ s.list := by
  unfold evict at h
  split at h
  · split at h
    · exact (List.dropLast_sublist _).subset h
    · exact h
  · exact h

theorem inv_put {s : State K V} (hs : Inv s) (k : K) (ov : Option V) : Inv (put s k ov) := by
  rw [put_eq hs]
  by_cases hk : k ∈ s.list
  · simp only [hk, if_true]; exact inv_get hs k
  · simp only [hk, if_false]
    obtain ⟨hi, hlt, hc⟩ := inv_evict hs
    exact inv_insert hi (hc ▸ hlt) k ov (fun h => hk (evict_list_subset h))

/-- `Put(k, nil)` preserves the invariant (special case of `inv_put`, stated for the record: before the fix of
`lru.go` it produced a second list element for `k`). -/
theorem inv_put_nil {s : State K V} (hs : Inv s) (k : K) : Inv (put s k none) := inv_put hs k none

theorem inv_step {s : State K V} (hs : Inv s) (op : Op K V) : Inv (step s op).1 := by
  cases op with
  | get k => exact inv_get hs k
  | put k ov => exact inv_put hs k ov

theorem inv_run_from {s : State K V} (hs : Inv s) (ops : List (Op K V)) : Inv (run s ops).1 := by
  induction ops generalizing s with
  | nil => exact hs
  | cons op ops ih => simp only [run]; exact ih (inv_step hs op)

/-- **C18 invariant.**  Every state reachable from a fresh cache of positive capacity by ANY history of `Get`s and
`Put`s (nil values included) satisfies the representation invariant. -/
theorem inv_run {cap : Nat} (hc : 0 < cap) (ops : List (Op K V)) :
    Inv (run (new cap : State K V) ops).1 :=
  inv_run_from (inv_new hc) ops

/-- the capacity never changes -/
theorem cap_get (s : State K V) (k : K) : (LRU.get s k).1.cap = s.cap := by
  unfold LRU.get; cases lookup k s.store <;> rfl

theorem cap_evict (s : State K V) : (evict s).cap = s.cap := by
  unfold evict; split
  · cases s.list.getLast? <;> rfl
  · rfl

theorem cap_put (s : State K V) (k : K) (ov : Option V) : (put s k ov).cap = s.cap := by
  unfold put
  cases lookup k s.store with
  | some _ => exact cap_get s k
  | none => simp only; rw [cap_evict]

theorem cap_step (s : State K V) (op : Op K V) : (step s op).1.cap = s.cap := by
  cases op with
  | get k => exact cap_get s k
  | put k ov => exact cap_put s k ov

/-! ### refinement to `Spec.LRU` (at value type `Option V`) -/

/-- the abstract binding of a key of the recency list -/
def absItem (st : List (K × Option V)) (k : K) : Option (K × Option V) :=
  match lookup k st with
  | some w => some (k, w)
  | none => none

/-- abstraction function: the bindings in recency order -/
def abs (s : State K V) : Spec.LRU.State K (Option V) := ⟨s.cap, s.list.filterMap (absItem s.store)⟩

omit [DecidableEq K] in
/-- the abstract operation: a `Put` of nil is a `put` of the value `none` -/
def absOp : Op K V → Spec.LRU.Op K (Option V)
  | .get k => .get k
  | .put k ov => .put k ov

theorem absItem_none {st : List (K × Option V)} {a : K} (h : lookup a st = none) :
    absItem st a = none := by simp [absItem, h]
theorem absItem_some {st : List (K × Option V)} {a : K} {w : Option V} (h : lookup a st = some w) :
    absItem st a = some (a, w) := by simp [absItem, h]

theorem lookup_filterMap_absItem (st : List (K × Option V)) (k : K) (l : List K) :
    lookup k (l.filterMap (absItem st)) = if k ∈ l then lookup k st else none := by
  induction l with
  | nil => simp [lookup]
  | cons a t ih =>
    by_cases e : a = k
    · subst e
      simp only [List.mem_cons, true_or, if_true]
      cases h : lookup a st with
      | none => rw [List.filterMap_cons, absItem_none h]; simp only; rw [ih]; simp [h]
      | some w => rw [List.filterMap_cons, absItem_some h]; simp [lookup]
    · have e' : ¬ k = a := fun h => e h.symm
      simp only [List.mem_cons, e', false_or]
      rw [← ih]
      cases h : lookup a st with
      | none => rw [List.filterMap_cons, absItem_none h]
      | some w => rw [List.filterMap_cons, absItem_some h]; simp [lookup, e]

theorem eraseKey_filterMap_absItem (st : List (K × Option V)) (k : K) (l : List K) :
    eraseKey k (l.filterMap (absItem st)) = (l.filter (fun a => a != k)).filterMap (absItem st) := by
  induction l with
  | nil => simp [eraseKey]
  | cons a t ih =>
    unfold eraseKey at ih ⊢
    by_cases e : a = k
    · have hf : List.filter (fun a => a != k) (a :: t) = List.filter (fun a => a != k) t := by
        simp [e]
      rw [hf, ← ih]
      cases h : lookup a st with
      | none => rw [List.filterMap_cons, absItem_none h]
      | some w => rw [List.filterMap_cons, absItem_some h]; simp [e]
    · have hf : List.filter (fun a => a != k) (a :: t) = a :: List.filter (fun a => a != k) t := by
        simp [e]
      rw [hf]
      cases h : lookup a st with
      | none => rw [List.filterMap_cons, List.filterMap_cons, absItem_none h]; exact ih
      | some w =>
        rw [List.filterMap_cons, List.filterMap_cons, absItem_some h]
        simp only [List.filter_cons, e, decide_false, Bool.not_false, if_true]
        rw [ih]

theorem filterMap_absItem_congr (st1 st2 : List (K × Option V)) (l : List K)
    (h : ∀ k ∈ l, lookup k st1 = lookup k st2) :
    l.filterMap (absItem st1) = l.filterMap (absItem st2) := by
  induction l with
  | nil => rfl
  | cons a t ih =>
    simp only [List.filterMap_cons]
    have : absItem st1 a = absItem st2 a := by unfold absItem; rw [h a (by simp)]
    rw [this, ih (fun k hk => h k (by simp [hk]))]

theorem bound_of_mem {s : State K V} (hs : Inv s) {k : K} (hk : k ∈ s.list) :
    ∃ w, lookup k s.store = some w := by
  have := (hs.keys k).mp hk
  cases h : lookup k s.store with
  | none => rw [h] at this; simp at this
  | some w => exact ⟨w, rfl⟩

theorem length_filterMap_absItem (st : List (K × Option V)) (l : List K)
    (h : ∀ k ∈ l, ∃ w, lookup k st = some w) :
    (l.filterMap (absItem st)).length = l.length := by
  induction l with
  | nil => rfl
  | cons a t ih =>
    obtain ⟨w, hw⟩ := h a (by simp)
    rw [List.filterMap_cons, absItem_some hw]
    simp only [List.length_cons]
    rw [ih (fun k hk => h k (by simp [hk]))]

theorem abs_length {s : State K V} (hs : Inv s) : (abs s).items.length = s.list.length :=
  length_filterMap_absItem s.store s.list (fun _ hk => bound_of_mem hs hk)

/-- `Get` refines the abstract `get`: same new abstract state; the output is the abstract output flattened
(nil both for "absent" and for "bound to nil") -/
theorem refine_get {s : State K V} (hs : Inv s) (k : K) :
    abs (LRU.get s k).1 = (Spec.LRU.get (abs s) k).1 ∧
    (LRU.get s k).2 = (Spec.LRU.get (abs s) k).2.join := by
  unfold LRU.get Spec.LRU.get
  have hl := lookup_filterMap_absItem s.store k s.list
  cases h : lookup k s.store with
  | none =>
    have : lookup k (abs s).items = none := by
      show lookup k (s.list.filterMap (absItem s.store)) = none
      rw [hl, h]; simp
    simp [this]
  | some w =>
    have hk : k ∈ s.list := by rw [hs.keys, h]; rfl
    have : lookup k (abs s).items = some w := by
      show lookup k (s.list.filterMap (absItem s.store)) = some w
      rw [hl, h]; simp [hk]
    simp only [this]
    refine ⟨?_, by simp⟩
    simp only [abs, List.filterMap_cons, absItem_some h]
    rw [eraseKey_filterMap_absItem, hs.nodup.erase_eq_filter]

/-- the eviction step refines "drop the last binding if full" -/
theorem refine_evict {s : State K V} (hs : Inv s) :
    (abs (evict s)).items =
      if (abs s).items.length = s.cap then (abs s).items.dropLast else (abs s).items := by
  rw [abs_length hs]
  unfold evict
  by_cases hfull : s.list.length = s.cap
  · simp only [hfull, if_true]
    cases hl : s.list.getLast? with
    | none =>
      have : s.list = [] := List.getLast?_eq_none_iff.mp hl
      simp [abs, this]
    | some kb =>
      have hsplit := eq_dropLast_append hl
      have hnd : (s.list.dropLast ++ [kb]).Nodup := hsplit ▸ hs.nodup
      rw [List.nodup_append] at hnd
      have hkb : kb ∈ s.list := by rw [hsplit]; simp
      obtain ⟨wb, hwb⟩ := bound_of_mem hs hkb
      have h1 : (abs s).items = s.list.dropLast.filterMap (absItem s.store) ++ [(kb, wb)] := by
        show s.list.filterMap (absItem s.store) = _
        conv => lhs; rw [hsplit]
        rw [List.filterMap_append]
        simp [absItem_some hwb]
      rw [h1, List.dropLast_concat]
      show s.list.dropLast.filterMap (absItem (eraseKey kb s.store)) = _
      apply filterMap_absItem_congr
      intro k hk
      rw [lookup_eraseKey]
      have : k ≠ kb := fun e => hnd.2.2 k hk kb (by simp) e
      simp [this]
  · simp only [hfull, if_false]

/-- `Put` (of any value, nil included) refines the abstract `put` -/
theorem refine_put {s : State K V} (hs : Inv s) (k : K) (ov : Option V) :
    abs (put s k ov) = Spec.LRU.put (abs s) k ov := by
  rw [put_eq hs]
  have hl := lookup_filterMap_absItem s.store k s.list
  by_cases hk : k ∈ s.list
  · simp only [hk, if_true]
    obtain ⟨w0, hw0⟩ := bound_of_mem hs hk
    have hg := (refine_get hs k).1
    rw [hg]
    unfold Spec.LRU.get Spec.LRU.put
    have : lookup k (abs s).items = some w0 := by
      show lookup k (s.list.filterMap (absItem s.store)) = some w0
      rw [hl, hw0]; simp [hk]
    simp [this]
  · simp only [hk, if_false]
    unfold Spec.LRU.put
    have : lookup k (abs s).items = none := by
      show lookup k (s.list.filterMap (absItem s.store)) = none
      rw [hl]; simp [hk]
    simp only [this]
    have hc : (abs s).cap = s.cap := rfl
    rw [hc, ← refine_evict hs]
    have hk2 : k ∉ (evict s).list := fun h => hk (evict_list_subset h)
    have hself : absItem ((k, ov) :: eraseKey k (evict s).store) k = some (k, ov) :=
      absItem_some (by simp [lookup])
    simp only [abs, List.filterMap_cons, hself, cap_evict]
    congr 2
    apply filterMap_absItem_congr
    intro k' hk'
    have e : ¬ k = k' := fun e => hk2 (e ▸ hk')
    have e' : ¬ k' = k := fun h => e h.symm
    simp only [lookup, e, if_false]
    rw [lookup_eraseKey]; simp [e']

/-- **C18 refinement, one step**: for every reachable (= invariant-satisfying) state and EVERY operation, the model
step commutes with the abstraction and produces the (flattened) abstract output. -/
theorem refine_step {s : State K V} (hs : Inv s) (op : Op K V) :
    abs (step s op).1 = (Spec.LRU.step (abs s) (absOp op)).1 ∧
    (step s op).2 = (Spec.LRU.step (abs s) (absOp op)).2.join := by
  cases op with
  | get k => exact refine_get hs k
  | put k ov => exact ⟨refine_put hs k ov, rfl⟩

theorem refine_run_from {s : State K V} (hs : Inv s) (ops : List (Op K V)) :
    abs (run s ops).1 = (Spec.LRU.run (abs s) (ops.map absOp)).1 ∧
    (run s ops).2 = (Spec.LRU.run (abs s) (ops.map absOp)).2.map Option.join := by
  induction ops generalizing s with
  | nil => exact ⟨rfl, rfl⟩
  | cons op ops ih =>
    obtain ⟨h1, h2⟩ := refine_step hs op
    have hs' := inv_step hs op
    obtain ⟨i1, i2⟩ := ih hs'
    simp only [List.map_cons, run, Spec.LRU.run, List.map_cons]
    rw [← h1, ← h2]
    exact ⟨i1, by rw [i2]⟩

/-- **C18 refinement, all histories**: from a fresh cache of positive capacity, ANY history of `Get`s and `Put`s
(nil values included) yields exactly the (flattened) outputs of the abstract bounded LRU map, and the final state
abstracts to the abstract final state. -/
theorem refine_run {cap : Nat} (hc : 0 < cap) (ops : List (Op K V)) :
    abs (run (new cap : State K V) ops).1 = (Spec.LRU.run (Spec.LRU.new cap) (ops.map absOp)).1 ∧
    (run (new cap : State K V) ops).2 = (Spec.LRU.run (Spec.LRU.new cap) (ops.map absOp)).2.map Option.join :=
  refine_run_from (inv_new hc) ops

/-! ### eviction order -/

/-- **LRU order.**  When `Put` of an absent key hits a full cache, the evicted key is the LAST key of the
abstract recency order (the least recently used binding of `Spec.LRU`), it is the back of the model's list,
and the store changes exactly by losing that key and gaining the new binding. -/
theorem put_evicts_lru {s : State K V} (hs : Inv s) (k : K) (ov : Option V)
    (hk : k ∉ s.list) (hfull : s.list.length = s.cap) :
    ∃ kb wb, (abs s).items.getLast? = some (kb, wb) ∧ s.list.getLast? = some kb ∧
      (put s k ov).list = k :: s.list.dropLast ∧
      ∀ k', lookup k' (put s k ov).store =
        if k' = k then some ov else if k' = kb then none else lookup k' s.store := by
  rw [put_eq hs]
  simp only [hk, if_false]
  cases hl : s.list.getLast? with
  | none =>
    have : s.list = [] := List.getLast?_eq_none_iff.mp hl
    have h0 := hs.capPos
    rw [this] at hfull; simp at hfull; omega
  | some kb =>
    have hsplit := eq_dropLast_append hl
    have hkb : kb ∈ s.list := by rw [hsplit]; simp
    obtain ⟨wb, hwb⟩ := bound_of_mem hs hkb
    have hev : evict s = { s with list := s.list.dropLast, store := eraseKey kb s.store } := by
      unfold evict; simp [hfull, hl]
    refine ⟨kb, wb, ?_, rfl, ?_, ?_⟩
    · show (s.list.filterMap (absItem s.store)).getLast? = some (kb, wb)
      conv => lhs; rw [hsplit]
      rw [List.filterMap_append]
      simp [absItem_some hwb]
    · rw [hev]
    · intro k'
      rw [hev]
      simp only [lookup]
      by_cases e : k = k'
      · simp [e]
      · have e' : ¬ k' = k := fun h => e h.symm
        simp only [e, e', if_false]
        rw [lookup_eraseKey, lookup_eraseKey]
        simp [e']

/-- when the cache is not full nothing is evicted -/
theorem put_no_evict {s : State K V} (hs : Inv s) (k : K) (ov : Option V)
    (hk : k ∉ s.list) (hfull : s.list.length ≠ s.cap) :
    (put s k ov).list = k :: s.list ∧
    ∀ k', lookup k' (put s k ov).store = if k' = k then some ov else lookup k' s.store := by
  rw [put_eq hs]
  simp only [hk, if_false]
  have hev : evict s = s := by unfold evict; simp [hfull]
  rw [hev]
  refine ⟨rfl, ?_⟩
  intro k'
  simp only [lookup]
  by_cases e : k = k'
  · simp [e]
  · have e' : ¬ k' = k := fun h => e h.symm
    simp only [e, e', if_false]
    rw [lookup_eraseKey]; simp [e']

/-- a `Put` of a present key — whatever value is stored under it, nil included — changes no binding: it only
refreshes recency -/
theorem put_hit {s : State K V} (hs : Inv s) (k : K) (ov : Option V) (hk : k ∈ s.list) :
    (put s k ov).store = s.store ∧ (put s k ov).list = k :: s.list.erase k := by
  rw [put_eq hs]
  simp only [hk, if_true]
  obtain ⟨w0, hw0⟩ := bound_of_mem hs hk
  unfold LRU.get; simp [hw0]

/-! ### every cached binding was supplied by a `Put` under that very key (abstract spec) -/

theorem Spec.mem_eraseKey {α : Type} {k : K} {l : List (K × α)} {p : K × α} (h : p ∈ eraseKey k l) : p ∈ l := by
  unfold eraseKey at h; exact (List.mem_filter.mp h).1

theorem Spec.lookup_mem {α : Type} {k : K} {l : List (K × α)} {v : α} (h : lookup k l = some v) : (k, v) ∈ l := by
  induction l with
  | nil => simp [lookup] at h
  | cons hd t ih =>
    obtain ⟨a, w⟩ := hd
    by_cases e : a = k
    · simp [lookup, e] at h; simp [e, h]
    · simp only [lookup, e, if_false] at h; exact List.mem_cons_of_mem _ (ih h)

theorem Spec.items_step (s : Spec.LRU.State K V) (op : Spec.LRU.Op K V) (p : K × V)
    (h : p ∈ (Spec.LRU.step s op).1.items) : p ∈ s.items ∨ op = .put p.1 p.2 := by
  cases op with
  | get k =>
    simp only [Spec.LRU.step, Spec.LRU.get] at h
    cases hl : lookup k s.items with
    | none => simp only [hl] at h; exact Or.inl h
    | some v =>
      simp only [hl, List.mem_cons] at h
      rcases h with e | h
      · exact Or.inl (e ▸ Spec.lookup_mem hl)
      · exact Or.inl (Spec.mem_eraseKey h)
  | put k v =>
    simp only [Spec.LRU.step, Spec.LRU.put] at h
    cases hl : lookup k s.items with
    | none =>
      simp only [hl, List.mem_cons] at h
      rcases h with e | h
      · exact Or.inr (by rw [e])
      · split at h
        · exact Or.inl ((List.dropLast_sublist _).subset h)
        · exact Or.inl h
    | some v0 =>
      simp only [hl, List.mem_cons] at h
      rcases h with e | h
      · exact Or.inl (e ▸ Spec.lookup_mem hl)
      · exact Or.inl (Spec.mem_eraseKey h)

/-- every binding held after a history was supplied by a `put` of exactly that key and value: the cache never
associates a key with a value that was given for another key -/
theorem Spec.items_run (s : Spec.LRU.State K V) (ops : List (Spec.LRU.Op K V)) (p : K × V)
    (h : p ∈ (Spec.LRU.run s ops).1.items) : p ∈ s.items ∨ .put p.1 p.2 ∈ ops := by
  induction ops generalizing s with
  | nil => exact Or.inl h
  | cons op ops ih =>
    simp only [Spec.LRU.run] at h
    rcases ih _ h with h1 | h1
    · rcases Spec.items_step s op p h1 with h2 | h2
      · exact Or.inl h2
      · exact Or.inr (by simp [h2])
    · exact Or.inr (List.mem_cons_of_mem _ h1)

/-- … and a `get` only ever returns such a value -/
theorem Spec.get_returns_put {cap : Nat} (ops : List (Spec.LRU.Op K V)) (k : K) (v : V)
    (h : (Spec.LRU.get (Spec.LRU.run (Spec.LRU.new cap) ops).1 k).2 = some v) : .put k v ∈ ops := by
  unfold Spec.LRU.get at h
  cases hl : lookup k (Spec.LRU.run (Spec.LRU.new cap : Spec.LRU.State K V) ops).1.items with
  | none => simp [hl] at h
  | some w =>
    simp only [hl] at h
    have hw : w = v := by simpa using h
    subst hw
    rcases Spec.items_run _ ops (k, w) (Spec.lookup_mem hl) with h1 | h1
    · simp [Spec.LRU.new] at h1
    · exact h1

/-! ### the cache holds exactly the `cap` most recently used keys (LRU stack) -/

def keysOf (s : Spec.LRU.State K V) : List K := s.items.map Prod.fst

theorem filter_ne_of_not_mem (k : K) (l : List K) (h : k ∉ l) : l.filter (fun a => !decide (a = k)) = l := by
  rw [List.filter_eq_self]; intro a ha
  have : a ≠ k := fun e => h (e ▸ ha)
  simp [this]

theorem take_filter_take (k : K) (U : List K) (hU : U.Nodup) (c : Nat) :
    ((U.take (c + 1)).filter (fun a => !decide (a = k))).take c
      = (U.filter (fun a => !decide (a = k))).take c := by
  induction U generalizing c with
  | nil => simp
  | cons x t ih =>
    rw [List.nodup_cons] at hU
    by_cases e : x = k
    · subst e
      simp only [List.take_succ_cons, List.filter_cons, decide_true, Bool.not_true, Bool.false_eq_true, if_false]
      rw [filter_ne_of_not_mem x (t.take c) (fun h => hU.1 ((List.take_sublist c t).subset h)),
          filter_ne_of_not_mem x t hU.1, List.take_take]
      simp
    · simp only [List.take_succ_cons, List.filter_cons, e, decide_false, Bool.not_false, if_true]
      cases c with
      | zero => simp
      | succ c' => simp only [List.take_succ_cons]; rw [ih hU.2 c']

theorem length_filter_ne_of_mem (k : K) (l : List K) (h : k ∈ l) :
    (l.filter (fun a => !decide (a = k))).length < l.length := by
  rw [List.length_filter_lt_length_iff_exists]
  exact ⟨k, h, by simp⟩

theorem touch_nodup (U : List K) (k : K) (h : U.Nodup) : (touch U k).Nodup := by
  unfold touch
  rw [List.nodup_cons]
  exact ⟨by simp [List.mem_filter], nodup_filter _ h⟩

/-- a touch of a cached key: move to front -/
theorem take_touch_hit (U : List K) (hU : U.Nodup) (cap : Nat) (hc : 0 < cap) (k : K) (hk : k ∈ U.take cap) :
    k :: (U.take cap).filter (fun a => !decide (a = k)) = (touch U k).take cap := by
  obtain ⟨c, rfl⟩ : ∃ c, cap = c + 1 := ⟨cap - 1, by omega⟩
  unfold touch
  rw [List.take_succ_cons, ← take_filter_take k U hU c]
  congr 1
  have h1 := length_filter_ne_of_mem k _ hk
  have h2 := List.length_take_le (c + 1) U
  exact (List.take_of_length_le (by omega)).symm

/-- a touch of an uncached key: insert at the front, dropping the last key when full -/
theorem take_touch_miss (U : List K) (hU : U.Nodup) (cap : Nat) (hc : 0 < cap) (k : K) (hk : k ∉ U.take cap) :
    k :: (if (U.take cap).length = cap then (U.take cap).dropLast else U.take cap) = (touch U k).take cap := by
  obtain ⟨c, rfl⟩ : ∃ c, cap = c + 1 := ⟨cap - 1, by omega⟩
  unfold touch
  rw [List.take_succ_cons, ← take_filter_take k U hU c, filter_ne_of_not_mem k _ hk]
  congr 1
  have h2 := List.length_take_le (c + 1) U
  split
  · rename_i hfull
    rw [List.dropLast_eq_take, hfull]; simp
  · rename_i hfull
    exact (List.take_of_length_le (by omega)).symm

structure StackInv (s : Spec.LRU.State K V) (U : List K) : Prop where
  capPos : 0 < s.cap
  nodup : U.Nodup
  keys : keysOf s = U.take s.cap

theorem keysOf_lookup_none {s : Spec.LRU.State K V} {k : K} (h : lookup k s.items = none) : k ∉ keysOf s :=
  (lookup_none_iff k s.items).mp h

theorem keysOf_lookup_some {s : Spec.LRU.State K V} {k : K} {v : V} (h : lookup k s.items = some v) :
    k ∈ keysOf s := by
  unfold keysOf; rw [← lookup_isSome_iff, h]; rfl

theorem stackInv_step {s : Spec.LRU.State K V} {U : List K} (h : StackInv s U) (op : Spec.LRU.Op K V) :
    StackInv (Spec.LRU.step s op).1 (stackStep s.cap U op) ∧ (Spec.LRU.step s op).1.cap = s.cap := by
  cases op with
  | get k =>
    simp only [Spec.LRU.step, Spec.LRU.get, stackStep]
    cases hl : lookup k s.items with
    | none =>
      have : k ∉ U.take s.cap := h.keys ▸ keysOf_lookup_none hl
      simp only [this, if_false]
      exact ⟨h, by first | rfl | trivial⟩
    | some v =>
      have hk : k ∈ U.take s.cap := h.keys ▸ keysOf_lookup_some hl
      simp only [hk, if_true]
      refine ⟨⟨h.capPos, touch_nodup U k h.nodup, ?_⟩, by first | rfl | trivial⟩
      show keysOf ⟨s.cap, (k, v) :: eraseKey k s.items⟩ = _
      rw [← take_touch_hit U h.nodup s.cap h.capPos k hk, ← h.keys]
      simp [keysOf, keys_eraseKey]
  | put k v =>
    simp only [Spec.LRU.step, Spec.LRU.put, stackStep]
    cases hl : lookup k s.items with
    | some v0 =>
      have hk : k ∈ U.take s.cap := h.keys ▸ keysOf_lookup_some hl
      refine ⟨⟨h.capPos, touch_nodup U k h.nodup, ?_⟩, by first | rfl | trivial⟩
      show keysOf ⟨s.cap, (k, v0) :: eraseKey k s.items⟩ = _
      rw [← take_touch_hit U h.nodup s.cap h.capPos k hk, ← h.keys]
      simp [keysOf, keys_eraseKey]
    | none =>
      have hk : k ∉ U.take s.cap := h.keys ▸ keysOf_lookup_none hl
      refine ⟨⟨h.capPos, touch_nodup U k h.nodup, ?_⟩, by first | rfl | trivial⟩
      show keysOf ⟨s.cap, (k, v) :: (if s.items.length = s.cap then s.items.dropLast else s.items)⟩ = _
      rw [← take_touch_miss U h.nodup s.cap h.capPos k hk, ← h.keys]
      have hlen : (keysOf s).length = s.items.length := by simp [keysOf]
      rw [hlen]
      split <;> simp [keysOf, List.map_dropLast]

theorem stackInv_run {s : Spec.LRU.State K V} {U : List K} (h : StackInv s U) (ops : List (Spec.LRU.Op K V)) :
    StackInv (Spec.LRU.run s ops).1 (stackRun s.cap U ops) := by
  induction ops generalizing s U with
  | nil => exact h
  | cons op ops ih =>
    obtain ⟨h1, hc⟩ := stackInv_step h op
    simp only [Spec.LRU.run, stackRun]
    have := ih h1
    rw [hc] at this
    exact this

theorem cap_spec_run (s : Spec.LRU.State K V) (ops : List (Spec.LRU.Op K V)) :
    (Spec.LRU.run s ops).1.cap = s.cap := by
  induction ops generalizing s with
  | nil => rfl
  | cons op ops ih =>
    simp only [Spec.LRU.run]
    rw [ih]
    cases op with
    | get k => simp only [Spec.LRU.step, Spec.LRU.get]; split <;> rfl
    | put k v => simp only [Spec.LRU.step, Spec.LRU.put]; split <;> rfl

/-- **LRU order, declaratively.**  After ANY history on a fresh abstract cache, the cached keys are exactly the
`cap` most recently used distinct keys, most recent first (the top of Mattson's LRU stack of the history). -/
theorem Spec.keys_eq_stack {cap : Nat} (hc : 0 < cap) (ops : List (Spec.LRU.Op K V)) :
    keysOf (Spec.LRU.run (Spec.LRU.new cap) ops).1 = (stackRun cap [] ops).take cap := by
  have h0 : StackInv (Spec.LRU.new cap : Spec.LRU.State K V) [] := ⟨hc, List.nodup_nil, by simp [keysOf, Spec.LRU.new]⟩
  have := (stackInv_run h0 ops).keys
  rw [cap_spec_run] at this
  exact this

theorem keysOf_abs {s : State K V} (hs : Inv s) : keysOf (abs s) = s.list := by
  unfold keysOf abs
  simp only
  have : ∀ l : List K, (∀ k ∈ l, ∃ w, lookup k s.store = some w) →
      (l.filterMap (absItem s.store)).map Prod.fst = l := by
    intro l hl
    induction l with
    | nil => rfl
    | cons a t ih =>
      obtain ⟨w, hw⟩ := hl a (by simp)
      rw [List.filterMap_cons, absItem_some hw]
      simp only [List.map_cons]
      rw [ih (fun k hk => hl k (by simp [hk]))]
  exact this s.list (fun k hk => bound_of_mem hs hk)

/-- **C18, LRU order of the code-shaped model.**  After ANY history on a fresh cache, the recency list of
`Model.LRU` (hence, by `Inv.keys`, the key set of the store) is exactly the `cap` most recently used distinct
keys of the history, most recent first; whatever is evicted is older than all of them. -/
theorem list_eq_stack {cap : Nat} (hc : 0 < cap) (ops : List (Op K V)) :
    (run (new cap : State K V) ops).1.list = (stackRun cap [] (ops.map absOp)).take cap := by
  rw [← keysOf_abs (inv_run hc ops), (refine_run hc ops).1, Spec.keys_eq_stack hc]

/-! ### every binding of the model was supplied by a `Put` under that very key -/

theorem mem_abs_of_lookup {s : State K V} (hs : Inv s) {k : K} {w : Option V} (h : lookup k s.store = some w) :
    (k, w) ∈ (abs s).items := by
  have hk : k ∈ s.list := by rw [hs.keys, h]; rfl
  show (k, w) ∈ s.list.filterMap (absItem s.store)
  rw [List.mem_filterMap]
  exact ⟨k, hk, absItem_some h⟩

/-- after ANY history, a key bound to `w` (possibly nil) in the store was `Put` with exactly that value -/
theorem binding_from_put {cap : Nat} (hc : 0 < cap) (ops : List (Op K V)) (k : K) (w : Option V)
    (h : lookup k (run (new cap : State K V) ops).1.store = some w) : Op.put k w ∈ ops := by
  have hm := mem_abs_of_lookup (inv_run hc ops) h
  rw [(refine_run hc ops).1] at hm
  rcases Spec.items_run _ _ (k, w) hm with h1 | h1
  · simp [Spec.LRU.new] at h1
  · obtain ⟨op, hop, he⟩ := List.mem_map.mp h1
    cases op with
    | get k' => simp [absOp] at he
    | put k' w' =>
      simp only [absOp, Spec.LRU.Op.put.injEq] at he
      obtain ⟨e1, e2⟩ := he
      subst e1; subst e2; exact hop

/-- … so a `Get` after ANY history only ever returns a value that was `Put` under the requested key: the cache
never returns an expanded key belonging to a different public key (given puts of matching pairs) -/
theorem get_returns_put {cap : Nat} (hc : 0 < cap) (ops : List (Op K V)) (k : K) (v : V)
    (h : (LRU.get (run (new cap : State K V) ops).1 k).2 = some v) : Op.put k (some v) ∈ ops := by
  apply binding_from_put hc
  unfold LRU.get at h
  cases hl : lookup k (run (new cap : State K V) ops).1.store with
  | none => simp [hl] at h
  | some w => simp only [hl] at h; rw [h]

/-! ### sanity: the hypotheses are satisfiable, the statements are not vacuous -/

/-- a concrete history on a capacity-2 cache: key 2 (least recently used) is evicted, key 1 keeps its FIRST value,
the recency order ends as 1, 3 -/
example : (run (new 2 : State Nat String)
    [.put 1 (some "a"), .put 2 (some "b"), .get 1, .put 3 (some "c"), .put 1 (some "z"), .get 2, .get 1]).2
    = [none, none, some "a", none, none, none, some "a"] := by decide

example : (abs (run (new 2 : State Nat String)
    [.put 1 (some "a"), .put 2 (some "b"), .get 1, .put 3 (some "c"), .put 1 (some "z")]).1).items
    = [(1, some "a"), (3, some "c")] := by decide

/-- hypotheses of `put_evicts_lru` are satisfiable (full cache, absent key) -/
example : ∃ s : State Nat String, Inv s ∧ 3 ∉ s.list ∧ s.list.length = s.cap :=
  ⟨(run (new 2) [.put 1 (some "a"), .put 2 (some "b")]).1, inv_run (by decide) _, by decide, by decide⟩

/-- nil values after the fix: `Put(k, nil); Put(k, v)` keeps ONE list element and the stored nil (the second `Put`
only touches); the key still occupies one slot and is evicted in LRU order like any other. -/
example : (run (new 2 : State Nat String) [.put 7 none, .put 7 (some "v")]).1.list = [7] ∧
    (run (new 2 : State Nat String) [.put 7 none, .put 7 (some "v")]).1.store = [(7, none)] := by decide

example : (run (new 2 : State Nat String)
    [.put 7 none, .put 7 (some "v"), .get 7, .put 8 (some "w"), .get 7, .get 8, .put 9 (some "x"), .get 7, .get 8]).2
    = [none, none, none, none, none, some "w", none, none, some "w"] := by decide

/-- the stack characterisation on a concrete history -/
example : (run (new 2 : State Nat String)
    [.put 1 (some "a"), .put 2 (some "b"), .get 1, .put 3 (some "c"), .get 2, .put 1 (some "z")]).1.list = [1, 3] ∧
    stackRun 2 [] (([.put 1 (some "a"), .put 2 (some "b"), .get 1, .put 3 (some "c"), .get 2, .put 1 (some "z")]
      : List (Op Nat String)).map absOp) = [1, 3, 2] := by
  decide

end Voi.Props.LRUInv

#print axioms Voi.Props.LRUInv.inv_run
#print axioms Voi.Props.LRUInv.inv_put_nil
#print axioms Voi.Props.LRUInv.refine_step
#print axioms Voi.Props.LRUInv.refine_run
#print axioms Voi.Props.LRUInv.put_evicts_lru
#print axioms Voi.Props.LRUInv.put_no_evict
#print axioms Voi.Props.LRUInv.put_hit
#print axioms Voi.Props.LRUInv.Spec.items_run
#print axioms Voi.Props.LRUInv.Spec.get_returns_put
#print axioms Voi.Props.LRUInv.binding_from_put
#print axioms Voi.Props.LRUInv.get_returns_put
#print axioms Voi.Props.LRUInv.Spec.keys_eq_stack
#print axioms Voi.Props.LRUInv.list_eq_stack
