/-
Byte-string utilities shared by the executable Spec/Model and the line-protocol driver.
Core Lean only (no Mathlib): everything here is linked into the compiled driver `voidrv`.
-/
namespace Voi

abbrev Bytes := ByteArray

def hexDigit (n : Nat) : Char :=
  if n < 10 then Char.ofNat (48 + n) else Char.ofNat (87 + n)

def hexOf (b : Bytes) : String :=
  if b.size = 0 then "-" else
  String.ofList (b.foldl (fun acc x => hexDigit (x.toNat % 16) :: hexDigit (x.toNat / 16) :: acc) []).reverse

def hexVal (c : Char) : Option Nat :=
  if '0' ≤ c ∧ c ≤ '9' then some (c.toNat - 48)
  else if 'a' ≤ c ∧ c ≤ 'f' then some (c.toNat - 87)
  else if 'A' ≤ c ∧ c ≤ 'F' then some (c.toNat - 55)
  else none

def ofHexList : List Char → Bytes → Option Bytes
  | [], acc => some acc
  | [_], _ => none
  | a :: b :: rest, acc =>
    match hexVal a, hexVal b with
    | some x, some y => ofHexList rest (acc.push (UInt8.ofNat (16 * x + y)))
    | _, _ => none

/-- `-` and `nil` both denote the empty string. -/
def ofHex (s : String) : Option Bytes :=
  if s = "-" ∨ s = "nil" then some ByteArray.empty else ofHexList s.toList ByteArray.empty

def ofHex! (s : String) : Bytes := (ofHex s).getD ByteArray.empty

/-- little-endian value of a byte string -/
def leNat (b : Bytes) : Nat := b.foldl (fun (acc : Nat × Nat) x => (acc.1 + x.toNat <<< acc.2, acc.2 + 8)) (0, 0) |>.1

/-- big-endian value of a byte string -/
def beNat (b : Bytes) : Nat := b.foldl (fun acc x => acc <<< 8 + x.toNat) 0

/-- `len` bytes of `n`, little endian (truncating) -/
def natLE (n len : Nat) : Bytes := Id.run do
  let mut out := ByteArray.emptyWithCapacity len
  let mut m := n
  for _ in [0:len] do
    out := out.push (UInt8.ofNat (m % 256))
    m := m >>> 8
  return out

/-- `len` bytes of `n`, big endian (truncating) -/
def natBE (n len : Nat) : Bytes := Id.run do
  let mut out := ByteArray.emptyWithCapacity len
  for i in [0:len] do
    out := out.push (UInt8.ofNat ((n >>> (8 * (len - 1 - i))) % 256))
  return out

def bytesOfList (l : List UInt8) : Bytes := ⟨l.toArray⟩

def strBytes (s : String) : Bytes := s.toUTF8

def bslice (b : Bytes) (off len : Nat) : Bytes := b.extract off (off + len)

def bcat (l : List Bytes) : Bytes := l.foldl (· ++ ·) ByteArray.empty

def bxor (a b : Bytes) : Bytes := Id.run do
  let mut out := ByteArray.emptyWithCapacity a.size
  for i in [0:a.size] do
    out := out.push (a.get! i ^^^ b.get! i)
  return out

def beq (a b : Bytes) : Bool := a.data == b.data

def bzero (n : Nat) : Bytes := ⟨Array.replicate n 0⟩

def splitWords (s : String) : List String :=
  (s.splitOn " ").filter (· ≠ "")

def boolStr (b : Bool) : String := if b then "1" else "0"

end Voi
