/-
L0: the combined checker for regenerated limb programs and its soundness theorem.

`check prog outs spec = true` (decided by kernel evaluation, `by decide +kernel`) implies, for ALL
inputs within `spec.pre`:  every output is within `spec.post`;  if `spec.noWrap`, no machine-width
wrap-around (`Op.wrap`) ever loses a bit;  and `Σ wᵢ·outᵢ ≡ rhs(inputs) (mod M)` (M = 0: equality).
Core Lean only.
-/
import Voi.IR.Sym
namespace Voi.IR

structure Congr where
  modulus : Int
  weights : List Int
  rhs : Poly
  deriving Repr, Inhabited

structure Spec where
  pre : List AVal
  post : List AVal
  noWrap : Bool
  congr : Option Congr
  deriving Repr, Inhabited

def inS (n : Nat) : SEnv := (List.range n).map fun i => [(1, [Atom.var i])]

/-- Σ wⱼ · value(outⱼ) as an integer -/
def lincomb (e : Env) : List Int → List Nat → Int
  | w :: ws, o :: os => w * (get e o : Int) + lincomb e ws os
  | _, _ => 0

def lincombS (s : SEnv) : List Int → List Nat → Poly
  | w :: ws, o :: os => ((sget s o).scale w).add (lincombS s ws os)
  | _, _ => []

/-- every `wrap x k` has an operand whose upper bound is below 2^k -/
def wrapsOK : List Op → AEnv → Bool
  | [], _ => true
  | op :: ops, a =>
    (match op with
     | .wrap x k => decide ((aget a x).hi < 2^k)
     | _ => true) && wrapsOK ops (a ++ [op.abs a])

def postOK (a : AEnv) : List Nat → List AVal → Bool
  | o :: os, b :: bs => decide (o < a.length) && decide (b.lo ≤ (aget a o).lo) && decide ((aget a o).hi ≤ b.hi) && postOK a os bs
  | [], [] => true
  | _, _ => false

def check (prog : List Op) (outs : List Nat) (spec : Spec) : Bool :=
  let n := spec.pre.length
  wfProg n prog &&
  (!spec.noWrap || wrapsOK prog spec.pre) &&
  match spec.congr with
  | none => postOK (arun prog spec.pre) outs spec.post     -- bounds only: the cheap interval run suffices
  | some c =>
    match srun prog spec.pre (inS n) with
    | none => false
    | some (a', s') =>
      postOK a' outs spec.post &&
      c.rhs.scoped n && decide (c.weights.length = outs.length) &&
      (((lincombS s' c.weights outs).add (c.rhs.scale (-1))).norm).allDiv c.modulus

/-! ### soundness -/

def PreSat (ins : Env) (pre : List AVal) : Prop :=
  ins.length = pre.length ∧ ∀ i, i < pre.length → (aget pre i).sat (get ins i)

theorem inS_length (n : Nat) : (inS n).length = n := by simp [inS]

theorem sget_inS (n i : Nat) (h : i < n) : sget (inS n) i = [(1, [Atom.var i])] := by
  simp [sget, inS, List.getD, h]

theorem SSat_inS (ins : Env) : SSat ins (inS ins.length) := by
  refine ⟨by simp [inS_length], ?_⟩
  intro i hi
  rw [inS_length] at hi
  rw [sget_inS _ _ hi]
  simp [Poly.val, Mono.val, Atom.val, Poly.scoped, Mono.scoped, Atom.idx, hi]

theorem lincombS_val (e : Env) (s : SEnv) (hs : SSat e s) : ∀ (ws : List Int) (os : List Nat),
    (∀ o ∈ os, o < s.length) → (lincombS s ws os).val e = lincomb e ws os
  | [], _, _ => by simp [lincombS, lincomb, Poly.val]
  | _ :: _, [], _ => by simp [lincombS, lincomb, Poly.val]
  | w :: ws, o :: os, h => by
    simp only [lincombS, lincomb, Poly.val_add, Poly.val_scale]
    rw [(hs.2 o (h o (by simp))).1, lincombS_val e s hs ws os (fun o' ho' => h o' (by simp [ho']))]

theorem postOK_sound (e : Env) (a : AEnv) (h : Sat e a) : ∀ (os : List Nat) (bs : List AVal),
    postOK a os bs = true →
    os.length = bs.length ∧ (∀ o ∈ os, o < a.length) ∧
    ∀ j, j < os.length → (aget bs j).lo ≤ get e (os.getD j 0) ∧ get e (os.getD j 0) ≤ (aget bs j).hi
  | [], [], _ => by simp
  | [], _ :: _, h' => by simp [postOK] at h'
  | _ :: _, [], h' => by simp [postOK] at h'
  | o :: os, b :: bs, h' => by
    simp only [postOK, Bool.and_eq_true, decide_eq_true_eq] at h'
    obtain ⟨⟨⟨h1, h2⟩, h3⟩, h4⟩ := h'
    obtain ⟨ih1, ih2, ih3⟩ := postOK_sound e a h os bs h4
    refine ⟨by simp [ih1], ?_, ?_⟩
    · intro o' ho'
      simp at ho'
      cases ho' with
      | inl h => exact h ▸ h1
      | inr h => exact ih2 o' h
    · intro j hj
      cases j with
      | zero =>
        obtain ⟨s1, s2, _⟩ := h.2 o h1
        have e1 : aget (b :: bs) 0 = b := rfl
        have e2 : (o :: os).getD 0 0 = o := rfl
        rw [e1, e2]
        omega
      | succ j =>
        have := ih3 j (by simpa using hj)
        simpa [aget, List.getD] using this

/-- the no-lossy-wrap property of a concrete run: at each `wrap x k`, the operand is below 2^k -/
def NoLossyWrap : List Op → Env → Prop
  | [], _ => True
  | op :: ops, e =>
    (match op with
     | .wrap x k => get e x < 2^k
     | _ => True) ∧ NoLossyWrap ops (e ++ [op.eval e])

theorem wrapsOK_sound : ∀ (ops : List Op) (e : Env) (a : AEnv), Sat e a → wfProg a.length ops = true →
    wrapsOK ops a = true → NoLossyWrap ops e := by
  intro ops
  induction ops with
  | nil => intros; trivial
  | cons op ops ih =>
    intro e a h hwf hw
    simp [wfProg] at hwf
    simp only [wrapsOK, Bool.and_eq_true] at hw
    refine ⟨?_, ih _ _ (h.push _ _ (step_sound e a h op hwf.1)) (by simpa using hwf.2) hw.2⟩
    cases op <;> try trivial
    next x k =>
      simp [Op.wf] at hwf
      have := (h.2 x hwf.1).2.1
      have hk : (aget a x).hi < 2^k := by simpa using hw.1
      simp only
      omega

theorem Mono.val_congr (e e' : Env) (n : Nat) (hg : ∀ i, i < n → get e i = get e' i) :
    ∀ m : Mono, Mono.scoped n m = true → Mono.val e m = Mono.val e' m
  | [], _ => rfl
  | a :: m, h => by
    simp only [Mono.scoped, List.all_cons, Bool.and_eq_true, decide_eq_true_eq] at h
    simp only [Mono.val]
    rw [Mono.val_congr e e' n hg m (by simpa [Mono.scoped] using h.2)]
    cases a <;> simp [Atom.idx] at h <;> simp [Atom.val, hg _ h.1]

theorem Poly.val_congr (e e' : Env) (n : Nat) (hg : ∀ i, i < n → get e i = get e' i) :
    ∀ p : Poly, Poly.scoped n p = true → Poly.val e p = Poly.val e' p
  | [], _ => rfl
  | (c, m) :: p, h => by
    simp only [Poly.scoped, List.all_cons, Bool.and_eq_true] at h
    simp only [Poly.val]
    rw [Mono.val_congr e e' n hg m h.1, Poly.val_congr e e' n hg p (by simpa [Poly.scoped] using h.2)]

/-- **Soundness of the checker.** -/
theorem check_sound (prog : List Op) (outs : List Nat) (spec : Spec) (hc : check prog outs spec = true)
    (ins : Env) (hpre : PreSat ins spec.pre) :
    let e := run prog ins
    (outs.length = spec.post.length ∧
      ∀ j, j < outs.length → (aget spec.post j).lo ≤ get e (outs.getD j 0) ∧ get e (outs.getD j 0) ≤ (aget spec.post j).hi) ∧
    (spec.noWrap = true → NoLossyWrap prog ins) ∧
    (∀ c, spec.congr = some c → (lincomb e c.weights outs - c.rhs.val ins) % c.modulus = 0) := by
  intro e
  simp only [check, Bool.and_eq_true] at hc
  obtain ⟨⟨hwf, hwrap⟩, hrest⟩ := hc
  have hsat : Sat ins spec.pre := ⟨hpre.1, hpre.2⟩
  have hW : spec.noWrap = true → NoLossyWrap prog ins := by
    intro hn
    simp [hn] at hwrap
    exact wrapsOK_sound prog ins spec.pre hsat hwf hwrap
  split at hrest
  · next hcn =>
    have hA := run_sound prog ins spec.pre hsat hwf
    obtain ⟨p1, _, p3⟩ := postOK_sound e _ hA outs spec.post hrest
    exact ⟨⟨p1, p3⟩, hW, by intro c hcs; rw [hcn] at hcs; cases hcs⟩
  · next c hcs0 =>
    split at hrest
    · simp at hrest
    · next a' s' hrun =>
      have hS0 : SSat ins (inS spec.pre.length) := by rw [← hpre.1]; exact SSat_inS ins
      obtain ⟨hA, hS⟩ := srun_sound prog ins spec.pre a' (inS spec.pre.length) s' hsat hS0 hwf hrun
      simp only [Bool.and_eq_true, decide_eq_true_eq] at hrest
      obtain ⟨⟨⟨hpost, hsc⟩, _⟩, hdiv⟩ := hrest
      obtain ⟨p1, p2, p3⟩ := postOK_sound e a' hA outs spec.post hpost
      refine ⟨⟨p1, p3⟩, hW, ?_⟩
      intro c' hcs
      rw [hcs0] at hcs
      cases hcs
      have hv := Poly.allDiv_sound e c.modulus _ hdiv
      rw [Poly.val_norm, Poly.val_add, Poly.val_scale] at hv
      have hlen : a'.length = s'.length := by rw [← hA.1, hS.1]
      rw [lincombS_val e s' hS c.weights outs (fun o ho => hlen ▸ p2 o ho)] at hv
      have hrhs : c.rhs.val e = c.rhs.val ins := by
        apply Poly.val_congr e ins spec.pre.length _ _ hsc
        intro i hi
        exact run_get_lt prog ins i (hpre.1 ▸ hi)
      rw [hrhs] at hv
      have : lincomb e c.weights outs - c.rhs.val ins = lincomb e c.weights outs + -1 * c.rhs.val ins := by omega
      rw [this]; exact hv

end Voi.IR
