/-
L0: deep-embedded straight-line limb IR over unbounded naturals, its evaluator, and a verified
interval (+ trailing-zero) analysis.  Programs of this IR are *regenerated* from /repo's Go source
by `go2ir` on every run; everything in this file is proved once.  Core Lean only.
-/
namespace Voi.IR

/-- One SSA instruction. Operands are indices of earlier values (inputs first). All values are
naturals; Go's wrap-around at N bits is made explicit by `low _ N` after the exact operation. -/
inductive Op where
  | const (n : Nat)
  | add (a b : Nat)
  | mul (a b : Nat)
  | subw (a b n : Nat)   -- (a + 2^n - b) mod 2^n   : Go's wrapping subtraction at n bits (b < 2^n assumed by construction)
  | shr (a k : Nat)      -- a / 2^k
  | shl (a k : Nat)      -- a * 2^k   (exact; followed by `low` for the machine width)
  | low (a k : Nat)      -- a mod 2^k  (a mask the source wrote)
  | wrap (a k : Nat)     -- a mod 2^k  (the implicit wrap-around of a k-bit machine operation)
  | and (a b : Nat)
  | or (a b : Nat)
  | xor (a b : Nat)
  | lt (a b : Nat)       -- 1 if a < b else 0   (comparison results; only produced in decision-tree mode)
  | eq (a b : Nat)       -- 1 if a = b else 0
  deriving Repr, DecidableEq, Inhabited

abbrev Env := List Nat

def get (e : Env) (i : Nat) : Nat := e.getD i 0

def Op.eval (e : Env) : Op → Nat
  | .const n => n
  | .add a b => get e a + get e b
  | .mul a b => get e a * get e b
  | .subw a b n => (get e a + 2^n - get e b % 2^n) % 2^n
  | .shr a k => get e a / 2^k
  | .shl a k => get e a * 2^k
  | .low a k => get e a % 2^k
  | .wrap a k => get e a % 2^k
  | .and a b => get e a &&& get e b
  | .or a b => get e a ||| get e b
  | .xor a b => get e a ^^^ get e b
  | .lt a b => if get e a < get e b then 1 else 0
  | .eq a b => if get e a = get e b then 1 else 0

def run : List Op → Env → Env
  | [], e => e
  | op :: ops, e => run ops (e ++ [op.eval e])

/-- Abstract value: `lo ≤ v ≤ hi` and `2^tz ∣ v`. -/
structure AVal where
  lo : Nat
  hi : Nat
  tz : Nat
  deriving Repr, DecidableEq, Inhabited

abbrev AEnv := List AVal
def aget (a : AEnv) (i : Nat) : AVal := a.getD i ⟨0, 0, 0⟩

def AVal.sat (i : AVal) (v : Nat) : Prop := i.lo ≤ v ∧ v ≤ i.hi ∧ v % 2^i.tz = 0

/-- trailing zeros of a constant, capped by fuel -/
def tzc : Nat → Nat → Nat
  | 0, _ => 0
  | f+1, n => if n % 2 = 0 ∧ n ≠ 0 then tzc f (n / 2) + 1 else 0

theorem tzc_dvd : ∀ f n, n % 2^(tzc f n) = 0 := by
  intro f
  induction f with
  | zero => intro n; simp [tzc, Nat.mod_one]
  | succ f ih =>
    intro n
    simp only [tzc]
    split
    · next h =>
      have := ih (n / 2)
      rw [Nat.pow_succ]
      have h2 : n = 2 * (n / 2) := by omega
      rw [h2, Nat.mul_comm (2 ^ tzc f (2 * (n / 2) / 2)) 2]
      have : 2 * (n / 2) / 2 = n / 2 := by omega
      rw [this, Nat.mul_mod_mul_left, ih]
    · simp [Nat.mod_one]

/-- abstract step; `none` = the analysis cannot justify the instruction (out-of-range operand) -/
def Op.abs (a : AEnv) : Op → AVal
  | .const n => ⟨n, n, tzc 256 n⟩
  | .add x y => ⟨(aget a x).lo + (aget a y).lo, (aget a x).hi + (aget a y).hi, min (aget a x).tz (aget a y).tz⟩
  | .mul x y => ⟨(aget a x).lo * (aget a y).lo, (aget a x).hi * (aget a y).hi, (aget a x).tz + (aget a y).tz⟩
  | .subw x y n =>
    if (aget a y).hi ≤ (aget a x).lo ∧ (aget a x).hi < 2^n then
      ⟨(aget a x).lo - (aget a y).hi, (aget a x).hi - (aget a y).lo, min (min (aget a x).tz (aget a y).tz) n⟩
    else ⟨0, 2^n - 1, 0⟩
  | .shr x k => ⟨(aget a x).lo / 2^k, (aget a x).hi / 2^k, (aget a x).tz - k⟩
  | .shl x k => ⟨(aget a x).lo * 2^k, (aget a x).hi * 2^k, (aget a x).tz + k⟩
  | .low x k => if (aget a x).hi < 2^k then aget a x else ⟨0, 2^k - 1, min (aget a x).tz k⟩
  | .wrap x k => if (aget a x).hi < 2^k then aget a x else ⟨0, 2^k - 1, min (aget a x).tz k⟩
  | .and x y => ⟨0, min (aget a x).hi (aget a y).hi, 0⟩
  | .or x y =>
    if (aget a y).hi < 2^(aget a x).tz then
      ⟨(aget a x).lo + (aget a y).lo, (aget a x).hi + (aget a y).hi, min (aget a x).tz (aget a y).tz⟩
    else if (aget a x).hi < 2^(aget a y).tz then
      ⟨(aget a x).lo + (aget a y).lo, (aget a x).hi + (aget a y).hi, min (aget a x).tz (aget a y).tz⟩
    else ⟨0, 2^((max (aget a x).hi (aget a y).hi).log2 + 1) - 1, 0⟩
  | .xor x y => ⟨0, 2^((max (aget a x).hi (aget a y).hi).log2 + 1) - 1, 0⟩
  | .lt _ _ => ⟨0, 1, 0⟩
  | .eq _ _ => ⟨0, 1, 0⟩

def arun : List Op → AEnv → AEnv
  | [], a => a
  | op :: ops, a => arun ops (a ++ [op.abs a])

def Sat (e : Env) (a : AEnv) : Prop :=
  e.length = a.length ∧ ∀ i, i < a.length → (aget a i).sat (get e i)

/-- variables referenced must be in scope, and bit-op operands must be below 2^4096 (always true here) -/
def Op.wf (n : Nat) : Op → Bool
  | .const _ => true
  | .add a b | .mul a b | .and a b | .or a b | .xor a b | .lt a b | .eq a b => a < n && b < n
  | .subw a b _ => a < n && b < n
  | .shr a _ | .shl a _ | .low a _ | .wrap a _ => a < n

def wfProg : Nat → List Op → Bool
  | _, [] => true
  | n, op :: ops => op.wf n && wfProg (n+1) ops

theorem get_append_lt (e : Env) (x : Nat) (i : Nat) (h : i < e.length) : get (e ++ [x]) i = get e i := by
  simp [get, List.getD, List.getElem?_append_left h]

theorem get_append_eq (e : Env) (x : Nat) : get (e ++ [x]) e.length = x := by
  simp [get, List.getD]

theorem aget_append_lt (e : AEnv) (x : AVal) (i : Nat) (h : i < e.length) : aget (e ++ [x]) i = aget e i := by
  simp [aget, List.getD, List.getElem?_append_left h]

theorem aget_append_eq (e : AEnv) (x : AVal) : aget (e ++ [x]) e.length = x := by
  simp [aget, List.getD]

theorem Sat.push {e : Env} {a : AEnv} (h : Sat e a) (v : Nat) (i : AVal) (hv : i.sat v) :
    Sat (e ++ [v]) (a ++ [i]) := by
  refine ⟨by simp [h.1], ?_⟩
  intro j hj
  simp at hj
  by_cases hlt : j < a.length
  · rw [aget_append_lt _ _ _ hlt, get_append_lt _ _ _ (h.1 ▸ hlt)]; exact h.2 j hlt
  · have : j = a.length := by omega
    subst this
    rw [aget_append_eq]
    have : get (e ++ [v]) a.length = v := by rw [← h.1]; exact get_append_eq e v
    rw [this]; exact hv

theorem mod_pow_of_le {v s t : Nat} (h : v % 2^s = 0) (hts : t ≤ s) : v % 2^t = 0 := by
  have hd : 2^t ∣ 2^s := Nat.pow_dvd_pow 2 hts
  exact Nat.mod_eq_zero_of_dvd (Nat.dvd_trans hd (Nat.dvd_of_mod_eq_zero h))

theorem or_eq_add_of_tz {x y t : Nat} (hx : x % 2^t = 0) (hy : y < 2^t) : x ||| y = x + y := by
  have hx' : x = (x / 2^t) <<< t := by
    rw [Nat.shiftLeft_eq]; exact (Nat.div_mul_cancel (Nat.dvd_of_mod_eq_zero hx)).symm
  rw [hx']
  exact (Nat.shiftLeft_add_eq_or_of_lt hy (x / 2^t)).symm

theorem step_sound (e : Env) (a : AEnv) (h : Sat e a) (op : Op)
    (hwf : op.wf a.length = true) : (op.abs a).sat (op.eval e) := by
  cases op with
  | const n => simp [Op.abs, Op.eval, AVal.sat, tzc_dvd]
  | add x y =>
    simp [Op.wf] at hwf
    obtain ⟨hx1, hx2, hx3⟩ := h.2 x hwf.1; obtain ⟨hy1, hy2, hy3⟩ := h.2 y hwf.2
    refine ⟨by simp [Op.abs, Op.eval]; omega, by simp [Op.abs, Op.eval]; omega, ?_⟩
    simp only [Op.abs, Op.eval]
    have h1 := mod_pow_of_le hx3 (Nat.min_le_left _ (aget a y).tz)
    have h2 := mod_pow_of_le hy3 (Nat.min_le_right (aget a x).tz _)
    rw [Nat.add_mod, h1, h2]; simp
  | mul x y =>
    simp [Op.wf] at hwf
    obtain ⟨hx1, hx2, hx3⟩ := h.2 x hwf.1; obtain ⟨hy1, hy2, hy3⟩ := h.2 y hwf.2
    refine ⟨Nat.mul_le_mul hx1 hy1, Nat.mul_le_mul hx2 hy2, ?_⟩
    simp only [Op.abs, Op.eval]
    rw [Nat.pow_add]
    exact Nat.mod_eq_zero_of_dvd (Nat.mul_dvd_mul (Nat.dvd_of_mod_eq_zero hx3) (Nat.dvd_of_mod_eq_zero hy3))
  | subw x y n =>
    simp [Op.wf] at hwf
    obtain ⟨hx1, hx2, hx3⟩ := h.2 x hwf.1; obtain ⟨hy1, hy2, hy3⟩ := h.2 y hwf.2
    have hpos : 0 < 2^n := Nat.two_pow_pos n
    simp only [Op.abs, Op.eval]
    split
    · next hc =>
      have hyn : get e y < 2^n := by omega
      have e1 : get e y % 2^n = get e y := Nat.mod_eq_of_lt hyn
      have e2 : (get e x + 2^n - get e y) % 2^n = get e x - get e y := by
        have : get e x + 2^n - get e y = (get e x - get e y) + 2^n := by omega
        rw [this, Nat.add_mod_right, Nat.mod_eq_of_lt (by omega)]
      rw [e1, e2]
      refine ⟨by simp; omega, by simp; omega, ?_⟩
      simp only
      have hm1 := mod_pow_of_le hx3 (Nat.le_trans (Nat.min_le_left _ n) (Nat.min_le_left _ (aget a y).tz))
      have hm2 := mod_pow_of_le hy3 (Nat.le_trans (Nat.min_le_left _ n) (Nat.min_le_right (aget a x).tz _))
      have hd1 := Nat.dvd_of_mod_eq_zero hm1
      have hd2 := Nat.dvd_of_mod_eq_zero hm2
      exact Nat.mod_eq_zero_of_dvd (Nat.dvd_sub hd1 hd2)
    · refine ⟨Nat.zero_le _, ?_, by simp [Nat.mod_one]⟩
      have := Nat.mod_lt (get e x + 2^n - get e y % 2^n) hpos
      simp only; omega
  | shr x k =>
    simp [Op.wf] at hwf
    obtain ⟨hx1, hx2, hx3⟩ := h.2 x hwf
    refine ⟨Nat.div_le_div_right hx1, Nat.div_le_div_right hx2, ?_⟩
    simp only [Op.abs, Op.eval]
    by_cases hk : k ≤ (aget a x).tz
    · obtain ⟨c, hc⟩ := Nat.dvd_of_mod_eq_zero hx3
      have : (aget a x).tz = k + ((aget a x).tz - k) := by omega
      rw [hc, this, Nat.pow_add, Nat.mul_assoc, Nat.mul_div_cancel_left _ (Nat.two_pow_pos k)]
      have e3 : k + ((aget a x).tz - k) - k = (aget a x).tz - k := by omega
      rw [e3]
      exact Nat.mul_mod_right _ _
    · have : (aget a x).tz - k = 0 := by omega
      rw [this]; simp [Nat.mod_one]
  | shl x k =>
    simp [Op.wf] at hwf
    obtain ⟨hx1, hx2, hx3⟩ := h.2 x hwf
    refine ⟨Nat.mul_le_mul_right _ hx1, Nat.mul_le_mul_right _ hx2, ?_⟩
    simp only [Op.abs, Op.eval]
    rw [Nat.pow_add]
    exact Nat.mod_eq_zero_of_dvd (Nat.mul_dvd_mul (Nat.dvd_of_mod_eq_zero hx3) (Nat.dvd_refl _))
  | low x k =>
    simp [Op.wf] at hwf
    obtain ⟨hx1, hx2, hx3⟩ := h.2 x hwf
    have hpos : 0 < 2^k := Nat.two_pow_pos k
    simp only [Op.abs, Op.eval]
    split
    · next hlt => rw [Nat.mod_eq_of_lt (by omega)]; exact ⟨hx1, hx2, hx3⟩
    · refine ⟨Nat.zero_le _, ?_, ?_⟩
      · have := Nat.mod_lt (get e x) hpos; simp only; omega
      · simp only
        have hd : 2 ^ min (aget a x).tz k ∣ 2^k := Nat.pow_dvd_pow 2 (Nat.min_le_right _ _)
        rw [Nat.mod_mod_of_dvd _ hd]
        exact mod_pow_of_le hx3 (Nat.min_le_left _ _)
  | wrap x k =>
    simp [Op.wf] at hwf
    obtain ⟨hx1, hx2, hx3⟩ := h.2 x hwf
    have hpos : 0 < 2^k := Nat.two_pow_pos k
    simp only [Op.abs, Op.eval]
    split
    · next hlt => rw [Nat.mod_eq_of_lt (by omega)]; exact ⟨hx1, hx2, hx3⟩
    · refine ⟨Nat.zero_le _, ?_, ?_⟩
      · have := Nat.mod_lt (get e x) hpos; simp only; omega
      · simp only
        have hd : 2 ^ min (aget a x).tz k ∣ 2^k := Nat.pow_dvd_pow 2 (Nat.min_le_right _ _)
        rw [Nat.mod_mod_of_dvd _ hd]
        exact mod_pow_of_le hx3 (Nat.min_le_left _ _)
  | and x y =>
    simp [Op.wf] at hwf
    obtain ⟨_, hx2, _⟩ := h.2 x hwf.1; obtain ⟨_, hy2, _⟩ := h.2 y hwf.2
    refine ⟨Nat.zero_le _, ?_, by simp [Op.abs, Nat.mod_one]⟩
    simp only [Op.abs, Op.eval]
    have h1 : get e x &&& get e y ≤ get e x := Nat.and_le_left
    have h2 : get e x &&& get e y ≤ get e y := Nat.and_le_right
    omega
  | or x y =>
    simp [Op.wf] at hwf
    obtain ⟨hx1, hx2, hx3⟩ := h.2 x hwf.1; obtain ⟨hy1, hy2, hy3⟩ := h.2 y hwf.2
    simp only [Op.abs, Op.eval]
    split
    · next hc =>
      rw [or_eq_add_of_tz hx3 (by omega)]
      refine ⟨by simp only; omega, by simp only; omega, ?_⟩
      simp only
      have h1 := mod_pow_of_le hx3 (Nat.min_le_left _ (aget a y).tz)
      have h2 := mod_pow_of_le hy3 (Nat.min_le_right (aget a x).tz _)
      rw [Nat.add_mod, h1, h2]; simp
    · split
      · next hc =>
        rw [Nat.or_comm, or_eq_add_of_tz hy3 (by omega), Nat.add_comm]
        refine ⟨by simp only; omega, by simp only; omega, ?_⟩
        simp only
        have h1 := mod_pow_of_le hx3 (Nat.min_le_left _ (aget a y).tz)
        have h2 := mod_pow_of_le hy3 (Nat.min_le_right (aget a x).tz _)
        rw [Nat.add_mod, h1, h2]; simp
      · refine ⟨Nat.zero_le _, ?_, by simp [Nat.mod_one]⟩
        simp only
        have hb : max (aget a x).hi (aget a y).hi < 2^((max (aget a x).hi (aget a y).hi).log2 + 1) := Nat.lt_log2_self
        have : get e x ||| get e y < 2^((max (aget a x).hi (aget a y).hi).log2 + 1) :=
          Nat.or_lt_two_pow (by omega) (by omega)
        omega
  | xor x y =>
    simp [Op.wf] at hwf
    obtain ⟨hx1, hx2, hx3⟩ := h.2 x hwf.1; obtain ⟨hy1, hy2, hy3⟩ := h.2 y hwf.2
    simp only [Op.abs, Op.eval]
    refine ⟨Nat.zero_le _, ?_, by simp [Nat.mod_one]⟩
    simp only
    have hb : max (aget a x).hi (aget a y).hi < 2^((max (aget a x).hi (aget a y).hi).log2 + 1) := Nat.lt_log2_self
    have : get e x ^^^ get e y < 2^((max (aget a x).hi (aget a y).hi).log2 + 1) :=
      Nat.xor_lt_two_pow (by omega) (by omega)
    omega
  | lt x y =>
    simp only [Op.abs, Op.eval, AVal.sat]
    split <;> simp [Nat.mod_one]
  | eq x y =>
    simp only [Op.abs, Op.eval, AVal.sat]
    split <;> simp [Nat.mod_one]

theorem run_sound : ∀ (ops : List Op) (e : Env) (a : AEnv), Sat e a → wfProg a.length ops = true →
    Sat (run ops e) (arun ops a) := by
  intro ops
  induction ops with
  | nil => intro e a h _; exact h
  | cons op ops ih =>
    intro e a h hwf
    simp [wfProg] at hwf
    simp only [run, arun]
    apply ih _ _ (h.push _ _ (step_sound e a h op hwf.1))
    simpa using hwf.2

theorem run_length (ops : List Op) (e : Env) : (run ops e).length = e.length + ops.length := by
  induction ops generalizing e with
  | nil => simp [run]
  | cons op ops ih => simp [run, ih]; omega

/-- earlier values are never changed by running more instructions -/
theorem run_get_lt (ops : List Op) (e : Env) (i : Nat) (h : i < e.length) : get (run ops e) i = get e i := by
  induction ops generalizing e with
  | nil => rfl
  | cons op ops ih =>
    simp only [run]
    rw [ih _ (by simp; omega), get_append_lt _ _ _ h]

end Voi.IR
