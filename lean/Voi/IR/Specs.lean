/- Helpers for writing limb-function specifications (hand-written, committed). -/
import Voi.IR.Check
namespace Voi.IR

def bnd (hi : Nat) : AVal := ⟨0, hi, 0⟩
def bits (n : Nat) : AVal := ⟨0, 2^n - 1, 0⟩

/-- Σ 2^(wᵢ) · var(vᵢ) -/
def linW : List Nat → List Nat → Poly
  | v :: vs, w :: ws => (((2:Int)^w), [Atom.var v]) :: linW vs ws
  | _, _ => []

def weights (ws : List Nat) : List Int := ws.map fun w => (2:Int)^w

def radix51 : List Nat := [0, 51, 102, 153, 204]
def radix2625 : List Nat := [0, 26, 51, 77, 102, 128, 153, 179, 204, 230]
def radix8x32 : List Nat := (List.range 32).map (8 * ·)

def P25519 : Int := 2^255 - 19

/-- output bounds actually derived by the analysis (for exploring / documenting) -/
def outBounds (prog : List Op) (outs : List Nat) (pre : List AVal) : List (Nat × Nat) :=
  let a := arun prog pre
  outs.map fun o => ((aget a o).lo, (aget a o).hi)

end Voi.IR
