/-
L0: exact symbolic values for IR programs — integer polynomials over atoms `var i` (an input or an
opaque intermediate) and `quot v k` (= ⌊value v / 2^k⌋) — with verified normalisation, and the
combined checker `check` with its soundness theorem `check_sound`.  Core Lean only.
-/
import Voi.IR.Basic
namespace Voi.IR

inductive Atom where
  | var (v : Nat)
  | quot (v k : Nat)
  deriving Repr, DecidableEq, Inhabited

def Atom.val (e : Env) : Atom → Int
  | .var v => (get e v : Int)
  | .quot v k => ((get e v / 2^k : Nat) : Int)

def Atom.idx : Atom → Nat
  | .var v => v
  | .quot v _ => v

abbrev Mono := List Atom
def Mono.val (e : Env) : Mono → Int
  | [] => 1
  | a :: m => a.val e * Mono.val e m

abbrev Poly := List (Int × Mono)
def Poly.val (e : Env) : Poly → Int
  | [] => 0
  | (c, m) :: p => c * Mono.val e m + Poly.val e p

theorem Mono.val_append (e : Env) (m n : Mono) : Mono.val e (m ++ n) = Mono.val e m * Mono.val e n := by
  induction m with
  | nil => simp [Mono.val]
  | cons a m ih => simp [Mono.val, ih, Int.mul_assoc]

def Poly.add (p q : Poly) : Poly := p ++ q
theorem Poly.val_add (e : Env) (p q : Poly) : (p.add q).val e = p.val e + q.val e := by
  unfold Poly.add
  induction p with
  | nil => simp [Poly.val]
  | cons t p ih => obtain ⟨c, m⟩ := t; simp [Poly.val, ih, Int.add_assoc]

def Poly.mulMono (c : Int) (m : Mono) : Poly → Poly
  | [] => []
  | (c', m') :: q => (c * c', m ++ m') :: Poly.mulMono c m q
theorem Poly.val_mulMono (e : Env) (c : Int) (m : Mono) (q : Poly) :
    (Poly.mulMono c m q).val e = c * Mono.val e m * q.val e := by
  induction q with
  | nil => simp [Poly.mulMono, Poly.val]
  | cons t q ih =>
    obtain ⟨c', m'⟩ := t
    simp [Poly.mulMono, Poly.val, ih, Mono.val_append, Int.mul_add]
    simp [Int.mul_assoc, Int.mul_comm, Int.mul_left_comm]

def Poly.mul : Poly → Poly → Poly
  | [], _ => []
  | (c, m) :: p, q => (Poly.mulMono c m q).add (Poly.mul p q)
theorem Poly.val_mul (e : Env) (p q : Poly) : (p.mul q).val e = p.val e * q.val e := by
  induction p with
  | nil => simp [Poly.mul, Poly.val]
  | cons t p ih =>
    obtain ⟨c, m⟩ := t
    simp [Poly.mul, Poly.val_add, Poly.val_mulMono, ih, Poly.val, Int.add_mul]

def Poly.scale (k : Int) (p : Poly) : Poly := Poly.mulMono k [] p
theorem Poly.val_scale (e : Env) (k : Int) (p : Poly) : (p.scale k).val e = k * p.val e := by
  simp [Poly.scale, Poly.val_mulMono, Mono.val]

/-! ### normalisation (sort atoms in monomials, merge equal monomials, drop zeros) -/

def Atom.lt : Atom → Atom → Bool
  | .var a, .var b => a < b
  | .var _, .quot _ _ => true
  | .quot _ _, .var _ => false
  | .quot a k, .quot b l => a < b || (a == b && k < l)

def Mono.ins (a : Atom) : Mono → Mono
  | [] => [a]
  | b :: m => if a.lt b then a :: b :: m else b :: Mono.ins a m
def Mono.norm : Mono → Mono
  | [] => []
  | a :: m => Mono.ins a (Mono.norm m)

def Mono.cmp : Mono → Mono → Ordering
  | [], [] => .eq
  | [], _ => .lt
  | _, [] => .gt
  | a :: m, b :: n => if a.lt b then .lt else if b.lt a then .gt else Mono.cmp m n

def Poly.ins (c : Int) (m : Mono) : Poly → Poly
  | [] => [(c, m)]
  | (c', m') :: p => match Mono.cmp m m' with
    | .lt => (c, m) :: (c', m') :: p
    | .eq => (c + c', m') :: p
    | .gt => (c', m') :: Poly.ins c m p
def Poly.norm0 : Poly → Poly
  | [] => []
  | (c, m) :: p => Poly.ins c (Mono.norm m) (Poly.norm0 p)
def Poly.dropZero : Poly → Poly
  | [] => []
  | (c, m) :: p => if c = 0 then Poly.dropZero p else (c, m) :: Poly.dropZero p
def Poly.norm (p : Poly) : Poly := (Poly.norm0 p).dropZero

theorem Atom.eq_of_not_lt {a b : Atom} (h1 : a.lt b = false) (h2 : b.lt a = false) : a = b := by
  cases a <;> cases b <;> simp [Atom.lt] at h1 h2 ⊢
  · omega
  · constructor <;> omega

theorem Mono.val_ins (e : Env) (a : Atom) : ∀ m : Mono, Mono.val e (Mono.ins a m) = a.val e * Mono.val e m
  | [] => by simp [Mono.ins, Mono.val]
  | b :: m => by
    simp only [Mono.ins]
    split
    · simp [Mono.val]
    · simp only [Mono.val, Mono.val_ins e a m]
      simp [Int.mul_left_comm]

theorem Mono.val_norm (e : Env) : ∀ m : Mono, Mono.val e (Mono.norm m) = Mono.val e m
  | [] => rfl
  | a :: m => by simp [Mono.norm, Mono.val_ins, Mono.val, Mono.val_norm e m]

theorem Mono.eq_of_cmp_eq : ∀ (m n : Mono), Mono.cmp m n = .eq → m = n
  | [], [], _ => rfl
  | [], _ :: _, h => by simp [Mono.cmp] at h
  | _ :: _, [], h => by simp [Mono.cmp] at h
  | a :: m, b :: n, h => by
    simp only [Mono.cmp] at h
    split at h
    · simp at h
    · split at h
      · simp at h
      · next h1 h2 =>
        have hab : a = b := Atom.eq_of_not_lt (by simpa using h1) (by simpa using h2)
        rw [hab, Mono.eq_of_cmp_eq m n h]

theorem Poly.val_ins (e : Env) (c : Int) (m : Mono) : ∀ p : Poly, (Poly.ins c m p).val e = c * Mono.val e m + p.val e
  | [] => by simp [Poly.ins, Poly.val]
  | (c', m') :: p => by
    simp only [Poly.ins]
    split
    · simp [Poly.val]
    · next h =>
      have := Mono.eq_of_cmp_eq m m' h
      subst this
      simp [Poly.val, Int.add_mul, Int.add_assoc]
    · simp only [Poly.val, Poly.val_ins e c m p]
      omega

theorem Poly.val_norm0 (e : Env) : ∀ p : Poly, (Poly.norm0 p).val e = p.val e
  | [] => rfl
  | (c, m) :: p => by simp [Poly.norm0, Poly.val_ins, Mono.val_norm, Poly.val, Poly.val_norm0 e p]

theorem Poly.val_dropZero (e : Env) : ∀ p : Poly, (Poly.dropZero p).val e = p.val e
  | [] => rfl
  | (c, m) :: p => by
    simp only [Poly.dropZero]
    split
    · next h => simp [Poly.val, h, Poly.val_dropZero e p]
    · simp [Poly.val, Poly.val_dropZero e p]

theorem Poly.val_norm (e : Env) (p : Poly) : (Poly.norm p).val e = p.val e := by
  simp [Poly.norm, Poly.val_dropZero, Poly.val_norm0]

/-! ### divisibility of all coefficients -/

def Poly.allDiv (M : Int) (p : Poly) : Bool := p.all fun t => t.1 % M == 0

theorem Poly.allDiv_sound (e : Env) (M : Int) : ∀ p : Poly, p.allDiv M = true → p.val e % M = 0
  | [], _ => by simp [Poly.val]
  | (c, m) :: p, h => by
    simp only [Poly.allDiv, List.all_cons, Bool.and_eq_true, beq_iff_eq] at h
    have ih := Poly.allDiv_sound e M p (by simpa [Poly.allDiv] using h.2)
    simp only [Poly.val]
    have h1 : c % M = 0 := h.1
    rw [Int.add_emod, Int.mul_emod, h1, ih]; simp

/-- coefficient-wise exact division -/
def Poly.divC (d : Int) : Poly → Poly
  | [] => []
  | (c, m) :: p => (c / d, m) :: Poly.divC d p

theorem Poly.val_divC (e : Env) (d : Int) : ∀ p : Poly, p.allDiv d = true → d * (Poly.divC d p).val e = p.val e
  | [], _ => by simp [Poly.divC, Poly.val]
  | (c, m) :: p, h => by
    simp only [Poly.allDiv, List.all_cons, Bool.and_eq_true, beq_iff_eq] at h
    have ih := Poly.val_divC e d p (by simpa [Poly.allDiv] using h.2)
    simp only [Poly.divC, Poly.val]
    have h1 : d * (c / d) = c := Int.mul_ediv_cancel' (Int.dvd_of_emod_eq_zero h.1)
    rw [Int.mul_add, ← Int.mul_assoc, h1, ih]

/-! ### scoping: a polynomial whose atoms refer to indices < n is not affected by appending values -/

def Mono.scoped (n : Nat) (m : Mono) : Bool := m.all fun a => a.idx < n
def Poly.scoped (n : Nat) (p : Poly) : Bool := p.all fun t => Mono.scoped n t.2

theorem Atom.val_append (e : Env) (x : Nat) (a : Atom) (h : a.idx < e.length) : a.val (e ++ [x]) = a.val e := by
  cases a <;> simp [Atom.idx] at h <;> simp [Atom.val, get_append_lt _ _ _ h]

theorem Mono.val_append_env (e : Env) (x : Nat) : ∀ m : Mono, Mono.scoped e.length m = true → Mono.val (e ++ [x]) m = Mono.val e m
  | [], _ => rfl
  | a :: m, h => by
    simp only [Mono.scoped, List.all_cons, Bool.and_eq_true, decide_eq_true_eq] at h
    simp only [Mono.val]
    rw [Atom.val_append e x a h.1, Mono.val_append_env e x m (by simpa [Mono.scoped] using h.2)]

theorem Poly.val_append_env (e : Env) (x : Nat) : ∀ p : Poly, Poly.scoped e.length p = true → Poly.val (e ++ [x]) p = Poly.val e p
  | [], _ => rfl
  | (c, m) :: p, h => by
    simp only [Poly.scoped, List.all_cons, Bool.and_eq_true] at h
    simp only [Poly.val]
    rw [Mono.val_append_env e x m h.1, Poly.val_append_env e x p (by simpa [Poly.scoped] using h.2)]

theorem Mono.scoped_mono {n n' : Nat} (hn : n ≤ n') : ∀ m : Mono, Mono.scoped n m = true → Mono.scoped n' m = true
  | [], _ => rfl
  | a :: m, h => by
    simp only [Mono.scoped, List.all_cons, Bool.and_eq_true, decide_eq_true_eq] at h ⊢
    exact ⟨by omega, by simpa [Mono.scoped] using Mono.scoped_mono hn m (by simpa [Mono.scoped] using h.2)⟩

theorem Poly.scoped_mono {n n' : Nat} (hn : n ≤ n') : ∀ p : Poly, Poly.scoped n p = true → Poly.scoped n' p = true
  | [], _ => rfl
  | (c, m) :: p, h => by
    simp only [Poly.scoped, List.all_cons, Bool.and_eq_true] at h ⊢
    exact ⟨Mono.scoped_mono hn m h.1, by simpa [Poly.scoped] using Poly.scoped_mono hn p (by simpa [Poly.scoped] using h.2)⟩

/-! ### symbolic step -/

abbrev SEnv := List Poly
def sget (s : SEnv) (i : Nat) : Poly := s.getD i []

/-- the polynomial of the value defined by `op` at position `n = |env|` -/
def Op.sym (a : AEnv) (s : SEnv) (n : Nat) : Op → Poly
  | .const c => [((c : Int), [])]
  | .add x y => (sget s x).add (sget s y)
  | .mul x y => (sget s x).mul (sget s y)
  | .subw x y w =>
    if (aget a y).hi ≤ (aget a x).lo ∧ (aget a x).hi < 2^w then (sget s x).add ((sget s y).scale (-1))
    else [(1, [Atom.var n])]
  | .shr x k =>
    if (aget a x).hi < 2^k then []      -- the interval run already knows the quotient is 0 (e.g. carry out of `x + 0`)
    else if (sget s x).allDiv ((2^k : Nat) : Int) then Poly.divC ((2^k : Nat) : Int) (sget s x)
    else [(1, [Atom.quot x k])]
  | .shl x k => (sget s x).scale ((2^k : Nat) : Int)
  | .low x k =>
    if (aget a x).hi < 2^k then sget s x
    else (sget s x).add [(-((2^k : Nat) : Int), [Atom.quot x k])]
  | .wrap x k =>
    if (aget a x).hi < 2^k then sget s x
    else (sget s x).add [(-((2^k : Nat) : Int), [Atom.quot x k])]
  | .and _ _ => [(1, [Atom.var n])]
  | .or x y =>
    if (aget a y).hi < 2^(aget a x).tz ∨ (aget a x).hi < 2^(aget a y).tz then (sget s x).add (sget s y)
    else [(1, [Atom.var n])]
  | .xor _ _ => [(1, [Atom.var n])]
  | .lt _ _ => [(1, [Atom.var n])]
  | .eq _ _ => [(1, [Atom.var n])]

def SSat (e : Env) (s : SEnv) : Prop :=
  e.length = s.length ∧ ∀ i, i < s.length → (sget s i).val e = (get e i : Int) ∧ (sget s i).scoped e.length = true

theorem sget_append_lt (s : SEnv) (x : Poly) (i : Nat) (h : i < s.length) : sget (s ++ [x]) i = sget s i := by
  simp [sget, List.getD, List.getElem?_append_left h]
theorem sget_append_eq (s : SEnv) (x : Poly) : sget (s ++ [x]) s.length = x := by
  simp [sget, List.getD]

/-- value-soundness of one symbolic step, evaluated in the *extended* environment -/
theorem sym_sound (e : Env) (a : AEnv) (s : SEnv) (h : Sat e a) (hs : SSat e s) (op : Op)
    (hwf : op.wf a.length = true) (v : Nat) (hv : v = op.eval e) :
    (op.sym a s e.length).val (e ++ [v]) = (v : Int) := by
  have hl : a.length = s.length := by rw [← h.1, hs.1]
  -- value of an old polynomial in the extended environment
  have old : ∀ x, x < a.length → (sget s x).val (e ++ [v]) = (get e x : Int) := by
    intro x hx
    have := hs.2 x (hl ▸ hx)
    rw [Poly.val_append_env e _ _ this.2]; exact this.1
  have self : Poly.val (e ++ [v]) [(1, [Atom.var e.length])] = (v : Int) := by
    simp [Poly.val, Mono.val, Atom.val, get_append_eq]
  have quotv : ∀ x k, x < a.length → Atom.val (e ++ [v]) (Atom.quot x k) = ((get e x / 2^k : Nat) : Int) := by
    intro x k hx
    simp [Atom.val, get_append_lt _ _ _ (h.1 ▸ hx)]
  have hv' : (v : Int) = ((op.eval e : Nat) : Int) := by rw [hv]
  cases op with
  | const n => rw [hv']; simp [Op.sym, Op.eval, Poly.val, Mono.val]
  | add x y =>
    simp [Op.wf] at hwf
    rw [hv']; simp [Op.sym, Op.eval, Poly.val_add, old x hwf.1, old y hwf.2]
  | mul x y =>
    simp [Op.wf] at hwf
    rw [hv']; simp [Op.sym, Op.eval, Poly.val_mul, old x hwf.1, old y hwf.2]
  | subw x y n =>
    simp [Op.wf] at hwf
    obtain ⟨hx1, hx2, _⟩ := h.2 x hwf.1; obtain ⟨hy1, hy2, _⟩ := h.2 y hwf.2
    simp only [Op.sym]
    split
    · next hc =>
      have hpos : 0 < 2^n := Nat.two_pow_pos n
      have hyn : get e y < 2^n := by omega
      have e1 : get e y % 2^n = get e y := Nat.mod_eq_of_lt hyn
      have e2 : (get e x + 2^n - get e y) % 2^n = get e x - get e y := by
        have : get e x + 2^n - get e y = (get e x - get e y) + 2^n := by omega
        rw [this, Nat.add_mod_right, Nat.mod_eq_of_lt (by omega)]
      rw [hv']
      simp only [Op.eval, e1, e2]
      rw [Poly.val_add, Poly.val_scale, old x hwf.1, old y hwf.2]
      omega
    · exact self
  | shr x k =>
    simp [Op.wf] at hwf
    simp only [Op.sym]
    split
    · next hlt =>
      obtain ⟨_, hx2, _⟩ := h.2 x hwf
      rw [hv']
      simp only [Op.eval, Poly.val]
      rw [Nat.div_eq_of_lt (by omega)]
      rfl
    split
    · next hd =>
      have hvd := Poly.val_divC (e ++ [v]) _ _ hd
      rw [old x hwf] at hvd
      rw [hv']
      simp only [Op.eval]
      have hpos : (0 : Int) < ((2^k : Nat) : Int) := by exact_mod_cast Nat.two_pow_pos k
      have : ((get e x / 2^k : Nat) : Int) = (get e x : Int) / ((2^k : Nat) : Int) := by push_cast; rfl
      rw [this, ← hvd, Int.mul_ediv_cancel_left _ (by omega)]
    · rw [hv']; simp [Poly.val, Mono.val, quotv x k hwf, Op.eval]
  | shl x k =>
    simp [Op.wf] at hwf
    rw [hv']; simp [Op.sym, Op.eval, Poly.val_scale, old x hwf, Int.mul_comm]
  | low x k =>
    simp [Op.wf] at hwf
    obtain ⟨hx1, hx2, _⟩ := h.2 x hwf
    simp only [Op.sym]
    split
    · next hlt => rw [old x hwf, hv']; simp only [Op.eval]; rw [Nat.mod_eq_of_lt (by omega)]
    · rw [Poly.val_add, old x hwf, hv']
      simp only [Poly.val, Mono.val, quotv x k hwf, Op.eval]
      have := Nat.div_add_mod (get e x) (2^k)
      generalize get e x / 2^k = q at *
      generalize get e x % 2^k = r at *
      generalize 2^k = m at *
      rw [← this]
      push_cast
      simp only [Int.mul_one, Int.add_zero, Int.neg_mul]
      omega
  | wrap x k =>
    simp [Op.wf] at hwf
    obtain ⟨hx1, hx2, _⟩ := h.2 x hwf
    simp only [Op.sym]
    split
    · next hlt => rw [old x hwf, hv']; simp only [Op.eval]; rw [Nat.mod_eq_of_lt (by omega)]
    · rw [Poly.val_add, old x hwf, hv']
      simp only [Poly.val, Mono.val, quotv x k hwf, Op.eval]
      have := Nat.div_add_mod (get e x) (2^k)
      generalize get e x / 2^k = q at *
      generalize get e x % 2^k = r at *
      generalize 2^k = m at *
      rw [← this]
      push_cast
      simp only [Int.mul_one, Int.add_zero, Int.neg_mul]
      omega
  | and x y => exact self
  | or x y =>
    simp [Op.wf] at hwf
    obtain ⟨_, hx2, hx3⟩ := h.2 x hwf.1; obtain ⟨_, hy2, hy3⟩ := h.2 y hwf.2
    simp only [Op.sym]
    split
    · next hc =>
      rw [Poly.val_add, old x hwf.1, old y hwf.2, hv']
      simp only [Op.eval]
      cases hc with
      | inl hc => rw [or_eq_add_of_tz hx3 (by omega)]; push_cast; rfl
      | inr hc => rw [Nat.or_comm, or_eq_add_of_tz hy3 (by omega)]; push_cast; omega
    · exact self
  | xor x y => exact self
  | lt x y => exact self
  | eq x y => exact self

/-- symbolic + interval run; every stored polynomial is normalised and checked to be well scoped -/
def srun : List Op → AEnv → SEnv → Option (AEnv × SEnv)
  | [], a, s => some (a, s)
  | op :: ops, a, s =>
    let p := (op.sym a s a.length).norm
    if p.scoped (a.length + 1) then srun ops (a ++ [op.abs a]) (s ++ [p]) else none

theorem srun_sound : ∀ (ops : List Op) (e : Env) (a a' : AEnv) (s s' : SEnv),
    Sat e a → SSat e s → wfProg a.length ops = true →
    srun ops a s = some (a', s') → Sat (run ops e) a' ∧ SSat (run ops e) s' := by
  intro ops
  induction ops with
  | nil => intro e a a' s s' h hs _ hr; simp [srun] at hr; obtain ⟨rfl, rfl⟩ := hr; exact ⟨h, hs⟩
  | cons op ops ih =>
    intro e a a' s s' h hs hwf hr
    simp [wfProg] at hwf
    simp only [srun] at hr
    split at hr
    · next hsc =>
      have hea : e.length = a.length := h.1
      have hl : a.length = s.length := by rw [← h.1, hs.1]
      have hb := step_sound e a h op hwf.1
      -- scopedness of the un-normalised polynomial is not known; work with the normalised one
      have hS : SSat (e ++ [op.eval e]) (s ++ [(op.sym a s a.length).norm]) := by
        refine ⟨by simp [hs.1], ?_⟩
        intro j hj
        simp at hj
        by_cases hlt : j < s.length
        · have hj' := hs.2 j hlt
          rw [sget_append_lt _ _ _ hlt, get_append_lt _ _ _ (hs.1 ▸ hlt)]
          refine ⟨?_, ?_⟩
          · rw [Poly.val_append_env e _ _ hj'.2]; exact hj'.1
          · simpa using Poly.scoped_mono (Nat.le_succ _) _ hj'.2
        · have : j = s.length := by omega
          subst this
          rw [sget_append_eq]
          have e2 : get (e ++ [op.eval e]) s.length = op.eval e := by rw [← hs.1]; exact get_append_eq e _
          rw [e2]
          refine ⟨?_, by simpa [hea] using hsc⟩
          rw [Poly.val_norm, ← hea]
          exact sym_sound e a s h hs op hwf.1 _ rfl
      exact ih _ _ _ _ _ (h.push _ _ hb) hS (by simpa using hwf.2) hr
    · simp at hr

end Voi.IR
