/- Two lemmas that split a nested `if` by unification only (no `simp` over the whole term): used to prove statements about
   the regenerated shallow decision trees path by path. Core Lean. -/
namespace Voi.IR

theorem ite_l {α} {c : Prop} [Decidable c] {a b r : α} (h1 : c → a = r) (h2 : ¬c → b = r) : (if c then a else b) = r := by
  split
  · exact h1 ‹_›
  · exact h2 ‹_›

theorem sing_ite {c : Prop} [Decidable c] {a x y : Nat} (h1 : c → a = x) (h2 : ¬c → a = y) : [a] = [if c then x else y] := by
  split
  · rw [h1 ‹_›]
  · rw [h2 ‹_›]

end Voi.IR
