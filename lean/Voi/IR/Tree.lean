/-
Decision trees over the limb IR: the regenerated form of *variable-time predicates over public bytes* (canonicity tests).
go2ir explores both outcomes of every branch on a symbolic value; each tree node runs a straight-line segment and then
branches on one of its values.  Core Lean only.
-/
import Voi.IR.Basic
namespace Voi.IR

inductive DTree where
  | leaf (ops : List Op) (outs : List Nat)
  | node (ops : List Op) (c : Nat) (t e : DTree)
  deriving Repr, Inhabited

/-- evaluate: run the segment, then follow the branch selected by value `c` (non-zero = first subtree) -/
def DTree.eval : DTree → Env → List Nat
  | .leaf ops outs, e => let e' := run ops e; outs.map (get e')
  | .node ops c t f, e => let e' := run ops e; if get e' c ≠ 0 then t.eval e' else f.eval e'

def DTree.leaves : DTree → Nat
  | .leaf _ _ => 1
  | .node _ _ t e => t.leaves + e.leaves

end Voi.IR
