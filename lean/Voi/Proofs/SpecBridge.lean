/-
C03, first half: the EXECUTABLE Spec (`Voi.Spec.Pt`, `Voi.Spec.Ext`, `Voi.Spec.msm` — the oracle the
real code is compared with on every run of streams G1/D1) computes in the group `Ed25519` of
`Voi.Proofs.Ed25519Group`.

`toEd P h : Ed25519` maps a Spec point (pair of Nats) with `P.onCurve = true` to the group through
`Nat.cast : ℕ → ZMod p`; it is injective and surjective (`toEd_inj`, `toEd_surj`).  Then
  * `add_onCurve`, `toEd_add`, `toEd_neg`, `toEd_zero`, `toEd_sub`, `toEd_dbl`      (affine law)
  * `Represents E A` (E : Spec.Ext represents A : Ed25519): `Represents.add/dbl/neg/zero/ofPt/toPt`,
    `Represents.eq_iff` (`Ext.eq`), `Represents.isZero_iff` (`Ext.isZero`)        (extended coordinates,
    complete: output Z ≠ 0 for ALL inputs)
  * `Represents.smul`, `smul_onCurve`/`toEd_smul` : `Pt.smul n P = n • P`,
    `toEd_mul8` (cofactor), `isSmallOrder_iff`, `isTorsionFree_iff`, `toEd_msm` : `msm = Σ sᵢ • Pᵢ`
  * `L_smul_B : L • B = 0`, `B_ne_zero`, `addOrderOf_B : addOrderOf B = L`.

Mathlib is used here; this module must not be imported by Voi/Drv/* or Main.lean.
-/
import Mathlib.GroupTheory.OrderOfElement
import Mathlib.Tactic.Abel
import Voi.Props.C07.FpRing
import Voi.Spec.Edwards
import Voi.Proofs.Ed25519Group
import Voi.Proofs.EdwardsExt
namespace Voi.Proofs
open Voi.Spec Voi.Props.C07

/- Mathlib has a root-level `toZ` (order theory); here `toZ` always means the canonical map ℕ → ZMod p. -/
local notation "toZ" => Voi.Props.C07.toZ

/-! ### field bridge: the remaining `toZ` lemmas (inverse, constants) -/

/-- `Fp.inv` (Fermat, 0 ↦ 0) is the field inverse of `ZMod p` -/
theorem toZ_inv' (a : Nat) : toZ (Fp.inv a) = (toZ a)⁻¹ := by
  rw [toZ_inv]
  by_cases h : toZ a = 0
  · rw [h, inv_zero]; exact zero_pow (by decide)
  · apply eq_inv_of_mul_eq_one_left
    have h1 : toZ a ^ (p - 1) = 1 := ZMod.pow_card_sub_one_eq_one h
    have : p - 2 + 1 = p - 1 := by decide
    rw [← pow_succ, this, h1]

theorem toZ_d : toZ Fp.d = d25519 := by
  unfold Fp.d d25519
  rw [toZ_mul, toZ_neg, toZ_inv', div_eq_mul_inv]
  rfl

theorem toZ_d2 : toZ Fp.d2 = d25519 + d25519 := by
  unfold Fp.d2; rw [toZ_add, toZ_d]

theorem toZ_sqrtM1 : toZ Fp.sqrtM1 = sqrtM1 := by
  unfold Fp.sqrtM1 sqrtM1
  rw [toZ_pow _ _ (by decide)]
  rfl

@[simp] theorem c25519_d : c25519.d = d25519 := rfl

theorem toZ_eq_zero_iff {a : Nat} : toZ a = 0 ↔ a % p = 0 := by
  unfold Voi.Props.C07.toZ
  rw [ZMod.natCast_eq_zero_iff, Nat.dvd_iff_mod_eq_zero]

theorem toZ_eq_iff {a b : Nat} : toZ a = toZ b ↔ a % p = b % p := by
  unfold Voi.Props.C07.toZ
  exact ZMod.natCast_eq_natCast_iff' a b p

/-! ### affine points -/

/-- the Spec's curve-membership test, read in `ZMod p` -/
theorem onCurve_iff (P : Pt) :
    P.onCurve = true ↔ P.x < p ∧ P.y < p ∧
      -(toZ P.x) ^ 2 + (toZ P.y) ^ 2 = 1 + d25519 * (toZ P.x) ^ 2 * (toZ P.y) ^ 2 := by
  unfold Pt.onCurve
  simp only [Bool.and_eq_true, decide_eq_true_eq, beq_iff_eq]
  have key : Fp.sub (Fp.sq P.y) (Fp.sq P.x) = Fp.add 1 (Fp.mul Fp.d (Fp.mul (Fp.sq P.x) (Fp.sq P.y)))
      ↔ -(toZ P.x) ^ 2 + (toZ P.y) ^ 2 = 1 + d25519 * (toZ P.x) ^ 2 * (toZ P.y) ^ 2 := by
    constructor
    · intro h
      have h' := congrArg toZ h
      simp only [toZ_sub, toZ_add, toZ_mul, toZ_sq, toZ_d, toZ_one] at h'
      linear_combination h'
    · intro h
      apply toZ_inj (sub_lt _ _) (add_lt _ _)
      simp only [toZ_sub, toZ_add, toZ_mul, toZ_sq, toZ_d, toZ_one]
      linear_combination h
  rw [key, and_assoc]

/-- a Spec point on the curve as an element of the group -/
def toEd (P : Pt) (h : P.onCurve = true) : Ed25519 :=
  ⟨toZ P.x, toZ P.y, ((onCurve_iff P).mp h).2.2⟩

@[simp] theorem toEd_x (P : Pt) (h : P.onCurve = true) : (toEd P h).x = toZ P.x := rfl
@[simp] theorem toEd_y (P : Pt) (h : P.onCurve = true) : (toEd P h).y = toZ P.y := rfl

/-- `toEd` is injective: on-curve Spec points are canonical (coordinates < p) -/
theorem toEd_inj {P Q : Pt} {hP : P.onCurve = true} {hQ : Q.onCurve = true}
    (h : toEd P hP = toEd Q hQ) : P = Q := by
  obtain ⟨hPx, hPy, _⟩ := (onCurve_iff P).mp hP
  obtain ⟨hQx, hQy, _⟩ := (onCurve_iff Q).mp hQ
  have hx : toZ P.x = toZ Q.x := congrArg EdPoint.x h
  have hy : toZ P.y = toZ Q.y := congrArg EdPoint.y h
  cases P; cases Q
  simp only [Pt.mk.injEq]
  exact ⟨toZ_inj hPx hQx hx, toZ_inj hPy hQy hy⟩

/-- `toEd` is surjective: every group element is a Spec point -/
theorem toEd_surj (A : Ed25519) : ∃ (P : Pt) (h : P.onCurve = true), toEd P h = A := by
  have hx : toZ A.x.val = A.x := ZMod.natCast_zmod_val A.x
  have hy : toZ A.y.val = A.y := ZMod.natCast_zmod_val A.y
  have hc : (⟨A.x.val, A.y.val⟩ : Pt).onCurve = true := by
    rw [onCurve_iff]
    refine ⟨ZMod.val_lt A.x, ZMod.val_lt A.y, ?_⟩
    simp only [hx, hy]
    exact A.on
  exact ⟨⟨A.x.val, A.y.val⟩, hc, by ext <;> simp [hx, hy]⟩

/-- "the Spec point `P` is (the canonical form of) the group element `A`" -/
def PtIs (P : Pt) (A : Ed25519) : Prop := ∃ h : P.onCurve = true, toEd P h = A

theorem PtIs.of_coords {P : Pt} {A : Ed25519} (hx : P.x < p) (hy : P.y < p)
    (ex : toZ P.x = A.x) (ey : toZ P.y = A.y) : PtIs P A := by
  have hc : P.onCurve = true := by
    rw [onCurve_iff]; refine ⟨hx, hy, ?_⟩; rw [ex, ey]; exact A.on
  exact ⟨hc, by ext <;> simp [ex, ey]⟩

theorem PtIs.of_toEd (P : Pt) (h : P.onCurve = true) : PtIs P (toEd P h) := ⟨h, rfl⟩

theorem toZ_add_x (P Q : Pt) : toZ (Pt.add P Q).x =
    (toZ P.x * toZ Q.y + toZ P.y * toZ Q.x) / (1 + d25519 * toZ P.x * toZ Q.x * toZ P.y * toZ Q.y) := by
  unfold Pt.add
  simp only [toZ_mul, toZ_add, toZ_inv', toZ_d, toZ_one]
  rw [div_eq_mul_inv]; congr 2; ring

theorem toZ_add_y (P Q : Pt) : toZ (Pt.add P Q).y =
    (toZ P.y * toZ Q.y + toZ P.x * toZ Q.x) / (1 - d25519 * toZ P.x * toZ Q.x * toZ P.y * toZ Q.y) := by
  unfold Pt.add
  simp only [toZ_mul, toZ_add, toZ_sub, toZ_inv', toZ_d, toZ_one]
  rw [div_eq_mul_inv]; congr 2; ring

/-- ADDITION: the Spec's affine addition is the group addition (and stays on the curve). -/
theorem PtIs.add {P Q : Pt} {A B : Ed25519} (hP : PtIs P A) (hQ : PtIs Q B) :
    PtIs (Pt.add P Q) (A + B) := by
  obtain ⟨hP, rfl⟩ := hP
  obtain ⟨hQ, rfl⟩ := hQ
  apply PtIs.of_coords
  · exact mul_lt _ _
  · exact mul_lt _ _
  · rw [toZ_add_x, EdPoint.add_x]; rfl
  · rw [toZ_add_y, EdPoint.add_y]; rfl

/-- closure of the executable addition -/
theorem add_onCurve {P Q : Pt} (hP : P.onCurve = true) (hQ : Q.onCurve = true) :
    (Pt.add P Q).onCurve = true :=
  ((PtIs.of_toEd P hP).add (PtIs.of_toEd Q hQ)).1

theorem toEd_add {P Q : Pt} (hP : P.onCurve = true) (hQ : Q.onCurve = true) :
    toEd (Pt.add P Q) (add_onCurve hP hQ) = toEd P hP + toEd Q hQ :=
  ((PtIs.of_toEd P hP).add (PtIs.of_toEd Q hQ)).2

/-- NEGATION -/
theorem PtIs.neg {P : Pt} {A : Ed25519} (hP : PtIs P A) : PtIs (Pt.neg P) (-A) := by
  obtain ⟨hP, rfl⟩ := hP
  apply PtIs.of_coords
  · exact Nat.mod_lt _ p_pos
  · exact Nat.mod_lt _ p_pos
  · simp only [Pt.neg, toZ_neg, EdPoint.neg_x, toEd_x]
  · simp only [Pt.neg, toZ_mod, EdPoint.neg_y, toEd_y]

theorem neg_onCurve {P : Pt} (hP : P.onCurve = true) : (Pt.neg P).onCurve = true :=
  (PtIs.of_toEd P hP).neg.1

theorem toEd_neg {P : Pt} (hP : P.onCurve = true) :
    toEd (Pt.neg P) (neg_onCurve hP) = -toEd P hP := (PtIs.of_toEd P hP).neg.2

/-- IDENTITY -/
theorem PtIs.zero : PtIs Pt.zero 0 := by
  apply PtIs.of_coords (by decide) (by decide)
  · simp [Pt.zero, toZ_zero]
  · simp [Pt.zero, toZ_one]

theorem zero_onCurve : Pt.zero.onCurve = true := PtIs.zero.1
theorem toEd_zero : toEd Pt.zero zero_onCurve = 0 := PtIs.zero.2

/-- SUBTRACTION -/
theorem PtIs.sub {P Q : Pt} {A B : Ed25519} (hP : PtIs P A) (hQ : PtIs Q B) :
    PtIs (Pt.sub P Q) (A - B) := by
  rw [sub_eq_add_neg]; exact hP.add hQ.neg

theorem sub_onCurve {P Q : Pt} (hP : P.onCurve = true) (hQ : Q.onCurve = true) :
    (Pt.sub P Q).onCurve = true := ((PtIs.of_toEd P hP).sub (PtIs.of_toEd Q hQ)).1

theorem toEd_sub {P Q : Pt} (hP : P.onCurve = true) (hQ : Q.onCurve = true) :
    toEd (Pt.sub P Q) (sub_onCurve hP hQ) = toEd P hP - toEd Q hQ :=
  ((PtIs.of_toEd P hP).sub (PtIs.of_toEd Q hQ)).2

/-- DOUBLING (affine) -/
theorem PtIs.dbl {P : Pt} {A : Ed25519} (hP : PtIs P A) : PtIs (Pt.dbl P) (2 • A) := by
  rw [two_nsmul]; exact hP.add hP

theorem dbl_onCurve {P : Pt} (hP : P.onCurve = true) : (Pt.dbl P).onCurve = true :=
  (PtIs.of_toEd P hP).dbl.1

theorem toEd_dbl {P : Pt} (hP : P.onCurve = true) :
    toEd (Pt.dbl P) (dbl_onCurve hP) = 2 • toEd P hP := (PtIs.of_toEd P hP).dbl.2

/-- the Spec's identity test -/
theorem PtIs.isZero_iff {P : Pt} {A : Ed25519} (hP : PtIs P A) : P.isZero = true ↔ A = 0 := by
  obtain ⟨hP, rfl⟩ := hP
  unfold Pt.isZero
  simp only [Bool.and_eq_true, beq_iff_eq]
  have h1 : P.y % p = 1 ↔ toZ P.y = 1 := by
    rw [← toZ_one, toZ_eq_iff]
    have : 1 % p = 1 := by decide
    rw [this]
  rw [← toZ_eq_zero_iff, h1]
  constructor
  · rintro ⟨hx, hy⟩; ext <;> simp [hx, hy]
  · intro h
    exact ⟨congrArg EdPoint.x h, congrArg EdPoint.y h⟩

/-! ### extended coordinates -/

/-- Spec extended coordinates read in `ZMod p` -/
def extToK (E : Ext) : ExtK F25519 := ⟨toZ E.X, toZ E.Y, toZ E.Z, toZ E.T⟩

/-- `E : Voi.Spec.Ext` represents the group element `A`:
Z ≠ 0, X = x·Z, Y = y·Z, T·Z = X·Y (all in `ZMod p`; coordinates need not be reduced) -/
def Represents (E : Ext) (A : Ed25519) : Prop := ExtK.Rep c25519 (extToK E) A

theorem extToK_add (E E' : Ext) :
    extToK (Ext.add E E') = ExtK.add (d25519 + d25519) (extToK E) (extToK E') := by
  simp only [Ext.add, ExtK.add, extToK, toZ_mul, toZ_sub, toZ_add, toZ_d2]

theorem extToK_dbl (E : Ext) : extToK (Ext.dbl E) = ExtK.dbl (extToK E) := by
  simp only [Ext.dbl, ExtK.dbl, extToK, toZ_mul, toZ_sub, toZ_add, toZ_sq, toZ_neg]

theorem extToK_neg (E : Ext) : extToK (Ext.neg E) = ExtK.neg (extToK E) := by
  simp only [Ext.neg, ExtK.neg, extToK, toZ_neg]

namespace Represents

theorem zero : Represents Ext.zero 0 := by
  have : extToK Ext.zero = ExtK.zero := by
    simp [extToK, Ext.zero, ExtK.zero, toZ_zero, toZ_one]
  unfold Represents; rw [this]; exact ExtK.Rep.zero

theorem ofPt {P : Pt} {A : Ed25519} (hP : PtIs P A) : Represents (Ext.ofPt P) A := by
  obtain ⟨hP, rfl⟩ := hP
  have : extToK (Ext.ofPt P) = ExtK.ofAffine (toZ P.x) (toZ P.y) := by
    simp [extToK, Ext.ofPt, ExtK.ofAffine, toZ_mul, toZ_one]
  unfold Represents; rw [this]; exact ExtK.Rep.ofAffine (toEd P hP)

/-- add-2008-hwcd-3 as executed by the Spec: complete and correct -/
theorem add {E E' : Ext} {A B : Ed25519} (h : Represents E A) (h' : Represents E' B) :
    Represents (Ext.add E E') (A + B) := by
  unfold Represents; rw [extToK_add]; exact ExtK.Rep.add h h'

/-- dbl-2008-hwcd as executed by the Spec: complete and correct -/
theorem dbl {E : Ext} {A : Ed25519} (h : Represents E A) : Represents (Ext.dbl E) (2 • A) := by
  unfold Represents; rw [extToK_dbl, two_nsmul]; exact ExtK.Rep.dbl h

theorem neg {E : Ext} {A : Ed25519} (h : Represents E A) : Represents (Ext.neg E) (-A) := by
  unfold Represents; rw [extToK_neg]; exact ExtK.Rep.neg h

/-- conversion to affine gives the canonical Spec point of the represented element -/
theorem toPt {E : Ext} {A : Ed25519} (h : Represents E A) : PtIs (Ext.toPt E) A := by
  have ha := ExtK.Rep.toAffine h
  apply PtIs.of_coords
  · exact mul_lt _ _
  · exact mul_lt _ _
  · simp only [Ext.toPt, toZ_mul, toZ_inv']; exact ha.1
  · simp only [Ext.toPt, toZ_mul, toZ_inv']; exact ha.2

theorem unique {E : Ext} {A B : Ed25519} (h : Represents E A) (h' : Represents E B) : A = B :=
  ExtK.Rep.unique h h'

/-- `Ext.eq` (cross-multiplication, the library's `Equal`) decides equality in the group -/
theorem eq_iff {E E' : Ext} {A B : Ed25519} (h : Represents E A) (h' : Represents E' B) :
    Ext.eq E E' = true ↔ A = B := by
  rw [← ExtK.Rep.eq_iff h h']
  unfold Ext.eq
  simp only [Bool.and_eq_true, beq_iff_eq, extToK]
  have e (a b c d : Nat) : Fp.mul a b = Fp.mul c d ↔ toZ a * toZ b = toZ c * toZ d := by
    rw [← toZ_mul, ← toZ_mul]
    exact ⟨fun h => by rw [h], fun h => toZ_inj (mul_lt _ _) (mul_lt _ _) h⟩
  rw [e, e]

/-- `Ext.isZero` decides A = 0 -/
theorem isZero_iff {E : Ext} {A : Ed25519} (h : Represents E A) : Ext.isZero E = true ↔ A = 0 := by
  rw [← ExtK.Rep.isZero_iff h]
  unfold Ext.isZero
  simp only [Bool.and_eq_true, beq_iff_eq, extToK]
  rw [← toZ_eq_zero_iff, ← toZ_eq_iff]

/-- invariant of the left-to-right double-and-add loop -/
theorem smulAux {E : Ext} {A : Ed25519} (h : Represents E A) (n : Nat) :
    ∀ (i : Nat) (acc : Ext) (B : Ed25519), Represents acc B →
      Represents (Ext.smulAux E i n acc) (2 ^ i • B + (n % 2 ^ i) • A) := by
  intro i
  induction i with
  | zero =>
    intro acc B hB
    simpa [Ext.smulAux, Nat.mod_one] using hB
  | succ i ih =>
    intro acc B hB
    unfold Ext.smulAux
    simp only []
    have hstep : Represents (if n.testBit i then Ext.add (Ext.dbl acc) E else Ext.dbl acc)
        (2 • B + (n / 2 ^ i % 2) • A) := by
      rw [Nat.testBit_eq_decide_div_mod_eq]
      by_cases hb : n / 2 ^ i % 2 = 1
      · simp only [hb, decide_true, if_true, one_smul]
        exact hB.dbl.add h
      · have hb0 : n / 2 ^ i % 2 = 0 := by omega
        simp only [hb0, zero_smul, add_zero]
        simpa using hB.dbl
    have := ih _ _ hstep
    have e : 2 ^ i • (2 • B + (n / 2 ^ i % 2) • A) + (n % 2 ^ i) • A
        = 2 ^ (i + 1) • B + (n % 2 ^ (i + 1)) • A := by
      rw [Nat.mod_pow_succ, smul_add, smul_smul, smul_smul, add_smul, pow_succ]
      abel
    rw [← e]; exact this

/-- SCALAR MULTIPLICATION in extended coordinates: `Ext.smul n E` represents `n • A`, for every
`n : ℕ` (no bound) and every point -/
theorem smul {E : Ext} {A : Ed25519} (h : Represents E A) (n : Nat) :
    Represents (Ext.smul n E) (n • A) := by
  have := smulAux h n n.log2.succ Ext.zero 0 zero
  rw [smul_zero, zero_add, Nat.mod_eq_of_lt Nat.lt_log2_self] at this
  exact this

end Represents

/-! ### scalar multiplication, cofactor multiplication, multiscalar sums on Spec points -/

/-- `Pt.smul n P` is `n • P` in the group -/
theorem PtIs.smul {P : Pt} {A : Ed25519} (hP : PtIs P A) (n : Nat) : PtIs (Pt.smul n P) (n • A) :=
  ((Represents.ofPt hP).smul n).toPt

theorem smul_onCurve {P : Pt} (hP : P.onCurve = true) (n : Nat) : (Pt.smul n P).onCurve = true :=
  ((PtIs.of_toEd P hP).smul n).1

theorem toEd_smul {P : Pt} (hP : P.onCurve = true) (n : Nat) :
    toEd (Pt.smul n P) (smul_onCurve hP n) = n • toEd P hP := ((PtIs.of_toEd P hP).smul n).2

/-- COFACTOR MULTIPLICATION: three doublings are multiplication by 8 -/
theorem PtIs.mul8 {P : Pt} {A : Ed25519} (hP : PtIs P A) : PtIs (Pt.mul8 P) (8 • A) := by
  have h := (Represents.ofPt hP).dbl.dbl.dbl.toPt
  have e : 2 • 2 • 2 • A = 8 • A := by rw [smul_smul, smul_smul]; norm_num
  rw [e] at h; exact h

theorem mul8_onCurve {P : Pt} (hP : P.onCurve = true) : (Pt.mul8 P).onCurve = true :=
  (PtIs.of_toEd P hP).mul8.1

theorem toEd_mul8 {P : Pt} (hP : P.onCurve = true) :
    toEd (Pt.mul8 P) (mul8_onCurve hP) = 8 • toEd P hP := (PtIs.of_toEd P hP).mul8.2

theorem isSmallOrder_iff {P : Pt} (hP : P.onCurve = true) :
    P.isSmallOrder = true ↔ 8 • toEd P hP = 0 :=
  (PtIs.of_toEd P hP).mul8.isZero_iff

theorem isTorsionFree_iff {P : Pt} (hP : P.onCurve = true) :
    P.isTorsionFree = true ↔ L • toEd P hP = 0 :=
  ((PtIs.of_toEd P hP).smul L).isZero_iff

/-- total version of `toEd` (off-curve pairs ↦ 0), to state sums over lists -/
noncomputable def edOf (P : Pt) : Ed25519 := if h : P.onCurve = true then toEd P h else 0

theorem edOf_eq {P : Pt} (h : P.onCurve = true) : edOf P = toEd P h := by
  unfold edOf; rw [dif_pos h]

theorem PtIs.of_edOf {P : Pt} (h : P.onCurve = true) : PtIs P (edOf P) := ⟨h, (edOf_eq h).symm⟩

/-- SUMMATION: `msm ss ps` is `Σ sᵢ • Pᵢ` (over the zipped lists — any lengths, 0 included; any
scalars) whenever all points are on the curve -/
theorem PtIs.msm (ss : List Nat) (ps : List Pt) (hps : ∀ P ∈ ps, P.onCurve = true) :
    PtIs (msm ss ps) (((ss.zip ps).map fun sp => sp.1 • edOf sp.2).sum) := by
  unfold Spec.msm
  apply Represents.toPt
  have gen : ∀ (l : List (Nat × Pt)) (acc : Ext) (A : Ed25519), (∀ sp ∈ l, sp.2.onCurve = true) →
      Represents acc A →
      Represents (l.foldl (fun acc (sp : Nat × Pt) => Ext.add acc (Ext.smul sp.1 (Ext.ofPt sp.2))) acc)
        (A + (l.map fun sp => sp.1 • edOf sp.2).sum) := by
    intro l
    induction l with
    | nil => intro acc A _ hA; simpa using hA
    | cons sp l ih =>
      intro acc A hl hA
      simp only [List.foldl_cons, List.map_cons, List.sum_cons]
      have hsp : sp.2.onCurve = true := hl sp (List.mem_cons_self ..)
      have h1 := hA.add ((Represents.ofPt (PtIs.of_edOf hsp)).smul sp.1)
      have := ih _ _ (fun q hq => hl q (List.mem_cons_of_mem _ hq)) h1
      rw [add_assoc] at this
      exact this
  have := gen (ss.zip ps) Ext.zero 0 (fun sp hsp => hps _ (List.of_mem_zip hsp).2) Represents.zero
  rw [zero_add] at this
  exact this

theorem msm_onCurve (ss : List Nat) (ps : List Pt) (hps : ∀ P ∈ ps, P.onCurve = true) :
    (msm ss ps).onCurve = true := (PtIs.msm ss ps hps).1

theorem toEd_msm (ss : List Nat) (ps : List Pt) (hps : ∀ P ∈ ps, P.onCurve = true) :
    toEd (msm ss ps) (msm_onCurve ss ps hps) = ((ss.zip ps).map fun sp => sp.1 • edOf sp.2).sum :=
  (PtIs.msm ss ps hps).2

/-! ### the same statements on the subtype of on-curve Spec points -/

/-- on-curve Spec points -/
abbrev CurvePt := {P : Pt // P.onCurve = true}

/-- the subtype version of `toEd` -/
def toEd' (P : CurvePt) : Ed25519 := toEd P.1 P.2

/-- the executable operations restricted to on-curve points -/
def CurvePt.add (P Q : CurvePt) : CurvePt := ⟨Pt.add P.1 Q.1, add_onCurve P.2 Q.2⟩
def CurvePt.neg (P : CurvePt) : CurvePt := ⟨Pt.neg P.1, neg_onCurve P.2⟩
def CurvePt.zero : CurvePt := ⟨Pt.zero, zero_onCurve⟩
def CurvePt.smul (n : Nat) (P : CurvePt) : CurvePt := ⟨Pt.smul n P.1, smul_onCurve P.2 n⟩

theorem toEd'_add (P Q : CurvePt) : toEd' (P.add Q) = toEd' P + toEd' Q := toEd_add P.2 Q.2
theorem toEd'_neg (P : CurvePt) : toEd' P.neg = -toEd' P := toEd_neg P.2
theorem toEd'_zero : toEd' CurvePt.zero = 0 := toEd_zero
theorem toEd'_smul (n : Nat) (P : CurvePt) : toEd' (P.smul n) = n • toEd' P := toEd_smul P.2 n

theorem toEd'_bijective : Function.Bijective toEd' := by
  constructor
  · intro P Q h
    exact Subtype.ext (toEd_inj h)
  · intro A
    obtain ⟨P, h, e⟩ := toEd_surj A
    exact ⟨⟨P, h⟩, e⟩

/-- on-curve Spec points with the executable `Pt.add` ARE the group `Ed25519` -/
noncomputable def toEdEquiv : CurvePt ≃ Ed25519 := Equiv.ofBijective toEd' toEd'_bijective

/-- group laws read back on the executable Spec (equalities of Nat pairs), e.g. associativity and
commutativity of `Pt.add` on curve points -/
theorem Pt_add_assoc {P Q R : Pt} (hP : P.onCurve = true) (hQ : Q.onCurve = true)
    (hR : R.onCurve = true) : Pt.add (Pt.add P Q) R = Pt.add P (Pt.add Q R) := by
  apply toEd_inj (hP := add_onCurve (add_onCurve hP hQ) hR) (hQ := add_onCurve hP (add_onCurve hQ hR))
  rw [toEd_add (add_onCurve hP hQ) hR, toEd_add hP hQ, toEd_add hP (add_onCurve hQ hR),
    toEd_add hQ hR, add_assoc]

theorem Pt_add_comm {P Q : Pt} (hP : P.onCurve = true) (hQ : Q.onCurve = true) :
    Pt.add P Q = Pt.add Q P := by
  apply toEd_inj (hP := add_onCurve hP hQ) (hQ := add_onCurve hQ hP)
  rw [toEd_add hP hQ, toEd_add hQ hP, add_comm]

theorem Pt_add_neg {P : Pt} (hP : P.onCurve = true) : Pt.add P (Pt.neg P) = Pt.zero := by
  apply toEd_inj (hP := add_onCurve hP (neg_onCurve hP)) (hQ := zero_onCurve)
  rw [toEd_add hP (neg_onCurve hP), toEd_neg hP, toEd_zero, add_neg_cancel]

theorem Pt_add_zero {P : Pt} (hP : P.onCurve = true) : Pt.add P Pt.zero = P := by
  apply toEd_inj (hP := add_onCurve hP zero_onCurve) (hQ := hP)
  rw [toEd_add hP zero_onCurve, toEd_zero, add_zero]

/-! ### the base point -/

theorem B_onCurve : Pt.B.onCurve = true := by decide +kernel

/-- the Ed25519 base point as a group element -/
def Bpt : Ed25519 := toEd Pt.B B_onCurve

/-- `Pt.B` is the RFC 8032 base point: y = 4/5 and x is "positive" (even) -/
theorem B_y : Pt.B.y = Fp.mul 4 (Fp.inv 5) := by decide +kernel
theorem B_x_even : Pt.B.x % 2 = 0 := by decide +kernel

/-- `L • B = 0`: evaluated on the executable Spec by the kernel, transported through the bridge -/
theorem L_smul_B : L • Bpt = 0 :=
  (isTorsionFree_iff B_onCurve).mp (by decide +kernel)

theorem B_ne_zero : Bpt ≠ 0 := by
  intro h
  have hx : toZ Pt.B.x = 0 := congrArg EdPoint.x h
  rw [toZ_eq_zero_iff] at hx
  exact absurd hx (by decide +kernel)

/-- the base point has order exactly L (L is prime) -/
theorem addOrderOf_B : addOrderOf Bpt = L := addOrderOf_eq_prime L_smul_B B_ne_zero

/-- consequently scalars act on the base point modulo L -/
theorem smul_B_mod (n : Nat) : (n % L) • Bpt = n • Bpt := by
  conv_rhs => rw [← Nat.mod_add_div n L]
  rw [add_smul, mul_comm, mul_smul, L_smul_B, smul_zero, add_zero]

/-! ### hypotheses are satisfiable / sanity examples -/

example : PtIs Pt.B Bpt := PtIs.of_toEd _ _
example : PtIs (Pt.add Pt.B Pt.B) (Bpt + Bpt) := (PtIs.of_toEd _ _).add (PtIs.of_toEd _ _)
example : Represents (Ext.ofPt Pt.B) Bpt := Represents.ofPt (PtIs.of_toEd _ _)
example : Pt.T1.onCurve = true := by decide +kernel
/-- the order-8 torsion generator is of small order and not torsion-free, as group statements -/
example : 8 • toEd Pt.T1 (by decide +kernel) = 0 :=
  (isSmallOrder_iff (P := Pt.T1) (by decide +kernel)).mp (by decide +kernel)
example : L • toEd Pt.T1 (by decide +kernel) ≠ 0 := fun h =>
  absurd ((isTorsionFree_iff (P := Pt.T1) (by decide +kernel)).mpr h) (by decide +kernel)

end Voi.Proofs

#print axioms Voi.Proofs.toEd_add
#print axioms Voi.Proofs.toEd_neg
#print axioms Voi.Proofs.toEd_zero
#print axioms Voi.Proofs.add_onCurve
#print axioms Voi.Proofs.Represents.add
#print axioms Voi.Proofs.Represents.dbl
#print axioms Voi.Proofs.Represents.smul
#print axioms Voi.Proofs.toEd_smul
#print axioms Voi.Proofs.toEd_mul8
#print axioms Voi.Proofs.toEd_msm
#print axioms Voi.Proofs.toEd'_bijective
#print axioms Voi.Proofs.Pt_add_assoc
#print axioms Voi.Proofs.L_smul_B
#print axioms Voi.Proofs.B_ne_zero
#print axioms Voi.Proofs.addOrderOf_B
