/-
C03 / C01 foundation: primality of p = 2^255 - 19 and of the group order L, by Pratt certificates
(`lucas_primality` + `reduce_mod_char`).  GENERATED (do not edit) by Voi/Proofs/gen_primes.py (= notes/feasibility/gen_pratt.py adapted;
usage: python3 gen_primes.py Voi/Proofs/Primes.lean) from /verif/notes/pratt_p25519.txt and /verif/notes/pratt_L.txt.

Mathlib is used here; this module must not be imported by Voi/Drv/* or Main.lean.
-/
import Mathlib.NumberTheory.LucasPrimality
import Mathlib.Tactic.ReduceModChar
import Mathlib.Tactic.NormNum.Prime
import Mathlib.Algebra.BigOperators.Group.List.Basic
import Voi.Spec.Field
namespace Voi.Proofs
namespace Pratt

theorem mem_of_prime_dvd_prod {q : ℕ} (hq : q.Prime) (l : List ℕ) (hl : ∀ r ∈ l, r.Prime) (h : q ∣ l.prod) : q ∈ l := by
  obtain ⟨a, ha, hqa⟩ := (Prime.dvd_prod_iff (Nat.prime_iff.mp hq)).mp h
  have := (Nat.prime_dvd_prime_iff_eq hq (hl a ha)).mp hqa
  exact this ▸ ha

theorem prime_3 : Nat.Prime 3 := by norm_num
theorem prime_5 : Nat.Prime 5 := by norm_num
theorem prime_7 : Nat.Prime 7 := by norm_num
theorem prime_11 : Nat.Prime 11 := by norm_num
theorem prime_13 : Nat.Prime 13 := by norm_num
theorem prime_17 : Nat.Prime 17 := by norm_num
theorem prime_19 : Nat.Prime 19 := by norm_num
theorem prime_23 : Nat.Prime 23 := by norm_num
theorem prime_29 : Nat.Prime 29 := by norm_num
theorem prime_31 : Nat.Prime 31 := by norm_num
theorem prime_37 : Nat.Prime 37 := by norm_num
theorem prime_41 : Nat.Prime 41 := by norm_num
theorem prime_43 : Nat.Prime 43 := by norm_num
theorem prime_47 : Nat.Prime 47 := by norm_num
theorem prime_53 : Nat.Prime 53 := by norm_num
theorem prime_59 : Nat.Prime 59 := by norm_num
theorem prime_67 : Nat.Prime 67 := by norm_num
theorem prime_73 : Nat.Prime 73 := by norm_num
theorem prime_79 : Nat.Prime 79 := by norm_num
theorem prime_83 : Nat.Prime 83 := by norm_num
theorem prime_97 : Nat.Prime 97 := by norm_num
theorem prime_103 : Nat.Prime 103 := by norm_num
theorem prime_107 : Nat.Prime 107 := by norm_num
theorem prime_113 : Nat.Prime 113 := by norm_num
theorem prime_127 : Nat.Prime 127 := by norm_num
theorem prime_131 : Nat.Prime 131 := by norm_num
theorem prime_173 : Nat.Prime 173 := by norm_num
theorem prime_223 : Nat.Prime 223 := by norm_num
theorem prime_239 : Nat.Prime 239 := by norm_num
theorem prime_269 : Nat.Prime 269 := by norm_num
theorem prime_307 : Nat.Prime 307 := by norm_num
theorem prime_353 : Nat.Prime 353 := by norm_num
theorem prime_419 : Nat.Prime 419 := by norm_num
theorem prime_479 : Nat.Prime 479 := by norm_num
theorem prime_487 : Nat.Prime 487 := by norm_num
theorem prime_991 : Nat.Prime 991 := by norm_num
theorem prime_1361 : Nat.Prime 1361 := by norm_num
theorem prime_1723 : Nat.Prime 1723 := by norm_num
theorem prime_2437 : Nat.Prime 2437 := by norm_num
theorem prime_2551 : Nat.Prime 2551 := by norm_num
theorem prime_2851 : Nat.Prime 2851 := by norm_num
theorem prime_2939 : Nat.Prime 2939 := by norm_num
theorem prime_3727 : Nat.Prime 3727 := by norm_num
theorem prime_3797 : Nat.Prime 3797 := by norm_num
theorem prime_4153 : Nat.Prime 4153 := by norm_num
theorem prime_5879 : Nat.Prime 5879 := by norm_num
theorem prime_9463 : Nat.Prime 9463 := by norm_num
theorem prime_17231 : Nat.Prime 17231 := by norm_num
theorem prime_22111 : Nat.Prime 22111 := by norm_num
theorem prime_30703 : Nat.Prime 30703 := by norm_num
theorem prime_32573 : Nat.Prime 32573 := by norm_num
theorem prime_34123 : Nat.Prime 34123 := by norm_num
theorem prime_37853 : Nat.Prime 37853 := by norm_num
theorem prime_41081 : Nat.Prime 41081 := by norm_num
theorem prime_57467 : Nat.Prime 57467 := by norm_num
theorem prime_65147 : Nat.Prime 65147 := by norm_num
theorem prime_75707 : Nat.Prime 75707 := by norm_num
theorem prime_82163 : Nat.Prime 82163 := by norm_num
theorem prime_132049 : Nat.Prime 132049 := by norm_num
theorem prime_132667 : Nat.Prime 132667 := by norm_num
theorem prime_137849 : Nat.Prime 137849 := by norm_num
theorem prime_409477 : Nat.Prime 409477 := by norm_num
theorem prime_430751 : Nat.Prime 430751 := by norm_num
theorem prime_531581 : Nat.Prime 531581 := by norm_num
theorem prime_569003 : Nat.Prime 569003 := by norm_num
theorem prime_1224481 : Nat.Prime 1224481 := by
  refine lucas_primality 1224481 (13 : ZMod 1224481) (by reduce_mod_char) ?_
  intro q hq hdvd
  have hfac : 1224481 - 1 = ([2, 2, 2, 2, 2, 3, 5, 2551] : List ℕ).prod := by norm_num
  rw [hfac] at hdvd
  have hmem := mem_of_prime_dvd_prod hq _ (by
    intro r hr; simp only [List.mem_cons, List.mem_nil_iff, or_false] at hr
    rcases hr with rfl | rfl | rfl | rfl | rfl | rfl | rfl | rfl
    all_goals first | exact Nat.prime_two | exact Nat.prime_three | exact prime_5 | exact prime_2551) hdvd
  simp only [List.mem_cons, List.mem_nil_iff, or_false] at hmem
  rcases hmem with rfl | rfl | rfl | rfl | rfl | rfl | rfl | rfl
  all_goals (norm_num only; reduce_mod_char; decide)
theorem prime_1923133 : Nat.Prime 1923133 := by
  refine lucas_primality 1923133 (2 : ZMod 1923133) (by reduce_mod_char) ?_
  intro q hq hdvd
  have hfac : 1923133 - 1 = ([2, 2, 3, 43, 3727] : List ℕ).prod := by norm_num
  rw [hfac] at hdvd
  have hmem := mem_of_prime_dvd_prod hq _ (by
    intro r hr; simp only [List.mem_cons, List.mem_nil_iff, or_false] at hr
    rcases hr with rfl | rfl | rfl | rfl | rfl
    all_goals first | exact Nat.prime_two | exact Nat.prime_three | exact prime_43 | exact prime_3727) hdvd
  simp only [List.mem_cons, List.mem_nil_iff, or_false] at hmem
  rcases hmem with rfl | rfl | rfl | rfl | rfl
  all_goals (norm_num only; reduce_mod_char; decide)
theorem prime_8574133 : Nat.Prime 8574133 := by
  refine lucas_primality 8574133 (2 : ZMod 8574133) (by reduce_mod_char) ?_
  intro q hq hdvd
  have hfac : 8574133 - 1 = ([2, 2, 3, 7, 103, 991] : List ℕ).prod := by norm_num
  rw [hfac] at hdvd
  have hmem := mem_of_prime_dvd_prod hq _ (by
    intro r hr; simp only [List.mem_cons, List.mem_nil_iff, or_false] at hr
    rcases hr with rfl | rfl | rfl | rfl | rfl | rfl
    all_goals first | exact Nat.prime_two | exact Nat.prime_three | exact prime_7 | exact prime_103 | exact prime_991) hdvd
  simp only [List.mem_cons, List.mem_nil_iff, or_false] at hmem
  rcases hmem with rfl | rfl | rfl | rfl | rfl | rfl
  all_goals (norm_num only; reduce_mod_char; decide)
theorem prime_14741173 : Nat.Prime 14741173 := by
  refine lucas_primality 14741173 (2 : ZMod 14741173) (by reduce_mod_char) ?_
  intro q hq hdvd
  have hfac : 14741173 - 1 = ([2, 2, 3, 3, 409477] : List ℕ).prod := by norm_num
  rw [hfac] at hdvd
  have hmem := mem_of_prime_dvd_prod hq _ (by
    intro r hr; simp only [List.mem_cons, List.mem_nil_iff, or_false] at hr
    rcases hr with rfl | rfl | rfl | rfl | rfl
    all_goals first | exact Nat.prime_two | exact Nat.prime_three | exact prime_409477) hdvd
  simp only [List.mem_cons, List.mem_nil_iff, or_false] at hmem
  rcases hmem with rfl | rfl | rfl | rfl | rfl
  all_goals (norm_num only; reduce_mod_char; decide)
theorem prime_58964693 : Nat.Prime 58964693 := by
  refine lucas_primality 58964693 (2 : ZMod 58964693) (by reduce_mod_char) ?_
  intro q hq hdvd
  have hfac : 58964693 - 1 = ([2, 2, 14741173] : List ℕ).prod := by norm_num
  rw [hfac] at hdvd
  have hmem := mem_of_prime_dvd_prod hq _ (by
    intro r hr; simp only [List.mem_cons, List.mem_nil_iff, or_false] at hr
    rcases hr with rfl | rfl | rfl
    all_goals first | exact Nat.prime_two | exact Nat.prime_three | exact prime_14741173) hdvd
  simp only [List.mem_cons, List.mem_nil_iff, or_false] at hmem
  rcases hmem with rfl | rfl | rfl
  all_goals (norm_num only; reduce_mod_char; decide)
theorem prime_292386187 : Nat.Prime 292386187 := by
  refine lucas_primality 292386187 (2 : ZMod 292386187) (by reduce_mod_char) ?_
  intro q hq hdvd
  have hfac : 292386187 - 1 = ([2, 3, 3, 3, 3, 307, 5879] : List ℕ).prod := by norm_num
  rw [hfac] at hdvd
  have hmem := mem_of_prime_dvd_prod hq _ (by
    intro r hr; simp only [List.mem_cons, List.mem_nil_iff, or_false] at hr
    rcases hr with rfl | rfl | rfl | rfl | rfl | rfl | rfl
    all_goals first | exact Nat.prime_two | exact Nat.prime_three | exact prime_307 | exact prime_5879) hdvd
  simp only [List.mem_cons, List.mem_nil_iff, or_false] at hmem
  rcases hmem with rfl | rfl | rfl | rfl | rfl | rfl | rfl
  all_goals (norm_num only; reduce_mod_char; decide)
theorem prime_2773320623 : Nat.Prime 2773320623 := by
  refine lucas_primality 2773320623 (5 : ZMod 2773320623) (by reduce_mod_char) ?_
  intro q hq hdvd
  have hfac : 2773320623 - 1 = ([2, 2437, 569003] : List ℕ).prod := by norm_num
  rw [hfac] at hdvd
  have hmem := mem_of_prime_dvd_prod hq _ (by
    intro r hr; simp only [List.mem_cons, List.mem_nil_iff, or_false] at hr
    rcases hr with rfl | rfl | rfl
    all_goals first | exact Nat.prime_two | exact Nat.prime_three | exact prime_2437 | exact prime_569003) hdvd
  simp only [List.mem_cons, List.mem_nil_iff, or_false] at hmem
  rcases hmem with rfl | rfl | rfl
  all_goals (norm_num only; reduce_mod_char; decide)
theorem prime_72106336199 : Nat.Prime 72106336199 := by
  refine lucas_primality 72106336199 (7 : ZMod 72106336199) (by reduce_mod_char) ?_
  intro q hq hdvd
  have hfac : 72106336199 - 1 = ([2, 13, 2773320623] : List ℕ).prod := by norm_num
  rw [hfac] at hdvd
  have hmem := mem_of_prime_dvd_prod hq _ (by
    intro r hr; simp only [List.mem_cons, List.mem_nil_iff, or_false] at hr
    rcases hr with rfl | rfl | rfl
    all_goals first | exact Nat.prime_two | exact Nat.prime_three | exact prime_13 | exact prime_2773320623) hdvd
  simp only [List.mem_cons, List.mem_nil_iff, or_false] at hmem
  rcases hmem with rfl | rfl | rfl
  all_goals (norm_num only; reduce_mod_char; decide)
theorem prime_213441916511 : Nat.Prime 213441916511 := by
  refine lucas_primality 213441916511 (13 : ZMod 213441916511) (by reduce_mod_char) ?_
  intro q hq hdvd
  have hfac : 213441916511 - 1 = ([2, 5, 73, 292386187] : List ℕ).prod := by norm_num
  rw [hfac] at hdvd
  have hmem := mem_of_prime_dvd_prod hq _ (by
    intro r hr; simp only [List.mem_cons, List.mem_nil_iff, or_false] at hr
    rcases hr with rfl | rfl | rfl | rfl
    all_goals first | exact Nat.prime_two | exact Nat.prime_three | exact prime_5 | exact prime_73 | exact prime_292386187) hdvd
  simp only [List.mem_cons, List.mem_nil_iff, or_false] at hmem
  rcases hmem with rfl | rfl | rfl | rfl
  all_goals (norm_num only; reduce_mod_char; decide)
theorem prime_1257559732178653 : Nat.Prime 1257559732178653 := by
  refine lucas_primality 1257559732178653 (2 : ZMod 1257559732178653) (by reduce_mod_char) ?_
  intro q hq hdvd
  have hfac : 1257559732178653 - 1 = ([2, 2, 3, 7, 23, 531581, 1224481] : List ℕ).prod := by norm_num
  rw [hfac] at hdvd
  have hmem := mem_of_prime_dvd_prod hq _ (by
    intro r hr; simp only [List.mem_cons, List.mem_nil_iff, or_false] at hr
    rcases hr with rfl | rfl | rfl | rfl | rfl | rfl | rfl
    all_goals first | exact Nat.prime_two | exact Nat.prime_three | exact prime_7 | exact prime_23 | exact prime_531581 | exact prime_1224481) hdvd
  simp only [List.mem_cons, List.mem_nil_iff, or_false] at hmem
  rcases hmem with rfl | rfl | rfl | rfl | rfl | rfl | rfl
  all_goals (norm_num only; reduce_mod_char; decide)
theorem prime_1919519569386763 : Nat.Prime 1919519569386763 := by
  refine lucas_primality 1919519569386763 (2 : ZMod 1919519569386763) (by reduce_mod_char) ?_
  intro q hq hdvd
  have hfac : 1919519569386763 - 1 = ([2, 3, 7, 19, 47, 47, 127, 8574133] : List ℕ).prod := by norm_num
  rw [hfac] at hdvd
  have hmem := mem_of_prime_dvd_prod hq _ (by
    intro r hr; simp only [List.mem_cons, List.mem_nil_iff, or_false] at hr
    rcases hr with rfl | rfl | rfl | rfl | rfl | rfl | rfl | rfl
    all_goals first | exact Nat.prime_two | exact Nat.prime_three | exact prime_7 | exact prime_19 | exact prime_47 | exact prime_127 | exact prime_8574133) hdvd
  simp only [List.mem_cons, List.mem_nil_iff, or_false] at hmem
  rcases hmem with rfl | rfl | rfl | rfl | rfl | rfl | rfl | rfl
  all_goals (norm_num only; reduce_mod_char; decide)
theorem prime_31757755568855353 : Nat.Prime 31757755568855353 := by
  refine lucas_primality 31757755568855353 (10 : ZMod 31757755568855353) (by reduce_mod_char) ?_
  intro q hq hdvd
  have hfac : 31757755568855353 - 1 = ([2, 2, 2, 3, 31, 107, 223, 4153, 430751] : List ℕ).prod := by norm_num
  rw [hfac] at hdvd
  have hmem := mem_of_prime_dvd_prod hq _ (by
    intro r hr; simp only [List.mem_cons, List.mem_nil_iff, or_false] at hr
    rcases hr with rfl | rfl | rfl | rfl | rfl | rfl | rfl | rfl | rfl
    all_goals first | exact Nat.prime_two | exact Nat.prime_three | exact prime_31 | exact prime_107 | exact prime_223 | exact prime_4153 | exact prime_430751) hdvd
  simp only [List.mem_cons, List.mem_nil_iff, or_false] at hmem
  rcases hmem with rfl | rfl | rfl | rfl | rfl | rfl | rfl | rfl | rfl
  all_goals (norm_num only; reduce_mod_char; decide)
theorem prime_4434155615661930479 : Nat.Prime 4434155615661930479 := by
  refine lucas_primality 4434155615661930479 (17 : ZMod 4434155615661930479) (by reduce_mod_char) ?_
  intro q hq hdvd
  have hfac : 4434155615661930479 - 1 = ([2, 41, 43, 1257559732178653] : List ℕ).prod := by norm_num
  rw [hfac] at hdvd
  have hmem := mem_of_prime_dvd_prod hq _ (by
    intro r hr; simp only [List.mem_cons, List.mem_nil_iff, or_false] at hr
    rcases hr with rfl | rfl | rfl | rfl
    all_goals first | exact Nat.prime_two | exact Nat.prime_three | exact prime_41 | exact prime_43 | exact prime_1257559732178653) hdvd
  simp only [List.mem_cons, List.mem_nil_iff, or_false] at hmem
  rcases hmem with rfl | rfl | rfl | rfl
  all_goals (norm_num only; reduce_mod_char; decide)
theorem prime_3044861653679985063343 : Nat.Prime 3044861653679985063343 := by
  refine lucas_primality 3044861653679985063343 (5 : ZMod 3044861653679985063343) (by reduce_mod_char) ?_
  intro q hq hdvd
  have hfac : 3044861653679985063343 - 1 = ([2, 3, 11, 30703, 82163, 132667, 137849] : List ℕ).prod := by norm_num
  rw [hfac] at hdvd
  have hmem := mem_of_prime_dvd_prod hq _ (by
    intro r hr; simp only [List.mem_cons, List.mem_nil_iff, or_false] at hr
    rcases hr with rfl | rfl | rfl | rfl | rfl | rfl | rfl
    all_goals first | exact Nat.prime_two | exact Nat.prime_three | exact prime_11 | exact prime_30703 | exact prime_82163 | exact prime_132667 | exact prime_137849) hdvd
  simp only [List.mem_cons, List.mem_nil_iff, or_false] at hmem
  rcases hmem with rfl | rfl | rfl | rfl | rfl | rfl | rfl
  all_goals (norm_num only; reduce_mod_char; decide)
theorem prime_172054593956031949258510691 : Nat.Prime 172054593956031949258510691 := by
  refine lucas_primality 172054593956031949258510691 (2 : ZMod 172054593956031949258510691) (by reduce_mod_char) ?_
  intro q hq hdvd
  have hfac : 172054593956031949258510691 - 1 = ([2, 5, 1361, 2851, 4434155615661930479] : List ℕ).prod := by norm_num
  rw [hfac] at hdvd
  have hmem := mem_of_prime_dvd_prod hq _ (by
    intro r hr; simp only [List.mem_cons, List.mem_nil_iff, or_false] at hr
    rcases hr with rfl | rfl | rfl | rfl | rfl
    all_goals first | exact Nat.prime_two | exact Nat.prime_three | exact prime_5 | exact prime_1361 | exact prime_2851 | exact prime_4434155615661930479) hdvd
  simp only [List.mem_cons, List.mem_nil_iff, or_false] at hmem
  rcases hmem with rfl | rfl | rfl | rfl | rfl
  all_goals (norm_num only; reduce_mod_char; decide)
theorem prime_198211423230930754013084525763697 : Nat.Prime 198211423230930754013084525763697 := by
  refine lucas_primality 198211423230930754013084525763697 (5 : ZMod 198211423230930754013084525763697) (by reduce_mod_char) ?_
  intro q hq hdvd
  have hfac : 198211423230930754013084525763697 - 1 = ([2, 2, 2, 2, 3, 23, 58964693, 3044861653679985063343] : List ℕ).prod := by norm_num
  rw [hfac] at hdvd
  have hmem := mem_of_prime_dvd_prod hq _ (by
    intro r hr; simp only [List.mem_cons, List.mem_nil_iff, or_false] at hr
    rcases hr with rfl | rfl | rfl | rfl | rfl | rfl | rfl | rfl
    all_goals first | exact Nat.prime_two | exact Nat.prime_three | exact prime_23 | exact prime_58964693 | exact prime_3044861653679985063343) hdvd
  simp only [List.mem_cons, List.mem_nil_iff, or_false] at hmem
  rcases hmem with rfl | rfl | rfl | rfl | rfl | rfl | rfl | rfl
  all_goals (norm_num only; reduce_mod_char; decide)
theorem prime_75445702479781427272750846543864801 : Nat.Prime 75445702479781427272750846543864801 := by
  refine lucas_primality 75445702479781427272750846543864801 (7 : ZMod 75445702479781427272750846543864801) (by reduce_mod_char) ?_
  intro q hq hdvd
  have hfac : 75445702479781427272750846543864801 - 1 = ([2, 2, 2, 2, 2, 3, 3, 5, 5, 75707, 72106336199, 1919519569386763] : List ℕ).prod := by norm_num
  rw [hfac] at hdvd
  have hmem := mem_of_prime_dvd_prod hq _ (by
    intro r hr; simp only [List.mem_cons, List.mem_nil_iff, or_false] at hr
    rcases hr with rfl | rfl | rfl | rfl | rfl | rfl | rfl | rfl | rfl | rfl | rfl | rfl
    all_goals first | exact Nat.prime_two | exact Nat.prime_three | exact prime_5 | exact prime_75707 | exact prime_72106336199 | exact prime_1919519569386763) hdvd
  simp only [List.mem_cons, List.mem_nil_iff, or_false] at hmem
  rcases hmem with rfl | rfl | rfl | rfl | rfl | rfl | rfl | rfl | rfl | rfl | rfl | rfl
  all_goals (norm_num only; reduce_mod_char; decide)
theorem prime_19757330305831588566944191468367130476339 : Nat.Prime 19757330305831588566944191468367130476339 := by
  refine lucas_primality 19757330305831588566944191468367130476339 (2 : ZMod 19757330305831588566944191468367130476339) (by reduce_mod_char) ?_
  intro q hq hdvd
  have hfac : 19757330305831588566944191468367130476339 - 1 = ([2, 269, 213441916511, 172054593956031949258510691] : List ℕ).prod := by norm_num
  rw [hfac] at hdvd
  have hmem := mem_of_prime_dvd_prod hq _ (by
    intro r hr; simp only [List.mem_cons, List.mem_nil_iff, or_false] at hr
    rcases hr with rfl | rfl | rfl | rfl
    all_goals first | exact Nat.prime_two | exact Nat.prime_three | exact prime_269 | exact prime_213441916511 | exact prime_172054593956031949258510691) hdvd
  simp only [List.mem_cons, List.mem_nil_iff, or_false] at hmem
  rcases hmem with rfl | rfl | rfl | rfl
  all_goals (norm_num only; reduce_mod_char; decide)
theorem prime_276602624281642239937218680557139826668747 : Nat.Prime 276602624281642239937218680557139826668747 := by
  refine lucas_primality 276602624281642239937218680557139826668747 (2 : ZMod 276602624281642239937218680557139826668747) (by reduce_mod_char) ?_
  intro q hq hdvd
  have hfac : 276602624281642239937218680557139826668747 - 1 = ([2, 7, 19757330305831588566944191468367130476339] : List ℕ).prod := by norm_num
  rw [hfac] at hdvd
  have hmem := mem_of_prime_dvd_prod hq _ (by
    intro r hr; simp only [List.mem_cons, List.mem_nil_iff, or_false] at hr
    rcases hr with rfl | rfl | rfl
    all_goals first | exact Nat.prime_two | exact Nat.prime_three | exact prime_7 | exact prime_19757330305831588566944191468367130476339) hdvd
  simp only [List.mem_cons, List.mem_nil_iff, or_false] at hmem
  rcases hmem with rfl | rfl | rfl
  all_goals (norm_num only; reduce_mod_char; decide)
theorem prime_74058212732561358302231226437062788676166966415465897661863160754340907 : Nat.Prime 74058212732561358302231226437062788676166966415465897661863160754340907 := by
  refine lucas_primality 74058212732561358302231226437062788676166966415465897661863160754340907 (2 : ZMod 74058212732561358302231226437062788676166966415465897661863160754340907) (by reduce_mod_char) ?_
  intro q hq hdvd
  have hfac : 74058212732561358302231226437062788676166966415465897661863160754340907 - 1 = ([2, 3, 353, 57467, 132049, 1923133, 31757755568855353, 75445702479781427272750846543864801] : List ℕ).prod := by norm_num
  rw [hfac] at hdvd
  have hmem := mem_of_prime_dvd_prod hq _ (by
    intro r hr; simp only [List.mem_cons, List.mem_nil_iff, or_false] at hr
    rcases hr with rfl | rfl | rfl | rfl | rfl | rfl | rfl | rfl
    all_goals first | exact Nat.prime_two | exact Nat.prime_three | exact prime_353 | exact prime_57467 | exact prime_132049 | exact prime_1923133 | exact prime_31757755568855353 | exact prime_75445702479781427272750846543864801) hdvd
  simp only [List.mem_cons, List.mem_nil_iff, or_false] at hmem
  rcases hmem with rfl | rfl | rfl | rfl | rfl | rfl | rfl | rfl
  all_goals (norm_num only; reduce_mod_char; decide)
theorem prime_7237005577332262213973186563042994240857116359379907606001950938285454250989 : Nat.Prime 7237005577332262213973186563042994240857116359379907606001950938285454250989 := by
  refine lucas_primality 7237005577332262213973186563042994240857116359379907606001950938285454250989 (2 : ZMod 7237005577332262213973186563042994240857116359379907606001950938285454250989) (by reduce_mod_char) ?_
  intro q hq hdvd
  have hfac : 7237005577332262213973186563042994240857116359379907606001950938285454250989 - 1 = ([2, 2, 3, 11, 198211423230930754013084525763697, 276602624281642239937218680557139826668747] : List ℕ).prod := by norm_num
  rw [hfac] at hdvd
  have hmem := mem_of_prime_dvd_prod hq _ (by
    intro r hr; simp only [List.mem_cons, List.mem_nil_iff, or_false] at hr
    rcases hr with rfl | rfl | rfl | rfl | rfl | rfl
    all_goals first | exact Nat.prime_two | exact Nat.prime_three | exact prime_11 | exact prime_198211423230930754013084525763697 | exact prime_276602624281642239937218680557139826668747) hdvd
  simp only [List.mem_cons, List.mem_nil_iff, or_false] at hmem
  rcases hmem with rfl | rfl | rfl | rfl | rfl | rfl
  all_goals (norm_num only; reduce_mod_char; decide)
theorem prime_57896044618658097711785492504343953926634992332820282019728792003956564819949 : Nat.Prime 57896044618658097711785492504343953926634992332820282019728792003956564819949 := by
  refine lucas_primality 57896044618658097711785492504343953926634992332820282019728792003956564819949 (2 : ZMod 57896044618658097711785492504343953926634992332820282019728792003956564819949) (by reduce_mod_char) ?_
  intro q hq hdvd
  have hfac : 57896044618658097711785492504343953926634992332820282019728792003956564819949 - 1 = ([2, 2, 3, 65147, 74058212732561358302231226437062788676166966415465897661863160754340907] : List ℕ).prod := by norm_num
  rw [hfac] at hdvd
  have hmem := mem_of_prime_dvd_prod hq _ (by
    intro r hr; simp only [List.mem_cons, List.mem_nil_iff, or_false] at hr
    rcases hr with rfl | rfl | rfl | rfl | rfl
    all_goals first | exact Nat.prime_two | exact Nat.prime_three | exact prime_65147 | exact prime_74058212732561358302231226437062788676166966415465897661863160754340907) hdvd
  simp only [List.mem_cons, List.mem_nil_iff, or_false] at hmem
  rcases hmem with rfl | rfl | rfl | rfl | rfl
  all_goals (norm_num only; reduce_mod_char; decide)
end Pratt

open Voi.Spec

/-- p = 2^255 - 19 is prime (Pratt certificate). -/
theorem p_prime : Nat.Prime (2^255 - 19) := by
  have h : (2^255 - 19 : ℕ) = 57896044618658097711785492504343953926634992332820282019728792003956564819949 := by norm_num
  rw [h]; exact Pratt.prime_57896044618658097711785492504343953926634992332820282019728792003956564819949

/-- the same statement on the Spec constant -/
theorem p_prime' : Nat.Prime Voi.Spec.p := p_prime

/-- the order L of the base point is prime (Pratt certificate). -/
theorem L_prime : Nat.Prime Voi.Spec.L := by
  have h : Voi.Spec.L = 7237005577332262213973186563042994240857116359379907606001950938285454250989 := by decide
  rw [h]; exact Pratt.prime_7237005577332262213973186563042994240857116359379907606001950938285454250989

instance fact_p_prime : Fact (Nat.Prime Voi.Spec.p) := ⟨p_prime'⟩
instance fact_L_prime : Fact (Nat.Prime Voi.Spec.L) := ⟨L_prime⟩

/-- `ZMod p` is a field (instance found through `fact_p_prime`). -/
example : Field (ZMod Voi.Spec.p) := inferInstance

end Voi.Proofs

#print axioms Voi.Proofs.p_prime
#print axioms Voi.Proofs.L_prime

