/-
C03 foundation: edwards25519 is a complete a = -1 twisted Edwards curve, hence its points form a
commutative group.

K = ZMod p, p = 2^255 - 19 (prime: `Voi.Proofs.p_prime`), d = -121665/121666, i = 2^((p-1)/4).
* `sqrtM1_sq`      : i² = -1                      (so -1 is a square; p ≡ 1 mod 4)
* `d25519_nonsq`   : d is NOT a square            (Euler: d^((p-1)/2) = -1 ≠ 1)
* `c25519 : EdCurve (ZMod p)` and `Ed25519 := EdPoint c25519` with `AddCommGroup Ed25519`.
The 255-bit modular powers are evaluated by `reduce_mod_char` (kernel-checked, no `native_decide`).

Mathlib is used here; this module must not be imported by Voi/Drv/* or Main.lean.
-/
import Mathlib.Data.ZMod.Basic
import Mathlib.FieldTheory.Finite.Basic
import Mathlib.Tactic.ReduceModChar
import Voi.Proofs.Primes
import Voi.Proofs.EdwardsCurve
namespace Voi.Proofs
open Voi.Spec

theorem p_eq : p = 57896044618658097711785492504343953926634992332820282019728792003956564819949 := by
  decide

/-! ### numeric facts, stated for `ZMod n` with `n` a variable equal to the literal so that only the
`CommRing` structure of `ZMod n` is involved -/
section numeric
variable (n : ℕ)
  (hn : n = 57896044618658097711785492504343953926634992332820282019728792003956564819949)
include hn

theorem num_two_pow_half : (2 : ZMod n) ^ ((n - 1) / 2) = -1 := by
  subst hn; reduce_mod_char

theorem num_121666_pow_half : (121666 : ZMod n) ^ ((n - 1) / 2) = 1 := by
  subst hn; reduce_mod_char

theorem num_neg121665_pow_half : (-121665 : ZMod n) ^ ((n - 1) / 2) = -1 := by
  subst hn; reduce_mod_char

theorem num_two_ne : (2 : ZMod n) ≠ 0 := by
  subst hn; reduce_mod_char; decide

theorem num_121666_ne : (121666 : ZMod n) ≠ 0 := by
  subst hn; reduce_mod_char; decide

theorem num_121665_ne : (121665 : ZMod n) ≠ 0 := by
  subst hn; reduce_mod_char; decide

end numeric

/-- the field of edwards25519 -/
abbrev F25519 := ZMod p

/-- i = 2^((p-1)/4), the constant `Voi.Spec.Fp.sqrtM1` -/
def sqrtM1 : F25519 := 2 ^ ((p - 1) / 4)

/-- curve constant d = -121665/121666 -/
def d25519 : F25519 := -121665 / 121666

theorem two_ne_zero25519 : (2 : F25519) ≠ 0 := num_two_ne p p_eq

/-- -1 is a square in F_p: i² = -1. -/
theorem sqrtM1_sq : sqrtM1 ^ 2 = -1 := by
  unfold sqrtM1
  rw [← pow_mul]
  have h : (p - 1) / 4 * 2 = (p - 1) / 2 := by decide
  rw [h]
  exact num_two_pow_half p p_eq

theorem neg_one_isSquare : IsSquare (-1 : F25519) := ⟨sqrtM1, by rw [← sqrtM1_sq, sq]⟩

theorem d25519_mul : d25519 * 121666 = -121665 := by
  unfold d25519
  exact div_mul_cancel₀ _ (num_121666_ne p p_eq)

theorem d25519_ne_zero : d25519 ≠ 0 := by
  intro h
  have := d25519_mul
  rw [h, zero_mul] at this
  exact num_121665_ne p p_eq (neg_eq_zero.mp this.symm)

/-- Euler's criterion value: d^((p-1)/2) = -1 -/
theorem d25519_pow_half : d25519 ^ ((p - 1) / 2) = -1 := by
  have h := congrArg (· ^ ((p - 1) / 2)) d25519_mul
  simp only [mul_pow] at h
  rw [num_121666_pow_half p p_eq, num_neg121665_pow_half p p_eq, mul_one] at h
  exact h

/-- d is not a square in F_p -/
theorem d25519_nonsq : ¬ IsSquare d25519 := by
  rintro ⟨r, hr⟩
  have hr0 : r ≠ 0 := by
    rintro rfl; exact d25519_ne_zero (by rw [hr, mul_zero])
  have h1 : r ^ (p - 1) = 1 := ZMod.pow_card_sub_one_eq_one hr0
  have h2 : d25519 ^ ((p - 1) / 2) = 1 := by
    rw [hr, ← sq, ← pow_mul]
    have : 2 * ((p - 1) / 2) = p - 1 := by decide
    rw [this, h1]
  rw [d25519_pow_half] at h2
  -- -1 = 1 contradicts 2 ≠ 0
  apply two_ne_zero25519
  linear_combination -h2

/-- edwards25519 as a complete twisted Edwards curve -/
def c25519 : EdCurve F25519 where
  d := d25519
  i := sqrtM1
  i_sq := sqrtM1_sq
  d_nonsq := d25519_nonsq
  two_ne := two_ne_zero25519

/-- the group of F_p-rational points of edwards25519 (all 8·L of them, not only the prime-order
subgroup) -/
abbrev Ed25519 := EdPoint c25519

/-- The points of edwards25519 form a commutative group under the unified addition law. -/
example : AddCommGroup Ed25519 := inferInstance

/- the hypotheses of `EdCurve` are also satisfiable over a toy field: K = ZMod 13, i = 5, d = 2 -/
section toy
local instance : Fact (Nat.Prime 13) := ⟨by norm_num⟩
example : EdCurve (ZMod 13) := ⟨2, 5, by decide, by decide, by decide⟩
end toy

end Voi.Proofs

#print axioms Voi.Proofs.sqrtM1_sq
#print axioms Voi.Proofs.d25519_nonsq
#print axioms Voi.Proofs.c25519
