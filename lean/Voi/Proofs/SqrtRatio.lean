/-
C04 (square-root-ratio clause), used by C10 / C11.

The contract of the executable Spec `Fp.sqrtRatioM1 u v : Bool × Nat` (RFC 9496 §4.2 SQRT_RATIO_M1;
the function the Go routine `field.SqrtRatioI` is compared with on every run by stream F2) for ALL
naturals `u v` (any size; the function reduces mod p).  With `(ok, r) := sqrtRatioM1 u v`,
`û = toZ u`, `v̂ = toZ v` the images in `ZMod p` and `i = toZ Fp.sqrtM1` (`i² = −1`):

* `r < p` and `r` is non-negative (`Fp.isNeg r = false`);
* `û = 0 → ok = true ∧ r = 0`;   `û ≠ 0 → v̂ = 0 → ok = false ∧ r = 0`;
* `û ≠ 0 → v̂ ≠ 0 →` `(ok = true ↔ IsSquare (û / v̂))`, `ok = true → v̂ r̂² = û`,
  `ok = false → v̂ r̂² = i û`;
* `r` is the *unique* non-negative reduced root (`sqrtRatioM1_unique`).

Primality of p is the instance `Voi.Proofs.fact_p_prime` (Pratt certificate, Voi/Proofs/Primes.lean);
no hypothesis is left open.
Mathlib is used here; this module must not be imported by Voi/Drv/* or Main.lean.
-/
import Mathlib.FieldTheory.Finite.Basic
import Mathlib.Tactic.Ring
import Mathlib.Tactic.LinearCombination
import Voi.Props.C07.FpRing
import Voi.Proofs.Primes
namespace Voi.Proofs.SqrtRatio
open Voi Voi.Spec
open Voi.Props.C07 hiding toZ
/-- Mathlib has a root-level `toZ` (order theory); here `toZ` always means the cast ℕ → ZMod p -/
local notation "toZ" => Voi.Props.C07.toZ

/-! ### numeric facts about p and √−1 (kernel computation, no primality) -/

theorem p_mod8 : p % 8 = 5 := by decide +kernel
theorem p_odd : p % 2 = 1 := by decide +kernel
theorem exp_rel : 2 * ((p - 5) / 8) + 1 = (p - 1) / 4 := by decide +kernel
theorem four_mul_exp : 4 * ((p - 1) / 4) = p - 1 := by decide +kernel
/-- `(p-1)/4` is odd -/
theorem quarter_odd : (p - 1) / 4 = 2 * ((p - 5) / 8) + 1 := exp_rel.symm

theorem sqrtM1_val : Fp.sqrtM1 =
    19681161376707505956807079304988542015446066515923890162744021073123829784752 := by
  decide +kernel
theorem sqrtM1_lt : Fp.sqrtM1 < p := by decide +kernel
theorem sqrtM1_nonneg : Fp.isNeg Fp.sqrtM1 = false := by decide +kernel
theorem sqrtM1_sq_nat : Fp.sqrtM1 * Fp.sqrtM1 % p = p - 1 := by decide +kernel

/-- the image of a natural in `ZMod p` (definitionally the cast) -/
theorem toZ_eq_cast (a : Nat) : toZ a = (a : ZMod p) := rfl

theorem toZ_eq_zero_iff (a : Nat) : toZ a = 0 ↔ a % p = 0 := by
  unfold Voi.Props.C07.toZ
  rw [ZMod.natCast_eq_zero_iff, Nat.dvd_iff_mod_eq_zero]

theorem eq_zero_of_toZ {a : Nat} (ha : a < p) (h : toZ a = 0) : a = 0 :=
  toZ_inj ha p_pos (h.trans toZ_zero.symm)

/-- `i := toZ sqrtM1` -/
noncomputable def I : ZMod p := toZ Fp.sqrtM1

theorem I_mul_I : I * I = -1 := by
  unfold I
  have h : toZ (Fp.sqrtM1 * Fp.sqrtM1 % p) = toZ (p - 1) := by rw [sqrtM1_sq_nat]
  rw [toZ_mod] at h
  have h2 : toZ (Fp.sqrtM1 * Fp.sqrtM1) = toZ Fp.sqrtM1 * toZ Fp.sqrtM1 := Nat.cast_mul _ _
  rw [h2] at h
  rw [h]
  unfold Voi.Props.C07.toZ
  rw [Nat.cast_sub (by decide : 1 ≤ p), ZMod.natCast_self]
  simp

theorem I_sq : I ^ 2 = -1 := by rw [pow_two, I_mul_I]

theorem two_ne_zero' : (2 : ZMod p) ≠ 0 := by
  intro h
  have h2 : toZ 2 = 0 := by unfold Voi.Props.C07.toZ; exact_mod_cast h
  have := (toZ_eq_zero_iff 2).1 h2
  revert this
  decide

/-! ### boolean tests on reduced naturals are equalities in `ZMod p` -/

theorem beq_iff {a b : Nat} (ha : a < p) (hb : b < p) : (a == b) = true ↔ toZ a = toZ b := by
  rw [beq_iff_eq]
  exact ⟨fun h => by rw [h], toZ_inj ha hb⟩

theorem neg_lt (a : Nat) : Fp.neg a < p := Nat.mod_lt _ p_pos
theorem mod_lt (a : Nat) : a % p < p := Nat.mod_lt _ p_pos

/-! ### `Fp.abs` -/

theorem abs_lt (a : Nat) : Fp.abs a < p := by
  unfold Fp.abs; split
  · exact neg_lt a
  · exact mod_lt a

theorem abs_nonneg (a : Nat) : Fp.isNeg (Fp.abs a) = false := by
  have hp := p_odd
  have hpos := p_pos
  unfold Fp.abs
  by_cases h : Fp.isNeg a = true
  · rw [if_pos h]
    unfold Fp.isNeg at h ⊢
    unfold Fp.neg
    have h1 : a % p % 2 = 1 := by simpa using h
    have h2 : a % p < p := mod_lt a
    generalize a % p = m at h1 h2
    generalize p = q at *
    have h3 : (q - m) % q = q - m := Nat.mod_eq_of_lt (by omega)
    rw [Nat.mod_mod, h3]
    simp only [decide_eq_false_iff_not]
    omega
  · rw [if_neg h]
    unfold Fp.isNeg at h ⊢
    rw [Nat.mod_mod]
    simpa using h

theorem toZ_abs (a : Nat) : toZ (Fp.abs a) = toZ a ∨ toZ (Fp.abs a) = - toZ a := by
  unfold Fp.abs; split
  · right; exact toZ_neg a
  · left; exact toZ_mod a

theorem toZ_abs_sq (a : Nat) : toZ (Fp.abs a) ^ 2 = toZ a ^ 2 := by
  rcases toZ_abs a with h | h <;> rw [h]
  ring

/-- a reduced non-negative value is fixed by `abs` -/
theorem abs_of_nonneg {a : Nat} (ha : a < p) (hn : Fp.isNeg a = false) : Fp.abs a = a := by
  unfold Fp.abs; rw [hn]; simp [Nat.mod_eq_of_lt ha]

theorem neg_parity {q a b : Nat} (hq : q % 2 = 1) (hb : b < q) (na : ¬ a % 2 = 1)
    (nb : ¬ b % 2 = 1) (h : a = (q - b) % q) : a = b := by
  by_cases hb0 : b = 0
  · subst hb0; rw [Nat.sub_zero, Nat.mod_self] at h; exact h
  · rw [Nat.mod_eq_of_lt (by omega)] at h
    omega

/-- two reduced non-negative values with the same square are equal (needs only `p` odd and
`ZMod p` having no zero divisors, i.e. primality) -/
theorem nonneg_root_unique {a b : Nat} (ha : a < p) (hb : b < p)
    (na : Fp.isNeg a = false) (nb : Fp.isNeg b = false) (h : toZ a ^ 2 = toZ b ^ 2) : a = b := by
  have hf : (toZ a - toZ b) * (toZ a + toZ b) = 0 := by linear_combination h
  rcases mul_eq_zero.1 hf with h1 | h1
  · exact toZ_inj ha hb (sub_eq_zero.1 h1)
  · -- a = -b, so a = p - b unless both are 0; parities then differ
    have h2 : toZ a = toZ (Fp.neg b) := by rw [toZ_neg]; linear_combination h1
    have h3 : a = Fp.neg b := toZ_inj ha (neg_lt b) h2
    unfold Fp.isNeg at na nb
    have na' : ¬ a % p % 2 = 1 := by simpa using na
    have nb' : ¬ b % p % 2 = 1 := by simpa using nb
    rw [Nat.mod_eq_of_lt ha] at na'
    rw [Nat.mod_eq_of_lt hb] at nb'
    unfold Fp.neg at h3
    rw [Nat.mod_eq_of_lt hb] at h3
    exact neg_parity p_odd hb na' nb' h3

/-! ### the candidate root -/

/-- `r0 = u v³ (u v⁷)^((p−5)/8)` as computed by the Spec -/
def r0 (u v : Nat) : Nat :=
  Fp.mul (Fp.mul u (Fp.mul (Fp.sq v) v))
    (Fp.pow (Fp.mul u (Fp.mul (Fp.sq (Fp.mul (Fp.sq v) v)) v)) ((p - 5) / 8))

/-- `check = v r0²` -/
def check (u v : Nat) : Nat := Fp.mul v (Fp.sq (r0 u v))

theorem sqrtRatioM1_unfold (u v : Nat) :
    Fp.sqrtRatioM1 u v =
      ((check u v == u % p) || (check u v == Fp.neg (u % p)),
       Fp.abs (if (check u v == Fp.neg (u % p)) ||
                  (check u v == Fp.mul (Fp.neg (u % p)) Fp.sqrtM1)
               then Fp.mul (r0 u v) Fp.sqrtM1 else r0 u v)) := rfl

theorem r0_lt (u v : Nat) : r0 u v < p := mul_lt _ _
theorem check_lt (u v : Nat) : check u v < p := mul_lt _ _

theorem toZ_r0 (u v : Nat) :
    toZ (r0 u v) = toZ u * toZ v ^ 3 * (toZ u * toZ v ^ 7) ^ ((p - 5) / 8) := by
  unfold r0
  rw [toZ_mul, toZ_mul, toZ_mul, toZ_sq, toZ_pow _ _ (by decide +kernel), toZ_mul, toZ_mul, toZ_sq,
    toZ_mul, toZ_sq]
  generalize (p - 5) / 8 = k
  ring

theorem toZ_check (u v : Nat) :
    toZ (check u v) = toZ u * (toZ u * toZ v ^ 7) ^ ((p - 1) / 4) := by
  unfold check
  rw [toZ_mul, toZ_sq, toZ_r0, ← exp_rel]
  generalize (p - 5) / 8 = k
  ring

theorem toZ_check' (u v : Nat) : toZ (check u v) = toZ v * toZ (r0 u v) ^ 2 := by
  unfold check
  rw [toZ_mul, toZ_sq]; ring

section Field

theorem I_ne_zero : I ≠ 0 := by
  intro h
  have := I_mul_I
  rw [h, mul_zero] at this
  exact one_ne_zero (neg_eq_zero.1 this.symm)

theorem one_ne_neg_one : (1 : ZMod p) ≠ -1 := by
  intro h
  apply two_ne_zero'
  linear_combination h

theorem I_ne_one : I ≠ 1 := by
  intro h
  have := I_mul_I
  rw [h, mul_one] at this
  exact one_ne_neg_one this

theorem I_ne_neg_one : I ≠ -1 := by
  intro h
  have := I_mul_I
  rw [h] at this
  apply one_ne_neg_one
  linear_combination this

theorem I_ne_neg_I : I ≠ -I := by
  intro h
  have h2 : (2 : ZMod p) * I = 0 := by linear_combination h
  rcases mul_eq_zero.1 h2 with h3 | h3
  · exact two_ne_zero' h3
  · exact I_ne_zero h3

/-- the four fourth roots of unity -/
theorem fourth_root_cases {t : ZMod p} (h : t ^ 4 = 1) : t = 1 ∨ t = -1 ∨ t = I ∨ t = -I := by
  have hf : (t - 1) * ((t + 1) * ((t - I) * (t + I))) = 0 := by
    linear_combination h + (t ^ 2 - 1) * (-1 : ZMod p) * I_mul_I
  rcases mul_eq_zero.1 hf with h1 | h1
  · left; exact sub_eq_zero.1 h1
  rcases mul_eq_zero.1 h1 with h2 | h2
  · right; left; exact eq_neg_of_add_eq_zero_left h2
  rcases mul_eq_zero.1 h2 with h3 | h3
  · right; right; left; exact sub_eq_zero.1 h3
  · right; right; right; exact eq_neg_of_add_eq_zero_left h3

/-- `i` is not a square in `ZMod p` (because `(p−1)/4` is odd, i.e. p ≡ 5 mod 8) -/
theorem I_not_square : ¬ IsSquare I := by
  rintro ⟨c, hc⟩
  have hc0 : c ≠ 0 := by
    rintro rfl
    rw [mul_zero] at hc
    exact I_ne_zero hc
  have hfer : c ^ (p - 1) = 1 := ZMod.pow_card_sub_one_eq_one hc0
  have h4 : c ^ 4 = -1 := by
    have : c ^ 4 = (c * c) * (c * c) := by ring
    rw [this, ← hc, I_mul_I]
  rw [← four_mul_exp, pow_mul, h4, quarter_odd] at hfer
  generalize (p - 5) / 8 = k at hfer
  have : ((-1 : ZMod p)) ^ (2 * k + 1) = -1 := by
    rw [pow_succ, pow_mul]; simp
  rw [this] at hfer
  exact one_ne_neg_one hfer.symm

/-- the quartic character of `w = u v⁷` -/
theorem quartic_cases {u v : Nat} (hu : toZ u ≠ 0) (hv : toZ v ≠ 0) :
    ∃ t : ZMod p, toZ (check u v) = toZ u * t ∧ (t = 1 ∨ t = -1 ∨ t = I ∨ t = -I) := by
  refine ⟨(toZ u * toZ v ^ 7) ^ ((p - 1) / 4), toZ_check u v, fourth_root_cases ?_⟩
  rw [← pow_mul, Nat.mul_comm, four_mul_exp]
  exact ZMod.pow_card_sub_one_eq_one (mul_ne_zero hu (pow_ne_zero _ hv))

/-! ### the three tests, in terms of the quartic character `t` (`check = u t`) -/

theorem correct_iff {u v : Nat} {t : ZMod p} (hu : toZ u ≠ 0) (ht : toZ (check u v) = toZ u * t) :
    (check u v == u % p) = true ↔ t = 1 := by
  rw [beq_iff (check_lt u v) (mod_lt u), toZ_mod, ht]
  constructor
  · intro h
    have : toZ u * (t - 1) = 0 := by linear_combination h
    rcases mul_eq_zero.1 this with h1 | h1
    · exact absurd h1 hu
    · exact sub_eq_zero.1 h1
  · rintro rfl; ring

theorem flipped_iff {u v : Nat} {t : ZMod p} (hu : toZ u ≠ 0) (ht : toZ (check u v) = toZ u * t) :
    (check u v == Fp.neg (u % p)) = true ↔ t = -1 := by
  rw [beq_iff (check_lt u v) (neg_lt _), toZ_neg, toZ_mod, ht]
  constructor
  · intro h
    have : toZ u * (t + 1) = 0 := by linear_combination h
    rcases mul_eq_zero.1 this with h1 | h1
    · exact absurd h1 hu
    · exact eq_neg_of_add_eq_zero_left h1
  · rintro rfl; ring

theorem flippedI_iff {u v : Nat} {t : ZMod p} (hu : toZ u ≠ 0)
    (ht : toZ (check u v) = toZ u * t) :
    (check u v == Fp.mul (Fp.neg (u % p)) Fp.sqrtM1) = true ↔ t = -I := by
  rw [beq_iff (check_lt u v) (mul_lt _ _), toZ_mul, toZ_neg, toZ_mod, ht]
  show toZ u * t = -toZ u * I ↔ t = -I
  constructor
  · intro h
    have : toZ u * (t + I) = 0 := by linear_combination h
    rcases mul_eq_zero.1 this with h1 | h1
    · exact absurd h1 hu
    · exact eq_neg_of_add_eq_zero_left h1
  · rintro rfl; ring

end Field

/-! ### the contract -/

/-- the root is always reduced -/
theorem sqrtRatioM1_lt (u v : Nat) : (Fp.sqrtRatioM1 u v).2 < p := by
  rw [sqrtRatioM1_unfold]; simp only []; exact abs_lt _

/-- the root is always non-negative (even as a reduced representative) -/
theorem sqrtRatioM1_nonneg (u v : Nat) : Fp.isNeg (Fp.sqrtRatioM1 u v).2 = false := by
  rw [sqrtRatioM1_unfold]; simp only []; exact abs_nonneg _

/-- the function only depends on the residues of its arguments -/
theorem sqrtRatioM1_mod (u v : Nat) : Fp.sqrtRatioM1 (u % p) (v % p) = Fp.sqrtRatioM1 u v := by
  have hr : r0 (u % p) (v % p) = r0 u v :=
    toZ_inj (r0_lt _ _) (r0_lt _ _) (by rw [toZ_r0, toZ_r0, toZ_mod, toZ_mod])
  have hc : check (u % p) (v % p) = check u v := by unfold check; rw [hr, Fp.mul, Fp.mul]; simp [Nat.mul_mod]
  rw [sqrtRatioM1_unfold, sqrtRatioM1_unfold, hr, hc, Nat.mod_mod]

section Field

/-- `u ≡ 0`: (true, 0) whatever `v` is -/
theorem sqrtRatioM1_u_zero {u : Nat} (v : Nat) (hu : toZ u = 0) :
    Fp.sqrtRatioM1 u v = (true, 0) := by
  have hr : r0 u v = 0 := eq_zero_of_toZ (r0_lt u v) (by rw [toZ_r0, hu]; ring)
  have hc : check u v = 0 := eq_zero_of_toZ (check_lt u v) (by rw [toZ_check', hr, toZ_zero]; ring)
  have hu' : u % p = 0 := (toZ_eq_zero_iff u).1 hu
  rw [sqrtRatioM1_unfold, hr, hc, hu']
  decide +kernel

/-- `u ≢ 0`, `v ≡ 0`: (false, 0) -/
theorem sqrtRatioM1_v_zero {u v : Nat} (hu : toZ u ≠ 0) (hv : toZ v = 0) :
    Fp.sqrtRatioM1 u v = (false, 0) := by
  have hr : r0 u v = 0 := eq_zero_of_toZ (r0_lt u v) (by rw [toZ_r0, hv]; ring)
  have hc : check u v = 0 := eq_zero_of_toZ (check_lt u v) (by rw [toZ_check', hr, toZ_zero]; ring)
  have ht : toZ (check u v) = toZ u * 0 := by rw [hc, toZ_zero, mul_zero]
  have h1 : ¬ (check u v == u % p) = true := fun h =>
    zero_ne_one ((correct_iff hu ht).1 h)
  have h2 : ¬ (check u v == Fp.neg (u % p)) = true := fun h =>
    one_ne_zero (neg_eq_zero.1 ((flipped_iff hu ht).1 h).symm)
  have h3 : ¬ (check u v == Fp.mul (Fp.neg (u % p)) Fp.sqrtM1) = true := fun h =>
    I_ne_zero (neg_eq_zero.1 ((flippedI_iff hu ht).1 h).symm)
  rw [sqrtRatioM1_unfold]
  rw [Bool.not_eq_true] at h1 h2 h3
  rw [h1, h2, h3, hr]
  decide +kernel

/-- `u, v ≢ 0`, the flag is set: `v r² = u` -/
theorem sqrtRatioM1_ok {u v : Nat} (hu : toZ u ≠ 0) (hv : toZ v ≠ 0)
    (hok : (Fp.sqrtRatioM1 u v).1 = true) :
    toZ v * toZ (Fp.sqrtRatioM1 u v).2 ^ 2 = toZ u := by
  obtain ⟨t, ht, hcases⟩ := quartic_cases hu hv
  have hC := toZ_check' u v
  rw [sqrtRatioM1_unfold] at hok ⊢
  simp only [] at hok ⊢
  rw [toZ_abs_sq]
  rcases hcases with rfl | rfl | rfl | rfl
  · have h2 : (check u v == Fp.neg (u % p)) = false :=
      Bool.not_eq_true _ ▸ fun h => one_ne_neg_one ((flipped_iff hu ht).1 h)
    have h3 : (check u v == Fp.mul (Fp.neg (u % p)) Fp.sqrtM1) = false :=
      Bool.not_eq_true _ ▸ fun h => I_ne_neg_one (neg_eq_iff_eq_neg.1 ((flippedI_iff hu ht).1 h).symm)
    rw [h2, h3]; simp only [Bool.or_self, Bool.false_eq_true, if_false]
    rw [← hC, ht]; ring
  · have h2 : (check u v == Fp.neg (u % p)) = true := (flipped_iff hu ht).2 rfl
    rw [h2]; simp only [Bool.true_or, if_true]
    rw [toZ_mul]
    have : toZ v * (toZ (r0 u v) * toZ Fp.sqrtM1) ^ 2 = (toZ v * toZ (r0 u v) ^ 2) * (I * I) := by
      unfold I; ring
    rw [this, ← hC, ht, I_mul_I]; ring
  · exfalso
    have h1 : ¬ (check u v == u % p) = true := fun h => I_ne_one ((correct_iff hu ht).1 h)
    have h2 : ¬ (check u v == Fp.neg (u % p)) = true := fun h =>
      I_ne_neg_one ((flipped_iff hu ht).1 h)
    rw [Bool.or_eq_true] at hok
    rcases hok with h | h
    · exact h1 h
    · exact h2 h
  · exfalso
    have h1 : ¬ (check u v == u % p) = true := fun h =>
      I_ne_neg_one (neg_eq_iff_eq_neg.1 ((correct_iff hu ht).1 h))
    have h2 : ¬ (check u v == Fp.neg (u % p)) = true := fun h =>
      I_ne_one (neg_injective ((flipped_iff hu ht).1 h))
    rw [Bool.or_eq_true] at hok
    rcases hok with h | h
    · exact h1 h
    · exact h2 h

/-- `u, v ≢ 0`, the flag is clear: `v r² = i u` -/
theorem sqrtRatioM1_not_ok {u v : Nat} (hu : toZ u ≠ 0) (hv : toZ v ≠ 0)
    (hok : (Fp.sqrtRatioM1 u v).1 = false) :
    toZ v * toZ (Fp.sqrtRatioM1 u v).2 ^ 2 = toZ Fp.sqrtM1 * toZ u := by
  obtain ⟨t, ht, hcases⟩ := quartic_cases hu hv
  have hC := toZ_check' u v
  rw [sqrtRatioM1_unfold] at hok ⊢
  simp only [] at hok ⊢
  rw [toZ_abs_sq]
  rw [Bool.or_eq_false_iff] at hok
  obtain ⟨hk1, hk2⟩ := hok
  show _ = I * toZ u
  rcases hcases with rfl | rfl | rfl | rfl
  · exfalso
    rw [(correct_iff hu ht).2 rfl] at hk1
    exact Bool.noConfusion hk1
  · exfalso
    rw [(flipped_iff hu ht).2 rfl] at hk2
    exact Bool.noConfusion hk2
  · have h3 : (check u v == Fp.mul (Fp.neg (u % p)) Fp.sqrtM1) = false :=
      Bool.not_eq_true _ ▸ fun h => I_ne_neg_I ((flippedI_iff hu ht).1 h)
    rw [hk2, h3]; simp only [Bool.or_self, Bool.false_eq_true, if_false]
    rw [← hC, ht]; ring
  · have h3 : (check u v == Fp.mul (Fp.neg (u % p)) Fp.sqrtM1) = true := (flippedI_iff hu ht).2 rfl
    rw [h3]; simp only [Bool.or_true, if_true]
    rw [toZ_mul]
    have : toZ v * (toZ (r0 u v) * toZ Fp.sqrtM1) ^ 2 = (toZ v * toZ (r0 u v) ^ 2) * (I * I) := by
      unfold I; ring
    rw [this, ← hC, ht, I_mul_I]; ring

/-- `u, v ≢ 0`: the flag decides whether `u / v` is a square -/
theorem sqrtRatioM1_ok_iff {u v : Nat} (hu : toZ u ≠ 0) (hv : toZ v ≠ 0) :
    (Fp.sqrtRatioM1 u v).1 = true ↔ IsSquare (toZ u / toZ v) := by
  constructor
  · intro hok
    have h := sqrtRatioM1_ok hu hv hok
    refine ⟨toZ (Fp.sqrtRatioM1 u v).2, ?_⟩
    rw [div_eq_iff hv, ← h]; ring
  · intro hsq
    by_contra hok
    rw [Bool.not_eq_true] at hok
    have h := sqrtRatioM1_not_ok hu hv hok
    obtain ⟨s, hs⟩ := hsq
    rw [div_eq_iff hv] at hs
    -- v r² = i u = i s² v, so i = (r / s)²
    have hs0 : s ≠ 0 := by
      rintro rfl
      apply hu; rw [hs]; ring
    apply I_not_square
    refine ⟨toZ (Fp.sqrtRatioM1 u v).2 / s, ?_⟩
    have h' : toZ v * toZ (Fp.sqrtRatioM1 u v).2 ^ 2 = toZ v * (I * (s * s)) := by
      rw [h, hs]; unfold I; ring
    have h'' := mul_left_cancel₀ hv h'
    rw [div_mul_div_comm, ← pow_two, h'', mul_div_assoc, div_self (mul_ne_zero hs0 hs0), mul_one]

/-- **Contract of SQRT_RATIO_M1** (RFC 9496 §4.2), all cases, for all naturals `u v`. -/
theorem sqrtRatioM1_contract (u v : Nat) :
    (Fp.sqrtRatioM1 u v).2 < p ∧ Fp.isNeg (Fp.sqrtRatioM1 u v).2 = false ∧
    (toZ u = 0 → Fp.sqrtRatioM1 u v = (true, 0)) ∧
    (toZ u ≠ 0 → toZ v = 0 → Fp.sqrtRatioM1 u v = (false, 0)) ∧
    (toZ u ≠ 0 → toZ v ≠ 0 →
      ((Fp.sqrtRatioM1 u v).1 = true ↔ IsSquare (toZ u / toZ v)) ∧
      ((Fp.sqrtRatioM1 u v).1 = true → toZ v * toZ (Fp.sqrtRatioM1 u v).2 ^ 2 = toZ u) ∧
      ((Fp.sqrtRatioM1 u v).1 = false →
        toZ v * toZ (Fp.sqrtRatioM1 u v).2 ^ 2 = toZ Fp.sqrtM1 * toZ u)) :=
  ⟨sqrtRatioM1_lt u v, sqrtRatioM1_nonneg u v, sqrtRatioM1_u_zero v,
   fun hu hv => sqrtRatioM1_v_zero hu hv,
   fun hu hv => ⟨sqrtRatioM1_ok_iff hu hv, sqrtRatioM1_ok hu hv, sqrtRatioM1_not_ok hu hv⟩⟩

/-- the flag in all cases: set iff `u ≡ 0`, or `v ≢ 0` and `u / v` is a square -/
theorem sqrtRatioM1_flag (u v : Nat) :
    (Fp.sqrtRatioM1 u v).1 = true ↔ toZ u = 0 ∨ (toZ v ≠ 0 ∧ IsSquare (toZ u / toZ v)) := by
  by_cases hu : toZ u = 0
  · rw [sqrtRatioM1_u_zero v hu]; simp [hu]
  · by_cases hv : toZ v = 0
    · rw [sqrtRatioM1_v_zero hu hv]; simp [hu, hv]
    · rw [sqrtRatioM1_ok_iff hu hv]; simp [hu, hv]

/-- when the flag is set, `v r² = u` also in the degenerate case `u ≡ 0` -/
theorem sqrtRatioM1_ok' {u v : Nat} (hok : (Fp.sqrtRatioM1 u v).1 = true) :
    toZ v * toZ (Fp.sqrtRatioM1 u v).2 ^ 2 = toZ u := by
  by_cases hu : toZ u = 0
  · rw [sqrtRatioM1_u_zero v hu, hu, toZ_zero]; ring
  · by_cases hv : toZ v = 0
    · rw [sqrtRatioM1_v_zero hu hv] at hok; exact Bool.noConfusion hok
    · exact sqrtRatioM1_ok hu hv hok

/-- **Uniqueness**: any reduced non-negative `x` with `v x² = u` (`v ≢ 0`) is the returned root,
and the flag is set. -/
theorem sqrtRatioM1_unique {u v x : Nat} (hv : toZ v ≠ 0) (hx : x < p)
    (hn : Fp.isNeg x = false) (h : toZ v * toZ x ^ 2 = toZ u) :
    Fp.sqrtRatioM1 u v = (true, x) := by
  have hflag : (Fp.sqrtRatioM1 u v).1 = true := by
    rw [sqrtRatioM1_flag]
    by_cases hu : toZ u = 0
    · left; exact hu
    · right
      refine ⟨hv, toZ x, ?_⟩
      rw [div_eq_iff hv, ← h]; ring
  have hr := sqrtRatioM1_ok' hflag
  have hsq : toZ (Fp.sqrtRatioM1 u v).2 ^ 2 = toZ x ^ 2 :=
    mul_left_cancel₀ hv (hr.trans h.symm)
  have := nonneg_root_unique (sqrtRatioM1_lt u v) hx (sqrtRatioM1_nonneg u v) hn hsq
  exact Prod.ext hflag this

end Field

/-! ### the hypotheses are satisfiable: concrete evaluations (kernel computation) -/

-- u = 0
example : Fp.sqrtRatioM1 0 5 = (true, 0) := by decide +kernel
example : Fp.sqrtRatioM1 p 0 = (true, 0) := by decide +kernel
-- v = 0, u ≠ 0
example : Fp.sqrtRatioM1 7 0 = (false, 0) := by decide +kernel
-- a square ratio: 4 / 1 ↦ 2
example : Fp.sqrtRatioM1 4 1 = (true, 2) := by decide +kernel
-- arguments are reduced: 4 + p over 1 + 2p
example : Fp.sqrtRatioM1 (4 + p) (1 + 2 * p) = (true, 2) := by decide +kernel
-- a non-square ratio: 2 is a non-residue (p ≡ 5 mod 8); then v r² = i u
example : (Fp.sqrtRatioM1 2 1).1 = false ∧
    Fp.mul 1 (Fp.sq (Fp.sqrtRatioM1 2 1).2) = Fp.mul Fp.sqrtM1 2 := by decide +kernel
-- i² = −1 and i is the non-negative root
example : Fp.sq Fp.sqrtM1 = Fp.neg 1 ∧ Fp.isNeg Fp.sqrtM1 = false := by decide +kernel

#print axioms sqrtRatioM1_contract
#print axioms sqrtRatioM1_flag
#print axioms sqrtRatioM1_unique
#print axioms sqrtRatioM1_mod
#print axioms I_not_square

end Voi.Proofs.SqrtRatio
