import re,sys,ast
cert={}
for fn in ('/verif/notes/pratt_p25519.txt','/verif/notes/pratt_L.txt'):
    for line in open(fn):
        m=re.match(r"(\d+) (\d+) (\[.*\]) ",line)
        if m: cert[int(m.group(1))]=(int(m.group(2)),ast.literal_eval(m.group(3)))
order=sorted(cert)  # small first
P=2**255-19; L=2**252+27742317777372353535851937790883648493
assert P in cert and L in cert
out=["""/-
C03 / C01 foundation: primality of p = 2^255 - 19 and of the group order L, by Pratt certificates
(`lucas_primality` + `reduce_mod_char`).  GENERATED (do not edit) by Voi/Proofs/gen_primes.py (= notes/feasibility/gen_pratt.py adapted;
usage: python3 gen_primes.py Voi/Proofs/Primes.lean) from /verif/notes/pratt_p25519.txt and /verif/notes/pratt_L.txt.

Mathlib is used here; this module must not be imported by Voi/Drv/* or Main.lean.
-/
import Mathlib.NumberTheory.LucasPrimality
import Mathlib.Tactic.ReduceModChar
import Mathlib.Tactic.NormNum.Prime
import Mathlib.Algebra.BigOperators.Group.List.Basic
import Voi.Spec.Field
namespace Voi.Proofs
namespace Pratt
""",
"""theorem mem_of_prime_dvd_prod {q : ℕ} (hq : q.Prime) (l : List ℕ) (hl : ∀ r ∈ l, r.Prime) (h : q ∣ l.prod) : q ∈ l := by
  obtain ⟨a, ha, hqa⟩ := (Prime.dvd_prod_iff (Nat.prime_iff.mp hq)).mp h
  have := (Nat.prime_dvd_prime_iff_eq hq (hl a ha)).mp hqa
  exact this ▸ ha
"""]
def pname(n): return f"prime_{n}"
for n in order:
    a,fac=cert[n]
    # sanity: check certificate in python
    prod=1
    for q,e in fac: prod*=q**e
    assert prod==n-1
    assert pow(a,n-1,n)==1
    for q,e in fac: assert pow(a,(n-1)//q,n)!=1
    if n<10**6:
        out.append(f"theorem {pname(n)} : Nat.Prime {n} := by norm_num"); continue
    qs=[q for q,e in fac]
    flat=[q for q,e in fac for _ in range(e)]
    prf=[]
    prf.append(f"theorem {pname(n)} : Nat.Prime {n} := by")
    prf.append(f"  refine lucas_primality {n} ({a} : ZMod {n}) (by reduce_mod_char) ?_")
    prf.append(f"  intro q hq hdvd")
    prf.append(f"  have hfac : {n} - 1 = ({flat} : List ℕ).prod := by norm_num")
    prf.append(f"  rw [hfac] at hdvd")
    prf.append(f"  have hmem := mem_of_prime_dvd_prod hq _ (by")
    prf.append(f"    intro r hr; simp only [List.mem_cons, List.mem_nil_iff, or_false] at hr")
    prf.append(f"    rcases hr with "+" | ".join(["rfl"]*len(flat))+"")
    prf.append(f"    all_goals first | exact Nat.prime_two | exact Nat.prime_three | "+" | ".join(f"exact {pname(q)}" for q in qs if q>3)+") hdvd")
    prf.append(f"  simp only [List.mem_cons, List.mem_nil_iff, or_false] at hmem")
    prf.append(f"  rcases hmem with "+" | ".join(["rfl"]*len(flat)))
    prf.append(f"  all_goals (norm_num only; reduce_mod_char; decide)")
    out.append("\n".join(prf))
out.append("end Pratt")
out.append(f"""
open Voi.Spec

/-- p = 2^255 - 19 is prime (Pratt certificate). -/
theorem p_prime : Nat.Prime (2^255 - 19) := by
  have h : (2^255 - 19 : ℕ) = {P} := by norm_num
  rw [h]; exact Pratt.{pname(P)}

/-- the same statement on the Spec constant -/
theorem p_prime' : Nat.Prime Voi.Spec.p := p_prime

/-- the order L of the base point is prime (Pratt certificate). -/
theorem L_prime : Nat.Prime Voi.Spec.L := by
  have h : Voi.Spec.L = {L} := by decide
  rw [h]; exact Pratt.{pname(L)}

instance fact_p_prime : Fact (Nat.Prime Voi.Spec.p) := ⟨p_prime'⟩
instance fact_L_prime : Fact (Nat.Prime Voi.Spec.L) := ⟨L_prime⟩

/-- `ZMod p` is a field (instance found through `fact_p_prime`). -/
example : Field (ZMod Voi.Spec.p) := inferInstance

end Voi.Proofs

#print axioms Voi.Proofs.p_prime
#print axioms Voi.Proofs.L_prime
""")
open(sys.argv[1],'w').write("\n".join(out)+"\n")
print(len(order),'primes')
