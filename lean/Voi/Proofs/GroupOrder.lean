/-
The ORDER of edwards25519(F_p) is exactly `8·L` — without point counting.

Until now `hExp : ∀ P, (8·L) • P = 0` was an explicit hypothesis of C01 ("no point counting here").  It follows from
what the other developments already prove, by an elementary squeeze:

  * the base point has order exactly `L` (`SpecBridge.addOrderOf_B`), the library's torsion generator `T1` has order
    exactly `8` (`8•T1 = 0`, `4•T1 ≠ 0`, evaluated on the executable Spec by the kernel and transported through the
    bridge); `gcd(8, L) = 1`; so by Lagrange `8·L ∣ #E`;
  * the canonical encoding is an injection of the curve points into 32-byte strings (`C10.encode_injective`), i.e. into
    `[0, 2^256)`; so `#E ≤ 2^256`;
  * `2^256 < 16·L` (because `L > 2^252`).
Hence `0 < #E`, `8L ∣ #E`, `#E < 2·8L`, so `#E = 8L`, and every point is killed by `8L`.

  * `card_Ed25519 : Nat.card Ed25519 = 8 * L`
  * `exp_Ed25519  : ∀ A : Ed25519, (8 * L) • A = 0`
  * `card_CurvePt`, `addOrderOf_T1`, `T1_onCurve`

No `sorry`, no `axiom`, no `native_decide`.  Mathlib is used; this module must not be imported by Voi/Drv/* or Main.lean.
-/
import Mathlib.GroupTheory.OrderOfElement
import Mathlib.SetTheory.Cardinal.Finite
import Voi.Proofs.SpecBridge
import Voi.Props.C10

namespace Voi.Proofs
open Voi Voi.Spec

/-! ### the torsion generator has order exactly 8 -/

theorem T1_onCurve : Pt.T1.onCurve = true := by decide +kernel

/-- the library's order-8 point as a group element -/
def T1pt : Ed25519 := toEd Pt.T1 T1_onCurve

theorem eight_smul_T1 : 8 • T1pt = 0 :=
  (isSmallOrder_iff T1_onCurve).mp (by decide +kernel)

theorem four_smul_T1_ne : 4 • T1pt ≠ 0 := by
  intro h
  have := ((PtIs.of_toEd Pt.T1 T1_onCurve).smul 4).isZero_iff.mpr h
  exact absurd this (by decide +kernel)

theorem addOrderOf_T1 : addOrderOf T1pt = 8 := by
  have : Fact (Nat.Prime 2) := ⟨Nat.prime_two⟩
  have := addOrderOf_eq_prime_pow (p := 2) (n := 2) (x := T1pt)
    (by norm_num; exact four_smul_T1_ne) (by norm_num; exact eight_smul_T1)
  simpa using this

/-! ### at most 2^256 points: the canonical encoding is injective -/

/-- the value of the canonical encoding -/
def encNat (P : CurvePt) : Fin (2 ^ 256) :=
  ⟨leNat (Pt.encode P.1), by
    have := Voi.Props.Bytes.leNat_lt (Pt.encode P.1)
    rw [Voi.Props.C10.encode_size] at this
    have e : (256 : ℕ) ^ 32 = 2 ^ 256 := by norm_num
    rw [e] at this; exact this⟩

theorem encNat_injective : Function.Injective encNat := by
  intro P Q h
  have h1 : leNat (Pt.encode P.1) = leNat (Pt.encode Q.1) := congrArg Fin.val h
  have h2 : Pt.encode P.1 = Pt.encode Q.1 :=
    Voi.Props.Bytes.leNat_inj (by rw [Voi.Props.C10.encode_size, Voi.Props.C10.encode_size]) h1
  exact Subtype.ext (Voi.Props.C10.encode_injective P.2 Q.2 h2)

instance : Finite CurvePt := Finite.of_injective encNat encNat_injective
instance : Finite Ed25519 := Finite.of_equiv CurvePt toEdEquiv

theorem card_CurvePt_le : Nat.card CurvePt ≤ 2 ^ 256 := by
  have := Nat.card_le_card_of_injective encNat encNat_injective
  rwa [Nat.card_fin] at this

theorem card_eq_CurvePt : Nat.card Ed25519 = Nat.card CurvePt := (Nat.card_congr toEdEquiv).symm

/-! ### the squeeze -/

theorem eightL_dvd_card : 8 * L ∣ Nat.card Ed25519 := by
  have h8 : 8 ∣ Nat.card Ed25519 := addOrderOf_T1 ▸ addOrderOf_dvd_natCard T1pt
  have hL : L ∣ Nat.card Ed25519 := addOrderOf_B ▸ addOrderOf_dvd_natCard Bpt
  have hcop : Nat.Coprime 8 L := by decide
  exact hcop.mul_dvd_of_dvd_of_dvd h8 hL

/-- **#edwards25519(F_p) = 8·L** -/
theorem card_Ed25519 : Nat.card Ed25519 = 8 * L := by
  obtain ⟨m, hm⟩ := eightL_dvd_card
  have hpos : 0 < Nat.card Ed25519 := Nat.card_pos
  have hle : Nat.card Ed25519 ≤ 2 ^ 256 := card_eq_CurvePt ▸ card_CurvePt_le
  have hlt : 2 ^ 256 < 8 * L * 2 := by decide
  have hm1 : m = 1 := by
    rcases Nat.lt_or_ge m 2 with h | h
    · rcases Nat.eq_zero_or_pos m with h0 | h0
      · rw [h0, Nat.mul_zero] at hm; omega
      · omega
    · have : 8 * L * 2 ≤ 8 * L * m := Nat.mul_le_mul_left _ h
      omega
  rw [hm, hm1, Nat.mul_one]

theorem card_CurvePt : Nat.card CurvePt = 8 * L := card_eq_CurvePt ▸ card_Ed25519

/-- **The group-order fact that C01 needs**: every point of edwards25519 is killed by `8·L`. -/
theorem exp_Ed25519 (A : Ed25519) : (8 * L) • A = 0 := by
  rw [← card_Ed25519]; exact card_nsmul_eq_zero'

/-- consequently `8•A` lies in the prime-order subgroup -/
theorem L_smul_eight_smul (A : Ed25519) : L • (8 • A) = 0 := by
  rw [smul_smul, Nat.mul_comm]; exact exp_Ed25519 A

example : (8 * L) • T1pt = 0 := exp_Ed25519 _
example : (8 * L) • (Bpt + T1pt) = 0 := exp_Ed25519 _

end Voi.Proofs

#print axioms Voi.Proofs.addOrderOf_T1
#print axioms Voi.Proofs.encNat_injective
#print axioms Voi.Proofs.card_Ed25519
#print axioms Voi.Proofs.exp_Ed25519
