/-
CONNECTING the developments: the interface `Voi.Model.Ed25519.EdIface`, instantiated on the ON-CURVE points of the
executable Spec, satisfies every law and every hypothesis of C01/C02 — and decides the same thing as the executable
instance `concrete` (whose carrier `Pt` also contains off-curve pairs) on ALL inputs.

  * `instAddCommGroupCurvePt`   `CurvePt = {P : Pt // P.onCurve}` with the EXECUTABLE `Pt.add/neg/smul` is a commutative
                                group (pulled back along the injection `toEd' : CurvePt → Ed25519` of `SpecBridge`);
                                `toEdAddEquiv : CurvePt ≃+ Ed25519`;
  * `onCurve : EdIface`         carrier `CurvePt`; every other field is the field of `concrete` (decode lands on the
                                curve by `C10.decode_on_curve`);
  * `onCurve_laws : Laws onCurve`     group laws by `rfl`; `L•B = 0`, `isSmallOrder ↔ 8•P = 0` from `SpecBridge`;
                                codec laws from `C10`; `L` prime from `Primes`; `scMinimal_iff` from `ScMinimal`;
  * `onCurve_expHyp : ExpHyp onCurve`         from `GroupOrder.exp_Ed25519` (#E = 8·L) — NO LONGER a hypothesis;
  * `onCurve_shortVecOK : k < 2^512 → ShortVecOK onCurve k`   from `LatticeInv` + the fuel bound of `LatticeFuel`
                                (every challenge is `< L < 2^512`) — `Finished k` is NO LONGER a hypothesis;
  * `onCurve_orderExact : OrderExact onCurve` from `SpecBridge.addOrderOf_B`;
  * `Hom I J φ`                 interface morphisms; `Hom.verify_eq`, `Hom.specG_verify_eq`, `Hom.signWith_eq`,
                                `Hom.verifyExpanded_eq` …: a morphism preserves every decision;
  * `val_hom : Hom onCurve concrete Subtype.val`, hence
    `verify_onCurve_eq_concrete`, `specG_onCurve_eq_concrete`, `specG_onCurve_eq_spec` (= `Voi.Spec.Ed25519.verify`).
  So `Model.verify concrete` only ever manipulates on-curve points, on which the laws hold.

No `sorry`, no `axiom`, no `native_decide`.  Mathlib is used; this module must not be imported by Voi/Drv/* or Main.lean.
-/
import Mathlib.Algebra.Group.InjSurj
import Mathlib.Algebra.Group.Equiv.Basic
import Mathlib.Tactic.SplitIfs
import Voi.Proofs.SpecBridge
import Voi.Proofs.GroupOrder
import Voi.Props.C10
import Voi.Props.ScMinimal
import Voi.Props.LatticeFuel
import Voi.Props.C02

namespace Voi.Proofs.ConcreteIface
open Voi Voi.Spec Voi.Proofs Voi.Model.Ed25519 Voi.Props.C01
open Voi.Spec.Ed25519 (VOpts Dom dom2)

set_option exponentiation.threshold 1024

/-! ## The group of on-curve Spec points (executable operations) -/

/-- `z • P` for an integer `z`, by the executable `Pt.smul` and `Pt.neg` -/
def CurvePt.zsmul (z : ℤ) (P : CurvePt) : CurvePt :=
  if 0 ≤ z then CurvePt.smul z.toNat P else CurvePt.neg (CurvePt.smul (-z).toNat P)

instance : Zero CurvePt := ⟨CurvePt.zero⟩
instance : Add CurvePt := ⟨CurvePt.add⟩
instance : Neg CurvePt := ⟨CurvePt.neg⟩
instance : Sub CurvePt := ⟨fun P Q => CurvePt.add P (CurvePt.neg Q)⟩
instance : SMul ℕ CurvePt := ⟨CurvePt.smul⟩
instance : SMul ℤ CurvePt := ⟨CurvePt.zsmul⟩

theorem toEd'_zsmul (z : ℤ) (P : CurvePt) : toEd' (CurvePt.zsmul z P) = z • toEd' P := by
  unfold CurvePt.zsmul
  split
  · rename_i h
    rw [toEd'_smul, ← natCast_zsmul, Int.toNat_of_nonneg h]
  · rename_i h
    have h' : 0 ≤ -z := by omega
    rw [toEd'_neg, toEd'_smul, ← natCast_zsmul, Int.toNat_of_nonneg h', neg_smul, neg_neg]

theorem toEd'_zero' : toEd' (0 : CurvePt) = 0 := toEd'_zero
theorem toEd'_add' (P Q : CurvePt) : toEd' (P + Q) = toEd' P + toEd' Q := toEd'_add P Q
theorem toEd'_neg' (P : CurvePt) : toEd' (-P) = -toEd' P := toEd'_neg P
theorem toEd'_sub' (P Q : CurvePt) : toEd' (P - Q) = toEd' P - toEd' Q := by
  show toEd' (CurvePt.add P (CurvePt.neg Q)) = _
  rw [toEd'_add, toEd'_neg, sub_eq_add_neg]
theorem toEd'_nsmul (P : CurvePt) (n : ℕ) : toEd' (n • P) = n • toEd' P := toEd'_smul n P
theorem toEd'_zsmul' (P : CurvePt) (z : ℤ) : toEd' (z • P) = z • toEd' P := toEd'_zsmul z P

/-- **the on-curve points of the executable Spec, with the executable operations, are a commutative group** -/
instance instAddCommGroupCurvePt : AddCommGroup CurvePt :=
  Function.Injective.addCommGroup toEd' toEd'_bijective.1 toEd'_zero' toEd'_add' toEd'_neg' toEd'_sub'
    toEd'_nsmul toEd'_zsmul'

/-- … isomorphic to the Mathlib group `Ed25519` of `Ed25519Group` -/
noncomputable def toEdAddEquiv : CurvePt ≃+ Ed25519 :=
  { toEdEquiv with map_add' := toEd'_add' }

@[simp] theorem toEdAddEquiv_apply (P : CurvePt) : toEdAddEquiv P = toEd' P := rfl

theorem toEd'_inj {P Q : CurvePt} : toEd' P = toEd' Q ↔ P = Q := toEd'_bijective.1.eq_iff
theorem toEd'_eq_zero {P : CurvePt} : toEd' P = 0 ↔ P = 0 := by rw [← toEd'_zero', toEd'_inj]

/-! ## The interface instance on the curve -/

/-- restrict an optional Spec point that is known to be on the curve -/
def liftOpt : (o : Option Pt) → (∀ P, o = some P → P.onCurve = true) → Option CurvePt
  | none, _ => none
  | some P, H => some ⟨P, H P rfl⟩

theorem liftOpt_some {o : Option Pt} {P : Pt} (h : o = some P) (H : ∀ P, o = some P → P.onCurve = true) :
    liftOpt o H = some ⟨P, H P h⟩ := by subst h; rfl

theorem liftOpt_map (o : Option Pt) (H : ∀ P, o = some P → P.onCurve = true) :
    (liftOpt o H).map Subtype.val = o := by cases o <;> rfl

/-- the base point on the curve -/
def Bc : CurvePt := ⟨Pt.B, B_onCurve⟩

theorem toEd'_Bc : toEd' Bc = Bpt := rfl

/-- The interface of `Voi.Model.Ed25519` on the curve: same executable functions as `concrete`, carrier `CurvePt`. -/
abbrev onCurve : EdIface where
  G := CurvePt
  zero := CurvePt.zero
  add := CurvePt.add
  neg := CurvePt.neg
  smul := CurvePt.smul
  B := Bc
  decode := fun b => liftOpt (Pt.decode b) (fun _ h => (Voi.Props.C10.decode_on_curve h).1)
  encode := fun P => Pt.encode P.1
  isCanonicalEnc := Pt.isCanonicalEnc
  isSmallOrder := fun P => Pt.isSmallOrder P.1
  beqG := fun P Q => P.1 == Q.1
  L := Voi.Spec.L
  scMinimal := scMinimalVartime
  hash512 := sha512
  shortVec := Voi.Model.Lattice.fsv

instance : AddCommGroup onCurve.G := instAddCommGroupCurvePt

theorem decode_some {b : Bytes} {P : Pt} (h : Pt.decode b = some P) :
    onCurve.decode b = some ⟨P, (Voi.Props.C10.decode_on_curve h).1⟩ := liftOpt_some h _

theorem decode_val (b : Bytes) : (onCurve.decode b).map Subtype.val = Pt.decode b := liftOpt_map _ _

/-! ## The laws -/

theorem onCurve_L_B : onCurve.L • onCurve.B = 0 := by
  apply toEd'_eq_zero.1
  rw [toEd'_nsmul]
  exact L_smul_B

theorem onCurve_isSmallOrder_iff (P : CurvePt) : onCurve.isSmallOrder P = true ↔ (8 : ℕ) • P = 0 := by
  rw [← toEd'_eq_zero, toEd'_nsmul]
  dsimp only [onCurve]
  have h := Voi.Proofs.isSmallOrder_iff P.2
  unfold toEd'
  exact h

/-- **every law of `Voi.Props.C01.Laws` holds for the on-curve instance** -/
theorem onCurve_laws : Laws onCurve where
  zero_eq := rfl
  add_eq := fun _ _ => rfl
  neg_eq := fun _ => rfl
  smul_eq := fun _ _ => rfl
  L_prime := Voi.Proofs.L_prime
  coprime8 := by decide
  L_lt := by decide
  L_B := onCurve_L_B
  isSmallOrder_iff := onCurve_isSmallOrder_iff
  decode_encode := fun P => decode_some (Voi.Props.C10.encode_decode P.2)
  canonical_encode := fun P => Voi.Props.C10.encode_canonical P.2
  encode_size := fun P => Voi.Props.C10.encode_size P.1
  scMinimal_iff := fun b hs => Voi.Props.ScMinimal.scMinimal_iff' b hs

/-- **the group-order hypothesis of C01 is a theorem** (`GroupOrder`: #E = 8·L) -/
theorem onCurve_expHyp : ExpHyp onCurve := by
  intro P
  apply toEd'_eq_zero.1
  rw [toEd'_nsmul]
  exact exp_Ed25519 _

/-- **the lattice hypothesis of C01 is a theorem** for every `k < 2^512` (`LatticeInv` + `LatticeFuel`) -/
theorem onCurve_shortVecOK {k : ℕ} (hk : k < 2 ^ 512) : ShortVecOK onCurve k := by
  have hL : ((onCurve.L : ℕ) : ℤ) = Voi.Model.Lattice.L := by decide
  refine ⟨?_, ?_⟩
  · rw [hL]; exact Voi.Props.LatticeInv.fsv_congr k
  · rw [hL]; exact Voi.Props.LatticeFuel.fsv_d1_not_dvd' hk

theorem onCurve_shortVecOK_lt (k : ℕ) (hk : k < onCurve.L) : ShortVecOK onCurve k :=
  onCurve_shortVecOK (lt_trans hk (by decide))

/-- the same for the executable instance (no `Finished` hypothesis any more) -/
theorem concrete_shortVecOK' {k : ℕ} (hk : k < 2 ^ 512) : ShortVecOK concrete k :=
  concrete_shortVecOK k (Voi.Props.LatticeFuel.finished_of_lt hk)

/-- **B has order exactly L** (`SpecBridge.addOrderOf_B`) -/
theorem onCurve_orderExact : Voi.Props.C02.OrderExact onCurve := by
  intro n hn
  have h1 : n • Bpt = 0 := by
    have := congrArg toEd' hn
    rwa [toEd'_zsmul', toEd'_zero'] at this
  have h2 := (addOrderOf_dvd_iff_zsmul_eq_zero (x := Bpt)).2 h1
  rwa [addOrderOf_B] at h2

/-! ## Interface morphisms preserve every decision -/

/-- a map of carriers commuting with every operation of the interface -/
structure Hom (I J : EdIface) (φ : I.G → J.G) : Prop where
  zero : φ I.zero = J.zero
  add : ∀ P Q, φ (I.add P Q) = J.add (φ P) (φ Q)
  neg : ∀ P, φ (I.neg P) = J.neg (φ P)
  smul : ∀ n P, φ (I.smul n P) = J.smul n (φ P)
  B : φ I.B = J.B
  decode : ∀ b, J.decode b = (I.decode b).map φ
  encode : ∀ P, J.encode (φ P) = I.encode P
  isCanonicalEnc : J.isCanonicalEnc = I.isCanonicalEnc
  isSmallOrder : ∀ P, J.isSmallOrder (φ P) = I.isSmallOrder P
  L : J.L = I.L
  scMinimal : J.scMinimal = I.scMinimal
  hash512 : J.hash512 = I.hash512
  shortVec : J.shortVec = I.shortVec

namespace Hom
variable {I J : EdIface} {φ : I.G → J.G} (h : Hom I J φ)
include h

theorem unpackPublicKey_eq (o : VOpts) (pk : Bytes) :
    unpackPublicKey J o pk = (unpackPublicKey I o pk).map φ := by
  unfold unpackPublicKey
  rw [h.decode pk, h.isCanonicalEnc]
  cases I.decode pk with
  | none => rfl
  | some A =>
    simp only [Option.map_some, h.isSmallOrder]
    split_ifs <;> rfl

theorem unpackSignature_eq (o : VOpts) (sig : Bytes) :
    unpackSignature J o sig = (unpackSignature I o sig).map (Prod.map φ id) := by
  unfold unpackSignature
  simp only [h.decode, h.isCanonicalEnc, h.scMinimal, h.L, ← h.zero]
  generalize I.decode (bslice sig 0 32) = d
  cases d with
  | none =>
    simp only [Option.map_none]
    split_ifs <;> rfl
  | some R =>
    simp only [Option.map_some, h.isSmallOrder]
    split_ifs <;> rfl

theorem hram_eq (f : Dom) (ctx sig pk msg : Bytes) : hram J f ctx sig pk msg = hram I f ctx sig pk msg := by
  unfold hram; rw [h.hash512, h.L]

theorem challenge_eq (f : Dom) (ctx r a msg : Bytes) :
    SpecG.challenge J f ctx r a msg = SpecG.challenge I f ctx r a msg := by
  unfold SpecG.challenge; rw [h.hash512, h.L]

theorem double_eq (a : ℕ) (A : I.G) (b : ℕ) :
    doubleScalarMulBasepoint J a (φ A) b = φ (doubleScalarMulBasepoint I a A b) := by
  unfold doubleScalarMulBasepoint
  rw [h.add, h.smul, h.smul, h.B]

theorem triple_eq (a : ℕ) (A : I.G) (b : ℕ) (C : I.G) :
    tripleScalarMulBasepoint J a (φ A) b (φ C) = φ (tripleScalarMulBasepoint I a A b C) := by
  unfold tripleScalarMulBasepoint scNeg
  simp only [h.shortVec, h.L, ← h.B, ← h.neg, ← h.smul]
  split_ifs <;> simp only [← h.smul, ← h.add]

theorem cofactorless_eq (R : I.G) (sig : Bytes) : cofactorlessVerify J (φ R) sig = cofactorlessVerify I R sig := by
  unfold cofactorlessVerify; rw [h.encode]

/-- **a morphism preserves the decision of the code-shaped model** -/
theorem verify_eq (o : VOpts) (f : Dom) (ctx pk msg sig : Bytes) :
    verify J o f ctx pk msg sig = verify I o f ctx pk msg sig := by
  unfold verify
  rw [h.unpackPublicKey_eq, h.unpackSignature_eq, h.hram_eq]
  cases unpackPublicKey I o pk with
  | none => rfl
  | some A =>
    cases unpackSignature I o sig with
    | none => rfl
    | some RS =>
      obtain ⟨R, S⟩ := RS
      simp only [Option.map_some, Prod.map, id, ← h.neg, h.double_eq, h.triple_eq, h.cofactorless_eq,
        h.isSmallOrder]

/-- **… and of the declarative predicate** -/
theorem specG_verify_eq (o : VOpts) (f : Dom) (ctx pk msg sig : Bytes) :
    SpecG.verify J o f ctx pk msg sig = SpecG.verify I o f ctx pk msg sig := by
  unfold SpecG.verify
  simp only [h.decode, h.isCanonicalEnc, h.L, h.challenge_eq]
  generalize I.decode pk = dA
  generalize I.decode (bslice sig 0 32) = dR
  cases dA with
  | none => rfl
  | some A =>
    cases dR with
    | none => simp only [Option.map_some, Option.map_none, ← h.B, ← h.smul, ← h.neg, ← h.add, h.encode, h.isSmallOrder]
    | some R => simp only [Option.map_some, ← h.B, ← h.smul, ← h.neg, ← h.add, h.encode, h.isSmallOrder]

/-- … and the produced signature -/
theorem signWith_eq (f : Dom) (ctx : Bytes) (a r : ℕ) (aBytes msg : Bytes) :
    SpecG.signWith J f ctx a r aBytes msg = SpecG.signWith I f ctx a r aBytes msg := by
  unfold SpecG.signWith
  simp only [← h.B, ← h.smul, h.encode, h.challenge_eq, h.L]

/-- image of an expanded key -/
def mapKey (φ : I.G → J.G) (xk : ExpandedKey I) : ExpandedKey J :=
  { compressed := xk.compressed, negA := φ xk.negA, isValidY := xk.isValidY, isSmallOrder := xk.isSmallOrder,
    isCanonical := xk.isCanonical }

theorem newExpandedPublicKey_eq (pk : Bytes) :
    newExpandedPublicKey J pk = (newExpandedPublicKey I pk).map (mapKey φ) := by
  unfold newExpandedPublicKey
  rw [h.decode pk, h.isCanonicalEnc]
  cases I.decode pk with
  | none => rfl
  | some A => simp only [Option.map_some, mapKey, h.isSmallOrder, h.neg]

theorem verifyExpanded_eq (o : VOpts) (f : Dom) (ctx : Bytes) (xk : ExpandedKey I) (msg sig : Bytes) :
    verifyExpanded J o f ctx (mapKey φ xk) msg sig = verifyExpanded I o f ctx xk msg sig := by
  unfold verifyExpanded
  have hc : checkExpandedPublicKey J o (mapKey φ xk) = checkExpandedPublicKey I o xk := rfl
  rw [hc, h.unpackSignature_eq, h.hram_eq]
  cases unpackSignature I o sig with
  | none => rfl
  | some RS =>
    obtain ⟨R, S⟩ := RS
    simp only [Option.map_some, Prod.map, id, mapKey, h.double_eq, h.triple_eq, h.cofactorless_eq, h.isSmallOrder]

theorem verifyWithOptions_eq (o : Option VOpts) (hs : HashSel) (ctx pk msg sig : Bytes) :
    verifyWithOptions J o hs ctx pk msg sig = verifyWithOptions I o hs ctx pk msg sig := by
  unfold verifyWithOptions
  simp only [h.verify_eq]

theorem verifyExpandedWithOptions_eq (o : Option VOpts) (hs : HashSel) (ctx pk msg sig : Bytes) :
    verifyExpandedWithOptions J o hs ctx pk msg sig = verifyExpandedWithOptions I o hs ctx pk msg sig := by
  unfold verifyExpandedWithOptions
  rw [h.newExpandedPublicKey_eq]
  cases newExpandedPublicKey I pk with
  | none => rfl
  | some xk => simp only [Option.map_some, h.verifyExpanded_eq]

end Hom

/-! ## `concrete` and `onCurve` decide the same -/

/-- the inclusion of the curve points into all pairs is an interface morphism `onCurve → concrete` -/
theorem val_hom : Hom onCurve concrete (Subtype.val : CurvePt → Pt) where
  zero := rfl
  add := fun _ _ => rfl
  neg := fun _ => rfl
  smul := fun _ _ => rfl
  B := rfl
  decode := fun b => (decode_val b).symm
  encode := fun _ => rfl
  isCanonicalEnc := rfl
  isSmallOrder := fun _ => rfl
  L := rfl
  scMinimal := rfl
  hash512 := rfl
  shortVec := rfl

/-- **`Model.verify concrete` only ever manipulates on-curve points**: it equals the model over the curve -/
theorem verify_onCurve_eq_concrete (o : VOpts) (f : Dom) (ctx pk msg sig : Bytes) :
    verify concrete o f ctx pk msg sig = verify onCurve o f ctx pk msg sig := val_hom.verify_eq o f ctx pk msg sig

theorem specG_onCurve_eq_concrete (o : VOpts) (f : Dom) (ctx pk msg sig : Bytes) :
    SpecG.verify concrete o f ctx pk msg sig = SpecG.verify onCurve o f ctx pk msg sig :=
  val_hom.specG_verify_eq o f ctx pk msg sig

/-- the declarative predicate over the curve IS the executable specification -/
theorem specG_onCurve_eq_spec (o : VOpts) (f : Dom) (ctx pk msg sig : Bytes) :
    SpecG.verify onCurve o f ctx pk msg sig = Voi.Spec.Ed25519.verify o f ctx pk msg sig := by
  rw [← specG_onCurve_eq_concrete, specG_concrete]

theorem signWith_onCurve_eq_concrete (f : Dom) (ctx : Bytes) (a r : ℕ) (aBytes msg : Bytes) :
    SpecG.signWith concrete f ctx a r aBytes msg = SpecG.signWith onCurve f ctx a r aBytes msg :=
  val_hom.signWith_eq f ctx a r aBytes msg

/-! ## Non-vacuity -/

example : onCurve.decode Voi.Props.C10.encB = some Bc :=
  (decode_some (by decide +kernel : Pt.decode Voi.Props.C10.encB = some Pt.B))
example : (8 : ℕ) • Bc ≠ 0 :=
  Voi.Props.C02.not_smallOrder_of_order onCurve onCurve_laws onCurve_orderExact (a := 1)
    (by decide) |> fun h => by simpa using h
example : ShortVecOK onCurve Voi.Props.LatticeInv.kEx := onCurve_shortVecOK (by decide)
/-- the group on `CurvePt` is the executable one: `P + Q` IS `Pt.add` -/
example (P Q : CurvePt) : (P + Q).1 = Pt.add P.1 Q.1 := rfl
example (n : ℕ) (P : CurvePt) : (n • P).1 = Pt.smul n P.1 := rfl

end Voi.Proofs.ConcreteIface

section Axioms
open Voi.Proofs.ConcreteIface
#print axioms instAddCommGroupCurvePt
#print axioms onCurve_laws
#print axioms onCurve_expHyp
#print axioms onCurve_shortVecOK
#print axioms onCurve_orderExact
#print axioms Hom.verify_eq
#print axioms Hom.specG_verify_eq
#print axioms Hom.signWith_eq
#print axioms Hom.verifyExpanded_eq
#print axioms val_hom
#print axioms verify_onCurve_eq_concrete
#print axioms specG_onCurve_eq_spec
end Axioms
